#!/usr/bin/env python3
"""Print the prompt for an independent seeding sub-agent (property text + worktree only)."""
import json,sys
pid=sys.argv[1]
p=[json.loads(l) for l in open('/verif/properties.jsonl') if json.loads(l)['id']==pid][0]
rec={k:p[k] for k in ('id','title','statement','quantifier','why_tests_cant','anchors')}
wt='/tmp/seed-%s'%pid
print(f"""You are working on the Go project Basekick-Labs/arc (a time-series analytical database). Your own scratch git worktree of it is at {wt} — work ONLY inside that directory. Do not read or touch /repo or /verif (other people's work lives there and must stay independent of yours).

Here is a semantic property that arc is supposed to satisfy (a JSON record: title, statement, what it quantifies over, where it is anchored in the code):

{json.dumps(rec,indent=1)}

Your task: produce TWO different, independent changes to arc's non-test source (different mechanisms / different code sites where feasible) that each BREAK this property while the project still compiles and the existing test suite still passes. Each change must be realistic — something a developer could plausibly introduce during a refactor, optimisation, clean-up or well-meant bug fix — and must need something specific to manifest: a particular interleaving, a crash or fault at a particular point, a multi-step sequence of operations, an unusual input, or two cooperating sites that each look fine alone. Do NOT make a change that ordinary use or the existing tests would expose at once. Keep each change small (a few lines to a few dozen).

For each change i in (1, 2) deliver in {wt}/SEED/<i>/ :
  * patch.diff  — `git diff` (relative to HEAD, applies with `git apply` at the worktree root) containing ONLY the change to non-test source files;
  * a demonstration: a Go test file (or small program) that FAILS with the change applied and PASSES without it, stored as SEED/<i>/demo/<repo-relative path of where it must be placed>, e.g. SEED/<i>/demo/internal/wal/seed_demo_test.go (not part of patch.diff); the demo must be deterministic;
  * meta.json — {{"property": "{pid}", "summary": "...what the change does...", "needs_to_manifest": "...the specific input/sequence/interleaving/fault needed...", "demo_cmd": "exact go test command, run from the worktree root", "packages_tested": ["./internal/..."], "why_existing_tests_pass": "..."}}.

You must verify all of this yourself before finishing: (a) with the change applied `go build ./...` succeeds and `go test -mod=mod -vet=off -count=1 <touched packages and the packages that depend on them most directly>` passes; (b) the demo fails with the change and passes on the pristine tree (use `git stash` / `git apply -R`). When you are done leave the worktree pristine (`git checkout -- . && git clean -fd -e SEED`), with only the SEED/ directory added.

Environment: no network. Run go with `export GOFLAGS=-mod=mod GOPROXY=off` and do NOT set GOTOOLCHAIN or GOSUMDB (the toolchain auto-switches to the cached go1.26.4). The production query path needs `-tags duckdb_arrow` (builds offline; the first build of internal/api with it takes minutes). The machine is shared and busy, so builds are slow; be patient and run only the packages you need. Finish with a short report: for each change, the file/function changed, why it breaks the property, what is needed to trigger it, and the commands you ran with their outcomes.""")
