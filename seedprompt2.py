#!/usr/bin/env python3
"""Round-2 seeding prompt: same as seedprompt.py plus a list of changes already tried (from round 1)."""
import json,sys,glob,os,subprocess
pid=sys.argv[1]
base=subprocess.run(['/verif/seedprompt.py',pid],capture_output=True,text=True).stdout.replace('/tmp/seed-%s'%pid,'/tmp/seed2-%s'%pid)
tried=[]
for d in sorted(glob.glob('/tmp/seed-%s/SEED/*/meta.json'%pid)):
    try: m=json.load(open(d)); tried.append('- '+m.get('summary','')[:400])
    except Exception: pass
extra="\n\nOther people have ALREADY tried the following changes for this property; do not repeat them or close variants of them — pick different code sites, mechanisms and triggers (other endpoints/paths/fault points/interleavings, other cooperating sites):\n"+"\n".join(tried)+"\n\nWhen cleaning up at the end keep TASK.md (use `git clean -fd -e SEED -e TASK.md`). In meta.json, demo_cmd must be ONLY the go test command (the demo file will be copied into place by the verifier), and packages_tested must be plain package paths like ./internal/api/.\n"
print(base+extra)
