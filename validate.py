#!/opt/veriftools/pyvenv/bin/python
import json,jsonschema,sys,glob
m=json.load(open('/verif/MANIFEST.json'));jsonschema.validate(m,json.load(open('/root/.vp/MANIFEST.schema.json')))
es=json.load(open('/root/.vp/EVIDENCE.schema.json'))
for p in sorted(glob.glob('/verif/evidence/*.json')):
    jsonschema.validate(json.load(open(p)),es)
    print("ok",p)
print("manifest ok:",len(m['checks']),"checks")
