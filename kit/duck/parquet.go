//go:build verif

package duck

import (
	"database/sql"
	"fmt"
	"math"
	"os"
	"path/filepath"
	"sort"
	"strconv"
	"strings"
	"time"
)

// Null is the canonical rendering of SQL NULL.
const Null = "\x00NULL"

// Canon renders one database/sql value canonically: NULL, times as unix
// microseconds (prefix "t:"), floats by shortest round-trip text (NaN == NaN,
// -0 distinct from 0), bytes as string.
func Canon(v any) string {
	switch x := v.(type) {
	case nil:
		return Null
	case time.Time:
		return "t:" + strconv.FormatInt(x.UnixMicro(), 10)
	case float64:
		if math.IsNaN(x) {
			return "f:NaN"
		}
		return "f:" + strconv.FormatFloat(x, 'g', -1, 64)
	case float32:
		if math.IsNaN(float64(x)) {
			return "f:NaN"
		}
		return "f:" + strconv.FormatFloat(float64(x), 'g', -1, 32)
	case []byte:
		return "s:" + string(x)
	case string:
		return "s:" + x
	case bool:
		return "b:" + strconv.FormatBool(x)
	case int8, int16, int32, int64, int, uint8, uint16, uint32, uint64, uint:
		return fmt.Sprintf("i:%d", x)
	default:
		return fmt.Sprintf("o:%v", x)
	}
}

// Table is a query result in canonical form.
type Table struct {
	Cols  []string
	Types []string // DuckDB type names (from DESCRIBE), may be nil
	Rows  [][]string
}

// Query runs q and returns canonical cells.
func Query(db *sql.DB, q string, args ...any) (*Table, error) {
	rs, err := db.Query(q, args...)
	if err != nil {
		return nil, err
	}
	defer rs.Close()
	cols, err := rs.Columns()
	if err != nil {
		return nil, err
	}
	t := &Table{Cols: cols}
	if cts, err := rs.ColumnTypes(); err == nil {
		for _, ct := range cts {
			t.Types = append(t.Types, ct.DatabaseTypeName())
		}
	}
	for rs.Next() {
		vals := make([]any, len(cols))
		ptrs := make([]any, len(cols))
		for i := range vals {
			ptrs[i] = &vals[i]
		}
		if err := rs.Scan(ptrs...); err != nil {
			return nil, err
		}
		row := make([]string, len(cols))
		for i, v := range vals {
			row[i] = Canon(v)
		}
		t.Rows = append(t.Rows, row)
	}
	return t, rs.Err()
}

// SQLString quotes s as a DuckDB single-quoted literal.
func SQLString(s string) string { return "'" + strings.ReplaceAll(s, "'", "''") + "'" }

// ReadParquet reads the given parquet files (union_by_name) in canonical form.
// An empty file list yields an empty table.
func ReadParquet(db *sql.DB, files []string) (*Table, error) {
	if len(files) == 0 {
		return &Table{}, nil
	}
	qs := make([]string, len(files))
	for i, f := range files {
		qs[i] = SQLString(f)
	}
	return Query(db, "SELECT * FROM read_parquet(["+strings.Join(qs, ",")+"], union_by_name=true)")
}

// FindParquet lists *.parquet files under root (recursively), sorted.
func FindParquet(root string) []string {
	var out []string
	_ = filepath.Walk(root, func(p string, info os.FileInfo, err error) error {
		if err == nil && !info.IsDir() && strings.HasSuffix(p, ".parquet") {
			out = append(out, p)
		}
		return nil
	})
	sort.Strings(out)
	return out
}

// RowMaps converts a table to one map per row (column -> canonical cell).
func (t *Table) RowMaps() []map[string]string {
	out := make([]map[string]string, len(t.Rows))
	for i, r := range t.Rows {
		m := make(map[string]string, len(t.Cols))
		for j, c := range t.Cols {
			m[c] = r[j]
		}
		out[i] = m
	}
	return out
}

// RowKey renders a row map canonically (sorted columns; NULL cells omitted when
// dropNull so that "column absent" and "column NULL" compare equal).
func RowKey(m map[string]string, dropNull bool) string {
	ks := make([]string, 0, len(m))
	for k := range m {
		ks = append(ks, k)
	}
	sort.Strings(ks)
	var b strings.Builder
	for _, k := range ks {
		if dropNull && m[k] == Null {
			continue
		}
		b.WriteString(strconv.Quote(k))
		b.WriteByte('=')
		b.WriteString(strconv.Quote(m[k]))
		b.WriteByte(';')
	}
	return b.String()
}

// Multiset is a bag of canonical row keys.
type Multiset map[string]int

// MultisetOf builds the bag for the rows.
func MultisetOf(rows []map[string]string, dropNull bool) Multiset {
	ms := Multiset{}
	for _, r := range rows {
		ms[RowKey(r, dropNull)]++
	}
	return ms
}

// Diff returns human-readable differences (want vs got), at most limit lines.
func (want Multiset) Diff(got Multiset, limit int) []string {
	var out []string
	keys := map[string]bool{}
	for k := range want {
		keys[k] = true
	}
	for k := range got {
		keys[k] = true
	}
	ks := make([]string, 0, len(keys))
	for k := range keys {
		ks = append(ks, k)
	}
	sort.Strings(ks)
	for _, k := range ks {
		if want[k] != got[k] {
			out = append(out, fmt.Sprintf("row %s: want x%d got x%d", k, want[k], got[k]))
			if len(out) >= limit {
				break
			}
		}
	}
	return out
}
