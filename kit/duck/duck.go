//go:build verif

// Package duck opens a plain in-memory DuckDB (database/sql) used as the
// reference evaluator by the /verif harnesses.
package duck

import (
	"database/sql"
	"fmt"

	_ "github.com/duckdb/duckdb-go/v2" // driver
)

// Open returns a fresh in-memory DuckDB restricted to one connection so that
// temp views/tables created by a harness are visible to later statements.
func Open() (*sql.DB, error) {
	db, err := sql.Open("duckdb", "")
	if err != nil {
		return nil, err
	}
	db.SetMaxOpenConns(1)
	if err := db.Ping(); err != nil {
		return nil, err
	}
	return db, nil
}

// QueryStrings runs a query and returns every cell rendered as a string
// ("\x00NULL" for NULL), plus the column names.
func QueryStrings(db *sql.DB, q string, args ...any) (cols []string, rows [][]string, err error) {
	rs, err := db.Query(q, args...)
	if err != nil {
		return nil, nil, err
	}
	defer rs.Close()
	cols, err = rs.Columns()
	if err != nil {
		return nil, nil, err
	}
	for rs.Next() {
		vals := make([]any, len(cols))
		ptrs := make([]any, len(cols))
		for i := range vals {
			ptrs[i] = &vals[i]
		}
		if err := rs.Scan(ptrs...); err != nil {
			return nil, nil, err
		}
		row := make([]string, len(cols))
		for i, v := range vals {
			switch x := v.(type) {
			case nil:
				row[i] = "\x00NULL"
			case []byte:
				row[i] = string(x)
			case string:
				row[i] = x
			default:
				row[i] = fmt.Sprintf("%v", x)
			}
		}
		rows = append(rows, row)
	}
	return cols, rows, rs.Err()
}
