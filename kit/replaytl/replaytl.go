//go:build verif

// Package replaytl generates receive/replay timelines for nonce-protected,
// timestamped requests and judges them (property C26): every signed request is
// accepted at most once over the whole timeline and never while its signed
// timestamp is outside the tolerance window. It knows nothing about arc: the
// caller supplies the clock setter, the cache constructor and the delivery
// function (real validators / real handlers).
package replaytl

import (
	"fmt"
	"sort"
	"strings"
	"time"

	"pgregory.net/rapid"
)

// Site is one nonce-protected message type as wired in the code under test.
type Site struct {
	Type, Cache, Origin string
	Tolerance, TTL      time.Duration
	TolExpr, TTLExpr    string
}

// Msg is one signed request.
type Msg struct {
	Type    string `json:"type"`
	Sender  string `json:"sender"`
	Nonce   string `json:"nonce"`
	TS      int64  `json:"signed_ts"` // unix seconds
	Payload string `json:"payload"`
	MAC     string `json:"-"`
}

// Event is one delivery of Msgs[Msg] at clock At (unix ns) or, when Kind is set, one
// piece of cluster-membership traffic about Node interleaved with the deliveries:
// "leave" = an authenticated leave notification for Node (signed with LeaveNonce /
// LeaveTS; leave notifications are HMAC'd and timestamped but not nonce-protected, so
// a captured one can itself be replayed), "join" = Node registers again (a restart).
type Event struct {
	At  int64
	Msg int
	Why string

	Kind       string
	Node       string
	LeaveNonce string
	LeaveTS    int64
}

// Timeline is one generated case.
type Timeline struct {
	Site      Site   // message type of the primary request
	Sites     []Site // every message type sharing the primary's nonce cache
	T0        int64  // first receipt of the primary request (unix ns)
	CacheBorn int64  // construction time of the nonce cache (unix ns)
	Msgs      []*Msg
	Events    []Event
}

const (
	sec  = int64(time.Second)
	base = int64(1790000000) // unix seconds
)

// Caches lists the distinct nonce caches of a site table.
func Caches(sites []Site) []string {
	seen := map[string]bool{}
	var out []string
	for _, s := range sites {
		if !seen[s.Cache] {
			seen[s.Cache] = true
			out = append(out, s.Cache)
		}
	}
	return out
}

func sitesOf(all []Site, cache string) []Site {
	var out []Site
	for _, s := range all {
		if s.Cache == cache {
			out = append(out, s)
		}
	}
	return out
}

// FmtClock renders a clock value for logs.
func FmtClock(ns int64) string { return time.Unix(0, ns).UTC().Format("15:04:05.000000000") }

// InWindow: the validators work on whole seconds (time.Now().Unix() - ts).
func InWindow(nowNs, ts int64, tol time.Duration) bool {
	d := nowNs/sec - ts
	if d < 0 {
		d = -d
	}
	return d <= int64(tol/time.Second)
}

func frac(t *rapid.T, label string) int64 {
	switch rapid.IntRange(0, 4).Draw(t, label+"Kind") {
	case 0:
		return 0
	case 1:
		return sec - 1
	case 2:
		return sec / 2
	}
	return rapid.Int64Range(0, sec-1).Draw(t, label)
}

// delay draws a replay delay (ns after the receipt at t0) with mass at the nonce TTL,
// the tolerance, twice the tolerance and the last instant the signed timestamp is
// still fresh, each +-1 s / +-1 ns, plus uniform [0, 3*TTL].
func delay(t *rapid.T, tol, ttl time.Duration, t0, ts int64) (int64, string) {
	pm := int64(rapid.IntRange(-1, 1).Draw(t, "pm"))
	unit, us := sec, "s"
	if rapid.Bool().Draw(t, "pmNs") {
		unit, us = 1, "ns"
	}
	var d int64
	var why string
	switch rapid.IntRange(0, 7).Draw(t, "delayKind") {
	case 0:
		d, why = rapid.Int64Range(0, 2*sec).Draw(t, "immediate"), "immediately"
	case 1:
		d, why = int64(ttl)+pm*unit, fmt.Sprintf("TTL%+d%s", pm, us)
	case 2:
		d, why = 2*int64(tol)+pm*unit, fmt.Sprintf("2*tolerance%+d%s", pm, us)
	case 3:
		d, why = int64(tol)+pm*unit, fmt.Sprintf("tolerance%+d%s", pm, us)
	case 4:
		edge := (ts+int64(tol/time.Second)+1)*sec - 1
		d, why = edge-t0+pm*unit, fmt.Sprintf("window-edge%+d%s", pm, us)
	case 5:
		d, why = 2*int64(tol)+sec+pm*unit, fmt.Sprintf("2*tolerance+1s%+d%s", pm, us)
	default:
		d, why = rapid.Int64Range(0, 3*int64(ttl)).Draw(t, "delay"), "uniform"
	}
	if d < 0 {
		d = 0
	}
	return d, why
}

// Gen draws one timeline over the sites of one nonce cache. keep filters the caches
// the caller can drive (nil = all).
func Gen(t *rapid.T, all []Site, keep func(cache string) bool) *Timeline {
	var caches []string
	for _, c := range Caches(all) {
		if keep == nil || keep(c) {
			caches = append(caches, c)
		}
	}
	if len(caches) == 0 {
		t.Fatalf("harness: no nonce-protected call sites to drive")
	}
	cache := caches[rapid.IntRange(0, len(caches)-1).Draw(t, "cache")]
	sites := sitesOf(all, cache)
	site := sites[rapid.IntRange(0, len(sites)-1).Draw(t, "site")]
	tol, ttl := site.Tolerance, site.TTL
	tolSec := int64(tol / time.Second)
	tl := &Timeline{Site: site, Sites: sites}
	tl.T0 = (base+rapid.Int64Range(0, 1_000_000).Draw(t, "t0sec"))*sec + frac(t, "t0frac")
	// the cache exists before the first receipt (its lazy-eviction timer starts at construction)
	tl.CacheBorn = tl.T0 - []int64{0, 30 * sec, 61 * sec, 1000 * sec}[rapid.IntRange(0, 3).Draw(t, "cacheAge")]

	// signed-timestamp offset: [-T-2s, T+2s] with mass at +-T and 0
	var delta int64
	switch rapid.IntRange(0, 5).Draw(t, "deltaKind") {
	case 0:
		delta = 0
	case 1:
		delta = tolSec + int64(rapid.IntRange(-2, 2).Draw(t, "dEdge"))
	case 2:
		delta = -tolSec + int64(rapid.IntRange(-2, 2).Draw(t, "dEdge"))
	default:
		delta = rapid.Int64Range(-tolSec-2, tolSec+2).Draw(t, "delta")
	}
	senders := []string{"node-a", "node-b"}
	nonces := []string{"4e6f6e6365", "6f74686572"}
	tl.Msgs = []*Msg{{Type: site.Type, Sender: senders[0], Nonce: nonces[0], TS: tl.T0/sec + delta, Payload: "p0"}}
	tl.Events = []Event{{At: tl.T0, Msg: 0, Why: "first receipt"}}
	for i, n := 0, rapid.IntRange(1, 3).Draw(t, "replays"); i < n; i++ {
		d, why := delay(t, tol, ttl, tl.T0, tl.Msgs[0].TS)
		tl.Events = append(tl.Events, Event{At: tl.T0 + d, Msg: 0, Why: "replay after " + why})
	}
	// other traffic in the same cache: same/other sender, same/other nonce, any message
	// type of the cache; drives the lazy eviction sweep and key collisions
	for i, n := 0, rapid.IntRange(0, 4).Draw(t, "noise"); i < n; i++ {
		s := sites[rapid.IntRange(0, len(sites)-1).Draw(t, "nSite")]
		at := tl.T0 + rapid.Int64Range(0, 3*int64(ttl)).Draw(t, "nAt")
		sTol := int64(s.Tolerance / time.Second)
		m := &Msg{Type: s.Type, Sender: senders[rapid.IntRange(0, 1).Draw(t, "nSender")],
			Nonce: nonces[rapid.IntRange(0, 1).Draw(t, "nNonce")], Payload: fmt.Sprintf("n%d", i),
			TS: at/sec + rapid.Int64Range(-sTol-1, sTol+1).Draw(t, "nDelta")}
		tl.Msgs = append(tl.Msgs, m)
		tl.Events = append(tl.Events, Event{At: at, Msg: len(tl.Msgs) - 1, Why: "other traffic"})
		if rapid.Bool().Draw(t, "nReplay") {
			d, why := delay(t, s.Tolerance, ttl, at, m.TS)
			tl.Events = append(tl.Events, Event{At: at + d, Msg: len(tl.Msgs) - 1, Why: "other traffic replayed after " + why})
		}
	}
	sort.SliceStable(tl.Events, func(i, j int) bool { return tl.Events[i].At < tl.Events[j].At })
	return tl
}

// AddMembership interleaves 0-2 leave notifications (each optionally followed by a
// re-join, optionally replayed later) for the senders of the timeline: right after the
// first receipt, shortly before a replay, or anywhere in the timeline.
func (tl *Timeline) AddMembership(t *rapid.T) {
	n := []int{0, 1, 1, 2}[rapid.IntRange(0, 3).Draw(t, "leaves")]
	var deliveries []Event
	for _, ev := range tl.Events {
		if ev.Kind == "" {
			deliveries = append(deliveries, ev)
		}
	}
	for i := 0; i < n; i++ {
		node := tl.Msgs[0].Sender
		if rapid.IntRange(0, 2).Draw(t, "leaveOther") == 0 {
			node = map[string]string{"node-a": "node-b", "node-b": "node-a"}[node]
		}
		var at int64
		var why string
		switch rapid.IntRange(0, 2).Draw(t, "leaveWhen") {
		case 0:
			at, why = tl.T0+rapid.Int64Range(0, 2*sec).Draw(t, "leaveAfterFirst"), "right after the first receipt"
		case 1:
			d := deliveries[rapid.IntRange(0, len(deliveries)-1).Draw(t, "leaveBefore")]
			at, why = d.At-rapid.Int64Range(0, 2*sec).Draw(t, "leaveLead"), "shortly before a delivery"
			if at < tl.T0 {
				at = tl.T0
			}
		default:
			at, why = tl.T0+rapid.Int64Range(0, 3*int64(tl.Site.TTL)).Draw(t, "leaveAt"), "anywhere"
		}
		lv := Event{At: at, Msg: -1, Why: why, Kind: "leave", Node: node,
			LeaveNonce: fmt.Sprintf("6c65617665%02d", i), LeaveTS: at/sec + int64(rapid.IntRange(-2, 2).Draw(t, "leaveSkew"))}
		tl.Events = append(tl.Events, lv)
		if rapid.Bool().Draw(t, "rejoin") {
			tl.Events = append(tl.Events, Event{At: at + rapid.Int64Range(0, sec).Draw(t, "rejoinAfter"), Msg: -1, Kind: "join", Node: node, Why: "restart"})
		}
		if rapid.IntRange(0, 2).Draw(t, "leaveReplayed") == 0 {
			again := lv
			again.At = at + rapid.Int64Range(0, int64(tl.Site.Tolerance)).Draw(t, "leaveReplayAfter")
			again.Why = "captured leave notification replayed"
			tl.Events = append(tl.Events, again)
		}
	}
	sort.SliceStable(tl.Events, func(i, j int) bool { return tl.Events[i].At < tl.Events[j].At })
}

// Result of running a timeline.
type Result struct {
	Log        []string
	NonTrivial bool   // a replay of an accepted request arrived while its timestamp was still fresh
	Excluded   int    // deliveries removed by the known-finding exclusion
	Membership int    // membership events executed
	FailClass  string // "" = held
	FailText   string
}

// Run executes the timeline. setClock moves the fake clock; deliver runs the real
// receive path and reports acceptance. exclude removes the shape of the open finding
// "nonce entry expires while the timestamp is still fresh": a re-delivery of an
// already accepted request at least one tolerance after its acceptance while it is
// still inside the window.
//
// side, if not nil, receives the membership events (Kind != "") in timeline order;
// they are not judged, only interleaved.
func (tl *Timeline) Run(exclude bool, setClock func(ns int64), deliver func(m *Msg, tol time.Duration) bool, side func(ev Event)) Result {
	var r Result
	tolOf := map[string]time.Duration{}
	for _, s := range tl.Sites {
		tolOf[s.Type] = s.Tolerance
	}
	accepts := make([]int, len(tl.Msgs))
	first := make([]int64, len(tl.Msgs))
	for _, ev := range tl.Events {
		if ev.Kind != "" {
			if side != nil {
				setClock(ev.At)
				side(ev)
				r.Log = append(r.Log, fmt.Sprintf("%s %-16s %s (%s)", FmtClock(ev.At), "membership:"+ev.Kind, ev.Node, ev.Why))
				r.Membership++
			}
			continue
		}
		m := tl.Msgs[ev.Msg]
		mt := tolOf[m.Type]
		inWin := InWindow(ev.At, m.TS, mt)
		if exclude && accepts[ev.Msg] > 0 && inWin && ev.At-first[ev.Msg] >= int64(mt) {
			r.Excluded++
			continue
		}
		setClock(ev.At)
		ok := deliver(m, mt)
		r.Log = append(r.Log, fmt.Sprintf("%s %-16s %s/%s ts=now%+ds (%s) -> %s", FmtClock(ev.At), m.Type, m.Sender, m.Nonce[:4],
			m.TS-ev.At/sec, ev.Why, map[bool]string{true: "ACCEPTED", false: "rejected"}[ok]))
		if ok && !inWin {
			r.FailClass = "accepted-outside-window"
			r.FailText = fmt.Sprintf("type=%s tolerance=%v: accepted with |now-ts|=%ds", m.Type, mt, ev.At/sec-m.TS)
			return r
		}
		if accepts[ev.Msg] > 0 && inWin {
			r.NonTrivial = true
		}
		if ok {
			accepts[ev.Msg]++
			if accepts[ev.Msg] == 1 {
				first[ev.Msg] = ev.At
			} else {
				r.FailClass = "replay-accepted"
				r.FailText = fmt.Sprintf("type=%s (tolerance %s=%v, nonce TTL %s=%v, %s): the same signed request was accepted twice, %v apart",
					m.Type, tl.Site.TolExpr, mt, tl.Site.TTLExpr, tl.Site.TTL, tl.Site.Origin, time.Duration(ev.At-first[ev.Msg]))
				return r
			}
		}
	}
	return r
}

// Describe renders the log for failure messages.
func (r Result) Describe(tl *Timeline) string {
	return fmt.Sprintf("timeline (t0=%s, cache built at %s):\n  %s", FmtClock(tl.T0), FmtClock(tl.CacheBorn), strings.Join(r.Log, "\n  "))
}
