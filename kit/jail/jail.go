//go:build verif

// Package jail builds a scratch "jail" directory that contains a storage root
// plus decoy files OUTSIDE that root, and snapshots/diffs the whole scratch
// tree so a harness can assert which paths an operation created, removed or
// modified. It deliberately knows nothing about how arc resolves keys: the
// oracle is the file system itself.
//
// Layout (base is a fresh temp dir):
//
//	base/outer.parquet            decoy (canary content)
//	base/jail/secret.parquet      decoy
//	base/jail/rootx/f.parquet     decoy in a sibling whose name has the root's name as prefix
//	base/jail/root.part           decoy (optional) - the ".part" sibling of the root itself
//	base/jail/root/...            the storage root, seeded with a few inside files
package jail

import (
	"fmt"
	"io/fs"
	"os"
	"path/filepath"
	"sort"
	"strings"
	"syscall"

	"pgregory.net/rapid"
)

// Canary is contained in every decoy file outside the root and in no file inside it.
const Canary = "CANARY-OUTSIDE-ROOT"

// CanarySize is the exact byte size of every decoy file (no inside file has it).
const CanarySize = 7777

type Jail struct {
	Base string // temp dir holding everything that is snapshotted
	Dir  string // Base/jail
	Root string // Base/jail/root  (the backend root)

	canon       Snapshot // state right after (re)building
	hasRootPart bool
}

// InsideFiles are the root-relative files seeded inside the root.
var InsideFiles = []string{
	"db/cpu/2025/01/01/00/a.parquet",
	"db/cpu/2025/01/01/00/b.parquet",
	"db/mem/c.parquet",
	"top.parquet",
}

var decoys = []string{"outer.parquet", "jail/secret.parquet", "jail/rootx/f.parquet"}

const rootPartDecoy = "jail/root.part"

func canaryContent(name string) []byte {
	b := []byte(Canary + ":" + name + ":")
	for len(b) < CanarySize {
		b = append(b, 'x')
	}
	return b[:CanarySize]
}

// InsideContent is the content seeded for a root-relative inside file.
func InsideContent(rel string) []byte { return []byte("inside:" + rel) }

// New creates the layout under base (which must exist and be empty).
func New(base string, withRootPart bool) (*Jail, error) {
	j := &Jail{Base: base, Dir: filepath.Join(base, "jail"), Root: filepath.Join(base, "jail", "root")}
	if err := j.build(withRootPart); err != nil {
		return nil, err
	}
	return j, nil
}

func (j *Jail) build(withRootPart bool) error {
	ents, err := os.ReadDir(j.Base)
	if err != nil {
		return err
	}
	for _, e := range ents {
		if err := os.RemoveAll(filepath.Join(j.Base, e.Name())); err != nil {
			return err
		}
	}
	if err := os.MkdirAll(j.Root, 0o700); err != nil {
		return err
	}
	ds := append([]string{}, decoys...)
	if withRootPart {
		ds = append(ds, rootPartDecoy)
	}
	for _, d := range ds {
		p := filepath.Join(j.Base, d)
		if err := os.MkdirAll(filepath.Dir(p), 0o700); err != nil {
			return err
		}
		if err := os.WriteFile(p, canaryContent(d), 0o600); err != nil {
			return err
		}
	}
	if err := j.seedInside(); err != nil {
		return err
	}
	j.hasRootPart = withRootPart
	j.canon, err = j.Snap()
	return err
}

func (j *Jail) seedInside() error {
	if err := os.MkdirAll(j.Root, 0o700); err != nil {
		return err
	}
	for _, rel := range InsideFiles {
		p := filepath.Join(j.Root, rel)
		if err := os.MkdirAll(filepath.Dir(p), 0o700); err != nil {
			return err
		}
		if err := os.WriteFile(p, InsideContent(rel), 0o600); err != nil {
			return err
		}
	}
	return nil
}

// Reset brings the jail back to its canonical freshly-built state and returns
// the snapshot of that state. Only what differs is redone: the optional
// root.part decoy is toggled in place, a changed root is re-seeded, and only a
// change outside the root forces a full rebuild. Every rapid case starts with
// Reset, so cases never see each other's residue.
func (j *Jail) Reset(withRootPart bool) (Snapshot, error) {
	if err := j.reset(withRootPart); err != nil {
		return nil, err
	}
	out := make(Snapshot, len(j.canon))
	for k, v := range j.canon {
		out[k] = v
	}
	return out, nil
}

func (j *Jail) reset(withRootPart bool) error {
	cur, err := j.Snap()
	if err != nil || j.VerifyDecoys() != "" {
		return j.build(withRootPart)
	}
	changes := Diff(j.canon, cur)
	if len(j.Outside(changes)) > 0 {
		return j.build(withRootPart)
	}
	if len(changes) > 0 {
		// only the inside of the root changed: re-seed it
		if err := os.RemoveAll(j.Root); err != nil {
			return err
		}
		if err := j.seedInside(); err != nil {
			return err
		}
		if j.canon, err = j.Snap(); err != nil {
			return err
		}
	}
	if withRootPart != j.hasRootPart {
		p := filepath.Join(j.Base, rootPartDecoy)
		if withRootPart {
			if err := os.WriteFile(p, canaryContent(rootPartDecoy), 0o600); err != nil {
				return err
			}
		} else if err := os.Remove(p); err != nil {
			return err
		}
		j.hasRootPart = withRootPart
		if j.canon, err = j.Snap(); err != nil {
			return err
		}
	}
	return nil
}

// VerifyDecoys re-reads every decoy and reports the first whose bytes changed ("" = intact).
func (j *Jail) VerifyDecoys() string {
	ds := append([]string{}, decoys...)
	if j.hasRootPart {
		ds = append(ds, rootPartDecoy)
	}
	for _, d := range ds {
		b, err := os.ReadFile(filepath.Join(j.Base, d))
		if err != nil {
			return fmt.Sprintf("decoy %s unreadable: %v", d, err)
		}
		if string(b) != string(canaryContent(d)) {
			return fmt.Sprintf("decoy %s content changed (%d bytes)", d, len(b))
		}
	}
	return ""
}

// DecoyPaths returns the absolute paths of the decoys (hostile keys like to name them).
func (j *Jail) DecoyPaths() []string {
	return []string{
		filepath.Join(j.Base, "outer.parquet"),
		filepath.Join(j.Dir, "secret.parquet"),
		filepath.Join(j.Dir, "rootx", "f.parquet"),
		filepath.Join(j.Dir, "root.part"),
	}
}

// Inside reports whether an absolute path is the root or lies below it (lexically,
// after cleaning - the harness never creates symlinks).
func (j *Jail) Inside(abs string) bool {
	abs = filepath.Clean(abs)
	return abs == j.Root || strings.HasPrefix(abs, j.Root+string(filepath.Separator))
}

// Entry describes one path in a snapshot. Directories compare by type only
// (their mtime moves whenever a child is added, and timestamps are too coarse
// to be a deterministic witness); files by type, size, inode and mtime.
type Entry struct {
	Mode  fs.FileMode // type bits only
	Size  int64
	Ino   uint64
	Mtime int64
}

// Snapshot maps Base-relative paths to entries.
type Snapshot map[string]Entry

// Snap walks Base (lstat only; no file is opened).
func (j *Jail) Snap() (Snapshot, error) {
	s := Snapshot{}
	err := filepath.WalkDir(j.Base, func(p string, d fs.DirEntry, err error) error {
		if err != nil {
			return err
		}
		rel, _ := filepath.Rel(j.Base, p)
		if rel == "." {
			return nil
		}
		info, err := d.Info()
		if err != nil {
			return err
		}
		e := Entry{Mode: info.Mode().Type()}
		if !info.IsDir() {
			e.Size = info.Size()
			e.Mtime = info.ModTime().UnixNano()
			if st, ok := info.Sys().(*syscall.Stat_t); ok {
				e.Ino = st.Ino
			}
		}
		s[rel] = e
		return nil
	})
	return s, err
}

// Change is one difference between two snapshots.
type Change struct {
	Path string // Base-relative
	Kind string // created | removed | modified
}

func (c Change) String() string { return c.Kind + " " + c.Path }

// Diff lists the differences between two snapshots, sorted by path.
func Diff(before, after Snapshot) []Change {
	var out []Change
	for p, a := range after {
		b, ok := before[p]
		switch {
		case !ok:
			out = append(out, Change{p, "created"})
		case a != b:
			out = append(out, Change{p, "modified"})
		}
	}
	for p := range before {
		if _, ok := after[p]; !ok {
			out = append(out, Change{p, "removed"})
		}
	}
	sort.Slice(out, func(i, k int) bool { return out[i].Path < out[k].Path })
	return out
}

// Outside returns the changes that touch a path which is neither the root nor below it.
func (j *Jail) Outside(ch []Change) []Change {
	var out []Change
	for _, c := range ch {
		if !j.Inside(filepath.Join(j.Base, c.Path)) {
			out = append(out, c)
		}
	}
	return out
}

// CheckConfined snapshots the tree, diffs it against before and returns a
// violation text when anything outside the root was created, removed or
// modified ("" = confined), together with the new snapshot and all changes.
// When something changed it also re-reads the decoys byte for byte.
func (j *Jail) CheckConfined(before Snapshot) (after Snapshot, changes []Change, violation string) {
	after, err := j.Snap()
	if err != nil {
		return before, nil, "snapshot failed: " + err.Error()
	}
	changes = Diff(before, after)
	if out := j.Outside(changes); len(out) > 0 {
		return after, changes, fmt.Sprintf("paths outside the root were touched: %v", out)
	}
	if len(changes) > 0 {
		if v := j.VerifyDecoys(); v != "" {
			return after, changes, "a file outside the root was rewritten: " + v
		}
	}
	return after, changes, ""
}

// ------------------------------------------------------------------ hostile keys

// hostile building blocks; each is non-benign on its own.
var hostileTokens = []string{
	"..", "../", "/..", "../..", "..\\", "\\..\\", "\\", ".", "./", "/", "//", "\x00",
	".\x00.", ".\x00./", "\x00..", "..\x00", "%2e%2e", "%2e%2e%2f", "%2f", "%00", "..%2f", "%5c",
	"．．", "‥", "．", "／", "∕", "⁄", "\u202e", "\u200b", "\u00a0", "\uff0e\uff0e\uff0f",
	"...", "....", "....//", "..;/", "~", "~/", "C:\\", "c:/", "file://", "\r\n", " ", "*", "?",
	"root", "rootx", "root.part", "jail", "secret.parquet", ".part", ".tmp", ".arc-x.tmp",
}

var benignTokens = []string{"db", "cpu", "mem", "2025", "01", "00", "a", "b", "c.parquet", "a.parquet", "top.parquet", "x", "metadata", "v1.metadata.json"}

// IsHostile reports whether a key carries a traversal/absolute/NUL/backslash/encoded/
// look-alike/long element - the "non-trivial" rule of C08's confinement half.
func IsHostile(k string) bool {
	if k == "" || strings.HasPrefix(k, "/") || strings.HasSuffix(k, "/") || len(k) > 255 {
		return true
	}
	for _, s := range []string{"..", "\x00", "\\", "%", "//", "/./", "~", ":"} {
		if strings.Contains(k, s) {
			return true
		}
	}
	for _, seg := range strings.Split(k, "/") {
		if seg == "." || len(seg) > 200 {
			return true
		}
	}
	for _, r := range k {
		if r > 127 || r < 32 {
			return true
		}
	}
	return false
}

// GenKey draws a key string: a "/"-joined mix of benign segments and hostile
// tokens, raw strings, absolute decoy paths, and over-long segments. extra are
// additional whole keys worth trying (e.g. absolute paths of the decoys).
func GenKey(t *rapid.T, extra []string) string {
	switch rapid.IntRange(0, 19).Draw(t, "keyShape") {
	case 0:
		// whole-key constants that resolve to / near the root
		return rapid.SampledFrom([]string{"", "/", ".", "./", "/.", "//", "\x00", "/\x00", ".\x00", "./.", "/./", "..", "../", "/..",
			".\x00.", "root", "../root", "../root.part", "..\x00/root.part", ".\x00./root.part", ".\x00./secret.parquet",
			".\x00./rootx/f.parquet", ".\x00./.\x00./outer.parquet", "../rootx/f.parquet", "../secret.parquet"}).Draw(t, "const")
	case 1:
		if len(extra) > 0 {
			k := rapid.SampledFrom(extra).Draw(t, "extra")
			if rapid.Bool().Draw(t, "dropSlash") {
				k = strings.TrimPrefix(k, "/")
			}
			return k
		}
	case 2:
		// arbitrary unicode string
		return rapid.StringN(0, 40, 200).Draw(t, "raw")
	case 3:
		// over-long segment / over-long key / deep traversal chain. Depth is kept
		// moderate (a 5000-deep directory chain only slows the walk down); length
		// limits are crossed with long SEGMENTS instead (NAME_MAX 255, PATH_MAX 4096).
		switch rapid.IntRange(0, 3).Draw(t, "longKind") {
		case 0:
			n := rapid.SampledFrom([]int{200, 255, 256, 300, 1024, 5000}).Draw(t, "longLen")
			seg := strings.Repeat(rapid.SampledFrom([]string{"a", ".", "é", "\\", "%2e"}).Draw(t, "longUnit"), n)
			if rapid.Bool().Draw(t, "longPrefix") {
				return "db/" + seg + "/x.parquet"
			}
			return seg
		case 1:
			// > PATH_MAX made of legal segments
			return strings.Repeat(strings.Repeat("p", 250)+"/", rapid.IntRange(15, 20).Draw(t, "pathMaxSegs")) + "x.parquet"
		default:
			n := rapid.SampledFrom([]int{8, 20, 60}).Draw(t, "chainLen")
			return strings.Repeat(rapid.SampledFrom([]string{"../", "/..", "..\\", "./", ".\x00./", "%2e%2e/", "‥/"}).Draw(t, "chainUnit"), n) +
				rapid.SampledFrom([]string{"", "secret.parquet", "etc/passwd", "root.part", "rootx/f.parquet"}).Draw(t, "chainTail")
		}
	}
	n := rapid.IntRange(1, 7).Draw(t, "nParts")
	var b strings.Builder
	for i := 0; i < n; i++ {
		var tok string
		if rapid.IntRange(0, 9).Draw(t, "hostile?") < 4 {
			tok = rapid.SampledFrom(hostileTokens).Draw(t, "htok")
		} else {
			tok = rapid.SampledFrom(benignTokens).Draw(t, "btok")
		}
		b.WriteString(tok)
		// separator: mostly "/", sometimes nothing or a backslash
		if i < n-1 || rapid.IntRange(0, 5).Draw(t, "trail") == 0 {
			switch rapid.IntRange(0, 9).Draw(t, "sep") {
			case 0:
			case 1:
				b.WriteString("\\")
			default:
				b.WriteString("/")
			}
		}
	}
	k := b.String()
	if rapid.IntRange(0, 5).Draw(t, "lead") == 0 {
		k = "/" + k
	}
	return k
}
