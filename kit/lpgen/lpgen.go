//go:build verif

// Package lpgen generates InfluxDB line-protocol batches from a *model* (the
// measurement, tags, typed fields and timestamp each line denotes) plus a
// spec-following encoder written from the InfluxDB escaping rules:
//
//	measurement            escapes  ","  " "
//	tag key / tag value /
//	field key              escapes  ","  "="  " "
//	string field value     escapes  "\""  "\\"   (wrapped in double quotes)
//
// Everything else is written raw. In particular a double quote is NOT escaped
// in measurements, tag keys, tag values and field keys, and a backslash that is
// not followed by an escapable character is a literal backslash.
//
// Ambiguous corners of the rules are kept out of the domain by construction:
// outside string field values a literal backslash is only generated when the
// next character is an ordinary one (never before , space = " \ and never
// last); names never start with "_" (reserved namespace) or, for
// measurements, "#" (comment marker); no empty names/tag values; no
// duplicate keys inside a point; no column called "time"; a field is never
// named like a tag of the same measurement.
//
// Used by C01 (layer 1 in internal/ingest, layer 2 in internal/api).
package lpgen

import (
	"fmt"
	"math"
	"strconv"
	"strings"

	"pgregory.net/rapid"
)

// Opts switches shapes off (known-finding exclusions) or selects the API mode.
type Opts struct {
	NoEscapedEqKey     bool // no "=" inside tag keys / field keys
	NoBareQuote        bool // no raw double quote in measurement, tag key, tag value, field key
	NoLenientBackslash bool // string-field backslashes are always written as "\\\\"
	API                bool // layer 2: handler-valid measurement names, smaller batches, clustered times
}

// Field kinds.
const (
	Float  = "float"
	Int    = "int"
	Uint   = "uint"
	String = "string"
	Bool   = "bool"
)

// Tag is one model tag.
type Tag struct {
	K string `json:"k"`
	V string `json:"v"`
}

// Field is one model field with the typed value the line denotes.
type Field struct {
	Key  string  `json:"key"`
	Kind string  `json:"kind"`
	F    float64 `json:"-"`
	I    int64   `json:"i,omitempty"`
	U    uint64  `json:"u,omitempty"`
	S    string  `json:"s,omitempty"`
	B    bool    `json:"b,omitempty"`
	Text string  `json:"text"` // the encoded value as written on the line
}

// Point is one model point.
type Point struct {
	Meas   string   `json:"m"`
	Tags   []Tag    `json:"tags,omitempty"`
	Fields []Field  `json:"fields"`
	HasTS  bool     `json:"has_ts"`
	TS     int64    `json:"ts,omitempty"`
	Line   string   `json:"line"`
	Feats  []string `json:"feats,omitempty"`
}

// Batch is a request body with its model.
type Batch struct {
	Points    []Point `json:"points"`
	Body      string  `json:"body"`
	Precision string  `json:"precision"` // "", ns, us, ms, s ("" means the default, ns)
}

// HasFeat reports whether the point carries a feature flag.
func (p *Point) HasFeat(f string) bool {
	for _, x := range p.Feats {
		if x == f {
			return true
		}
	}
	return false
}

// NonTrivial: the point contains >=1 escaped character in a key or value, or a
// string field containing a delimiter character.
func (p *Point) NonTrivial() bool {
	for _, f := range p.Feats {
		if strings.HasPrefix(f, "esc-") || strings.HasPrefix(f, "str-") || f == "bare-quote" {
			return true
		}
	}
	return false
}

var plainChars = []string{
	"a", "b", "c", "x", "y", "z", "A", "B", "Z", "0", "1", "8", "9", "i", "u", "t", "f", "e", "E",
	"_", "-", ".", ":", "/", "#", "!", "$", "%", "&", "'", "(", ")", "*", "+", ";", "<", ">", "?", "@", "[", "]", "^", "`", "{", "|", "}", "~",
}

var utf8Chars = []string{"é", "ü", "ß", "Ω", "日", "本", "名", "😀", "ñ", "ж"}

type ctxKind int

const (
	ctxMeas ctxKind = iota
	ctxTagKey
	ctxTagVal
	ctxFieldKey
)

// genBare draws a model string for a non-quoted context and returns it with
// the feature flags of what it contains.
func genBare(t *rapid.T, label string, ctx ctxKind, o Opts, feats map[string]bool) string {
	n := rapid.IntRange(1, 6).Draw(t, label+"_n")
	var b strings.Builder
	for i := 0; i < n; i++ {
		cat := rapid.IntRange(0, 99).Draw(t, label+"_cat")
		switch {
		case cat < 45:
			b.WriteString(rapid.SampledFrom(plainChars).Draw(t, label+"_p"))
		case cat < 55:
			b.WriteString(rapid.SampledFrom(utf8Chars).Draw(t, label+"_u"))
			feats["utf8"] = true
		case cat < 62:
			// literal backslash followed by an ordinary character (unambiguous)
			b.WriteString("\\" + rapid.SampledFrom(plainChars).Draw(t, label+"_bp"))
			feats["bs-literal"] = true
		default:
			sp := rapid.SampledFrom([]string{",", " ", "=", "\"", ",", " "}).Draw(t, label+"_s")
			if sp == "=" && o.NoEscapedEqKey && (ctx == ctxTagKey || ctx == ctxFieldKey) {
				sp = ","
			}
			if sp == "\"" && o.NoBareQuote {
				sp = " "
			}
			b.WriteString(sp)
		}
	}
	s := b.String()
	if strings.HasPrefix(s, "_") || (ctx == ctxMeas && strings.HasPrefix(s, "#")) {
		s = "k" + s
	}
	return s
}

// encodeBare writes s for the context following the escaping rules and records
// which escapes were needed.
func encodeBare(s string, ctx ctxKind, feats map[string]bool) string {
	var b strings.Builder
	for i := 0; i < len(s); i++ {
		c := s[i]
		switch c {
		case ',':
			b.WriteString("\\,")
			feats["esc-comma"] = true
		case ' ':
			b.WriteString("\\ ")
			feats["esc-space"] = true
		case '=':
			if ctx == ctxMeas {
				b.WriteByte('=')
				feats["raw-eq-meas"] = true
			} else {
				b.WriteString("\\=")
				feats["esc-eq"] = true
				if ctx == ctxTagKey || ctx == ctxFieldKey {
					feats["esc-eq-key"] = true
				}
			}
		case '"':
			b.WriteByte('"')
			feats["bare-quote"] = true
		default:
			b.WriteByte(c)
		}
	}
	return b.String()
}

var strAtoms = []string{
	"a", "b", "Z", "0", "7", ".", "-", "_", "é", "日", "😀", "i", "u", "t", "#",
	",", ",", " ", " ", "=", "=", "\"", "\"", "\\", "\\", "\\", "'", ":",
}

func genStringValue(t *rapid.T, label string, o Opts, feats map[string]bool) (model, text string) {
	n := rapid.IntRange(0, 8).Draw(t, label+"_n")
	var b strings.Builder
	for i := 0; i < n; i++ {
		b.WriteString(rapid.SampledFrom(strAtoms).Draw(t, label))
	}
	model = b.String()
	lenient := !o.NoLenientBackslash && rapid.IntRange(0, 9).Draw(t, label+"_lenient") == 0
	var e strings.Builder
	e.WriteByte('"')
	for i := 0; i < len(model); i++ {
		c := model[i]
		switch c {
		case '"':
			e.WriteString("\\\"")
			feats["str-quote"] = true
		case '\\':
			feats["str-backslash"] = true
			if lenient && i+1 < len(model) && model[i+1] != '"' && model[i+1] != '\\' {
				e.WriteByte('\\') // a backslash not followed by " or \ is literal
				feats["str-lenient-backslash"] = true
				if strings.IndexByte(", =", model[i+1]) >= 0 {
					feats["str-lenient-backslash-delim"] = true
				}
			} else {
				e.WriteString("\\\\")
			}
		case ',':
			feats["str-comma"] = true
			e.WriteByte(c)
		case ' ':
			feats["str-space"] = true
			e.WriteByte(c)
		case '=':
			feats["str-eq"] = true
			e.WriteByte(c)
		default:
			if c >= 0x80 {
				feats["utf8"] = true
			}
			e.WriteByte(c)
		}
	}
	e.WriteByte('"')
	return model, e.String()
}

var boolTrue = []string{"t", "T", "true", "True", "TRUE"}
var boolFalse = []string{"f", "F", "false", "False", "FALSE"}

func genFloat(t *rapid.T, label string) (float64, string) {
	var f float64
	switch rapid.IntRange(0, 5).Draw(t, label+"_fk") {
	case 0:
		f = rapid.SampledFrom([]float64{0, math.Copysign(0, -1), 1, -1, 0.5, 1e21, 1e-7, math.MaxFloat64, -math.MaxFloat64,
			math.SmallestNonzeroFloat64, 9007199254740993, 1.7976931348623157e308, 123456789.125}).Draw(t, label+"_fs")
	case 1:
		f = float64(rapid.Int64Range(-1000000, 1000000).Draw(t, label+"_fi"))
	case 2:
		f = float64(rapid.Int64Range(-100000, 100000).Draw(t, label+"_fd")) / 100
	default:
		f = rapid.Float64().Draw(t, label+"_ff")
		if math.IsNaN(f) || math.IsInf(f, 0) {
			f = 42.25
		}
	}
	form := rapid.IntRange(0, 3).Draw(t, label+"_form")
	var s string
	switch {
	case form == 0:
		s = strconv.FormatFloat(f, 'e', -1, 64)
	case form == 1 && math.Abs(f) < 1e15 && (f == 0 || math.Abs(f) > 1e-9):
		s = strconv.FormatFloat(f, 'f', -1, 64)
	case form == 2:
		s = strings.ToUpper(strconv.FormatFloat(f, 'e', -1, 64)) // 1E+06
	default:
		s = strconv.FormatFloat(f, 'g', -1, 64)
	}
	return f, s
}

var int64Edges = []int64{0, 1, -1, math.MaxInt64, math.MinInt64, math.MaxInt32, math.MinInt32, 1 << 53, -(1 << 53) - 1, 127, -128}

func genField(t *rapid.T, label, key, kind string, o Opts, feats map[string]bool) Field {
	f := Field{Key: key, Kind: kind}
	switch kind {
	case Float:
		f.F, f.Text = genFloat(t, label)
		feats["field-float"] = true
	case Int:
		if rapid.Bool().Draw(t, label+"_iedge") {
			f.I = rapid.SampledFrom(int64Edges).Draw(t, label+"_ie")
		} else {
			f.I = rapid.Int64().Draw(t, label+"_i")
		}
		f.Text = strconv.FormatInt(f.I, 10) + "i"
		feats["field-int"] = true
	case Uint:
		switch rapid.IntRange(0, 9).Draw(t, label+"_uk") {
		case 0:
			f.U = rapid.SampledFrom([]uint64{0, 1, math.MaxInt64}).Draw(t, label+"_ue")
		case 1:
			if o.API {
				f.U = rapid.Uint64Range(0, math.MaxInt64).Draw(t, label+"_u")
			} else {
				f.U = rapid.SampledFrom([]uint64{math.MaxInt64 + 1, math.MaxUint64}).Draw(t, label+"_ub")
				feats["uint-above-int64"] = true
			}
		case 2:
			f.U = rapid.Uint64().Draw(t, label+"_ufull")
			if o.API && f.U > math.MaxInt64 && rapid.IntRange(0, 9).Draw(t, label+"_ukeep") != 0 {
				f.U >>= 1
			}
			if f.U > math.MaxInt64 {
				feats["uint-above-int64"] = true
			}
		default:
			f.U = rapid.Uint64Range(0, 1<<40).Draw(t, label+"_usmall")
		}
		f.Text = strconv.FormatUint(f.U, 10) + "u"
		feats["field-uint"] = true
	case String:
		f.S, f.Text = genStringValue(t, label+"_s", o, feats)
		feats["field-string"] = true
	case Bool:
		f.B = rapid.Bool().Draw(t, label+"_b")
		if f.B {
			f.Text = rapid.SampledFrom(boolTrue).Draw(t, label+"_bt")
		} else {
			f.Text = rapid.SampledFrom(boolFalse).Draw(t, label+"_bf")
		}
		feats["field-bool"] = true
	}
	return f
}

var kinds = []string{Float, Int, Uint, String, Bool, String, Float}

var apiMeasNames = []string{"cpu", "m", "Mem_2", "disk-io", "a1", "Z"}

// precisionUnitMicros gives a plausible "now-ish" raw timestamp for a precision.
func recentRaw(t *rapid.T, label, precision string, hourSlot int64) int64 {
	// 2020-01-01 .. 2030 in microseconds, clustered into a few hour slots
	baseUS := int64(1577836800000000) + hourSlot*3600_000_000
	us := baseUS + rapid.Int64Range(0, 3599_999_999).Draw(t, label+"_off")
	switch precision {
	case "us":
		return us
	case "ms":
		return us / 1000
	case "s":
		return us / 1_000_000
	default:
		return us*1000 + rapid.Int64Range(0, 999).Draw(t, label+"_nsfrac")
	}
}

var tsEdges = []int64{0, 1, -1, 999, 1000, 1001, -999, -1000, -1001, math.MaxInt64, math.MinInt64, math.MinInt64 + 1,
	math.MaxInt64 / 1000, math.MaxInt64/1000 + 1, math.MinInt64 / 1000, math.MinInt64/1000 - 1,
	math.MaxInt64 / 1_000_000, math.MaxInt64/1_000_000 + 1, math.MinInt64 / 1_000_000, math.MinInt64/1_000_000 - 1,
	-1500, 1500, -62135596800000000}

// schema remembers, per measurement, the role of every column name so that a
// name keeps one role/type across the batch and tag/field names never clash.
type measSchema struct {
	role map[string]string // lower(key) -> role ("tag" or a field kind)
	orig map[string]string // lower(key) -> key as written
}
type schema map[string]*measSchema

func (s schema) pick(t *rapid.T, label, meas, role string, ctx ctxKind, o Opts, used map[string]bool, feats map[string]bool) string {
	ms := s[meas]
	if ms == nil {
		ms = &measSchema{role: map[string]string{}, orig: map[string]string{}}
		s[meas] = ms
	}
	// reuse an existing key of this role?
	var same []string
	for k, r := range ms.role {
		if r == role && !used[k] {
			same = append(same, k)
		}
	}
	if len(same) > 0 && rapid.IntRange(0, 9).Draw(t, label+"_reuse") < 6 {
		sortStrings(same)
		k := rapid.SampledFrom(same).Draw(t, label+"_rk")
		used[k] = true
		return ms.orig[k]
	}
	for attempt := 0; ; attempt++ {
		k := genBare(t, label, ctx, o, feats)
		if attempt > 0 {
			k += strconv.Itoa(attempt)
		}
		lk := strings.ToLower(k)
		if lk == "time" || used[lk] {
			continue
		}
		if _, ok := ms.role[lk]; ok {
			continue // taken (other role, other type, or other letter case)
		}
		// keep clear of the tag/field conflict-suffix namespace
		if strings.HasSuffix(lk, "_value") {
			continue
		}
		ms.role[lk] = role
		ms.orig[lk] = k
		used[lk] = true
		return k
	}
}

func sortStrings(a []string) {
	for i := 1; i < len(a); i++ {
		for j := i; j > 0 && a[j] < a[j-1]; j-- {
			a[j], a[j-1] = a[j-1], a[j]
		}
	}
}

// GenBatch draws a batch.
func GenBatch(t *rapid.T, o Opts) *Batch {
	return genBatchWith(t, o, newSeqState(t, o), false, false)
}

// seqState is what the requests of one sequence share: the measurement pool and
// the per-measurement column schema (name -> role/type).
type seqState struct {
	sch      schema
	measPool []string
}

func newSeqState(t *rapid.T, o Opts) *seqState {
	st := &seqState{sch: schema{}}
	nm := rapid.IntRange(1, 3).Draw(t, "nmeas")
	for i := 0; i < nm; i++ {
		if o.API {
			st.measPool = append(st.measPool, apiMeasNames[(i*2+rapid.IntRange(0, 1).Draw(t, "measname"))%len(apiMeasNames)])
		} else {
			st.measPool = append(st.measPool, "")
		}
	}
	return st
}

// GenSequence draws 1-4 request bodies for the same measurement(s) that are
// meant to be buffered together and flushed once. The first request defines
// each measurement's columns (in "dense" mode every further point of that
// request carries all of them, so its buffered batch has no nulls); every later
// request keeps exactly that column set and types - its first point per
// measurement carries all columns, the others random subsets - so the batches
// share one schema signature and are MERGED by the flush, with a different
// null pattern in each batch.
func GenSequence(t *rapid.T, o Opts) []*Batch {
	st := newSeqState(t, o)
	n := rapid.SampledFrom([]int{2, 1, 3, 4}).Draw(t, "nrequests")
	dense := rapid.IntRange(0, 2).Draw(t, "dense") != 2
	out := []*Batch{genBatchWith(t, o, st, false, dense)}
	for i := 1; i < n; i++ {
		out = append(out, genBatchWith(t, o, st, true, false))
	}
	return out
}

// keysOf lists a measurement's known column names (as written) by role, sorted.
func (ms *measSchema) keysOf(tag bool) []string {
	var lks []string
	for lk, r := range ms.role {
		if (r == "tag") == tag {
			lks = append(lks, lk)
		}
	}
	sortStrings(lks)
	return lks
}

func genBatchWith(t *rapid.T, o Opts, st *seqState, fixed, dense bool) *Batch {
	b := &Batch{}
	b.Precision = rapid.SampledFrom([]string{"", "ns", "us", "ms", "s", "ns", "us"}).Draw(t, "precision")
	maxPts := 30
	if o.API {
		maxPts = 10
	}
	np := 1
	if rapid.IntRange(0, 3).Draw(t, "multi") > 0 {
		np = rapid.IntRange(1, maxPts).Draw(t, "npoints")
	}
	sch, measPool, nm := st.sch, st.measPool, len(st.measPool)
	seenInBatch := map[string]bool{}
	var body strings.Builder
	for pi := 0; pi < np; pi++ {
		feats := map[string]bool{}
		p := Point{}
		mi := rapid.IntRange(0, nm-1).Draw(t, "measidx")
		if measPool[mi] == "" {
			measPool[mi] = genBare(t, "meas", ctxMeas, o, feats)
		}
		p.Meas = measPool[mi]
		used := map[string]bool{}
		ms := sch[p.Meas]
		// "free": draw keys (new or reused); "full": exactly the measurement's
		// known columns; "subset": a random subset of them (>= 1 field)
		mode := "free"
		switch {
		case ms == nil:
		case fixed && !seenInBatch[p.Meas]:
			mode = "full"
		case fixed:
			mode = rapid.SampledFrom([]string{"subset", "full", "subset"}).Draw(t, "pointmode")
		case dense:
			mode = "full"
		}
		seenInBatch[p.Meas] = true
		if mode == "free" {
			nt := rapid.IntRange(0, 4).Draw(t, "ntags")
			for i := 0; i < nt; i++ {
				k := sch.pick(t, "tagk", p.Meas, "tag", ctxTagKey, o, used, feats)
				v := genBare(t, "tagv", ctxTagVal, o, feats)
				p.Tags = append(p.Tags, Tag{k, v})
			}
			nf := rapid.IntRange(1, 5).Draw(t, "nfields")
			for i := 0; i < nf; i++ {
				kind := rapid.SampledFrom(kinds).Draw(t, "kind")
				k := sch.pick(t, "fieldk", p.Meas, kind, ctxFieldKey, o, used, feats)
				p.Fields = append(p.Fields, genField(t, "fv", k, kind, o, feats))
			}
		} else {
			feats["seq-"+mode] = true
			for _, lk := range ms.keysOf(true) {
				if mode == "full" || rapid.Bool().Draw(t, "keeptag") {
					p.Tags = append(p.Tags, Tag{ms.orig[lk], genBare(t, "tagv", ctxTagVal, o, feats)})
				}
			}
			fks := ms.keysOf(false)
			forced := -1
			if mode == "subset" {
				forced = rapid.IntRange(0, len(fks)-1).Draw(t, "forcedfield")
			}
			for i, lk := range fks {
				if mode == "full" || i == forced || rapid.Bool().Draw(t, "keepfield") {
					p.Fields = append(p.Fields, genField(t, "fv", ms.orig[lk], ms.role[lk], o, feats))
				}
			}
			// re-register the escape features of the reused names
			for _, tg := range p.Tags {
				encodeBare(tg.K, ctxTagKey, feats)
			}
		}
		// timestamp
		switch tk := rapid.IntRange(0, 9).Draw(t, "tskind"); {
		case tk < 2:
			p.HasTS = false
			feats["ts-absent"] = true
		case tk < 4 && !o.API:
			p.HasTS, p.TS = true, rapid.Int64().Draw(t, "tsfull")
		case tk < 4:
			p.HasTS, p.TS = true, rapid.Int64().Draw(t, "tsfull")
			if rapid.Bool().Draw(t, "tsfullkeep") {
				p.TS = recentRaw(t, "tsrecent", b.Precision, rapid.Int64Range(0, 2).Draw(t, "slot"))
			}
		case tk < 6:
			p.HasTS, p.TS = true, rapid.SampledFrom(tsEdges).Draw(t, "tsedge")
		default:
			p.HasTS, p.TS = true, recentRaw(t, "tsrecent", b.Precision, rapid.Int64Range(0, 2).Draw(t, "slot"))
		}
		if p.HasTS && p.TS < 0 {
			feats["ts-negative"] = true
		}
		encodeInto(&p, feats)
		b.Points = append(b.Points, p)

		// junk lines before the point
		switch rapid.IntRange(0, 11).Draw(t, "junk") {
		case 0:
			body.WriteString("\n")
		case 1:
			body.WriteString("# a comment, with=stuff \"q\" \\\n")
		case 2:
			body.WriteString("\r\n")
		case 3:
			body.WriteString("#\n")
		}
		body.WriteString(p.Line)
		last := pi == np-1
		switch rapid.IntRange(0, 5).Draw(t, "eol") {
		case 0:
			body.WriteString("\r\n")
		case 1:
			if !last {
				body.WriteString("\n")
			}
		default:
			body.WriteString("\n")
		}
	}
	b.Body = body.String()
	return b
}

// encodeInto writes p.Line from the model following the escaping rules; fields
// without Text get their canonical spelling.
func encodeInto(p *Point, feats map[string]bool) {
	var l strings.Builder
	l.WriteString(encodeBare(p.Meas, ctxMeas, feats))
	for _, tg := range p.Tags {
		l.WriteByte(',')
		l.WriteString(encodeBare(tg.K, ctxTagKey, feats))
		l.WriteByte('=')
		l.WriteString(encodeBare(tg.V, ctxTagVal, feats))
	}
	l.WriteByte(' ')
	for i := range p.Fields {
		f := &p.Fields[i]
		if f.Text == "" {
			switch f.Kind {
			case Float:
				f.Text = strconv.FormatFloat(f.F, 'g', -1, 64)
			case Int:
				f.Text = strconv.FormatInt(f.I, 10) + "i"
			case Uint:
				f.Text = strconv.FormatUint(f.U, 10) + "u"
			case Bool:
				f.Text = strconv.FormatBool(f.B)
			case String:
				r := strings.NewReplacer("\\", "\\\\", "\"", "\\\"")
				f.Text = "\"" + r.Replace(f.S) + "\""
				for _, c := range []struct{ ch, feat string }{{"\"", "str-quote"}, {"\\", "str-backslash"}, {",", "str-comma"}, {" ", "str-space"}, {"=", "str-eq"}} {
					if strings.Contains(f.S, c.ch) {
						feats[c.feat] = true
					}
				}
			}
		}
		if i > 0 {
			l.WriteByte(',')
		}
		l.WriteString(encodeBare(f.Key, ctxFieldKey, feats))
		l.WriteByte('=')
		l.WriteString(f.Text)
	}
	if p.HasTS {
		l.WriteByte(' ')
		l.WriteString(strconv.FormatInt(p.TS, 10))
	}
	p.Line = l.String()
	p.Feats = p.Feats[:0]
	for f := range feats {
		p.Feats = append(p.Feats, f)
	}
	sortStrings(p.Feats)
}

// EncodePoint fills p.Line / p.Feats / missing field texts from the model.
func EncodePoint(p *Point) { encodeInto(p, map[string]bool{}) }

// ExpectMicros returns the acceptable microsecond values for a raw timestamp
// at the given precision; any=true when no microsecond value exists (the
// conversion overflows int64), in which case only "row stored" is required.
func ExpectMicros(ts int64, precision string) (cands []int64, any bool) {
	switch precision {
	case "us":
		return []int64{ts}, false
	case "ms":
		if ts > math.MaxInt64/1000 || ts < math.MinInt64/1000 {
			return nil, true
		}
		return []int64{ts * 1000}, false
	case "s":
		if ts > math.MaxInt64/1_000_000 || ts < math.MinInt64/1_000_000 {
			return nil, true
		}
		return []int64{ts * 1_000_000}, false
	default: // ns: the statement does not fix rounding; truncation and floor are both accepted
		tr := ts / 1000
		fl := tr
		if ts%1000 != 0 && ts < 0 {
			fl = tr - 1
		}
		if fl != tr {
			return []int64{tr, fl}, false
		}
		return []int64{tr}, false
	}
}

// Describe renders a field's model value for messages.
func (f Field) Describe() string {
	switch f.Kind {
	case Float:
		return fmt.Sprintf("float(%s bits=%#x)", strconv.FormatFloat(f.F, 'g', -1, 64), math.Float64bits(f.F))
	case Int:
		return fmt.Sprintf("int(%d)", f.I)
	case Uint:
		return fmt.Sprintf("uint(%d)", f.U)
	case String:
		return fmt.Sprintf("string(%q)", f.S)
	default:
		return fmt.Sprintf("bool(%v)", f.B)
	}
}
