//go:build verif

// Package verifkit is the shared recorder used by every /verif harness. It is
// overlaid into the repository as internal/verifkit at check time (never
// committed there) and must not import any arc package (in-package test files
// import it, so that would be an import cycle).
package verifkit

import (
	"crypto/sha256"
	"encoding/hex"
	"encoding/json"
	"fmt"
	"os"
	"sort"
	"strings"
	"sync"
	"testing"
)

type knownRec struct {
	ID         string `json:"id"`
	Reproduced bool   `json:"reproduced"`
	What       string `json:"what"`
}

type result struct {
	Evaluations int64            `json:"evaluations"`
	NonTrivial  int              `json:"distinct_nontrivial"`
	Classes     map[string]int64 `json:"classes"`
	Excluded    map[string]int64 `json:"excluded_by_known_finding"`
	Samples     []any            `json:"samples"`
	Known       []knownRec       `json:"known"`
	Notes       map[string]any   `json:"notes,omitempty"`
	Exhaustive  bool             `json:"exhaustive,omitempty"`
}

var (
	mu       sync.Mutex
	evals    int64
	nontriv  = map[[12]byte]struct{}{}
	classes  = map[string]int64{}
	excluded = map[string]int64{}
	samples  []any
	known    []knownRec
	notes    = map[string]any{}
	exhaust  bool
	modes    = map[string]func(){}
	exclSet  map[string]bool
	exclOnce sync.Once
)

const maxSamples = 5

// Eval counts one generated case that was actually executed against the code.
func Eval() { mu.Lock(); evals++; mu.Unlock() }

// EvalN counts n executed cases.
func EvalN(n int) { mu.Lock(); evals += int64(n); mu.Unlock() }

// NonTrivial records a case that is non-trivial by the property's stated rule;
// key is the canonical form of the case (distinctness is by its hash).
func NonTrivial(key string) {
	h := sha256.Sum256([]byte(key))
	var k [12]byte
	copy(k[:], h[:12])
	mu.Lock()
	nontriv[k] = struct{}{}
	mu.Unlock()
}

// Class bumps a generator-distribution counter.
func Class(name string) { mu.Lock(); classes[name]++; mu.Unlock() }

// ClassN bumps a counter by n.
func ClassN(name string, n int) { mu.Lock(); classes[name] += int64(n); mu.Unlock() }

// Sample keeps up to maxSamples cases for the evidence file.
func Sample(v any) {
	mu.Lock()
	if len(samples) < maxSamples {
		samples = append(samples, v)
	}
	mu.Unlock()
}

// SampleCount reports how many samples are stored.
func SampleCount() int { mu.Lock(); defer mu.Unlock(); return len(samples) }

// Note stores an extra coverage key.
func Note(k string, v any) { mu.Lock(); notes[k] = v; mu.Unlock() }

// Exhaustive marks that a finite space was enumerated completely.
func Exhaustive() { mu.Lock(); exhaust = true; mu.Unlock() }

// Excluded reports whether the generator exclusion for a recorded known
// finding is switched on (VERIF_EXCLUDE lists the open finding ids).
func Excluded(finding string) bool {
	exclOnce.Do(func() {
		exclSet = map[string]bool{}
		for _, f := range strings.Split(os.Getenv("VERIF_EXCLUDE"), ",") {
			if f = strings.TrimSpace(f); f != "" {
				exclSet[f] = true
			}
		}
	})
	return exclSet[finding]
}

// CountExcluded counts a generated case/shape removed by a finding's exclusion.
func CountExcluded(finding string) { mu.Lock(); excluded[finding]++; mu.Unlock() }

// KnownFinding records the outcome of a known-finding reproduction test.
func KnownFinding(id string, reproduced bool, what string) {
	mu.Lock()
	known = append(known, knownRec{id, reproduced, what})
	mu.Unlock()
}

// Tier is "quick" or "thorough".
func Tier() string {
	if os.Getenv("VERIF_TIER") == "thorough" {
		return "thorough"
	}
	return "quick"
}

// Scale picks a size by tier.
func Scale(quick, thorough int) int {
	if Tier() == "thorough" {
		return thorough
	}
	return quick
}

// RegisterMode registers a re-exec mode: when the test binary is started with
// VERIF_MODE=<name>, fn runs instead of the tests (child servers, single
// storage operations to be killed by strace, compaction subprocess).
func RegisterMode(name string, fn func()) { modes[name] = fn }

// Flush writes the result JSON to $VERIF_OUT.
func Flush() {
	out := os.Getenv("VERIF_OUT")
	if out == "" {
		return
	}
	mu.Lock()
	defer mu.Unlock()
	r := result{Evaluations: evals, NonTrivial: len(nontriv), Classes: classes,
		Excluded: excluded, Samples: samples, Known: known, Notes: notes, Exhaustive: exhaust}
	b, err := json.MarshalIndent(r, "", " ")
	if err != nil {
		// samples may hold something json cannot encode; degrade to strings
		ss := make([]any, len(samples))
		for i, s := range samples {
			ss[i] = fmt.Sprintf("%+v", s)
		}
		r.Samples = ss
		b, _ = json.MarshalIndent(r, "", " ")
	}
	_ = os.WriteFile(out, b, 0o644)
}

// Main is the TestMain body the driver generates for every harness package.
func Main(m *testing.M) {
	if mode := os.Getenv("VERIF_MODE"); mode != "" {
		fn, ok := modes[mode]
		if !ok {
			fmt.Fprintf(os.Stderr, "verifkit: unknown VERIF_MODE %q\n", mode)
			os.Exit(3)
		}
		fn()
		os.Exit(0)
	}
	code := m.Run()
	Flush()
	os.Exit(code)
}

// ReplayDir is where a harness may write its own replay files (histories).
func ReplayDir() string {
	d := os.Getenv("VERIF_REPLAY_DIR")
	if d == "" {
		d = os.TempDir()
	}
	_ = os.MkdirAll(d, 0o755)
	return d
}

// WriteReplay stores a replay artefact and prints the line the driver looks for.
func WriteReplay(name string, v any) string {
	b, err := json.MarshalIndent(v, "", " ")
	if err != nil {
		b = []byte(fmt.Sprintf("%+v", v))
	}
	h := sha256.Sum256(b)
	p := fmt.Sprintf("%s/%s-%s.json", ReplayDir(), name, hex.EncodeToString(h[:6]))
	_ = os.WriteFile(p, b, 0o644)
	fmt.Printf("VERIF-REPLAY %s\n", p)
	return p
}

// SortedKeys returns the sorted keys of a map (deterministic iteration).
func SortedKeys[V any](m map[string]V) []string {
	ks := make([]string, 0, len(m))
	for k := range m {
		ks = append(ks, k)
	}
	sort.Strings(ks)
	return ks
}
