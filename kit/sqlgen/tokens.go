//go:build verif

// Package sqlgen generates SQL-like token sequences with ground truth (which
// spans are string literals, quoted identifiers and comments, and what each
// literal decodes to). Used by C15 (and reused by C14/C16 for disguises).
package sqlgen

import (
	"strings"

	"pgregory.net/rapid"
)

// Kinds of token.
const (
	Word     = "word"
	Num      = "num"
	Punct    = "punct"
	Str      = "str"   // '...'
	EStr     = "estr"  // E'...'
	DStr     = "dstr"  // $tag$...$tag$
	Ident    = "ident" // "..."
	LComment = "lcomment"
	BComment = "bcomment"
	WS       = "ws"
	Param    = "param" // $1
)

// Tok is one generated token with its ground truth.
type Tok struct {
	Kind  string `json:"k"`
	Text  string `json:"t"`
	Value string `json:"v,omitempty"` // decoded value (literals, identifiers)
}

// Opts switches shapes off (known-finding exclusions) or on.
type Opts struct {
	NoLookalike        bool // no __STR_n__/__IDENT_n__ look-alike text anywhere
	NoBackslashQuote   bool // no backslash directly before a quote char inside '…'/"…"; no \\ before closing quote of E'…'
	NoNestedComment    bool // no "/*" inside a block comment
	NoQuoteInComment   bool // no ' " $ inside comments
	NoCommentInLiteral bool // (unused switch, literals may contain comment markers)
	ValidUTF8          bool // only valid UTF-8, no NUL (needed when DuckDB must parse it)
}

var bodyAtoms = []string{
	"a", "b", "Z", "0", "7", " ", " ", "_", "-", "--", "/", "*", "/*", "*/", "\n", "\t", ";", ",", "(", ")",
	"é", "名", "😀", "%", ".", "=", "\\", "\\", "'", "'", "\"", "\"", "$", "$$", "e", "E",
	"FROM", "from", "select",
}

func atoms(o Opts) []string {
	a := append([]string(nil), bodyAtoms...)
	if !o.NoLookalike {
		a = append(a, "__STR_0__", "__IDENT_0__", "__STR_1__", "__IDENT_1__", "__STR_", "__FROM_MASK_0__")
	}
	if !o.ValidUTF8 {
		a = append(a, "\xff", "\x00", "\xc3")
	}
	return a
}

func drawBody(t *rapid.T, o Opts, label string, maxAtoms int) string {
	as := atoms(o)
	n := rapid.IntRange(0, maxAtoms).Draw(t, label+"_n")
	var b strings.Builder
	for i := 0; i < n; i++ {
		b.WriteString(rapid.SampledFrom(as).Draw(t, label))
	}
	return b.String()
}

// GenStr draws a plain single-quoted literal.
func GenStr(t *rapid.T, o Opts) Tok {
	v := drawBody(t, o, "strbody", 6)
	if o.NoBackslashQuote {
		v = fixBackslashQuote(v, '\'')
	}
	text := "'" + strings.ReplaceAll(v, "'", "''") + "'"
	if o.NoBackslashQuote && strings.HasSuffix(v, "\\") {
		// closing quote would be preceded by a backslash
		v += "x"
		text = "'" + strings.ReplaceAll(v, "'", "''") + "'"
	}
	return Tok{Kind: Str, Text: text, Value: v}
}

// fixBackslashQuote removes backslashes that sit directly before the quote char.
func fixBackslashQuote(v string, q byte) string {
	for strings.Contains(v, "\\"+string(q)) {
		v = strings.ReplaceAll(v, "\\"+string(q), string(q))
	}
	return v
}

// GenIdent draws a double-quoted identifier (non-empty name).
func GenIdent(t *rapid.T, o Opts) Tok {
	v := drawBody(t, o, "identbody", 4)
	v = strings.ReplaceAll(v, "\x00", "")
	if o.NoBackslashQuote {
		v = fixBackslashQuote(v, '"')
		if strings.HasSuffix(v, "\\") {
			v += "x"
		}
	}
	if v == "" {
		v = rapid.SampledFrom([]string{"x", "my col", "x-y", "Db", "a.b"}).Draw(t, "identdefault")
	}
	text := "\"" + strings.ReplaceAll(v, "\"", "\"\"") + "\""
	return Tok{Kind: Ident, Text: text, Value: v}
}

// GenEStr draws an escape-string literal E'…' with backslash escapes.
func GenEStr(t *rapid.T, o Opts) Tok {
	v := drawBody(t, o, "estrbody", 5)
	var b strings.Builder
	pfx := rapid.SampledFrom([]string{"E", "e"}).Draw(t, "epfx")
	b.WriteString(pfx + "'")
	for _, r := range v {
		switch r {
		case '\'':
			if !o.NoBackslashQuote && rapid.Bool().Draw(t, "bsq") {
				b.WriteString("\\'")
			} else {
				b.WriteString("''")
			}
		case '\\':
			b.WriteString("\\\\")
		case '\n':
			if rapid.Bool().Draw(t, "nl") {
				b.WriteString("\\n")
			} else {
				b.WriteRune(r)
			}
		default:
			b.WriteRune(r)
		}
	}
	if o.NoBackslashQuote && strings.HasSuffix(v, "\\") {
		// E'…\\' : masker mistakes the closing quote for an escaped one
		b.WriteString("x")
		v += "x"
	}
	b.WriteString("'")
	return Tok{Kind: EStr, Text: b.String(), Value: v}
}

// GenDStr draws a dollar-quoted literal.
func GenDStr(t *rapid.T, o Opts) Tok {
	tag := rapid.SampledFrom([]string{"", "", "a", "tag", "_x1", "T", "my_tag", "_", "t_1", "é", "名x"}).Draw(t, "dtag")
	v := drawBody(t, o, "dbody", 5)
	v = strings.ReplaceAll(v, "$", "")
	return Tok{Kind: DStr, Text: "$" + tag + "$" + v + "$" + tag + "$", Value: v}
}

// GenComment draws a line or block comment.
func GenComment(t *rapid.T, o Opts) Tok {
	v := drawBody(t, o, "cbody", 5)
	if o.NoQuoteInComment {
		v = strings.NewReplacer("'", "", "\"", "", "$", "").Replace(v)
	}
	if rapid.Bool().Draw(t, "line") {
		v = strings.ReplaceAll(v, "\n", " ")
		return Tok{Kind: LComment, Text: "--" + v + "\n"}
	}
	v = strings.ReplaceAll(v, "*/", "* /")
	if o.NoNestedComment {
		v = strings.ReplaceAll(v, "/*", "/ *")
	} else if strings.Contains(v, "/*") {
		// DuckDB nests: its lexer reads an opener as "/*" plus any following
		// operator characters, so put a space after each opener (then the count
		// is exact) and balance every one of them.
		v = strings.ReplaceAll(v, "/*", "/* ")
		v += strings.Repeat(" */", strings.Count(v, "/*"))
	}
	// Padding is optional so that "/*/ … */", "/**/" and "/***/" are reachable
	// (the opener's "*" must not double as the terminator's). A body ending in
	// "/" needs the pad: "/" + "*/" would read as a nested opener.
	left := rapid.SampledFrom([]string{" ", ""}).Draw(t, "cpadl")
	right := rapid.SampledFrom([]string{" ", ""}).Draw(t, "cpadr")
	if strings.HasSuffix(v, "/") {
		right = " "
	}
	return Tok{Kind: BComment, Text: "/*" + left + v + right + "*/"}
}

var words = []string{"SELECT", "select", "FROM", "from", "WHERE", "AS", "x", "cpu", "db", "e", "E", "t1", "_a", "Mydb", "and", "null", "usage_idle", "time"}
var puncts = []string{"(", ")", ",", ";", "=", "<", ">", "+", "*", ".", "<>", "||"}

// GenWS draws non-empty whitespace.
func GenWS(t *rapid.T) Tok {
	return Tok{Kind: WS, Text: rapid.SampledFrom([]string{" ", " ", " ", "\n", "\t", "\r\n", "  ", " \n "}).Draw(t, "ws")}
}

// GenSoup draws a free token sequence (tokens always separated by whitespace so
// the generator's token boundaries are the lexer's).
func GenSoup(t *rapid.T, o Opts) []Tok {
	n := rapid.IntRange(1, 14).Draw(t, "ntok")
	var out []Tok
	for i := 0; i < n; i++ {
		if i > 0 {
			out = append(out, GenWS(t))
		}
		switch rapid.IntRange(0, 11).Draw(t, "kind") {
		case 0, 1:
			out = append(out, Tok{Kind: Word, Text: rapid.SampledFrom(words).Draw(t, "word")})
		case 2:
			out = append(out, Tok{Kind: Num, Text: rapid.SampledFrom([]string{"0", "1", "42", "3.5", "1e3"}).Draw(t, "num")})
		case 3:
			out = append(out, Tok{Kind: Punct, Text: rapid.SampledFrom(puncts).Draw(t, "punct")})
		case 4, 5:
			out = append(out, GenStr(t, o))
		case 6:
			out = append(out, GenEStr(t, o))
		case 7:
			out = append(out, GenDStr(t, o))
		case 8, 9:
			out = append(out, GenIdent(t, o))
		case 10:
			out = append(out, GenComment(t, o))
		case 11:
			if !o.NoLookalike && rapid.Bool().Draw(t, "look") {
				out = append(out, Tok{Kind: Word, Text: rapid.SampledFrom([]string{"__STR_0__", "__IDENT_0__", "__STR_1__", "__IDENT_2__"}).Draw(t, "lookalike")})
			} else {
				out = append(out, Tok{Kind: Param, Text: rapid.SampledFrom([]string{"$1", "$2", "?"}).Draw(t, "param")})
			}
		}
	}
	return out
}

// GenSelect draws `SELECT lit [AS ident], …` with comments/whitespace between
// any two tokens; DuckDB can execute it, which confirms the ground truth.
func GenSelect(t *rapid.T, o Opts) []Tok {
	o.ValidUTF8 = true
	var out []Tok
	sep := func() {
		out = append(out, GenWS(t))
		if rapid.IntRange(0, 3).Draw(t, "cmt") == 0 {
			out = append(out, GenComment(t, o), GenWS(t))
		}
	}
	out = append(out, Tok{Kind: Word, Text: rapid.SampledFrom([]string{"SELECT", "select", "Select"}).Draw(t, "sel")})
	n := rapid.IntRange(1, 5).Draw(t, "nitems")
	for i := 0; i < n; i++ {
		if i > 0 {
			sep()
			out = append(out, Tok{Kind: Punct, Text: ","})
		}
		sep()
		switch rapid.IntRange(0, 3).Draw(t, "lit") {
		case 0, 1:
			out = append(out, GenStr(t, o))
		case 2:
			out = append(out, GenEStr(t, o))
		case 3:
			out = append(out, GenDStr(t, o))
		}
		if rapid.Bool().Draw(t, "alias") {
			sep()
			out = append(out, Tok{Kind: Word, Text: rapid.SampledFrom([]string{"AS", "as"}).Draw(t, "as")})
			sep()
			out = append(out, GenIdent(t, o))
		}
	}
	if rapid.Bool().Draw(t, "trail") {
		sep()
	}
	return out
}

// Join concatenates token texts.
func Join(toks []Tok) string {
	var b strings.Builder
	for _, t := range toks {
		b.WriteString(t.Text)
	}
	return b.String()
}

// IsLiteral reports whether the kind is a string-literal class.
func IsLiteral(k string) bool { return k == Str || k == EStr || k == DStr }
