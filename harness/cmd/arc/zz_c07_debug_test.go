//go:build verif

package main

import (
	"fmt"
	"os"
	"runtime"
	"testing"
)

func TestVerifC07Debug_Settle(t *testing.T) {
	for iter := 0; iter < 300; iter++ {
		w := newC07World(t, c07Cfg{WAL: true, QueueSize: 1, Workers: 1, MaxBuffer: 2, RotateEach: true}, false)
		for k := 0; k < 5; k++ {
			before := w.backend.nOK + w.backend.nFail
			w.doWrite(c07W("mp", 2, 1))
			after := w.backend.nOK + w.backend.nFail
			if after != before+1 {
				buf := make([]byte, 1<<20)
				n := runtime.Stack(buf, true)
				fmt.Fprintf(os.Stderr, "SETTLE BUG iter=%d k=%d before=%d after=%d g=%+v\n%s\n", iter, k, before, after, c07Goroutines(), buf[:n])
				t.Fatalf("settle bug")
			}
		}
		w.close()
	}
}
