//go:build verif

package main

// C07 - Backpressure and storage outages never lose or duplicate acknowledged writes.
//
// Fixture: a REAL ingest.ArrowBuffer + REAL wal.Writer over a fault-injecting
// storage.Backend (wrapper around storage.LocalBackend), wired with the shutdown
// registrations, the WAL-maintenance tick body and the startup recovery that
// /verif/overlaygen/c07_extract.py lifts verbatim out of the CURRENT cmd/arc/main.go
// (verifC07WireShutdown / verifC07MaintenanceTick / verifC07StartupRecovery /
// verifC07SafeAge).  Time is simulated: WAL file ages are set with os.Chtimes,
// timers of the code under test are configured out of reach (1 h buffer age).
//
// Oracle: ledger of acknowledged rows (unique int64 id per row).  After the terminal
// phase (storage healed, workers released, maintenance rounds, graceful shutdown,
// restart + startup recovery, FlushAll) every acknowledged id must be in the Parquet
// files under the storage root exactly once (read back with DuckDB).

import (
	"bytes"
	"context"
	"database/sql"
	"encoding/json"
	"errors"
	"fmt"
	"io"
	"os"
	"path/filepath"
	"reflect"
	"runtime"
	"sort"
	"strings"
	"sync"
	"testing"
	"time"

	"github.com/Basekick-Labs/msgpack/v6"
	"github.com/apache/arrow-go/v18/arrow/array"
	"github.com/apache/arrow-go/v18/arrow/memory"
	"github.com/apache/arrow-go/v18/parquet/file"
	"github.com/apache/arrow-go/v18/parquet/pqarrow"
	"github.com/basekick-labs/arc/internal/config"
	"github.com/basekick-labs/arc/internal/ingest"
	"github.com/basekick-labs/arc/internal/shutdown"
	"github.com/basekick-labs/arc/internal/storage"
	"github.com/basekick-labs/arc/internal/verifkit"
	"github.com/basekick-labs/arc/internal/verifkit/duck"
	"github.com/basekick-labs/arc/internal/wal"
	"github.com/rs/zerolog"
	"github.com/rs/zerolog/log"
	"pgregory.net/rapid"
)

// Known-finding ids (findings/C07.json). Each has a generator guard that is active
// only while the finding is listed as open (VERIF_EXCLUDE).
const (
	kfC07ShutdownPurge   = "C07-shutdown-purge-unflushed"  // wal-purge hook runs before ArrowBuffer.Close and unconditionally
	kfC07CloseDropsQueue = "C07-close-drops-queued"        // Close() abandons queued / in-flight flush tasks
	kfC07QueueFullNoFlag = "C07-queue-full-not-replayed"   // queue-full drop (WAL on) never marks a flush failure
	kfC07ReplayDup       = "C07-replay-duplicates-stored"  // replay re-ingests whole files incl. rows already stored / still buffered
	kfC07PurgeFirst      = "C07-purge-before-replay"       // tick purges by age before replaying
	kfC07FlagReset       = "C07-flag-reset-skipped-files"  // tick resets the flag although active/young files were skipped
	kfC07ReplayUncovered = "C07-replay-drops-wal-cover"    // replayed rows lose their WAL file before they are stored
	kfC07WalOffQueueFull = "C07-waloff-queue-full-acked"   // WAL off: queue-full drop still acknowledged
	kfC07MultiHour       = "C07-multihour-partial-dup"     // multi-hour flush failing on a later hour is replayed whole
	kfC07WalOffFlushFail = "C07-waloff-flush-failure-acked" // WAL off: failed flush discards acknowledged rows
)

func init() {
	// the lifted main() code logs through the global zerolog logger
	log.Logger = zerolog.New(io.Discard)
	zerolog.SetGlobalLevel(zerolog.InfoLevel)
}

// ------------------------------------------------------------------ history model

type c07Cfg struct {
	WAL        bool `json:"wal"`
	QueueSize  int  `json:"queue"`
	Workers    int  `json:"workers"`
	MaxBuffer  int  `json:"max_buffer_rows"`
	RotateEach bool `json:"wal_rotate_each_entry"`
	// FlushTimeoutS is ingest.flush_timeout_seconds; 0 = out of reach (3600). Histories that
	// use the "hang" fault run with the smallest real value (1 s) and contain no hold actions.
	FlushTimeoutS int `json:"flush_timeout_s,omitempty"`
	// RelWALDir runs the history with wal.directory = "./data/wal" (the shipped default, a
	// RELATIVE path) and the process working directory inside the per-history temp dir, so
	// the lifted main() wiring receives the directory exactly as configured. Histories run
	// one at a time, the working directory is restored when the history ends.
	RelWALDir bool `json:"relative_wal_dir,omitempty"`
}

// c07Action kinds: write hold release fail heal rotate age tick flush restart
type c07Action struct {
	Kind  string `json:"k"`
	Path  string `json:"path,omitempty"`  // write: "mp" (msgpack columnar top-level map, raw WAL entry) | "mpa1" ([{m,columns}] one-element array) | "mpan" (array of two columnar records) | "lp" (line protocol, row WAL entry)
	RotIn bool   `json:"rotate_inside_tick,omitempty"` // tick: the WAL rotates between the tick's CurrentFile() read and its recovery scan
	Meas  int    `json:"m,omitempty"`     // write: measurement index
	Rows  int    `json:"rows,omitempty"`  // write: number of rows
	Hours int    `json:"hours,omitempty"` // write: rows spread over this many hour partitions (1|2)
	Mode  string `json:"mode,omitempty"`  // fail: "all" (until heal) | "next" (next N writes fail) | "after" (N more writes succeed, then all fail) | "hang" (next N async writes block until the flush context ends and return ctx.Err())
	N     int    `json:"n,omitempty"`
	Old   int    `json:"old,omitempty"` // age: the Old oldest WAL files become older than safeAge, all others middle-aged (>MinFileAge, <safeAge); -1 = the leading files without unprotected rows
}

type c07History struct {
	Cfg     c07Cfg      `json:"cfg"`
	Actions []c07Action `json:"actions"`
}

type c07Result struct {
	Acked     int      `json:"acked"`
	Lost      []int64  `json:"lost,omitempty"`
	Dup       []int64  `json:"dup,omitempty"`
	Stranded  []int64  `json:"stranded,omitempty"` // acknowledged, not stored, not in memory, no replay route after the maintenance rounds
	Blocked   string   `json:"blocked_by_known_finding,omitempty"`
	Skipped   []string `json:"skipped_actions,omitempty"`
	FlushFail int      `json:"failed_flushes"`
	Deadline  int      `json:"flushes_ended_by_deadline"`
	QueueFull int      `json:"queue_full_drops"`
	Purged    int      `json:"purged_files"`
	Replayed  int      `json:"replayed_files"`
	Ticks     int      `json:"ticks"`
	Restarts  int      `json:"restarts"`
	PreTicks    int    `json:"ticks_before_terminal"`
	PrePurged   int    `json:"purged_before_terminal"`
	PreRestarts int    `json:"restarts_before_terminal"`
	Trace     []string `json:"trace,omitempty"`
}

// ------------------------------------------------------------------ fault backend

var errC07Injected = errors.New("c07: injected storage failure")

type c07Backend struct {
	storage.Backend
	mu         sync.Mutex
	hold       bool
	release    chan struct{}
	gated      map[int][]int64
	gseq       int
	failAll    bool
	failNext   int
	okThenFail int // >0: that many more successful writes, then failAll
	hangNext   int // next N async (worker) writes block until their context ends
	nDeadline  int
	stored     map[int64]int
	nFail      int
	nOK        int
	nCancelled int
	trace      func(format string, a ...any)
}

func c07CallerIsFlushWorker() bool {
	var pcs [48]uintptr
	n := runtime.Callers(2, pcs[:])
	fr := runtime.CallersFrames(pcs[:n])
	for {
		f, more := fr.Next()
		if strings.HasSuffix(f.Function, "(*ArrowBuffer).flushWorker") {
			return true
		}
		if !more {
			return false
		}
	}
}

// hangWait models an object store that does not answer: the request ends only when
// its context does (flush timeout or Close) and returns the context error.
func (f *c07Backend) hangWait(ctx context.Context) error {
	<-ctx.Done()
	return ctx.Err()
}

// gateWait blocks an async flush worker while the gate is closed. Like a slow
// object store request it ends early when the request context is cancelled.
func (f *c07Backend) gateWait(ctx context.Context, ch chan struct{}) error {
	select {
	case <-ch:
		return nil
	case <-ctx.Done():
		return ctx.Err()
	}
}

func (f *c07Backend) Write(ctx context.Context, path string, data []byte) error {
	ids, perr := c07ParquetIDs(data)
	if perr != nil {
		panic("c07 harness: cannot decode flushed parquet: " + perr.Error())
	}
	worker := c07CallerIsFlushWorker()
	f.mu.Lock()
	if worker && f.hold {
		f.gseq++
		k := f.gseq
		f.gated[k] = ids
		ch := f.release
		f.mu.Unlock()
		err := f.gateWait(ctx, ch)
		f.mu.Lock()
		delete(f.gated, k)
		if err != nil {
			f.nCancelled++
			f.nFail++
			f.trace("storage.Write %s ids=%v -> cancelled while held (%v)", path, ids, err)
			f.mu.Unlock()
			return err
		}
	}
	if worker && f.hangNext > 0 {
		f.hangNext--
		f.mu.Unlock()
		err := f.hangWait(ctx)
		f.mu.Lock()
		f.nFail++
		if errors.Is(err, context.DeadlineExceeded) {
			f.nDeadline++
		}
		f.trace("storage.Write %s ids=%v -> hung until the flush context ended (%v)", path, ids, err)
		f.mu.Unlock()
		return err
	}
	fail := false
	switch {
	case f.failAll:
		fail = true
	case f.failNext > 0:
		f.failNext--
		fail = true
	case f.okThenFail > 0:
		f.okThenFail--
		if f.okThenFail == 0 {
			f.failAll = true
		}
	}
	if fail {
		f.nFail++
		f.trace("storage.Write %s ids=%v -> FAIL(injected)", path, ids)
		f.mu.Unlock()
		return errC07Injected
	}
	f.mu.Unlock()
	err := f.Backend.Write(ctx, path, data)
	f.mu.Lock()
	if err == nil {
		f.nOK++
		for _, id := range ids {
			f.stored[id]++
		}
		f.trace("storage.Write %s ids=%v -> ok", path, ids)
	} else {
		f.nFail++
		f.trace("storage.Write %s ids=%v -> FAIL(real: %v)", path, ids, err)
	}
	f.mu.Unlock()
	return err
}

func (f *c07Backend) setHold(on bool) {
	f.mu.Lock()
	defer f.mu.Unlock()
	if on && !f.hold {
		f.hold = true
		f.release = make(chan struct{})
	} else if !on && f.hold {
		f.hold = false
		close(f.release)
	}
}

func (f *c07Backend) heal() {
	f.mu.Lock()
	f.failAll, f.failNext, f.okThenFail, f.hangNext = false, 0, 0, 0
	f.mu.Unlock()
}

func (f *c07Backend) failing() bool {
	f.mu.Lock()
	defer f.mu.Unlock()
	return f.failAll || f.failNext > 0 || f.okThenFail > 0 || f.hangNext > 0
}

func (f *c07Backend) gatedIDs() []int64 {
	f.mu.Lock()
	defer f.mu.Unlock()
	var out []int64
	for _, ids := range f.gated {
		out = append(out, ids...)
	}
	return out
}

func (f *c07Backend) storedCopy() map[int64]int {
	f.mu.Lock()
	defer f.mu.Unlock()
	out := make(map[int64]int, len(f.stored))
	for k, v := range f.stored {
		out[k] = v
	}
	return out
}

func c07ParquetIDs(data []byte) ([]int64, error) {
	rdr, err := file.NewParquetReader(bytes.NewReader(data))
	if err != nil {
		return nil, err
	}
	defer rdr.Close()
	fr, err := pqarrow.NewFileReader(rdr, pqarrow.ArrowReadProperties{}, memory.DefaultAllocator)
	if err != nil {
		return nil, err
	}
	tbl, err := fr.ReadTable(context.Background())
	if err != nil {
		return nil, err
	}
	defer tbl.Release()
	idx := tbl.Schema().FieldIndices("id")
	if len(idx) == 0 {
		return nil, fmt.Errorf("no id column (schema %v)", tbl.Schema())
	}
	var out []int64
	for _, chunk := range tbl.Column(idx[0]).Data().Chunks() {
		switch a := chunk.(type) {
		case *array.Int64:
			for i := 0; i < a.Len(); i++ {
				out = append(out, a.Value(i))
			}
		case *array.Float64:
			for i := 0; i < a.Len(); i++ {
				out = append(out, int64(a.Value(i)))
			}
		default:
			return nil, fmt.Errorf("id column has type %T", chunk)
		}
	}
	return out, nil
}

// ------------------------------------------------------------------ goroutine-state settle

type c07G struct{ workIdle, workGated, workBusy, walIdle, walBusy int }

var c07DumpBuf = make([]byte, 1<<16) // only the harness goroutine dumps

// c07Goroutines classifies the flush workers and the WAL writer loop from a
// stop-the-world stack dump: idle = parked in their own top-level select,
// gated = parked in the storage gate, busy = anything else (running, runnable,
// parked deeper in a task).
func c07Goroutines() c07G {
	var buf []byte
	for {
		n := runtime.Stack(c07DumpBuf, true)
		if n < len(c07DumpBuf) {
			buf = c07DumpBuf[:n]
			break
		}
		c07DumpBuf = make([]byte, 2*len(c07DumpBuf))
	}
	var g c07G
	for _, blk := range strings.Split(string(buf), "\n\n") {
		isWorker := strings.Contains(blk, "ingest.(*ArrowBuffer).flushWorker(")
		isWal := strings.Contains(blk, "wal.(*Writer).writerLoop(")
		if !isWorker && !isWal {
			continue
		}
		lines := strings.Split(blk, "\n")
		hdr := lines[0]
		st := ""
		if i := strings.Index(hdr, "["); i >= 0 {
			st = hdr[i+1:]
		}
		parkedSelect := strings.HasPrefix(st, "select")
		own := 0
		gated := false
		for _, ln := range lines[1:] {
			if ln == "" || ln[0] == '\t' || strings.HasPrefix(ln, "created by ") || strings.HasPrefix(ln, "runtime.") {
				continue
			}
			own++
			if strings.Contains(ln, "(*c07Backend).gateWait(") {
				gated = true
			}
		}
		switch {
		case isWorker && parkedSelect && gated:
			g.workGated++
		case isWorker && parkedSelect && own == 1:
			g.workIdle++
		case isWorker:
			g.workBusy++
		case isWal && parkedSelect && own == 1:
			g.walIdle++
		default:
			g.walBusy++
		}
	}
	return g
}

// ------------------------------------------------------------------ world

type c07Fataler interface {
	Fatalf(format string, args ...any)
}

type c07LogWriter struct {
	mu                                    sync.Mutex
	queueFull, purgedFiles, replayedFiles int
	trace                                 func(format string, a ...any)
}

func (l *c07LogWriter) Write(p []byte) (int, error) {
	var ev struct {
		Message string `json:"message"`
		Deleted int    `json:"deleted"`
		File    string `json:"file"`
		Key     string `json:"buffer_key"`
	}
	if json.Unmarshal(p, &ev) != nil {
		return len(p), nil
	}
	l.mu.Lock()
	defer l.mu.Unlock()
	switch {
	case strings.HasPrefix(ev.Message, "Flush queue full"):
		l.queueFull++
		l.trace("arc: queue-full drop key=%s", ev.Key)
	case strings.HasPrefix(ev.Message, "Purged old WAL files"), strings.HasPrefix(ev.Message, "Purged WAL files after clean shutdown"),
		strings.HasPrefix(ev.Message, "Purged inactive WAL files"):
		l.purgedFiles += ev.Deleted
		l.trace("arc: %s deleted=%d", ev.Message, ev.Deleted)
	case strings.HasPrefix(ev.Message, "WAL file recovered and deleted"):
		l.replayedFiles++
		l.trace("arc: replayed+deleted %s", ev.File)
	case strings.HasPrefix(ev.Message, "WAL rotated"):
		l.trace("arc: WAL rotated -> %s", ev.File)
	case strings.HasPrefix(ev.Message, "Flush queue send"), strings.HasPrefix(ev.Message, "Failed to flush"),
		strings.HasPrefix(ev.Message, "Flush failed"), strings.HasPrefix(ev.Message, "WAL file partially recovered"),
		strings.HasPrefix(ev.Message, "Buffer size exceeded"):
		l.trace("arc: %s key=%s", ev.Message, ev.Key)
	}
	return len(p), nil
}

type c07World struct {
	tb      c07Fataler
	cfg     c07Cfg
	guards  bool // honour VERIF_EXCLUDE (generator exclusions)
	appCfg  *config.Config
	root    string
	backend *c07Backend
	logw    *c07LogWriter
	lg      zerolog.Logger

	walW    *wal.Writer
	walRec  *wal.Recovery
	buf     *ingest.ArrowBuffer
	coord   *shutdown.Coordinator
	recCB   wal.RecoveryCallback
	colCB   wal.ColumnarRecoveryCallback
	safeAge time.Duration
	dec     *ingest.MessagePackDecoder
	lp      *ingest.LineProtocolParser

	nextID int64
	acked  map[int64]bool
	class  map[string]int // WAL file base name -> 0 young | 1 middle-aged | 2 older than safeAge
	res    c07Result
	tmu    sync.Mutex
	prevWD string
}

const (
	c07DB       = "c07db"
	c07HourBase = int64(1717999200) * 1_000_000 // 2024-06-10T06:00:00Z in microseconds
)

func (w *c07World) tracef(format string, a ...any) {
	w.tmu.Lock()
	if len(w.res.Trace) < 400 {
		w.res.Trace = append(w.res.Trace, fmt.Sprintf(format, a...))
	}
	w.tmu.Unlock()
}

func (w *c07World) excluded(id string) bool { return w.guards && verifkit.Excluded(id) }

func newC07World(tb c07Fataler, cfg c07Cfg, guards bool) *c07World {
	root, err := os.MkdirTemp("", "c07-")
	if err != nil {
		tb.Fatalf("HARNESS mkdirtemp: %v", err)
	}
	w := &c07World{tb: tb, cfg: cfg, guards: guards, root: root, acked: map[int64]bool{}, class: map[string]int{}}
	w.logw = &c07LogWriter{trace: w.tracef}
	w.lg = zerolog.New(w.logw).Level(zerolog.InfoLevel)
	local, err := storage.NewLocalBackend(filepath.Join(root, "data"), zerolog.Nop())
	if err != nil {
		tb.Fatalf("HARNESS local backend: %v", err)
	}
	w.backend = &c07Backend{Backend: local, gated: map[int][]int64{}, stored: map[int64]int{}, trace: w.tracef}
	walDir := filepath.Join(root, "wal")
	if cfg.RelWALDir {
		wd, err := os.Getwd()
		if err != nil {
			tb.Fatalf("HARNESS getwd: %v", err)
		}
		if err := os.Chdir(root); err != nil {
			tb.Fatalf("HARNESS chdir: %v", err)
		}
		w.prevWD = wd
		walDir = "./data/wal"
	}
	flushTimeout := 3600 // out of reach
	if cfg.FlushTimeoutS > 0 {
		flushTimeout = cfg.FlushTimeoutS
	}
	c := &config.Config{}
	c.Ingest = config.IngestConfig{
		MaxBufferSize:       cfg.MaxBuffer,
		MaxBufferAgeMS:      3_600_000, // age-based flush is driven by the harness ("age" action), never by the wall clock
		Compression:         "snappy",
		WriteStatistics:     true,
		DataPageVersion:     "2.0",
		FlushWorkers:        cfg.Workers,
		FlushQueueSize:      cfg.QueueSize,
		ShardCount:          4,
		DefaultSortKeys:     "time",
		FlushTimeoutSeconds: flushTimeout,
	}
	c.WAL = config.WALConfig{
		Enabled:                 cfg.WAL,
		Directory:               walDir,
		SyncMode:                "async",
		MaxSizeMB:               100,
		MaxAgeSeconds:           86400,
		RecoveryIntervalSeconds: 300,
		RecoveryBatchSize:       10000,
		BufferSize:              10000,
	}
	w.appCfg = c
	w.lp = ingest.NewLineProtocolParser()
	w.start()
	return w
}

// start mirrors main(): WAL writer, ArrowBuffer (+SetWAL), shutdown registrations
// (lifted), startup recovery (lifted). The construction calls are pinned to
// main.go by anchors in c07_extract.py.
func (w *c07World) start() {
	c := w.appCfg
	if c.WAL.Enabled {
		maxBytes := int64(c.WAL.MaxSizeMB) * 1024 * 1024
		if w.cfg.RotateEach {
			maxBytes = 1 // every entry exceeds the size threshold: one entry per WAL file
		}
		ww, err := wal.NewWriter(&wal.WriterConfig{
			WALDir:       c.WAL.Directory,
			SyncMode:     wal.SyncMode(c.WAL.SyncMode),
			MaxSizeBytes: maxBytes,
			MaxAge:       time.Duration(c.WAL.MaxAgeSeconds) * time.Second,
			BufferSize:   c.WAL.BufferSize,
			Logger:       w.lg,
		})
		if err != nil {
			w.tb.Fatalf("HARNESS wal.NewWriter: %v", err)
		}
		w.walW = ww
		w.walRec = wal.NewRecovery(c.WAL.Directory, w.lg)
	}
	w.buf = ingest.NewArrowBuffer(&c.Ingest, w.backend, w.lg)
	if w.walW != nil {
		w.buf.SetWAL(w.walW)
	}
	w.dec = ingest.NewMessagePackDecoder(zerolog.Nop())
	w.dec.SetTypedDecodeEnabled(!w.buf.HasDecimalColumns())
	w.coord = shutdown.New(10*time.Minute, zerolog.Nop())
	_, cancel := context.WithCancel(context.Background())
	verifC07WireShutdown(w.coord, w.walW, w.buf, cancel)
	if w.walRec != nil {
		w.stampAges()
		w.recCB, w.colCB = verifC07StartupRecovery(c, w.walW, w.walRec, w.buf)
		w.safeAge = verifC07SafeAge(c)
	}
	w.settle()
}

// settle waits until every asynchronous consequence of the previous action has
// happened: WAL entries written, flush workers idle (queue empty) or parked in
// the storage gate. Exact (goroutine states), no timing assumption; the deadline
// only turns a harness hang into an error.
func (w *c07World) settle() {
	deadline := time.Now().Add(120 * time.Second)
	for spin := 0; ; spin++ {
		g := c07Goroutines()
		// positive identification: every goroutine we wait for must be SEEN parked
		// (a goroutine that has not run yet shows up as an anonymous go-wrapper)
		wantWorkers, wantWal := 0, 0
		if w.buf != nil {
			wantWorkers = w.cfg.Workers
		}
		if w.walW != nil {
			wantWal = 1
		}
		ok := g.workBusy == 0 && g.walBusy == 0 && g.workIdle+g.workGated == wantWorkers && g.walIdle == wantWal
		if ok && w.walW != nil && w.walW.VerifC07Pending() != 0 {
			ok = false
		}
		if ok && w.buf != nil && w.buf.VerifC07QueueLen() > 0 && g.workIdle > 0 {
			ok = false
		}
		if ok {
			return
		}
		if time.Now().After(deadline) {
			w.tb.Fatalf("HARNESS settle timeout: goroutines %+v (want %d workers, %d wal loop)", g, wantWorkers, wantWal)
		}
		switch {
		case spin < 400:
			runtime.Gosched()
		case spin < 2000:
			time.Sleep(100 * time.Microsecond)
		default: // a flush worker is waiting out its (real, 1 s) flush timeout in hangWait
			time.Sleep(2 * time.Millisecond)
		}
	}
}

// ---------------------------------------------------------------- observation

func c07ToI64(v interface{}) (int64, bool) {
	rv := reflect.ValueOf(v)
	switch rv.Kind() {
	case reflect.Int, reflect.Int8, reflect.Int16, reflect.Int32, reflect.Int64:
		return rv.Int(), true
	case reflect.Uint, reflect.Uint8, reflect.Uint16, reflect.Uint32, reflect.Uint64:
		return int64(rv.Uint()), true
	case reflect.Float32, reflect.Float64:
		return int64(rv.Float()), true
	}
	return 0, false
}

type c07WalFile struct {
	name   string
	path   string
	active bool
	class  int
	ids    []int64
}

func (w *c07World) walFiles() []c07WalFile {
	if w.walW == nil {
		return nil
	}
	paths, _ := filepath.Glob(filepath.Join(w.appCfg.WAL.Directory, "*.wal"))
	sort.Strings(paths)
	active := filepath.Base(w.walW.CurrentFile()) // by name: the harness must not depend on how either side spells the directory
	var out []c07WalFile
	for _, p := range paths {
		f := c07WalFile{name: filepath.Base(p), path: p, active: filepath.Base(p) == active}
		f.class = w.class[f.name]
		entries, err := wal.NewReader(p, zerolog.Nop()).ReadAll()
		if err != nil {
			w.tb.Fatalf("HARNESS read wal %s: %v", p, err)
		}
		for _, e := range entries {
			if e.ColumnarData != nil {
				for _, v := range e.ColumnarData.Columns["id"] {
					if id, ok := c07ToI64(v); ok {
						f.ids = append(f.ids, id)
					}
				}
			}
			for _, r := range e.Records {
				if id, ok := c07ToI64(r["id"]); ok {
					f.ids = append(f.ids, id)
				}
			}
		}
		out = append(out, f)
	}
	return out
}

// memIDs: rows held in memory by the buffer (shard buffers, queued tasks, tasks
// whose storage write is parked in the gate).
func (w *c07World) memIDs() map[int64]int {
	out := map[int64]int{}
	if w.buf == nil {
		return out
	}
	for _, id := range w.buf.VerifC07BufferedIDs("id") {
		out[id]++
	}
	for _, id := range w.backend.gatedIDs() {
		out[id]++
	}
	if w.buf.VerifC07QueueLen() > 0 {
		for _, id := range w.buf.VerifC07QueuedIDs("id") {
			out[id]++
		}
	}
	return out
}

// unprotected: acknowledged ids that are neither stored nor in memory.
func (w *c07World) unprotected() []int64 {
	st := w.backend.storedCopy()
	mem := w.memIDs()
	var out []int64
	for id := range w.acked {
		if st[id] == 0 && mem[id] == 0 {
			out = append(out, id)
		}
	}
	sort.Slice(out, func(i, j int) bool { return out[i] < out[j] })
	return out
}

func c07Set(ids []int64) map[int64]bool {
	m := make(map[int64]bool, len(ids))
	for _, id := range ids {
		m[id] = true
	}
	return m
}

// stampAges applies the logical age class of every WAL file as its mtime.
func (w *c07World) stampAges() {
	if w.appCfg == nil || !w.appCfg.WAL.Enabled {
		return
	}
	paths, _ := filepath.Glob(filepath.Join(w.appCfg.WAL.Directory, "*.wal"))
	sort.Strings(paths)
	now := time.Now()
	safe := verifC07SafeAge(w.appCfg)
	for i, p := range paths {
		var t time.Time
		switch w.class[filepath.Base(p)] {
		case 2:
			t = now.Add(-safe - time.Hour)
		case 1:
			t = now.Add(-time.Minute)
		default:
			t = now.Add(time.Hour) // "just written": younger than MinFileAge whatever the machine load
		}
		t = t.Add(time.Duration(i) * time.Millisecond)
		_ = os.Chtimes(p, t, t)
	}
}

// ---------------------------------------------------------------- actions

func (w *c07World) skip(a c07Action, why string) {
	w.res.Skipped = append(w.res.Skipped, a.Kind+": "+why)
	w.tracef("SKIP %s: %s", a.Kind, why)
}

func (w *c07World) queueFullFinding() string {
	if w.cfg.WAL {
		return kfC07QueueFullNoFlag
	}
	return kfC07WalOffQueueFull
}

func (w *c07World) doWrite(a c07Action) {
	// a request enqueues at most one flush task per record (two for "mpan"); an idle worker
	// takes the first one directly, a parked one takes none
	need := 1
	if a.Path == "mpan" && a.Rows >= 2 {
		need = 2
	}
	if len(w.backend.gatedIDs()) == 0 {
		need--
	}
	if need < 1 && w.buf.VerifC07QueueLen() > 0 {
		need = 1
	}
	if f := w.queueFullFinding(); w.excluded(f) && w.buf.VerifC07QueueCap()-w.buf.VerifC07QueueLen() < need {
		verifkit.CountExcluded(f)
		w.skip(a, "flush queue is full, a drop would follow ("+f+")")
		return
	}
	if w.cfg.WAL && w.excluded(kfC07ReplayDup) && !w.backend.failing() && len(w.unprotected()) > 0 {
		// rows written between the end of an outage and the replay tick share the replayed
		// WAL files: they would be re-ingested although stored / still buffered
		verifkit.CountExcluded(kfC07ReplayDup)
		w.skip(a, "unreplayed rows of a failed flush exist and storage works: a new write would be duplicated by the replay ("+kfC07ReplayDup+")")
		return
	}
	hours := a.Hours
	if hours < 1 {
		hours = 1
	}
	meas := fmt.Sprintf("c07m%d", a.Meas)
	n := a.Rows
	ids := make([]int64, n)
	times := make([]int64, n)
	for i := 0; i < n; i++ {
		w.nextID++
		ids[i] = w.nextID
		times[i] = c07HourBase + int64(i%hours)*3_600_000_000 + ids[i]*1000
	}
	ctx := context.Background()
	var err error
	if w.walW != nil {
		// the entry is appended to the active file: its mtime becomes "now"
		w.class[filepath.Base(w.walW.CurrentFile())] = 0
	}
	switch a.Path {
	case "lp":
		var sb strings.Builder
		for i := 0; i < n; i++ {
			fmt.Fprintf(&sb, "%s,host=h%d id=%di,v=%d.5 %d\n", meas, ids[i]%3, ids[i], ids[i], times[i]*1000)
		}
		recs := w.lp.ParseBatchWithPrecision([]byte(sb.String()), "ns")
		if len(recs) != n {
			w.tb.Fatalf("HARNESS lp parse: %d records for %d lines", len(recs), n)
		}
		for _, rec := range ingest.BatchToColumnar(recs) {
			if e := w.buf.WriteColumnarRecord(ctx, c07DB, rec); e != nil {
				err = e
			}
		}
	default:
		hosts := make([]string, n)
		vs := make([]float64, n)
		for i := range hosts {
			hosts[i] = fmt.Sprintf("h%d", ids[i]%3)
			vs[i] = float64(ids[i]) + 0.5
		}
		item := func(lo, hi int) map[string]interface{} {
			return map[string]interface{}{
				"m":       meas,
				"columns": map[string]interface{}{"time": times[lo:hi], "id": ids[lo:hi], "v": vs[lo:hi], "host": hosts[lo:hi]},
			}
		}
		var body interface{} = item(0, n) // "mp": top-level map
		switch {
		case a.Path == "mpa1" || (a.Path == "mpan" && n < 2):
			body = []interface{}{item(0, n)} // one columnar record wrapped in a one-element array
		case a.Path == "mpan":
			body = []interface{}{item(0, n/2), item(n/2, n)} // batch of two columnar records
		}
		payload, merr := msgpack.Marshal(body)
		if merr != nil {
			w.tb.Fatalf("HARNESS msgpack: %v", merr)
		}
		recs, derr := w.dec.Decode(payload)
		if derr != nil {
			w.tb.Fatalf("HARNESS decode: %v", derr)
		}
		err = w.buf.Write(ctx, c07DB, recs)
	}
	if err == nil {
		for _, id := range ids {
			w.acked[id] = true
		}
		w.tracef("write %s %s ids=%v hours=%d -> acknowledged", a.Path, meas, ids, hours)
	} else {
		w.tracef("write %s %s ids=%v -> REJECTED %v", a.Path, meas, ids, err)
	}
	w.settle()
}

func (w *c07World) doFail(a c07Action) {
	if !w.cfg.WAL && w.excluded(kfC07WalOffFlushFail) {
		verifkit.CountExcluded(kfC07WalOffFlushFail)
		w.skip(a, "WAL off: a failed flush discards acknowledged rows ("+kfC07WalOffFlushFail+")")
		return
	}
	if a.Mode == "after" && w.excluded(kfC07MultiHour) {
		verifkit.CountExcluded(kfC07MultiHour)
		w.skip(a, "fail-after-k can split a multi-hour flush ("+kfC07MultiHour+")")
		return
	}
	if w.cfg.WAL && w.excluded(kfC07ReplayUncovered) {
		if id, bad := w.uncoveredMem(); bad {
			verifkit.CountExcluded(kfC07ReplayUncovered)
			w.skip(a, fmt.Sprintf("id %d is in memory without a WAL copy (replayed earlier) (%s)", id, kfC07ReplayUncovered))
			return
		}
	}
	w.backend.mu.Lock()
	switch a.Mode {
	case "next":
		w.backend.failNext = a.N
	case "after":
		w.backend.okThenFail = a.N
	case "hang":
		w.backend.hangNext = a.N
	default:
		w.backend.failAll = true
	}
	w.backend.mu.Unlock()
	w.tracef("storage: fail mode=%s n=%d", a.Mode, a.N)
}

// uncoveredMem reports an in-memory id that no WAL file contains.
func (w *c07World) uncoveredMem() (int64, bool) {
	cov := map[int64]bool{}
	for _, f := range w.walFiles() {
		for _, id := range f.ids {
			cov[id] = true
		}
	}
	mem := w.memIDs()
	ids := make([]int64, 0, len(mem))
	for id := range mem {
		ids = append(ids, id)
	}
	sort.Slice(ids, func(i, j int) bool { return ids[i] < ids[j] })
	for _, id := range ids {
		if !cov[id] {
			return id, true
		}
	}
	return 0, false
}

func (w *c07World) doRotate(a c07Action) {
	if w.walW == nil {
		return
	}
	if err := w.walW.VerifC07Rotate(); err != nil {
		w.tb.Fatalf("HARNESS rotate: %v", err)
	}
	w.settle()
}

func (w *c07World) doFlushAll() {
	if err := w.buf.FlushAll(context.Background()); err != nil {
		w.tracef("FlushAll -> %v", err)
	} else {
		w.tracef("FlushAll -> ok")
	}
	w.settle()
}

// doAge lets simulated time pass: buffers reach MaxBufferAge (the periodic flush
// fires = FlushAll, same flushBufferLocked path), and WAL files get older.
func (w *c07World) doAge(a c07Action) {
	if w.walW == nil {
		return
	}
	w.doFlushAll()
	files := w.walFiles()
	if a.Old < 0 {
		// "safe prefix": the leading files that hold no unprotected row are older than safeAge
		un := c07Set(w.unprotected())
		a.Old = 0
	prefix:
		for _, f := range files {
			for _, id := range f.ids {
				if un[id] {
					break prefix
				}
			}
			a.Old++
		}
	}
	for i, f := range files {
		c := 1
		if i < a.Old {
			c = 2
		}
		if c > w.class[f.name] {
			w.class[f.name] = c
		}
	}
	w.tracef("age: %d oldest files older than safeAge, the rest middle-aged (%d files)", a.Old, len(files))
}

// doTick runs one periodic WAL maintenance tick (lifted body). Returns the id of
// the known finding whose generator exclusion forbids the tick in this state.
func (w *c07World) doTick(rotateInside bool) string {
	if w.walW == nil {
		return ""
	}
	flag := w.buf.HasFlushFailure()
	if w.guards {
		files := w.walFiles()
		un := c07Set(w.unprotected())
		st := w.backend.storedCopy()
		mem := w.memIDs()
		for _, f := range files {
			hasUn, hasKept := false, false
			for _, id := range f.ids {
				if un[id] {
					hasUn = true
				}
				if st[id] > 0 || mem[id] > 0 {
					hasKept = true
				}
			}
			if !f.active && f.class == 2 && hasUn && w.excluded(kfC07PurgeFirst) {
				return kfC07PurgeFirst
			}
			if flag && hasUn && (f.active || f.class == 0) && w.excluded(kfC07FlagReset) {
				return kfC07FlagReset
			}
			if flag && !f.active && f.class == 1 && hasKept && w.excluded(kfC07ReplayDup) {
				w.tracef("tick blocked: replayable file %s holds ids=%v, some already stored/in memory", f.name, f.ids)
				return kfC07ReplayDup
			}
		}
		if flag && w.backend.failing() && w.excluded(kfC07ReplayUncovered) {
			return kfC07ReplayUncovered
		}
		if flag && w.excluded(kfC07QueueFullNoFlag) {
			// the replay enqueues flush tasks in a burst; whether the workers keep up is a
			// race, so the burst must fit into the queue even if no worker takes anything
			rows := len(w.buf.VerifC07BufferedIDs("id"))
			for _, f := range files {
				if !f.active && f.class == 1 {
					rows += len(f.ids)
				}
			}
			if rows/w.cfg.MaxBuffer > w.buf.VerifC07QueueCap()-w.buf.VerifC07QueueLen() {
				return kfC07QueueFullNoFlag
			}
		}
	}
	w.stampAges()
	w.tracef("tick (flush-failure flag=%v rotate-inside=%v)", flag, rotateInside)
	if rotateInside {
		// ingest is live during the tick: the async WAL writer rotates (size/age threshold
		// reached by an entry acknowledged earlier) after the tick read CurrentFile() and
		// before recovery lists the directory
		verifC07TickHook = func(string) {
			verifC07TickHook = nil
			if err := w.walW.VerifC07Rotate(); err != nil {
				w.tb.Fatalf("HARNESS rotate inside tick: %v", err)
			}
			w.stampAges() // the rotated-in file is "just created"
		}
	}
	verifC07MaintenanceTick(w.appCfg, w.buf, w.walW, w.safeAge, w.recCB, w.colCB, w.lg)
	verifC07TickHook = nil
	w.res.Ticks++
	w.settle()
	return ""
}

// doRestart = graceful shutdown through the real Coordinator over the lifted
// registrations, then a new process start (lifted startup recovery).
func (w *c07World) doRestart() string {
	if w.excluded(kfC07CloseDropsQueue) {
		w.backend.setHold(false)
		w.settle()
	}
	if w.excluded(kfC07ShutdownPurge) || (!w.cfg.WAL && w.excluded(kfC07WalOffFlushFail)) {
		w.backend.heal()
		if w.cfg.WAL && len(w.unprotected()) > 0 {
			return kfC07ShutdownPurge
		}
	}
	w.stampAges()
	w.tracef("graceful shutdown (hooks+components via shutdown.Coordinator)")
	if err := w.coord.Shutdown(); err != nil {
		w.tracef("shutdown error: %v", err)
	}
	w.walW, w.buf, w.walRec = nil, nil, nil
	w.res.Restarts++
	w.tracef("restart")
	w.start()
	return ""
}

func (w *c07World) apply(a c07Action) {
	switch a.Kind {
	case "write":
		w.doWrite(a)
	case "hold":
		w.backend.setHold(true)
		w.tracef("storage: hold flush workers")
	case "release":
		w.backend.setHold(false)
		w.tracef("storage: release flush workers")
		w.settle()
	case "fail":
		w.doFail(a)
	case "heal":
		w.backend.heal()
		w.tracef("storage: healed")
	case "rotate":
		w.doRotate(a)
	case "age":
		w.doAge(a)
	case "tick":
		if f := w.doTick(a.RotIn); f != "" {
			verifkit.CountExcluded(f)
			w.skip(a, "tick in this state triggers "+f)
		}
	case "flush":
		w.doFlushAll()
	case "restart":
		if f := w.doRestart(); f != "" {
			verifkit.CountExcluded(f)
			w.skip(a, "graceful shutdown in this state triggers "+f)
		}
	default:
		w.tb.Fatalf("HARNESS unknown action %q", a.Kind)
	}
}

// terminal: storage works again, workers run; bounded number of maintenance
// rounds; graceful shutdown; restart with startup recovery; FlushAll.
func (w *c07World) terminal() {
	w.tracef("---- terminal phase")
	w.res.PreTicks, w.res.PreRestarts, w.res.PrePurged = w.res.Ticks, w.res.Restarts, w.logw.purgedFiles
	w.backend.heal()
	w.backend.setHold(false)
	w.settle()
	if w.cfg.WAL {
		for round := 0; round < 3; round++ {
			if !w.buf.HasFlushFailure() && len(w.unprotected()) == 0 {
				break
			}
			w.doRotate(c07Action{})
			// Time passes. WAL files age in creation order, so "the k oldest files are older
			// than safeAge" is a legitimate clock for every k; the terminal phase picks the
			// k that lets maintenance drop the leading files whose rows are all safe before
			// it replays the rest (any k must work for a correct implementation).
			k := 0
			if w.guards {
				k = -1
			}
			w.doAge(c07Action{Kind: "age", Old: k})
			if f := w.doTick(false); f != "" {
				w.res.Blocked = f
				return
			}
			w.doFlushAll()
		}
		if w.guards {
			if un := w.unprotected(); len(un) > 0 {
				w.res.Stranded = un
				return
			}
		}
	}
	if f := w.doRestart(); f != "" {
		w.res.Blocked = f
		return
	}
	w.doFlushAll()
}

func (w *c07World) close() {
	w.backend.heal()
	w.backend.setHold(false)
	if w.buf != nil {
		_ = w.buf.Close()
	}
	if w.walW != nil {
		_ = w.walW.Close()
	}
	if w.prevWD != "" {
		_ = os.Chdir(w.prevWD)
	}
	_ = os.RemoveAll(w.root)
}

// ---------------------------------------------------------------- oracle

var (
	c07DuckOnce sync.Once
	c07Duck     *sql.DB
	c07DuckErr  error
)

func c07StoredFromDisk(tb c07Fataler, root string) map[int64]int {
	c07DuckOnce.Do(func() { c07Duck, c07DuckErr = duck.Open() })
	if c07DuckErr != nil {
		tb.Fatalf("HARNESS duckdb: %v", c07DuckErr)
	}
	files := duck.FindParquet(filepath.Join(root, "data"))
	out := map[int64]int{}
	if len(files) == 0 {
		return out
	}
	qs := make([]string, len(files))
	for i, f := range files {
		qs[i] = duck.SQLString(f)
	}
	rows, err := c07Duck.Query("SELECT CAST(id AS BIGINT), count(*) FROM read_parquet([" + strings.Join(qs, ",") + "], union_by_name=true) GROUP BY 1")
	if err != nil {
		tb.Fatalf("HARNESS read_parquet: %v", err)
	}
	defer rows.Close()
	for rows.Next() {
		var id, n int64
		if err := rows.Scan(&id, &n); err != nil {
			tb.Fatalf("HARNESS scan: %v", err)
		}
		out[id] = int(n)
	}
	return out
}

// c07Run executes a history plus the terminal phase and evaluates the oracle.
func c07Run(tb c07Fataler, h c07History, guards bool) c07Result {
	w := newC07World(tb, h.Cfg, guards)
	defer w.close()
	for _, a := range h.Actions {
		w.apply(a)
	}
	w.terminal()
	w.res.Acked = len(w.acked)
	w.res.FlushFail = w.backend.nFail
	w.res.Deadline = w.backend.nDeadline
	w.res.QueueFull = w.logw.queueFull
	w.res.Purged = w.logw.purgedFiles
	w.res.Replayed = w.logw.replayedFiles
	if w.res.Blocked != "" || len(w.res.Stranded) > 0 {
		return w.res
	}
	disk := c07StoredFromDisk(tb, w.root)
	seen := w.backend.storedCopy()
	for id, n := range disk {
		if seen[id] != n {
			tb.Fatalf("HARNESS storage read-back disagrees with the observed writes for id %d: disk x%d, observed x%d", id, n, seen[id])
		}
	}
	for id := range w.acked {
		switch n := disk[id]; {
		case n == 0:
			w.res.Lost = append(w.res.Lost, id)
		case n > 1:
			w.res.Dup = append(w.res.Dup, id)
		}
	}
	sort.Slice(w.res.Lost, func(i, j int) bool { return w.res.Lost[i] < w.res.Lost[j] })
	sort.Slice(w.res.Dup, func(i, j int) bool { return w.res.Dup[i] < w.res.Dup[j] })
	return w.res
}

// ---------------------------------------------------------------- generator

func c07GenHistory(t *rapid.T) c07History {
	var h c07History
	h.Cfg.WAL = rapid.IntRange(0, 5).Draw(t, "wal") != 0
	h.Cfg.QueueSize = rapid.SampledFrom([]int{1, 2, 2, 16}).Draw(t, "queue")
	h.Cfg.Workers = 1 // one worker: the order of storage writes (and so of scripted failures) is a function of the history
	h.Cfg.MaxBuffer = rapid.IntRange(2, 5).Draw(t, "maxbuf")
	h.Cfg.RotateEach = rapid.IntRange(0, 5).Draw(t, "rotateEach") != 0 // 1 entry per WAL file (payload >= max size) vs one big file
	kinds := []string{"write", "write", "write", "write", "write", "write", "write", "write", "hold", "release", "fail", "fail", "fail", "fail", "heal",
		"rotate", "rotate", "age", "age", "tick", "tick", "tick", "flush", "restart", "recover", "recover", "recover"}
	if h.Cfg.WAL {
		h.Cfg.RelWALDir = rapid.IntRange(0, 2).Draw(t, "relWalDir") == 0
	}
	hangs := 0
	if h.Cfg.WAL && rapid.IntRange(0, 5).Draw(t, "timeoutHistory") == 0 {
		// storage that hangs until ingest.flush_timeout_seconds expires. The timeout is real
		// (1 s, the smallest configurable), so these histories have no hold actions (a parked
		// worker would race the wall clock) and at most one hang.
		h.Cfg.FlushTimeoutS = 1
		hangs = 1
		var k2 []string
		for _, k := range kinds {
			if k != "hold" && k != "release" {
				k2 = append(k2, k)
			}
		}
		kinds = k2
	}
	if !h.Cfg.WAL {
		kinds = []string{"write", "write", "write", "write", "write", "hold", "release", "fail", "heal", "flush", "restart"}
	}
	n := rapid.IntRange(4, verifkit.Scale(24, 32)).Draw(t, "steps")
	for i := 0; i < n; i++ {
		a := c07Action{Kind: rapid.SampledFrom(kinds).Draw(t, "kind")}
		switch a.Kind {
		case "write":
			a.Path = rapid.SampledFrom([]string{"mp", "mp", "lp", "lp", "mpa1", "mpan"}).Draw(t, "path")
			a.Meas = rapid.IntRange(0, 1).Draw(t, "meas")
			a.Rows = rapid.IntRange(1, 4).Draw(t, "rows")
			a.Hours = 1
			if a.Rows >= 2 && rapid.IntRange(0, 3).Draw(t, "multihour") == 0 {
				a.Hours = 2
			}
		case "fail":
			a.Mode = rapid.SampledFrom([]string{"all", "all", "all", "next", "next", "after"}).Draw(t, "mode")
			if hangs > 0 && rapid.IntRange(0, 1).Draw(t, "hang") == 0 {
				hangs--
				a.Mode, a.N = "hang", 1
			} else if a.Mode != "all" {
				a.N = rapid.IntRange(1, 2).Draw(t, "n")
			}
		case "tick":
			a.RotIn = rapid.IntRange(0, 2).Draw(t, "rotateInsideTick") == 0
		case "age":
			a.Old = rapid.SampledFrom([]int{-1, 0, 0, 1, 2, 3, 99}).Draw(t, "old")
		case "recover":
			// the outage ends and maintenance gets its chance: a plain sequence of primitive actions
			h.Actions = append(h.Actions, c07Heal, c07Rotate, c07Action{Kind: "age", Old: -1}, c07Tick)
			continue
		}
		h.Actions = append(h.Actions, a)
	}
	return h
}

func c07NonTrivial(r c07Result) bool {
	return (r.FlushFail > 0 || r.QueueFull > 0) && (r.PreTicks > 0 || r.PrePurged > 0 || r.PreRestarts > 0)
}

func c07Report(t c07Fataler, h c07History, r c07Result) {
	hb, _ := json.Marshal(h)
	switch {
	case len(r.Stranded) > 0:
		verifkit.WriteReplay("c07-history", map[string]any{"history": h, "result": r})
		t.Fatalf("VERIF-FAIL class=C07/acked-row-stranded ids=%v are acknowledged but neither stored nor in memory and no WAL replay is pending after healthy maintenance rounds (their WAL copies will be purged by age / at shutdown)\nhistory=%s\ntrace:\n%s",
			r.Stranded, hb, strings.Join(r.Trace, "\n"))
	case len(r.Lost) > 0:
		verifkit.WriteReplay("c07-history", map[string]any{"history": h, "result": r})
		t.Fatalf("VERIF-FAIL class=C07/acked-row-lost ids=%v acknowledged but absent from storage after heal+maintenance+restart (wal=%v)\nhistory=%s\ntrace:\n%s",
			r.Lost, h.Cfg.WAL, hb, strings.Join(r.Trace, "\n"))
	case len(r.Dup) > 0:
		verifkit.WriteReplay("c07-history", map[string]any{"history": h, "result": r})
		t.Fatalf("VERIF-FAIL class=C07/row-stored-twice ids=%v stored more than once\nhistory=%s\ntrace:\n%s",
			r.Dup, hb, strings.Join(r.Trace, "\n"))
	}
}

func c07Account(h c07History, r c07Result) {
	verifkit.Eval()
	if h.Cfg.WAL {
		verifkit.Class("wal-on")
	} else {
		verifkit.Class("wal-off")
	}
	if r.FlushFail > 0 {
		verifkit.Class("failed-flush")
	}
	if h.Cfg.RelWALDir {
		verifkit.Class("relative-wal-dir")
	}
	if h.Cfg.FlushTimeoutS > 0 {
		verifkit.Class("timeout-history")
	}
	if r.Deadline > 0 {
		verifkit.Class("flush-ended-by-deadline")
	}
	if r.QueueFull > 0 {
		verifkit.Class("queue-full-drop")
	}
	if r.Replayed > 0 {
		verifkit.Class("wal-file-replayed")
	}
	if r.Purged > 0 {
		verifkit.Class("wal-file-purged")
	}
	if r.PreRestarts > 0 {
		verifkit.Class("mid-history-restart")
	}
	if r.Blocked != "" {
		if os.Getenv("C07_DEBUG") != "" {
			hb, _ := json.Marshal(h)
			fmt.Printf("BLOCKED %s\nhistory=%s\n%s\n\n", r.Blocked, hb, strings.Join(r.Trace, "\n"))
		}
		verifkit.Class("terminal-blocked:" + r.Blocked)
		verifkit.CountExcluded(r.Blocked)
	}
	verifkit.ClassN("skipped-actions", len(r.Skipped))
	if c07NonTrivial(r) && r.Blocked == "" {
		hb, _ := json.Marshal(h)
		verifkit.NonTrivial(string(hb))
		if verifkit.SampleCount() < 4 {
			r2 := r
			r2.Trace = nil
			verifkit.Sample(map[string]any{"history": h, "result": r2})
		}
	}
}

func TestVerifC07_Histories(t *testing.T) {
	if p := os.Getenv("VERIF_REPLAY_FILE"); strings.HasSuffix(p, ".json") {
		b, err := os.ReadFile(p)
		if err != nil {
			t.Fatalf("HARNESS replay file: %v", err)
		}
		var rp struct {
			History c07History `json:"history"`
		}
		if err := json.Unmarshal(b, &rp); err != nil {
			t.Fatalf("HARNESS replay file: %v", err)
		}
		r := c07Run(t, rp.History, true)
		t.Logf("replay result: %+v", r)
		c07Report(t, rp.History, r)
		return
	}
	rapid.Check(t, func(t *rapid.T) {
		h := c07GenHistory(t)
		r := c07Run(t, h, true)
		c07Account(h, r)
		c07Report(t, h, r)
	})
}

// ---------------------------------------------------------------- deterministic histories

func c07W(path string, rows, hours int) c07Action {
	return c07Action{Kind: "write", Path: path, Rows: rows, Hours: hours}
}

var (
	c07Hold    = c07Action{Kind: "hold"}
	c07Release = c07Action{Kind: "release"}
	c07FailAll = c07Action{Kind: "fail", Mode: "all"}
	c07Heal    = c07Action{Kind: "heal"}
	c07Rotate  = c07Action{Kind: "rotate"}
	c07AgeMid  = c07Action{Kind: "age", Old: 0}
	c07AgeOld  = c07Action{Kind: "age", Old: 99}
	c07Tick    = c07Action{Kind: "tick"}
	c07Restart = c07Action{Kind: "restart"}
)

func c07H(wal, rotateEach bool, actions ...c07Action) c07History {
	return c07History{Cfg: c07Cfg{WAL: wal, QueueSize: 1, Workers: 1, MaxBuffer: 2, RotateEach: rotateEach}, Actions: actions}
}

func c07Eq(a []int64, b ...int64) bool {
	if len(a) != len(b) {
		return false
	}
	for i := range a {
		if a[i] != b[i] {
			return false
		}
	}
	return true
}

func c07KF(t *testing.T, id string, h c07History, want func(r c07Result) bool, what string) {
	r := c07Run(t, h, false)
	hb, _ := json.Marshal(h)
	ok := want(r)
	t.Logf("%s reproduced=%v acked=%d lost=%v dup=%v\nhistory=%s\ntrace:\n%s", id, ok, r.Acked, r.Lost, r.Dup, hb, strings.Join(r.Trace, "\n"))
	verifkit.KnownFinding(id, ok, what)
}

// The healthy path the property relies on: a failed flush whose rows sit in a
// rotated, middle-aged WAL file is replayed by the next maintenance tick once
// storage works again and ends up stored exactly once.
func TestVerifC07_CleanReplayPath(t *testing.T) {
	for _, path := range []string{"mp", "lp", "mpa1", "mpan"} {
		h := c07H(true, true, c07FailAll, c07W(path, 2, 1), c07Heal, c07Rotate, c07AgeMid, c07Tick)
		r := c07Run(t, h, false)
		verifkit.Eval()
		if r.FlushFail == 0 || r.Replayed == 0 {
			t.Fatalf("HARNESS clean-path history did not exercise a failed flush + replay: %+v", r)
		}
		c07Report(t, h, r)
	}
	// the same with the WAL directory configured as shipped (relative, ./data/wal): one big
	// file and one file per entry, plus a mid-history graceful restart before the outage
	for _, rotateEach := range []bool{true, false} {
		hr := c07H(true, rotateEach, c07W("mp", 1, 1), c07Restart, c07FailAll, c07W("lp", 2, 1), c07Heal, c07Rotate, c07AgeMid, c07Tick)
		hr.Cfg.RelWALDir = true
		rr := c07Run(t, hr, false)
		verifkit.Eval()
		if rr.FlushFail == 0 {
			t.Fatalf("HARNESS relative-dir history did not exercise a failed flush: %+v", rr)
		}
		c07Report(t, hr, rr)
	}
	// a rotation that lands inside a flush-failure tick (after its CurrentFile() read) must not
	// cost the WAL copy of anything acknowledged afterwards
	for _, rotateEach := range []bool{true, false} {
		tickRot := c07Action{Kind: "tick", RotIn: true}
		hs := c07H(true, rotateEach, c07FailAll, c07W("mp", 2, 1), c07Heal, c07Rotate, c07AgeMid, tickRot,
			c07FailAll, c07W("mp", 2, 1), c07Heal, c07Rotate, c07AgeMid, c07Tick)
		rs := c07Run(t, hs, false)
		verifkit.Eval()
		if rs.FlushFail < 2 {
			t.Fatalf("HARNESS rotate-inside-tick history did not exercise two failed flushes: %+v", rs)
		}
		c07Report(t, hs, rs)
	}
	// a storage write that hangs until ingest.flush_timeout_seconds expires is a failed flush
	// like any other: flagged, replayed by the next tick, stored exactly once
	ht := c07H(true, true, c07Action{Kind: "fail", Mode: "hang", N: 1}, c07W("mp", 2, 1), c07Rotate, c07AgeMid, c07Tick)
	ht.Cfg.FlushTimeoutS = 1
	rt := c07Run(t, ht, false)
	verifkit.Eval()
	if rt.Deadline != 1 {
		t.Fatalf("HARNESS hang history did not end a flush by deadline: %+v", rt)
	}
	c07Report(t, ht, rt)
	// and a purge of a fully flushed old file loses nothing
	h := c07H(true, true, c07W("mp", 2, 1), c07AgeOld, c07Tick, c07FailAll, c07W("lp", 2, 1), c07Heal, c07Rotate, c07AgeMid, c07Tick)
	r := c07Run(t, h, false)
	verifkit.Eval()
	if r.Purged == 0 {
		t.Fatalf("HARNESS purge history purged nothing: %+v", r)
	}
	c07Report(t, h, r)
}

func TestVerifKF_C07_shutdown_purge_unflushed(t *testing.T) {
	// storage down during graceful shutdown: wal-purge hook already deleted the WAL when Close()'s flush fails
	ha := c07H(true, true, c07W("mp", 1, 1), c07FailAll, c07Restart)
	ra := c07Run(t, ha, false)
	// flush failed earlier, storage healthy again at shutdown: the only copy (WAL) is purged unconditionally
	hb := c07H(true, true, c07FailAll, c07W("mp", 2, 1), c07Heal, c07Restart)
	rb := c07Run(t, hb, false)
	ok := c07Eq(ra.Lost, 1) && c07Eq(rb.Lost, 1, 2)
	t.Logf("a: lost=%v trace:\n%s\nb: lost=%v trace:\n%s", ra.Lost, strings.Join(ra.Trace, "\n"), rb.Lost, strings.Join(rb.Trace, "\n"))
	verifkit.KnownFinding(kfC07ShutdownPurge, ok, "graceful shutdown purges the WAL before/regardless of the buffer flush")
}

func TestVerifKF_C07_close_drops_queued(t *testing.T) {
	// WAL off so that nothing but ArrowBuffer.Close decides: one task in flight (slow storage), one queued
	h := c07H(false, false, c07Hold, c07W("mp", 2, 1), c07W("mp", 2, 1), c07Restart)
	r := c07Run(t, h, false)
	// same with the WAL on: the dropped tasks' WAL copies were purged by the hook that ran first
	h2 := c07H(true, true, c07Hold, c07W("mp", 2, 1), c07W("mp", 2, 1), c07Restart)
	r2 := c07Run(t, h2, false)
	// (whether the worker still attempts the queued task after the cancel is a coin flip of its select)
	ok := c07Eq(r.Lost, 1, 2, 3, 4) && c07Eq(r2.Lost, 1, 2, 3, 4) && r.FlushFail >= 1
	t.Logf("wal off: lost=%v trace:\n%s\nwal on: lost=%v", r.Lost, strings.Join(r.Trace, "\n"), r2.Lost)
	verifkit.KnownFinding(kfC07CloseDropsQueue, ok, "ArrowBuffer.Close cancels the in-flight flush and abandons queued flush tasks")
}

func TestVerifKF_C07_queue_full_not_replayed(t *testing.T) {
	h := c07H(true, true, c07Hold, c07W("mp", 2, 1), c07W("mp", 2, 1), c07W("mp", 2, 1), c07Release,
		c07Rotate, c07AgeMid, c07Tick, c07AgeOld, c07Tick)
	// the same drop hits rows re-buffered by a replay burst: their WAL file is deleted right after
	h2 := c07H(true, true, c07FailAll, c07W("mp", 2, 1), c07W("mp", 2, 1), c07W("mp", 2, 1), c07Heal, c07Hold,
		c07Rotate, c07AgeMid, c07Tick, c07Release)
	r2 := c07Run(t, h2, false)
	t.Logf("replay burst: queue_full=%d lost=%v trace:\n%s", r2.QueueFull, r2.Lost, strings.Join(r2.Trace, "\n"))
	c07KF(t, kfC07QueueFullNoFlag, h, func(r c07Result) bool {
		return r.QueueFull == 1 && r.FlushFail == 0 && c07Eq(r.Lost, 5, 6) && len(r.Dup) == 0 && r2.QueueFull == 1 && c07Eq(r2.Lost, 5, 6)
	}, "queue-full drop with the WAL on is never replayed by maintenance and its WAL file is purged by age")
}

func TestVerifKF_C07_replay_duplicates_stored(t *testing.T) {
	h := c07H(true, false, c07W("mp", 2, 1), c07FailAll, c07W("mp", 2, 1), c07Heal, c07Rotate, c07AgeMid, c07Tick)
	c07KF(t, kfC07ReplayDup, h, func(r c07Result) bool { return len(r.Lost) == 0 && c07Eq(r.Dup, 1, 2) },
		"flush-failure replay re-ingests the whole WAL file including rows that were flushed successfully")
}

func TestVerifKF_C07_purge_before_replay(t *testing.T) {
	h := c07H(true, true, c07FailAll, c07W("mp", 2, 1), c07Heal, c07Rotate, c07AgeOld, c07Tick)
	c07KF(t, kfC07PurgeFirst, h, func(r c07Result) bool { return r.FlushFail == 1 && c07Eq(r.Lost, 1, 2) && r.PrePurged >= 1 },
		"maintenance tick purges files older than safeAge before replaying them")
}

func TestVerifKF_C07_flag_reset_skipped_files(t *testing.T) {
	h := c07H(true, false, c07FailAll, c07W("mp", 2, 1), c07Heal, c07Tick, c07Rotate, c07AgeMid, c07Tick, c07AgeOld, c07Tick)
	c07KF(t, kfC07FlagReset, h, func(r c07Result) bool { return r.FlushFail == 1 && r.Replayed == 0 && c07Eq(r.Lost, 1, 2) },
		"tick resets the flush-failure flag although the rows are in the (skipped) active WAL file")
}

func TestVerifKF_C07_replay_drops_wal_cover(t *testing.T) {
	h := c07H(true, true, c07FailAll, c07W("mp", 2, 1), c07Rotate, c07AgeMid, c07Tick, c07Heal)
	c07KF(t, kfC07ReplayUncovered, h, func(r c07Result) bool { return r.FlushFail == 2 && r.Replayed == 1 && c07Eq(r.Lost, 1, 2) },
		"replay during a still-running outage deletes the WAL file; the re-buffered rows fail to flush again and are gone")
}

func TestVerifKF_C07_waloff_queue_full_acked(t *testing.T) {
	h := c07H(false, false, c07Hold, c07W("mp", 2, 1), c07W("mp", 2, 1), c07W("mp", 2, 1), c07Release)
	c07KF(t, kfC07WalOffQueueFull, h, func(r c07Result) bool { return r.QueueFull == 1 && r.Acked == 6 && c07Eq(r.Lost, 5, 6) },
		"WAL off: rows dropped on a full flush queue are acknowledged")
}

func TestVerifKF_C07_multihour_partial_dup(t *testing.T) {
	h := c07H(true, true, c07Action{Kind: "fail", Mode: "after", N: 1}, c07W("mp", 2, 2), c07Heal, c07Rotate, c07AgeMid, c07Tick)
	c07KF(t, kfC07MultiHour, h, func(r c07Result) bool { return len(r.Lost) == 0 && len(r.Dup) == 1 },
		"multi-hour flush that fails on the second hour is replayed whole: the hour that was stored is stored again")
}

func TestVerifKF_C07_waloff_flush_failure_acked(t *testing.T) {
	h := c07H(false, false, c07Action{Kind: "fail", Mode: "next", N: 1}, c07W("mp", 2, 1))
	c07KF(t, kfC07WalOffFlushFail, h, func(r c07Result) bool { return r.Acked == 2 && c07Eq(r.Lost, 1, 2) },
		"WAL off: a failed flush discards rows that were acknowledged")
}
