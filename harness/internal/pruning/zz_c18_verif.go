//go:build verif

package pruning

// Test seam for the C18 harness (overlaid at check time, never committed):
// the pruner's enabled flag has no exported setter.

// VerifSetEnabled switches partition pruning on or off.
func (p *PartitionPruner) VerifSetEnabled(on bool) { p.enabled = on }

// VerifEnabled reports the flag.
func (p *PartitionPruner) VerifEnabled() bool { return p.enabled }
