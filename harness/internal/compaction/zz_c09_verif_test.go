//go:build verif

package compaction

// C09 - Compaction never loses or duplicates rows, even across crashes.
//
// Fault enumeration over real partitions written by the real ArrowWriter:
//   * "inproc" steps run recovery + candidate discovery + Job.Run on a crash
//     backend (storage.VerifFault, panic at the k-th crash point, including
//     inside the streamed upload); the harness recovers the sentinel, drops
//     every object and goes on with fresh ones on the same directories
//     (= the whole node died).
//   * "cycle" steps run the real Manager.RunCompactionCycle; the compaction
//     subprocess is this test binary re-executed (os.Executable(), exactly what
//     RunJobInSubprocess does) in VERIF_MODE=c09child, which either calls the
//     real RunSubprocessJob or SIGKILLs itself at a crash point, so the
//     parent's adaptive split-and-retry runs for real.
//   * every script ends with two clean real cycles (clock moved 3 h ahead so
//     freshly written outputs are old enough to be looked at again).
// Oracle: DuckDB read_parquet(union_by_name) multisets, see c09Oracle.

import (
	"context"
	"database/sql"
	"encoding/json"
	"fmt"
	"io"
	"math"
	"os"
	"path/filepath"
	"sort"
	"strconv"
	"strings"
	"testing"
	"time"

	"github.com/basekick-labs/arc/internal/config"
	"github.com/basekick-labs/arc/internal/ingest"
	"github.com/basekick-labs/arc/internal/storage"
	"github.com/basekick-labs/arc/internal/verifkit"
	"github.com/basekick-labs/arc/internal/verifkit/duck"
	"github.com/rs/zerolog"
	"pgregory.net/rapid"
)

const (
	kfC09Part  = "C09-part-input"
	kfC09Retry = "C09-adaptive-retry-dup"
	// earlier compacted output (DuckDB drops arc:tags) re-compacted with raw
	// files that declare fewer tag columns: dedup key too coarse, rows lost
	kfC09Coarse = "C09-recompact-coarse-key"
	// the parent Manager's manifest-file cache (30 s TTL) omits output paths
	// on a hit and cannot see manifests written by the job's own
	// ManifestManager: a later scan of the same files on the same Manager
	// within the TTL re-compacts manifest-tracked files
	kfC09Cache = "C09-manifest-cache-stale"

	c09DB   = "vdb"
	c09Meas = "cpu"
)

// ---------------------------------------------------------------- case model

type c09File struct {
	Name    string           `json:"name"`
	Hour    int              `json:"hour"`
	Cols    []string         `json:"cols"`
	Rows    []map[string]any `json:"-"`
	NRows   int              `json:"rows"`
	Tags    []string         `json:"tags,omitempty"` // declared in arc:tags
	DedupT  bool             `json:"dedup_time,omitempty"`
	Corrupt string           `json:"corrupt,omitempty"`
	RowsTxt []string         `json:"rows_txt,omitempty"`
	data    []byte
}

type c09Plan struct {
	CrashAt int     `json:"crash_at,omitempty"` // crash point number in the child (0 = none)
	Sym     string  `json:"sym,omitempty"`      // symbolic crash point (known-finding reproductions)
	MidFrac float64 `json:"mid_frac,omitempty"`
	ErrAt   int     `json:"err_at,omitempty"` // scripted failure at this point
	Clean   bool    `json:"clean,omitempty"`  // real RunSubprocessJob, no wrapper
	// FailInputDeletes: every input delete of the job fails (storage fault), so
	// the job keeps its manifest for recovery.
	FailInputDeletes bool `json:"fail_input_deletes,omitempty"`
}

type c09Step struct {
	Kind    string    `json:"kind"` // inproc | cycle
	CrashAt int       `json:"crash_at,omitempty"`
	Sym     string    `json:"sym,omitempty"`
	ErrAt   int       `json:"err_at,omitempty"`
	MidFrac float64   `json:"mid_frac,omitempty"`
	Late    bool      `json:"late,omitempty"`
	GapS    int       `json:"gap_s,omitempty"` // extra seconds the harness clock advances before the step
	Plan    []c09Plan `json:"plan,omitempty"`
	// Reuse: the cycle runs on the Manager of the previous cycle step (a
	// long-lived server: its ManifestManager cache survives between cycles).
	Reuse bool `json:"reuse,omitempty"`
	// ParentFailDeletes: data-file deletes issued by the parent (manifest
	// recovery) fail during this cycle - the storage fault persists.
	ParentFailDeletes bool `json:"parent_fail_deletes,omitempty"`
}

type c09Case struct {
	Tier       string     `json:"tier"` // hourly | daily | both
	Mode       string     `json:"mode"` // plain | tags | dedup_time
	Files      []*c09File `json:"files"`
	PreCompact int        `json:"pre_compact,omitempty"`
	MaxBatch   int        `json:"max_batch"`
	NoSort     bool       `json:"no_sort,omitempty"`
	Script     []c09Step  `json:"script"`
	// CheapFinal: the first clean cycle after the script is the in-process
	// replica (no subprocess spawn); the two real Manager cycles still follow
	// and normally find nothing left to do.
	CheapFinal bool `json:"cheap_final,omitempty"`
}

func (c *c09Case) summary() map[string]any {
	fs := make([]string, len(c.Files))
	for i, f := range c.Files {
		fs[i] = fmt.Sprintf("%s h%02d cols=%v rows=%d tags=%v%s", f.Name, f.Hour, f.Cols, len(f.Rows), f.Tags,
			map[bool]string{true: " corrupt=" + f.Corrupt, false: ""}[f.Corrupt != ""])
	}
	return map[string]any{"tier": c.Tier, "mode": c.Mode, "files": fs, "pre_compact": c.PreCompact,
		"max_batch": c.MaxBatch, "no_sort": c.NoSort, "script": c.Script, "cheap_final": c.CheapFinal}
}

func (c *c09Case) replay() *c09Case {
	for _, f := range c.Files {
		f.NRows = len(f.Rows)
		f.RowsTxt = nil
		for _, r := range f.Rows {
			f.RowsTxt = append(f.RowsTxt, fmt.Sprintf("%v", r))
		}
	}
	return c
}

var c09TagCols = []string{"host", "region"}
var c09FieldCols = []string{"v", "n", "s", "ok"}

func c09IsTag(c string) bool { return c == "host" || c == "region" }

// c09BaseMicros is 2024-03-05T00:00:00Z in microseconds.
var c09Day = time.Date(2024, 3, 5, 0, 0, 0, 0, time.UTC)

func genC09Files(t *rapid.T, mode string, tier string, nfiles int) []*c09File {
	hours := []int{14}
	if tier != "hourly" {
		hours = []int{3, 7, 14}
	}
	// Exclusion for C09-recompact-coarse-key: with dedup metadata every file of
	// the partition has (and declares) the same tag columns - no tag-schema
	// evolution - so a job that mixes a metadata-less compacted output with raw
	// files still dedups on the full tag set.
	uniform := mode != "plain" && verifkit.Excluded(kfC09Coarse)
	var partTags []string
	if uniform {
		verifkit.CountExcluded(kfC09Coarse)
		if mode == "tags" || rapid.IntRange(0, 3).Draw(t, "parttag-host") > 0 {
			partTags = append(partTags, "host")
		}
		if rapid.Bool().Draw(t, "parttag-region") {
			partTags = append(partTags, "region")
		}
	}
	// partition-wide column pool: every file picks a subset (schema differences)
	var files []*c09File
	for i := 0; i < nfiles; i++ {
		f := &c09File{Hour: hours[rapid.IntRange(0, len(hours)-1).Draw(t, "hour")]}
		if tier != "hourly" && i < len(hours) && nfiles >= 2*len(hours) {
			f.Hour = hours[i%len(hours)]
		}
		f.Name = fmt.Sprintf("%s_20240305_%02d%02d%02d_%09d.parquet", c09Meas, f.Hour, i/60, i%60, 100000+i)
		if uniform {
			f.Cols = append(f.Cols, partTags...)
		} else {
			for _, tc := range c09TagCols {
				p := 2
				if tc == "region" {
					p = 4
				}
				if rapid.IntRange(0, 9).Draw(t, "hascol") >= p {
					f.Cols = append(f.Cols, tc)
				}
			}
			if mode != "plain" && len(f.Cols) == 0 && (mode == "tags" || rapid.Bool().Draw(t, "forcetag")) {
				f.Cols = append(f.Cols, "host")
			}
		}
		for _, fc := range c09FieldCols {
			if rapid.IntRange(0, 9).Draw(t, "hasfield") >= 4 {
				f.Cols = append(f.Cols, fc)
			}
		}
		if mode != "plain" {
			for _, cn := range f.Cols {
				if c09IsTag(cn) {
					f.Tags = append(f.Tags, cn)
				}
			}
			f.DedupT = mode == "dedup_time"
		}
		nrows := rapid.IntRange(1, 6).Draw(t, "nrows")
		base := c09Day.Add(time.Duration(f.Hour) * time.Hour).UnixMicro()
		for r := 0; r < nrows; r++ {
			row := map[string]any{"time": base + int64(rapid.IntRange(0, 4).Draw(t, "tslot"))*1_000_000}
			for _, cn := range f.Cols {
				if rapid.IntRange(0, 9).Draw(t, "null") < 2 {
					row[cn] = nil
					continue
				}
				switch cn {
				case "host":
					row[cn] = rapid.SampledFrom([]string{"a", "b", ""}).Draw(t, "host")
				case "region":
					row[cn] = rapid.SampledFrom([]string{"x", "y"}).Draw(t, "region")
				case "v":
					row[cn] = rapid.SampledFrom([]float64{0, 1.5, -2.25, 1e300, math.NaN(), math.Inf(-1)}).Draw(t, "v")
				case "n":
					row[cn] = rapid.SampledFrom([]int64{0, 1, -7, math.MaxInt64, math.MinInt64}).Draw(t, "n")
				case "s":
					row[cn] = rapid.SampledFrom([]string{"", "p", "it's", "ü\n"}).Draw(t, "s")
				case "ok":
					row[cn] = rapid.Bool().Draw(t, "ok")
				}
			}
			f.Rows = append(f.Rows, row)
		}
		files = append(files, f)
	}
	return files
}

func genC09Case(t *rapid.T, maxFiles int) *c09Case {
	c := &c09Case{}
	c.Tier = rapid.SampledFrom([]string{"hourly", "hourly", "hourly", "daily", "both"}).Draw(t, "tier")
	c.Mode = rapid.SampledFrom([]string{"plain", "plain", "tags", "tags", "dedup_time"}).Draw(t, "mode")
	n := rapid.IntRange(2, maxFiles).Draw(t, "nfiles")
	c.Files = genC09Files(t, c.Mode, c.Tier, n)
	if rapid.IntRange(0, 9).Draw(t, "corrupt") == 0 {
		f := &c09File{Hour: c.Files[0].Hour, Corrupt: rapid.SampledFrom([]string{"junk", "trunc", "tiny"}).Draw(t, "corruptkind")}
		f.Name = fmt.Sprintf("%s_20240305_%02d5959_%09d.parquet", c09Meas, f.Hour, 999)
		c.Files = append(c.Files, f)
	}
	c.MaxBatch = rapid.SampledFrom([]int{30, 30, 30, 2, 3, 5, 8}).Draw(t, "maxbatch")
	c.NoSort = rapid.IntRange(0, 4).Draw(t, "nosort") == 0
	if c.Tier == "hourly" && n >= 4 && rapid.IntRange(0, 4).Draw(t, "pre") == 0 {
		c.PreCompact = rapid.IntRange(2, n-2).Draw(t, "precompact")
	}
	return c
}

func genC09Script(t *rapid.T, c *c09Case) {
	defer func() {
		// Exclusion for C09-manifest-cache-stale: with both tiers in one cycle
		// the daily tier re-scans the hour files on the same Manager inside the
		// cache TTL; no job of such a cycle may leave a manifest behind.
		if c.Tier != "both" || !verifkit.Excluded(kfC09Cache) {
			return
		}
		for i := range c.Script {
			st := &c.Script[i]
			if st.Kind == "inproc" && st.ErrAt != 0 {
				st.ErrAt = 0
				verifkit.CountExcluded(kfC09Cache)
			}
			for j := range st.Plan {
				if !st.Plan[j].Clean {
					st.Plan[j] = c09Plan{Clean: true}
					verifkit.CountExcluded(kfC09Cache)
				}
			}
		}
	}()
	steps := rapid.IntRange(1, 3).Draw(t, "nsteps")
	for i := 0; i < steps; i++ {
		s := c09Step{Late: rapid.Bool().Draw(t, "late")}
		if rapid.IntRange(0, 2).Draw(t, "kind") == 0 {
			s.Kind = "cycle"
			s.Reuse = rapid.Bool().Draw(t, "reuse")
			s.GapS = rapid.SampledFrom([]int{0, 0, 45, 8 * 86400}).Draw(t, "gap")
			np := rapid.IntRange(1, 3).Draw(t, "nplans")
			for j := 0; j < np; j++ {
				p := c09Plan{}
				switch rapid.IntRange(0, 5).Draw(t, "plankind") {
				case 0:
					p.Clean = true
				case 1:
					p.ErrAt = rapid.IntRange(1, 12).Draw(t, "errat")
				default:
					p.CrashAt = rapid.IntRange(1, len(c.Files)+8).Draw(t, "crashat")
					p.MidFrac = rapid.SampledFrom([]float64{0.01, 0.5, 0.99}).Draw(t, "midfrac")
				}
				s.Plan = append(s.Plan, p)
			}
		} else {
			s.Kind = "inproc"
			if rapid.IntRange(0, 5).Draw(t, "inprocerr") == 0 {
				s.ErrAt = rapid.IntRange(1, 12).Draw(t, "errat")
			}
			s.CrashAt = rapid.IntRange(1, len(c.Files)+10).Draw(t, "crashat")
			s.MidFrac = rapid.SampledFrom([]float64{0.01, 0.5, 0.99}).Draw(t, "midfrac")
		}
		c.Script = append(c.Script, s)
	}
}

// ---------------------------------------------------------------- file writer

var c09Writer = ingest.NewArrowWriter(&config.IngestConfig{Compression: "snappy", UseDictionary: true, WriteStatistics: true}, zerolog.Nop())

func (f *c09File) build() error {
	if f.data != nil {
		return nil
	}
	switch f.Corrupt {
	case "junk":
		f.data = []byte(strings.Repeat("not a parquet file ", 5))
		return nil
	case "tiny":
		f.data = []byte("PAR1x")
		return nil
	}
	n := len(f.Rows)
	cols := map[string]interface{}{}
	valid := map[string][]bool{}
	times := make([]int64, n)
	for i, r := range f.Rows {
		times[i] = r["time"].(int64)
	}
	cols["time"] = times
	for _, cn := range f.Cols {
		v := make([]bool, n)
		switch cn {
		case "host", "region", "s":
			a := make([]string, n)
			for i, r := range f.Rows {
				if x, ok := r[cn].(string); ok {
					a[i], v[i] = x, true
				}
			}
			cols[cn] = a
		case "v":
			a := make([]float64, n)
			for i, r := range f.Rows {
				if x, ok := r[cn].(float64); ok {
					a[i], v[i] = x, true
				}
			}
			cols[cn] = a
		case "n":
			a := make([]int64, n)
			for i, r := range f.Rows {
				if x, ok := r[cn].(int64); ok {
					a[i], v[i] = x, true
				}
			}
			cols[cn] = a
		case "ok":
			a := make([]bool, n)
			for i, r := range f.Rows {
				if x, ok := r[cn].(bool); ok {
					a[i], v[i] = x, true
				}
			}
			cols[cn] = a
		}
		valid[cn] = v
	}
	b, err := c09Writer.WriteParquetColumnar(context.Background(), c09Meas, cols, valid, f.Tags, f.DedupT, nil)
	if err != nil {
		return err
	}
	f.data = append([]byte(nil), b...)
	if f.Corrupt == "trunc" {
		f.data = f.data[:len(f.data)-6]
	}
	return nil
}

// ---------------------------------------------------------------- world

type tbLike interface {
	Fatalf(format string, args ...any)
	Logf(format string, args ...any)
}

type c09World struct {
	root, temp, side string
	c                *c09Case
	duck             *sql.DB
	o                *c09Oracle
	outputsSeen      map[string]bool
	history          []string
	nonTrivial       bool
	excluded         map[string]int
	clock            time.Time           // harness clock (clock seam of hourly.go, daily.go, manifest.go)
	liveMgr          *Manager            // long-lived Manager of "cycle" steps with Reuse
	liveFault        *storage.VerifFault // its storage wrapper (never crashes; scripted delete faults only)
	stepCrashed      []bool              // per script step: did a crash/kill fire
	stepSkipped      []int               // per script step: crash points suppressed by a known-finding exclusion
}

func (w *c09World) logf(format string, args ...any) {
	w.history = append(w.history, fmt.Sprintf(format, args...))
}

func c09Logger() zerolog.Logger {
	if os.Getenv("VERIF_C09_DEBUG") != "" {
		return zerolog.New(os.Stderr).Level(zerolog.DebugLevel)
	}
	return zerolog.Nop()
}

func (w *c09World) partDir(f *c09File) string {
	return filepath.Join(c09DB, c09Meas, "2024", "03", "05", fmt.Sprintf("%02d", f.Hour))
}

func (w *c09World) writeFile(f *c09File) error {
	if err := f.build(); err != nil {
		return err
	}
	d := filepath.Join(w.root, w.partDir(f))
	if err := os.MkdirAll(d, 0o700); err != nil {
		return err
	}
	return os.WriteFile(filepath.Join(d, f.Name), f.data, 0o600)
}

func newC09World(c *c09Case, db *sql.DB) (*c09World, error) {
	base, err := os.MkdirTemp("", "c09-")
	if err != nil {
		return nil, err
	}
	w := &c09World{root: filepath.Join(base, "store"), temp: filepath.Join(base, "tmp"), side: filepath.Join(base, "side"),
		c: c, duck: db, outputsSeen: map[string]bool{}, excluded: map[string]int{}}
	for _, d := range []string{w.root, w.temp, w.side} {
		if err := os.MkdirAll(d, 0o700); err != nil {
			return nil, err
		}
	}
	pre := c.PreCompact
	for i, f := range c.Files {
		if pre > 0 && i >= pre {
			break
		}
		if err := w.writeFile(f); err != nil {
			return nil, err
		}
	}
	if pre > 0 {
		// a genuine earlier compaction: its output (no arc:* metadata, like every
		// DuckDB-written output) becomes part of the initial partition
		if _, err := w.inproc(c09Step{Kind: "inproc"}); err != nil {
			return nil, fmt.Errorf("pre-compaction: %w", err)
		}
		for _, f := range c.Files[pre:] {
			if err := w.writeFile(f); err != nil {
				return nil, err
			}
		}
		w.history = nil
	}
	o, err := newC09Oracle(w)
	if err != nil {
		return nil, err
	}
	w.o = o
	return w, nil
}

func (w *c09World) close() { _ = os.RemoveAll(filepath.Dir(w.root)) }

func (w *c09World) corruptNames() map[string]bool {
	m := map[string]bool{}
	for _, f := range w.c.Files {
		if f.Corrupt != "" {
			m[f.Name] = true
		}
	}
	return m
}

// parquetFiles lists the final-path *.parquet files of the measurement (what a
// query's **/*.parquet glob sees), minus the deliberately corrupt input.
func (w *c09World) parquetFiles() []string {
	bad := w.corruptNames()
	var out []string
	for _, p := range duck.FindParquet(filepath.Join(w.root, c09DB, c09Meas)) {
		if !bad[filepath.Base(p)] {
			out = append(out, p)
		}
	}
	return out
}

func (w *c09World) manifests() []string {
	var out []string
	_ = filepath.Walk(filepath.Join(w.root, ManifestBasePath), func(p string, info os.FileInfo, err error) error {
		if err == nil && !info.IsDir() && strings.HasSuffix(p, ".json") {
			out = append(out, p)
		}
		return nil
	})
	return out
}

func (w *c09World) tiers(be storage.Backend) []Tier {
	lg := c09Logger()
	h := NewHourlyTier(&HourlyTierConfig{StorageBackend: be, MinAgeHours: 1, MinFiles: 2, Enabled: true, Logger: lg})
	d := NewDailyTier(&DailyTierConfig{StorageBackend: be, MinAgeHours: 24, MinFiles: 2, Enabled: true, Logger: lg})
	switch w.c.Tier {
	case "hourly":
		return []Tier{h}
	case "daily":
		return []Tier{d}
	}
	return []Tier{h, d}
}

func (w *c09World) manager(be storage.Backend) *Manager {
	var sk []string
	if w.c.NoSort {
		sk = []string{}
	}
	return NewManager(&ManagerConfig{StorageBackend: be, LockManager: NewLockManager(), MinAgeHours: 1, MinFiles: 2,
		MaxFilesPerBatch: w.c.MaxBatch, MaxConcurrent: 1, TempDirectory: w.temp, Threads: 2,
		DefaultSortKeys: sk, Tiers: w.tiers(be), Logger: c09Logger()})
}

// tick advances the harness clock and installs it in the package's clock seam.
// The code under test never sees the wall clock in the parent process: the
// clock starts at the real time the partition was built (output names written
// by subprocesses carry the real time) and moves only here: +1 s per step,
// +gap seconds, +3 h for a "late" step. Within a step it stands still, so
// whether the ManifestManager's 30 s cache is fresh is decided by the script,
// never by how slow the machine is.
func (w *c09World) tick(s c09Step) {
	if w.clock.IsZero() {
		w.clock = time.Now()
	}
	w.clock = w.clock.Add(time.Second + time.Duration(s.GapS)*time.Second)
	if s.Late {
		w.clock = w.clock.Add(3 * time.Hour)
	}
	VerifSetClock(w.clock)
}

// ---- exclusion predicates (switched on only while the finding is open)

func c09IsOutput(p storage.VerifPoint) bool {
	return p.Op == "WriteReader" && !storage.VerifIsManifestPath(p.Path)
}

// c09SkipPart: crash with the output fully staged in X.parquet.part.
func c09SkipPart(p storage.VerifPoint) bool {
	return verifkit.Excluded(kfC09Part) && c09IsOutput(p) && p.Phase == "staged"
}

// c09SkipRetry: subprocess killed with the output complete while inputs remain
// and the batch is large enough for the parent to split it (>= 4 files).
func c09SkipRetry(p storage.VerifPoint, trace []storage.VerifPoint, nfiles int) bool {
	if !verifkit.Excluded(kfC09Retry) || nfiles < 4 {
		return false
	}
	return c09OutputCompleteInputsRemain(p, trace, nfiles)
}

func c09OutputCompleteInputsRemain(p storage.VerifPoint, trace []storage.VerifPoint, nfiles int) bool {
	staged, deleted := false, 0
	for _, q := range trace {
		if q.N >= p.N {
			break
		}
		if c09IsOutput(q) && q.Phase == "staged" {
			staged = true
		}
		if q.Op == "Delete" && !storage.VerifIsManifestPath(q.Path) {
			deleted++
		}
	}
	return staged && !(c09IsOutput(p)) && deleted < nfiles && !(p.Op == "Delete" && storage.VerifIsManifestPath(p.Path)) && p.Op != "RemoveDirectory"
}

func c09SymMatch(sym string, p storage.VerifPoint, trace []storage.VerifPoint) bool {
	switch sym {
	case "output-staged":
		return c09IsOutput(p) && p.Phase == "staged"
	case "first-input-delete":
		if p.Op != "Delete" || storage.VerifIsManifestPath(p.Path) {
			return false
		}
		for _, q := range trace {
			if q.N < p.N && q.Op == "Delete" && !storage.VerifIsManifestPath(q.Path) {
				return false
			}
		}
		return true
	}
	return false
}

// ---- in-process cycle replica on a crash backend

type c09StepResult struct {
	Crashed *storage.VerifPoint
	Points  int
	Trace   []storage.VerifPoint
	Skipped int
	Jobs    int
}

func (w *c09World) inproc(s c09Step) (res c09StepResult, err error) {
	w.liveMgr, w.liveFault = nil, nil // the node died / restarted
	lb, err := storage.NewLocalBackend(w.root, zerolog.Nop())
	if err != nil {
		return res, err
	}
	fb := storage.NewVerifFault(lb, storage.VerifPanic, s.CrashAt)
	if s.MidFrac > 0 {
		fb.MidFrac = s.MidFrac
	}
	if s.ErrAt > 0 {
		fb.ErrAt = map[int]error{s.ErrAt: fmt.Errorf("verif injected storage error")}
	}
	fb.Skip = func(p storage.VerifPoint, _ []storage.VerifPoint) bool { return c09SkipPart(p) }
	if s.Sym != "" {
		fb.CrashWhen = func(p storage.VerifPoint, tr []storage.VerifPoint) bool { return c09SymMatch(s.Sym, p, tr) }
	}
	w.tick(s)
	db, err := c09SharedJobDB()
	if err != nil {
		return res, err
	}
	defer func() {
		res.Points, res.Trace, res.Skipped = fb.Points(), fb.Trace(), len(fb.Skipped)
		if r := recover(); r != nil {
			vc, ok := r.(*storage.VerifCrash)
			if !ok {
				panic(r)
			}
			res.Crashed = &vc.Point
		}
	}()
	ctx := context.Background()
	mgr := w.manager(fb)
	if _, rerr := mgr.ManifestManager.RecoverOrphanedManifests(ctx, nil, nil); rerr != nil {
		w.logf("inproc recovery error: %v", rerr)
	}
	for _, tier := range mgr.Tiers {
		cands, ferr := tier.FindCandidates(ctx, c09DB, c09Meas)
		if ferr != nil {
			w.logf("inproc FindCandidates: %v", ferr)
			continue
		}
		sort.Slice(cands, func(i, j int) bool { return cands[i].PartitionPath < cands[j].PartitionPath })
		for _, cand := range cands {
			fc, ok := mgr.filterCandidateFiles(ctx, cand)
			if !ok {
				continue
			}
			for _, b := range SplitCandidateIntoBatches(fc, mgr.MaxFilesPerBatch) {
				res.Jobs++
				jobID := fmt.Sprintf("%s_%s_%d_b%d", sanitizeDBForName(b.Database), strings.ReplaceAll(b.PartitionPath, "/", "_"),
					time.Now().UnixNano(), b.BatchNumber)
				job := NewJob(&JobConfig{Database: b.Database, Measurement: b.Measurement, PartitionPath: b.PartitionPath,
					Files: b.Files, StorageBackend: fb, Tier: b.Tier, BatchNumber: b.BatchNumber, TempDirectory: w.temp,
					SortKeys: mgr.GetSortKeys(b.Measurement), Logger: c09Logger(), DB: db,
					ManifestManager: NewManifestManager(fb, c09Logger()), JobID: jobID, PartitionTime: b.PartitionTime})
				if jerr := job.Run(ctx); jerr != nil {
					w.logf("inproc job %s failed: %v", b.PartitionPath, jerr)
				}
			}
		}
	}
	return res, nil
}

var c09JobDB *sql.DB

// c09SharedJobDB is the DuckDB handle handed to in-process jobs (Job takes a
// shared *sql.DB by design). A crash never fires inside a DuckDB call - only in
// storage calls - so the handle stays usable across simulated crashes.
func c09SharedJobDB() (*sql.DB, error) {
	if c09JobDB == nil {
		db, err := sql.Open("duckdb", "")
		if err != nil {
			return nil, err
		}
		_, _ = db.Exec("SET threads=2")
		c09JobDB = db
	}
	return c09JobDB, nil
}

// ---- real Manager cycle with re-exec'd subprocesses

type c09PlanFile struct {
	Plans     []c09Plan `json:"plans"`
	ExclRetry bool      `json:"excl_retry"`
	ExclPart  bool      `json:"excl_part"`
}

type c09ChildReport struct {
	Files   int                  `json:"files"`
	Plan    *c09Plan             `json:"plan"`
	Crashed *storage.VerifPoint  `json:"crashed"`
	Points  int                  `json:"points"`
	Skipped []storage.VerifPoint `json:"skipped"`
	Trace   []storage.VerifPoint `json:"trace"`
}

func (w *c09World) cycle(s c09Step) (reports []c09ChildReport, err error) {
	lb, err := storage.NewLocalBackend(w.root, zerolog.Nop())
	if err != nil {
		return nil, err
	}
	planPath := filepath.Join(w.side, "plan.json")
	repPath := filepath.Join(w.side, "reports.jsonl")
	_ = os.Remove(repPath)
	pf := c09PlanFile{Plans: s.Plan}
	b, _ := json.Marshal(pf)
	if err := os.WriteFile(planPath, b, 0o600); err != nil {
		return nil, err
	}
	os.Setenv("VERIF_MODE", "c09child")
	os.Setenv("VERIF_C09_PLAN", planPath)
	os.Setenv("VERIF_C09_REPORT", repPath)
	defer func() {
		os.Unsetenv("VERIF_MODE")
		os.Unsetenv("VERIF_C09_PLAN")
		os.Unsetenv("VERIF_C09_REPORT")
	}()
	w.tick(s)
	if !s.Reuse || w.liveMgr == nil {
		w.liveFault = storage.NewVerifFault(lb, storage.VerifPanic, 0)
		w.liveMgr = w.manager(w.liveFault)
	}
	w.liveFault.FailOp = nil
	if s.ParentFailDeletes {
		w.liveFault.FailOp = func(p storage.VerifPoint) error {
			if p.Op == "Delete" && strings.HasSuffix(p.Path, ".parquet") {
				return fmt.Errorf("verif injected: delete refused")
			}
			return nil
		}
	}
	mgr := w.liveMgr
	if _, cerr := mgr.RunCompactionCycle(context.Background()); cerr != nil {
		w.logf("cycle error: %v", cerr)
	}
	if data, rerr := os.ReadFile(repPath); rerr == nil {
		for _, line := range strings.Split(strings.TrimSpace(string(data)), "\n") {
			if line == "" {
				continue
			}
			var r c09ChildReport
			if json.Unmarshal([]byte(line), &r) == nil {
				reports = append(reports, r)
			}
		}
	}
	return reports, nil
}

func init() { verifkit.RegisterMode("c09child", c09ChildMain) }

func c09ChildFail(format string, args ...any) {
	fmt.Fprintf(os.Stderr, "c09child: "+format+"\n", args...)
	os.Exit(1)
}

// c09ChildMain is the body of the re-executed compaction subprocess. It mirrors
// cmd/arc runCompactSubcommand: config JSON on stdin, result JSON on stdout.
func c09ChildMain() {
	data, err := io.ReadAll(os.Stdin)
	if err != nil {
		c09ChildFail("stdin: %v", err)
	}
	var cfg SubprocessJobConfig
	if err := json.Unmarshal(data, &cfg); err != nil {
		c09ChildFail("config: %v", err)
	}
	var plan *c09Plan
	planPath := os.Getenv("VERIF_C09_PLAN")
	if b, err := os.ReadFile(planPath); err == nil {
		var pf c09PlanFile
		if json.Unmarshal(b, &pf) == nil && len(pf.Plans) > 0 {
			p := pf.Plans[0]
			plan = &p
			pf.Plans = pf.Plans[1:]
			nb, _ := json.Marshal(pf)
			_ = os.WriteFile(planPath, nb, 0o600)
		}
	}
	report := func(r c09ChildReport) {
		r.Files, r.Plan = len(cfg.Files), plan
		b, _ := json.Marshal(r)
		if f, err := os.OpenFile(os.Getenv("VERIF_C09_REPORT"), os.O_APPEND|os.O_CREATE|os.O_WRONLY, 0o600); err == nil {
			_, _ = f.Write(append(b, '\n'))
			_ = f.Sync()
			_ = f.Close()
		}
	}
	var result *SubprocessJobResult
	if plan == nil || plan.Clean || (plan.CrashAt == 0 && plan.ErrAt == 0 && plan.Sym == "" && !plan.FailInputDeletes) {
		result, err = RunSubprocessJob(&cfg)
		report(c09ChildReport{})
	} else {
		result, err = c09RunFaultyJob(&cfg, plan, report)
	}
	if err != nil {
		c09ChildFail("%v", err)
	}
	if err := json.NewEncoder(os.Stdout).Encode(result); err != nil {
		c09ChildFail("encode: %v", err)
	}
}

// c09RunFaultyJob is RunSubprocessJob with the storage backend wrapped by the
// kill backend (RunSubprocessJob builds its backend from the config and offers
// no seam). Everything after backend creation is the same sequence of calls.
func c09RunFaultyJob(cfg *SubprocessJobConfig, plan *c09Plan, report func(c09ChildReport)) (*SubprocessJobResult, error) {
	logger := zerolog.New(os.Stderr).With().Timestamp().Str("component", "compaction-subprocess").Logger()
	backend, err := createStorageBackendFromConfig(cfg, logger)
	if err != nil {
		return nil, err
	}
	lb, ok := backend.(*storage.LocalBackend)
	if !ok {
		return nil, fmt.Errorf("c09: expected local backend")
	}
	fb := storage.NewVerifFault(lb, storage.VerifKill, plan.CrashAt)
	if plan.MidFrac > 0 {
		fb.MidFrac = plan.MidFrac
	}
	if plan.ErrAt > 0 {
		fb.ErrAt = map[int]error{plan.ErrAt: fmt.Errorf("verif injected storage error")}
	}
	if plan.FailInputDeletes {
		fb.FailOp = func(p storage.VerifPoint) error {
			if p.Op == "Delete" && !storage.VerifIsManifestPath(p.Path) {
				return fmt.Errorf("verif injected: delete refused")
			}
			return nil
		}
	}
	nfiles := len(cfg.Files)
	fb.Skip = func(p storage.VerifPoint, tr []storage.VerifPoint) bool {
		return c09SkipPart(p) || c09SkipRetry(p, tr, nfiles)
	}
	if plan.Sym != "" {
		fb.CrashWhen = func(p storage.VerifPoint, tr []storage.VerifPoint) bool { return c09SymMatch(plan.Sym, p, tr) }
	}
	fb.OnCrash = func(p storage.VerifPoint, tr []storage.VerifPoint) {
		report(c09ChildReport{Crashed: &p, Points: p.N, Trace: tr})
	}
	db, err := sql.Open("duckdb", "")
	if err != nil {
		return nil, err
	}
	defer db.Close()
	if cfg.Threads > 0 {
		_, _ = db.Exec(fmt.Sprintf("SET threads=%d", cfg.Threads))
	}
	job := NewJob(&JobConfig{Database: cfg.Database, Measurement: cfg.Measurement, PartitionPath: cfg.PartitionPath,
		Files: cfg.Files, StorageBackend: fb, Tier: cfg.Tier, BatchNumber: cfg.BatchNumber, TempDirectory: cfg.TempDirectory,
		SortKeys: cfg.SortKeys, Logger: logger, DB: db, ManifestManager: NewManifestManager(fb, logger), JobID: cfg.JobID,
		CompletionDir: cfg.CompletionDir, PartitionTime: cfg.PartitionTime, ParentFinalizesManifest: cfg.ParentFinalizesManifest})
	err = job.Run(context.Background())
	result := &SubprocessJobResult{Success: err == nil, FilesCompacted: job.FilesCompacted, BytesBefore: job.BytesBefore,
		BytesAfter: job.BytesAfter, OutputFile: job.OutputStorageKey, CompactedInputs: job.CompactedInputKeys(),
		ManifestPath: job.RetainedManifestPath()}
	if err != nil {
		result.Error = err.Error()
	}
	report(c09ChildReport{Points: fb.Points(), Skipped: fb.Skipped, Trace: fb.Trace()})
	return result, nil
}

// ---------------------------------------------------------------- oracle

type c09Oracle struct {
	dedup   bool
	s0      duck.Multiset  // full rows (NULL == absent)
	g0      map[string]int // (tag values, time) classes of S0
	corrupt map[string][]byte
}

func c09GKey(r map[string]string) string {
	m := map[string]string{"time": r["time"]}
	for _, tc := range c09TagCols {
		if v, ok := r[tc]; ok {
			m[tc] = v
		}
	}
	return duck.RowKey(m, true)
}

func (w *c09World) scan() (duck.Multiset, map[string]int, error) {
	t, err := duck.ReadParquet(w.duck, w.parquetFiles())
	if err != nil {
		return nil, nil, err
	}
	rows := t.RowMaps()
	g := map[string]int{}
	for _, r := range rows {
		g[c09GKey(r)]++
	}
	return duck.MultisetOf(rows, true), g, nil
}

func newC09Oracle(w *c09World) (*c09Oracle, error) {
	o := &c09Oracle{dedup: w.c.Mode != "plain", corrupt: map[string][]byte{}}
	var err error
	if o.s0, o.g0, err = w.scan(); err != nil {
		return nil, fmt.Errorf("S0 scan: %w", err)
	}
	for _, f := range w.c.Files {
		if f.Corrupt != "" {
			o.corrupt[filepath.Join(w.root, w.partDir(f), f.Name)] = f.data
		}
	}
	for _, p := range w.parquetFiles() {
		if strings.HasSuffix(p, "_compacted.parquet") || strings.HasSuffix(p, "_daily.parquet") {
			w.outputsSeen[filepath.Base(p)] = true
		}
	}
	return o, nil
}

// intermediate: every row of S0 is still in some *.parquet.
func (w *c09World) checkIntermediate(at string) string {
	cur, g, err := w.scan()
	if err != nil {
		return fmt.Sprintf("class=C09/partition-unreadable at=%s err=%v", at, err)
	}
	for _, p := range w.parquetFiles() {
		if strings.HasSuffix(p, "_compacted.parquet") || strings.HasSuffix(p, "_daily.parquet") {
			w.outputsSeen[filepath.Base(p)] = true
		}
	}
	if w.o.dedup {
		for _, k := range verifkit.SortedKeys(w.o.g0) {
			if g[k] == 0 {
				return fmt.Sprintf("class=C09/row-lost at=%s key=%s (no row with this (tags,time) left in any *.parquet)", at, k)
			}
		}
	} else {
		for _, k := range verifkit.SortedKeys(w.o.s0) {
			if cur[k] < w.o.s0[k] {
				return fmt.Sprintf("class=C09/row-lost at=%s row=%s before=x%d now=x%d", at, k, w.o.s0[k], cur[k])
			}
		}
	}
	for p, data := range w.o.corrupt {
		b, err := os.ReadFile(p)
		if err != nil || string(b) != string(data) {
			return fmt.Sprintf("class=C09/uncompacted-input-removed at=%s file=%s err=%v", at, p, err)
		}
	}
	return ""
}

func (w *c09World) checkFinal() string {
	if msg := w.checkIntermediate("final"); msg != "" {
		return msg
	}
	cur, g, err := w.scan()
	if err != nil {
		return fmt.Sprintf("class=C09/partition-unreadable at=final err=%v", err)
	}
	if ms := w.manifests(); len(ms) > 0 {
		return fmt.Sprintf("class=C09/manifest-left manifests=%v", ms)
	}
	if !w.o.dedup {
		if d := w.o.s0.Diff(cur, 6); len(d) > 0 {
			return fmt.Sprintf("class=C09/rows-differ (no dedup metadata: S1 must equal S0) %s", strings.Join(d, " | "))
		}
		return ""
	}
	for _, k := range verifkit.SortedKeys(cur) {
		if cur[k] > w.o.s0[k] {
			return fmt.Sprintf("class=C09/row-duplicated-or-invented row=%s before=x%d after=x%d", k, w.o.s0[k], cur[k])
		}
	}
	// exactly one row per key is claimed only where one job saw every file:
	// a single output was ever produced and it is the only file left
	files := w.parquetFiles()
	if w.c.PreCompact == 0 && len(w.outputsSeen) == 1 && len(files) == 1 && w.c.Tier != "both" {
		verifkit.Class("oracle-strict-one-per-key")
		for _, k := range verifkit.SortedKeys(g) {
			if g[k] != 1 {
				return fmt.Sprintf("class=C09/dedup-not-one-per-key key=%s rows=%d", k, g[k])
			}
		}
	}
	return ""
}

// ---------------------------------------------------------------- runner

func (w *c09World) noteTrace(kind string, crashed *storage.VerifPoint, trace []storage.VerifPoint) {
	if crashed == nil {
		return
	}
	verifkit.Class("crash-" + kind + "-" + c09PointClass(*crashed, trace))
	for _, q := range trace {
		if q.N <= crashed.N && q.Op == "Write" && storage.VerifIsManifestPath(q.Path) && q.N < crashed.N {
			w.nonTrivial = true
		}
	}
}

func c09PointClass(p storage.VerifPoint, trace []storage.VerifPoint) string {
	switch {
	case p.Op == "Write" && storage.VerifIsManifestPath(p.Path):
		return "manifest-write"
	case c09IsOutput(p):
		return "upload-" + p.Phase
	case p.Op == "Delete" && storage.VerifIsManifestPath(p.Path):
		return "manifest-delete"
	case p.Op == "Delete":
		return "input-delete"
	case p.Op == "RemoveDirectory":
		return "rmdir"
	}
	return "other"
}

// runCase executes the script and the final clean cycles; returns "" or the
// VERIF-FAIL text.
func (w *c09World) runCase() string {
	for i, s := range w.c.Script {
		at := fmt.Sprintf("step%d/%s", i, s.Kind)
		switch s.Kind {
		case "inproc":
			res, err := w.inproc(s)
			if err != nil {
				return "class=C09/harness-error " + err.Error()
			}
			w.logf("%s crashAt=%d sym=%s errAt=%d late=%v -> crashed=%v points=%d jobs=%d", at, s.CrashAt, s.Sym, s.ErrAt, s.Late, res.Crashed, res.Points, res.Jobs)
			w.noteTrace("inproc", res.Crashed, res.Trace)
			if res.Skipped > 0 {
				w.excluded[kfC09Part] += res.Skipped
			}
			w.stepCrashed = append(w.stepCrashed, res.Crashed != nil)
			w.stepSkipped = append(w.stepSkipped, res.Skipped)
		case "cycle":
			reps, err := w.cycle(s)
			if err != nil {
				return "class=C09/harness-error " + err.Error()
			}
			crashed, skipped := false, 0
			for _, r := range reps {
				w.logf("%s child files=%d plan=%+v crashed=%v points=%d", at, r.Files, r.Plan, r.Crashed, r.Points)
				w.noteTrace("kill", r.Crashed, r.Trace)
				crashed = crashed || r.Crashed != nil
				skipped += len(r.Skipped)
				for _, sk := range r.Skipped {
					if c09IsOutput(sk) && sk.Phase == "staged" {
						w.excluded[kfC09Part]++
					} else {
						w.excluded[kfC09Retry]++
					}
				}
			}
			w.stepCrashed = append(w.stepCrashed, crashed)
			w.stepSkipped = append(w.stepSkipped, skipped)
			verifkit.ClassN("subprocesses", len(reps))
		}
		if msg := w.checkIntermediate(at); msg != "" {
			return msg
		}
	}
	if w.c.CheapFinal {
		res, err := w.inproc(c09Step{Kind: "inproc", Late: true})
		if err != nil {
			return "class=C09/harness-error " + err.Error()
		}
		w.logf("final in-process cycle: jobs=%d points=%d", res.Jobs, res.Points)
		if msg := w.checkIntermediate("final-inproc"); msg != "" {
			return msg
		}
	}
	for i := 0; i < 2; i++ {
		reps, err := w.cycle(c09Step{Kind: "cycle", Late: true})
		if err != nil {
			return "class=C09/harness-error " + err.Error()
		}
		w.logf("final cycle %d: %d subprocesses", i, len(reps))
		verifkit.ClassN("subprocesses", len(reps))
		if msg := w.checkIntermediate(fmt.Sprintf("final-cycle-%d", i)); msg != "" {
			return msg
		}
	}
	return w.checkFinal()
}

func (w *c09World) flushExcluded() {
	for k, n := range w.excluded {
		for i := 0; i < n; i++ {
			verifkit.CountExcluded(k)
		}
	}
}

func c09Run(t tbLike, c *c09Case, db *sql.DB, ntKey string) {
	w, err := newC09World(c, db)
	if err != nil {
		t.Fatalf("C09 harness: building the partition failed: %v", err)
	}
	defer w.close()
	verifkit.Eval()
	verifkit.Class("tier-" + c.Tier)
	verifkit.Class("mode-" + c.Mode)
	if c.PreCompact > 0 {
		verifkit.Class("with-earlier-compacted-output")
	}
	msg := w.runCase()
	w.flushExcluded()
	if w.nonTrivial {
		verifkit.NonTrivial(ntKey)
		if verifkit.SampleCount() < 4 {
			verifkit.Sample(map[string]any{"case": c.summary(), "history": w.history})
		}
	}
	if msg != "" {
		verifkit.WriteReplay("c09-history", map[string]any{"case": c.replay(), "history": w.history, "failure": msg})
		t.Fatalf("VERIF-FAIL %s\ncase=%s\nhistory:\n  %s", msg, c09JSON(c.summary()), strings.Join(w.history, "\n  "))
	}
}

func c09JSON(v any) string { b, _ := json.Marshal(v); return string(b) }

func c09Seed() int {
	s, _ := strconv.Atoi(os.Getenv("VERIF_SEED"))
	if s == 0 {
		s = 1
	}
	sh, _ := strconv.Atoi(os.Getenv("VERIF_SHARD"))
	return s*1000 + sh
}

func c09Duck(t *testing.T) *sql.DB {
	db, err := duck.Open()
	if err != nil {
		t.Fatalf("duckdb: %v", err)
	}
	_, _ = db.Exec("SET threads=2")
	t.Cleanup(func() { db.Close(); VerifSetClock(time.Time{}) })
	return db
}

// c09FixedCase derives a deterministic partition from the seed.
func c09FixedCase(seed int, nfiles int, mode, tier string) *c09Case {
	g := rapid.Custom(func(t *rapid.T) *c09Case {
		return &c09Case{Tier: tier, Mode: mode, MaxBatch: 30, Files: genC09Files(t, mode, tier, nfiles)}
	})
	return g.Example(seed)
}

func c09Clone(c *c09Case) *c09Case {
	d := *c
	d.Script = nil
	return &d
}

// TestVerifC09_EnumInproc: every crash point of a node-crash during one cycle
// (recovery + job), for small partitions, each followed by the clean cycles.
func TestVerifC09_EnumInproc(t *testing.T) {
	db := c09Duck(t)
	seed := c09Seed()
	type cfg struct {
		n          int
		mode, tier string
		variants   []string
	}
	one := []string{"inproc"}
	two := []string{"inproc", "recover-then-inproc"} // second variant: the crash state is first met by another crashing cycle
	cfgs := []cfg{{2, "plain", "hourly", one}, {3, "tags", "hourly", one}, {4, "plain", "daily", one}}
	_ = two
	if verifkit.Tier() == "thorough" {
		cfgs = []cfg{{2, "plain", "hourly", two}, {4, "plain", "hourly", one}, {3, "tags", "hourly", one}, {6, "tags", "both", one}}
	}
	complete := true
	for ci, cf := range cfgs {
		base := c09FixedCase(seed*31+ci, cf.n, cf.mode, cf.tier)
		for _, first := range cf.variants {
			for k := 1; ; k++ {
				c := c09Clone(base)
				c.Script = []c09Step{{Kind: "inproc", CrashAt: k, MidFrac: 0.5}}
				c.CheapFinal = k%5 != 0 || (verifkit.Tier() == "thorough" && k%10 != 0)
				if first == "recover-then-inproc" {
					// the crash state is first met by another crashing cycle
					c.Script = append(c.Script, c09Step{Kind: "inproc", CrashAt: 1 + k%3, MidFrac: 0.5, Late: true})
				}
				w, err := newC09World(c, db)
				if err != nil {
					t.Fatalf("C09 harness: %v", err)
				}
				verifkit.Eval()
				verifkit.Class("enum-inproc")
				msg := w.runCase()
				w.flushExcluded()
				crashedFirst := len(w.stepCrashed) > 0 && (w.stepCrashed[0] || w.stepSkipped[0] > 0)
				if w.nonTrivial {
					verifkit.NonTrivial(fmt.Sprintf("enum-inproc/%d/%s/%d", ci, first, k))
					if verifkit.SampleCount() < 2 {
						verifkit.Sample(map[string]any{"case": c.summary(), "history": w.history})
					}
				}
				w.close()
				if msg != "" {
					verifkit.WriteReplay("c09-history", map[string]any{"case": c.replay(), "history": w.history, "failure": msg})
					t.Fatalf("VERIF-FAIL %s\ncase=%s\nhistory:\n  %s", msg, c09JSON(c.summary()), strings.Join(w.history, "\n  "))
				}
				if !crashedFirst {
					break // k is past the last crash point: the space is exhausted
				}
				if k > 200 {
					complete = false
					break
				}
			}
		}
	}
	verifkit.Note("enum_inproc_complete", complete)
}

// TestVerifC09_EnumKill: the subprocess of a real Manager cycle is SIGKILLed at
// every crash point; the parent's adaptive split-and-retry then runs for real.
func TestVerifC09_EnumKill(t *testing.T) {
	db := c09Duck(t)
	seed := c09Seed()
	type cfg struct {
		n    int
		mode string
	}
	cfgs := []cfg{{3, "tags"}, {4, "plain"}}
	if verifkit.Tier() == "thorough" {
		cfgs = []cfg{{4, "tags"}}
	}
	truncated := false
	for ci, cf := range cfgs {
		base := c09FixedCase(seed*17+ci, cf.n, cf.mode, "hourly")
		for k := 1; ; k++ {
			c := c09Clone(base)
			c.Script = []c09Step{{Kind: "cycle", Plan: []c09Plan{{CrashAt: k, MidFrac: 0.5}}}}
			c.CheapFinal = k%4 != 0
			w, err := newC09World(c, db)
			if err != nil {
				t.Fatalf("C09 harness: %v", err)
			}
			verifkit.Eval()
			verifkit.Class("enum-kill")
			msg := w.runCase()
			w.flushExcluded()
			killed := len(w.stepCrashed) > 0 && (w.stepCrashed[0] || w.stepSkipped[0] > 0)
			if w.nonTrivial {
				verifkit.NonTrivial(fmt.Sprintf("enum-kill/%d/%d", ci, k))
				if verifkit.SampleCount() < 4 {
					verifkit.Sample(map[string]any{"case": c.summary(), "history": w.history})
				}
			}
			w.close()
			if msg != "" {
				verifkit.WriteReplay("c09-history", map[string]any{"case": c.replay(), "history": w.history, "failure": msg})
				t.Fatalf("VERIF-FAIL %s\ncase=%s\nhistory:\n  %s", msg, c09JSON(c.summary()), strings.Join(w.history, "\n  "))
			}
			if !killed {
				break // no child reached point k (and no exclusion suppressed it): space exhausted
			}
			if verifkit.Tier() == "quick" && w.excluded[kfC09Retry] > 0 {
				// every later point up to the last input delete is in the excluded
				// shape too; the quick tier does not spend a subprocess on each
				truncated = true
				break
			}
			if k > 200 {
				break
			}
		}
	}
	verifkit.Note("enum_kill_truncated_by_exclusion", truncated)
}

// TestVerifC09_Scenarios: small directed histories on ONE long-lived Manager,
// where state the Manager keeps between tiers / cycles (its ManifestManager's
// cache of manifest-tracked files) matters.
func TestVerifC09_Scenarios(t *testing.T) {
	db := c09Duck(t)
	seed := c09Seed()
	type sc struct {
		name   string
		tier   string
		n      int
		script []c09Step
	}
	scs := []sc{
		// hourly job of a 2-file hour (too small to split) is killed after its
		// upload; the daily tier of the SAME cycle then looks at the same files:
		// the manifest the dead job left must keep inputs and output out of it
		{"kill-after-upload-then-daily-tier", "both", 2, []c09Step{{Kind: "cycle", Plan: []c09Plan{{Sym: "first-input-delete"}}}}},
		// a storage fault refuses data-file deletes: the job keeps its manifest,
		// the next cycle's recovery cannot settle it either; inputs and output
		// stay manifest-tracked and must not be compacted together
		{"persistent-delete-fault", "hourly", 3, []c09Step{
			{Kind: "cycle", Plan: []c09Plan{{FailInputDeletes: true}}},
			{Kind: "cycle", Reuse: true, Late: true, ParentFailDeletes: true, Plan: []c09Plan{{FailInputDeletes: true}}},
			{Kind: "cycle", Reuse: true, Late: true}}},
		// the node stays down (or recovery keeps failing) for more than
		// ManifestMaxAge: the first cycle that runs again is 8 days after the
		// killed job wrote its manifest and must still settle it
		{"kill-then-recovery-after-8-days", "hourly", 2, []c09Step{
			{Kind: "cycle", Plan: []c09Plan{{Sym: "first-input-delete"}}},
			{Kind: "cycle", GapS: 8 * 86400}}},
		// same, the second cycle follows a kill instead of a delete fault
		{"kill-then-reused-manager", "hourly", 2, []c09Step{
			{Kind: "cycle", Plan: []c09Plan{{Sym: "first-input-delete"}}},
			{Kind: "cycle", Reuse: true, Late: true, ParentFailDeletes: true},
			{Kind: "cycle", Reuse: true, Late: true}}},
	}
	for si, x := range scs {
		for _, mode := range []string{"plain", "tags"} {
			if mode == "tags" && si != 0 {
				continue
			}
			c := c09FixedCase(seed*13+si, x.n, mode, x.tier)
			if x.tier == "both" {
				for i, f := range c.Files { // one hour only: the plan's first child is this hour's job
					f.Hour = 14
					f.Name = fmt.Sprintf("%s_20240305_14%02d%02d_%09d.parquet", c09Meas, i/60, i%60, 100000+i)
					f.data = nil
				}
			}
			c.Script = x.script
			c.CheapFinal = true
			verifkit.Class("scenario-" + x.name)
			c09Run(t, c, db, fmt.Sprintf("scenario/%s/%s", x.name, mode))
		}
	}
}

// TestVerifC09_Random: random partitions x random scripts.
func TestVerifC09_Random(t *testing.T) {
	db := c09Duck(t)
	maxFiles := verifkit.Scale(10, 18)
	rapid.Check(t, func(rt *rapid.T) {
		c := genC09Case(rt, maxFiles)
		genC09Script(rt, c)
		c.CheapFinal = rapid.Bool().Draw(rt, "cheapfinal")
		c09Run(rt, c, db, c09JSON(c.summary()))
	})
}

// ---------------------------------------------------------------- known findings

func c09PlainFiles(n int) []*c09File {
	var fs []*c09File
	base := c09Day.Add(14 * time.Hour).UnixMicro()
	for i := 0; i < n; i++ {
		fs = append(fs, &c09File{Hour: 14, Name: fmt.Sprintf("%s_20240305_1400%02d_%09d.parquet", c09Meas, i, 100000+i),
			Cols: []string{"host", "v"}, Rows: []map[string]any{{"time": base + int64(i)*1_000_000, "host": "a", "v": float64(i)}}})
	}
	return fs
}

func c09Doubled(w *c09World) (bool, string) {
	cur, _, err := w.scan()
	if err != nil {
		return false, err.Error()
	}
	dup := 0
	for k, n := range w.o.s0 {
		if cur[k] > n {
			dup++
		}
	}
	return dup > 0, fmt.Sprintf("%d of %d distinct rows are visible more often than before; files=%v", dup, len(w.o.s0), c09Base(w.parquetFiles()))
}

func c09Base(ps []string) []string {
	out := make([]string, len(ps))
	for i, p := range ps {
		out[i] = filepath.Base(p)
	}
	return out
}

// TestVerifKF_C09_part_input: node crash with the output fully staged in
// X.parquet.part (before the rename); the next cycle lists the .part file as a
// partition member, it passes the PAR1 check and is compacted together with
// the inputs it was made from: every row twice.
func TestVerifKF_C09_part_input(t *testing.T) {
	db := c09Duck(t)
	c := &c09Case{Tier: "hourly", Mode: "plain", MaxBatch: 30, Files: c09PlainFiles(2),
		Script: []c09Step{{Kind: "inproc", Sym: "output-staged"}}}
	w, err := newC09World(c, db)
	if err != nil {
		t.Fatalf("C09 harness: %v", err)
	}
	defer w.close()
	msg := w.runCase()
	dup, what := c09Doubled(w)
	t.Logf("final check: %q; %s; history:\n  %s", msg, what, strings.Join(w.history, "\n  "))
	verifkit.KnownFinding(kfC09Part, dup && strings.Contains(msg, "rows-differ"), what)
}

// TestVerifKF_C09_adaptive_retry_dup: 4 files, the subprocess is killed after
// the upload completed and before the first input delete; the parent classifies
// "killed" as recoverable and compacts both halves of the same inputs again.
func TestVerifKF_C09_adaptive_retry_dup(t *testing.T) {
	db := c09Duck(t)
	c := &c09Case{Tier: "hourly", Mode: "plain", MaxBatch: 30, Files: c09PlainFiles(4),
		Script: []c09Step{{Kind: "cycle", Plan: []c09Plan{{Sym: "first-input-delete"}}}}}
	w, err := newC09World(c, db)
	if err != nil {
		t.Fatalf("C09 harness: %v", err)
	}
	defer w.close()
	msg := w.runCase()
	dup, what := c09Doubled(w)
	t.Logf("final check: %q; %s; history:\n  %s", msg, what, strings.Join(w.history, "\n  "))
	verifkit.KnownFinding(kfC09Retry, dup && strings.Contains(msg, "rows-differ"), what)
}

// TestVerifKF_C09_recompact_coarse_key: no crash at all. Two files tagged
// {host,region} are compacted (the DuckDB-written output carries no arc:tags);
// two later raw files of the same hour declare only {host}. The next cycle
// re-compacts output + raw files with PARTITION BY host,time: the rows
// (a,x,t0) and (a,y,t0), which differ in the tag "region", collapse into one.
func TestVerifKF_C09_recompact_coarse_key(t *testing.T) {
	db := c09Duck(t)
	base := c09Day.Add(14 * time.Hour).UnixMicro()
	mk := func(i int, cols []string, row map[string]any) *c09File {
		f := c09PlainFiles(i + 1)[i]
		f.Cols, f.Rows = cols, []map[string]any{row}
		for _, cn := range cols {
			if c09IsTag(cn) {
				f.Tags = append(f.Tags, cn)
			}
		}
		return f
	}
	files := []*c09File{
		mk(0, []string{"host", "region", "v"}, map[string]any{"time": base, "host": "a", "region": "x", "v": 1.0}),
		mk(1, []string{"host", "region", "v"}, map[string]any{"time": base, "host": "a", "region": "y", "v": 2.0}),
		mk(2, []string{"host", "v"}, map[string]any{"time": base + 1_000_000, "host": "b", "v": 3.0}),
		mk(3, []string{"host", "v"}, map[string]any{"time": base + 2_000_000, "host": "b", "v": 4.0}),
	}
	c := &c09Case{Tier: "hourly", Mode: "tags", MaxBatch: 30, Files: files, PreCompact: 2, CheapFinal: true}
	w, err := newC09World(c, db)
	if err != nil {
		t.Fatalf("C09 harness: %v", err)
	}
	defer w.close()
	msg := w.runCase()
	t.Logf("final check: %q; files=%v; history:\n  %s", msg, c09Base(w.parquetFiles()), strings.Join(w.history, "\n  "))
	verifkit.KnownFinding(kfC09Coarse, strings.Contains(msg, "class=C09/row-lost") && strings.Contains(msg, `"region"="s:`), msg)
}

// TestVerifKF_C09_manifest_cache_stale: three 2-file hours, hourly + daily tier
// in ONE cycle of one Manager; the FIRST hourly subprocess is killed after its
// upload (2 files cannot be split, so its manifest M1 survives the cycle). The
// third hour's candidate filter runs after that and builds the manifest-file
// snapshot {M1}; the daily tier's filter, inside the 30 s TTL, is served from
// it, and the cached set holds M1's inputs but not M1's OUTPUT (only the
// rebuild path adds manifest.OutputPath). The daily job therefore compacts the
// three hourly outputs into a daily file; the next cycle's recovery finds M1's
// output gone, drops the manifest and leaves the inputs, whose rows are now
// visible twice.
func TestVerifKF_C09_manifest_cache_stale(t *testing.T) {
	db := c09Duck(t)
	files := c09PlainFiles(6)
	for i, h := range []int{14, 14, 3, 3, 7, 7} {
		files[i].Hour = h
		files[i].Name = fmt.Sprintf("%s_20240305_%02d00%02d_%09d.parquet", c09Meas, h, i, 100000+i)
		files[i].Rows = []map[string]any{{"time": c09Day.Add(time.Duration(h)*time.Hour).UnixMicro() + int64(i)*1_000_000, "host": "a", "v": float64(i)}}
	}
	c := &c09Case{Tier: "both", Mode: "plain", MaxBatch: 30, Files: files, CheapFinal: true,
		Script: []c09Step{{Kind: "cycle", Plan: []c09Plan{{Sym: "first-input-delete"}}}}}
	w, err := newC09World(c, db)
	if err != nil {
		t.Fatalf("C09 harness: %v", err)
	}
	defer w.close()
	msg := w.runCase()
	dup, what := c09Doubled(w)
	t.Logf("final check: %q; %s; history:\n  %s", msg, what, strings.Join(w.history, "\n  "))
	verifkit.KnownFinding(kfC09Cache, dup && strings.Contains(msg, "rows-differ"), what)
}
