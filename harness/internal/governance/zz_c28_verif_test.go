//go:build verif

package governance

// C28 - Query rate limits and quotas are never exceeded.
//
// Statement: for every token, the number of queries admitted in ANY window of the
// configured rate-limit length never exceeds the limit; hourly and daily quotas are
// never exceeded within a clock hour / UTC day; a query rejected by the rate limit
// consumes no quota; limit changes apply to the next request.
//
// Technique: stateful property-based test under a controlled clock (source overlay
// clock seam over sliding_window.go / quota_tracker.go / manager.go), (a) directly
// on slidingWindowCounter with the Manager's window geometries and others, (b) on
// the real Manager, replaying the query handler's governance call sequence as it is
// extracted from internal/api/query.go at build time (verifC28HandlerSteps).
//
// Oracle: computed from the recorded admit times only (an exact sliding log), never
// from the implementation's own counters.

import (
	"context"
	"database/sql"
	"fmt"
	"strings"
	"sync"
	"testing"
	"time"

	"github.com/basekick-labs/arc/internal/config"
	"github.com/basekick-labs/arc/internal/metrics"
	"github.com/basekick-labs/arc/internal/verifkit"
	_ "github.com/mattn/go-sqlite3"
	"github.com/rs/zerolog"
	"pgregory.net/rapid"
)

const (
	// slotted ring forgets the oldest slot up to one slot width early.
	kfC28Slot = "C28-slot-early-forget"
	// a query arriving exactly on the hour/day boundary instant is billed to the previous period.
	kfC28QuotaEdge = "C28-quota-boundary-instant"
	// wall clock stepping back after slots were rotated out / counters were reset.
	kfC28StepBack = "C28-clock-step-back"
)

const (
	c28Hour = int64(time.Hour)
	c28Day  = 24 * int64(time.Hour)
	// 2026-01-01T00:00:00Z
	c28Epoch = int64(1767225600) * int64(time.Second)
)

func c28SetClock(ns int64) { VerifSetClock(time.Unix(0, ns)) }

// c28Trunc mirrors time.Time.Truncate as the code under test applies it to the
// fake clock (absolute time since the zero Time, not since the Unix epoch).
func c28Trunc(ns int64, d time.Duration) int64 {
	return time.Unix(0, ns).Truncate(d).UnixNano()
}

type c28Admit struct {
	T     int64 // clock time of the decision (ns)
	Limit int   // limit in force when it was admitted (0 = unlimited)
}

// c28WindowMax returns the largest number of admits (all of adm) that fit in one
// half-open window of length w that also contains adm[i].
func c28WindowMax(adm []c28Admit, i int, w int64) int {
	ti := adm[i].T
	best := 0
	for j := range adm {
		a := adm[j].T // candidate left edge: window [a, a+w)
		if a > ti || ti-a >= w {
			continue
		}
		n := 0
		for k := range adm {
			if adm[k].T >= a && adm[k].T-a < w {
				n++
			}
		}
		if n > best {
			best = n
		}
	}
	return best
}

// c28CheckWindow verifies the admits appended since index `from`: at the moment an
// admit is decided, no window of length w containing it may hold more admits (decided
// so far) than the limit then in force.
func c28CheckWindow(adm []c28Admit, from int, w int64) (bool, string) {
	for i := from; i < len(adm); i++ {
		if adm[i].Limit <= 0 {
			continue
		}
		if n := c28WindowMax(adm[:len(adm)], i, w); n > adm[i].Limit {
			return false, fmt.Sprintf("%d admits inside one %v window containing the admit at %s (limit in force %d)",
				n, time.Duration(w), c28Fmt(adm[i].T), adm[i].Limit)
		}
	}
	return true, ""
}

// c28CountIn counts admits with T in (t-w, t].
func c28CountIn(adm []c28Admit, t, w int64) int {
	n := 0
	for _, a := range adm {
		if a.T <= t && t-a.T < w {
			n++
		}
	}
	return n
}

func c28Fmt(ns int64) string {
	return time.Unix(0, ns).UTC().Format("2006-01-02T15:04:05.000000000Z")
}

// c28Forgotten reports whether an arrival at tNew meets an earlier admit that shares
// a window of length w with tNew but lies in a slot the ring has already rotated out.
// The ring holds `ring` slots of width d including the current one, and it only ever
// advances: its current slot is the one containing max(tNew, frontier), where
// frontier is the latest clock reading at which the limiter was used. So everything
// before Truncate(max(tNew,frontier), d) - (ring-1)*d is forgotten.
//   - tNew >= frontier: shape of the open finding C28-slot-early-forget (the oldest
//     slot is dropped up to one slot width before it leaves the true window);
//   - tNew <  frontier: shape of C28-clock-step-back (the clock stepped back after the
//     slot was rotated out).
func c28Forgotten(adm []c28Admit, tNew, frontier, w int64, d time.Duration, ring int) bool {
	at := tNew
	if frontier > at {
		at = frontier
	}
	ringStart := c28Trunc(at, d) - int64(ring-1)*int64(d)
	for _, a := range adm {
		dist := tNew - a.T
		if dist < 0 {
			dist = -dist
		}
		if a.T < ringStart && dist < w {
			return true
		}
	}
	return false
}

// ---------------------------------------------------------------- time moves

type c28Geom struct {
	w int64
	d time.Duration
}

// c28Move draws the next arrival time (>= now). geoms lists the window geometries in
// play; prior lists earlier admit times (targets for "exactly one window later").
func c28Move(t *rapid.T, now int64, geoms []c28Geom, prior []c28Admit, boundaries bool) (int64, string) {
	pm := int64(rapid.IntRange(-1, 1).Draw(t, "pm1"))
	g := geoms[rapid.IntRange(0, len(geoms)-1).Draw(t, "geom")]
	d := int64(g.d)
	maxKind := 9
	if boundaries {
		maxKind = 11
	}
	kind := rapid.IntRange(0, maxKind).Draw(t, "move")
	var nt int64
	var what string
	switch kind {
	case 0:
		nt, what = now, "dt=0"
	case 1:
		nt, what = now+1, "dt=1ns"
	case 2:
		nt, what = now+d+pm, fmt.Sprintf("dt=slot%+dns", pm)
	case 3:
		nt, what = now+g.w+pm, fmt.Sprintf("dt=window%+dns", pm)
	case 4:
		nt, what = now+g.w-d+pm, fmt.Sprintf("dt=window-slot%+dns", pm)
	case 5:
		nt, what = now+rapid.Int64Range(0, 2*d).Draw(t, "dtSmall"), "dt<=2slots"
	case 6:
		nt, what = now+rapid.Int64Range(0, 2*g.w).Draw(t, "dtBig"), "dt<=2windows"
	case 7:
		nt, what = c28Trunc(now, g.d)+d+pm, fmt.Sprintf("next-slot-boundary%+dns", pm)
	case 8:
		if len(prior) > 0 {
			p := prior[rapid.IntRange(0, len(prior)-1).Draw(t, "prior")]
			nt, what = p.T+g.w+pm, fmt.Sprintf("prior-admit+window%+dns", pm)
		} else {
			nt, what = now, "dt=0"
		}
	case 9:
		if len(prior) > 0 {
			p := prior[rapid.IntRange(0, len(prior)-1).Draw(t, "prior")]
			nt, what = c28Trunc(p.T, g.d)+g.w+pm, fmt.Sprintf("prior-admit-slot-start+window%+dns", pm)
		} else {
			nt, what = now+d, "dt=slot"
		}
	case 10:
		nt, what = (now/c28Hour+1)*c28Hour+pm, fmt.Sprintf("next-hour-boundary%+dns", pm)
	case 11:
		nt, what = (now/c28Day+1)*c28Day+pm, fmt.Sprintf("next-day-boundary%+dns", pm)
	}
	if nt < now {
		nt = now
	}
	return nt, what
}

func c28GenLimit(t *rapid.T, label string) int {
	if rapid.IntRange(0, 2).Draw(t, label+"Small") > 0 {
		return rapid.IntRange(1, 4).Draw(t, label)
	}
	return rapid.IntRange(1, 20).Draw(t, label)
}

func c28GenBase(t *rapid.T) int64 {
	base := c28Epoch + rapid.Int64Range(0, 3*c28Day).Draw(t, "baseOffset")
	switch rapid.IntRange(0, 5).Draw(t, "baseAlign") {
	case 0:
		base = base / c28Hour * c28Hour
	case 1:
		base = base/c28Hour*c28Hour - 1
	case 2:
		base = base/c28Day*c28Day + c28Day - int64(time.Second)
	case 3:
		base = base / int64(time.Second) * int64(time.Second)
	}
	return base
}

// ---------------------------------------------------------------- (a) the window counter directly

type c28WinCfg struct {
	W     time.Duration
	Slots int
}

var c28WinCfgs = []c28WinCfg{
	{time.Minute, 60}, // Manager: per-minute limiter
	{time.Hour, 60},   // Manager: per-hour limiter
	{time.Second, 10},
	{time.Second, 7}, // window not divisible by the slot count
	{10 * time.Second, 3},
	{time.Minute, 1},
	{time.Minute, 0}, // default slot count
}

func TestVerifC28_Window(t *testing.T) {
	defer VerifSetClock(time.Time{})
	rapid.Check(t, func(t *rapid.T) {
		cfg := c28WinCfgs[rapid.IntRange(0, len(c28WinCfgs)-1).Draw(t, "cfg")]
		limit := c28GenLimit(t, "limit")
		now := c28GenBase(t)
		c28SetClock(now)
		c := newSlidingWindowCounter(cfg.W, cfg.Slots, limit)
		w := int64(cfg.W)
		geoms := []c28Geom{{w, c.slotDuration}}
		exclSlot := verifkit.Excluded(kfC28Slot)
		exclBack := verifkit.Excluded(kfC28StepBack)
		frontier := now // latest clock reading at which the counter was used

		var adm []c28Admit
		var log []string
		monotone := true
		justUpdated := false
		rotatedApart := false
		fail := func(class, msg string) {
			t.Fatalf("VERIF-FAIL class=C28/%s counter(window=%v slots=%d slot=%v) %s\nhistory:\n  %s",
				class, cfg.W, c.slotCount, c.slotDuration, msg, strings.Join(log, "\n  "))
		}
		steps := rapid.IntRange(4, 40).Draw(t, "steps")
		for s := 0; s < steps; s++ {
			act := rapid.IntRange(0, 9).Draw(t, "act")
			switch {
			case act <= 5: // arrive(dt) / burst(n)
				nt, what := c28Move(t, now, geoms, adm, false)
				n := 1
				if act >= 4 {
					n = rapid.IntRange(2, 2*limit+2).Draw(t, "burst")
				}
				if c28Forgotten(adm, nt, frontier, w, c.slotDuration, len(c.slots)) {
					if nt >= frontier && exclSlot {
						verifkit.CountExcluded(kfC28Slot)
						continue
					}
					if nt < frontier && exclBack {
						verifkit.CountExcluded(kfC28StepBack)
						continue
					}
					rotatedApart = true
				}
				now = nt
				if now > frontier {
					frontier = now
				}
				c28SetClock(now)
				res := make([]bool, n)
				if n == 1 {
					res[0] = c.Allow()
				} else {
					var wg sync.WaitGroup
					for i := 0; i < n; i++ {
						wg.Add(1)
						go func(i int) { defer wg.Done(); res[i] = c.Allow() }(i)
					}
					wg.Wait()
				}
				from := len(adm)
				rejected := 0
				for _, ok := range res {
					if ok {
						adm = append(adm, c28Admit{now, limit})
					} else {
						rejected++
					}
				}
				log = append(log, fmt.Sprintf("%s (%s) x%d limit=%d -> admitted %d rejected %d", c28Fmt(now), what, n, limit, len(adm)-from, rejected))
				if ok, msg := c28CheckWindow(adm, from, w); !ok {
					fail("window-limit-exceeded", msg)
				}
				// limit changes apply to the next request: a rejection right after
				// UpdateLimit must be explained by the NEW limit.
				// "Explained" is judged over everything the ring can still hold (its
				// whole span, which may exceed the window by design: a limiter that is
				// stricter than the window is allowed by the statement).
				if justUpdated && monotone && rejected > 0 {
					span := int64(len(c.slots)) * int64(c.slotDuration)
					if span < w {
						span = w
					}
					if got := c28CountIn(adm, now, span); got < limit {
						fail("new-limit-not-applied", fmt.Sprintf("request rejected right after UpdateLimit(%d) although only %d admits lie in the window ending now", limit, got))
					}
				}
				justUpdated = false
			case act == 6 || act == 7: // updateLimit
				limit = c28GenLimit(t, "newLimit")
				c.UpdateLimit(limit)
				justUpdated = true
				log = append(log, fmt.Sprintf("UpdateLimit(%d)", limit))
			case act == 8: // clock jump forward
				now += rapid.Int64Range(0, 3*w).Draw(t, "jumpFwd")
				c28SetClock(now)
				log = append(log, "clock jumps forward to "+c28Fmt(now))
			case act == 9: // clock jump backward
				now -= rapid.Int64Range(1, 2*w).Draw(t, "jumpBack")
				c28SetClock(now)
				monotone = false
				log = append(log, "clock jumps BACK to "+c28Fmt(now))
			}
		}
		verifkit.Eval()
		verifkit.Class(fmt.Sprintf("window/%v/%d", cfg.W, cfg.Slots))
		if !monotone {
			verifkit.Class("window/with-backward-jump")
		}
		if rotatedApart {
			verifkit.Class("window/rotated-apart")
		}
		// non-trivial: two admits at distinct times lie within one window length of
		// each other (the window oracle had something to count).
		if c28Binding(adm, w) {
			verifkit.NonTrivial(strings.Join(log, "|"))
			if verifkit.SampleCount() < 2 {
				verifkit.Sample(map[string]any{"kind": "window-counter", "window": cfg.W.String(), "slots": c.slotCount, "history": log})
			}
		}
	})
}

// c28Binding: two admits within one window length of each other at distinct times.
func c28Binding(adm []c28Admit, w int64) bool {
	for i := range adm {
		for j := range adm {
			if adm[i].T < adm[j].T && adm[j].T-adm[i].T < w {
				return true
			}
		}
	}
	return false
}

// ---------------------------------------------------------------- (b) the Manager, handler order

var c28MetricsOnce sync.Once

func c28NewManager(tb interface{ Fatalf(string, ...any) }, cfg *config.GovernanceConfig) (*Manager, func()) {
	c28MetricsOnce.Do(func() { metrics.Init(zerolog.Nop()) })
	db, err := sql.Open("sqlite3", ":memory:")
	if err != nil {
		tb.Fatalf("harness: sqlite open: %v", err)
	}
	db.SetMaxOpenConns(1)
	m, err := NewManager(&ManagerConfig{DB: db, Config: cfg, Logger: zerolog.Nop()})
	if err != nil {
		db.Close()
		tb.Fatalf("harness: NewManager: %v", err)
	}
	m.Start()
	return m, func() { m.Stop(); db.Close() }
}

type c28Outcome int

const (
	c28Admitted c28Outcome = iota
	c28RateMinute
	c28RateHour
	c28QuotaHour
	c28QuotaDay
	c28Other
)

// c28Request replays the query handler's governance sequence (extracted from
// internal/api/query.go) for one request.
func c28Request(m *Manager, token int64) (c28Outcome, string) {
	for _, st := range verifC28HandlerSteps {
		var r *EnforcementResult
		switch st.Method {
		case "CheckRateLimit":
			r = m.CheckRateLimit(token)
		case "CheckQuota":
			r = m.CheckQuota(token)
		default:
			return c28Other, "harness: unknown handler step " + st.Method
		}
		if !r.Allowed && st.ReturnsOnReject {
			switch {
			case strings.Contains(r.Reason, "per minute"):
				return c28RateMinute, r.Reason
			case strings.Contains(r.Reason, "per hour"):
				return c28RateHour, r.Reason
			case strings.Contains(r.Reason, "Hourly"):
				return c28QuotaHour, r.Reason
			case strings.Contains(r.Reason, "Daily"):
				return c28QuotaDay, r.Reason
			}
			return c28Other, r.Reason
		}
	}
	return c28Admitted, ""
}

type c28Pol struct{ RPM, RPH, QPH, QPD int }

func (p c28Pol) String() string {
	return fmt.Sprintf("{perMin:%d perHour:%d quotaHour:%d quotaDay:%d}", p.RPM, p.RPH, p.QPH, p.QPD)
}

func (p c28Pol) policy(token int64) *Policy {
	return &Policy{TokenID: token, RateLimitPerMinute: p.RPM, RateLimitPerHour: p.RPH, MaxQueriesPerHour: p.QPH, MaxQueriesPerDay: p.QPD}
}

func c28GenPol(t *rapid.T) c28Pol {
	var p c28Pol
	for p == (c28Pol{}) {
		mask := rapid.IntRange(1, 15).Draw(t, "polMask")
		if mask&1 != 0 {
			p.RPM = c28GenLimit(t, "rpm")
		}
		if mask&2 != 0 {
			p.RPH = c28GenLimit(t, "rph")
		}
		if mask&4 != 0 {
			p.QPH = c28GenLimit(t, "qph")
		}
		if mask&8 != 0 {
			p.QPD = c28GenLimit(t, "qpd")
		}
	}
	return p
}

// c28Regen draws new positive values for the fields that are limited (a field never
// switches between "unlimited" and "limited": requests admitted while a dimension is
// unlimited are not counted by the code and the statement does not say they should be).
func c28Regen(t *rapid.T, p c28Pol) c28Pol {
	q := p
	if p.RPM > 0 && rapid.Bool().Draw(t, "chRPM") {
		q.RPM = c28GenLimit(t, "rpm2")
	}
	if p.RPH > 0 && rapid.Bool().Draw(t, "chRPH") {
		q.RPH = c28GenLimit(t, "rph2")
	}
	if p.QPH > 0 && rapid.Bool().Draw(t, "chQPH") {
		q.QPH = c28GenLimit(t, "qph2")
	}
	if p.QPD > 0 && rapid.Bool().Draw(t, "chQPD") {
		q.QPD = c28GenLimit(t, "qpd2")
	}
	return q
}

type c28Hist struct {
	admitted  []c28Admit // fully admitted queries, limit field unused
	passMin   []c28Admit // requests that got past the per-minute limiter
	passHour  []c28Admit // requests that got past the per-hour limiter
	admMin    []c28Admit // admitted, Limit = per-minute limit in force
	admHour   []c28Admit // admitted, Limit = per-hour limit in force
	admQH     []c28Admit // admitted, Limit = hourly quota in force
	admQD     []c28Admit // admitted, Limit = daily quota in force
	rejects   int
	rotated   bool
	boundary  bool
}

func c28BucketCount(adm []c28Admit, t, size int64) int {
	n := 0
	for _, a := range adm {
		if a.T/size == t/size {
			n++
		}
	}
	return n
}

func c28CheckBuckets(adm []c28Admit, from int, size int64, what string) (bool, string) {
	for i := from; i < len(adm); i++ {
		if adm[i].Limit <= 0 {
			continue
		}
		if n := c28BucketCount(adm, adm[i].T, size); n > adm[i].Limit {
			return false, fmt.Sprintf("%d queries admitted in the %s starting %s (quota in force %d)", n, what, c28Fmt(adm[i].T/size*size), adm[i].Limit)
		}
	}
	return true, ""
}

// c28RingLens reads the ring sizes of the token's limiters as built by the Manager
// (60 slots today; read from the live objects so the exclusion geometry follows the code).
// The spans are everything the rings can still hold (>= the window length).
func c28RingLens(m *Manager, token int64) (rm, rh int, spanMin, spanHour int64) {
	rm, rh = 60, 60
	spanMin, spanHour = int64(time.Minute), int64(time.Hour)
	m.minuteLimitersMu.RLock()
	if l, ok := m.minuteLimiters[token]; ok {
		rm = len(l.slots)
		if sp := int64(rm) * int64(l.slotDuration); sp > spanMin {
			spanMin = sp
		}
	}
	m.minuteLimitersMu.RUnlock()
	m.hourLimitersMu.RLock()
	if l, ok := m.hourLimiters[token]; ok {
		rh = len(l.slots)
		if sp := int64(rh) * int64(l.slotDuration); sp > spanHour {
			spanHour = sp
		}
	}
	m.hourLimitersMu.RUnlock()
	return
}

var c28MgrGeoms = []c28Geom{{int64(time.Minute), time.Second}, {int64(time.Hour), time.Minute}}

// c28Tok is the per-token state of one Manager history: every token has its own
// policy, limiters, quota tracker and recorded admits; the clock and the Manager
// (with its tracker maps and their housekeeping) are shared.
type c28Tok struct {
	id          int64
	pol         c28Pol
	havePolicy  bool
	h           *c28Hist
	justUpdated bool
	frontier    int64 // latest clock reading at which this token's limiters / tracker were used
}

func TestVerifC28_Manager(t *testing.T) {
	defer VerifSetClock(time.Time{})
	ctx := context.Background()
	rapid.Check(t, func(t *rapid.T) {
		now := c28GenBase(t)
		c28SetClock(now)
		defPol := c28GenPol(t)
		useDefaults := rapid.IntRange(0, 3).Draw(t, "defaultsMode") == 0
		cfg := &config.GovernanceConfig{}
		if useDefaults {
			cfg = &config.GovernanceConfig{Enabled: true, DefaultRateLimitPerMin: defPol.RPM, DefaultRateLimitPerHour: defPol.RPH,
				DefaultMaxQueriesPerHour: defPol.QPH, DefaultMaxQueriesPerDay: defPol.QPD}
		}
		m, closeFn := c28NewManager(t, cfg)
		defer closeFn()
		var glog []string
		monotone := true
		var toks []*c28Tok
		nextID := int64(rapid.IntRange(1, 5).Draw(t, "token"))
		// addToken registers one more token: under config defaults it simply exists,
		// otherwise it gets its own policy (the first one reuses the drawn policy).
		addToken := func(pol c28Pol) *c28Tok {
			tk := &c28Tok{id: nextID, pol: pol, h: &c28Hist{}, frontier: now}
			nextID++
			if !useDefaults {
				if _, err := m.CreatePolicy(ctx, pol.policy(tk.id)); err != nil {
					t.Fatalf("harness: CreatePolicy: %v", err)
				}
				tk.havePolicy = true
			}
			toks = append(toks, tk)
			glog = append(glog, fmt.Sprintf("token %d joins at %s policy=%v viaDefaults=%v", tk.id, c28Fmt(now), pol, useDefaults))
			return tk
		}
		addToken(defPol)
		// 1-3 tokens from the start (several tokens share the Manager's maps)
		for i, n := 0, []int{0, 0, 1, 1, 2}[rapid.IntRange(0, 4).Draw(t, "extraTokens")]; i < n; i++ {
			if useDefaults {
				addToken(defPol)
			} else {
				addToken(c28GenPol(t))
			}
		}
		exclSlot := verifkit.Excluded(kfC28Slot)
		exclEdge := verifkit.Excluded(kfC28QuotaEdge)
		exclBack := verifkit.Excluded(kfC28StepBack)
		fail := func(class, msg string) {
			t.Fatalf("VERIF-FAIL class=C28/%s %s\nhistory:\n  %s", class, msg, strings.Join(glog, "\n  "))
		}
		multi := false
		steps := rapid.IntRange(4, 45).Draw(t, "steps")
		for s := 0; s < steps; s++ {
			act := rapid.IntRange(0, 11).Draw(t, "act")
			ti := 0
			if len(toks) > 1 && rapid.IntRange(0, 2).Draw(t, "otherToken") == 0 {
				ti = rapid.IntRange(1, len(toks)-1).Draw(t, "tokIdx")
			}
			tk := toks[ti]
			if act == 11 {
				// a token that has never queried before runs its first query: the Manager
				// inserts fresh limiters / a fresh quota tracker next to the existing ones
				if len(toks) >= 6 {
					continue
				}
				if useDefaults {
					tk = addToken(defPol)
				} else {
					tk = addToken(c28GenPol(t))
				}
				act = 0
			}
			h, pol := tk.h, tk.pol
			switch {
			case act <= 6: // arrive / burst
				nt, what := c28Move(t, now, c28MgrGeoms, h.admitted, true)
				n := 1
				if act >= 5 {
					n = rapid.IntRange(2, 12).Draw(t, "burst")
				}
				ringMin, ringHour, spanMin, spanHour := c28RingLens(m, tk.id)
				forgot := (pol.RPM > 0 && c28Forgotten(h.admitted, nt, tk.frontier, int64(time.Minute), time.Second, ringMin)) ||
					(pol.RPH > 0 && c28Forgotten(h.admitted, nt, tk.frontier, int64(time.Hour), time.Minute, ringHour))
				if forgot && nt >= tk.frontier && exclSlot {
					verifkit.CountExcluded(kfC28Slot)
					continue
				}
				if forgot && nt < tk.frontier && exclBack {
					verifkit.CountExcluded(kfC28StepBack)
					continue
				}
				// quota counters already reset for a later clock hour than the one the
				// clock has stepped back into
				staleQuota := (pol.QPH > 0 || pol.QPD > 0) && nt/c28Hour < tk.frontier/c28Hour
				if staleQuota && exclBack {
					verifkit.CountExcluded(kfC28StepBack)
					continue
				}
				onEdge := (pol.QPH > 0 || pol.QPD > 0) && nt%c28Hour == 0
				if onEdge && exclEdge {
					verifkit.CountExcluded(kfC28QuotaEdge)
					continue
				}
				if forgot {
					h.rotated = true
				}
				if onEdge {
					h.boundary = true
				}
				now = nt
				if now > tk.frontier {
					tk.frontier = now
				}
				c28SetClock(now)
				checkUsage := rapid.Bool().Draw(t, "observeUsage")
				var before *TokenUsage
				if checkUsage {
					before = m.GetTokenUsage(tk.id)
				}
				outs := make([]c28Outcome, n)
				reasons := make([]string, n)
				if n == 1 {
					outs[0], reasons[0] = c28Request(m, tk.id)
				} else {
					var wg sync.WaitGroup
					for i := 0; i < n; i++ {
						wg.Add(1)
						go func(i int) { defer wg.Done(); outs[i], reasons[i] = c28Request(m, tk.id) }(i)
					}
					wg.Wait()
				}
				fAdm, fMin, fHour := len(h.admitted), len(h.admMin), len(h.admHour)
				cnt := map[c28Outcome]int{}
				for i, o := range outs {
					cnt[o]++
					switch o {
					case c28Admitted:
						h.admitted = append(h.admitted, c28Admit{now, 0})
						h.admMin = append(h.admMin, c28Admit{now, pol.RPM})
						h.admHour = append(h.admHour, c28Admit{now, pol.RPH})
						h.admQH = append(h.admQH, c28Admit{now, pol.QPH})
						h.admQD = append(h.admQD, c28Admit{now, pol.QPD})
						h.passMin = append(h.passMin, c28Admit{now, pol.RPM})
						h.passHour = append(h.passHour, c28Admit{now, pol.RPH})
					case c28RateHour:
						h.passMin = append(h.passMin, c28Admit{now, pol.RPM})
					case c28QuotaHour, c28QuotaDay:
						h.passMin = append(h.passMin, c28Admit{now, pol.RPM})
						h.passHour = append(h.passHour, c28Admit{now, pol.RPH})
					case c28RateMinute:
					default:
						fail("harness", "unclassified rejection reason: "+reasons[i])
					}
				}
				h.rejects += n - cnt[c28Admitted]
				if ti != 0 && cnt[c28Admitted] > 0 {
					multi = true
				}
				glog = append(glog, fmt.Sprintf("%s token %d (%s) x%d policy=%v -> admitted %d, rate-limited(min) %d, rate-limited(hour) %d, quota(hour) %d, quota(day) %d",
					c28Fmt(now), tk.id, what, n, pol, cnt[c28Admitted], cnt[c28RateMinute], cnt[c28RateHour], cnt[c28QuotaHour], cnt[c28QuotaDay]))
				who := fmt.Sprintf("token %d: ", tk.id)

				// 1. sliding windows over admitted queries
				if ok, msg := c28CheckWindow(h.admMin, fMin, int64(time.Minute)); !ok {
					fail("minute-window-exceeded", who+msg)
				}
				if ok, msg := c28CheckWindow(h.admHour, fHour, int64(time.Hour)); !ok {
					fail("hour-window-exceeded", who+msg)
				}
				// 2. quotas per clock hour / UTC day
				if ok, msg := c28CheckBuckets(h.admQH, fAdm, c28Hour, "clock hour"); !ok {
					fail("hour-quota-exceeded", who+msg)
				}
				if ok, msg := c28CheckBuckets(h.admQD, fAdm, c28Day, "UTC day"); !ok {
					fail("day-quota-exceeded", who+msg)
				}
				// 3. a rate-limited query consumes no quota
				if checkUsage {
					after := m.GetTokenUsage(tk.id)
					reached := cnt[c28Admitted] + cnt[c28QuotaHour] + cnt[c28QuotaDay]
					dh := after.QueriesThisHour - before.QueriesThisHour
					dd := after.QueriesThisDay - before.QueriesThisDay
					rl := cnt[c28RateMinute] + cnt[c28RateHour]
					if rl > 0 && (dh > reached || dd > reached) {
						fail("rate-limited-consumed-quota", fmt.Sprintf("%s%d request(s) were rate-limited and only %d reached the quota check, yet usage grew by hour=%d day=%d", who, rl, reached, dh, dd))
					}
					if rl > 0 {
						verifkit.Class("manager/rate-limited-usage-observed")
					}
				}
				// 4. limit changes apply to the next request: a rejection right after the
				// update must be explained by the NEW limits (counted over requests that
				// passed the respective stage).
				if tk.justUpdated && monotone {
					if cnt[c28RateMinute] > 0 && pol.RPM > 0 {
						if got := c28CountIn(h.passMin, now, spanMin); got < pol.RPM {
							fail("new-limit-not-applied", fmt.Sprintf("%sper-minute rejection right after the update to %d although only %d requests passed the minute limiter in the last minute", who, pol.RPM, got))
						}
					}
					if cnt[c28RateHour] > 0 && pol.RPH > 0 {
						if got := c28CountIn(h.passHour, now, spanHour); got < pol.RPH {
							fail("new-limit-not-applied", fmt.Sprintf("%sper-hour rejection right after the update to %d although only %d requests passed the hour limiter in the last hour", who, pol.RPH, got))
						}
					}
					if cnt[c28QuotaHour] > 0 && pol.QPH > 0 && !onEdge {
						if got := c28BucketCount(h.admitted, now, c28Hour); got < pol.QPH {
							fail("new-limit-not-applied", fmt.Sprintf("%shourly-quota rejection right after the update to %d although only %d queries were admitted in this clock hour", who, pol.QPH, got))
						}
					}
					if cnt[c28QuotaDay] > 0 && pol.QPD > 0 && !onEdge {
						if got := c28BucketCount(h.admitted, now, c28Day); got < pol.QPD {
							fail("new-limit-not-applied", fmt.Sprintf("%sdaily-quota rejection right after the update to %d although only %d queries were admitted in this UTC day", who, pol.QPD, got))
						}
					}
				}
				tk.justUpdated = false
			case act == 7 || act == 8: // updateLimit
				np := c28Regen(t, pol)
				var err error
				if tk.havePolicy {
					_, err = m.UpdatePolicy(ctx, np.policy(tk.id))
				} else {
					_, err = m.CreatePolicy(ctx, np.policy(tk.id))
					tk.havePolicy = true
				}
				if err != nil {
					t.Fatalf("harness: update policy: %v", err)
				}
				tk.pol = np
				tk.justUpdated = true
				glog = append(glog, fmt.Sprintf("token %d update policy -> %v", tk.id, np))
			case act == 9: // clock jump forward (no request at the landing instant)
				now += rapid.Int64Range(0, 3*c28Hour).Draw(t, "jumpFwd")
				c28SetClock(now)
				glog = append(glog, "clock jumps forward to "+c28Fmt(now))
			case act == 10: // clock steps back
				var back int64
				if rapid.Bool().Draw(t, "smallBack") {
					back = rapid.Int64Range(1, 5*int64(time.Second)).Draw(t, "jumpBack")
				} else {
					back = rapid.Int64Range(1, 2*c28Hour).Draw(t, "jumpBackBig")
				}
				now -= back
				c28SetClock(now)
				monotone = false
				glog = append(glog, "clock steps BACK to "+c28Fmt(now))
			}
		}
		verifkit.Eval()
		if useDefaults {
			verifkit.Class("manager/config-defaults")
		} else {
			verifkit.Class("manager/per-token-policy")
		}
		verifkit.Class(fmt.Sprintf("manager/tokens=%d", len(toks)))
		if multi {
			verifkit.Class("manager/several-tokens-admitted")
		}
		if !monotone {
			verifkit.Class("manager/with-backward-step")
		}
		rejects, admitted, rotated, boundary := 0, 0, false, false
		for _, tk := range toks {
			rejects += tk.h.rejects
			if len(tk.h.admitted) > admitted {
				admitted = len(tk.h.admitted)
			}
			rotated = rotated || tk.h.rotated
			boundary = boundary || tk.h.boundary
		}
		if rotated {
			verifkit.Class("manager/rotated-apart")
		}
		if boundary {
			verifkit.Class("manager/on-hour-boundary-instant")
		}
		if rejects > 0 && admitted >= 2 {
			verifkit.NonTrivial(strings.Join(glog, "|"))
			if verifkit.SampleCount() < 4 {
				verifkit.Sample(map[string]any{"kind": "manager", "history": glog})
			}
		}
	})
}

// ---------------------------------------------------------------- known-finding reproductions

// Minimal timeline: per-minute limit 1; a query at hh:mm:00.999999999 and another
// 59.000000001 s later are both admitted - two admits inside one 60 s window.
func TestVerifKF_C28_slot_early_forget(t *testing.T) {
	defer VerifSetClock(time.Time{})
	t0 := c28Epoch + 10*c28Hour + 999999999
	c28SetClock(t0)
	m, closeFn := c28NewManager(t, &config.GovernanceConfig{})
	defer closeFn()
	if _, err := m.CreatePolicy(context.Background(), (c28Pol{RPM: 1}).policy(7)); err != nil {
		t.Fatalf("harness: %v", err)
	}
	a1, _ := c28Request(m, 7)
	t1 := t0 + 59*int64(time.Second) + 1
	c28SetClock(t1)
	a2, _ := c28Request(m, 7)
	rep := a1 == c28Admitted && a2 == c28Admitted
	t.Logf("limit 1/min: %s -> %v ; %s -> %v (distance %v)", c28Fmt(t0), a1 == c28Admitted, c28Fmt(t1), a2 == c28Admitted, time.Duration(t1-t0))
	verifkit.KnownFinding(kfC28Slot, rep, "per-minute limit 1: queries at :00.999999999 and 59.000000001 s later are both admitted (2 admits inside one 60 s window)")
}

// Minimal timeline: hourly quota 2; one query at B-10min, one exactly at the hour
// boundary B (billed to the previous hour), then two more at B+1ns: 3 admitted in
// the clock hour starting at B.
func TestVerifKF_C28_quota_boundary_instant(t *testing.T) {
	defer VerifSetClock(time.Time{})
	B := c28Epoch + 11*c28Hour
	c28SetClock(B - 10*int64(time.Minute))
	m, closeFn := c28NewManager(t, &config.GovernanceConfig{})
	defer closeFn()
	if _, err := m.CreatePolicy(context.Background(), (c28Pol{QPH: 2}).policy(7)); err != nil {
		t.Fatalf("harness: %v", err)
	}
	n := 0
	o, _ := c28Request(m, 7)
	first := o == c28Admitted
	c28SetClock(B)
	if o, _ = c28Request(m, 7); o == c28Admitted {
		n++
	}
	c28SetClock(B + 1)
	for i := 0; i < 2; i++ {
		if o, _ = c28Request(m, 7); o == c28Admitted {
			n++
		}
	}
	t.Logf("hourly quota 2: first=%v, admitted in clock hour starting %s: %d", first, c28Fmt(B), n)
	verifkit.KnownFinding(kfC28QuotaEdge, first && n > 2, "hourly quota 2: queries at B-10min, exactly B, B+1ns, B+1ns are all admitted (3 in the clock hour starting at B)")
}

// Minimal timelines (wall clock steps back by 1 ns .. 2 s):
//   - hourly quota 2: two queries at 10:59:59, the clock steps +2 s (one query at
//     11:00:01 resets the counters) and then -2 s: one more query is admitted at
//     10:59:59.5 - 3 admitted in clock hour 10;
//   - per-minute limit 2: two queries at 10:59:00.0, one at 11:00:00.0 (the 10:59:00
//     slot is rotated out, correctly), the clock steps back 1 ns and a query at
//     10:59:59.999999999 is admitted - 3 admits inside the window [10:59:00, 11:00:00).
func TestVerifKF_C28_clock_step_back(t *testing.T) {
	defer VerifSetClock(time.Time{})
	B := c28Epoch + 11*c28Hour
	c28SetClock(B - int64(time.Second))
	m, closeFn := c28NewManager(t, &config.GovernanceConfig{})
	defer closeFn()
	if _, err := m.CreatePolicy(context.Background(), (c28Pol{QPH: 2}).policy(7)); err != nil {
		t.Fatalf("harness: %v", err)
	}
	inHour10 := 0
	for i := 0; i < 2; i++ {
		if o, _ := c28Request(m, 7); o == c28Admitted {
			inHour10++
		}
	}
	c28SetClock(B + int64(time.Second))
	c28Request(m, 7)
	c28SetClock(B - int64(time.Second)/2)
	if o, _ := c28Request(m, 7); o == c28Admitted {
		inHour10++
	}
	t.Logf("hourly quota 2: admitted with a clock reading inside hour 10: %d", inHour10)

	T0 := B - int64(time.Minute)
	c28SetClock(T0)
	if _, err := m.CreatePolicy(context.Background(), (c28Pol{RPM: 2}).policy(8)); err != nil {
		t.Fatalf("harness: %v", err)
	}
	inWindow := 0
	for i := 0; i < 2; i++ {
		if o, _ := c28Request(m, 8); o == c28Admitted {
			inWindow++
		}
	}
	c28SetClock(B)
	c28Request(m, 8)
	c28SetClock(B - 1)
	if o, _ := c28Request(m, 8); o == c28Admitted {
		inWindow++
	}
	t.Logf("per-minute limit 2: admitted with a clock reading inside [10:59:00, 11:00:00): %d", inWindow)
	verifkit.KnownFinding(kfC28StepBack, inHour10 > 2 || inWindow > 2,
		fmt.Sprintf("after the clock steps back: hourly quota 2 -> %d admitted in clock hour 10; per-minute limit 2 -> %d admitted inside one 60 s window", inHour10, inWindow))
}
