//go:build verif

package ingest

// Observation seams for the C07 harness (package main of cmd/arc cannot see the
// unexported buffer state). Read-only except VerifC07QueuedIDs, which cycles the
// queued tasks through the channel and must only be called while no flush worker
// can receive (all workers blocked in the storage gate, or queue empty).

func verifC07IDs(batch interface{}, col string, out []int64) []int64 {
	tb, ok := batch.(*TypedColumnBatch)
	if !ok || tb == nil {
		return out
	}
	switch v := tb.Data[col].(type) {
	case []int64:
		out = append(out, v...)
	case []float64:
		for _, f := range v {
			out = append(out, int64(f))
		}
	}
	return out
}

// VerifC07BufferedIDs returns the values of column col of every row that is
// currently held in the in-memory shard buffers.
func (b *ArrowBuffer) VerifC07BufferedIDs(col string) []int64 {
	var out []int64
	for _, shard := range b.shards {
		shard.mu.RLock()
		for _, batches := range shard.buffers {
			for _, batch := range batches {
				out = verifC07IDs(batch, col, out)
			}
		}
		shard.mu.RUnlock()
	}
	return out
}

// VerifC07QueueLen is len(flushQueue); VerifC07QueueCap its capacity.
func (b *ArrowBuffer) VerifC07QueueLen() int { return len(b.flushQueue) }
func (b *ArrowBuffer) VerifC07QueueCap() int { return cap(b.flushQueue) }

// VerifC07QueuedIDs returns the ids held by tasks waiting in the flush queue.
func (b *ArrowBuffer) VerifC07QueuedIDs(col string) []int64 {
	var out []int64
	n := len(b.flushQueue)
	for i := 0; i < n; i++ {
		select {
		case task := <-b.flushQueue:
			for _, batch := range task.records {
				out = verifC07IDs(batch, col, out)
			}
			b.flushQueue <- task
		default:
			return out
		}
	}
	return out
}
