//go:build verif

package ingest

import (
	"bytes"
	"context"
	"database/sql"
	"encoding/hex"
	"fmt"
	"math"
	"os"
	"path/filepath"
	"reflect"
	"regexp"
	"sort"
	"strings"
	"sync/atomic"
	"testing"
	"time"
	"unicode/utf8"

	"github.com/Basekick-Labs/msgpack/v6"
	"github.com/basekick-labs/arc/internal/config"
	"github.com/basekick-labs/arc/internal/storage"
	"github.com/basekick-labs/arc/internal/verifkit"
	"github.com/basekick-labs/arc/internal/verifkit/duck"
	"github.com/basekick-labs/arc/pkg/models"
	"github.com/rs/zerolog"
	"pgregory.net/rapid"
)

// C02: differential between MessagePackDecoder.Decode with the typed columnar
// fast path on and off, on the same bytes. Compared (a) structurally after the
// generic result went through ArrowBuffer.convertColumnsToTyped (the typing
// chokepoint every generic write passes), and (b) on a subset, after both
// results went through ArrowBuffer.Write + FlushAll, as Parquet read back with
// DuckDB (measurements, column types, rows with null positions).

const (
	kfC02DupColNonArray = "C02-duplicate-column-nonarray"
	kfC02SkippedValue   = "C02-skipped-value-undecodable"
)

type c02Env struct {
	buf  *ArrowBuffer
	root string
	db   *sql.DB
	decT *MessagePackDecoder
	decG *MessagePackDecoder
	seq  atomic.Int64
}

func newC02Env(t *testing.T) *c02Env {
	root, err := os.MkdirTemp("", "c02-")
	if err != nil {
		t.Fatalf("tempdir: %v", err)
	}
	st, err := storage.NewLocalBackend(root, zerolog.Nop())
	if err != nil {
		t.Fatalf("storage: %v", err)
	}
	cfg := &config.IngestConfig{MaxBufferSize: 1 << 30, MaxBufferAgeMS: 24 * 3600 * 1000, Compression: "snappy",
		FlushWorkers: 1, FlushQueueSize: 4, ShardCount: 4}
	buf := NewArrowBuffer(cfg, st, zerolog.Nop())
	db, err := duck.Open()
	if err != nil {
		t.Fatalf("duckdb: %v", err)
	}
	e := &c02Env{buf: buf, root: root, db: db, decT: NewMessagePackDecoder(zerolog.Nop()), decG: NewMessagePackDecoder(zerolog.Nop())}
	e.decT.SetTypedDecodeEnabled(true)
	e.decG.SetTypedDecodeEnabled(false)
	t.Cleanup(func() {
		_ = buf.Close()
		_ = st.Close()
		_ = db.Close()
		_ = os.RemoveAll(root)
	})
	return e
}

func c02Decode(d *MessagePackDecoder, data []byte) (res interface{}, err error, panicked string) {
	defer func() {
		if r := recover(); r != nil {
			panicked = fmt.Sprint(r)
		}
	}()
	res, err = d.Decode(append([]byte(nil), data...))
	return
}

// c02Unit is one thing ArrowBuffer.Write would store for a decoded record.
type c02Unit struct {
	kind  string // "columnar", "row", "other"
	meas  string
	batch *TypedColumnBatch
	n     int
	err   string // conversion error the write would return
	rec   *models.Record
}

func (e *c02Env) units(res interface{}) []c02Unit {
	list, ok := res.([]interface{})
	if !ok {
		return []c02Unit{{kind: "other", err: fmt.Sprintf("result %T", res)}}
	}
	var out []c02Unit
	for _, it := range list {
		switch r := it.(type) {
		case *TypedColumnarRecord:
			out = append(out, c02Unit{kind: "columnar", meas: r.Measurement, batch: r.Batch, n: r.NumRecords})
		case *models.ColumnarRecord:
			b, n, err := e.buf.convertColumnsToTyped(r.Measurement, r.Columns)
			u := c02Unit{kind: "columnar", meas: r.Measurement, batch: b, n: n}
			if err != nil {
				u.err = "convert-error"
			}
			out = append(out, u)
		case *models.Record:
			out = append(out, c02Unit{kind: "row", meas: r.Measurement, rec: r})
		default:
			out = append(out, c02Unit{kind: "other", err: fmt.Sprintf("unknown record type %T", it)})
		}
	}
	return out
}

func c02Canon(v interface{}) string {
	switch x := v.(type) {
	case nil:
		return "nil"
	case float64:
		if math.IsNaN(x) {
			return "float64:NaN"
		}
		return fmt.Sprintf("float64:%x", math.Float64bits(x))
	case float32:
		if x != x {
			return "float32:NaN"
		}
		return fmt.Sprintf("float32:%x", math.Float32bits(x))
	case map[string]interface{}:
		ks := make([]string, 0, len(x))
		for k := range x {
			ks = append(ks, k)
		}
		sort.Strings(ks)
		var b strings.Builder
		b.WriteString("map{")
		for _, k := range ks {
			fmt.Fprintf(&b, "%q:%s,", k, c02Canon(x[k]))
		}
		b.WriteString("}")
		return b.String()
	case []interface{}:
		var b strings.Builder
		b.WriteString("[")
		for _, y := range x {
			b.WriteString(c02Canon(y))
			b.WriteString(",")
		}
		b.WriteString("]")
		return b.String()
	default:
		return fmt.Sprintf("%T:%#v", v, v)
	}
}

// c02CmpBatch compares two typed batches column by column: Go slice type
// (the Arrow type that will be written), values, and effective null positions.
//
// Time rule (the statement's only permitted difference): the two time columns
// may differ iff both are *generated* timestamps, i.e. each side's column is one
// constant value lying inside the wall-clock bracket of that side's Decode call.
type c02Bracket struct{ loT, hiT, loG, hiG int64 }

func c02Generated(col interface{}, lo, hi int64) bool {
	ts, ok := col.([]int64)
	if !ok || len(ts) == 0 {
		return false
	}
	for _, v := range ts {
		if v != ts[0] || v < lo || v > hi {
			return false
		}
	}
	return true
}

func c02CmpBatch(a, b *TypedColumnBatch, na, nb int, br c02Bracket, generated *bool) string {
	if (a == nil) != (b == nil) {
		return fmt.Sprintf("batch nil-ness: typed %v generic %v", a == nil, b == nil)
	}
	if a == nil {
		return ""
	}
	if na != nb {
		return fmt.Sprintf("row count: typed %d generic %d", na, nb)
	}
	var ka, kb []string
	for k := range a.Data {
		ka = append(ka, k)
	}
	for k := range b.Data {
		kb = append(kb, k)
	}
	sort.Strings(ka)
	sort.Strings(kb)
	if !reflect.DeepEqual(ka, kb) {
		return fmt.Sprintf("column set: typed %q generic %q", ka, kb)
	}
	ignoreTime := c02Generated(a.Data["time"], br.loT, br.hiT) && c02Generated(b.Data["time"], br.loG, br.hiG)
	if ignoreTime {
		*generated = true
	}
	for _, k := range ka {
		ca, cb := a.Data[k], b.Data[k]
		if reflect.TypeOf(ca) != reflect.TypeOf(cb) {
			return fmt.Sprintf("column %q type: typed %T generic %T", k, ca, cb)
		}
		va, vb := reflect.ValueOf(ca), reflect.ValueOf(cb)
		if va.Len() != vb.Len() {
			return fmt.Sprintf("column %q length: typed %d generic %d", k, va.Len(), vb.Len())
		}
		valA, valB := a.Validity[k], b.Validity[k]
		if valA != nil && len(valA) != va.Len() || valB != nil && len(valB) != vb.Len() {
			return fmt.Sprintf("column %q validity length: typed %d generic %d (rows %d)", k, len(valA), len(valB), va.Len())
		}
		for i := 0; i < va.Len(); i++ {
			nullA := valA != nil && !valA[i]
			nullB := valB != nil && !valB[i]
			if nullA != nullB {
				return fmt.Sprintf("column %q row %d null: typed %v generic %v", k, i, nullA, nullB)
			}
			if nullA || (ignoreTime && k == "time") {
				continue
			}
			if c02Canon(va.Index(i).Interface()) != c02Canon(vb.Index(i).Interface()) {
				return fmt.Sprintf("column %q row %d value: typed %v generic %v", k, i, va.Index(i).Interface(), vb.Index(i).Interface())
			}
		}
	}
	return ""
}

func c02CmpUnits(ut, ug []c02Unit, br c02Bracket, generated *bool) string {
	if len(ut) != len(ug) {
		return fmt.Sprintf("record count: typed %d generic %d", len(ut), len(ug))
	}
	for i := range ut {
		a, b := ut[i], ug[i]
		if a.kind != b.kind || a.meas != b.meas || a.err != b.err {
			return fmt.Sprintf("record %d: typed kind=%s m=%q err=%q, generic kind=%s m=%q err=%q", i, a.kind, a.meas, a.err, b.kind, b.meas, b.err)
		}
		switch a.kind {
		case "columnar":
			if a.err == "" {
				if d := c02CmpBatch(a.batch, b.batch, a.n, b.n, br, generated); d != "" {
					return fmt.Sprintf("record %d (%q): %s", i, a.meas, d)
				}
			}
		case "row":
			*generated = true // row timestamps may be server-generated; Time is not compared
			fa, fb := c02Canon(map[string]interface{}(a.rec.Fields)), c02Canon(map[string]interface{}(b.rec.Fields))
			if fa != fb || !reflect.DeepEqual(a.rec.Tags, b.rec.Tags) {
				return fmt.Sprintf("row record %d: typed fields=%s tags=%v generic fields=%s tags=%v", i, fa, a.rec.Tags, fb, b.rec.Tags)
			}
		}
	}
	return ""
}

func c02Accepted(us []c02Unit) bool {
	for _, u := range us {
		if u.err != "" {
			return false
		}
	}
	return true
}

var c02ValidMeas = regexp.MustCompile(`^[a-zA-Z][a-zA-Z0-9_-]*$`)

// c02Flushable: the HTTP handler would let these records reach the buffer
// (valid measurement names) and the flush does not hit shapes owned by other
// properties (empty column names crash getSchema: C04).
func c02Flushable(us []c02Unit) bool {
	if len(us) == 0 {
		return false
	}
	for _, u := range us {
		if u.err != "" || u.kind == "other" || len(u.meas) > 128 || !c02ValidMeas.MatchString(u.meas) {
			return false
		}
		if u.batch != nil {
			lower := map[string]bool{}
			for k := range u.batch.Data {
				// "" crashes getSchema (C04); DuckDB, the reader used here, renames
				// columns that differ only in letter case depending on file order
				if k == "" || !utf8.ValidString(k) || lower[strings.ToLower(k)] {
					return false
				}
				lower[strings.ToLower(k)] = true
			}
		}
		if u.rec != nil {
			for k := range u.rec.Fields {
				if k == "" {
					return false
				}
			}
			for k := range u.rec.Tags {
				if k == "" {
					return false
				}
			}
		}
	}
	return true
}

type c02Stored struct {
	meas  []string
	types map[string]string // "meas\x00col" -> duckdb type
	rows  map[string]duck.Multiset
	err   string
}

func (e *c02Env) readStored(dbname string, ignoreTime bool) c02Stored {
	st := c02Stored{types: map[string]string{}, rows: map[string]duck.Multiset{}}
	ents, _ := os.ReadDir(filepath.Join(e.root, dbname))
	for _, en := range ents {
		st.meas = append(st.meas, en.Name())
		files := duck.FindParquet(filepath.Join(e.root, dbname, en.Name()))
		tbl, err := duck.ReadParquet(e.db, files)
		if err != nil {
			st.err = "read-error"
			continue
		}
		for i, c := range tbl.Cols {
			ty := ""
			if i < len(tbl.Types) {
				ty = tbl.Types[i]
			}
			st.types[en.Name()+"\x00"+c] = ty
		}
		rows := tbl.RowMaps()
		if ignoreTime {
			for _, r := range rows {
				delete(r, "time")
			}
		}
		st.rows[en.Name()] = duck.MultisetOf(rows, false)
	}
	sort.Strings(st.meas)
	return st
}

// twinUsable decodes the twin payload with both decoders and applies the same
// structural oracle to it; it is buffered next to the main payload only when
// both decoders accept it and the handler would let it through.
func (e *c02Env) twinUsable(t *rapid.T, twin []byte) (usable, generated bool) {
	if twin == nil {
		return false, false
	}
	var br c02Bracket
	br.loT = time.Now().UnixMicro() - 1
	resT, errT, pT := c02Decode(e.decT, twin)
	br.hiT = time.Now().UnixMicro() + 1
	br.loG = br.hiT - 2
	resG, errG, pG := c02Decode(e.decG, twin)
	br.hiG = time.Now().UnixMicro() + 1
	if pT != "" || pG != "" || errT != nil || errG != nil {
		return false, false
	}
	ut, ug := e.units(resT), e.units(resG)
	if d := c02CmpUnits(ut, ug, br, &generated); d != "" {
		t.Fatalf("VERIF-FAIL class=C02/decode-divergence payload=%s: %s", hex.EncodeToString(twin), d)
	}
	return c02Accepted(ut) && c02Accepted(ug) && c02Flushable(ut) && c02Flushable(ug), generated
}

func (e *c02Env) flushCompare(t *rapid.T, data []byte, ignoreTime bool, twin []byte, twinFirst bool) {
	n := e.seq.Add(1)
	dbT, dbG := fmt.Sprintf("t%d", n), fmt.Sprintf("g%d", n)
	defer os.RemoveAll(filepath.Join(e.root, dbT))
	defer os.RemoveAll(filepath.Join(e.root, dbG))
	resT, errT, _ := c02Decode(e.decT, data)
	resG, errG, _ := c02Decode(e.decG, data)
	if errT != nil || errG != nil {
		t.Fatalf("HARNESS: second decode of an accepted payload failed: %v / %v", errT, errG)
	}
	ctx := context.Background()
	// optionally buffer a same-schema twin before/after the payload so that the
	// flush has to MERGE two batches with different null patterns on each side
	writeTwin := func() {
		if twin == nil {
			return
		}
		twT, e1, _ := c02Decode(e.decT, twin)
		twG, e2, _ := c02Decode(e.decG, twin)
		if e1 != nil || e2 != nil {
			t.Fatalf("HARNESS: second decode of an accepted twin failed: %v / %v", e1, e2)
		}
		w1, w2 := e.buf.Write(ctx, dbT, twT), e.buf.Write(ctx, dbG, twG)
		if (w1 == nil) != (w2 == nil) {
			t.Fatalf("VERIF-FAIL class=C02/write-accept-mismatch payload=%s typed write err=%v generic write err=%v", hex.EncodeToString(twin), w1, w2)
		}
		verifkit.Class("flush-compared-with-twin")
	}
	if twinFirst {
		writeTwin()
	}
	wT := e.buf.Write(ctx, dbT, resT)
	wG := e.buf.Write(ctx, dbG, resG)
	if !twinFirst {
		writeTwin()
	}
	fErr := e.buf.FlushAll(ctx)
	if (wT == nil) != (wG == nil) {
		t.Fatalf("VERIF-FAIL class=C02/write-accept-mismatch payload=%s typed write err=%v generic write err=%v", hex.EncodeToString(data), wT, wG)
	}
	sT, sG := e.readStored(dbT, ignoreTime), e.readStored(dbG, ignoreTime)
	if !reflect.DeepEqual(sT.meas, sG.meas) {
		t.Fatalf("VERIF-FAIL class=C02/stored-measurements payload=%s typed %q generic %q (flush err %v)", hex.EncodeToString(data), sT.meas, sG.meas, fErr)
	}
	if sT.err != sG.err {
		t.Fatalf("VERIF-FAIL class=C02/stored-readability payload=%s typed %q generic %q", hex.EncodeToString(data), sT.err, sG.err)
	}
	if !reflect.DeepEqual(sT.types, sG.types) {
		t.Fatalf("VERIF-FAIL class=C02/stored-column-types payload=%s typed %v generic %v", hex.EncodeToString(data), sT.types, sG.types)
	}
	for _, m := range sT.meas {
		if d := sT.rows[m].Diff(sG.rows[m], 4); len(d) > 0 {
			t.Fatalf("VERIF-FAIL class=C02/stored-rows payload=%s measurement %q (want=typed got=generic): %v", hex.EncodeToString(data), m, d)
		}
	}
	verifkit.Class("flush-compared")
	if len(sT.meas) > 0 {
		verifkit.Class("flush-compared-nonempty")
	}
}

// c02ArrayThenNonArrayDup reports whether the payload is a top-level map whose
// "columns" map repeats a key, first with an array value and later with a
// non-array value (the exact shape of finding C02-duplicate-column-nonarray).
func c02ArrayThenNonArrayDup(data []byte) bool {
	dec := msgpack.NewDecoder(bytes.NewReader(data))
	c, err := dec.PeekCode()
	if err != nil || !isMapCode(c) {
		return false
	}
	n, err := dec.DecodeMapLen()
	if err != nil {
		return false
	}
	for i := 0; i < n; i++ {
		kc, err := dec.PeekCode()
		if err != nil || !isStrCode(kc) {
			return false
		}
		key, err := dec.DecodeString()
		if err != nil {
			return false
		}
		vc, err := dec.PeekCode()
		if err != nil {
			return false
		}
		if key != "columns" || !isMapCode(vc) {
			if dec.Skip() != nil {
				return false
			}
			continue
		}
		nc, err := dec.DecodeMapLen()
		if err != nil {
			return false
		}
		seenArray := map[string]bool{}
		for j := 0; j < nc; j++ {
			kc, err := dec.PeekCode()
			if err != nil || !isStrCode(kc) {
				return false
			}
			name, err := dec.DecodeString()
			if err != nil {
				return false
			}
			vc, err := dec.PeekCode()
			if err != nil {
				return false
			}
			if isArrayCode(vc) {
				seenArray[name] = true
			} else if seenArray[name] {
				return true
			}
			if dec.Skip() != nil {
				return false
			}
		}
	}
	return false
}

func c02RootCause(m *c02Meta, data []byte) string {
	switch {
	case c02ArrayThenNonArrayDup(data):
		return "duplicate-column-nonarray"
	default:
		return "decode-divergence"
	}
}

func (e *c02Env) check(t *rapid.T, data []byte, m *c02Meta, doFlush bool) {
	hitsBefore := e.decT.typedHits.Load()
	var br c02Bracket
	br.loT = time.Now().UnixMicro() - 1
	resT, errT, pT := c02Decode(e.decT, data)
	br.hiT = time.Now().UnixMicro() + 1
	br.loG = br.hiT - 2
	resG, errG, pG := c02Decode(e.decG, data)
	br.hiG = time.Now().UnixMicro() + 1
	hit := e.decT.typedHits.Load() > hitsBefore
	verifkit.Eval()
	verifkit.Class("shape:" + m.Shape)
	if m.Mutation != "" {
		verifkit.Class("mutation:" + m.Mutation)
	}
	hx := hex.EncodeToString(data)
	if verifkit.Excluded(kfC02DupColNonArray) && c02ArrayThenNonArrayDup(data) {
		verifkit.CountExcluded(kfC02DupColNonArray)
		return
	}
	if pT != "" || pG != "" {
		if (pT != "") != (pG != "") {
			t.Fatalf("VERIF-FAIL class=C02/panic-mismatch payload=%s typed panic=%q generic panic=%q", hx, pT, pG)
		}
		verifkit.Class("both-panic")
		verifkit.Note("both_panic_example", map[string]string{"payload_hex": hx, "panic": pT})
		return
	}
	if hit {
		verifkit.Class("typed-hit")
		verifkit.NonTrivial("hit:" + hx)
		if verifkit.SampleCount() < 3 && len(data) < 120 {
			verifkit.Sample(map[string]any{"payload_hex": hx, "typed_path": "hit", "meta": m})
		}
	} else {
		verifkit.Class("typed-miss")
		if m.Shape == "columnar" && m.Columns > 0 {
			verifkit.Class("typed-fallback-on-columnar")
			verifkit.NonTrivial("fallback:" + hx)
		}
	}
	if errT == nil && errG != nil && strings.Contains(errG.Error(), "unknown ext id") && verifkit.Excluded(kfC02SkippedValue) {
		// open finding: the typed path skips (never decodes) values it does not need
		verifkit.CountExcluded(kfC02SkippedValue)
		return
	}
	if (errT == nil) != (errG == nil) {
		t.Fatalf("VERIF-FAIL class=C02/%s decode accept mismatch payload=%s typed err=%v generic err=%v meta=%+v", c02RootCause(m, data), hx, errT, errG, *m)
	}
	if errT != nil {
		verifkit.Class("decode-rejected")
		return
	}
	generated := false
	ut, ug := e.units(resT), e.units(resG)
	if c02Accepted(ut) != c02Accepted(ug) {
		t.Fatalf("VERIF-FAIL class=C02/%s write accept mismatch payload=%s typed=%v generic=%v meta=%+v", c02RootCause(m, data), hx, c02Accepted(ut), c02Accepted(ug), *m)
	}
	if d := c02CmpUnits(ut, ug, br, &generated); d != "" {
		t.Fatalf("VERIF-FAIL class=C02/%s payload=%s: %s meta=%+v", c02RootCause(m, data), hx, d, *m)
	}
	if !c02Accepted(ut) {
		verifkit.Class("write-rejected")
		return
	}
	verifkit.Class("accepted")
	if hit {
		verifkit.Class("accepted-typed-hit")
	}
	if doFlush && c02Flushable(ut) && c02Flushable(ug) {
		var twin []byte
		twinFirst := false
		if rapid.IntRange(0, 2).Draw(t, "twin") != 2 {
			twin = c02GenTwin(t, m)
			if ok, gen := e.twinUsable(t, twin); !ok {
				twin = nil
			} else if gen {
				generated = true // the twin's timestamps are server-generated too
			}
			twinFirst = rapid.Bool().Draw(t, "twinfirst")
		}
		e.flushCompare(t, data, generated, twin, twinFirst)
	}
}

// ---- known-finding reproductions

func TestVerifKF_C02_skipped_value_undecodable(t *testing.T) {
	// {"m":"cpu","columns":{"a":[0]},"t":fixext1(type 5, 0x01)}
	data, _ := hex.DecodeString("83a16da3637075a7636f6c756d6e7381a1619100a174d40501")
	dT, dG := NewMessagePackDecoder(zerolog.Nop()), NewMessagePackDecoder(zerolog.Nop())
	dT.SetTypedDecodeEnabled(true)
	_, errT := dT.Decode(data)
	_, errG := dG.Decode(data)
	verifkit.KnownFinding(kfC02SkippedValue, errT == nil && errG != nil,
		fmt.Sprintf("typed on: err=%v; typed off: err=%v", errT, errG))
}

func TestVerifKF_C02_duplicate_column_nonarray(t *testing.T) {
	// {"m":"cpu","columns":{"time":[1700000000],"a":[1],"a":5}}
	data, _ := hex.DecodeString("82a16da3637075a7636f6c756d6e7383a474696d6591ce6553f100a1619101a16105")
	dT, dG := NewMessagePackDecoder(zerolog.Nop()), NewMessagePackDecoder(zerolog.Nop())
	dT.SetTypedDecodeEnabled(true)
	rT, errT := dT.Decode(data)
	rG, errG := dG.Decode(data)
	rep := false
	what := fmt.Sprintf("errT=%v errG=%v", errT, errG)
	if errT == nil && errG == nil {
		lt, lg := rT.([]interface{}), rG.([]interface{})
		if len(lt) == 1 && len(lg) == 1 {
			tr, ok1 := lt[0].(*TypedColumnarRecord)
			gr, ok2 := lg[0].(*models.ColumnarRecord)
			if ok1 && ok2 {
				_, tHas := tr.Batch.Data["a"]
				_, gHas := gr.Columns["a"]
				rep = tHas && !gHas
				what = fmt.Sprintf("typed on: column a stored=%v; typed off: column a stored=%v", tHas, gHas)
			}
		}
	}
	verifkit.KnownFinding(kfC02DupColNonArray, rep, what)
}

func TestVerifC02_Differential(t *testing.T) {
	e := newC02Env(t)
	rapid.Check(t, func(t *rapid.T) {
		exDup, exExt := verifkit.Excluded(kfC02DupColNonArray), verifkit.Excluded(kfC02SkippedValue)
		data, m := c02GenPayload(t, exDup, exExt)
		pct := verifkit.Scale(8, 20)
		if v := os.Getenv("VERIF_C02_FLUSHPCT"); v != "" {
			fmt.Sscan(v, &pct)
		}
		doFlush := rapid.IntRange(0, 99).Draw(t, "flush") < pct
		e.check(t, data, m, doFlush)
	})
}
