//go:build verif

package ingest

import (
	"fmt"
	"math"
	"strings"
	"testing"
	"time"

	"github.com/basekick-labs/arc/internal/verifkit"
	"github.com/basekick-labs/arc/internal/verifkit/lpgen"
	"github.com/basekick-labs/arc/pkg/models"
	"pgregory.net/rapid"
)

// C01 layer 1: LineProtocolParser.ParseBatchWithPrecision against the model the
// batch was encoded from (kit/lpgen: spec-following encoder).

// Known-finding ids; each has a generator exclusion that is on only while the
// finding is listed as open.
const (
	kfC01EscapedEqKey = "C01-escaped-eq-in-key"
	kfC01BareQuote    = "C01-bare-quote-outside-string"
	kfC01StrBackslash = "C01-string-backslash-delim"
)

func c01Opts() lpgen.Opts {
	return lpgen.Opts{
		NoEscapedEqKey:     verifkit.Excluded(kfC01EscapedEqKey),
		NoBareQuote:        verifkit.Excluded(kfC01BareQuote),
		NoLenientBackslash: verifkit.Excluded(kfC01StrBackslash),
	}
}

func c01CountExclusions(o lpgen.Opts) {
	if o.NoEscapedEqKey {
		verifkit.CountExcluded(kfC01EscapedEqKey)
	}
	if o.NoBareQuote {
		verifkit.CountExcluded(kfC01BareQuote)
	}
	if o.NoLenientBackslash {
		verifkit.CountExcluded(kfC01StrBackslash)
	}
}

// c01RootCause names the most specific suspicious shape a failing point has, so
// failures are keyed by root cause rather than by symptom.
func c01RootCause(p *lpgen.Point) string {
	switch {
	case p.HasFeat("esc-eq-key"):
		return "escaped-eq-in-key"
	case p.HasFeat("bare-quote"):
		return "bare-quote-outside-string"
	case p.HasFeat("str-lenient-backslash-delim"):
		return "string-backslash-delim"
	default:
		return "other"
	}
}

// c01ComparePoint checks one parsed record against its model point. It returns
// "" when they agree.
func c01ComparePoint(p *lpgen.Point, r *models.Record, precision string, before, after time.Time) string {
	if r.Measurement != p.Meas {
		return fmt.Sprintf("measurement: got %q want %q", r.Measurement, p.Meas)
	}
	if len(r.Tags) != len(p.Tags) {
		return fmt.Sprintf("tags: got %q want %v", r.Tags, p.Tags)
	}
	for _, tg := range p.Tags {
		if v, ok := r.Tags[tg.K]; !ok || v != tg.V {
			return fmt.Sprintf("tag %q: got %q (present=%v) want %q; all tags %q", tg.K, v, ok, tg.V, r.Tags)
		}
	}
	if len(r.Fields) != len(p.Fields) {
		return fmt.Sprintf("fields: got %#v want %d fields", r.Fields, len(p.Fields))
	}
	for _, f := range p.Fields {
		got, ok := r.Fields[f.Key]
		if !ok {
			return fmt.Sprintf("field %q missing; got %#v", f.Key, r.Fields)
		}
		okv := false
		switch f.Kind {
		case lpgen.Float:
			g, isT := got.(float64)
			okv = isT && math.Float64bits(g) == math.Float64bits(f.F)
		case lpgen.Int:
			g, isT := got.(int64)
			okv = isT && g == f.I
		case lpgen.Uint:
			g, isT := got.(uint64)
			okv = isT && g == f.U
		case lpgen.String:
			g, isT := got.(string)
			okv = isT && g == f.S
		case lpgen.Bool:
			g, isT := got.(bool)
			okv = isT && g == f.B
		}
		if !okv {
			return fmt.Sprintf("field %q (written %s): got %T(%#v) want %s", f.Key, f.Text, got, got, f.Describe())
		}
	}
	if !p.HasTS {
		// server clock: only require a time inside a generous bracket around the call
		lo, hi := before.Add(-time.Hour).UnixMicro(), after.Add(time.Hour).UnixMicro()
		if r.Timestamp < lo || r.Timestamp > hi {
			return fmt.Sprintf("timestamp of a point without one: got %d, not near the current time", r.Timestamp)
		}
		return ""
	}
	cands, any := lpgen.ExpectMicros(p.TS, precision)
	if any {
		return ""
	}
	for _, c := range cands {
		if r.Timestamp == c {
			return ""
		}
	}
	return fmt.Sprintf("timestamp %d precision %q: got %d us want one of %v", p.TS, precision, r.Timestamp, cands)
}

func c01CheckBatch(t interface {
	Fatalf(string, ...any)
}, b *lpgen.Batch) {
	parser := NewLineProtocolParser()
	before := time.Now()
	recs := parser.ParseBatchWithPrecision([]byte(b.Body), b.Precision)
	after := time.Now()
	if len(recs) != len(b.Points) {
		// find the first point whose record is missing/misaligned to name the root cause
		cause, line := "other", ""
		for i := range b.Points {
			p := &b.Points[i]
			one := parser.ParseBatchWithPrecision([]byte(p.Line), b.Precision)
			if len(one) != 1 {
				cause, line = c01RootCause(p), p.Line
				break
			}
		}
		t.Fatalf("VERIF-FAIL class=C01/%s valid point dropped or split: parsed %d records from %d points; first bad line %q; body %q",
			cause, len(recs), len(b.Points), line, b.Body)
	}
	for i := range b.Points {
		p := &b.Points[i]
		if d := c01ComparePoint(p, recs[i], b.Precision, before, after); d != "" {
			t.Fatalf("VERIF-FAIL class=C01/%s point %d line %q precision %q: %s", c01RootCause(p), i, p.Line, b.Precision, d)
		}
	}
}

func c01Count(b *lpgen.Batch, layer string) {
	verifkit.Eval()
	verifkit.ClassN(layer+"-points", len(b.Points))
	nt := false
	for i := range b.Points {
		p := &b.Points[i]
		for _, f := range p.Feats {
			verifkit.Class("feat:" + f)
		}
		if p.NonTrivial() {
			nt = true
			verifkit.Class(layer + "-nontrivial-points")
		}
	}
	verifkit.Class("precision:" + b.Precision)
	if nt {
		verifkit.Class(layer + "-nontrivial-batches")
		verifkit.NonTrivial(layer + ":" + b.Precision + ":" + b.Body)
		if verifkit.SampleCount() < 3 && len(b.Points) <= 3 {
			verifkit.Sample(map[string]any{"layer": layer, "precision": b.Precision, "body": b.Body, "points": b.Points})
		}
	}
}

func TestVerifC01_Parse(t *testing.T) {
	rapid.Check(t, func(t *rapid.T) {
		o := c01Opts()
		b := lpgen.GenBatch(t, o)
		c01CountExclusions(o)
		c01Count(b, "L1")
		c01CheckBatch(t, b)
	})
}

// TestVerifC01_EscapeGrid enumerates, for every syntactic position, every
// escapable character at the start / middle / end of the name or value, alone
// and doubled, with and without tags and timestamp. Deterministic.
func TestVerifC01_EscapeGrid(t *testing.T) {
	o := c01Opts()
	specials := []string{",", " ", "=", "\"", "\\"}
	type slot struct{ meas, tagk, tagv, fieldk, str string }
	n := 0
	for _, pos := range []string{"meas", "tagk", "tagv", "fieldk", "str"} {
		for _, sp := range specials {
			for _, shape := range []string{"%sab", "a%sb", "ab%s", "a%[1]s%[1]sb", "%[1]s"} {
				for _, withTS := range []bool{false, true} {
					for _, second := range []bool{false, true} {
						v := fmt.Sprintf(shape, sp)
						if pos != "str" {
							if sp == "\\" {
								// literal backslash only before an ordinary character
								if shape != "a%sb" && shape != "%sab" {
									continue
								}
							}
							if sp == "\"" && o.NoBareQuote {
								continue
							}
							if sp == "=" && o.NoEscapedEqKey && (pos == "tagk" || pos == "fieldk") {
								continue
							}
						}
						s := slot{"m", "tk", "tv", "fk", "sv"}
						switch pos {
						case "meas":
							s.meas = v
						case "tagk":
							s.tagk = v
						case "tagv":
							s.tagv = v
						case "fieldk":
							s.fieldk = v
						case "str":
							s.str = v
						}
						p := lpgen.Point{Meas: s.meas, Tags: []lpgen.Tag{{K: s.tagk, V: s.tagv}},
							Fields: []lpgen.Field{{Key: s.fieldk, Kind: lpgen.String, S: s.str}}, HasTS: withTS, TS: 1700000000000000000}
						if second {
							p.Tags = append(p.Tags, lpgen.Tag{K: "z", V: "1"})
							p.Fields = append(p.Fields, lpgen.Field{Key: "n", Kind: lpgen.Int, I: 7})
						}
						lpgen.EncodePoint(&p)
						b := &lpgen.Batch{Points: []lpgen.Point{p}, Body: p.Line + "\n", Precision: "ns"}
						c01Count(b, "L1grid")
						c01CheckBatch(t, b)
						n++
					}
				}
			}
		}
	}
	verifkit.Note("escape_grid_cases", n)
	if n == 0 {
		t.Fatalf("escape grid generated nothing")
	}
}

// ---- known-finding reproductions (never fail; report whether they reproduce)

func c01Repro(line string, wantMeas string, wantTags map[string]string, wantFields map[string]interface{}) (bool, string) {
	recs := NewLineProtocolParser().ParseBatchWithPrecision([]byte(line), "ns")
	if len(recs) != 1 {
		return true, fmt.Sprintf("%d records", len(recs))
	}
	r := recs[0]
	got := fmt.Sprintf("m=%q tags=%q fields=%#v", r.Measurement, r.Tags, r.Fields)
	if r.Measurement != wantMeas || len(r.Tags) != len(wantTags) || len(r.Fields) != len(wantFields) {
		return true, got
	}
	for k, v := range wantTags {
		if r.Tags[k] != v {
			return true, got
		}
	}
	for k, v := range wantFields {
		if r.Fields[k] != v {
			return true, got
		}
	}
	return false, got
}

func TestVerifKF_C01_escaped_eq_in_key(t *testing.T) {
	rep1, got1 := c01Repro(`m,a\=b=v f=1i 1`, "m", map[string]string{"a=b": "v"}, map[string]interface{}{"f": int64(1)})
	rep2, got2 := c01Repro(`m a\=b=1i 1`, "m", map[string]string{}, map[string]interface{}{"a=b": int64(1)})
	verifkit.KnownFinding(kfC01EscapedEqKey, rep1 && rep2,
		"tag key / field key containing an escaped '=' is cut at the first raw '=': "+got1+" ; "+got2)
}

func TestVerifKF_C01_bare_quote(t *testing.T) {
	rep1, got1 := c01Repro(`m,t=a"b f=1i 1`, "m", map[string]string{"t": `a"b`}, map[string]interface{}{"f": int64(1)})
	rep2, got2 := c01Repro(`m a"b=1i,c=2i 1`, "m", map[string]string{}, map[string]interface{}{`a"b`: int64(1), "c": int64(2)})
	verifkit.KnownFinding(kfC01BareQuote, rep1 && rep2,
		"an unescaped double quote in a tag value / field key (valid, not escapable there) toggles quote state in splitOnDelimiter: "+got1+" ; "+got2)
}

func TestVerifKF_C01_string_backslash_delim(t *testing.T) {
	rep, got := c01Repro(`m f="a\,b" 1`, "m", map[string]string{}, map[string]interface{}{"f": `a\,b`})
	verifkit.KnownFinding(kfC01StrBackslash, rep,
		`inside a quoted string field only \" and \\ are escapes; "a\,b" denotes a\,b but the parser also unescapes \, "\ " and \=: `+got)
}

var _ = strings.Contains
