//go:build verif

package ingest

// C03 - Accepted rows are flushed exactly once into their hour partition.
//
// Stateful property test over a real ArrowBuffer on a real LocalBackend:
// generated rounds of concurrent writers (generic columnar, typed columnar and
// msgpack-style Write entry points) interleaved with FlushAll / aged flushes,
// followed by quiesce + Close. Oracle: the union of all Parquet files equals the
// multiset of accepted rows (exactly once, values and NULLs preserved), every
// row lives in the db/measurement/YYYY/MM/DD/HH directory of floor(time/1h), and
// every file is in non-decreasing time order.

import (
	"context"
	"database/sql"
	"fmt"
	"math"
	mrand "math/rand"
	"os"
	"path/filepath"
	"sort"
	"strconv"
	"strings"
	"sync"
	"testing"
	"time"

	"github.com/basekick-labs/arc/internal/config"
	"github.com/basekick-labs/arc/internal/storage"
	"github.com/basekick-labs/arc/internal/verifkit"
	"github.com/basekick-labs/arc/internal/verifkit/duck"
	"github.com/basekick-labs/arc/pkg/models"
	"github.com/rs/zerolog"
	"pgregory.net/rapid"
)

// Known finding: Close() cancels the flush workers and drops tasks that are still
// queued ("dropped in favor of WAL replay"); with no WAL the acknowledged rows are
// lost. While the finding is open the generator always drains the queue before
// Close; the reproduction lives in TestVerifKF_C03_close_drops_queued.
const kfC03CloseDropsQueued = "C03-close-drops-queued"

// Two flushes of one measurement-hour that read the same clock value get the same
// file name (generateStoragePath names files by wall-clock nanosecond only) and the
// second overwrites the first. With a real clock this needs the same nanosecond,
// so it shows up once in tens of thousands of concurrent histories.
const kfC03FileNameCollision = "C03-file-name-collision"

const c03MicroPerHour = int64(3600_000_000)

var (
	c03DuckOnce sync.Once
	c03DuckDB   *sql.DB
	c03DuckErr  error
)

// c03Light is set for the -race part (see checks/C03.json "env").
func c03Light() bool { return raceEnabledC03 }

func c03Duck() (*sql.DB, error) {
	c03DuckOnce.Do(func() {
		c03DuckDB, c03DuckErr = duck.Open()
		if c03DuckErr == nil {
			// tiny files: one thread is plenty and avoids a worker pool per core
			_, c03DuckErr = c03DuckDB.Exec("SET threads=1")
		}
	})
	return c03DuckDB, c03DuckErr
}

// ---------------------------------------------------------------- case model

type c03Col struct {
	Type  string   // i64 | f64 | str | bool | null | dec
	Canon []string // canonical expected cell per row (duck.Null for NULL)
	vals  []interface{}
}

type c03Batch struct {
	API   string // generic | typed | write
	DB    string
	M     string
	N     int
	Times []int64
	Cols  map[string]*c03Col
	Err   string `json:",omitempty"`
}

type c03Op struct {
	Kind  string // write | flushAll | agedFlush
	Batch *c03Batch `json:",omitempty"`
}

type c03Round struct {
	Ops []c03Op
}

type c03Config struct {
	MaxBufferSize, MaxBufferAgeMS, FlushWorkers, ShardCount int
	Compression, DataPageVersion                            string
	UseDictionary, NumericDictionary, WriteStatistics       bool
	Decimal                                                 bool
	PerMeasurementDecimal                                   bool // with Decimal: a different DecimalSpec per measurement
}

type c03Case struct {
	Cfg    c03Config
	Rounds []c03Round
	Final  string // flushAll+close | close | close-no-quiesce
}

var c03ColPool = []string{"a", "b", "c", "s", "flag", "dec"}

var c03Strings = []string{"", "a", "b", "x y", "ü", "日本", "NULL", "0", "a,b", "\"q\"", "long-string-value-0123456789"}

func c03GenInt(t *rapid.T, label string) int64 {
	switch rapid.IntRange(0, 5).Draw(t, label+"k") {
	case 0:
		return rapid.SampledFrom([]int64{0, 1, -1, math.MaxInt64, math.MinInt64}).Draw(t, label)
	case 1:
		return rapid.Int64().Draw(t, label)
	default:
		return rapid.Int64Range(-100, 100).Draw(t, label)
	}
}

func c03GenFloat(t *rapid.T, label string) float64 {
	switch rapid.IntRange(0, 5).Draw(t, label+"k") {
	case 0:
		return rapid.SampledFrom([]float64{0, math.Copysign(0, -1), math.NaN(), math.Inf(1), math.Inf(-1),
			math.MaxFloat64, math.SmallestNonzeroFloat64, 1e-7}).Draw(t, label)
	case 1:
		return rapid.Float64().Draw(t, label)
	default:
		return float64(rapid.IntRange(-1000, 1000).Draw(t, label)) / 8
	}
}

// c03DecString renders units/10^scale with exactly scale fractional digits.
func c03DecString(units int64, scale int) string {
	neg := units < 0
	u := units
	if neg {
		u = -u
	}
	p := int64(1)
	for i := 0; i < scale; i++ {
		p *= 10
	}
	s := fmt.Sprintf("%d.%0*d", u/p, scale, u%p)
	if neg {
		s = "-" + s
	}
	return s
}

// c03DecScale is the configured scale of column "dec" for a measurement.
func c03DecScale(cfg c03Config, m string) int {
	if cfg.PerMeasurementDecimal {
		switch m {
		case "m0":
			return 4 // m0:dec=18,4
		case "m1":
			return 2 // m1:dec=12,2
		default:
			return 1 // default dec=10,1
		}
	}
	return 4
}

func c03Pow10(n int) int64 {
	p := int64(1)
	for i := 0; i < n; i++ {
		p *= 10
	}
	return p
}

// c03GenTimes draws n microsecond timestamps spread over <= 5 hours around a base.
func c03GenTimes(t *rapid.T, n int, bases []int64) ([]int64, bool, bool) {
	base := rapid.SampledFrom(bases).Draw(t, "base")
	spanHours := rapid.IntRange(0, 4).Draw(t, "spanHours")
	times := make([]int64, n)
	order := rapid.IntRange(0, 2).Draw(t, "order") // 0 random, 1 ascending, 2 descending
	for i := range times {
		var off int64
		switch rapid.IntRange(0, 4).Draw(t, "offk") {
		case 0: // exact hour boundary and its neighbours
			h := int64(rapid.IntRange(0, spanHours+1).Draw(t, "bh"))
			off = h*c03MicroPerHour + int64(rapid.IntRange(-1, 1).Draw(t, "bd"))
		default:
			off = rapid.Int64Range(0, int64(spanHours+1)*c03MicroPerHour-1).Draw(t, "off")
		}
		times[i] = base + off
	}
	switch order {
	case 1:
		sort.Slice(times, func(i, j int) bool { return times[i] < times[j] })
	case 2:
		sort.Slice(times, func(i, j int) bool { return times[i] > times[j] })
	}
	hours := map[int64]bool{}
	neg := false
	for _, x := range times {
		hours[c03FloorHour(x)] = true
		if x < 0 {
			neg = true
		}
	}
	return times, len(hours) > 1, neg
}

func c03FloorHour(us int64) int64 {
	h := us / c03MicroPerHour
	if us%c03MicroPerHour < 0 {
		h--
	}
	return h
}

func c03GenBatch(t *rapid.T, cfg c03Config, bases []int64, rid *int64) (*c03Batch, bool, bool) {
	b := &c03Batch{
		API:  rapid.SampledFrom([]string{"generic", "generic", "typed", "write"}).Draw(t, "api"),
		DB:   rapid.SampledFrom([]string{"db0", "db0", "db1"}).Draw(t, "db"),
		M:    rapid.SampledFrom([]string{"m0", "m0", "m1", "m2"}).Draw(t, "m"),
		N:    rapid.IntRange(1, 40).Draw(t, "n"),
		Cols: map[string]*c03Col{},
	}
	if rapid.IntRange(0, 3).Draw(t, "small") == 0 {
		b.N = rapid.IntRange(1, 3).Draw(t, "n2")
	}
	var multi, neg bool
	b.Times, multi, neg = c03GenTimes(t, b.N, bases)

	// row id column (present in most batches) makes rows distinguishable
	if rapid.IntRange(0, 4).Draw(t, "hasRid") != 0 {
		c := &c03Col{Type: "i64", Canon: make([]string, b.N), vals: make([]interface{}, b.N)}
		for i := 0; i < b.N; i++ {
			*rid++
			c.vals[i] = *rid
			c.Canon[i] = duck.Canon(*rid)
		}
		b.Cols["rid"] = c
	}
	ncols := rapid.IntRange(0, len(c03ColPool)).Draw(t, "ncols")
	perm := rapid.Permutation(c03ColPool).Draw(t, "colperm")
	for _, name := range perm[:ncols] {
		typ := rapid.SampledFrom([]string{"i64", "f64", "str", "bool", "null"}).Draw(t, "type:"+name)
		decimal := cfg.Decimal && name == "dec" && b.API != "typed"
		if decimal && typ != "null" {
			typ = "dec"
		}
		nullMode := rapid.IntRange(0, 3).Draw(t, "nullmode:"+name) // 0: none, 1: sparse, 2: dense, 3: none
		c := &c03Col{Type: typ, Canon: make([]string, b.N), vals: make([]interface{}, b.N)}
		intKind := rapid.IntRange(0, 3).Draw(t, "intkind:"+name)
		f32 := rapid.IntRange(0, 3).Draw(t, "f32:"+name) == 0
		for i := 0; i < b.N; i++ {
			isNull := typ == "null"
			switch nullMode {
			case 1:
				isNull = isNull || rapid.IntRange(0, 5).Draw(t, "nl") == 0
			case 2:
				isNull = isNull || rapid.IntRange(0, 1).Draw(t, "nl") == 0
			}
			if isNull {
				c.Canon[i] = duck.Null
				continue
			}
			switch typ {
			case "i64":
				v := c03GenInt(t, "iv")
				switch {
				case b.API == "typed" || intKind == 0:
					c.vals[i] = v
				case intKind == 1:
					v = int64(int32(v))
					c.vals[i] = int32(v)
				case intKind == 2:
					v = int64(uint16(v))
					c.vals[i] = uint16(v)
				default:
					c.vals[i] = int(v)
				}
				c.Canon[i] = duck.Canon(v)
			case "f64":
				v := c03GenFloat(t, "fv")
				if f32 && b.API != "typed" {
					v32 := float32(v)
					v = float64(v32)
					c.vals[i] = v32
				} else {
					c.vals[i] = v
				}
				c.Canon[i] = duck.Canon(v)
			case "str":
				v := rapid.SampledFrom(c03Strings).Draw(t, "sv")
				c.vals[i] = v
				c.Canon[i] = duck.Canon(v)
			case "bool":
				v := rapid.Bool().Draw(t, "bv")
				c.vals[i] = v
				c.Canon[i] = duck.Canon(v)
			case "dec":
				units := rapid.Int64Range(-1_000_000_000, 1_000_000_000).Draw(t, "dv")
				scale := c03DecScale(cfg, b.M)
				if rapid.Bool().Draw(t, "decAsInt") {
					whole := units / c03Pow10(scale)
					c.vals[i] = whole
					c.Canon[i] = "d:" + c03DecString(whole*c03Pow10(scale), scale)
				} else {
					c.vals[i] = c03DecString(units, scale)
					c.Canon[i] = "d:" + c03DecString(units, scale)
				}
			}
		}
		// a column whose every cell is NULL is a "null" column for the writer
		all := true
		for _, s := range c.Canon {
			if s != duck.Null {
				all = false
			}
		}
		if all {
			c.Type = "null"
		}
		b.Cols[name] = c
	}
	return b, multi, neg
}

// signature mirrors what distinguishes two batches' schemas (names + types).
func (b *c03Batch) signature() string {
	ks := make([]string, 0, len(b.Cols))
	for k, c := range b.Cols {
		ks = append(ks, k+":"+c.Type)
	}
	sort.Strings(ks)
	return strings.Join(ks, ",")
}

func c03GenCase(t *rapid.T) (*c03Case, bool) {
	c := &c03Case{}
	c.Cfg = c03Config{
		MaxBufferSize:     rapid.IntRange(1, 64).Draw(t, "maxBufferSize"),
		MaxBufferAgeMS:    rapid.SampledFrom([]int{3_600_000, 3_600_000, 3_600_000, 1, 5, 25}).Draw(t, "maxAgeMS"),
		FlushWorkers:      rapid.IntRange(1, 4).Draw(t, "workers"),
		ShardCount:        rapid.IntRange(1, 4).Draw(t, "shards"),
		Compression:       rapid.SampledFrom([]string{"snappy", "zstd", "gzip", ""}).Draw(t, "compression"),
		DataPageVersion:   rapid.SampledFrom([]string{"1.0", "2.0"}).Draw(t, "dpv"),
		UseDictionary:     rapid.Bool().Draw(t, "dict"),
		NumericDictionary: rapid.Bool().Draw(t, "numdict"),
		WriteStatistics:   rapid.Bool().Draw(t, "stats"),
		Decimal:           rapid.IntRange(0, 3).Draw(t, "decimal") == 0,
	}
	c.Cfg.PerMeasurementDecimal = c.Cfg.Decimal && rapid.Bool().Draw(t, "perMeasurementDecimal")
	if c03Light() {
		// race-detector part: the zstd/gzip encoders allocate MBs per file, which the
		// race runtime makes ~20x slower; the codec is irrelevant to interleavings
		c.Cfg.Compression = "snappy"
	}
	// time bases for this history: epoch straddle, pre-1970, 1900, modern, far future
	allBases := []int64{
		-2 * c03MicroPerHour, -c03MicroPerHour/2 - 7, -86_400_000_000 * 365,
		-2_208_988_800_000_000 + 1_234_567, 1_700_000_000_000_000, 1_700_000_000_000_000 + 3*c03MicroPerHour,
		7_258_118_400_000_000 + 999_999,
	}
	nb := rapid.IntRange(1, 3).Draw(t, "nbases")
	bases := rapid.Permutation(allBases).Draw(t, "bases")[:nb]

	var rid int64
	nontrivial := false
	lastSig := map[string]string{}
	nRounds := rapid.IntRange(1, 12).Draw(t, "rounds")
	actions := 0
	for r := 0; r < nRounds && actions < 25; r++ {
		var round c03Round
		writers := rapid.IntRange(1, 8).Draw(t, "writers")
		schemaChange, multiHour, negative := false, false, false
		nw := 0
		for w := 0; w < writers && actions < 25; w++ {
			switch rapid.IntRange(0, 11).Draw(t, "opk") {
			case 0:
				round.Ops = append(round.Ops, c03Op{Kind: "flushAll"})
			case 1:
				round.Ops = append(round.Ops, c03Op{Kind: "agedFlush"})
			default:
				b, multi, neg := c03GenBatch(t, c.Cfg, bases, &rid)
				key := b.DB + "/" + b.M
				sig := b.signature()
				if prev, ok := lastSig[key]; ok && prev != sig {
					schemaChange = true
				}
				lastSig[key] = sig
				multiHour = multiHour || multi
				negative = negative || neg
				nw++
				round.Ops = append(round.Ops, c03Op{Kind: "write", Batch: b})
			}
			actions++
		}
		if nw >= 2 && (schemaChange || multiHour || negative) {
			nontrivial = true
		}
		if schemaChange {
			verifkit.Class("round-schema-change")
		}
		if multiHour {
			verifkit.Class("round-multi-hour")
		}
		if negative {
			verifkit.Class("round-negative-time")
		}
		c.Rounds = append(c.Rounds, round)
	}
	finals := []string{"flushAll+close", "flushAll+close", "close"}
	if verifkit.Excluded(kfC03CloseDropsQueued) {
		verifkit.CountExcluded(kfC03CloseDropsQueued)
	} else {
		finals = append(finals, "close-no-quiesce")
	}
	c.Final = rapid.SampledFrom(finals).Draw(t, "final")
	return c, nontrivial
}

// ---------------------------------------------------------------- execution

// c03WatchBackend records every path written so that two flushes producing the
// same file name (generateStoragePath embeds wall-clock nanoseconds) are
// diagnosed as such instead of showing up as an unexplained missing row.
type c03WatchBackend struct {
	storage.Backend
	mu    sync.Mutex
	seen  map[string]int
	dupes []string
}

func (w *c03WatchBackend) Write(ctx context.Context, path string, data []byte) error {
	w.mu.Lock()
	w.seen[path]++
	if w.seen[path] > 1 {
		w.dupes = append(w.dupes, path)
	}
	w.mu.Unlock()
	return w.Backend.Write(ctx, path, data)
}

var c03LastWatch *c03WatchBackend

func c03NewBuffer(cfg c03Config, root string) (*ArrowBuffer, error) {
	lb, err := storage.NewLocalBackend(root, zerolog.Nop())
	if err != nil {
		return nil, err
	}
	be := &c03WatchBackend{Backend: lb, seen: map[string]int{}}
	c03LastWatch = be
	ic := &config.IngestConfig{
		MaxBufferSize:     cfg.MaxBufferSize,
		MaxBufferAgeMS:    cfg.MaxBufferAgeMS,
		Compression:       cfg.Compression,
		UseDictionary:     cfg.UseDictionary,
		NumericDictionary: cfg.NumericDictionary,
		WriteStatistics:   cfg.WriteStatistics,
		DataPageVersion:   cfg.DataPageVersion,
		FlushWorkers:      cfg.FlushWorkers,
		FlushQueueSize:    4096, // never overflows here; overflow schedules belong to C07
		ShardCount:        cfg.ShardCount,
	}
	if cfg.Decimal {
		ic.DefaultDecimalColumns = "dec=18,4"
		if cfg.PerMeasurementDecimal {
			ic.DecimalColumns = []string{"m0:dec=18,4", "m1:dec=12,2"}
			ic.DefaultDecimalColumns = "dec=10,1"
		}
	}
	return NewArrowBuffer(ic, be, zerolog.Nop()), nil
}

func (b *c03Batch) genericColumns() map[string][]interface{} {
	cols := make(map[string][]interface{}, len(b.Cols)+1)
	ts := make([]interface{}, b.N)
	for i, x := range b.Times {
		ts[i] = x
	}
	cols["time"] = ts
	for name, c := range b.Cols {
		v := make([]interface{}, b.N)
		copy(v, c.vals)
		cols[name] = v
	}
	return cols
}

func (b *c03Batch) typedBatch() *TypedColumnBatch {
	data := map[string]interface{}{}
	validity := map[string][]bool{}
	ts := make([]int64, b.N)
	copy(ts, b.Times)
	data["time"] = ts
	for name, c := range b.Cols {
		valid := make([]bool, b.N)
		hasNull := false
		for i := range valid {
			valid[i] = c.Canon[i] != duck.Null
			hasNull = hasNull || !valid[i]
		}
		switch c.Type {
		case "i64":
			a := make([]int64, b.N)
			for i, v := range c.vals {
				if v != nil {
					a[i] = v.(int64)
				}
			}
			data[name] = a
		case "f64":
			a := make([]float64, b.N)
			for i, v := range c.vals {
				if v != nil {
					a[i] = v.(float64)
				}
			}
			data[name] = a
		case "bool":
			a := make([]bool, b.N)
			for i, v := range c.vals {
				if v != nil {
					a[i] = v.(bool)
				}
			}
			data[name] = a
		default: // str, null
			a := make([]string, b.N)
			for i, v := range c.vals {
				if v != nil {
					a[i] = v.(string)
				}
			}
			data[name] = a
		}
		if hasNull {
			validity[name] = valid
		}
	}
	return &TypedColumnBatch{Data: data, Validity: validity}
}

func c03DoWrite(buf *ArrowBuffer, b *c03Batch) error {
	ctx := context.Background()
	switch b.API {
	case "typed":
		return buf.WriteTypedColumnarDirect(ctx, b.DB, b.M, b.typedBatch(), b.N)
	case "write":
		rec := &models.ColumnarRecord{Measurement: b.M, Columnar: true, Columns: b.genericColumns(), TimeUnit: "us"}
		return buf.Write(ctx, b.DB, []interface{}{rec})
	default:
		return buf.WriteColumnarDirect(ctx, b.DB, b.M, b.genericColumns())
	}
}

func c03AgedFlush(buf *ArrowBuffer) {
	old := time.Now().UTC().Add(-2*buf.maxBufferAge - time.Hour)
	for _, sh := range buf.shards {
		sh.mu.Lock()
		for k := range sh.bufferStartTimes {
			sh.bufferStartTimes[k] = old
		}
		sh.mu.Unlock()
	}
	buf.flushAgedBuffers()
}

func c03Buffered(buf *ArrowBuffer) int64 {
	var n int64
	for _, sh := range buf.shards {
		sh.mu.RLock()
		for _, c := range sh.bufferRecordCounts {
			n += int64(c)
		}
		sh.mu.RUnlock()
	}
	return n
}

// c03Quiesce waits until every accepted row is either written or still sitting
// in a shard buffer and the flush queue is empty. It is a liveness aid, not an
// oracle: when nothing moves for a long time the caller carries on and the
// file-vs-model comparison decides.
func c03Quiesce(buf *ArrowBuffer, accepted int64) bool {
	last := int64(-1)
	stall := 0
	for {
		w, q := buf.totalRecordsWritten.Load(), buf.queueDepth.Load()
		if q == 0 && w+c03Buffered(buf) >= accepted {
			return true
		}
		if buf.totalErrors.Load() > 0 {
			return true // a flush failed: rows are gone, let the oracle report it
		}
		if sig := w*1_000_003 + q; sig != last {
			last, stall = sig, 0
		} else {
			stall++
		}
		if stall > 30_000 { // ~30 s without any movement
			return false
		}
		time.Sleep(time.Millisecond)
	}
}

type c03Outcome struct {
	accepted     []*c03Batch
	rejected     []*c03Batch
	acceptedRows int64
}

func c03Run(c *c03Case, root string) (*c03Outcome, error) {
	buf, err := c03NewBuffer(c.Cfg, root)
	if err != nil {
		return nil, err
	}
	out := &c03Outcome{}
	var mu sync.Mutex
	for _, round := range c.Rounds {
		start := make(chan struct{})
		var wg sync.WaitGroup
		for i := range round.Ops {
			op := round.Ops[i]
			wg.Add(1)
			go func() {
				defer wg.Done()
				<-start
				switch op.Kind {
				case "flushAll":
					_ = buf.FlushAll(context.Background())
				case "agedFlush":
					c03AgedFlush(buf)
				default:
					err := c03DoWrite(buf, op.Batch)
					mu.Lock()
					if err != nil {
						op.Batch.Err = err.Error()
						out.rejected = append(out.rejected, op.Batch)
					} else {
						out.accepted = append(out.accepted, op.Batch)
						out.acceptedRows += int64(op.Batch.N)
					}
					mu.Unlock()
				}
			}()
		}
		close(start)
		wg.Wait()
	}
	switch c.Final {
	case "flushAll+close":
		if err := buf.FlushAll(context.Background()); err != nil {
			_ = buf.Close()
			return out, fmt.Errorf("FlushAll: %w", err)
		}
		c03Quiesce(buf, out.acceptedRows)
	case "close":
		c03Quiesce(buf, out.acceptedRows)
	case "close-no-quiesce":
	}
	if err := buf.Close(); err != nil {
		return out, fmt.Errorf("Close: %w", err)
	}
	if n := buf.totalErrors.Load(); n > 0 {
		return out, fmt.Errorf("ArrowBuffer reported %d flush/queue errors on a healthy local backend", n)
	}
	if w := c03LastWatch; w != nil && len(w.dupes) > 0 {
		return out, fmt.Errorf("file-name collision: two flushes wrote the same storage path (the second overwrote the first): %v", w.dupes)
	}
	return out, nil
}

// ---------------------------------------------------------------- oracle

func c03HourDir(us int64) string {
	tm := time.UnixMicro(c03FloorHour(us) * c03MicroPerHour).UTC()
	return fmt.Sprintf("%04d/%02d/%02d/%02d", tm.Year(), int(tm.Month()), tm.Day(), tm.Hour())
}

func c03Model(batches []*c03Batch) duck.Multiset {
	ms := duck.Multiset{}
	for _, b := range batches {
		for i := 0; i < b.N; i++ {
			row := map[string]string{"\x00db": b.DB, "\x00m": b.M, "time": "t:" + strconv.FormatInt(b.Times[i], 10)}
			for name, c := range b.Cols {
				row[name] = c.Canon[i]
			}
			ms[duck.RowKey(row, true)]++
		}
	}
	return ms
}

// c03ReadFile reads one parquet file; decimal columns are rendered as text.
func c03ReadFile(db *sql.DB, path string) (*duck.Table, error) {
	q := "SELECT * FROM read_parquet(" + duck.SQLString(path) + ")"
	tb, err := duck.Query(db, q)
	if err != nil {
		return nil, err
	}
	var repl []string
	for i, typ := range tb.Types {
		if strings.HasPrefix(strings.ToUpper(typ), "DECIMAL") {
			id := `"` + strings.ReplaceAll(tb.Cols[i], `"`, `""`) + `"`
			repl = append(repl, "CAST("+id+" AS VARCHAR) AS "+id)
		}
	}
	if len(repl) == 0 {
		return tb, nil
	}
	verifkit.Class("file-with-decimal-column")
	tb2, err := duck.Query(db, "SELECT * REPLACE ("+strings.Join(repl, ", ")+") FROM read_parquet("+duck.SQLString(path)+")")
	if err != nil {
		return nil, err
	}
	for i, typ := range tb.Types {
		if strings.HasPrefix(strings.ToUpper(typ), "DECIMAL") {
			for _, r := range tb2.Rows {
				if r[i] != duck.Null {
					r[i] = "d:" + strings.TrimPrefix(r[i], "s:")
				}
			}
		}
	}
	return tb2, nil
}

// c03CheckStore returns "" when the files under root are exactly the model.
func c03CheckStore(root string, out *c03Outcome) (class, detail string) {
	db, err := c03Duck()
	if err != nil {
		return "harness", "duckdb: " + err.Error()
	}
	got := duck.Multiset{}
	files := duck.FindParquet(root)
	for _, f := range files {
		rel, _ := filepath.Rel(root, f)
		parts := strings.Split(filepath.ToSlash(rel), "/")
		if len(parts) != 7 {
			return "path-shape", fmt.Sprintf("unexpected storage path %q", rel)
		}
		dir := strings.Join(parts[2:6], "/")
		tb, err := c03ReadFile(db, f)
		if err != nil {
			return "unreadable-file", fmt.Sprintf("%s: %v", rel, err)
		}
		if len(tb.Rows) == 0 {
			return "empty-file", rel
		}
		ti := -1
		for i, cname := range tb.Cols {
			if cname == "time" {
				ti = i
			}
		}
		if ti < 0 {
			return "no-time-column", rel
		}
		prev := int64(math.MinInt64)
		for _, r := range tb.Rows {
			cell := r[ti]
			if !strings.HasPrefix(cell, "t:") {
				return "time-type", fmt.Sprintf("%s: time cell %q", rel, cell)
			}
			us, _ := strconv.ParseInt(cell[2:], 10, 64)
			if want := c03HourDir(us); want != dir {
				return "wrong-hour-partition", fmt.Sprintf("%s: row time %d belongs in %s", rel, us, want)
			}
			if us < prev {
				return "file-not-time-sorted", fmt.Sprintf("%s: %d after %d", rel, us, prev)
			}
			prev = us
		}
		for _, m := range tb.RowMaps() {
			m["\x00db"], m["\x00m"] = parts[0], parts[1]
			got[duck.RowKey(m, true)]++
		}
	}
	want := c03Model(out.accepted)
	if diff := want.Diff(got, 6); len(diff) > 0 {
		class := "rows-differ"
		lost, dup := false, false
		for k, n := range want {
			if got[k] < n {
				lost = true
			}
		}
		for k, n := range got {
			if want[k] < n {
				dup = true
			}
		}
		switch {
		case lost && !dup:
			class = "accepted-rows-missing"
		case dup && !lost:
			class = "rows-duplicated-or-extra"
		}
		return class, fmt.Sprintf("%d files; %s", len(files), strings.Join(diff, "\n  "))
	}
	return "", ""
}

func (c *c03Case) summary(out *c03Outcome) map[string]any {
	nw, nf := 0, 0
	for _, r := range c.Rounds {
		for _, op := range r.Ops {
			if op.Kind == "write" {
				nw++
			} else {
				nf++
			}
		}
	}
	s := map[string]any{"config": c.Cfg, "rounds": len(c.Rounds), "writes": nw, "flush_actions": nf, "final": c.Final}
	if out != nil {
		s["accepted_rows"] = out.acceptedRows
		s["rejected_writes"] = len(out.rejected)
	}
	if len(c.Rounds) > 0 && len(c.Rounds[0].Ops) > 0 && c.Rounds[0].Ops[0].Batch != nil {
		b := c.Rounds[0].Ops[0].Batch
		s["first_batch"] = map[string]any{"api": b.API, "db": b.DB, "m": b.M, "rows": b.N, "schema": b.signature(), "t0": b.Times[0]}
	}
	return s
}

func TestVerifC03_ExactlyOncePerHour(t *testing.T) {
	rapid.Check(t, func(t *rapid.T) {
		c, nontrivial := c03GenCase(t)
		root, err := os.MkdirTemp("", "c03-*")
		if err != nil {
			t.Fatalf("tempdir: %v", err)
		}
		defer os.RemoveAll(root)

		out, runErr := c03Run(c, root)
		verifkit.Eval()
		verifkit.Class("final:" + c.Final)
		if c.Cfg.Decimal {
			verifkit.Class("decimal-config")
		}
		if c.Cfg.MaxBufferAgeMS < 1000 {
			verifkit.Class("live-age-timer")
		}
		if out != nil && len(out.rejected) > 0 {
			verifkit.Class("has-rejected-write")
		}
		if nontrivial {
			verifkit.Class("nontrivial")
			verifkit.NonTrivial(fmt.Sprintf("%+v|%d|%s", c.Cfg, len(c.Rounds), c03Key(c)))
			if verifkit.SampleCount() < 3 {
				verifkit.Sample(c.summary(out))
			}
		}
		if runErr != nil {
			verifkit.WriteReplay("c03-history", c)
			class := "flush-error"
			if strings.Contains(runErr.Error(), "file-name collision") {
				class = "file-name-collision"
				if verifkit.Excluded(kfC03FileNameCollision) {
					// recorded known finding: this history hit it (same-nanosecond
					// file names); it is counted and not judged further
					verifkit.CountExcluded(kfC03FileNameCollision)
					t.Skip("known finding " + kfC03FileNameCollision)
				}
			}
			t.Fatalf("VERIF-FAIL class=C03/%s %v\ncase=%v", class, runErr, c.summary(out))
		}
		if class, detail := c03CheckStore(root, out); class != "" {
			verifkit.WriteReplay("c03-history", c)
			t.Fatalf("VERIF-FAIL class=C03/%s\n  %s\ncase=%v", class, detail, c.summary(out))
		}
	})
}

func c03Key(c *c03Case) string {
	var sb strings.Builder
	for _, r := range c.Rounds {
		for _, op := range r.Ops {
			sb.WriteString(op.Kind)
			if op.Batch != nil {
				fmt.Fprintf(&sb, ":%s/%s/%s/%d/%s/%d;", op.Batch.API, op.Batch.DB, op.Batch.M, op.Batch.N, op.Batch.signature(), op.Batch.Times[0])
			}
		}
		sb.WriteByte('|')
	}
	return sb.String()
}

// ---------------------------------------------------------------- known finding

// c03GateBackend blocks the first Write until released, so that a second flush
// task is provably still queued when Close() is called.
type c03GateBackend struct {
	storage.Backend
	entered chan struct{}
	release chan struct{}
	once    sync.Once
}

func (g *c03GateBackend) Write(ctx context.Context, path string, data []byte) error {
	first := false
	g.once.Do(func() { first = true })
	if first {
		close(g.entered)
		<-g.release
	}
	return g.Backend.Write(ctx, path, data)
}

// c03CloseWithQueuedTask: one worker is held inside its storage write, a second
// size-triggered flush task sits in the queue, then Close() runs. Returns how
// many of the acknowledged rows are in storage afterwards.
func c03CloseWithQueuedTask(root string) (acked, stored int, err error) {
	be, err := storage.NewLocalBackend(root, zerolog.Nop())
	if err != nil {
		return 0, 0, err
	}
	gate := &c03GateBackend{Backend: be, entered: make(chan struct{}), release: make(chan struct{})}
	cfg := &config.IngestConfig{MaxBufferSize: 2, MaxBufferAgeMS: 3_600_000, FlushWorkers: 1, FlushQueueSize: 16, ShardCount: 1}
	buf := NewArrowBuffer(cfg, gate, zerolog.Nop())
	ctx := context.Background()
	base := int64(1_700_000_000_000_000)
	write := func(m string, k int64) error {
		return buf.WriteColumnarDirect(ctx, "db", m, map[string][]interface{}{
			"time": {base + k, base + k + 1}, "v": {k, k + 1}})
	}
	if err := write("first", 0); err != nil { // 2 rows >= MaxBufferSize -> task 1 (worker blocks in Write)
		return 0, 0, err
	}
	<-gate.entered
	if err := write("second", 10); err != nil { // task 2 stays queued behind the blocked worker
		return 0, 0, err
	}
	acked = 4
	done := make(chan struct{})
	go func() { _ = buf.Close(); close(done) }()
	// Close() sets closing and cancels before waiting for the worker; releasing
	// the gate only after "closing" is visible makes the order deterministic.
	for !buf.closing.Load() {
		time.Sleep(time.Millisecond)
	}
	for buf.ctx.Err() == nil {
		time.Sleep(time.Millisecond)
	}
	close(gate.release)
	<-done
	db, err := c03Duck()
	if err != nil {
		return acked, 0, err
	}
	tb, err := duck.ReadParquet(db, duck.FindParquet(root))
	if err != nil {
		return acked, 0, err
	}
	return acked, len(tb.Rows), nil
}

func TestVerifKF_C03_close_drops_queued(t *testing.T) {
	// The worker's select picks at random between ctx.Done() and the queued task,
	// so one attempt drops the task with probability >= 1/2; 12 attempts make a
	// miss negligible. No attempt may ever store MORE than was acknowledged.
	reproduced := false
	detail := ""
	for i := 0; i < 12 && !reproduced; i++ {
		root, err := os.MkdirTemp("", "c03kf-*")
		if err != nil {
			t.Fatalf("tempdir: %v", err)
		}
		acked, stored, err := c03CloseWithQueuedTask(root)
		os.RemoveAll(root)
		if err != nil {
			t.Logf("attempt %d: %v", i, err)
			continue
		}
		if stored < acked {
			reproduced = true
			detail = fmt.Sprintf("attempt %d: %d rows acknowledged, %d in storage after Close()", i, acked, stored)
		}
	}
	t.Log(detail)
	verifkit.KnownFinding(kfC03CloseDropsQueued, reproduced,
		"Close() with a flush task still queued (no WAL): "+detail)
}


// TestVerifKF_C03_file_name_collision: with the clock frozen (clock seam on
// arrow_writer.go) two flushes of the same measurement and hour produce the same
// storage path, so the second file replaces the first and acknowledged rows vanish.
func TestVerifKF_C03_file_name_collision(t *testing.T) {
	files, rows := c03FrozenClockFlushes(t)
	detail := fmt.Sprintf("2 rows acknowledged in 2 flushes at one clock reading: %d file(s), %d row(s) stored", files, rows)
	t.Log(detail)
	verifkit.KnownFinding(kfC03FileNameCollision, rows < 2, detail)
}

// TestVerifC03_FrozenClockFlushes is the same scenario as a regular check: once
// the finding is no longer listed as open, flushes that read one clock value must
// still store every acknowledged row exactly once.
func TestVerifC03_FrozenClockFlushes(t *testing.T) {
	if verifkit.Excluded(kfC03FileNameCollision) {
		verifkit.CountExcluded(kfC03FileNameCollision)
		t.Skip("open known finding " + kfC03FileNameCollision)
	}
	files, rows := c03FrozenClockFlushes(t)
	verifkit.Eval()
	verifkit.Class("frozen-clock-flushes")
	if rows != 2 {
		t.Fatalf("VERIF-FAIL class=C03/file-name-collision 2 rows acknowledged in 2 flushes at one clock reading: %d file(s), %d row(s) stored", files, rows)
	}
}

func c03FrozenClockFlushes(t *testing.T) (int, int) {
	root, err := os.MkdirTemp("", "c03kf-col-*")
	if err != nil {
		t.Fatalf("tempdir: %v", err)
	}
	defer os.RemoveAll(root)
	be, err := storage.NewLocalBackend(root, zerolog.Nop())
	if err != nil {
		t.Fatalf("backend: %v", err)
	}
	cfg := &config.IngestConfig{MaxBufferSize: 1000, MaxBufferAgeMS: 3_600_000, FlushWorkers: 1, FlushQueueSize: 16, ShardCount: 1}
	buf := NewArrowBuffer(cfg, be, zerolog.Nop())
	ctx := context.Background()
	base := int64(1_700_000_000_000_000)
	VerifSetClock(time.Date(2026, 1, 2, 3, 4, 5, 678, time.UTC))
	for k := int64(0); k < 2; k++ {
		if err := buf.WriteColumnarDirect(ctx, "db", "cpu", map[string][]interface{}{"time": {base + k}, "v": {k}}); err != nil {
			VerifSetClock(time.Time{})
			t.Fatalf("write: %v", err)
		}
		if err := buf.FlushAll(ctx); err != nil {
			VerifSetClock(time.Time{})
			t.Fatalf("flush: %v", err)
		}
	}
	VerifSetClock(time.Time{})
	_ = buf.Close()
	db, err := c03Duck()
	if err != nil {
		t.Fatalf("duckdb: %v", err)
	}
	files := duck.FindParquet(root)
	tb, err := duck.ReadParquet(db, files)
	if err != nil {
		t.Fatalf("read back: %v", err)
	}
	return len(files), len(tb.Rows)
}

// ---------------------------------------------------------------- directed scenarios

// c03ManualBatch builds a batch without rapid: a row-id column plus optional extras.
func c03ManualBatch(api, db, m string, times []int64, rid *int64) *c03Batch {
	b := &c03Batch{API: api, DB: db, M: m, N: len(times), Times: times, Cols: map[string]*c03Col{}}
	c := &c03Col{Type: "i64", Canon: make([]string, b.N), vals: make([]interface{}, b.N)}
	for i := range times {
		*rid++
		c.vals[i] = *rid
		c.Canon[i] = duck.Canon(*rid)
	}
	b.Cols["rid"] = c
	return b
}

func c03RunDirected(t *testing.T, label string, c *c03Case) {
	root, err := os.MkdirTemp("", "c03d-*")
	if err != nil {
		t.Fatalf("tempdir: %v", err)
	}
	defer os.RemoveAll(root)
	out, runErr := c03Run(c, root)
	verifkit.Eval()
	verifkit.Class("scenario:" + strings.SplitN(label, " ", 2)[0])
	verifkit.NonTrivial(label + "|" + c03Key(c))
	if runErr != nil {
		verifkit.WriteReplay("c03-history", c)
		t.Fatalf("VERIF-FAIL class=C03/flush-error (%s) %v\ncase=%v", label, runErr, c.summary(out))
	}
	if class, detail := c03CheckStore(root, out); class != "" {
		verifkit.WriteReplay("c03-history", c)
		t.Fatalf("VERIF-FAIL class=C03/%s (%s)\n  %s\ncase=%v", class, label, detail, c.summary(out))
	}
}

func c03DirectedSeed() int64 {
	n, _ := strconv.ParseInt(os.Getenv("VERIF_SEED"), 10, 64)
	return n*7919 + 17
}

// TestVerifC03_LargeUnsortedFlush: one size-triggered flush of >= 4096 rows that
// arrive out of time order (the radix-sort path), with the smallest and largest
// timestamp agreeing in one or more LOW bytes while the rows in between do not -
// the coincidence random microsecond data hits about once in a hundred large
// flushes. The written file must still be in non-decreasing time order and hold
// every row once. Deterministic for a given VERIF_SEED.
func TestVerifC03_LargeUnsortedFlush(t *testing.T) {
	rng := mrand.New(mrand.NewSource(c03DirectedSeed()))
	bases := []int64{1_700_000_000_000_000 / c03MicroPerHour * c03MicroPerHour, -2_208_988_800_000_000 + 7*c03MicroPerHour, -c03MicroPerHour}
	spans := []int64{3 * 65536, 5 * 256, 2<<24 + 0, 7 << 16, 1 << 32 / 4096 * 4096} // max-min: low byte(s) of min and max coincide
	k := 0
	for ni, n := range []int{4096, 6000} {
		for si, span := range spans {
			if span >= c03MicroPerHour-1000 {
				span = 9 << 24
			}
			if (si+ni)%2 == 1 && si != 0 {
				continue // 3 spans per size keeps the quick tier short
			}
			base := bases[k%len(bases)] + int64(rng.Intn(1_000_000))
			k++
			times := make([]int64, n)
			times[0], times[1] = base, base+span
			for i := 2; i < n; i++ {
				times[i] = base + rng.Int63n(span+1)
			}
			rng.Shuffle(n, func(i, j int) { times[i], times[j] = times[j], times[i] })
			var rid int64
			api := []string{"generic", "typed", "write"}[k%3]
			b := c03ManualBatch(api, "db0", "m0", times, &rid)
			// a nullable column, so that the validity bitmap has to follow the permutation
			nc := &c03Col{Type: "i64", Canon: make([]string, n), vals: make([]interface{}, n)}
			for i := 0; i < n; i++ {
				if rng.Intn(3) == 0 {
					nc.Canon[i] = duck.Null
					continue
				}
				v := times[i] - base
				nc.vals[i] = v
				nc.Canon[i] = duck.Canon(v)
			}
			b.Cols["a"] = nc
			c := &c03Case{Cfg: c03Config{MaxBufferSize: n, MaxBufferAgeMS: 3_600_000, FlushWorkers: 1, ShardCount: 1, Compression: "snappy", DataPageVersion: "2.0"},
				Rounds: []c03Round{{Ops: []c03Op{{Kind: "write", Batch: b}}}}, Final: "flushAll+close"}
			c03RunDirected(t, fmt.Sprintf("large-unsorted-flush n=%d span=%d", n, span), c)
		}
	}
}

// TestVerifC03_DecimalPerMeasurement: measurements with the SAME column layout
// but different configured DecimalSpecs, flushed one after the other through one
// ArrowBuffer (both orders, two flush triggers): every decimal value must read
// back as written.
func TestVerifC03_DecimalPerMeasurement(t *testing.T) {
	rng := mrand.New(mrand.NewSource(c03DirectedSeed() + 1))
	cfg := c03Config{MaxBufferSize: 1000, MaxBufferAgeMS: 3_600_000, FlushWorkers: 1, ShardCount: 2, Compression: "snappy", DataPageVersion: "2.0",
		Decimal: true, PerMeasurementDecimal: true}
	for _, order := range [][]string{{"m0", "m1", "m2"}, {"m2", "m1", "m0"}, {"m1", "m0", "m1"}} {
		for _, trigger := range []string{"flushAll", "agedFlush"} {
			var rid int64
			c := &c03Case{Cfg: cfg, Final: "flushAll+close"}
			for _, m := range order {
				n := 3 + rng.Intn(5)
				times := make([]int64, n)
				for i := range times {
					times[i] = 1_700_000_000_000_000 + int64(rng.Intn(3_000_000_000))
				}
				b := c03ManualBatch("generic", "db0", m, times, &rid)
				scale := c03DecScale(cfg, m)
				dc := &c03Col{Type: "dec", Canon: make([]string, n), vals: make([]interface{}, n)}
				for i := 0; i < n; i++ {
					units := rng.Int63n(2_000_000_000) - 1_000_000_000
					if i%2 == 0 {
						dc.vals[i] = c03DecString(units, scale)
						dc.Canon[i] = "d:" + c03DecString(units, scale)
					} else {
						whole := units / c03Pow10(scale)
						dc.vals[i] = whole
						dc.Canon[i] = "d:" + c03DecString(whole*c03Pow10(scale), scale)
					}
				}
				b.Cols["dec"] = dc
				c.Rounds = append(c.Rounds, c03Round{Ops: []c03Op{{Kind: "write", Batch: b}}}, c03Round{Ops: []c03Op{{Kind: trigger}}})
			}
			c03RunDirected(t, fmt.Sprintf("decimal-per-measurement %v %s", order, trigger), c)
		}
	}
}
