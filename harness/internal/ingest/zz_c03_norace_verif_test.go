//go:build verif && !race

package ingest

const raceEnabledC03 = false
