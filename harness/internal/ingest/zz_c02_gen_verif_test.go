//go:build verif

package ingest

import (
	"encoding/binary"
	"math"

	"pgregory.net/rapid"
)

// Structure-aware MessagePack payload builder for C02. It has its own encoder
// so that every legal wire width (including non-minimal ones) is reachable:
// fixint / int8-64 / uint8-64, float32/64, fixstr / str8-32, bin8-32,
// fixarray / array16-32, fixmap / map16-32, fixext / ext8.

type mpw struct {
	t *rapid.T
	b []byte
	// known-finding exclusions
	noDupNonArray bool
	noUnknownExt  bool
}

// oneIn is true roughly once in n draws. rapid's integer generators are biased
// towards 0 and the bounds (and shrink towards 0), so the rare event sits on an
// interior value: shrinking removes it, and its frequency is close to nominal.
func oneIn(t *rapid.T, label string, n int) bool {
	return rapid.IntRange(0, n-1).Draw(t, label) == n-2
}

func (w *mpw) raw(bs ...byte) { w.b = append(w.b, bs...) }
func (w *mpw) be16(v uint16)  { w.b = binary.BigEndian.AppendUint16(w.b, v) }
func (w *mpw) be32(v uint32)  { w.b = binary.BigEndian.AppendUint32(w.b, v) }
func (w *mpw) be64(v uint64)  { w.b = binary.BigEndian.AppendUint64(w.b, v) }
func (w *mpw) nilv()          { w.raw(0xc0) }
func (w *mpw) boolv(v bool) {
	if v {
		w.raw(0xc3)
	} else {
		w.raw(0xc2)
	}
}

// intv encodes a signed value at a randomly chosen legal width.
func (w *mpw) intv(v int64) {
	var opts []int
	if v >= 0 && v <= 127 {
		opts = append(opts, 0) // positive fixint
	}
	if v >= -32 && v < 0 {
		opts = append(opts, 1) // negative fixint
	}
	if v >= math.MinInt8 && v <= math.MaxInt8 {
		opts = append(opts, 2)
	}
	if v >= math.MinInt16 && v <= math.MaxInt16 {
		opts = append(opts, 3)
	}
	if v >= math.MinInt32 && v <= math.MaxInt32 {
		opts = append(opts, 4)
	}
	opts = append(opts, 5)
	if v >= 0 {
		if v <= math.MaxUint8 {
			opts = append(opts, 6)
		}
		if v <= math.MaxUint16 {
			opts = append(opts, 7)
		}
		if v <= math.MaxUint32 {
			opts = append(opts, 8)
		}
		opts = append(opts, 9)
	}
	switch rapid.SampledFrom(opts).Draw(w.t, "intwidth") {
	case 0, 1:
		w.raw(byte(int8(v)))
	case 2:
		w.raw(0xd0, byte(int8(v)))
	case 3:
		w.raw(0xd1)
		w.be16(uint16(int16(v)))
	case 4:
		w.raw(0xd2)
		w.be32(uint32(int32(v)))
	case 5:
		w.raw(0xd3)
		w.be64(uint64(v))
	case 6:
		w.raw(0xcc, byte(v))
	case 7:
		w.raw(0xcd)
		w.be16(uint16(v))
	case 8:
		w.raw(0xce)
		w.be32(uint32(v))
	case 9:
		w.raw(0xcf)
		w.be64(uint64(v))
	}
}

// uint64v encodes a value above MaxInt64 (only uint64 can carry it).
func (w *mpw) uint64v(v uint64) { w.raw(0xcf); w.be64(v) }

func (w *mpw) f64(v float64) { w.raw(0xcb); w.be64(math.Float64bits(v)) }
func (w *mpw) f32(v float32) { w.raw(0xca); w.be32(math.Float32bits(v)) }

func (w *mpw) strv(s string) {
	n := len(s)
	var opts []int
	if n <= 31 {
		opts = append(opts, 0, 0, 0)
	}
	if n <= 255 {
		opts = append(opts, 1)
	}
	if n <= 65535 {
		opts = append(opts, 2)
	}
	opts = append(opts, 3)
	switch rapid.SampledFrom(opts).Draw(w.t, "strwidth") {
	case 0:
		w.raw(0xa0 | byte(n))
	case 1:
		w.raw(0xd9, byte(n))
	case 2:
		w.raw(0xda)
		w.be16(uint16(n))
	case 3:
		w.raw(0xdb)
		w.be32(uint32(n))
	}
	w.b = append(w.b, s...)
}

// keyv encodes a map key: almost always the canonical fixstr.
func (w *mpw) keyv(s string) {
	if len(s) <= 31 && !oneIn(w.t, "keycanon", 20) {
		w.raw(0xa0 | byte(len(s)))
		w.b = append(w.b, s...)
		return
	}
	w.strv(s)
}

func (w *mpw) binv(p []byte) {
	switch rapid.IntRange(0, 2).Draw(w.t, "binwidth") {
	case 0:
		w.raw(0xc4, byte(len(p)))
	case 1:
		w.raw(0xc5)
		w.be16(uint16(len(p)))
	default:
		w.raw(0xc6)
		w.be32(uint32(len(p)))
	}
	w.b = append(w.b, p...)
}

func (w *mpw) arrHdr(n int) {
	var opts []int
	if n <= 15 {
		opts = append(opts, 0, 0, 0, 0)
	}
	if n <= 65535 {
		opts = append(opts, 1)
	}
	opts = append(opts, 2)
	switch rapid.SampledFrom(opts).Draw(w.t, "arrwidth") {
	case 0:
		w.raw(0x90 | byte(n))
	case 1:
		w.raw(0xdc)
		w.be16(uint16(n))
	default:
		w.raw(0xdd)
		w.be32(uint32(n))
	}
}

func (w *mpw) mapHdr(n int) {
	var opts []int
	if n <= 15 {
		opts = append(opts, 0, 0, 0, 0)
	}
	if n <= 65535 {
		opts = append(opts, 1)
	}
	opts = append(opts, 2)
	switch rapid.SampledFrom(opts).Draw(w.t, "mapwidth") {
	case 0:
		w.raw(0x80 | byte(n))
	case 1:
		w.raw(0xde)
		w.be16(uint16(n))
	default:
		w.raw(0xdf)
		w.be32(uint32(n))
	}
}

func (w *mpw) extv() {
	k := rapid.IntRange(0, 3).Draw(w.t, "extkind")
	if w.noUnknownExt {
		k = 1
	}
	switch k {
	case 0:
		w.raw(0xd4, 5, 0x01) // fixext1, unknown type 5
	case 1:
		w.raw(0xd6, 0xff, 0x65, 0x53, 0xf1, 0x00) // timestamp32 ext (-1): registered by the library
	case 2:
		w.raw(0xc7, 3, 9, 1, 2, 3) // ext8 len 3 type 9
	default:
		w.raw(0xd7, 0x2a, 1, 2, 3, 4, 5, 6, 7, 8) // fixext8 type 42
	}
}

// ---- value pools

var c02Strs = []string{"", "a", "abc", "srv-01", "é", "日本", "😀", "us-east", "x y", "\xff\xfe", "a\xc3", "0123456789012345678901234567890123456789", "NaN", "1"}
var c02Ints = []int64{0, 1, -1, 5, 42, 127, 128, -32, -33, -128, -129, 255, 256, 32767, 32768, -32768, -32769, 65535, 65536,
	math.MaxInt32, math.MaxInt32 + 1, math.MinInt32, math.MinInt32 - 1, math.MaxUint32, math.MaxUint32 + 1, math.MaxInt64, math.MinInt64, 1 << 53}
var c02Floats = []float64{0, math.Copysign(0, -1), 1.5, -2.25, 1e300, -1e300, math.MaxFloat64, math.SmallestNonzeroFloat64,
	9.223372036854775807e18, 9.223372036854777e18, -9.223372036854775808e18, -9.223372036854777e18, 1e19, 1 << 53, 0.1}

const (
	eInt = iota
	eFloat
	eStr
	eBool
	eNil
	eBin
	eExt
	eNested
	eBigUint
)

func (w *mpw) elem(class int) {
	switch class {
	case eInt:
		if rapid.Bool().Draw(w.t, "intedge") {
			w.intv(rapid.SampledFrom(c02Ints).Draw(w.t, "intv"))
		} else {
			w.intv(rapid.Int64().Draw(w.t, "intfull"))
		}
	case eBigUint:
		w.uint64v(rapid.Uint64Range(math.MaxInt64+1, math.MaxUint64).Draw(w.t, "biguint"))
	case eFloat:
		switch rapid.IntRange(0, 5).Draw(w.t, "floatkind") {
		case 4:
			w.f64(math.NaN())
		case 5:
			w.f64(rapid.SampledFrom([]float64{math.Inf(1), math.Inf(-1)}).Draw(w.t, "inf"))
		case 2:
			w.f32(rapid.Float32().Draw(w.t, "f32"))
		case 1:
			w.f64(rapid.Float64().Draw(w.t, "f64"))
		default:
			w.f64(rapid.SampledFrom(c02Floats).Draw(w.t, "fedge"))
		}
	case eStr:
		w.strv(rapid.SampledFrom(c02Strs).Draw(w.t, "strv"))
	case eBool:
		w.boolv(rapid.Bool().Draw(w.t, "boolv"))
	case eNil:
		w.nilv()
	case eBin:
		w.binv([]byte(rapid.SampledFrom([]string{"", "ab", "\x00\xff"}).Draw(w.t, "binv")))
	case eExt:
		w.extv()
	case eNested:
		switch rapid.IntRange(0, 3).Draw(w.t, "nested") {
		case 0:
			w.arrHdr(2)
			w.intv(1)
			w.intv(2)
		case 1:
			w.mapHdr(1)
			w.keyv("k")
			w.intv(1)
		case 2:
			w.mapHdr(1) // non-string key
			w.intv(1)
			w.intv(2)
		default:
			w.arrHdr(0)
		}
	}
}

var c02ColNames = []string{"time", "a", "b", "v", "host", "_x", "ü", "A", "tim", "x y", "value", "region"}

type c02Meta struct {
	Shape       string
	EmptyName   bool
	Mutation    string
	Columns     int
	DupColumn   bool
	DupTop      bool
	NonArray    bool
	ExtraKeys   bool
	TimeCol     bool
	MixedCol    bool
	NilCol      bool
	LenMismach  bool
	DupNonArray bool
	// what a same-schema "twin" payload needs (top-level columnar shape only)
	MVal []byte       `json:"-"`
	Plan []c02PlanCol `json:"-"`
}

type c02PlanCol struct {
	Name  string
	Class int
	Time  bool
}

// c02GenTwin builds a second columnar payload for the same measurement with the
// same column names and element classes as the planned one but its own row
// count, values and null pattern, so that both are buffered under one schema
// signature and MERGED by the flush. Returns nil when the plan is not suitable.
func c02GenTwin(t *rapid.T, m *c02Meta) []byte {
	if m.Shape != "columnar" || len(m.MVal) == 0 || len(m.Plan) == 0 || m.DupTop {
		return nil
	}
	seen := map[string]bool{}
	for _, c := range m.Plan {
		if seen[c.Name] || (!c.Time && c.Class != eInt && c.Class != eFloat && c.Class != eStr && c.Class != eBool && c.Class != eNil) {
			return nil
		}
		seen[c.Name] = true
	}
	w := &mpw{t: t}
	n := rapid.IntRange(1, 5).Draw(t, "twinrows")
	w.raw(0x82)
	w.raw(0xa1, 'm')
	w.raw(m.MVal...)
	w.raw(0xa7)
	w.b = append(w.b, "columns"...)
	w.mapHdr(len(m.Plan))
	for _, c := range m.Plan {
		w.keyv(c.Name)
		w.arrHdr(n)
		nilP := rapid.SampledFrom([]int{3, 0, 6, 10}).Draw(t, "twinnilp")
		for i := 0; i < n; i++ {
			switch {
			case c.Time:
				w.intv(1_700_000_000_000_000 + rapid.Int64Range(0, 7_200_000_000).Draw(t, "twintime"))
			case nilP > 0 && rapid.IntRange(0, 9).Draw(t, "twinisnil") >= 10-nilP:
				w.nilv()
			default:
				w.elem(c.Class)
			}
		}
	}
	return w.b
}

func (w *mpw) timeColumn(n int) {
	unit := rapid.IntRange(0, 6).Draw(w.t, "timeunit")
	var base int64
	switch unit {
	case 0:
		base = 1_700_000_000 // s
	case 1:
		base = 1_700_000_000_000 // ms
	case 2:
		base = 1_700_000_000_000_000 // us
	case 3:
		base = 1_700_000_000_000_000_000 // ns
	case 4:
		base = rapid.SampledFrom([]int64{9_999_999_999, 10_000_000_000, 9_999_999_999_999, 10_000_000_000_000,
			9_999_999_999_999_999, 10_000_000_000_000_000, 0, -1, -1_700_000_000, math.MaxInt64, math.MinInt64,
			math.MaxInt64 / 1_000_000, math.MaxInt64/1_000_000 + 1}).Draw(w.t, "timeedge")
	case 5:
		base = rapid.Int64().Draw(w.t, "timefull")
	default:
		base = 1_700_000_000_000_000
	}
	enc := rapid.IntRange(0, 9).Draw(w.t, "timeenc") // column-wide preferred encoding
	for i := 0; i < n; i++ {
		v := base
		if d := rapid.Int64Range(0, 5000).Draw(w.t, "timedelta"); base < math.MaxInt64-5000 {
			v += d
		}
		// a later element from another magnitude: unit detection must stay on element 0
		if i > 0 && oneIn(w.t, "timejump", 10) {
			v = rapid.SampledFrom([]int64{1_700_000_000, 1_700_000_000_000, 1_700_000_000_000_000, 1_700_000_000_000_000_000, -5}).Draw(w.t, "timejumpv")
		}
		odd := rapid.IntRange(0, 159).Draw(w.t, "timeodd")
		switch {
		case odd == 150:
			w.nilv()
		case odd == 151:
			w.strv("2024-01-01")
		case odd == 152:
			w.boolv(true)
		case odd == 153:
			w.uint64v(rapid.Uint64Range(math.MaxInt64+1, math.MaxUint64).Draw(w.t, "timebig"))
		case enc == 7 || odd == 154:
			w.f64(float64(v) + rapid.SampledFrom([]float64{0, 0.5, 0.999}).Draw(w.t, "timefrac"))
		case enc == 8:
			w.f32(float32(v))
		case enc == 6 && odd >= 140:
			w.f64(rapid.SampledFrom([]float64{math.NaN(), math.Inf(1), -1e30, 1e30}).Draw(w.t, "timeweird"))
		default:
			w.intv(v)
		}
	}
}

func (w *mpw) valueColumn(n int, m *c02Meta) int {
	class := rapid.SampledFrom([]int{eInt, eFloat, eStr, eBool, eInt, eFloat, eStr, eNil, eInt, eFloat, eStr, eBool}).Draw(w.t, "colclass")
	if oneIn(w.t, "hostilecol", 12) {
		class = rapid.SampledFrom([]int{eBigUint, eBin, eExt, eNested}).Draw(w.t, "hostileclass")
	}
	nilP := rapid.SampledFrom([]int{0, 0, 2, 6}).Draw(w.t, "nilp")             // out of 10
	mixP := rapid.SampledFrom([]int{0, 0, 0, 0, 0, 0, 1, 4}).Draw(w.t, "mixp") // out of 10
	if class == eNil {
		m.NilCol = true
	}
	for i := 0; i < n; i++ {
		c := class
		if nilP > 0 && rapid.IntRange(0, 9).Draw(w.t, "isnil") >= 10-nilP {
			c = eNil
			m.NilCol = true
		} else if mixP > 0 && rapid.IntRange(0, 9).Draw(w.t, "ismix") >= 10-mixP {
			if class == eInt || class == eFloat {
				// mostly the coercions both decoders accept (int<->float), sometimes a hostile one
				c = rapid.SampledFrom([]int{eInt, eInt, eInt, eFloat, eFloat, eFloat, eFloat, eBigUint, eStr, eBool}).Draw(w.t, "mixclassnum")
			} else {
				c = rapid.SampledFrom([]int{eInt, eFloat, eStr, eBool, eBigUint, eBin, eNested}).Draw(w.t, "mixclass")
			}
			if c != class {
				m.MixedCol = true
			}
		}
		w.elem(c)
	}
	return class
}

func (w *mpw) columnsMap(m *c02Meta) {
	ncols := rapid.SampledFrom([]int{2, 3, 1, 4, 2, 3, 1, 5, 2, 3, 4, 6, 1, 2, 3, 0}).Draw(w.t, "ncols")
	n := rapid.SampledFrom([]int{3, 2, 1, 4, 2, 3, 5, 1, 6, 2, 3, 4, 17, 1, 2, 0}).Draw(w.t, "nrows")
	names := make([]string, ncols)
	for i := range names {
		names[i] = rapid.SampledFrom(c02ColNames).Draw(w.t, "colname")
		if oneIn(w.t, "emptyname", 60) {
			names[i] = ""
			m.EmptyName = true
		}
		for j := 0; j < i; j++ {
			if names[j] == names[i] {
				if oneIn(w.t, "keepdup", 4) {
					m.DupColumn = true
				} else {
					names[i] = names[i] + string(rune('0'+i))
				}
			}
		}
	}
	m.Columns = ncols
	// dedicated shape: one column name appears twice, once with an array and
	// once with a non-array value (either order)
	dupNA := -1
	if ncols > 0 && !w.noDupNonArray && oneIn(w.t, "dupnonarray", 25) {
		dupNA = rapid.IntRange(0, ncols-1).Draw(w.t, "dupnonarrayidx")
		m.DupColumn, m.NonArray, m.DupNonArray = true, true, true
	}
	dupFirst := dupNA >= 0 && rapid.Bool().Draw(w.t, "dupnonarrayfirst")
	hdr := ncols
	if dupNA >= 0 {
		hdr++
	}
	w.mapHdr(hdr)
	for i := 0; i < ncols; i++ {
		if i == dupNA && dupFirst {
			w.keyv(names[i])
			w.elem(rapid.SampledFrom([]int{eInt, eStr, eNil, eFloat}).Draw(w.t, "dupnaclass"))
		}
		if i-1 == dupNA && !dupFirst && dupNA >= 0 {
			w.keyv(names[dupNA])
			w.elem(rapid.SampledFrom([]int{eInt, eStr, eNil, eFloat}).Draw(w.t, "dupnaclass"))
		}
		if oneIn(w.t, "nonstrcolkey", 40) {
			w.intv(int64(i))
		} else {
			w.keyv(names[i])
		}
		if oneIn(w.t, "nonarray", 25) {
			m.NonArray = true
			w.elem(rapid.SampledFrom([]int{eInt, eStr, eNil, eNested, eExt, eFloat, eBin}).Draw(w.t, "nonarrayclass"))
			continue
		}
		cn := n
		if oneIn(w.t, "lenmismatch", 50) {
			cn = n + rapid.SampledFrom([]int{1, -1, 2}).Draw(w.t, "lendelta")
			if cn < 0 {
				cn = 0
			}
			m.LenMismach = true
		}
		if oneIn(w.t, "oversize", 120) {
			// forged length header: claims far more elements than follow
			w.raw(0xdd)
			w.be32(rapid.SampledFrom([]uint32{1<<20 + 1, 1 << 24, math.MaxUint32, uint32(cn) + 1}).Draw(w.t, "oversizen"))
		} else {
			w.arrHdr(cn)
		}
		if names[i] == "time" {
			m.TimeCol = true
			w.timeColumn(cn)
			m.Plan = append(m.Plan, c02PlanCol{Name: names[i], Time: true})
		} else {
			class := w.valueColumn(cn, m)
			m.Plan = append(m.Plan, c02PlanCol{Name: names[i], Class: class})
		}
	}
	if dupNA >= 0 && !dupFirst && dupNA == ncols-1 {
		w.keyv(names[dupNA])
		w.elem(rapid.SampledFrom([]int{eInt, eStr, eNil, eFloat}).Draw(w.t, "dupnaclass"))
	}
}

func (w *mpw) measurementValue() {
	switch k := rapid.IntRange(0, 19).Draw(w.t, "mkind"); {
	case k < 16:
		w.strv(rapid.SampledFrom([]string{"cpu", "m", "Mem_2", "disk-io", "cpu", "m", "Mem_2", "disk-io", "cpu", "m", "Z9", "x-1", "", "bad name", "a/b", "é"}).Draw(w.t, "mname"))
	case k < 18:
		w.elem(eInt)
	case k == 18:
		w.elem(eBigUint)
	default:
		w.elem(rapid.SampledFrom([]int{eNil, eFloat, eBool, eBin, eNested, eExt}).Draw(w.t, "mother"))
	}
}

func (w *mpw) rowMapBody(m *c02Meta) [][]byte {
	// returns encoded (key,value) pairs for a row-format item
	var ents [][]byte
	sub := func(f func(x *mpw)) []byte {
		x := &mpw{t: w.t, noDupNonArray: w.noDupNonArray, noUnknownExt: w.noUnknownExt}
		f(x)
		return x.b
	}
	ents = append(ents, sub(func(x *mpw) { x.keyv("m"); x.measurementValue() }))
	if rapid.IntRange(0, 3).Draw(w.t, "rowt") > 0 {
		ents = append(ents, sub(func(x *mpw) {
			x.keyv("t")
			x.elem(rapid.SampledFrom([]int{eInt, eInt, eFloat, eStr, eNil, eBigUint}).Draw(w.t, "rowtclass"))
		}))
	}
	if rapid.Bool().Draw(w.t, "rowh") {
		ents = append(ents, sub(func(x *mpw) {
			x.keyv("h")
			x.elem(rapid.SampledFrom([]int{eStr, eInt, eNil, eFloat}).Draw(w.t, "rowhclass"))
		}))
	}
	switch rapid.IntRange(0, 5).Draw(w.t, "rowfields") {
	case 0:
	case 1:
		ents = append(ents, sub(func(x *mpw) {
			x.keyv("f")
			x.arrHdr(2)
			x.elem(eFloat)
			x.elem(eInt)
		}))
	default:
		ents = append(ents, sub(func(x *mpw) {
			x.keyv("fields")
			nf := rapid.IntRange(0, 3).Draw(w.t, "nrowfields")
			x.mapHdr(nf)
			for i := 0; i < nf; i++ {
				x.keyv(rapid.SampledFrom([]string{"v", "a", "b", "s"}).Draw(w.t, "rowfk") + string(rune('0'+i)))
				x.elem(rapid.SampledFrom([]int{eInt, eFloat, eStr, eBool, eNil}).Draw(w.t, "rowfclass"))
			}
		}))
	}
	if rapid.Bool().Draw(w.t, "rowtags") {
		ents = append(ents, sub(func(x *mpw) {
			x.keyv("tags")
			x.mapHdr(1)
			x.keyv("region")
			x.elem(rapid.SampledFrom([]int{eStr, eInt, eNil}).Draw(w.t, "rowtagclass"))
		}))
	}
	return ents
}

func (w *mpw) columnarMapBody(m *c02Meta) [][]byte {
	var ents [][]byte
	sub := func(f func(x *mpw)) []byte {
		x := &mpw{t: w.t, noDupNonArray: w.noDupNonArray, noUnknownExt: w.noUnknownExt}
		f(x)
		return x.b
	}
	if !oneIn(w.t, "nom", 40) {
		ents = append(ents, sub(func(x *mpw) {
			x.keyv("m")
			at := len(x.b)
			x.measurementValue()
			if m.MVal == nil {
				m.MVal = append([]byte(nil), x.b[at:]...)
			}
		}))
	}
	if !oneIn(w.t, "nocols", 40) {
		ents = append(ents, sub(func(x *mpw) {
			x.keyv("columns")
			if oneIn(w.t, "colsnotmap", 40) {
				x.elem(rapid.SampledFrom([]int{eNil, eInt, eStr, eNested}).Draw(w.t, "colsother"))
			} else {
				x.columnsMap(m)
			}
		}))
	}
	// extras
	if oneIn(w.t, "extras", 5) {
		m.ExtraKeys = true
		ne := rapid.IntRange(1, 3).Draw(w.t, "nextras")
		for i := 0; i < ne; i++ {
			ents = append(ents, sub(func(x *mpw) {
				kind := rapid.IntRange(0, 9).Draw(w.t, "extrakind")
				switch kind {
				case 5: // non-string key
					x.intv(7)
					x.intv(1)
				case 6: // duplicate m
					m.DupTop = true
					x.keyv("m")
					x.measurementValue()
				case 7: // duplicate columns
					m.DupTop = true
					x.keyv("columns")
					x.columnsMap(&c02Meta{})
				case 8:
					x.keyv("batch")
					x.elem(rapid.SampledFrom([]int{eNil, eInt, eNested}).Draw(w.t, "batchother"))
				default:
					x.keyv(rapid.SampledFrom([]string{"t", "h", "fields", "tags", "f", "zz", "meta"}).Draw(w.t, "extrakey"))
					x.elem(rapid.SampledFrom([]int{eInt, eStr, eNil, eFloat, eBool, eBin, eExt, eNested}).Draw(w.t, "extraclass"))
				}
			}))
		}
	}
	return ents
}

func (w *mpw) writeMap(ents [][]byte) {
	// shuffle entries, then write
	for i := len(ents) - 1; i > 0; i-- {
		j := rapid.IntRange(0, i).Draw(w.t, "shuffle")
		ents[i], ents[j] = ents[j], ents[i]
	}
	n := len(ents)
	if oneIn(w.t, "maplenlie", 50) {
		n += rapid.SampledFrom([]int{1, -1}).Draw(w.t, "maplendelta")
		if n < 0 {
			n = 0
		}
	}
	w.mapHdr(n)
	for _, e := range ents {
		w.raw(e...)
	}
}

// c02GenPayload draws one request body.
func c02GenPayload(t *rapid.T, noDupNonArray, noUnknownExt bool) ([]byte, *c02Meta) {
	w := &mpw{t: t, noDupNonArray: noDupNonArray, noUnknownExt: noUnknownExt}
	m := &c02Meta{}
	switch k := rapid.IntRange(0, 19).Draw(t, "shape"); {
	case k < 15:
		m.Shape = "columnar"
		w.writeMap(w.columnarMapBody(m))
	case k < 17:
		m.Shape = "row"
		w.writeMap(w.rowMapBody(m))
	case k < 18:
		m.Shape = "batch"
		ni := rapid.SampledFrom([]int{2, 1, 3, 0}).Draw(t, "nbatch")
		w.mapHdr(1)
		w.keyv("batch")
		w.arrHdr(ni)
		for i := 0; i < ni; i++ {
			if rapid.Bool().Draw(t, "batchcolumnar") {
				w.writeMap(w.columnarMapBody(m))
			} else {
				w.writeMap(w.rowMapBody(m))
			}
		}
	case k < 19:
		m.Shape = "array"
		ni := rapid.SampledFrom([]int{2, 1, 3, 0}).Draw(t, "narr")
		w.arrHdr(ni)
		for i := 0; i < ni; i++ {
			switch rapid.IntRange(0, 3).Draw(t, "arritem") {
			case 3:
				w.elem(rapid.SampledFrom([]int{eInt, eStr, eNil, eNested}).Draw(t, "arrother"))
			case 2:
				w.writeMap(w.rowMapBody(m))
			default:
				w.writeMap(w.columnarMapBody(m))
			}
		}
	default:
		m.Shape = "scalar"
		w.elem(rapid.SampledFrom([]int{eInt, eStr, eNil, eFloat, eBool, eBin, eExt}).Draw(t, "scalar"))
	}
	b := w.b
	switch k := rapid.IntRange(0, 33).Draw(t, "mutation"); {
	case k == 29 && len(b) > 1:
		m.Mutation = "truncate"
		b = b[:rapid.IntRange(0, len(b)-1).Draw(t, "cut")]
	case k == 30 && len(b) > 0:
		m.Mutation = "flip"
		b = append([]byte(nil), b...)
		i := rapid.IntRange(0, len(b)-1).Draw(t, "flipat")
		b[i] ^= byte(1 << rapid.IntRange(0, 7).Draw(t, "flipbit"))
	case k == 31 && len(b) > 0:
		m.Mutation = "setbyte"
		b = append([]byte(nil), b...)
		i := rapid.IntRange(0, len(b)-1).Draw(t, "setat")
		b[i] = rapid.SampledFrom([]byte{0xc0, 0xc1, 0x90, 0x80, 0xcf, 0xd3, 0xc4, 0xd4, 0xa0, 0xff, 0x00}).Draw(t, "setto")
	case k == 32:
		m.Mutation = "trailing"
		b = append(append([]byte(nil), b...), rapid.SampledFrom([][]byte{{0xc0}, {0x01, 0x02}, {0xc1}, {0x81}, {0xa5, 'x'}}).Draw(t, "trail")...)
	}
	return b, m
}
