//go:build verif

package tiering

import "github.com/basekick-labs/arc/internal/storage"

// Test seams for the /verif C12 harness (overlaid at check time only).

// VerifC12Migrator exposes the manager's migrator (ReconcileOrphanedFiles,
// MigrateTier) so a script step can run reconciliation on its own.
func (m *Manager) VerifC12Migrator() *Migrator { return m.migrator }

// VerifC12SetBackends swaps the tier backends of a live manager: the harness
// migrates through fault-injecting wrappers and then queries through the plain
// LocalBackends (storage.GetStoragePath type-switches on *LocalBackend) while
// keeping the same MetadataStore and its tier cache.
func (m *Manager) VerifC12SetBackends(hot, cold storage.Backend) {
	m.hotBackend, m.coldBackend = hot, cold
}
