//go:build verif

package api

import (
	"context"
	"database/sql"
	"fmt"
	"math"
	"net/http/httptest"
	"os"
	"path/filepath"
	"sort"
	"strconv"
	"strings"
	"sync/atomic"
	"testing"
	"time"

	"github.com/basekick-labs/arc/internal/config"
	"github.com/basekick-labs/arc/internal/ingest"
	"github.com/basekick-labs/arc/internal/storage"
	"github.com/basekick-labs/arc/internal/verifkit"
	"github.com/basekick-labs/arc/internal/verifkit/duck"
	"github.com/basekick-labs/arc/internal/verifkit/lpgen"
	"github.com/gofiber/fiber/v2"
	"github.com/rs/zerolog"
	"pgregory.net/rapid"
)

// C01 layer 2: the request body goes through the real HTTP line-protocol
// endpoints (routes registered exactly as RegisterRoutes does), the ArrowBuffer
// and a LocalBackend; after FlushAll the Parquet files are read back with
// DuckDB and compared, per measurement, with the model rows as a multiset.

type c01Env struct {
	app  *fiber.App
	buf  *ingest.ArrowBuffer
	root string
	db   *sql.DB
	seq  atomic.Int64
}

func newC01Env(t *testing.T) *c01Env {
	root, err := os.MkdirTemp("", "c01-l2-")
	if err != nil {
		t.Fatalf("tempdir: %v", err)
	}
	st, err := storage.NewLocalBackend(root, zerolog.Nop())
	if err != nil {
		t.Fatalf("storage: %v", err)
	}
	cfg := &config.IngestConfig{
		MaxBufferSize:  1 << 30, // never size-flush: FlushAll is the only flush
		MaxBufferAgeMS: 24 * 3600 * 1000,
		Compression:    "snappy",
		FlushWorkers:   1,
		FlushQueueSize: 4,
		ShardCount:     4,
	}
	buf := ingest.NewArrowBuffer(cfg, st, zerolog.Nop())
	h := NewLineProtocolHandler(buf, zerolog.Nop())
	app := fiber.New(fiber.Config{DisableStartupMessage: true})
	h.RegisterRoutes(app)
	db, err := duck.Open()
	if err != nil {
		t.Fatalf("duckdb: %v", err)
	}
	e := &c01Env{app: app, buf: buf, root: root, db: db}
	t.Cleanup(func() {
		_ = buf.Close()
		_ = st.Close()
		_ = db.Close()
		_ = os.RemoveAll(root)
	})
	return e
}

func c01ModelRow(p *lpgen.Point) (map[string]string, string) {
	m := map[string]string{}
	for _, tg := range p.Tags {
		m[tg.K] = "s:" + tg.V
	}
	for _, f := range p.Fields {
		switch f.Kind {
		case lpgen.Float:
			m[f.Key] = duck.Canon(f.F)
		case lpgen.Int:
			m[f.Key] = duck.Canon(f.I)
		case lpgen.Uint:
			if f.U > math.MaxInt64 {
				return nil, fmt.Sprintf("request accepted although unsigned field %q=%d does not fit the int64 column it is stored in", f.Key, f.U)
			}
			m[f.Key] = duck.Canon(int64(f.U))
		case lpgen.String:
			m[f.Key] = "s:" + f.S
		case lpgen.Bool:
			m[f.Key] = duck.Canon(f.B)
		}
	}
	return m, ""
}

func c01WithTime(m map[string]string, us int64) map[string]string {
	c := make(map[string]string, len(m)+1)
	for k, v := range m {
		c[k] = v
	}
	c["time"] = "t:" + strconv.FormatInt(us, 10)
	return c
}

// c01MatchRows matches model points against the rows read back for one
// measurement. Returns "" when the multisets agree.
type c01PP struct {
	p    *lpgen.Point
	prec string // precision of the request the point was sent in
}

func c01MatchRows(pps []c01PP, got []map[string]string, before, after time.Time) (string, *lpgen.Point) {
	used := make([]bool, len(got))
	full := make([]string, len(got))
	noTime := make([]string, len(got))
	for i, r := range got {
		full[i] = duck.RowKey(r, true)
		c := make(map[string]string, len(r))
		for k, v := range r {
			if k != "time" {
				c[k] = v
			}
		}
		noTime[i] = duck.RowKey(c, true)
	}
	take := func(keys []string, want string) int {
		for i := range keys {
			if !used[i] && keys[i] == want {
				used[i] = true
				return i
			}
		}
		return -1
	}
	var wild []*lpgen.Point
	for _, pp := range pps {
		p, precision := pp.p, pp.prec
		row, bad := c01ModelRow(p)
		if bad != "" {
			return bad, p
		}
		var cands []int64
		any := true
		if p.HasTS {
			cands, any = lpgen.ExpectMicros(p.TS, precision)
		}
		if any {
			wild = append(wild, p)
			continue
		}
		found := false
		for _, c := range cands {
			if take(full, duck.RowKey(c01WithTime(row, c), true)) >= 0 {
				found = true
				break
			}
		}
		if !found {
			return fmt.Sprintf("no stored row equals the point (want time in %v us, columns %s); stored rows: %v", cands, duck.RowKey(row, true), full), p
		}
	}
	lo, hi := before.Add(-time.Hour).UnixMicro(), after.Add(time.Hour).UnixMicro()
	for _, p := range wild {
		row, _ := c01ModelRow(p)
		i := take(noTime, duck.RowKey(row, true))
		if i < 0 {
			return fmt.Sprintf("no stored row equals the point ignoring time (columns %s); stored rows: %v", duck.RowKey(row, true), full), p
		}
		if !p.HasTS {
			ts, err := strconv.ParseInt(strings.TrimPrefix(got[i]["time"], "t:"), 10, 64)
			if err != nil || ts < lo || ts > hi {
				return fmt.Sprintf("point without timestamp stored with time %q, not near the current time", got[i]["time"]), p
			}
		}
	}
	for i := range got {
		if !used[i] {
			return fmt.Sprintf("stored row that no point denotes: %s", full[i]), nil
		}
	}
	return "", nil
}

func c01RootCauseAPI(p *lpgen.Point) string {
	switch {
	case p == nil:
		return "other"
	case p.HasFeat("esc-eq-key"):
		return "escaped-eq-in-key"
	case p.HasFeat("bare-quote"):
		return "bare-quote-outside-string"
	case p.HasFeat("str-lenient-backslash-delim"):
		return "string-backslash-delim"
	default:
		return "other"
	}
}

// post sends one request body to one of the three endpoints and returns the status.
func (e *c01Env) post(t *rapid.T, b *lpgen.Batch, dbname string, endpoint int) (int, string) {
	q := ""
	if b.Precision != "" {
		q = "precision=" + b.Precision
	}
	var url string
	hdr := ""
	switch endpoint {
	case 0:
		url = "/write?db=" + dbname
	case 1:
		url = "/api/v2/write?org=o&bucket=" + dbname
	default:
		url = "/api/v1/write/line-protocol?x=1"
		hdr = dbname
	}
	if q != "" {
		url += "&" + q
	}
	req := httptest.NewRequest("POST", url, strings.NewReader(b.Body))
	req.Header.Set("Content-Type", "text/plain; charset=utf-8")
	if hdr != "" {
		req.Header.Set("x-arc-database", hdr)
	}
	resp, err := e.app.Test(req, -1)
	if err != nil {
		t.Fatalf("HARNESS app.Test: %v", err)
	}
	resp.Body.Close()
	return resp.StatusCode, url
}

// runCase posts a SEQUENCE of requests for the same database (they are buffered
// together), flushes once, and compares the union of the model rows with storage.
func (e *c01Env) runCase(t *rapid.T, seq []*lpgen.Batch, endpoints []int) {
	dbname := fmt.Sprintf("c01db%d", e.seq.Add(1))
	dbdir := filepath.Join(e.root, dbname)
	defer os.RemoveAll(dbdir)

	bodies := make([]string, len(seq))
	urls := make([]string, len(seq))
	allAccepted := true
	before := time.Now()
	for i, b := range seq {
		bodies[i] = b.Body
		var status int
		status, urls[i] = e.post(t, b, dbname, endpoints[i])
		verifkit.Class(fmt.Sprintf("L2-endpoint-%d", endpoints[i]))
		verifkit.Class(fmt.Sprintf("L2-status-%d", status))
		verifkit.Class("L2-precision:" + b.Precision)
		for j := range b.Points {
			for _, f := range b.Points[j].Feats {
				verifkit.Class("L2-feat:" + f)
			}
		}
		if status != 204 {
			allAccepted = false
		}
	}
	after := time.Now()
	verifkit.Eval()
	verifkit.Class(fmt.Sprintf("L2-requests-per-flush-%d", len(seq)))
	ferr := e.buf.FlushAll(context.Background())
	if !allAccepted {
		// a rejected request may have been stored partially (C04's business);
		// nothing is claimed about a sequence that was not accepted as a whole
		verifkit.Class("L2-sequence-with-rejection")
		return
	}
	if ferr != nil {
		t.Fatalf("VERIF-FAIL class=C01/flush-error requests accepted (204) but FlushAll failed: %v; bodies %q", ferr, bodies)
	}
	byMeas := map[string][]c01PP{}
	npoints := 0
	for _, b := range seq {
		for i := range b.Points {
			p := &b.Points[i]
			byMeas[p.Meas] = append(byMeas[p.Meas], c01PP{p, b.Precision})
			npoints++
		}
	}
	// every stored measurement directory must be one the requests name
	ents, _ := os.ReadDir(dbdir)
	for _, en := range ents {
		if _, ok := byMeas[en.Name()]; !ok {
			t.Fatalf("VERIF-FAIL class=C01/other data stored under measurement %q which no point names; bodies %q", en.Name(), bodies)
		}
	}
	names := make([]string, 0, len(byMeas))
	for m := range byMeas {
		names = append(names, m)
	}
	sort.Strings(names)
	nontrivial := false
	for _, m := range names {
		files := duck.FindParquet(filepath.Join(dbdir, m))
		tbl, err := duck.ReadParquet(e.db, files)
		if err != nil {
			t.Fatalf("VERIF-FAIL class=C01/unreadable-parquet measurement %q files %v: %v; bodies %q", m, files, err, bodies)
		}
		if d, p := c01MatchRows(byMeas[m], tbl.RowMaps(), before, after); d != "" {
			line := ""
			if p != nil {
				line = p.Line
			}
			cause := c01RootCauseAPI(p)
			if cause == "other" && len(seq) > 1 {
				cause = "other-multi-request-flush"
			}
			t.Fatalf("VERIF-FAIL class=C01/%s measurement %q line %q (%d requests buffered before the flush): %s\nbodies %q", cause, m, line, len(seq), d, bodies)
		}
		for _, pp := range byMeas[m] {
			if pp.p.NonTrivial() {
				nontrivial = true
			}
		}
	}
	verifkit.ClassN("L2-points-stored-and-compared", npoints)
	if len(seq) > 1 {
		verifkit.Class("L2-multi-request-flushes-compared")
	}
	if nontrivial {
		verifkit.Class("L2-nontrivial-batches")
		verifkit.NonTrivial("L2:" + strings.Join(urls, "|") + ":" + strings.Join(bodies, "\x00"))
		if verifkit.SampleCount() < 3 && npoints <= 4 {
			verifkit.Sample(map[string]any{"layer": "L2", "urls": urls, "bodies": bodies})
		}
	}
}

func c01apiOpts() lpgen.Opts {
	o := lpgen.Opts{
		NoEscapedEqKey:     verifkit.Excluded("C01-escaped-eq-in-key"),
		NoBareQuote:        verifkit.Excluded("C01-bare-quote-outside-string"),
		NoLenientBackslash: verifkit.Excluded("C01-string-backslash-delim"),
		API:                true,
	}
	return o
}

func TestVerifC01_EndToEnd(t *testing.T) {
	e := newC01Env(t)
	rapid.Check(t, func(t *rapid.T) {
		o := c01apiOpts()
		seq := lpgen.GenSequence(t, o)
		if o.NoEscapedEqKey {
			verifkit.CountExcluded("C01-escaped-eq-in-key")
		}
		if o.NoBareQuote {
			verifkit.CountExcluded("C01-bare-quote-outside-string")
		}
		if o.NoLenientBackslash {
			verifkit.CountExcluded("C01-string-backslash-delim")
		}
		eps := make([]int, len(seq))
		for i := range eps {
			eps[i] = rapid.IntRange(0, 2).Draw(t, "endpoint")
		}
		e.runCase(t, seq, eps)
	})
}
