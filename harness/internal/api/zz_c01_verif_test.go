//go:build verif

package api

import (
	"context"
	"database/sql"
	"fmt"
	"math"
	"net/http/httptest"
	"os"
	"path/filepath"
	"sort"
	"strconv"
	"strings"
	"sync/atomic"
	"testing"
	"time"

	"github.com/basekick-labs/arc/internal/config"
	"github.com/basekick-labs/arc/internal/ingest"
	"github.com/basekick-labs/arc/internal/storage"
	"github.com/basekick-labs/arc/internal/verifkit"
	"github.com/basekick-labs/arc/internal/verifkit/duck"
	"github.com/basekick-labs/arc/internal/verifkit/lpgen"
	"github.com/gofiber/fiber/v2"
	"github.com/rs/zerolog"
	"pgregory.net/rapid"
)

// C01 layer 2: the request body goes through the real HTTP line-protocol
// endpoints (routes registered exactly as RegisterRoutes does), the ArrowBuffer
// and a LocalBackend; after FlushAll the Parquet files are read back with
// DuckDB and compared, per measurement, with the model rows as a multiset.

type c01Env struct {
	app  *fiber.App
	buf  *ingest.ArrowBuffer
	root string
	db   *sql.DB
	seq  atomic.Int64
}

func newC01Env(t *testing.T) *c01Env {
	root, err := os.MkdirTemp("", "c01-l2-")
	if err != nil {
		t.Fatalf("tempdir: %v", err)
	}
	st, err := storage.NewLocalBackend(root, zerolog.Nop())
	if err != nil {
		t.Fatalf("storage: %v", err)
	}
	cfg := &config.IngestConfig{
		MaxBufferSize:  1 << 30, // never size-flush: FlushAll is the only flush
		MaxBufferAgeMS: 24 * 3600 * 1000,
		Compression:    "snappy",
		FlushWorkers:   1,
		FlushQueueSize: 4,
		ShardCount:     4,
	}
	buf := ingest.NewArrowBuffer(cfg, st, zerolog.Nop())
	h := NewLineProtocolHandler(buf, zerolog.Nop())
	app := fiber.New(fiber.Config{DisableStartupMessage: true})
	h.RegisterRoutes(app)
	db, err := duck.Open()
	if err != nil {
		t.Fatalf("duckdb: %v", err)
	}
	e := &c01Env{app: app, buf: buf, root: root, db: db}
	t.Cleanup(func() {
		_ = buf.Close()
		_ = st.Close()
		_ = db.Close()
		_ = os.RemoveAll(root)
	})
	return e
}

func c01ModelRow(p *lpgen.Point) (map[string]string, string) {
	m := map[string]string{}
	for _, tg := range p.Tags {
		m[tg.K] = "s:" + tg.V
	}
	for _, f := range p.Fields {
		switch f.Kind {
		case lpgen.Float:
			m[f.Key] = duck.Canon(f.F)
		case lpgen.Int:
			m[f.Key] = duck.Canon(f.I)
		case lpgen.Uint:
			if f.U > math.MaxInt64 {
				return nil, fmt.Sprintf("request accepted although unsigned field %q=%d does not fit the int64 column it is stored in", f.Key, f.U)
			}
			m[f.Key] = duck.Canon(int64(f.U))
		case lpgen.String:
			m[f.Key] = "s:" + f.S
		case lpgen.Bool:
			m[f.Key] = duck.Canon(f.B)
		}
	}
	return m, ""
}

func c01WithTime(m map[string]string, us int64) map[string]string {
	c := make(map[string]string, len(m)+1)
	for k, v := range m {
		c[k] = v
	}
	c["time"] = "t:" + strconv.FormatInt(us, 10)
	return c
}

// c01MatchRows matches model points against the rows read back for one
// measurement. Returns "" when the multisets agree.
func c01MatchRows(points []*lpgen.Point, got []map[string]string, precision string, before, after time.Time) (string, *lpgen.Point) {
	used := make([]bool, len(got))
	full := make([]string, len(got))
	noTime := make([]string, len(got))
	for i, r := range got {
		full[i] = duck.RowKey(r, true)
		c := make(map[string]string, len(r))
		for k, v := range r {
			if k != "time" {
				c[k] = v
			}
		}
		noTime[i] = duck.RowKey(c, true)
	}
	take := func(keys []string, want string) int {
		for i := range keys {
			if !used[i] && keys[i] == want {
				used[i] = true
				return i
			}
		}
		return -1
	}
	var wild []*lpgen.Point
	for _, p := range points {
		row, bad := c01ModelRow(p)
		if bad != "" {
			return bad, p
		}
		var cands []int64
		any := true
		if p.HasTS {
			cands, any = lpgen.ExpectMicros(p.TS, precision)
		}
		if any {
			wild = append(wild, p)
			continue
		}
		found := false
		for _, c := range cands {
			if take(full, duck.RowKey(c01WithTime(row, c), true)) >= 0 {
				found = true
				break
			}
		}
		if !found {
			return fmt.Sprintf("no stored row equals the point (want time in %v us, columns %s); stored rows: %v", cands, duck.RowKey(row, true), full), p
		}
	}
	lo, hi := before.Add(-time.Hour).UnixMicro(), after.Add(time.Hour).UnixMicro()
	for _, p := range wild {
		row, _ := c01ModelRow(p)
		i := take(noTime, duck.RowKey(row, true))
		if i < 0 {
			return fmt.Sprintf("no stored row equals the point ignoring time (columns %s); stored rows: %v", duck.RowKey(row, true), full), p
		}
		if !p.HasTS {
			ts, err := strconv.ParseInt(strings.TrimPrefix(got[i]["time"], "t:"), 10, 64)
			if err != nil || ts < lo || ts > hi {
				return fmt.Sprintf("point without timestamp stored with time %q, not near the current time", got[i]["time"]), p
			}
		}
	}
	for i := range got {
		if !used[i] {
			return fmt.Sprintf("stored row that no point denotes: %s", full[i]), nil
		}
	}
	return "", nil
}

func c01RootCauseAPI(p *lpgen.Point) string {
	switch {
	case p == nil:
		return "other"
	case p.HasFeat("esc-eq-key"):
		return "escaped-eq-in-key"
	case p.HasFeat("bare-quote"):
		return "bare-quote-outside-string"
	case p.HasFeat("str-lenient-backslash-delim"):
		return "string-backslash-delim"
	default:
		return "other"
	}
}

func (e *c01Env) runCase(t *rapid.T, b *lpgen.Batch, endpoint int) {
	dbname := fmt.Sprintf("c01db%d", e.seq.Add(1))
	dbdir := filepath.Join(e.root, dbname)
	defer os.RemoveAll(dbdir)

	q := ""
	if b.Precision != "" {
		q = "precision=" + b.Precision
	}
	var url string
	hdr := ""
	switch endpoint {
	case 0:
		url = "/write?db=" + dbname
	case 1:
		url = "/api/v2/write?org=o&bucket=" + dbname
	default:
		url = "/api/v1/write/line-protocol?x=1"
		hdr = dbname
	}
	if q != "" {
		url += "&" + q
	}
	req := httptest.NewRequest("POST", url, strings.NewReader(b.Body))
	req.Header.Set("Content-Type", "text/plain; charset=utf-8")
	if hdr != "" {
		req.Header.Set("x-arc-database", hdr)
	}
	before := time.Now()
	resp, err := e.app.Test(req, -1)
	if err != nil {
		t.Fatalf("HARNESS app.Test: %v", err)
	}
	resp.Body.Close()
	after := time.Now()
	verifkit.Eval()
	verifkit.Class(fmt.Sprintf("L2-endpoint-%d", endpoint))
	verifkit.Class(fmt.Sprintf("L2-status-%d", resp.StatusCode))
	verifkit.Class("L2-precision:" + b.Precision)
	for i := range b.Points {
		for _, f := range b.Points[i].Feats {
			verifkit.Class("L2-feat:" + f)
		}
	}
	ferr := e.buf.FlushAll(context.Background())
	if resp.StatusCode != 204 {
		// not an accepted request: nothing is claimed about it
		return
	}
	if ferr != nil {
		t.Fatalf("VERIF-FAIL class=C01/flush-error request accepted (204) but FlushAll failed: %v; body %q", ferr, b.Body)
	}
	byMeas := map[string][]*lpgen.Point{}
	for i := range b.Points {
		p := &b.Points[i]
		byMeas[p.Meas] = append(byMeas[p.Meas], p)
	}
	// every stored measurement directory must be one the request names
	ents, _ := os.ReadDir(dbdir)
	for _, en := range ents {
		if _, ok := byMeas[en.Name()]; !ok {
			t.Fatalf("VERIF-FAIL class=C01/other data stored under measurement %q which no point names; body %q", en.Name(), b.Body)
		}
	}
	names := make([]string, 0, len(byMeas))
	for m := range byMeas {
		names = append(names, m)
	}
	sort.Strings(names)
	nontrivial := false
	for _, m := range names {
		files := duck.FindParquet(filepath.Join(dbdir, m))
		tbl, err := duck.ReadParquet(e.db, files)
		if err != nil {
			t.Fatalf("VERIF-FAIL class=C01/unreadable-parquet measurement %q files %v: %v; body %q", m, files, err, b.Body)
		}
		if d, p := c01MatchRows(byMeas[m], tbl.RowMaps(), b.Precision, before, after); d != "" {
			line := ""
			if p != nil {
				line = p.Line
			}
			t.Fatalf("VERIF-FAIL class=C01/%s measurement %q precision %q line %q: %s\nbody %q", c01RootCauseAPI(p), m, b.Precision, line, d, b.Body)
		}
		for _, p := range byMeas[m] {
			if p.NonTrivial() {
				nontrivial = true
			}
		}
	}
	verifkit.ClassN("L2-points-stored-and-compared", len(b.Points))
	if nontrivial {
		verifkit.Class("L2-nontrivial-batches")
		verifkit.NonTrivial("L2:" + b.Precision + ":" + b.Body)
		if verifkit.SampleCount() < 3 && len(b.Points) <= 3 {
			verifkit.Sample(map[string]any{"layer": "L2", "url": url, "body": b.Body, "points": b.Points})
		}
	}
}

func c01apiOpts() lpgen.Opts {
	o := lpgen.Opts{
		NoEscapedEqKey:     verifkit.Excluded("C01-escaped-eq-in-key"),
		NoBareQuote:        verifkit.Excluded("C01-bare-quote-outside-string"),
		NoLenientBackslash: verifkit.Excluded("C01-string-backslash-delim"),
		API:                true,
	}
	return o
}

func TestVerifC01_EndToEnd(t *testing.T) {
	e := newC01Env(t)
	rapid.Check(t, func(t *rapid.T) {
		o := c01apiOpts()
		b := lpgen.GenBatch(t, o)
		if o.NoEscapedEqKey {
			verifkit.CountExcluded("C01-escaped-eq-in-key")
		}
		if o.NoBareQuote {
			verifkit.CountExcluded("C01-bare-quote-outside-string")
		}
		if o.NoLenientBackslash {
			verifkit.CountExcluded("C01-string-backslash-delim")
		}
		e.runCase(t, b, rapid.IntRange(0, 2).Draw(t, "endpoint"))
	})
}
