//go:build verif

package api

// C19 - Query responses faithfully encode DuckDB's results.
//
// Generator: SELECT e1 AS a1, ..., ek AS ak FROM range(n) t(i) ORDER BY i, with
// every e drawn from a per-type expression pool (all integer widths, hugeint,
// decimals, float/double incl. NaN/Inf/-0, strings with quotes / control
// characters / non-ASCII, blobs, dates, timestamps s/ms/us/ns with and without
// time zone, time, interval, list, struct, map, uuid, enum, NULL-heavy
// variants), n spanning 0..5 DuckDB vectors, optional governance max_rows,
// optional response compression / Arrow IPC options.
//
// Oracle: the same SQL through database/sql on a plain DuckDB (typed values),
// CAST(e AS VARCHAR) from the same engine (text form) and DuckDB's own Arrow
// reader (Arrow form). The real QueryHandler is driven through fiber for
// /api/v1/query (JSON), /api/v1/query/msgpack and /api/v1/query/arrow.

import (
	"bytes"
	"compress/gzip"
	"context"
	"database/sql"
	"database/sql/driver"
	"encoding/json"
	"fmt"
	"io"
	"math"
	"math/big"
	"net/http/httptest"
	"os"
	"path/filepath"
	"reflect"
	"strconv"
	"strings"
	"sync"
	"testing"
	"time"
	"unicode/utf8"

	"github.com/Basekick-Labs/msgpack/v6"
	"github.com/apache/arrow-go/v18/arrow"
	"github.com/apache/arrow-go/v18/arrow/array"
	"github.com/apache/arrow-go/v18/arrow/ipc"
	"github.com/basekick-labs/arc/internal/auth"
	"github.com/basekick-labs/arc/internal/config"
	"github.com/basekick-labs/arc/internal/database"
	"github.com/basekick-labs/arc/internal/governance"
	"github.com/basekick-labs/arc/internal/license"
	"github.com/basekick-labs/arc/internal/metrics"
	"github.com/basekick-labs/arc/internal/storage"
	"github.com/basekick-labs/arc/internal/verifkit"
	"github.com/basekick-labs/arc/internal/verifkit/duck"
	duckdb "github.com/duckdb/duckdb-go/v2"
	"github.com/gofiber/fiber/v2"
	"github.com/klauspost/compress/zstd"
	"github.com/rs/zerolog"
	"pgregory.net/rapid"
)

// Known-finding ids (generator exclusions are switched on by VERIF_EXCLUDE).
const (
	c19FindBlobUTF8     = "C19-json-blob-invalid-utf8"
	c19FindArrowDecimal = "C19-arrow-decimal-overflow-empty-200"
	c19FindArrowRace    = "C19-arrow-trailer-header-race"
)

// ---------------------------------------------------------------- fixture

type c19Env struct {
	root string
	arc  *database.DuckDB
	ref  *sql.DB
	app  *fiber.App
	gov  *governance.Manager
	mu   sync.Mutex
	pol  map[int]bool
}

func c19NewEnv(t testing.TB) *c19Env {
	t.Helper()
	root, err := os.MkdirTemp("", "c19-*")
	if err != nil {
		t.Fatalf("HARNESS tempdir: %v", err)
	}
	root, _ = filepath.EvalSymlinks(root)
	logger := zerolog.New(io.Discard).Level(zerolog.Disabled)
	if os.Getenv("VERIF_C19_DEBUG") != "" {
		logger = zerolog.New(os.Stderr).Level(zerolog.DebugLevel)
	}
	metrics.Init(logger)
	data := filepath.Join(root, "data")
	backend, err := storage.NewLocalBackend(data, logger)
	if err != nil {
		t.Fatalf("HARNESS backend: %v", err)
	}
	arc, err := database.New(&database.Config{MemoryLimit: "1GB", ThreadCount: 2, MaxConnections: 4,
		LocalStorageRoot: data, TempDirectory: filepath.Join(root, "spill")}, logger)
	if err != nil {
		t.Fatalf("HARNESS database.New: %v", err)
	}
	ref, err := duck.Open()
	if err != nil {
		t.Fatalf("HARNESS duckdb: %v", err)
	}
	govDB, err := sql.Open("sqlite3", ":memory:")
	if err != nil {
		t.Fatalf("HARNESS sqlite: %v", err)
	}
	govDB.SetMaxOpenConns(1)
	gov, err := governance.NewManager(&governance.ManagerConfig{DB: govDB, Config: &config.GovernanceConfig{Enabled: true}, Logger: logger})
	if err != nil {
		t.Fatalf("HARNESS governance: %v", err)
	}
	h := NewQueryHandler(arc, backend, logger, 0, 0)
	h.SetGovernance(gov, license.VerifC19Client(license.FeatureQueryGovernance))
	e := &c19Env{root: root, arc: arc, ref: ref, gov: gov, pol: map[int]bool{}}
	app := fiber.New(fiber.Config{DisableStartupMessage: true, BodyLimit: 64 << 20})
	app.Use(func(c *fiber.Ctx) error {
		n, _ := strconv.Atoi(c.Get("x-verif-maxrows"))
		id := int64(1)
		if n > 0 {
			id = int64(100000 + n)
			if err := e.ensurePolicy(id, n); err != nil {
				return c.Status(599).SendString("HARNESS policy: " + err.Error())
			}
		}
		c.Locals("token_info", &auth.TokenInfo{ID: id, Name: "verif", Enabled: true})
		return c.Next()
	})
	h.RegisterRoutes(app)
	e.app = app
	t.Cleanup(func() {
		_ = app.Shutdown()
		ref.Close()
		arc.Close()
		govDB.Close()
		os.RemoveAll(root)
	})
	return e
}

func (e *c19Env) ensurePolicy(id int64, maxRows int) error {
	e.mu.Lock()
	defer e.mu.Unlock()
	if e.pol[maxRows] {
		return nil
	}
	if _, err := e.gov.CreatePolicy(context.Background(), &governance.Policy{TokenID: id, TokenName: "verif", MaxRowsPerQuery: maxRows}); err != nil {
		return err
	}
	e.pol[maxRows] = true
	return nil
}

type c19Resp struct {
	Status int
	CT     string
	Body   []byte
}

// post sends one request; a panic inside fiber's in-memory test transport (seen
// under heavy machine load) is turned into a transport error and re-requested.
func (e *c19Env) post(path, sqlText string, hdr map[string]string) (r c19Resp, err error) {
	for a := 0; a < 3; a++ {
		r, err = e.post1(path, sqlText, hdr)
		if err == nil || !strings.Contains(err.Error(), "panic in fiber test transport") {
			return r, err
		}
	}
	return r, err
}

func (e *c19Env) post1(path, sqlText string, hdr map[string]string) (out c19Resp, err error) {
	defer func() {
		if p := recover(); p != nil {
			out, err = c19Resp{}, fmt.Errorf("panic in fiber test transport: %v", p)
		}
	}()
	b, _ := json.Marshal(QueryRequest{SQL: sqlText})
	req := httptest.NewRequest("POST", path, bytes.NewReader(b))
	req.Header.Set("Content-Type", "application/json")
	for k, v := range hdr {
		req.Header.Set(k, v)
	}
	resp, err := e.app.Test(req, -1)
	if err != nil {
		return c19Resp{}, err
	}
	defer resp.Body.Close()
	raw, rerr := io.ReadAll(resp.Body)
	if rerr != nil {
		return c19Resp{}, rerr
	}
	switch strings.ToLower(resp.Header.Get("Content-Encoding")) {
	case "gzip":
		zr, err := gzip.NewReader(bytes.NewReader(raw))
		if err != nil {
			return c19Resp{}, fmt.Errorf("gzip: %w", err)
		}
		if raw, err = io.ReadAll(zr); err != nil {
			return c19Resp{}, fmt.Errorf("gzip body: %w", err)
		}
	case "zstd":
		zr, err := zstd.NewReader(bytes.NewReader(raw))
		if err != nil {
			return c19Resp{}, fmt.Errorf("zstd: %w", err)
		}
		defer zr.Close()
		if raw, err = io.ReadAll(zr); err != nil {
			return c19Resp{}, fmt.Errorf("zstd body: %w", err)
		}
	}
	return c19Resp{Status: resp.StatusCode, CT: resp.Header.Get("Content-Type"), Body: raw}, nil
}

// ---------------------------------------------------------------- generator

// native classes: how the value is expected on the wire.
const (
	nInt    = "int"
	nUint   = "uint"
	nF32    = "float32"
	nF64    = "float64"
	nBool   = "bool"
	nStr    = "string"
	nBlob   = "blob"
	nDate   = "date"
	nTS     = "ts"
	nDec0   = "dec0" // decimal scale 0 / hugeint: text in JSON, int64 in msgpack/arrow
	nDecS   = "decS" // decimal scale>0: text in JSON, float64 in msgpack/arrow
	nText   = "text" // no native encoding anywhere: text form, compared for null-ness only
	nNull   = "null"
	nUUID   = "uuid"
	c19Null = "\x00NULL"
)

type c19Kind struct {
	Name     string
	T        string   // DuckDB type for CAST(NULL AS T)
	Native   string   // wire class
	Msg      string   // pinned msgpack "types" name ("" = only consistency is checked)
	Lits     []string // typed literal expressions
	Computed []string // expressions over i
	Trivial  bool
}

func c19lit(t string, vs ...string) []string {
	out := make([]string, len(vs))
	for i, v := range vs {
		out[i] = "CAST(" + v + " AS " + t + ")"
	}
	return out
}

var c19Kinds = []c19Kind{
	{Name: "varchar", T: "VARCHAR", Native: nStr, Msg: "utf8", Lits: []string{"'plain'", "''", "'it''s'", "'say \"hi\"'", "'back\\slash\\\\'", "'tab' || chr(9) || 'nl' || chr(10) || 'cr' || chr(13)", "'ctl' || chr(1) || chr(8) || chr(12) || chr(27) || chr(31)", "'nul' || chr(0) || 'x'", "'del' || chr(127)", "'ünïcödé ß'", "'日本語テキスト'", "'emoji 😀 𝄞'", "'ls' || chr(8232) || 'ps' || chr(8233)", "'</script><!--'", "repeat('xy\"', 150)", "'{\"a\": [1, null]}'", "'null'", "'\\u0041'"}, Computed: []string{"'s' || CAST(i AS VARCHAR)", "chr(CAST(1 + i % 2000 AS INTEGER))"}, Trivial: true},
	{Name: "blob", T: "BLOB", Native: nBlob, Msg: "binary", Lits: []string{"'abc'::BLOB", "''::BLOB", "'\\x22\\x5C\\x0A'::BLOB", "'\\xC3\\xA9'::BLOB", "'\\x00\\x01\\x1F'::BLOB", "encode('ünï')"}, Computed: []string{"encode('b' || CAST(i AS VARCHAR))"}},
	{Name: "double", T: "DOUBLE", Native: nF64, Msg: "float64", Lits: c19lit("DOUBLE", "'NaN'", "'Infinity'", "'-Infinity'", "-0.0", "0.1", "1.7976931348623157e308", "5e-324", "1e21", "123456789.123456789", "-1e-7"), Computed: []string{"CAST(i AS DOUBLE) / 7", "sqrt(CAST(i AS DOUBLE))"}, Trivial: true},
	{Name: "timestamp", T: "TIMESTAMP", Native: nTS, Msg: "timestamp[us]", Lits: []string{"TIMESTAMP '2024-03-10 12:34:56.789012'", "TIMESTAMP '1969-12-31 23:59:59.999999'", "TIMESTAMP '1970-01-01 00:00:00'", "TIMESTAMP '0001-01-01 00:00:00'", "TIMESTAMP '9999-12-31 23:59:59.999999'", "TIMESTAMP '2262-04-12 00:00:00.5'"}, Computed: []string{"TIMESTAMP '2024-01-01 00:00:00' + INTERVAL (i) SECOND", "make_timestamp(1700000000000000 + i * 1000003)"}},
	{Name: "float", T: "FLOAT", Native: nF32, Msg: "float32", Lits: c19lit("FLOAT", "'NaN'", "'Infinity'", "'-Infinity'", "-0.0", "1.5", "3.4028235e38", "1e-45", "0.1", "16777217"), Computed: []string{"CAST(i AS FLOAT) / 3"}, Trivial: true},
	{Name: "dec18_6", T: "DECIMAL(18,6)", Native: nDecS, Msg: "float64", Lits: c19lit("DECIMAL(18,6)", "123456789012.345678", "-0.000001", "999999999999.999999", "0"), Computed: []string{"CAST(i AS DECIMAL(18,6)) / 7"}},
	{Name: "timestamptz", T: "TIMESTAMPTZ", Native: nTS, Msg: "timestamp[us]", Lits: []string{"TIMESTAMPTZ '2024-03-10 12:34:56.789012+05:30'", "TIMESTAMPTZ '1969-12-31 23:59:59.999999-11:00'", "TIMESTAMPTZ '2024-11-03 01:30:00+00'", "TIMESTAMPTZ '0001-01-02 00:00:00+00'"}, Computed: []string{"TIMESTAMPTZ '2024-01-01 00:00:00+02' + INTERVAL (i) MINUTE"}},
	{Name: "blob-bin", T: "BLOB", Native: nBlob, Msg: "binary", Lits: []string{"'\\xDE\\xAD\\xBE\\xEF'::BLOB", "'\\xFF'::BLOB", "'\\x80abc'::BLOB", "'\\xC3'::BLOB", "'ok'::BLOB"}},
	{Name: "uint64", T: "UBIGINT", Native: nUint, Msg: "uint64", Lits: c19lit("UBIGINT", "18446744073709551615", "9223372036854775808", "9007199254740993", "0"), Computed: []string{"CAST(i AS UBIGINT) * 1844674407370955"}, Trivial: true},
	{Name: "timestamp_ns", T: "TIMESTAMP_NS", Native: nTS, Msg: "timestamp[ns]", Lits: []string{"TIMESTAMP_NS '2024-03-10 12:34:56.123456789'", "TIMESTAMP_NS '1969-12-31 23:59:59.999999999'", "TIMESTAMP_NS '1677-09-22 00:00:00'", "TIMESTAMP_NS '2262-04-11 23:47:16.854775'"}, Computed: []string{"CAST(TIMESTAMP '2020-01-01 00:00:00' + INTERVAL (i) SECOND AS TIMESTAMP_NS)"}},
	{Name: "hugeint", T: "HUGEINT", Native: nDec0, Msg: "int64", Lits: c19lit("HUGEINT", "0", "42", "-42", "4611686018427387904", "-4611686018427387905"), Computed: []string{"CAST(i AS HUGEINT) * 1000000007 - 5"}},
	{Name: "date", T: "DATE", Native: nDate, Msg: "date32", Lits: []string{"DATE '2024-02-29'", "DATE '1970-01-01'", "DATE '1969-12-31'", "DATE '0001-01-01'", "DATE '9999-12-31'", "DATE '2262-04-12'"}, Computed: []string{"DATE '2000-01-01' + CAST(i AS INTEGER)"}},
	{Name: "int64", T: "BIGINT", Native: nInt, Msg: "int64", Lits: c19lit("BIGINT", "-9223372036854775808", "9223372036854775807", "9007199254740993", "-9007199254740993", "0", "4294967296"), Computed: []string{"(i * 922337203685477 - 4611686018427387904)", "i"}, Trivial: true},
	{Name: "dec38_10", T: "DECIMAL(38,10)", Native: nDecS, Msg: "float64", Lits: c19lit("DECIMAL(38,10)", "12345.0123456789", "-0.0000000001", "1", "1234567890123456.5")},
	{Name: "list", T: "INTEGER[]", Native: nText, Msg: "list", Lits: []string{"[1, 2, NULL]", "CAST([] AS INTEGER[])", "[2147483647]"}, Computed: []string{"[CAST(i AS INTEGER), CAST(i * 2 AS INTEGER)]", "range(CAST(i % 4 AS INTEGER))::INTEGER[]"}},
	{Name: "timestamp_ms", T: "TIMESTAMP_MS", Native: nTS, Msg: "timestamp[ms]", Lits: []string{"TIMESTAMP_MS '2024-03-10 12:34:56.789'", "TIMESTAMP_MS '1969-12-31 23:59:59.999'", "TIMESTAMP_MS '0001-01-01 00:00:00.001'"}, Computed: []string{"CAST(TIMESTAMP '2020-01-01 00:00:00.123' + INTERVAL (i) HOUR AS TIMESTAMP_MS)"}},
	{Name: "struct", T: "STRUCT(a INTEGER, b VARCHAR)", Native: nText, Msg: "struct", Lits: []string{"{'a': 1, 'b': 'x'}", "{'a': NULL, 'b': 'q\"r'}", "{'a': -5, 'b': NULL}"}, Computed: []string{"{'a': CAST(i AS INTEGER), 'b': 'v' || CAST(i AS VARCHAR)}"}},
	{Name: "dec4_2", T: "DECIMAL(4,2)", Native: nDecS, Msg: "float64", Lits: c19lit("DECIMAL(4,2)", "99.99", "-99.99", "0.01", "0", "1.50"), Computed: []string{"CAST((i % 1999) / 100.0 - 9.99 AS DECIMAL(4,2))"}},
	{Name: "interval", T: "INTERVAL", Native: nText, Msg: "string_encoded", Lits: []string{"INTERVAL '1 year 2 months 3 days 04:05:06.789'", "INTERVAL '-5 days'", "INTERVAL '0 seconds'", "INTERVAL '100 months'"}, Computed: []string{"INTERVAL (i) DAY", "INTERVAL (i * 1000) MILLISECOND"}},
	{Name: "timestamp_s", T: "TIMESTAMP_S", Native: nTS, Msg: "timestamp[s]", Lits: []string{"TIMESTAMP_S '2024-03-10 12:34:56'", "TIMESTAMP_S '1969-12-31 23:59:59'", "TIMESTAMP_S '9999-12-31 23:59:59'"}, Computed: []string{"CAST(TIMESTAMP '2020-01-01 00:00:00' + INTERVAL (i) MINUTE AS TIMESTAMP_S)"}},
	{Name: "hugeint-wide", T: "HUGEINT", Native: nDec0, Msg: "int64", Lits: c19lit("HUGEINT", "170141183460469231731687303715884105727", "-170141183460469231731687303715884105727", "9223372036854775808", "9223372036854775807", "-9223372036854775808", "12345678901234567890123", "7")},
	{Name: "dec38_0", T: "DECIMAL(38,0)", Native: nDec0, Msg: "int64", Lits: c19lit("DECIMAL(38,0)", "4611686018427387904", "-4611686018427387905", "123", "0")},
	{Name: "uuid", T: "UUID", Native: nUUID, Msg: "", Lits: c19lit("UUID", "'550e8400-e29b-41d4-a716-446655440000'", "'00000000-0000-0000-0000-000000000000'", "'ffffffff-ffff-ffff-ffff-ffffffffffff'")},
	{Name: "time", T: "TIME", Native: nText, Msg: "string_encoded", Lits: []string{"TIME '12:34:56.789'", "TIME '00:00:00'", "TIME '23:59:59.999999'"}, Computed: []string{"TIME '00:00:00' + INTERVAL (i % 86400) SECOND"}},
	{Name: "bool", T: "BOOLEAN", Native: nBool, Msg: "bool", Lits: []string{"true", "false"}, Computed: []string{"(i % 2 = 0)"}},
	{Name: "dec38_10-wide", T: "DECIMAL(38,10)", Native: nDecS, Msg: "float64", Lits: c19lit("DECIMAL(38,10)", "1234567890123456789012345678.0123456789", "-9999999999999999999999999999.9999999999", "0.3")},
	{Name: "uint32", T: "UINTEGER", Native: nUint, Msg: "uint32", Lits: c19lit("UINTEGER", "4294967295", "0", "2147483648", "65536"), Computed: []string{"CAST(i * 429496 AS UINTEGER)"}, Trivial: true},
	{Name: "int32", T: "INTEGER", Native: nInt, Msg: "int32", Lits: c19lit("INTEGER", "-2147483648", "2147483647", "0", "-32769", "65536"), Computed: []string{"CAST(i * 104729 - 2147483648 AS INTEGER)"}, Trivial: true},
	{Name: "map", T: "MAP(VARCHAR, INTEGER)", Native: nText, Msg: "map", Lits: []string{"MAP {'k': 1, 'l': 2}", "MAP {'only': NULL}", "CAST(MAP {} AS MAP(VARCHAR, INTEGER))"}},
	{Name: "dec9_0", T: "DECIMAL(9,0)", Native: nDec0, Msg: "int64", Lits: c19lit("DECIMAL(9,0)", "999999999", "-999999999", "0", "1"), Computed: []string{"CAST(i * 99991 AS DECIMAL(9,0))"}},
	{Name: "list-str", T: "VARCHAR[]", Native: nText, Msg: "list", Lits: []string{"['a', 'b\"c', NULL]", "['it''s', '']", "[chr(10) || 'x']"}},
	{Name: "enum", T: "ENUM('lo', 'mid', 'hi')", Native: nText, Msg: "", Lits: c19lit("ENUM('lo', 'mid', 'hi')", "'lo'", "'hi'", "'mid'")},
	{Name: "dec38_0-wide", T: "DECIMAL(38,0)", Native: nDec0, Msg: "int64", Lits: c19lit("DECIMAL(38,0)", "99999999999999999999999999999999999999", "-12345678901234567890123456789", "9223372036854775807", "-9223372036854775808", "5")},
	{Name: "int16", T: "SMALLINT", Native: nInt, Msg: "int16", Lits: c19lit("SMALLINT", "-32768", "32767", "0", "-129", "256"), Computed: []string{"CAST(i * 7 % 65536 - 32768 AS SMALLINT)"}, Trivial: true},
	{Name: "uint16", T: "USMALLINT", Native: nUint, Msg: "uint16", Lits: c19lit("USMALLINT", "65535", "0", "32768", "256"), Computed: []string{"CAST(i * 13 % 65536 AS USMALLINT)"}, Trivial: true},
	{Name: "list-nested", T: "INTEGER[][]", Native: nText, Msg: "list", Lits: []string{"[[1], [2, 3], NULL]", "[CAST([] AS INTEGER[])]"}},
	{Name: "null", T: "", Native: nNull, Msg: "", Lits: []string{"NULL"}},
	{Name: "int8", T: "TINYINT", Native: nInt, Msg: "int8", Lits: c19lit("TINYINT", "-128", "127", "0", "-1"), Computed: []string{"CAST(i % 256 - 128 AS TINYINT)"}, Trivial: true},
	{Name: "uint8", T: "UTINYINT", Native: nUint, Msg: "uint8", Lits: c19lit("UTINYINT", "255", "0", "128"), Computed: []string{"CAST(i % 256 AS UTINYINT)"}, Trivial: true},
}

var c19Aliases = []string{"c", "v", "Mixed Case", "we\"ird", "naïve", "日本", "a'b", "back\\slash", "tab\there", "time", "value", "dup", "dup", "semi;colon", "x-y", "__STR_0__"}

type c19Col struct {
	Kind  string
	Expr  string
	Alias string
}

type c19Case struct {
	SQL     string
	Cols    []c19Col
	N       int
	MaxRows int
	Gzip    string // Accept-Encoding for JSON/msgpack
	ArrowZ  string // x-arc-arrow-compression
	Dict    bool
	kinds   []*c19Kind
}

func c19Quote(s string) string { return `"` + strings.ReplaceAll(s, `"`, `""`) + `"` }

func c19GenCol(t *rapid.T, idx int, only string) (c19Col, *c19Kind) {
	var k *c19Kind
	for {
		k = &c19Kinds[rapid.IntRange(0, len(c19Kinds)-1).Draw(t, "kind")]
		if only != "" && k.Name != only {
			continue
		}
		if verifkit.Excluded(c19FindBlobUTF8) && k.Name == "blob-bin" {
			verifkit.CountExcluded(c19FindBlobUTF8)
			continue
		}
		break
	}
	var expr string
	switch {
	case len(k.Computed) > 0 && rapid.IntRange(0, 2).Draw(t, "computed") == 0:
		expr = rapid.SampledFrom(k.Computed).Draw(t, "cexpr")
		if k.T != "" && rapid.IntRange(0, 2).Draw(t, "nullify") == 0 {
			m := rapid.IntRange(2, 5).Draw(t, "nullmod")
			expr = fmt.Sprintf("CASE WHEN i %% %d = 0 THEN CAST(NULL AS %s) ELSE %s END", m, k.T, expr)
		}
	default:
		m := rapid.IntRange(1, 5).Draw(t, "nlits")
		items := make([]string, m)
		for j := range items {
			if k.T != "" && rapid.IntRange(0, 3).Draw(t, "null") == 0 {
				items[j] = "CAST(NULL AS " + k.T + ")"
			} else {
				items[j] = rapid.SampledFrom(k.Lits).Draw(t, "lit")
			}
		}
		if m == 1 && rapid.Bool().Draw(t, "bare") {
			expr = items[0]
		} else {
			expr = fmt.Sprintf("([%s])[1 + (i %% %d)]", strings.Join(items, ", "), m)
		}
	}
	alias := fmt.Sprintf("c%d", idx)
	if rapid.IntRange(0, 2).Draw(t, "alias") == 0 {
		alias = rapid.SampledFrom(c19Aliases).Draw(t, "aliasname")
	}
	return c19Col{Kind: k.Name, Expr: expr, Alias: alias}, k
}

var c19Ns = []int{0, 1, 2, 3, 17, 2047, 2048, 2049, 4096, 4097, 6000, 10000}

func c19GenCase(t *rapid.T) *c19Case {
	c := &c19Case{}
	k := rapid.IntRange(1, 6).Draw(t, "ncols")
	only := ""
	parts := make([]string, k)
	for j := 0; j < k; j++ {
		col, kind := c19GenCol(t, j, only)
		c.Cols = append(c.Cols, col)
		c.kinds = append(c.kinds, kind)
		parts[j] = col.Expr + " AS " + c19Quote(col.Alias)
	}
	// small n most of the time; the multi-batch sizes are the expensive ones.
	if rapid.IntRange(0, 9).Draw(t, "big") < 3 {
		c.N = rapid.SampledFrom(c19Ns[5:]).Draw(t, "nbig")
	} else {
		c.N = rapid.SampledFrom(c19Ns[:5]).Draw(t, "nsmall")
		if rapid.Bool().Draw(t, "nrand") {
			c.N = rapid.IntRange(0, 40).Draw(t, "n")
		}
	}
	if rapid.IntRange(0, 2).Draw(t, "limit") == 0 {
		c.MaxRows = rapid.SampledFrom([]int{1, 2, 5, 2047, 2048, 2049, 3000, 10000, 20000}).Draw(t, "maxrows")
	}
	c.Gzip = rapid.SampledFrom([]string{"", "", "gzip", "zstd"}).Draw(t, "enc")
	c.ArrowZ = rapid.SampledFrom([]string{"", "", "zstd", "lz4"}).Draw(t, "arrowz")
	c.Dict = rapid.IntRange(0, 3).Draw(t, "dict") == 0
	c.SQL = fmt.Sprintf("SELECT %s FROM range(%d) t(i) ORDER BY i", strings.Join(parts, ", "), c.N)
	return c
}

// ---------------------------------------------------------------- ground truth

type c19Truth struct {
	Cols  []string
	N     int
	Typed [][]any    // database/sql values
	Text  [][]string // CAST(e AS VARCHAR), c19Null for NULL
	Arrow *c19Table  // DuckDB's own Arrow reader
}

// c19Table is a list of record batches with random access by global row.
type c19Table struct {
	Schema *arrow.Schema
	Recs   []arrow.Record
	starts []int
	Rows   int
}

func (tb *c19Table) add(r arrow.Record) {
	r.Retain()
	tb.starts = append(tb.starts, tb.Rows)
	tb.Recs = append(tb.Recs, r)
	tb.Rows += int(r.NumRows())
}

func (tb *c19Table) release() {
	for _, r := range tb.Recs {
		r.Release()
	}
	tb.Recs = nil
}

func (tb *c19Table) cell(col, row int) (arrow.Array, int) {
	lo, hi := 0, len(tb.starts)-1
	for lo < hi {
		mid := (lo + hi + 1) / 2
		if tb.starts[mid] <= row {
			lo = mid
		} else {
			hi = mid - 1
		}
	}
	return tb.Recs[lo].Column(col), row - tb.starts[lo]
}

func c19RefArrow(ref *sql.DB, q string) (*c19Table, error) {
	ctx := context.Background()
	conn, err := ref.Conn(ctx)
	if err != nil {
		return nil, err
	}
	defer conn.Close()
	tb := &c19Table{}
	err = conn.Raw(func(dc any) error {
		ar, err := duckdb.NewArrowFromConn(dc.(driver.Conn))
		if err != nil {
			return err
		}
		rdr, err := ar.QueryContext(ctx, q)
		if err != nil {
			return err
		}
		defer rdr.Release()
		tb.Schema = rdr.Schema()
		for rdr.Next() {
			tb.add(rdr.Record())
		}
		return rdr.Err()
	})
	if err != nil {
		tb.release()
		return nil, err
	}
	return tb, nil
}

func c19RefTyped(ref *sql.DB, q string) ([]string, [][]any, error) {
	rs, err := ref.Query(q)
	if err != nil {
		return nil, nil, err
	}
	defer rs.Close()
	cols, err := rs.Columns()
	if err != nil {
		return nil, nil, err
	}
	var out [][]any
	for rs.Next() {
		vals := make([]any, len(cols))
		ptrs := make([]any, len(cols))
		for i := range vals {
			ptrs[i] = &vals[i]
		}
		if err := rs.Scan(ptrs...); err != nil {
			return nil, nil, err
		}
		for i, v := range vals {
			if b, ok := v.([]byte); ok {
				vals[i] = append([]byte(nil), b...)
			}
		}
		out = append(out, vals)
	}
	return cols, out, rs.Err()
}

func c19GroundTruth(ref *sql.DB, c *c19Case) (*c19Truth, error) {
	tr := &c19Truth{N: c.N}
	var err error
	if tr.Cols, tr.Typed, err = c19RefTyped(ref, c.SQL); err != nil {
		return nil, fmt.Errorf("typed: %w", err)
	}
	if len(tr.Typed) != c.N {
		return nil, fmt.Errorf("reference returned %d rows, want %d", len(tr.Typed), c.N)
	}
	parts := make([]string, len(c.Cols))
	for j, col := range c.Cols {
		parts[j] = fmt.Sprintf("CAST(%s AS VARCHAR) AS v%d", col.Expr, j)
	}
	_, rows, err := duck.QueryStrings(ref, fmt.Sprintf("SELECT %s FROM range(%d) t(i) ORDER BY i", strings.Join(parts, ", "), c.N))
	if err != nil {
		return nil, fmt.Errorf("text: %w", err)
	}
	tr.Text = rows
	if len(rows) != c.N {
		return nil, fmt.Errorf("reference text returned %d rows", len(rows))
	}
	if tr.Arrow, err = c19RefArrow(ref, c.SQL); err != nil {
		return nil, fmt.Errorf("arrow: %w", err)
	}
	if tr.Arrow.Rows != c.N {
		return nil, fmt.Errorf("reference arrow returned %d rows", tr.Arrow.Rows)
	}
	return tr, nil
}

// ---------------------------------------------------------------- value helpers

func c19AsInt64(v any) (int64, bool) {
	rv := reflect.ValueOf(v)
	switch rv.Kind() {
	case reflect.Int, reflect.Int8, reflect.Int16, reflect.Int32, reflect.Int64:
		return rv.Int(), true
	case reflect.Uint, reflect.Uint8, reflect.Uint16, reflect.Uint32, reflect.Uint64:
		u := rv.Uint()
		if u > math.MaxInt64 {
			return 0, false
		}
		return int64(u), true
	}
	return 0, false
}

func c19AsUint64(v any) (uint64, bool) {
	rv := reflect.ValueOf(v)
	switch rv.Kind() {
	case reflect.Int, reflect.Int8, reflect.Int16, reflect.Int32, reflect.Int64:
		if rv.Int() < 0 {
			return 0, false
		}
		return uint64(rv.Int()), true
	case reflect.Uint, reflect.Uint8, reflect.Uint16, reflect.Uint32, reflect.Uint64:
		return rv.Uint(), true
	}
	return 0, false
}

func c19SameFloat(a, b float64) bool {
	if math.IsNaN(a) || math.IsNaN(b) {
		return math.IsNaN(a) && math.IsNaN(b)
	}
	return a == b
}

// c19CloseToDecimal: v is the float64 nearest to the decimal text (1 ulp slack
// for the double rounding in decimal->float casts).
func c19CloseToDecimal(v float64, text string) bool {
	f, _, err := big.ParseFloat(text, 10, 256, big.ToNearestEven)
	if err != nil {
		return false
	}
	want, _ := f.Float64()
	return v == want || v == math.Nextafter(want, math.Inf(1)) || v == math.Nextafter(want, math.Inf(-1))
}

func c19SameRat(a, b string) bool {
	x, ok1 := new(big.Rat).SetString(a)
	y, ok2 := new(big.Rat).SetString(b)
	return ok1 && ok2 && x.Cmp(y) == 0
}

func c19TruthTime(v any) (time.Time, bool) {
	tm, ok := v.(time.Time)
	return tm, ok
}

// c19ArrowValue extracts a comparable value from an Arrow cell: nil for NULL;
// int64/uint64/float32/float64/bool/string/[]byte/time.Time for natively typed
// arrays; c19TextVal (ValueStr) for everything else.
type c19TextVal string

func c19ArrowValue(a arrow.Array, i int) any {
	if a.IsNull(i) {
		return nil
	}
	switch c := a.(type) {
	case *array.Null:
		return nil
	case *array.Int8:
		return int64(c.Value(i))
	case *array.Int16:
		return int64(c.Value(i))
	case *array.Int32:
		return int64(c.Value(i))
	case *array.Int64:
		return c.Value(i)
	case *array.Uint8:
		return uint64(c.Value(i))
	case *array.Uint16:
		return uint64(c.Value(i))
	case *array.Uint32:
		return uint64(c.Value(i))
	case *array.Uint64:
		return c.Value(i)
	case *array.Float32:
		return c.Value(i)
	case *array.Float64:
		return c.Value(i)
	case *array.Boolean:
		return c.Value(i)
	case *array.String:
		return c.Value(i)
	case *array.LargeString:
		return c.Value(i)
	case *array.Binary:
		return append([]byte(nil), c.Value(i)...)
	case *array.LargeBinary:
		return append([]byte(nil), c.Value(i)...)
	case *array.Date32:
		return c.Value(i).ToTime()
	case *array.Timestamp:
		return c.Value(i).ToTime(c.DataType().(*arrow.TimestampType).Unit)
	case *array.Dictionary:
		return c19ArrowValue(c.Dictionary(), c.GetValueIndex(i))
	}
	return c19TextVal(a.ValueStr(i))
}

// ---------------------------------------------------------------- oracle

type c19Failer interface {
	Fatalf(format string, args ...any)
}

func c19Fail(t c19Failer, class string, c *c19Case, format string, args ...any) {
	t.Fatalf("VERIF-FAIL class=C19/%s %s\nsql: %s\nn=%d max_rows=%d enc=%q arrowz=%q dict=%v", class, fmt.Sprintf(format, args...), c.SQL, c.N, c.MaxRows, c.Gzip, c.ArrowZ, c.Dict)
}

func c19WantRows(c *c19Case, limited bool) int {
	if limited && c.MaxRows > 0 && c.MaxRows < c.N {
		return c.MaxRows
	}
	return c.N
}

func c19EqualCols(a, b []string) bool {
	if len(a) != len(b) {
		return false
	}
	for i := range a {
		if a[i] != b[i] {
			return false
		}
	}
	return true
}

func c19Short(v any) string {
	s := fmt.Sprintf("%#v", v)
	if len(s) > 160 {
		s = s[:160] + "..."
	}
	return s
}

// --- JSON

func c19CheckJSON(t c19Failer, c *c19Case, tr *c19Truth, body []byte) {
	if !utf8.Valid(body) {
		c19Fail(t, "json-invalid-utf8", c, "response body is not valid UTF-8")
	}
	dec := json.NewDecoder(bytes.NewReader(body))
	dec.UseNumber()
	var env struct {
		Success  *bool    `json:"success"`
		Columns  []string `json:"columns"`
		Data     [][]any  `json:"data"`
		RowCount *int     `json:"row_count"`
	}
	if err := dec.Decode(&env); err != nil {
		c19Fail(t, "json-malformed", c, "encoding/json: %v; body starts %q", err, c19Short(string(body)))
	}
	if dec.More() {
		c19Fail(t, "json-malformed", c, "trailing data after the JSON document")
	}
	if env.Success == nil || !*env.Success {
		c19Fail(t, "json-envelope", c, "success flag missing/false on a 200 answer")
	}
	if !c19EqualCols(env.Columns, tr.Cols) {
		c19Fail(t, "json-columns", c, "columns %q want %q", env.Columns, tr.Cols)
	}
	want := c19WantRows(c, true)
	if env.RowCount == nil || *env.RowCount != len(env.Data) || len(env.Data) != want {
		rc := -1
		if env.RowCount != nil {
			rc = *env.RowCount
		}
		c19Fail(t, "json-rowcount", c, "row_count=%d len(data)=%d want %d", rc, len(env.Data), want)
	}
	for r, row := range env.Data {
		if len(row) != len(c.Cols) {
			c19Fail(t, "json-rowwidth", c, "row %d has %d cells want %d", r, len(row), len(c.Cols))
		}
		for j, got := range row {
			if msg := c19JSONCell(c.kinds[j], got, tr, r, j); msg != "" {
				c19Fail(t, "json-cell/"+c.kinds[j].Native, c, "row %d col %d (%s, %s): %s; got %s, DuckDB typed %s text %q", r, j, c.Cols[j].Kind, c.Cols[j].Expr, msg, c19Short(got), c19Short(tr.Typed[r][j]), tr.Text[r][j])
			}
		}
	}
}

func c19JSONCell(k *c19Kind, got any, tr *c19Truth, r, j int) string {
	typed, text := tr.Typed[r][j], tr.Text[r][j]
	if typed == nil {
		if got != nil {
			return "NULL cell encoded as non-null"
		}
		return ""
	}
	switch k.Native {
	case nF32, nF64:
		var f float64
		if k.Native == nF32 {
			f = float64(typed.(float32))
		} else {
			f = typed.(float64)
		}
		if math.IsNaN(f) || math.IsInf(f, 0) {
			if got != nil {
				return "non-finite float must be null"
			}
			return ""
		}
		num, ok := got.(json.Number)
		if !ok {
			return "finite float not encoded as a JSON number"
		}
		g, err := strconv.ParseFloat(num.String(), 64)
		if err != nil || g != f {
			return "float value differs"
		}
		return ""
	}
	if got == nil {
		return "non-null cell encoded as null"
	}
	switch k.Native {
	case nInt, nUint:
		num, ok := got.(json.Number)
		if !ok {
			return "integer not encoded as a JSON number"
		}
		if num.String() != text {
			return "integer digits differ"
		}
	case nBool:
		b, ok := got.(bool)
		if !ok || b != typed.(bool) {
			return "bool differs"
		}
	case nStr:
		s, ok := got.(string)
		if !ok || s != typed.(string) {
			return "string differs"
		}
	case nBlob:
		s, ok := got.(string)
		if !ok {
			return "blob not encoded as a JSON string"
		}
		raw := typed.([]byte)
		// raw bytes (what writeArrowValue codes) or DuckDB's text form
		if s != string(raw) && s != text {
			if utf8.Valid(raw) {
				return "blob text differs from both the raw bytes and DuckDB's text form"
			}
			return "blob with non-UTF-8 bytes: not DuckDB's text form and not representable raw"
		}
	case nDate, nTS:
		s, ok := got.(string)
		if !ok {
			return "time value not encoded as a JSON string"
		}
		want, _ := c19TruthTime(typed)
		if want.Year() < 1 || want.Year() > 9999 {
			return "" // RFC3339 leaves years outside 0001-9999 open
		}
		g, err := time.Parse(time.RFC3339Nano, s)
		if err != nil {
			return "not RFC3339: " + err.Error()
		}
		if !g.Equal(want) {
			return "instant differs (want " + want.UTC().Format(time.RFC3339Nano) + ")"
		}
	case nDec0, nDecS:
		s, ok := got.(string)
		if !ok {
			// a number would be fine too if exact
			if num, isNum := got.(json.Number); isNum && c19SameRat(num.String(), text) {
				return ""
			}
			return "decimal neither text nor exact number"
		}
		// DuckDB's text form (compared as a number, so 1.5 == 1.50) or Arrow's
		// ValueStr of DuckDB's own array; the sources leave the choice open.
		if c19SameRat(s, text) {
			verifkit.Class("json-decimal=exact")
			return ""
		}
		a, i := tr.Arrow.cell(j, r)
		if s == a.ValueStr(i) {
			verifkit.Class("json-decimal=arrow-valuestr-rounded")
			return ""
		}
		return "decimal text is neither DuckDB's number nor Arrow's ValueStr of it"
	case nUUID:
		s, ok := got.(string)
		if !ok || s != text {
			return "uuid text differs"
		}
	case nText:
		if _, ok := got.(string); !ok {
			return "no-native type not rendered as text"
		}
		a, i := tr.Arrow.cell(j, r)
		switch got.(string) {
		case text:
			verifkit.Class("json-text=duckdb-varchar")
		case a.ValueStr(i):
			verifkit.Class("json-text=arrow-valuestr")
		default:
			verifkit.Class("json-text=other")
		}
	case nNull:
		return "NULL-typed column produced a value"
	}
	return ""
}

// --- MessagePack

func c19CheckMsgPack(t c19Failer, c *c19Case, tr *c19Truth, body []byte) {
	dec := msgpack.NewDecoder(bytes.NewReader(body))
	v, err := dec.DecodeInterface()
	if err != nil {
		c19Fail(t, "msgpack-malformed", c, "decode: %v", err)
	}
	if _, err := dec.DecodeInterface(); err != io.EOF {
		c19Fail(t, "msgpack-malformed", c, "trailing data after the envelope (err=%v)", err)
	}
	env, ok := v.(map[string]any)
	if !ok {
		c19Fail(t, "msgpack-envelope", c, "top level is %T, want map", v)
	}
	for _, key := range []string{"success", "columns", "types", "data", "row_count", "execution_time_ms", "timestamp"} {
		if _, ok := env[key]; !ok {
			c19Fail(t, "msgpack-envelope", c, "key %q missing", key)
		}
	}
	if len(env) != 7 {
		c19Fail(t, "msgpack-envelope", c, "%d keys, want 7 (no profile requested)", len(env))
	}
	if b, _ := env["success"].(bool); !b {
		c19Fail(t, "msgpack-envelope", c, "success not true")
	}
	if _, ok := env["timestamp"].(string); !ok {
		c19Fail(t, "msgpack-envelope", c, "timestamp is %T", env["timestamp"])
	}
	if _, ok := c19AsUint64(env["execution_time_ms"]); !ok {
		c19Fail(t, "msgpack-envelope", c, "execution_time_ms is %T", env["execution_time_ms"])
	}
	colsAny, _ := env["columns"].([]any)
	typesAny, _ := env["types"].([]any)
	data, _ := env["data"].([]any)
	cols := make([]string, len(colsAny))
	for i, x := range colsAny {
		cols[i], _ = x.(string)
	}
	if !c19EqualCols(cols, tr.Cols) {
		c19Fail(t, "msgpack-columns", c, "columns %q want %q", cols, tr.Cols)
	}
	if len(typesAny) != len(cols) || len(data) != len(cols) {
		c19Fail(t, "msgpack-envelope", c, "len(types)=%d len(data)=%d len(columns)=%d", len(typesAny), len(data), len(cols))
	}
	want := c19WantRows(c, true)
	rc, ok := c19AsUint64(env["row_count"])
	if !ok || int(rc) != want {
		c19Fail(t, "msgpack-rowcount", c, "row_count=%v want %d", env["row_count"], want)
	}
	for j := range cols {
		colv, ok := data[j].([]any)
		if !ok && want > 0 {
			c19Fail(t, "msgpack-envelope", c, "data[%d] is %T", j, data[j])
		}
		if len(colv) != want {
			c19Fail(t, "msgpack-rowcount", c, "len(data[%d])=%d want %d", j, len(colv), want)
		}
		tn, _ := typesAny[j].(string)
		k := c.kinds[j]
		if k.Msg != "" && tn != k.Msg {
			c19Fail(t, "msgpack-typename", c, "types[%d]=%q for %s, documented name is %q", j, tn, c.Cols[j].Kind, k.Msg)
		}
		for r, got := range colv {
			if msg := c19MsgTypeConsistent(tn, got); msg != "" {
				c19Fail(t, "msgpack-type-vs-value", c, "row %d col %d: types[%d]=%q but %s (value %s)", r, j, j, tn, msg, c19Short(got))
			}
			if msg := c19MsgCell(k, got, tr, r, j); msg != "" {
				c19Fail(t, "msgpack-cell/"+k.Native, c, "row %d col %d (%s, %s): %s; got %s, DuckDB typed %s text %q", r, j, c.Cols[j].Kind, c.Cols[j].Expr, msg, c19Short(got), c19Short(tr.Typed[r][j]), tr.Text[r][j])
			}
		}
	}
}

func c19MsgTypeConsistent(tn string, got any) string {
	if got == nil {
		return ""
	}
	isInt := func(lo int64, hi int64) string {
		if v, ok := c19AsInt64(got); ok && v >= lo && v <= hi {
			return ""
		}
		return "value is not an integer in range"
	}
	isUint := func(hi uint64) string {
		if v, ok := c19AsUint64(got); ok && v <= hi {
			return ""
		}
		return "value is not an unsigned integer in range"
	}
	switch {
	case tn == "bool":
		if _, ok := got.(bool); !ok {
			return "value is not a bool"
		}
	case tn == "int8":
		return isInt(math.MinInt8, math.MaxInt8)
	case tn == "int16":
		return isInt(math.MinInt16, math.MaxInt16)
	case tn == "int32":
		return isInt(math.MinInt32, math.MaxInt32)
	case tn == "int64":
		return isInt(math.MinInt64, math.MaxInt64)
	case tn == "uint8":
		return isUint(math.MaxUint8)
	case tn == "uint16":
		return isUint(math.MaxUint16)
	case tn == "uint32":
		return isUint(math.MaxUint32)
	case tn == "uint64":
		return isUint(math.MaxUint64)
	case tn == "float32":
		if _, ok := got.(float32); !ok {
			return "value is not a msgpack float32"
		}
	case tn == "float64":
		if _, ok := got.(float64); !ok {
			return "value is not a msgpack float64"
		}
	case tn == "utf8" || tn == "large_utf8" || tn == "string_encoded" || tn == "list" || tn == "struct" || tn == "map" || strings.HasPrefix(tn, "unknown:"):
		if _, ok := got.(string); !ok {
			return "value is not a msgpack str"
		}
	case tn == "binary" || tn == "large_binary":
		if _, ok := got.([]byte); !ok {
			return "value is not a msgpack bin"
		}
	case tn == "date32" || strings.HasPrefix(tn, "timestamp["):
		if _, ok := got.(time.Time); !ok {
			return "value is not a msgpack timestamp ext"
		}
	case tn == "null":
		return "null-typed column carries a value"
	case strings.HasPrefix(tn, "decimal"):
		return "decimal type name reached the wire (decimals are documented as int64/float64)"
	default:
		return "type name outside the published vocabulary"
	}
	return ""
}

func c19MsgCell(k *c19Kind, got any, tr *c19Truth, r, j int) string {
	typed, text := tr.Typed[r][j], tr.Text[r][j]
	if typed == nil {
		if got != nil {
			return "NULL cell encoded as non-nil"
		}
		return ""
	}
	if got == nil {
		return "non-null cell encoded as nil"
	}
	switch k.Native {
	case nInt:
		w, _ := c19AsInt64(typed)
		g, ok := c19AsInt64(got)
		if !ok || g != w {
			return "integer differs"
		}
	case nUint:
		w, _ := c19AsUint64(typed)
		g, ok := c19AsUint64(got)
		if !ok || g != w {
			return "unsigned integer differs"
		}
	case nF32:
		g, ok := got.(float32)
		if !ok || !c19SameFloat(float64(g), float64(typed.(float32))) {
			return "float32 differs (NaN/Inf travel natively)"
		}
	case nF64:
		g, ok := got.(float64)
		if !ok || !c19SameFloat(g, typed.(float64)) {
			return "float64 differs (NaN/Inf travel natively)"
		}
	case nBool:
		g, ok := got.(bool)
		if !ok || g != typed.(bool) {
			return "bool differs"
		}
	case nStr:
		g, ok := got.(string)
		if !ok || g != typed.(string) {
			return "string differs"
		}
	case nBlob:
		g, ok := got.([]byte)
		if !ok || !bytes.Equal(g, typed.([]byte)) {
			return "blob bytes differ"
		}
	case nDate, nTS:
		g, ok := got.(time.Time)
		want, _ := c19TruthTime(typed)
		if !ok || !g.Equal(want) {
			return "instant differs (want " + want.UTC().Format(time.RFC3339Nano) + ")"
		}
	case nDec0:
		g, ok := c19AsInt64(got)
		if !ok || strconv.FormatInt(g, 10) != text {
			return "scale-0 decimal is documented to travel as the same int64"
		}
	case nDecS:
		g, ok := got.(float64)
		if !ok || !c19CloseToDecimal(g, text) {
			return "scaled decimal is documented to travel as the nearest float64"
		}
	case nUUID:
		g, ok := got.(string)
		if !ok || g != text {
			return "uuid text differs"
		}
	case nText:
		if _, ok := got.(string); !ok {
			return "no-native type not rendered as str"
		}
	case nNull:
		return "NULL-typed column produced a value"
	}
	return ""
}

// --- Arrow IPC

func c19CheckArrow(t c19Failer, c *c19Case, tr *c19Truth, body []byte) {
	rdr, err := ipc.NewReader(bytes.NewReader(body))
	if err != nil {
		c19Fail(t, "arrow-malformed", c, "ipc.NewReader: %v", err)
	}
	defer rdr.Release()
	tb := &c19Table{Schema: rdr.Schema()}
	defer tb.release()
	for rdr.Next() {
		tb.add(rdr.Record())
	}
	if err := rdr.Err(); err != nil {
		c19Fail(t, "arrow-malformed", c, "ipc read: %v", err)
	}
	names := make([]string, tb.Schema.NumFields())
	for i, f := range tb.Schema.Fields() {
		names[i] = f.Name
	}
	if !c19EqualCols(names, tr.Cols) {
		c19Fail(t, "arrow-columns", c, "columns %q want %q", names, tr.Cols)
	}
	if tb.Rows != c.N {
		c19Fail(t, "arrow-rowcount", c, "stream carries %d rows, DuckDB produced %d", tb.Rows, c.N)
	}
	for j := range c.Cols {
		k := c.kinds[j]
		for r := 0; r < c.N; r++ {
			a, i := tb.cell(j, r)
			got := c19ArrowValue(a, i)
			ra, ri := tr.Arrow.cell(j, r)
			if msg := c19ArrowCell(k, got, tr, r, j, c19ArrowValue(ra, ri)); msg != "" {
				c19Fail(t, "arrow-cell/"+k.Native, c, "row %d col %d (%s, %s; wire type %s): %s; got %s, DuckDB typed %s text %q", r, j, c.Cols[j].Kind, c.Cols[j].Expr, a.DataType(), msg, c19Short(got), c19Short(tr.Typed[r][j]), tr.Text[r][j])
			}
		}
	}
}

func c19ArrowCell(k *c19Kind, got any, tr *c19Truth, r, j int, refArrow any) string {
	typed, text := tr.Typed[r][j], tr.Text[r][j]
	if typed == nil {
		if got != nil {
			return "NULL cell encoded as non-null"
		}
		return ""
	}
	if got == nil {
		return "non-null cell encoded as null"
	}
	switch k.Native {
	case nInt:
		w, _ := c19AsInt64(typed)
		if g, ok := got.(int64); !ok || g != w {
			return "integer differs"
		}
	case nUint:
		w, _ := c19AsUint64(typed)
		if g, ok := got.(uint64); !ok || g != w {
			return "unsigned integer differs"
		}
	case nF32:
		if g, ok := got.(float32); !ok || !c19SameFloat(float64(g), float64(typed.(float32))) {
			return "float32 differs"
		}
	case nF64:
		if g, ok := got.(float64); !ok || !c19SameFloat(g, typed.(float64)) {
			return "float64 differs"
		}
	case nBool:
		if g, ok := got.(bool); !ok || g != typed.(bool) {
			return "bool differs"
		}
	case nStr:
		if g, ok := got.(string); !ok || g != typed.(string) {
			return "string differs"
		}
	case nBlob:
		if g, ok := got.([]byte); !ok || !bytes.Equal(g, typed.([]byte)) {
			return "blob bytes differ"
		}
	case nDate, nTS:
		g, ok := got.(time.Time)
		want, _ := c19TruthTime(typed)
		if !ok || !g.Equal(want) {
			return "instant differs"
		}
	case nDec0:
		if g, ok := got.(int64); !ok || strconv.FormatInt(g, 10) != text {
			return "scale-0 decimal is documented to travel as the same int64"
		}
	case nDecS:
		if g, ok := got.(float64); !ok || !c19CloseToDecimal(g, text) {
			return "scaled decimal is documented to travel as the nearest float64"
		}
	case nUUID, nText:
		// Arrow passes DuckDB's own arrays through: the cell must render the
		// same as DuckDB's Arrow reader renders it.
		if !reflect.DeepEqual(got, refArrow) {
			return fmt.Sprintf("differs from DuckDB's Arrow value %s", c19Short(refArrow))
		}
	case nNull:
		return "NULL-typed column produced a value"
	}
	return ""
}

// ---------------------------------------------------------------- the property

func c19NonTrivial(c *c19Case) bool {
	if c.N > 2048 {
		return true
	}
	for _, k := range c.kinds {
		if !k.Trivial {
			return true
		}
	}
	return false
}

func c19RunCase(t c19Failer, e *c19Env, c *c19Case) {
	tr, err := c19GroundTruth(e.ref, c)
	if err != nil {
		t.Fatalf("HARNESS reference evaluation failed: %v\nsql: %s", err, c.SQL)
	}
	defer tr.Arrow.release()
	verifkit.Eval()
	for _, col := range c.Cols {
		verifkit.Class("kind:" + col.Kind)
	}
	switch {
	case c.N == 0:
		verifkit.Class("rows:0")
	case c.N <= 2048:
		verifkit.Class("rows:1-batch")
	default:
		verifkit.Class("rows:multi-batch")
	}
	if c.MaxRows > 0 && c.MaxRows < c.N {
		verifkit.Class("limit-truncates")
	}
	if c19NonTrivial(c) {
		verifkit.NonTrivial(fmt.Sprintf("%s|%d", c.SQL, c.MaxRows))
		if verifkit.SampleCount() < 4 {
			verifkit.Sample(map[string]any{"sql": c.SQL, "n": c.N, "max_rows": c.MaxRows, "accept_encoding": c.Gzip, "arrow_compression": c.ArrowZ, "arrow_dictionary": c.Dict})
		}
	}

	hdr := map[string]string{}
	if c.MaxRows > 0 {
		hdr["x-verif-maxrows"] = strconv.Itoa(c.MaxRows)
	}
	if c.Gzip != "" {
		hdr["Accept-Encoding"] = c.Gzip
	}
	// JSON
	rj, err := e.post("/api/v1/query", c.SQL, hdr)
	if err != nil {
		c19Fail(t, "json-transport", c, "reading the JSON response failed: %v", err)
	}
	if rj.Status == 599 {
		t.Fatalf("HARNESS %s", rj.Body)
	}
	if rj.Status/100 == 2 {
		verifkit.Class("json:2xx")
		c19CheckJSON(t, c, tr, rj.Body)
	} else {
		verifkit.Class(fmt.Sprintf("json:rejected-%d", rj.Status))
	}
	// MessagePack
	rm, err := e.post("/api/v1/query/msgpack", c.SQL, hdr)
	if err != nil {
		c19Fail(t, "msgpack-transport", c, "reading the msgpack response failed: %v", err)
	}
	if rm.Status/100 == 2 {
		verifkit.Class("msgpack:2xx")
		c19CheckMsgPack(t, c, tr, rm.Body)
	} else {
		verifkit.Class(fmt.Sprintf("msgpack:rejected-%d", rm.Status))
	}
	// Arrow IPC (no governance row limit on this endpoint)
	ah := map[string]string{}
	if c.ArrowZ != "" {
		ah["x-arc-arrow-compression"] = c.ArrowZ
	}
	if c.Dict {
		ah["x-arc-arrow-dictionary"] = "true"
	}
	if verifkit.Excluded(c19FindArrowDecimal) && c19HasWideDec0(c) {
		// open finding: a scale-0 decimal beyond int64 makes this endpoint answer
		// 200 with an empty stream; not sent while the finding is open.
		verifkit.CountExcluded(c19FindArrowDecimal)
		return
	}
	ra, err := e.postArrow(c.SQL, ah)
	if err != nil {
		c19Fail(t, "arrow-transport", c, "reading the Arrow response failed: %v", err)
	}
	if ra.Status/100 == 2 {
		verifkit.Class("arrow:2xx")
		c19CheckArrow(t, c, tr, ra.Body)
	} else {
		verifkit.Class(fmt.Sprintf("arrow:rejected-%d", ra.Status))
	}
}

func c19HasWideDec0(c *c19Case) bool {
	for _, k := range c.kinds {
		if k.Name == "hugeint-wide" || k.Name == "dec38_0-wide" {
			return true
		}
	}
	return false
}

// postArrow sends one Arrow IPC request. While the header-race finding is open
// (executeQueryArrow sets the trailer value from the stream goroutine while
// fasthttp serialises the response header from the same scratch buffer), an
// answer whose HTTP framing or IPC framing is broken is re-requested: the race
// is timing dependent, a deterministic encoder defect is not and still fails.
func (e *c19Env) postArrow(sqlText string, hdr map[string]string) (c19Resp, error) {
	tries := 1
	if verifkit.Excluded(c19FindArrowRace) {
		tries = 6
	}
	var r c19Resp
	var err error
	for a := 0; a < tries; a++ {
		r, err = e.post("/api/v1/query/arrow", sqlText, hdr)
		if err == nil && (r.Status/100 != 2 || c19IPCReadable(r.Body)) {
			return r, nil
		}
		if a+1 < tries {
			verifkit.CountExcluded(c19FindArrowRace)
		}
	}
	return r, err
}

func c19IPCReadable(body []byte) bool {
	rdr, err := ipc.NewReader(bytes.NewReader(body))
	if err != nil {
		return false
	}
	defer rdr.Release()
	for rdr.Next() {
	}
	return rdr.Err() == nil
}

func TestVerifC19_Encoders(t *testing.T) {
	e := c19NewEnv(t)
	rapid.Check(t, func(t *rapid.T) {
		c := c19GenCase(t)
		c19RunCase(t, e, c)
	})
}

// ---------------------------------------------------------------- known findings

func c19ArrowRows(body []byte) (int, bool) {
	rdr, err := ipc.NewReader(bytes.NewReader(body))
	if err != nil {
		return 0, false
	}
	defer rdr.Release()
	n := 0
	for rdr.Next() {
		n += int(rdr.Record().NumRows())
	}
	return n, rdr.Err() == nil
}

// A scale-0 decimal (HUGEINT, DECIMAL(p,0), SUM(BIGINT)) beyond int64 makes the
// Arrow endpoint's decimal->int64 cast fail inside the stream writer, after the
// 200 status is committed; the handler then closes a valid, EMPTY stream.
func TestVerifKF_C19_arrow_decimal_overflow(t *testing.T) {
	e := c19NewEnv(t)
	q := "SELECT CAST(9223372036854775808 AS HUGEINT) AS x"
	rep := false
	for a := 0; a < 6 && !rep; a++ {
		r, err := e.post("/api/v1/query/arrow", q, nil)
		if err != nil {
			continue
		}
		rows, ok := c19ArrowRows(r.Body)
		rep = r.Status == 200 && ok && rows == 0
	}
	// the reference engine returns exactly one row for the same SQL
	if _, rows, err := duck.QueryStrings(e.ref, q); err != nil || len(rows) != 1 {
		rep = false
	}
	verifkit.KnownFinding(c19FindArrowDecimal, rep, "POST /api/v1/query/arrow answers 200 with a well-formed stream of 0 rows for a 1-row result: "+q)
}

// executeQueryArrow calls respHeader.Set(trailer, ms) from the body-stream
// goroutine while fasthttp's serving goroutine serialises the response header;
// both use ResponseHeader.bufKV.value as scratch, so the status line is
// sometimes overwritten with the millisecond count ("11TP/1.1 200 OK").
func TestVerifKF_C19_arrow_header_race(t *testing.T) {
	e := c19NewEnv(t)
	var mu sync.Mutex
	bad, total, what := 0, 0, ""
	per := verifkit.Scale(600, 2500)
	var wg sync.WaitGroup
	// a few concurrent clients: the window is a goroutine interleaving, so it
	// opens more often when the scheduler is busy
	for w := 0; w < 8; w++ {
		wg.Add(1)
		go func() {
			defer wg.Done()
			for a := 0; a < per; a++ {
				r, err := e.post("/api/v1/query/arrow", "SELECT 1 AS x", nil)
				msg := ""
				if err != nil {
					msg = err.Error()
				} else if rows, ok := c19ArrowRows(r.Body); r.Status != 200 || !ok || rows != 1 {
					msg = fmt.Sprintf("status=%d readable=%v rows=%d", r.Status, ok, rows)
				}
				mu.Lock()
				total++
				if msg != "" {
					bad++
					what = msg
				}
				mu.Unlock()
			}
		}()
	}
	wg.Wait()
	verifkit.KnownFinding(c19FindArrowRace, bad > 0, fmt.Sprintf("%d of %d identical tiny Arrow requests came back with a corrupted HTTP/IPC framing (last: %s)", bad, total, what))
}

// A BLOB whose bytes are not valid UTF-8 is copied raw into the JSON string, so
// the whole response body stops being valid UTF-8 / RFC 8259 JSON.
func TestVerifKF_C19_json_blob_utf8(t *testing.T) {
	e := c19NewEnv(t)
	q := `SELECT '\xFF\xFE'::BLOB AS b`
	r, err := e.post("/api/v1/query", q, nil)
	rep := err == nil && r.Status == 200 && !utf8.Valid(r.Body)
	verifkit.KnownFinding(c19FindBlobUTF8, rep, "JSON body is not valid UTF-8 for "+q+": "+c19Short(string(r.Body)))
}

// Debug entry (not matched by the check's -run pattern): VERIF_C19_SQL=... runs
// one statement against the three endpoints and prints what came back.
func TestVerifDbgC19(t *testing.T) {
	q := os.Getenv("VERIF_C19_SQL")
	if q == "" {
		t.Skip("no VERIF_C19_SQL")
	}
	e := c19NewEnv(t)
	hdr := map[string]string{}
	for _, kv := range strings.Split(os.Getenv("VERIF_C19_HDR"), ";") {
		if k, v, ok := strings.Cut(kv, "="); ok {
			hdr[k] = v
		}
	}
	for _, p := range []string{"/api/v1/query", "/api/v1/query/msgpack", "/api/v1/query/arrow"} {
		r, err := e.post(p, q, hdr)
		fmt.Printf("== %s status=%d err=%v len=%d\n", p, r.Status, err, len(r.Body))
		switch {
		case strings.HasSuffix(p, "arrow") && r.Status == 200:
			rdr, err := ipc.NewReader(bytes.NewReader(r.Body))
			if err != nil {
				fmt.Println("ipc:", err)
				continue
			}
			fmt.Println("schema:", rdr.Schema())
			for rdr.Next() {
				rec := rdr.Record()
				fmt.Println("batch rows", rec.NumRows())
				for j := 0; j < int(rec.NumCols()) && rec.NumRows() > 0; j++ {
					fmt.Printf("  col %d first=%q\n", j, rec.Column(j).ValueStr(0))
				}
			}
		case strings.HasSuffix(p, "msgpack") && r.Status == 200:
			var v any
			_ = msgpack.Unmarshal(r.Body, &v)
			fmt.Println(c19Short(v))
		default:
			fmt.Println(c19Short(string(r.Body)))
		}
	}
	if tb, err := c19RefArrow(e.ref, q); err == nil {
		fmt.Println("duckdb arrow schema:", tb.Schema)
		tb.release()
	}
	cols, rows, err := c19RefTyped(e.ref, q)
	fmt.Println("ref:", cols, err)
	for i, r := range rows {
		if i < 3 {
			for _, v := range r {
				fmt.Printf("  %T %v\n", v, v)
			}
		}
	}
}

// ---------------------------------------------------------------- dictionary growth

// The Arrow endpoint's opt-in dictionary encoding decides on the FIRST batch
// which string columns qualify, then keeps one stream-persistent dictionary per
// column that grows with every later batch. These directed result sets are
// low-cardinality in the first DuckDB vector and high-cardinality afterwards,
// so the dictionary passes 2^15 and 2^16 entries mid-stream; every cell must
// still decode to DuckDB's string (same oracle as the random property; the
// JSON and msgpack answers of the same SQL are checked along the way).
func TestVerifC19_DictionaryGrowth(t *testing.T) {
	e := c19NewEnv(t)
	var vk *c19Kind
	var ik *c19Kind
	for i := range c19Kinds {
		switch c19Kinds[i].Name {
		case "varchar":
			vk = &c19Kinds[i]
		case "int64":
			ik = &c19Kinds[i]
		}
	}
	type scen struct {
		n        int
		expr     string
		arrowZ   string
		withNull bool
	}
	scens := []scen{
		// > 32767 distinct values: past the int16 index range
		{n: 40000, expr: "CASE WHEN i < 2048 THEN 'h' || CAST(i % 3 AS VARCHAR) ELSE 'h' || CAST(i AS VARCHAR) END"},
		// > 65535 distinct values: past the uint16 range (indices would wrap)
		{n: 70000, expr: "CASE WHEN i < 4096 THEN 'k' || CAST(i % 7 AS VARCHAR) ELSE 'k' || CAST(i AS VARCHAR) END", arrowZ: "zstd"},
		// growth in steps, with NULLs, every value repeated 2x after the first vector
		{n: 140000, expr: "CASE WHEN i % 11 = 0 THEN NULL WHEN i < 2048 THEN 'r' || CAST(i % 5 AS VARCHAR) ELSE 'r' || CAST(i // 2 AS VARCHAR) END", withNull: true, arrowZ: "lz4"},
	}
	seed, _ := strconv.Atoi(os.Getenv("VERIF_SEED"))
	for si, sc := range scens {
		// the seed only shifts the sizes a little, so different seeds cross the
		// boundaries at different batch offsets
		n := sc.n + (seed%7)*131
		c := &c19Case{N: n, Dict: true, ArrowZ: sc.arrowZ,
			Cols:  []c19Col{{Kind: "varchar", Expr: sc.expr, Alias: "s"}, {Kind: "int64", Expr: "i", Alias: "i"}},
			kinds: []*c19Kind{vk, ik}}
		c.SQL = fmt.Sprintf("SELECT %s AS \"s\", i AS \"i\" FROM range(%d) t(i) ORDER BY i", sc.expr, n)
		verifkit.Class(fmt.Sprintf("dictionary-growth-scenario-%d", si))
		c19RunCase(t, e, c)
	}
}
