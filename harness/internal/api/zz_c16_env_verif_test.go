//go:build verif

package api

// Shared fixture of the C16 and C18 harnesses: a real QueryHandler (fiber app,
// routes as RegisterRoutes wires them) over a real storage.LocalBackend temp
// dir and a database.New DuckDB (sandboxed like production), plus a plain
// in-memory DuckDB that writes the Parquet files and serves as the reference
// evaluator. Listed in the `files` of both checks.

import (
	"bytes"
	"database/sql"
	"encoding/json"
	"fmt"
	"io"
	"math"
	"math/big"
	"net/http/httptest"
	"os"
	"path/filepath"
	"sort"
	"strconv"
	"strings"
	"time"

	"github.com/basekick-labs/arc/internal/database"
	"github.com/basekick-labs/arc/internal/storage"
	"github.com/basekick-labs/arc/internal/verifkit/duck"
	"github.com/gofiber/fiber/v2"
	"github.com/rs/zerolog"
)

func init() {
	// Arc's partition layout and the pruner's literal parsing are UTC; DuckDB
	// (ICU) takes its session time zone from the process environment.
	os.Setenv("TZ", "UTC")
}

const qNull = "\x00NULL"

type qEnv struct {
	root string // storage base path (LocalBackend root)
	arc  *database.DuckDB
	ref  *sql.DB
	app  *fiber.App
	h    *QueryHandler
}

// qNewEnv builds the fixture. The caller owns Close.
func qNewEnv() (*qEnv, error) {
	root, err := os.MkdirTemp("", "arcq-*")
	if err != nil {
		return nil, err
	}
	root, _ = filepath.EvalSymlinks(root)
	logger := zerolog.New(io.Discard).Level(zerolog.Disabled)
	backend, err := storage.NewLocalBackend(root, logger)
	if err != nil {
		os.RemoveAll(root)
		return nil, err
	}
	// database.New bounds its sandbox lock-down with a 5 s context; on a heavily
	// shared machine that can expire ("Interrupted"). That is start-up plumbing,
	// not the property: retry instead of failing the case.
	var arc *database.DuckDB
	for attempt := 0; ; attempt++ {
		arc, err = database.New(&database.Config{MemoryLimit: "1GB", ThreadCount: 2, MaxConnections: 4, LocalStorageRoot: root}, logger)
		if err == nil {
			break
		}
		if attempt >= 7 {
			os.RemoveAll(root)
			return nil, err
		}
	}
	ref, err := duck.Open()
	if err != nil {
		arc.Close()
		os.RemoveAll(root)
		return nil, err
	}
	if _, err := ref.Exec("SET TimeZone='UTC'"); err != nil {
		ref.Close()
		arc.Close()
		os.RemoveAll(root)
		return nil, fmt.Errorf("ref timezone: %w", err)
	}
	h := NewQueryHandler(arc, backend, logger, 0, 0)
	app := fiber.New(fiber.Config{DisableStartupMessage: true, BodyLimit: 16 << 20})
	h.RegisterRoutes(app)
	return &qEnv{root: root, arc: arc, ref: ref, app: app, h: h}, nil
}

func (e *qEnv) Close() {
	_ = e.app.Shutdown()
	e.ref.Close()
	e.arc.Close()
	os.RemoveAll(e.root)
}

// qResult is a query answer in canonical text form (see qCanonRef/qCanonJSON).
type qResult struct {
	Status int // HTTP status (arc) or 0 (reference)
	OK     bool
	Err    string
	Cols   []string
	Rows   [][]string
}

// arcQuery posts the SQL to /api/v1/query (header x-arc-database when hdr != "").
func (e *qEnv) arcQuery(sqlText, hdr string) qResult {
	b, _ := json.Marshal(QueryRequest{SQL: sqlText})
	req := httptest.NewRequest("POST", "/api/v1/query", bytes.NewReader(b))
	req.Header.Set("Content-Type", "application/json")
	if hdr != "" {
		req.Header.Set("x-arc-database", hdr)
	}
	resp, err := e.app.Test(req, -1)
	if err != nil {
		return qResult{Status: -1, Err: "HARNESS app.Test: " + err.Error()}
	}
	defer resp.Body.Close()
	raw, _ := io.ReadAll(resp.Body)
	out := qResult{Status: resp.StatusCode}
	var body struct {
		Success bool                `json:"success"`
		Columns []string            `json:"columns"`
		Data    [][]json.RawMessage `json:"data"`
		Error   string              `json:"error"`
		Count   int                 `json:"row_count"`
	}
	dec := json.NewDecoder(bytes.NewReader(raw))
	if err := dec.Decode(&body); err != nil {
		out.Err = "undecodable body: " + err.Error() + ": " + string(raw[:min(len(raw), 200)])
		return out
	}
	out.OK = resp.StatusCode == 200 && body.Success
	out.Err = body.Error
	out.Cols = body.Columns
	for _, r := range body.Data {
		row := make([]string, len(r))
		for i, c := range r {
			row[i] = qCanonJSON(c)
		}
		out.Rows = append(out.Rows, row)
	}
	if out.OK && body.Count != len(out.Rows) {
		out.OK = false
		out.Err = fmt.Sprintf("row_count %d != len(data) %d", body.Count, len(out.Rows))
	}
	return out
}

// qCanonJSON renders one JSON cell as plain text: numbers by their text
// (-0 -> 0), strings unquoted, booleans, null. The JSON/typed encoding itself
// is C19's subject; here only the value matters.
func qCanonJSON(c json.RawMessage) string {
	s := strings.TrimSpace(string(c))
	switch {
	case s == "null":
		return qNull
	case s == "true" || s == "false":
		return s
	case len(s) > 0 && s[0] == '"':
		var v string
		if err := json.Unmarshal(c, &v); err != nil {
			return "?" + s
		}
		return v
	default:
		return qCanonNum(s)
	}
}

func qCanonNum(s string) string {
	if s == "-0" {
		return "0"
	}
	return s
}

// qCanonRef renders a database/sql value the way arc's JSON writer renders the
// same Arrow value (timestamps RFC3339Nano UTC, floats 'f' shortest, NaN/Inf
// null), so that equal values have equal text.
func qCanonRef(v any) string {
	switch x := v.(type) {
	case nil:
		return qNull
	case time.Time:
		return x.UTC().Format(time.RFC3339Nano)
	case float64:
		if math.IsNaN(x) || math.IsInf(x, 0) {
			return qNull
		}
		return qCanonNum(strconv.FormatFloat(x, 'f', -1, 64))
	case float32:
		f := float64(x)
		if math.IsNaN(f) || math.IsInf(f, 0) {
			return qNull
		}
		return qCanonNum(strconv.FormatFloat(f, 'f', -1, 64))
	case bool:
		return strconv.FormatBool(x)
	case []byte:
		return string(x)
	case string:
		return x
	case *big.Int:
		return x.String()
	case int8, int16, int32, int64, int, uint8, uint16, uint32, uint64, uint:
		return fmt.Sprintf("%d", x)
	default:
		return fmt.Sprintf("%v", x)
	}
}

// refQuery evaluates the SQL on the reference DuckDB with the given schema as
// the default one ("" = main).
func (e *qEnv) refQuery(sqlText, schema string) qResult {
	if schema == "" {
		schema = "main"
	}
	if _, err := e.ref.Exec("SET schema = " + duck.SQLString(schema)); err != nil {
		return qResult{Err: "HARNESS set schema: " + err.Error()}
	}
	rs, err := e.ref.Query(sqlText)
	if err != nil {
		return qResult{Err: err.Error()}
	}
	defer rs.Close()
	cols, err := rs.Columns()
	if err != nil {
		return qResult{Err: err.Error()}
	}
	out := qResult{OK: true, Cols: cols}
	for rs.Next() {
		vals := make([]any, len(cols))
		ptrs := make([]any, len(cols))
		for i := range vals {
			ptrs[i] = &vals[i]
		}
		if err := rs.Scan(ptrs...); err != nil {
			return qResult{Err: err.Error()}
		}
		row := make([]string, len(cols))
		for i, v := range vals {
			row[i] = qCanonRef(v)
		}
		out.Rows = append(out.Rows, row)
	}
	if err := rs.Err(); err != nil {
		return qResult{Err: err.Error()}
	}
	return out
}

// qRowKeys renders rows for comparison: by column name when the names are
// unique (column order of `SELECT *` over union_by_name is not asserted),
// positionally otherwise.
func qRowKeys(r qResult) []string { return qRowKeysMode(r, false) }

// qRowKeysMode: pairs=true renders every row as the sorted multiset of its
// (name, value) pairs even when names repeat (used when the two sides list
// same-named columns in a different order).
func qRowKeysMode(r qResult, pairs bool) []string {
	if pairs {
		keys := make([]string, len(r.Rows))
		for i, row := range r.Rows {
			ps := make([]string, 0, len(row))
			for j, c := range row {
				n := ""
				if j < len(r.Cols) {
					n = r.Cols[j]
				}
				ps = append(ps, strconv.Quote(n)+"="+strconv.Quote(c))
			}
			sort.Strings(ps)
			keys[i] = strings.Join(ps, ";")
		}
		return keys
	}
	uniq := true
	seen := map[string]bool{}
	for _, c := range r.Cols {
		if seen[c] {
			uniq = false
		}
		seen[c] = true
	}
	keys := make([]string, len(r.Rows))
	var idx []int
	if uniq {
		idx = make([]int, len(r.Cols))
		for i := range idx {
			idx[i] = i
		}
		sort.Slice(idx, func(a, b int) bool { return r.Cols[idx[a]] < r.Cols[idx[b]] })
	}
	for i, row := range r.Rows {
		var b strings.Builder
		if uniq && len(row) == len(r.Cols) {
			for _, j := range idx {
				b.WriteString(strconv.Quote(r.Cols[j]))
				b.WriteByte('=')
				b.WriteString(strconv.Quote(row[j]))
				b.WriteByte(';')
			}
		} else {
			for _, c := range row {
				b.WriteString(strconv.Quote(c))
				b.WriteByte(';')
			}
		}
		keys[i] = b.String()
	}
	return keys
}

// qCompare compares two successful results; ordered => as sequences, else as
// multisets. Returns "" when equal, else a description.
func qCompare(want, got qResult, ordered bool) string {
	wc := append([]string(nil), want.Cols...)
	gc := append([]string(nil), got.Cols...)
	sort.Strings(wc)
	sort.Strings(gc)
	if strings.Join(wc, "\x01") != strings.Join(gc, "\x01") {
		if !(len(got.Cols) == 0 && len(got.Rows) == 0 && len(want.Rows) == 0) {
			return fmt.Sprintf("columns differ: want %q got %q (rows want %d got %d)", want.Cols, got.Cols, len(want.Rows), len(got.Rows))
		}
	}
	// same names, different order, and names repeat (SELECT * over a join):
	// the order of union_by_name columns is not asserted
	pairs := strings.Join(want.Cols, "\x01") != strings.Join(got.Cols, "\x01")
	wk, gk := qRowKeysMode(want, pairs), qRowKeysMode(got, pairs)
	if ordered {
		if len(wk) != len(gk) {
			return fmt.Sprintf("row count: want %d got %d", len(wk), len(gk))
		}
		for i := range wk {
			if wk[i] != gk[i] {
				return fmt.Sprintf("row %d: want %s got %s", i, wk[i], gk[i])
			}
		}
		return ""
	}
	wm, gm := duck.Multiset{}, duck.Multiset{}
	for _, k := range wk {
		wm[k]++
	}
	for _, k := range gk {
		gm[k]++
	}
	if d := wm.Diff(gm, 4); len(d) > 0 {
		return fmt.Sprintf("rows want %d got %d: %s", len(wk), len(gk), strings.Join(d, " | "))
	}
	return ""
}

// ---------------------------------------------------------------- dataset

// qCol is one column of a generated file.
type qCol struct {
	Name string // unquoted name
	Type string // DuckDB type
}

// qFile is one Parquet file: relative path below the storage root, columns and
// rows (cells already rendered as SQL literals, "NULL" for null).
type qFile struct {
	Rel  string
	Cols []qCol
	Rows [][]string
}

func qIdent(name string) string { return `"` + strings.ReplaceAll(name, `"`, `""`) + `"` }

// qTSLit renders microseconds since the epoch as a TIMESTAMPTZ literal (UTC),
// the logical type arc's writer gives the time column.
func qTSLit(us int64) string {
	t := time.UnixMicro(us).UTC()
	return "TIMESTAMPTZ '" + t.Format("2006-01-02 15:04:05.000000") + "+00'"
}

// writeFile writes one Parquet file with the reference DuckDB (COPY).
func (e *qEnv) writeFile(f qFile) error {
	abs := filepath.Join(e.root, f.Rel)
	if err := os.MkdirAll(filepath.Dir(abs), 0o755); err != nil {
		return err
	}
	var b strings.Builder
	b.WriteString("COPY (SELECT ")
	for i, c := range f.Cols {
		if i > 0 {
			b.WriteString(", ")
		}
		fmt.Fprintf(&b, "CAST(c%d AS %s) AS %s", i, c.Type, qIdent(c.Name))
	}
	b.WriteString(" FROM (VALUES ")
	for i, r := range f.Rows {
		if i > 0 {
			b.WriteString(", ")
		}
		b.WriteString("(" + strings.Join(r, ", ") + ")")
	}
	b.WriteString(") t(")
	for i := range f.Cols {
		if i > 0 {
			b.WriteString(", ")
		}
		fmt.Fprintf(&b, "c%d", i)
	}
	b.WriteString(")) TO " + duck.SQLString(abs) + " (FORMAT PARQUET)")
	if _, err := e.ref.Exec(b.String()); err != nil {
		return fmt.Errorf("COPY %s: %w", f.Rel, err)
	}
	return nil
}

// defineView makes schema.name a view over exactly the given stored files
// (union_by_name, as arc reads them). schema "" = main.
func (e *qEnv) defineView(schema, name string, rels []string) error {
	if len(rels) == 0 {
		return fmt.Errorf("no files for %s.%s", schema, name)
	}
	sorted := append([]string(nil), rels...)
	sort.Strings(sorted)
	qs := make([]string, len(sorted))
	for i, r := range sorted {
		qs[i] = duck.SQLString(filepath.Join(e.root, r))
	}
	target := qIdent(name)
	if schema != "" {
		if _, err := e.ref.Exec("CREATE SCHEMA IF NOT EXISTS " + qIdent(schema)); err != nil {
			return err
		}
		target = qIdent(schema) + "." + target
	}
	_, err := e.ref.Exec("CREATE OR REPLACE VIEW " + target + " AS SELECT * FROM read_parquet([" + strings.Join(qs, ", ") + "], union_by_name=true)")
	return err
}

func timeOfUs(us int64) time.Time { return time.UnixMicro(us).UTC() }

// duckFind lists the parquet files below root/rel as paths relative to root.
func duckFind(root, rel string) []string {
	var out []string
	for _, p := range duck.FindParquet(filepath.Join(root, rel)) {
		r, err := filepath.Rel(root, p)
		if err == nil {
			out = append(out, r)
		}
	}
	return out
}

// qShort shortens an error message to a counter key.
func qShort(s string) string {
	if i := strings.IndexAny(s, "\n\""); i > 0 {
		s = s[:i]
	}
	if len(s) > 60 {
		s = s[:60]
	}
	return s
}
