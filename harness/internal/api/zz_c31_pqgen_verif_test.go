//go:build verif

package api

// C31 - Parquet file generator (files written with arrow-go in the harness)
// with ground truth taken from the generated Go values.

import (
	"bytes"
	"fmt"
	"math"
	"math/big"
	"strconv"
	"strings"

	"github.com/apache/arrow-go/v18/arrow"
	"github.com/apache/arrow-go/v18/arrow/array"
	"github.com/apache/arrow-go/v18/arrow/decimal128"
	"github.com/apache/arrow-go/v18/arrow/memory"
	"github.com/apache/arrow-go/v18/parquet"
	"github.com/apache/arrow-go/v18/parquet/compress"
	"github.com/apache/arrow-go/v18/parquet/pqarrow"
	"github.com/basekick-labs/arc/internal/verifkit"
	"github.com/basekick-labs/arc/internal/verifkit/duck"
	"pgregory.net/rapid"
)

// c31PCol is one generated Parquet column: arrow type, per-row values, nulls,
// and the canonical cell the documented conversion must store.
type c31PCol struct {
	Name    string
	Type    arrow.DataType
	Desc    string
	Null    []bool
	I       []int64
	U       []uint64
	F       []float64
	S       []string
	B       []bool
	D       []decimal128.Num
	Want    []string // canonical expected cell (non-time columns)
	Decimal bool
	Reject  string // non-empty: the documented rules cannot import this column
}

var c31PTypes = []string{"int8", "int16", "int32", "int64", "uint8", "uint16", "uint32", "uint64", "float32", "float64",
	"string", "string", "binary", "fixed", "bool", "decimal", "ts_s", "ts_ms", "ts_us", "ts_ns", "date32", "large_string", "list"}

var c31PStrings = []string{"", "a", "alpha", "héllo", "日本", "with space", "NULL", "x,y", "q\"uote", "line\nbreak", "0", "true"}

func c31IntRange(bits int) (int64, int64) {
	if bits == 64 {
		return math.MinInt64, math.MaxInt64
	}
	return -(1 << (bits - 1)), (1 << (bits - 1)) - 1
}

func c31DrawInt(t *rapid.T, lo, hi int64) int64 {
	switch rapid.IntRange(0, 9).Draw(t, "ishape") {
	case 0:
		return lo
	case 1:
		return hi
	case 2:
		return 0
	}
	if c31Chance(t, "small", 50) {
		l, h := int64(-1000), int64(1000)
		if lo > l {
			l = lo
		}
		if hi < h {
			h = hi
		}
		return rapid.Int64Range(l, h).Draw(t, "ismall")
	}
	return rapid.Int64Range(lo, hi).Draw(t, "i")
}

func c31GenPCol(t *rapid.T, name string, n int, c *c31Case) *c31PCol {
	typ := c31Pick(t, "ptype", c31PTypes...)
	col := &c31PCol{Name: name, Desc: typ, Null: make([]bool, n), Want: make([]string, n)}
	nullPct := c31Pick(t, "nullpct", 0, 0, 20, 50, 100)
	for i := range col.Null {
		col.Null[i] = nullPct > 0 && c31Chance(t, "null", nullPct)
		if col.Null[i] {
			c.NonTrivial = true
		}
	}
	c.class("pq:" + typ)
	switch typ {
	case "int8", "int16", "int32", "int64":
		bits, _ := strconv.Atoi(typ[3:])
		col.Type = map[int]arrow.DataType{8: arrow.PrimitiveTypes.Int8, 16: arrow.PrimitiveTypes.Int16, 32: arrow.PrimitiveTypes.Int32, 64: arrow.PrimitiveTypes.Int64}[bits]
		lo, hi := c31IntRange(bits)
		col.I = make([]int64, n)
		for i := range col.I {
			col.I[i] = c31DrawInt(t, lo, hi)
			col.Want[i] = duck.Canon(col.I[i])
		}
	case "uint8", "uint16", "uint32", "uint64":
		bits, _ := strconv.Atoi(typ[4:])
		col.Type = map[int]arrow.DataType{8: arrow.PrimitiveTypes.Uint8, 16: arrow.PrimitiveTypes.Uint16, 32: arrow.PrimitiveTypes.Uint32, 64: arrow.PrimitiveTypes.Uint64}[bits]
		col.U = make([]uint64, n)
		for i := range col.U {
			var max uint64 = math.MaxUint64
			if bits < 64 {
				max = 1<<bits - 1
			}
			switch rapid.IntRange(0, 5).Draw(t, "ushape") {
			case 0:
				col.U[i] = max
			case 1:
				col.U[i] = 0
			case 2:
				col.U[i] = rapid.Uint64Range(0, 1000).Draw(t, "usmall") % (max/2 + 1)
			default:
				col.U[i] = rapid.Uint64Range(0, max).Draw(t, "u")
			}
			if col.U[i] > math.MaxInt64 {
				col.U[i] >>= 1 // keep ordinary cells representable; the overflow is injected below
			}
			col.Want[i] = "i:" + strconv.FormatUint(col.U[i], 10)
		}
		if bits == 64 && c31Chance(t, "u64overflow", 30) {
			// one value above MaxInt64 at a uniformly chosen row (so that it also
			// falls into a later row group / record batch, not only the first)
			if verifkit.Excluded("C31-uint64-wraps-negative") {
				verifkit.CountExcluded("C31-uint64-wraps-negative")
			} else {
				i := c31Uniform(t, "u64row", n)
				col.U[i] = c31Pick(t, "u64big", uint64(math.MaxUint64), uint64(1)<<63, uint64(1)<<63+12345)
				col.Want[i] = "i:" + strconv.FormatUint(col.U[i], 10)
				if !col.Null[i] {
					col.Reject = fmt.Sprintf("uint64 value %d has no lossless int64 representation", col.U[i])
					c.class("pq:uint64-above-maxint64")
				}
			}
		}
	case "float32":
		col.Type = arrow.PrimitiveTypes.Float32
		col.F = make([]float64, n)
		for i := range col.F {
			col.F[i] = float64(rapid.Float32().Draw(t, "f32"))
			col.Want[i] = duck.Canon(col.F[i])
		}
	case "float64":
		col.Type = arrow.PrimitiveTypes.Float64
		col.F = make([]float64, n)
		for i := range col.F {
			switch rapid.IntRange(0, 7).Draw(t, "fshape") {
			case 0:
				col.F[i] = math.NaN()
			case 1:
				col.F[i] = math.Inf(1)
			case 2:
				col.F[i] = math.Copysign(0, -1)
			default:
				col.F[i] = rapid.Float64().Draw(t, "f64")
			}
			col.Want[i] = duck.Canon(col.F[i])
		}
	case "string", "binary", "large_string":
		col.Type = map[string]arrow.DataType{"string": arrow.BinaryTypes.String, "binary": arrow.BinaryTypes.Binary, "large_string": arrow.BinaryTypes.LargeString}[typ]
		col.S = make([]string, n)
		for i := range col.S {
			col.S[i] = c31Pick(t, "pstr", c31PStrings...)
			col.Want[i] = duck.Canon(col.S[i])
		}
		if typ == "large_string" {
			col.Reject = "either" // accepted as string or rejected as unsupported: both lossless outcomes
		}
	case "fixed":
		w := rapid.IntRange(1, 4).Draw(t, "fixedw")
		col.Type = &arrow.FixedSizeBinaryType{ByteWidth: w}
		col.S = make([]string, n)
		for i := range col.S {
			b := make([]byte, w)
			for j := range b {
				b[j] = byte(rapid.IntRange('a', 'z').Draw(t, "fb"))
			}
			col.S[i] = string(b)
			col.Want[i] = duck.Canon(col.S[i])
		}
	case "bool":
		col.Type = arrow.FixedWidthTypes.Boolean
		col.B = make([]bool, n)
		for i := range col.B {
			col.B[i] = rapid.Bool().Draw(t, "b")
			col.Want[i] = duck.Canon(col.B[i])
		}
	case "decimal":
		prec := int32(c31Pick(t, "prec", 5, 9, 18, 30, 38))
		scale := int32(rapid.IntRange(0, int(min(prec, 12))).Draw(t, "scale"))
		col.Type = &arrow.Decimal128Type{Precision: prec, Scale: scale}
		col.D = make([]decimal128.Num, n)
		digits := int(min(prec, 17))
		for i := range col.D {
			lim := int64(math.Pow10(digits)) - 1
			u := c31DrawInt(t, -lim, lim)
			col.D[i] = decimal128.FromI64(u)
			// documented conversion: DECIMAL -> DOUBLE (arrow's Num.ToFloat64, "lossy
			// for very high-precision decimals"); the harness only checks that it is
			// the nearest-double-or-neighbour of the exact rational value.
			f := col.D[i].ToFloat64(scale)
			r := new(big.Rat).SetFrac(big.NewInt(u), new(big.Int).Exp(big.NewInt(10), big.NewInt(int64(scale)), nil))
			exact, _ := r.Float64()
			if math.Abs(f-exact) > 1e-12*math.Abs(exact) {
				t.Fatalf("HARNESS decimal reference drift: %v vs exact %v", f, exact)
			}
			col.Want[i] = duck.Canon(f)
		}
	case "ts_s", "ts_ms", "ts_us", "ts_ns":
		unit := map[string]arrow.TimeUnit{"ts_s": arrow.Second, "ts_ms": arrow.Millisecond, "ts_us": arrow.Microsecond, "ts_ns": arrow.Nanosecond}[typ]
		tz := c31Pick(t, "tz", "", "UTC")
		col.Type = &arrow.TimestampType{Unit: unit, TimeZone: tz}
		col.I = make([]int64, n)
		far := unit != arrow.Nanosecond && c31Chance(t, "tsfar", 35)
		if far {
			c.class("pq:timestamp-outside-1677..2262")
		}
		for i := range col.I {
			sec := rapid.Int64Range(-2_000_000_000, 7_000_000_000).Draw(t, "tssec")
			if far && c31Chance(t, "tsfarcell", 50) {
				sec = c31FarSec(t)
			}
			nsec := rapid.Int64Range(0, 999_999_999).Draw(t, "tsnsec")
			col.I[i], col.Want[i] = c31TSValue(sec, nsec, unit)
		}
	case "date32":
		col.Type = arrow.FixedWidthTypes.Date32
		col.I = make([]int64, n)
		for i := range col.I {
			col.I[i] = rapid.Int64Range(0, 30000).Draw(t, "date")
		}
		col.Reject = "unsupported column type date32 (documented set: ints, floats, strings, bool, decimal, timestamp)"
	case "list":
		col.Type = arrow.ListOf(arrow.PrimitiveTypes.Int64)
		col.I = make([]int64, n)
		for i := range col.I {
			col.I[i] = rapid.Int64Range(0, 9).Draw(t, "listv")
		}
		col.Reject = "unsupported column type list"
	}
	for i := range col.Want {
		if col.Null[i] {
			col.Want[i] = duck.Null
		}
	}
	return col
}

// c31FarSec draws an instant (unix seconds) far outside the range a signed
// 64-bit NANOSECOND count can hold (1677-09-21 .. 2262-04-11): historical dates
// and the 9999-12-31 "open end" sentinel of warehouse exports. Legal for
// second / millisecond / microsecond TIMESTAMP columns only.
func c31FarSec(t *rapid.T) int64 {
	switch c31Uniform(t, "farkind", 6) {
	case 0:
		return 253402300799 // 9999-12-31T23:59:59Z
	case 1:
		return 253402214400 // 9999-12-31T00:00:00Z
	case 2:
		return 10413792000 + rapid.Int64Range(0, 86400*365).Draw(t, "far2300") // year 2300
	case 3:
		return -11676096000 + rapid.Int64Range(0, 86400*365).Draw(t, "far1600") // year 1600
	case 4:
		return rapid.Int64Range(9_300_000_000, 250_000_000_000).Draw(t, "farfuture")
	}
	return rapid.Int64Range(-60_000_000_000, -9_300_000_000).Draw(t, "farpast")
}

// c31TSValue returns the raw value in the unit and the canonical int64-micros cell.
func c31TSValue(sec, nsec int64, unit arrow.TimeUnit) (int64, string) {
	var raw, us int64
	switch unit {
	case arrow.Second:
		raw, us = sec, sec*1_000_000
	case arrow.Millisecond:
		raw = sec*1_000 + nsec/1_000_000
		us = raw * 1_000
	case arrow.Microsecond:
		raw = sec*1_000_000 + nsec/1_000
		us = raw
	default:
		raw = sec*1_000_000_000 + nsec
		us = raw / 1_000 // documented: nanoseconds / 1000
	}
	return raw, "i:" + strconv.FormatInt(us, 10)
}

func (col *c31PCol) build(mem memory.Allocator, from, to int) arrow.Array {
	bld := array.NewBuilder(mem, col.Type)
	defer bld.Release()
	for i := from; i < to; i++ {
		if col.Null[i] {
			bld.AppendNull()
			continue
		}
		switch b := bld.(type) {
		case *array.Int8Builder:
			b.Append(int8(col.I[i]))
		case *array.Int16Builder:
			b.Append(int16(col.I[i]))
		case *array.Int32Builder:
			b.Append(int32(col.I[i]))
		case *array.Int64Builder:
			b.Append(col.I[i])
		case *array.Uint8Builder:
			b.Append(uint8(col.U[i]))
		case *array.Uint16Builder:
			b.Append(uint16(col.U[i]))
		case *array.Uint32Builder:
			b.Append(uint32(col.U[i]))
		case *array.Uint64Builder:
			b.Append(col.U[i])
		case *array.Float32Builder:
			b.Append(float32(col.F[i]))
		case *array.Float64Builder:
			b.Append(col.F[i])
		case *array.StringBuilder:
			b.Append(col.S[i])
		case *array.LargeStringBuilder:
			b.Append(col.S[i])
		case *array.BinaryBuilder:
			b.Append([]byte(col.S[i]))
		case *array.FixedSizeBinaryBuilder:
			b.Append([]byte(col.S[i]))
		case *array.BooleanBuilder:
			b.Append(col.B[i])
		case *array.Decimal128Builder:
			b.Append(col.D[i])
		case *array.TimestampBuilder:
			b.Append(arrow.Timestamp(col.I[i]))
		case *array.Date32Builder:
			b.Append(arrow.Date32(col.I[i]))
		case *array.ListBuilder:
			b.Append(true)
			b.ValueBuilder().(*array.Int64Builder).Append(col.I[i])
		default:
			panic(fmt.Sprintf("c31: no builder case for %T", bld))
		}
	}
	return bld.NewArray()
}

// c31GenPTimeCol draws the Parquet time column. Returns the column, the
// time_format parameter, expected micros per row and a reject reason.
func c31GenPTimeCol(t *rapid.T, name string, n int, c *c31Case) (*c31PCol, string, []int64, string) {
	kind := c31Pick(t, "ptimekind", "ts", "ts", "ts", "int64", "int64", "int32", "int16", "uint64", "uint32", "float64", "float32", "string", "binary", "badtype")
	col := &c31PCol{Name: name, Desc: "time:" + kind, Null: make([]bool, n), Want: make([]string, n)}
	want := make([]int64, n)
	param, reject := "", ""
	c.class("pqtime:" + kind)
	baseSec := rapid.Int64Range(170_000_000, 7_200_000_000).Draw(t, "pbasesec")
	spread := c31Pick(t, "pspread", int64(0), 50, 9000)
	inst := func() (int64, int64) {
		off := int64(0)
		if spread > 0 {
			off = rapid.Int64Range(-spread, spread).Draw(t, "poff")
		}
		return baseSec + off, rapid.Int64Range(0, 999_999_999).Draw(t, "pnsec")
	}
	drawParam := func(unit string) string {
		if c31Chance(t, "pauto", 40) {
			return ""
		}
		return unit
	}
	switch kind {
	case "ts":
		unit := c31Pick(t, "ptsunit", arrow.Second, arrow.Millisecond, arrow.Microsecond, arrow.Nanosecond)
		col.Type = &arrow.TimestampType{Unit: unit, TimeZone: c31Pick(t, "ptz", "", "UTC")}
		col.I = make([]int64, n)
		param = c31Pick(t, "ptsparam", "", "", "epoch_s", "epoch_ns") // ignored for TIMESTAMP columns
		if unit != arrow.Nanosecond && c31Chance(t, "ptsfar", 25) {
			baseSec = c31FarSec(t)
			c.class("pqtime:timestamp-outside-1677..2262")
		}
		for i := range col.I {
			sec, nsec := inst()
			var cell string
			col.I[i], cell = c31TSValue(sec, nsec, unit)
			want[i], _ = strconv.ParseInt(cell[2:], 10, 64)
		}
	case "int64", "uint64":
		unit := c31Pick(t, "punit", c31Formats...)
		param = drawParam(unit)
		if kind == "int64" {
			col.Type, col.I = arrow.PrimitiveTypes.Int64, make([]int64, n)
		} else {
			col.Type, col.U = arrow.PrimitiveTypes.Uint64, make([]uint64, n)
		}
		for i := 0; i < n; i++ {
			sec, nsec := inst()
			v := c31UnitValue(sec, nsec, unit)
			if kind == "int64" {
				col.I[i] = v
			} else {
				col.U[i] = uint64(v)
			}
			want[i], _ = c31UnitInt(v, param)
		}
	case "int32", "int16", "uint32":
		param = c31Pick(t, "psmallparam", "", "epoch_s", "epoch_ms")
		switch kind {
		case "int32":
			col.Type, col.I = arrow.PrimitiveTypes.Int32, make([]int64, n)
		case "int16":
			col.Type, col.I = arrow.PrimitiveTypes.Int16, make([]int64, n)
		default:
			col.Type, col.U = arrow.PrimitiveTypes.Uint32, make([]uint64, n)
		}
		for i := 0; i < n; i++ {
			var v int64
			switch kind {
			case "int32":
				v = rapid.Int64Range(0, math.MaxInt32).Draw(t, "v32")
				col.I[i] = v
			case "int16":
				v = rapid.Int64Range(0, math.MaxInt16).Draw(t, "v16")
				col.I[i] = v
			default:
				v = rapid.Int64Range(0, math.MaxUint32).Draw(t, "vu32")
				col.U[i] = uint64(v)
			}
			want[i], _ = c31UnitInt(v, param)
		}
	case "float64", "float32":
		unit := c31Pick(t, "pfunit", "epoch_s", "epoch_ms")
		param = drawParam(unit)
		col.F = make([]float64, n)
		col.Type = arrow.PrimitiveTypes.Float64
		if kind == "float32" {
			col.Type = arrow.PrimitiveTypes.Float32
		}
		for i := 0; i < n; i++ {
			sec, nsec := inst()
			f := float64(sec) + float64(nsec/1000)/1e6
			if unit == "epoch_ms" {
				f = float64(sec*1000) + float64(nsec/1000)/1e6
			}
			if kind == "float32" {
				f = float64(float32(f))
			}
			col.F[i] = f
			want[i], _ = c31UnitFloat(f, param)
		}
		if c31Chance(t, "pnan", 5) {
			col.F[c31Uniform(t, "pnanrow", n)] = math.NaN()
			reject = "NaN in time column"
		}
	case "string", "binary":
		col.Type = arrow.BinaryTypes.String
		if kind == "binary" {
			col.Type = arrow.BinaryTypes.Binary
		}
		var tv []c31TimeVal
		param, tv = c31GenTimeColumn(t, n, c)
		col.S = make([]string, n)
		for i, v := range tv {
			col.S[i] = v.Text
			want[i] = v.Want
			if v.Bad {
				reject = "time value not convertible by the documented rules"
			}
		}
	case "badtype":
		bt := c31Pick(t, "pbadtype", "int8", "uint8", "uint16", "bool", "date32")
		col.Desc = "time:" + bt
		switch bt {
		case "int8":
			col.Type, col.I = arrow.PrimitiveTypes.Int8, make([]int64, n)
		case "uint8":
			col.Type, col.U = arrow.PrimitiveTypes.Uint8, make([]uint64, n)
		case "uint16":
			col.Type, col.U = arrow.PrimitiveTypes.Uint16, make([]uint64, n)
		case "bool":
			col.Type, col.B = arrow.FixedWidthTypes.Boolean, make([]bool, n)
		default:
			col.Type, col.I = arrow.FixedWidthTypes.Date32, make([]int64, n)
		}
		for i := 0; i < n; i++ {
			v := int64(i % 100)
			if col.I != nil {
				col.I[i] = v
			}
			if col.U != nil {
				col.U[i] = uint64(v)
			}
			want[i] = c31AutoInt(v) // integer widths: documented auto-detection (seconds)
			if bt == "date32" {
				want[i] = v * 86_400_000_000
			}
		}
		// narrow integers / dates could be converted without loss, so both
		// rejection and that conversion are tolerated; a boolean cannot.
		reject = "either"
		if bt == "bool" {
			reject = "boolean time column"
		}
	}
	if kind != "string" && kind != "binary" {
		if param != "" {
			c.NonTrivial = true
		}
		if c31Chance(t, "pbogus", 3) {
			if verifkit.Excluded("C31-parquet-unknown-time-format-accepted") && kind != "ts" {
				verifkit.CountExcluded("C31-parquet-unknown-time-format-accepted")
			} else {
				param = c31Pick(t, "pbogusformat", "epoch_weeks", "iso")
				c.class("pqtime:bogus-format")
				if kind != "ts" && (reject == "" || reject == "either") {
					// the requested conversion does not exist (documented set:
					// epoch_s|epoch_ms|epoch_us|epoch_ns or empty); TIMESTAMP
					// columns are documented to convert by their own unit.
					reject = "unsupported time_format"
				}
			}
		}
	}
	if c31Chance(t, "pnulltime", 8) {
		col.Null[c31Uniform(t, "pnullrow", n)] = true
		reject = "null in time column"
		c.class("pqtime:null")
	}
	return col, param, want, reject
}

// c31GenParquet draws one Parquet upload.
func c31GenParquet(t *rapid.T) *c31Case {
	c := &c31Case{Kind: "parquet", Query: map[string]string{}, DecimalCols: map[string]bool{}}
	if c31Chance(t, "garbage", 3) {
		c.class("pq:garbage-bytes")
		b := rapid.SliceOfN(rapid.Byte(), 1, 200).Draw(t, "garbage")
		if c31Chance(t, "magic", 50) {
			b = append(append([]byte("PAR1"), b...), []byte("PAR1")...)
		}
		c.File, c.FileText, c.MustReject = b, fmt.Sprintf("garbage %x", b), "not a parquet file"
		return c
	}
	nrows := rapid.IntRange(1, verifkit.Scale(14, 40)).Draw(t, "nrows")
	if c31Chance(t, "manyrows", 4) {
		nrows = rapid.IntRange(50, 400).Draw(t, "nrowsbig")
	}
	ndata := rapid.IntRange(0, 5).Draw(t, "ndata")
	timeName := c31Pick(t, "timename", "time", "time", "time", "ts", "timestamp", "Time")
	names := c31GenNames(t, ndata, "time", timeName)
	timePos := rapid.IntRange(0, ndata).Draw(t, "timepos")
	tcol, param, wantT, treject := c31GenPTimeCol(t, timeName, nrows, c)
	if param != "" {
		c.Query["time_format"] = param
	}
	if timeName != "time" || c31Chance(t, "explicit-time-col", 20) {
		c.Query["time_column"] = timeName
	}
	var cols []*c31PCol
	for i := 0; i <= ndata; i++ {
		if i == timePos {
			cols = append(cols, tcol)
		}
		if i < ndata {
			cols = append(cols, c31GenPCol(t, names[i], nrows, c))
		}
	}
	if ndata > 0 && c31Chance(t, "hdrfault", 4) {
		c.Query["time_column"] = "nosuchcol"
		c.MustReject = "time column not in file"
		c.class("header:notime")
	}

	// ---- write the file
	fields := make([]arrow.Field, len(cols))
	var desc []string
	for i, col := range cols {
		fields[i] = arrow.Field{Name: col.Name, Type: col.Type, Nullable: true}
		desc = append(desc, fmt.Sprintf("%s:%s", col.Name, col.Type))
	}
	schema := arrow.NewSchema(fields, nil)
	nbatches := rapid.IntRange(1, 3).Draw(t, "nbatches")
	rgLen := []int64{1 << 20, 1 << 20, 1, 2, 3, 5, 7, 16}[c31Uniform(t, "rowgroup", 8)]
	if nbatches > 1 || rgLen < int64(nrows) {
		c.class("pq:multi-chunk")
	}
	if rgLen < int64(nrows) {
		c.class("pq:multi-rowgroup")
	}
	wopts := []parquet.WriterProperty{
		parquet.WithMaxRowGroupLength(rgLen),
		parquet.WithDictionaryDefault(rapid.Bool().Draw(t, "dict")),
		parquet.WithCompression(c31Pick(t, "codec", compress.Codecs.Uncompressed, compress.Codecs.Snappy, compress.Codecs.Zstd)),
	}
	if rapid.Bool().Draw(t, "pagev2") {
		wopts = append(wopts, parquet.WithDataPageVersion(parquet.DataPageV2))
	}
	aopts := []pqarrow.WriterOption{}
	if rapid.Bool().Draw(t, "storeschema") {
		aopts = append(aopts, pqarrow.WithStoreSchema())
	}
	var buf bytes.Buffer
	w, err := pqarrow.NewFileWriter(schema, &buf, parquet.NewWriterProperties(wopts...), pqarrow.NewArrowWriterProperties(aopts...))
	if err != nil {
		t.Skipf("harness: cannot create parquet writer for %v: %v", desc, err)
	}
	mem := memory.NewGoAllocator()
	from := 0
	for b := 0; b < nbatches && from < nrows; b++ {
		to := nrows
		if b < nbatches-1 {
			to = from + rapid.IntRange(1, nrows-from).Draw(t, "batchlen")
		}
		arrs := make([]arrow.Array, len(cols))
		for i, col := range cols {
			arrs[i] = col.build(mem, from, to)
		}
		rec := array.NewRecord(schema, arrs, int64(to-from))
		if err := w.WriteBuffered(rec); err != nil {
			t.Skipf("harness: parquet write failed for %v: %v", desc, err)
		}
		rec.Release()
		for _, a := range arrs {
			a.Release()
		}
		from = to
	}
	if err := w.Close(); err != nil {
		t.Skipf("harness: parquet close failed for %v: %v", desc, err)
	}
	c.File = buf.Bytes()
	c.FileText = fmt.Sprintf("parquet rows=%d batches=%d rowgroup=%d schema=[%s]", nrows, nbatches, rgLen, strings.Join(desc, ", "))

	// ---- ground truth
	either := false
	note := func(r string) {
		switch {
		case r == "":
		case r == "either":
			either = true
		case c.MustReject == "":
			c.MustReject = r
		}
	}
	note(treject)
	types := map[string]bool{}
	for _, col := range cols {
		if col != tcol {
			note(col.Reject)
			types[col.Desc] = true
			if col.Decimal {
				c.DecimalCols[col.Name] = true
			}
		}
	}
	if len(types) > 1 {
		c.NonTrivial = true
	}
	if c.MustReject != "" {
		return c
	}
	c.Want = make([]map[string]string, nrows)
	for r := 0; r < nrows; r++ {
		row := map[string]string{"time": c31TimeCell(wantT[r])}
		for _, col := range cols {
			if col != tcol {
				row[col.Name] = col.Want[r]
			}
		}
		c.Want[r] = row
	}
	if either {
		c.class("pq:either-outcome")
	}
	c31DrawFault(t, c)
	return c
}
