//go:build verif

package api

// C11 - Retention only deletes data older than the cutoff.
//
// Generator: two databases sharing a name prefix (prod / prod2), 1-3
// measurements each with shared prefixes (cpu / cpu2 / cpu_total / c), hour- and
// day-level Parquet files whose time ranges are placed relative to a drawn
// cutoff (below, above, straddling, max == cutoff, max == cutoff -/+ 1us, min ==
// cutoff); cutoffs with and without a sub-microsecond fraction; policies with
// and without a measurement filter; one or two rounds (dry run, real run) with
// an optional compaction-shaped merge (hour files -> *_daily.parquet) and a
// later cutoff in between. Three entry points: deleteOldFiles with an explicit
// cutoff (measurements from getMeasurementsToProcess), ExecutePolicy and the
// HTTP execute handler under the clock seam.
//
// Oracle (from an independent DuckDB read-back of every file, and tree hashes):
//  (a) every pre-state row of a covered measurement with time >= cutoff still exists,
//  (b) no remaining file of a covered measurement has max(time) < cutoff,
//  (c) everything outside the covered measurements is byte-identical,
//  (d) a dry run changes nothing and reports the files/rows the real run removes.

import (
	"bytes"
	"context"
	"crypto/sha256"
	"database/sql"
	"encoding/hex"
	"encoding/json"
	"fmt"
	"io"
	"net/http/httptest"
	"os"
	"path/filepath"
	"sort"
	"strings"
	"testing"
	"time"

	"github.com/basekick-labs/arc/internal/compaction"
	"github.com/basekick-labs/arc/internal/config"
	"github.com/basekick-labs/arc/internal/database"
	"github.com/basekick-labs/arc/internal/storage"
	"github.com/basekick-labs/arc/internal/verifkit"
	"github.com/basekick-labs/arc/internal/verifkit/duck"
	"github.com/gofiber/fiber/v2"
	"github.com/rs/zerolog"
	"pgregory.net/rapid"
)

// ---------------------------------------------------------------- fixture

type c11Env struct {
	tmp  string
	root string // storage root
	arc  *database.DuckDB
	ref  *sql.DB
	cdb  *sql.DB // plain DuckDB handed to the real compaction job
	back storage.Backend
	app  *fiber.App
	h    *RetentionHandler
	n    int
}

func c11NewEnv(t testing.TB) *c11Env {
	t.Helper()
	tmp, err := os.MkdirTemp("", "c11-*")
	if err != nil {
		t.Fatalf("HARNESS tempdir: %v", err)
	}
	tmp, _ = filepath.EvalSymlinks(tmp)
	root := filepath.Join(tmp, "data")
	_ = os.MkdirAll(root, 0o755)
	logger := zerolog.New(io.Discard).Level(zerolog.Disabled)
	backend, err := storage.NewLocalBackend(root, logger)
	if err != nil {
		t.Fatalf("HARNESS backend: %v", err)
	}
	arc, err := database.New(&database.Config{MemoryLimit: "512MB", ThreadCount: 2, MaxConnections: 2, LocalStorageRoot: root}, logger)
	// database.New bounds its sandbox lock-down with a 5 s context; on an overloaded machine that is start-up
	// latency, not the property: retry instead of failing the case.
	for attempt := 0; err != nil && attempt < 7; attempt++ {
		arc, err = database.New(&database.Config{MemoryLimit: "512MB", ThreadCount: 2, MaxConnections: 2, LocalStorageRoot: root}, logger)
	}
	if err != nil {
		t.Fatalf("HARNESS database.New: %v", err)
	}
	ref, err := duck.Open()
	if err != nil {
		t.Fatalf("HARNESS duckdb: %v", err)
	}
	if _, err := ref.Exec("SET threads=1"); err != nil {
		t.Fatalf("HARNESS duckdb threads: %v", err)
	}
	cdb, err := duck.Open()
	if err != nil {
		t.Fatalf("HARNESS duckdb: %v", err)
	}
	cdb.SetMaxOpenConns(4)
	_, _ = cdb.Exec("SET threads=1")
	h, err := NewRetentionHandler(backend, arc, &config.RetentionConfig{Enabled: true, DBPath: filepath.Join(tmp, "meta", "retention.db")}, nil, nil, logger)
	if err != nil {
		t.Fatalf("HARNESS NewRetentionHandler: %v", err)
	}
	app := fiber.New(fiber.Config{DisableStartupMessage: true})
	h.RegisterRoutes(app)
	e := &c11Env{tmp: tmp, root: root, arc: arc, ref: ref, cdb: cdb, back: backend, app: app, h: h}
	t.Cleanup(func() {
		VerifSetClock(time.Time{})
		_ = app.Shutdown()
		h.Close()
		ref.Close()
		cdb.Close()
		arc.Close()
		os.RemoveAll(tmp)
	})
	return e
}

func (e *c11Env) httpJSON(method, path string, body any) (int, []byte, error) {
	b, _ := json.Marshal(body)
	req := httptest.NewRequest(method, path, bytes.NewReader(b))
	req.Header.Set("Content-Type", "application/json")
	resp, err := e.app.Test(req, -1)
	if err != nil {
		return 0, nil, err
	}
	defer resp.Body.Close()
	raw, _ := io.ReadAll(resp.Body)
	return resp.StatusCode, raw, nil
}

func c11TreeHash(dir string) map[string]string {
	out := map[string]string{}
	_ = filepath.Walk(dir, func(p string, info os.FileInfo, err error) error {
		if err != nil {
			return nil
		}
		rel, _ := filepath.Rel(dir, p)
		if info.IsDir() {
			out[rel+"/"] = "dir"
			return nil
		}
		b, rerr := os.ReadFile(p)
		if rerr != nil {
			out[rel] = "unreadable"
			return nil
		}
		h := sha256.Sum256(b)
		out[rel] = hex.EncodeToString(h[:8])
		return nil
	})
	return out
}

// c11TreeDiff lists differences; keep(rel) selects the entries to compare.
func c11TreeDiff(a, b map[string]string, keep func(string) bool) string {
	var d []string
	for k, v := range a {
		if !keep(k) {
			continue
		}
		if w, ok := b[k]; !ok {
			d = append(d, "removed "+k)
		} else if w != v {
			d = append(d, "changed "+k)
		}
	}
	for k := range b {
		if _, ok := a[k]; !ok && keep(k) {
			d = append(d, "added "+k)
		}
	}
	sort.Strings(d)
	if len(d) > 8 {
		d = append(d[:8], "...")
	}
	return strings.Join(d, "; ")
}

// ---------------------------------------------------------------- model

type c11Row struct {
	Rid int64 `json:"rid"`
	Us  int64 `json:"time_us"`
}

type c11File struct {
	DB    string   `json:"db"`
	Meas  string   `json:"measurement"`
	Rel   string   `json:"path"` // relative to the storage root
	Class string   `json:"class"`
	Rows  []c11Row `json:"rows"`
}

type c11Case struct {
	Mode      string    `json:"mode"` // direct | policy | http
	Cutoff    string    `json:"cutoff"`
	Retention int       `json:"retention_days"`
	Buffer    int       `json:"buffer_days"`
	PolicyDB  string    `json:"policy_database"`
	Filter    *string   `json:"policy_measurement"`
	Files     []c11File `json:"files"`
	Junk      []c11Junk `json:"unreadable_files"`
	Steps     []string  `json:"steps"`
}

// c11Junk is a *.parquet object retention cannot take MAX(time) from: a
// truncated upload, a zero-row file, or a file without a time column. Its base
// name contains "junk" so the read-back skips it.
type c11Junk struct {
	Rel  string `json:"path"`
	Kind string `json:"kind"`
}

var (
	c11DBs   = []string{"prod", "prod2"}
	c11Meas  = []string{"cpu", "cpu2", "cpu_total", "c"}
	c11Hour  = int64(3600) * 1e6
	c11Day   = 24 * c11Hour
	c11Class = []string{"below", "below", "above", "above", "straddle", "straddle", "maxeq", "maxeq-1us", "maxeq+1us", "mineq"}
)

// c11Times draws the row times (us) of one file for a class relative to the
// cutoff truncated to microseconds (cus).
func c11Times(t *rapid.T, class string, cus int64) []int64 {
	n := rapid.IntRange(1, 4).Draw(t, "nrows")
	near := func(lo, hi int64) int64 { return rapid.Int64Range(lo, hi).Draw(t, "off") }
	var ts []int64
	switch class {
	case "below":
		top := cus - near(c11Hour, 2*c11Day)
		for i := 0; i < n; i++ {
			ts = append(ts, top-near(0, 50*60*1e6))
		}
	case "above":
		bot := cus + near(c11Hour, 2*c11Day)
		for i := 0; i < n; i++ {
			ts = append(ts, bot+near(0, 50*60*1e6))
		}
	case "straddle":
		ts = append(ts, cus-near(1, 30*60*1e6), cus+near(0, 30*60*1e6))
		for i := 2; i < n; i++ {
			ts = append(ts, cus+near(-30*60*1e6, 30*60*1e6))
		}
	case "maxeq", "maxeq-1us", "maxeq+1us":
		mx := cus
		if class == "maxeq-1us" {
			mx = cus - 1
		} else if class == "maxeq+1us" {
			mx = cus + 1
		}
		ts = append(ts, mx)
		for i := 1; i < n; i++ {
			ts = append(ts, mx-near(0, 40*60*1e6))
		}
	case "mineq":
		ts = append(ts, cus)
		for i := 1; i < n; i++ {
			ts = append(ts, cus+near(0, 40*60*1e6))
		}
	}
	sort.Slice(ts, func(i, j int) bool { return ts[i] < ts[j] })
	return ts
}

func c11PathFor(db, meas string, minUs int64, dayLevel bool, name string) string {
	tm := time.UnixMicro(minUs).UTC()
	if dayLevel {
		return fmt.Sprintf("%s/%s/%04d/%02d/%02d/%s_daily.parquet", db, meas, tm.Year(), int(tm.Month()), tm.Day(), name)
	}
	return fmt.Sprintf("%s/%s/%04d/%02d/%02d/%02d/%s.parquet", db, meas, tm.Year(), int(tm.Month()), tm.Day(), tm.Hour(), name)
}

func (e *c11Env) writeFile(rel string, rows []c11Row) error {
	p := filepath.Join(e.root, rel)
	if err := os.MkdirAll(filepath.Dir(p), 0o755); err != nil {
		return err
	}
	vals := make([]string, len(rows))
	for i, r := range rows {
		vals[i] = fmt.Sprintf("(%d, make_timestamp(%d::BIGINT), 'h%d', %d.5::DOUBLE)", r.Rid, r.Us, r.Rid%3, r.Rid)
	}
	q := fmt.Sprintf("COPY (SELECT * FROM (VALUES %s) t(rid, time, host, v) ORDER BY time, rid) TO %s (FORMAT PARQUET)", strings.Join(vals, ", "), duck.SQLString(p))
	_, err := e.ref.Exec(q)
	return err
}

func (e *c11Env) writeJunk(j c11Junk) error {
	p := filepath.Join(e.root, j.Rel)
	if err := os.MkdirAll(filepath.Dir(p), 0o755); err != nil {
		return err
	}
	switch j.Kind {
	case "truncated":
		return os.WriteFile(p, []byte("PAR1\x15\x00\x15\x10truncated"), 0o644)
	case "zero-rows":
		_, err := e.ref.Exec("COPY (SELECT 1::BIGINT AS rid, TIMESTAMP '2024-01-01' AS time, 'h' AS host, 0.5::DOUBLE AS v WHERE false) TO " + duck.SQLString(p) + " (FORMAT PARQUET)")
		return err
	default: // no-time-column
		_, err := e.ref.Exec("COPY (SELECT 1::BIGINT AS rid, 'h' AS host, 0.5::DOUBLE AS v) TO " + duck.SQLString(p) + " (FORMAT PARQUET)")
		return err
	}
}

// readState reads every parquet file below the storage root with the reference
// DuckDB: relative path -> rows.
func (e *c11Env) readState() (map[string][]c11Row, error) {
	out := map[string][]c11Row{}
	var files []string
	for _, f := range duck.FindParquet(e.root) {
		if !strings.Contains(filepath.Base(f), "junk") {
			files = append(files, f)
		}
	}
	if len(files) == 0 {
		return out, nil
	}
	qs := make([]string, len(files))
	for i, f := range files {
		qs[i] = duck.SQLString(f)
		rel, _ := filepath.Rel(e.root, f)
		out[rel] = nil
	}
	rs, err := e.ref.Query("SELECT filename, rid, epoch_us(time) FROM read_parquet([" + strings.Join(qs, ",") + "], filename=true) ORDER BY filename, rid")
	if err != nil {
		return nil, err
	}
	defer rs.Close()
	for rs.Next() {
		var fn string
		var r c11Row
		if err := rs.Scan(&fn, &r.Rid, &r.Us); err != nil {
			return nil, err
		}
		rel, _ := filepath.Rel(e.root, fn)
		out[rel] = append(out[rel], r)
	}
	return out, rs.Err()
}

func c11MeasOf(rel string) string { // "db/measurement"
	parts := strings.SplitN(rel, "/", 3)
	if len(parts) < 3 {
		return rel
	}
	return parts[0] + "/" + parts[1]
}

// ---------------------------------------------------------------- generator

func c11Gen(t *rapid.T, e *c11Env) (*c11Case, time.Time) {
	c := &c11Case{}
	c.Mode = rapid.SampledFrom([]string{"direct", "policy", "http"}).Draw(t, "mode")
	base := time.Date(2024, 5, 10, 0, 0, 0, 0, time.UTC)
	cus := base.UnixMicro() + rapid.Int64Range(0, 2*c11Day).Draw(t, "cutoffOff")
	if rapid.IntRange(0, 2).Draw(t, "roundCutoff") == 0 {
		cus -= cus % (3600 * 1e6) // cutoff on an hour boundary
	}
	frac := int64(0)
	if rapid.IntRange(0, 3).Draw(t, "nsfrac") == 0 {
		frac = rapid.Int64Range(1, 999).Draw(t, "ns")
	}
	cutoff := time.Unix(0, cus*1000+frac).UTC()
	c.Cutoff = cutoff.Format(time.RFC3339Nano)
	c.Retention = rapid.IntRange(1, 40).Draw(t, "retention")
	if rapid.IntRange(0, 7).Draw(t, "hugeRetention") == 0 {
		// "keep (almost) forever" policies: the day count times 24h does not fit a
		// time.Duration (int64 ns overflows above 106751 days), calendar arithmetic does
		c.Retention = rapid.SampledFrom([]int{36500, 106751, 106752, 200000, 365000}).Draw(t, "retentionHuge")
		verifkit.Class("huge-retention")
	}
	c.Buffer = rapid.IntRange(0, c.Retention-1).Draw(t, "buffer")

	rid := int64(0)
	fidx := 0
	present := map[string][]string{}
	for _, db := range c11DBs {
		nm := rapid.IntRange(1, 3).Draw(t, "nmeas")
		start := rapid.IntRange(0, len(c11Meas)-1).Draw(t, "measStart")
		for k := 0; k < nm; k++ {
			m := c11Meas[(start+k)%len(c11Meas)]
			present[db] = append(present[db], m)
			nf := rapid.IntRange(1, 3).Draw(t, "nfiles")
			for f := 0; f < nf; f++ {
				class := rapid.SampledFrom(c11Class).Draw(t, "class")
				ts := c11Times(t, class, cus)
				var rows []c11Row
				for _, u := range ts {
					rid++
					rows = append(rows, c11Row{Rid: rid, Us: u})
				}
				day := rapid.IntRange(0, 3).Draw(t, "daylevel") == 0
				fidx++
				rel := c11PathFor(db, m, ts[0], day, fmt.Sprintf("n%d_f%d", e.n, fidx))
				c.Files = append(c.Files, c11File{DB: db, Meas: m, Rel: rel, Class: class, Rows: rows})
			}
		}
	}
	// unreadable objects: at the very front of a measurement's listing (an old
	// partition directory) or in front of a generated file inside its directory
	if rapid.IntRange(0, 2).Draw(t, "withJunk") == 0 {
		nj := rapid.IntRange(1, 2).Draw(t, "njunk")
		for j := 0; j < nj; j++ {
			f := rapid.SampledFrom(c.Files).Draw(t, "junkNear")
			kind := rapid.SampledFrom([]string{"truncated", "zero-rows", "no-time-column"}).Draw(t, "junkKind")
			var rel string
			switch rapid.IntRange(0, 2).Draw(t, "junkPos") {
			case 0:
				rel = fmt.Sprintf("%s/%s/2019/12/31/23/a_n%d_junk%d.parquet", f.DB, f.Meas, e.n, j)
			case 1:
				rel = filepath.Dir(f.Rel) + fmt.Sprintf("/a_n%d_junk%d.parquet", e.n, j)
			default:
				rel = filepath.Dir(f.Rel) + fmt.Sprintf("/z_n%d_junk%d.parquet", e.n, j)
			}
			c.Junk = append(c.Junk, c11Junk{Rel: rel, Kind: kind})
		}
	}
	c.PolicyDB = rapid.SampledFrom(c11DBs).Draw(t, "policyDB")
	switch rapid.IntRange(0, 4).Draw(t, "filter") {
	case 0, 1: // no filter: every measurement of the database
	case 2:
		s := ""
		c.Filter = &s // empty string means "no filter" as well
	case 3:
		s := rapid.SampledFrom(present[c.PolicyDB]).Draw(t, "filterMeas")
		c.Filter = &s
	default:
		s := rapid.SampledFrom([]string{"cp", "cpu_", "cpu2", "c", "cpu"}).Draw(t, "filterOdd") // may not exist / prefix of others
		c.Filter = &s
	}
	return c, cutoff
}

// ---------------------------------------------------------------- running one retention call

type c11Report struct {
	Files int
	Rows  int64
	Err   string
}

func (e *c11Env) run(t *rapid.T, c *c11Case, mode string, policyID int64, policy *RetentionPolicy, cutoff time.Time, dry bool) c11Report {
	now := cutoff.AddDate(0, 0, c.Retention+c.Buffer)
	switch mode {
	case "direct":
		ms, err := e.h.getMeasurementsToProcess(context.Background(), policy)
		if err != nil {
			return c11Report{Err: err.Error()}
		}
		var rep c11Report
		for _, m := range ms {
			rows, files, err := e.h.deleteOldFiles(context.Background(), policy.Database, m, cutoff, dry, "retention:verif")
			rep.Rows += rows
			rep.Files += files
			if err != nil {
				rep.Err = err.Error()
				break
			}
		}
		return rep
	case "policy":
		VerifSetClock(now)
		defer VerifSetClock(time.Time{})
		if dry { // ExecutePolicy has no dry-run form; the HTTP handler provides it
			return e.runHTTP(t, policyID, true)
		}
		resp, err := e.h.ExecutePolicy(context.Background(), policyID)
		if err != nil {
			return c11Report{Err: err.Error()}
		}
		return c11Report{Files: resp.FilesDeleted, Rows: resp.DeletedCount}
	default:
		VerifSetClock(now)
		defer VerifSetClock(time.Time{})
		return e.runHTTP(t, policyID, dry)
	}
}

func (e *c11Env) runHTTP(t *rapid.T, policyID int64, dry bool) c11Report {
	st, raw, err := e.httpJSON("POST", fmt.Sprintf("/api/v1/retention/%d/execute", policyID), ExecuteRetentionRequest{DryRun: dry, Confirm: !dry})
	if err != nil {
		t.Fatalf("HARNESS http: %v", err)
	}
	if st != 200 {
		return c11Report{Err: fmt.Sprintf("status %d: %s", st, raw)}
	}
	var r ExecuteRetentionResponse
	if err := json.Unmarshal(raw, &r); err != nil {
		t.Fatalf("HARNESS decode: %v (%s)", err, raw)
	}
	if r.DryRun != dry {
		return c11Report{Err: "dry_run flag not echoed: " + string(raw)}
	}
	return c11Report{Files: r.FilesDeleted, Rows: r.DeletedCount}
}

// ---------------------------------------------------------------- the property

func c11Property(t *rapid.T, e *c11Env) {
	e.n++
	c, cutoff := c11Gen(t, e)
	defer func() {
		ents, _ := os.ReadDir(e.root)
		for _, en := range ents {
			os.RemoveAll(filepath.Join(e.root, en.Name()))
		}
	}()
	for _, f := range c.Files {
		if err := e.writeFile(f.Rel, f.Rows); err != nil {
			t.Fatalf("HARNESS write %s: %v", f.Rel, err)
		}
	}

	for _, j := range c.Junk {
		if err := e.writeJunk(j); err != nil {
			t.Fatalf("HARNESS write junk %s: %v", j.Rel, err)
		}
		verifkit.Class("unreadable-file-" + j.Kind)
	}

	// policy
	policy := &RetentionPolicy{Name: fmt.Sprintf("p%d", e.n), Database: c.PolicyDB, Measurement: c.Filter, RetentionDays: c.Retention, BufferDays: c.Buffer, IsActive: true}
	var policyID int64
	if c.Mode != "direct" {
		st, raw, err := e.httpJSON("POST", "/api/v1/retention/", RetentionPolicyRequest{Name: policy.Name, Database: policy.Database, Measurement: policy.Measurement,
			RetentionDays: policy.RetentionDays, BufferDays: policy.BufferDays, IsActive: true})
		if err != nil || st != 201 {
			t.Fatalf("HARNESS create policy: %v status=%d %s", err, st, raw)
		}
		var created RetentionPolicy
		if err := json.Unmarshal(raw, &created); err != nil || created.ID == 0 {
			t.Fatalf("HARNESS create policy decode: %v %s", err, raw)
		}
		policyID = created.ID
	}

	covered := func(rel string) bool { // rel = path relative to the storage root
		parts := strings.Split(rel, "/")
		if len(parts) < 2 || parts[0] != c.PolicyDB {
			return false
		}
		if c.Filter != nil && *c.Filter != "" {
			return parts[1] == *c.Filter
		}
		return true
	}

	rounds := rapid.IntRange(1, 2).Draw(t, "rounds")
	verifkit.Eval()
	verifkit.Class("mode-" + c.Mode)
	if c.Filter != nil && *c.Filter != "" {
		verifkit.Class("policy-with-measurement-filter")
	} else {
		verifkit.Class("policy-whole-database")
	}
	nontrivial := false

	for round := 0; round < rounds; round++ {
		pre, err := e.readState()
		if err != nil {
			t.Fatalf("HARNESS read pre-state: %v", err)
		}
		// classify the layout against this round's cutoff
		for rel, rows := range pre {
			if !covered(rel) || len(rows) == 0 {
				continue
			}
			var old, young int
			mx := rows[0].Us
			for _, r := range rows {
				if time.UnixMicro(r.Us).Before(cutoff) {
					old++
				} else {
					young++
				}
				if r.Us > mx {
					mx = r.Us
				}
			}
			d := time.UnixMicro(mx).Sub(cutoff)
			switch {
			case old > 0 && young > 0:
				verifkit.Class("covered-file-straddling")
				nontrivial = true
			case d > -2*time.Microsecond && d < 2*time.Microsecond:
				verifkit.Class("covered-file-boundary-max")
				nontrivial = true
			case young == 0:
				verifkit.Class("covered-file-all-old")
			default:
				verifkit.Class("covered-file-all-young")
			}
		}
		before := c11TreeHash(e.root)

		// an unconfirmed real run over HTTP must be refused
		if c.Mode == "http" && rapid.IntRange(0, 3).Draw(t, "unconfirmed") == 0 {
			VerifSetClock(cutoff.AddDate(0, 0, c.Retention+c.Buffer))
			st, raw, err := e.httpJSON("POST", fmt.Sprintf("/api/v1/retention/%d/execute", policyID), ExecuteRetentionRequest{})
			VerifSetClock(time.Time{})
			if err != nil {
				t.Fatalf("HARNESS http: %v", err)
			}
			if d := c11TreeDiff(before, c11TreeHash(e.root), func(string) bool { return true }); d != "" || st/100 == 2 {
				t.Fatalf("VERIF-FAIL class=C11/unconfirmed-run-executed status=%d body=%s diff=%s case=%s", st, raw, d, c11JSON(c))
			}
		}

		// (d) dry run
		c.Steps = append(c.Steps, fmt.Sprintf("dry-run cutoff=%s", cutoff.Format(time.RFC3339Nano)))
		dry := e.run(t, c, c.Mode, policyID, policy, cutoff, true)
		if dry.Err != "" {
			t.Fatalf("VERIF-FAIL class=C11/dry-run-error err=%s case=%s", dry.Err, c11JSON(c))
		}
		if d := c11TreeDiff(before, c11TreeHash(e.root), func(string) bool { return true }); d != "" {
			t.Fatalf("VERIF-FAIL class=C11/dry-run-changed-data diff=%s case=%s", d, c11JSON(c))
		}

		// Between the dry run and the confirmed run the object at an existing
		// path may be replaced (restore, import or sync re-delivery, in-place
		// rewrite by the DELETE API). The dry run is then repeated: its report
		// must describe the data as it is now, and so must the real run.
		if rapid.IntRange(0, 2).Draw(t, "replaceAfterDryRun") == 0 && e.replaceSome(t, c, pre, cutoff, covered) {
			pre, err = e.readState()
			if err != nil {
				t.Fatalf("HARNESS read pre-state: %v", err)
			}
			before = c11TreeHash(e.root)
			c.Steps = append(c.Steps, fmt.Sprintf("dry-run cutoff=%s", cutoff.Format(time.RFC3339Nano)))
			dry = e.run(t, c, c.Mode, policyID, policy, cutoff, true)
			if dry.Err != "" {
				t.Fatalf("VERIF-FAIL class=C11/dry-run-error err=%s case=%s", dry.Err, c11JSON(c))
			}
			if d := c11TreeDiff(before, c11TreeHash(e.root), func(string) bool { return true }); d != "" {
				t.Fatalf("VERIF-FAIL class=C11/dry-run-changed-data diff=%s case=%s", d, c11JSON(c))
			}
			nontrivial = true
		}

		// real run
		c.Steps = append(c.Steps, fmt.Sprintf("run cutoff=%s", cutoff.Format(time.RFC3339Nano)))
		real := e.run(t, c, c.Mode, policyID, policy, cutoff, false)
		if real.Err != "" {
			t.Fatalf("VERIF-FAIL class=C11/run-error err=%s case=%s", real.Err, c11JSON(c))
		}
		after := c11TreeHash(e.root)
		post, err := e.readState()
		if err != nil {
			t.Fatalf("VERIF-FAIL class=C11/unreadable-after-run err=%v case=%s", err, c11JSON(c))
		}

		// (c) everything outside the covered measurements is byte-identical
		if d := c11TreeDiff(before, after, func(rel string) bool { return !covered(rel) }); d != "" {
			t.Fatalf("VERIF-FAIL class=C11/uncovered-data-changed diff=%s cutoff=%s case=%s", d, cutoff.Format(time.RFC3339Nano), c11JSON(c))
		}
		// (a) rows at or after the cutoff survive (per covered measurement)
		have := map[string]map[c11Row]int{}
		for rel, rows := range post {
			m := c11MeasOf(rel)
			if have[m] == nil {
				have[m] = map[c11Row]int{}
			}
			for _, r := range rows {
				have[m][r]++
			}
		}
		var goneFiles int
		var goneRows int64
		for rel, rows := range pre {
			if _, still := post[rel]; !still {
				goneFiles++
			}
			if !covered(rel) {
				continue
			}
			m := c11MeasOf(rel)
			for _, r := range rows {
				if have[m][r] > 0 {
					have[m][r]--
					continue
				}
				goneRows++
				if !time.UnixMicro(r.Us).Before(cutoff) {
					t.Fatalf("VERIF-FAIL class=C11/row-at-or-after-cutoff-removed file=%s rid=%d time=%s cutoff=%s case=%s",
						rel, r.Rid, time.UnixMicro(r.Us).UTC().Format(time.RFC3339Nano), cutoff.Format(time.RFC3339Nano), c11JSON(c))
				}
			}
		}
		// (b) no remaining covered file is entirely older than the cutoff
		for rel, rows := range post {
			if !covered(rel) || len(rows) == 0 {
				continue
			}
			allOld := true
			for _, r := range rows {
				if !time.UnixMicro(r.Us).Before(cutoff) {
					allOld = false
				}
			}
			if allOld {
				t.Fatalf("VERIF-FAIL class=C11/expired-file-left file=%s cutoff=%s case=%s", rel, cutoff.Format(time.RFC3339Nano), c11JSON(c))
			}
		}
		// (d) the dry run reported what the real run removed
		if dry.Files != goneFiles || dry.Rows != goneRows {
			t.Fatalf("VERIF-FAIL class=C11/dry-run-report-differs dry=(files %d, rows %d) removed=(files %d, rows %d) run-reported=(files %d, rows %d) cutoff=%s case=%s",
				dry.Files, dry.Rows, goneFiles, goneRows, real.Files, real.Rows, cutoff.Format(time.RFC3339Nano), c11JSON(c))
		}
		if goneFiles > 0 {
			verifkit.Class("run-removed-files")
		}

		if round+1 >= rounds {
			break
		}
		// between rounds: optional compaction-shaped merge, then a later cutoff
		if rapid.Bool().Draw(t, "compact") {
			if e.compactOneDay(t, c, post) {
				verifkit.Class("compaction-merge-between-runs")
			}
		}
		if rapid.IntRange(0, 2).Draw(t, "replaceBetweenRounds") == 0 {
			mid, err := e.readState()
			if err != nil {
				t.Fatalf("HARNESS read state: %v", err)
			}
			e.replaceSome(t, c, mid, cutoff, covered)
		}
		cur, err := e.readState()
		if err != nil {
			t.Fatalf("HARNESS read state: %v", err)
		}
		var rels []string
		for rel, rows := range cur {
			if covered(rel) && len(rows) > 0 {
				rels = append(rels, rel)
			}
		}
		sort.Strings(rels)
		next := cutoff.Add(time.Duration(rapid.Int64Range(1, 2*c11Day).Draw(t, "advanceUs")) * time.Microsecond)
		if len(rels) > 0 && rapid.IntRange(0, 2).Draw(t, "aimAtFile") > 0 {
			rows := cur[rapid.SampledFrom(rels).Draw(t, "aim")]
			mx := rows[0].Us
			for _, r := range rows {
				if r.Us > mx {
					mx = r.Us
				}
			}
			cand := time.UnixMicro(mx + int64(rapid.IntRange(-1, 1).Draw(t, "aimDelta"))).UTC()
			if cand.After(cutoff) {
				next = cand
			}
		}
		cutoff = next
	}
	if nontrivial {
		verifkit.NonTrivial(c11JSON(c))
		if verifkit.SampleCount() < 3 {
			verifkit.Sample(c)
		}
	}
}

// replaceSome rewrites 1-2 existing files at their own paths with different
// content: rows all at/after the cutoff ("restored"), rows all before it, or
// the file minus its rows at/after the cutoff (what DELETE ... WHERE time >= x
// leaves behind). Returns false when there is nothing to replace.
func (e *c11Env) replaceSome(t *rapid.T, c *c11Case, state map[string][]c11Row, cutoff time.Time, covered func(string) bool) bool {
	var rels []string
	maxRid := int64(0)
	for rel, rows := range state {
		for _, r := range rows {
			if r.Rid > maxRid {
				maxRid = r.Rid
			}
		}
		if len(rows) > 0 && (covered(rel) || len(rel)%4 == 0) { // mostly covered files, some others
			rels = append(rels, rel)
		}
	}
	if len(rels) == 0 {
		return false
	}
	sort.Strings(rels)
	cus := cutoff.UnixMicro()
	if time.UnixMicro(cus).Before(cutoff) {
		cus++ // first microsecond that is not before the cutoff
	}
	n := rapid.IntRange(1, 2).Draw(t, "nreplace")
	done := map[string]bool{}
	for i := 0; i < n; i++ {
		rel := rapid.SampledFrom(rels).Draw(t, "replacePath")
		if done[rel] {
			continue
		}
		done[rel] = true
		kind := rapid.SampledFrom([]string{"all-new", "all-old", "drop-new-rows"}).Draw(t, "replaceKind")
		var rows []c11Row
		if kind == "drop-new-rows" {
			for _, r := range state[rel] {
				if r.Us < cus {
					rows = append(rows, r)
				}
			}
			if len(rows) == 0 || len(rows) == len(state[rel]) {
				kind = "all-old"
			}
		}
		if kind != "drop-new-rows" {
			k := rapid.IntRange(1, 3).Draw(t, "replaceRows")
			rows = nil
			for j := 0; j < k; j++ {
				maxRid++
				off := rapid.Int64Range(0, 2*c11Hour).Draw(t, "replaceOff")
				if kind == "all-new" {
					rows = append(rows, c11Row{Rid: maxRid, Us: cus + off})
				} else {
					rows = append(rows, c11Row{Rid: maxRid, Us: cus - 1 - off})
				}
			}
		}
		if err := e.writeFile(rel, rows); err != nil {
			t.Fatalf("HARNESS replace %s: %v", rel, err)
		}
		c.Steps = append(c.Steps, fmt.Sprintf("replace %s with %s %v", rel, kind, rows))
		verifkit.Class("file-replaced-in-place-" + kind)
	}
	return true
}

// compactOneDay compacts the files of one (measurement, day) holding >= 2
// files into a single *_daily.parquet: either with the real daily compaction
// job (compaction.Job.Run on the same backend) or, when that declines the
// inputs, by writing its post-condition directly (merged file, inputs removed).
func (e *c11Env) compactOneDay(t *rapid.T, c *c11Case, state map[string][]c11Row) bool {
	groups := map[string][]string{}
	for rel := range state {
		parts := strings.Split(rel, "/")
		if len(parts) < 6 {
			continue
		}
		g := strings.Join(parts[:5], "/") // db/meas/yyyy/mm/dd
		groups[g] = append(groups[g], rel)
	}
	var keys []string
	for g, fs := range groups {
		if len(fs) >= 2 {
			keys = append(keys, g)
		}
	}
	if len(keys) == 0 {
		return false
	}
	sort.Strings(keys)
	g := rapid.SampledFrom(keys).Draw(t, "compactGroup")
	useJob := rapid.Bool().Draw(t, "realCompactionJob")
	sort.Strings(groups[g])
	out := fmt.Sprintf("%s/n%d_merged_daily.parquet", g, e.n)

	if useJob {
		parts := strings.Split(g, "/")
		job := compaction.NewJob(&compaction.JobConfig{Measurement: parts[1], PartitionPath: g, Files: groups[g], StorageBackend: e.back,
			Database: parts[0], Tier: "daily", TempDirectory: filepath.Join(e.tmp, "compaction"), DB: e.cdb,
			Logger: zerolog.New(io.Discard).Level(zerolog.Disabled), JobID: fmt.Sprintf("c11job%d", e.n)})
		err := job.Run(context.Background())
		var fresh []string
		for _, f := range duck.FindParquet(filepath.Join(e.root, g)) {
			rel, _ := filepath.Rel(e.root, f)
			if _, old := state[rel]; !old && !strings.Contains(filepath.Base(rel), "junk") {
				fresh = append(fresh, rel)
			}
		}
		if err == nil && len(fresh) == 1 {
			// the job names its output after the wall clock; give it a stable name
			if rerr := os.Rename(filepath.Join(e.root, fresh[0]), filepath.Join(e.root, out)); rerr != nil {
				t.Fatalf("HARNESS rename compacted output: %v", rerr)
			}
			c.Steps = append(c.Steps, "compaction-job "+g)
			verifkit.Class("compaction-real-job")
			return true
		}
		if err != nil || len(fresh) > 1 {
			t.Fatalf("HARNESS compaction job: err=%v outputs=%v", err, fresh)
		}
		// the job declined (inputs already count as compacted): fall through
	}
	var rows []c11Row
	for _, rel := range groups[g] {
		rows = append(rows, state[rel]...)
	}
	if err := e.writeFile(out, rows); err != nil {
		t.Fatalf("HARNESS compact write: %v", err)
	}
	for _, rel := range groups[g] {
		p := filepath.Join(e.root, rel)
		_ = os.Remove(p)
		_ = os.Remove(filepath.Dir(p)) // hour directory, when empty
	}
	c.Steps = append(c.Steps, "compact "+g)
	verifkit.Class("compaction-modelled")
	return true
}

func c11JSON(v any) string { b, _ := json.Marshal(v); return string(b) }

func TestVerifC11_RetentionCutoff(t *testing.T) {
	e := c11NewEnv(t)
	rapid.Check(t, func(t *rapid.T) { c11Property(t, e) })
}
