//go:build verif

package api

import (
	"strings"
	"testing"

	sqlutil "github.com/basekick-labs/arc/internal/sql"
	"github.com/basekick-labs/arc/internal/verifkit"
	"github.com/basekick-labs/arc/internal/verifkit/duck"
	"github.com/basekick-labs/arc/internal/verifkit/sqlgen"
	"pgregory.net/rapid"
)

func c15apiOpts() sqlgen.Opts {
	return sqlgen.Opts{
		NoLookalike:      verifkit.Excluded("C15-unmask-lookalike"),
		NoBackslashQuote: verifkit.Excluded("C15-backslash-quote"),
		NoQuoteInComment: verifkit.Excluded("C15-quote-in-comment"),
		NoNestedComment:  verifkit.Excluded("C15-nested-comment"),
	}
}

// (c) comment stripping removes exactly the comment spans DuckDB sees: the
// pipeline the query path uses (scan features -> mask -> strip -> unmask) must
// return the input with each block comment replaced by one space and each line
// comment removed up to (not including) its newline; every other byte unchanged.
func c15StripProp(t *rapid.T, toks []sqlgen.Tok, label string) {
	eofLine := false
	if n := len(toks); n > 0 && toks[n-1].Kind == sqlgen.LComment && rapid.Bool().Draw(t, "eofcomment") {
		toks[n-1].Text = strings.TrimSuffix(toks[n-1].Text, "\n")
		eofLine = true
	}
	s := sqlgen.Join(toks)
	var want strings.Builder
	ncomments := 0
	hasLit := false
	for i, tk := range toks {
		switch tk.Kind {
		case sqlgen.LComment:
			ncomments++
			if !(eofLine && i == len(toks)-1) {
				want.WriteString("\n")
			}
		case sqlgen.BComment:
			ncomments++
			want.WriteString(" ")
		default:
			if sqlgen.IsLiteral(tk.Kind) || tk.Kind == sqlgen.Ident {
				hasLit = true
			}
			want.WriteString(tk.Text)
		}
	}
	verifkit.Eval()
	verifkit.Class(label)
	if ncomments > 0 && hasLit {
		verifkit.NonTrivial(label + ":" + s)
		if verifkit.SampleCount() < 3 {
			verifkit.Sample(map[string]any{"kind": label, "sql": s, "stripped_expected": want.String()})
		}
	}
	f := scanSQLFeatures(s)
	if hasLit && !f.hasQuotes {
		t.Fatalf("VERIF-FAIL class=C15/features-quotes input=%q", s)
	}
	if ncomments > 0 && !(f.hasDashComment || f.hasBlockComment) {
		t.Fatalf("VERIF-FAIL class=C15/features-comments input=%q", s)
	}
	masked, masks := sqlutil.MaskStringLiterals(s, f.hasQuotes)
	stripped := stripSQLComments(masked, f.hasDashComment || f.hasBlockComment)
	got := sqlutil.UnmaskStringLiterals(stripped, masks)
	if got != want.String() {
		t.Fatalf("VERIF-FAIL class=C15/strip-comments\ninput: %q\ngot:   %q\nwant:  %q", s, got, want.String())
	}
}

func TestVerifC15_StripSoup(t *testing.T) {
	rapid.Check(t, func(t *rapid.T) {
		c15StripProp(t, sqlgen.GenSoup(t, c15apiOpts()), "strip-soup")
	})
}

func TestVerifC15_StripDuckConfirmed(t *testing.T) {
	db, err := duck.Open()
	if err != nil {
		t.Fatalf("duckdb: %v", err)
	}
	defer db.Close()
	rapid.Check(t, func(t *rapid.T) {
		toks := sqlgen.GenSelect(t, c15apiOpts())
		s := sqlgen.Join(toks)
		// DuckDB must accept the statement and return the generator's values,
		// which confirms where the comments are.
		_, rows, err := duck.QueryStrings(db, s)
		if err != nil {
			verifkit.Class("duckdb_rejected")
			t.Skip("duckdb rejected")
		}
		k := 0
		for _, tk := range toks {
			if sqlgen.IsLiteral(tk.Kind) {
				if len(rows) != 1 || k >= len(rows[0]) || rows[0][k] != tk.Value {
					t.Fatalf("HARNESS ground truth mismatch %q: %v", s, rows)
				}
				k++
			}
		}
		c15StripProp(t, toks, "strip-select")
	})
}

func TestVerifKF_C15_nested_comment(t *testing.T) {
	s := "SELECT 1 /* a /* b */ c */ AS x"
	f := scanSQLFeatures(s)
	got := stripSQLComments(s, f.hasDashComment || f.hasBlockComment)
	rep := got != "SELECT 1   AS x"
	if db, err := duck.Open(); err == nil {
		defer db.Close()
		if _, rows, qerr := duck.QueryStrings(db, s); qerr != nil || len(rows) != 1 || rows[0][0] != "1" {
			rep = false
		}
	}
	verifkit.KnownFinding("C15-nested-comment", rep, "DuckDB nests block comments; stripSQLComments stops at the first */ and leaves comment text behind: "+got)
}
