//go:build verif

package api

// C18 - Partition pruning never changes query results.
//
// Metamorphic check: the same QueryHandler answers the same SQL once with the
// partition pruner disabled (every file of the measurement is read) and once
// enabled; the row multisets (sequences under a total ORDER BY) must be equal.
// One rapid case = one generated storage layout (hour directories and day-level
// compacted files, boundary-exact rows, data before 2020 / around and after the
// frozen "now") + a batch of generated WHERE clauses over time.
//
// Clock: internal/pruning's time.Now() is frozen through the driver's clock
// seam and DuckDB's now() is shadowed by a macro returning the same instant, so
// NOW()-relative predicates are deterministic and mean the same to both.

import (
	"context"
	"fmt"
	"path/filepath"
	"sort"
	"strings"
	"testing"
	"time"

	"github.com/basekick-labs/arc/internal/pruning"
	"github.com/basekick-labs/arc/internal/storage"
	"github.com/basekick-labs/arc/internal/verifkit"
	"pgregory.net/rapid"
)

const (
	c18FBool      = "C18-boolean-structure-ignored"
	c18FEndOnly   = "C18-end-only-assumes-2020"
	c18FStartOnly = "C18-start-only-assumes-now-plus-1d"
	c18FInclusive = "C18-inclusive-end-on-hour-boundary"
	c18FSuffix    = "C18-time-suffix-column"
	c18FAllTables = "C18-range-applied-to-every-table"
	c18FComment   = "C18-predicate-in-comment"
	c18FArith     = "C18-literal-arithmetic-ignored"
	c18FMonth     = "C18-month-interval-arithmetic"
	c18FOffCast   = "C18-offset-literal-cast-to-timestamp"
)

const c18HourUs = int64(3600) * 1000000
const c18DayUs = 24 * c18HourUs

var c18Nows = []string{
	"2026-03-31T08:17:23Z", // month end: NOW() - INTERVAL '1 month'
	"2026-09-21T22:40:05Z",
	"2027-01-01T00:00:00Z", // exact hour/day/year boundary
	"2026-05-30T13:00:00Z",
}

// ---------------------------------------------------------------- layout

type c18Row struct {
	ID    int64
	Us    int64 // time
	Host  string
	V     int
	EvUs  int64 // event_time
	UpUs  int64 // uptime
	Where string
}

type c18Layout struct {
	DB      string
	NowUs   int64
	Meas    map[string][]qFile // measurement -> files
	Instant []int64            // interesting instants (row times, partition edges)
	MinUs   int64
	MaxUs   int64
	NFiles  map[string]int
	OnHour  map[string][]int64 // measurement -> row instants that lie exactly on an hour
}

var c18Cols = []qCol{{"id", "BIGINT"}, {"time", "TIMESTAMPTZ"}, {"host", "VARCHAR"}, {"v", "BIGINT"},
	{"event_time", "TIMESTAMP"}, {"uptime", "TIMESTAMP"}}

func c18TSNaive(us int64) string {
	return "TIMESTAMP '" + time.UnixMicro(us).UTC().Format("2006-01-02 15:04:05.000000") + "'"
}

func c18DayStart(us int64) int64 { return us - ((us%c18DayUs)+c18DayUs)%c18DayUs }

func (l *c18Layout) addFile(t *rapid.T, meas string, startUs, spanUs int64, dayLevel bool, id *int64, lo, hi int64) {
	ts := timeOfUs(startUs)
	n := len(l.Meas[meas])
	rel := fmt.Sprintf("%s/%s/%s/%s_%d.parquet", l.DB, meas, ts.Format("2006/01/02/15"), meas, n)
	if dayLevel {
		rel = fmt.Sprintf("%s/%s/%s/%s_compacted_%d.parquet", l.DB, meas, ts.Format("2006/01/02"), meas, n)
	}
	f := qFile{Rel: rel, Cols: c18Cols}
	nrows := rapid.IntRange(1, 3).Draw(t, "nrows")
	for r := 0; r < nrows; r++ {
		var off int64
		switch rapid.IntRange(0, 5).Draw(t, "offkind") {
		case 0:
			off = 0
		case 1:
			off = spanUs - 1
		case 2:
			off = 1
		case 3:
			// on an inner hour boundary of a day file / second boundary of an hour file
			if dayLevel {
				off = int64(rapid.IntRange(0, 23).Draw(t, "dh")) * c18HourUs
			} else {
				off = int64(rapid.IntRange(0, 3599).Draw(t, "hs")) * 1000000
			}
		default:
			off = rapid.Int64Range(0, spanUs-1).Draw(t, "offrand")
		}
		*id++
		us := startUs + off
		ev := rapid.Int64Range(lo, hi).Draw(t, "ev") / 1000000 * 1000000
		up := rapid.Int64Range(lo, hi).Draw(t, "up") / 1000000 * 1000000
		host := rapid.SampledFrom([]string{"a", "b", "c"}).Draw(t, "host")
		v := rapid.IntRange(0, 9).Draw(t, "v")
		f.Rows = append(f.Rows, []string{fmt.Sprint(*id), qTSLit(us), "'" + host + "'", fmt.Sprint(v), c18TSNaive(ev), c18TSNaive(up)})
		l.Instant = append(l.Instant, us, us+1, us-1)
		if c18OnHour(us) {
			if l.OnHour == nil {
				l.OnHour = map[string][]int64{}
			}
			l.OnHour[meas] = append(l.OnHour[meas], us)
		}
		if us < l.MinUs {
			l.MinUs = us
		}
		if us > l.MaxUs {
			l.MaxUs = us
		}
	}
	l.Instant = append(l.Instant, startUs, startUs+spanUs, startUs+c18HourUs)
	l.Meas[meas] = append(l.Meas[meas], f)
}

func c18GenLayout(t *rapid.T) *c18Layout {
	now, _ := time.Parse(time.RFC3339, rapid.SampledFrom(c18Nows).Draw(t, "now"))
	l := &c18Layout{NowUs: now.UnixMicro(), Meas: map[string][]qFile{}, MinUs: 1 << 62, MaxUs: -(1 << 62)}
	l.DB = rapid.SampledFrom([]string{"default", "prod"}).Draw(t, "db")
	today := c18DayStart(l.NowUs)
	abs := func(s string) int64 {
		tt, _ := time.Parse("2006-01-02", s)
		return tt.UnixMicro()
	}
	anchors := []int64{abs("2016-02-28"), abs("2019-12-30"), abs("2023-06-10"), abs("2024-02-28"),
		today - 3*c18DayUs, today - c18DayUs, today, today + c18DayUs, today + 2*c18DayUs}
	var id int64
	for mi, meas := range []string{"cpu", "mem"} {
		anchor := anchors[rapid.IntRange(0, len(anchors)-1).Draw(t, "anchor")]
		if mi == 1 && rapid.Bool().Draw(t, "sameanchor") {
			anchor = c18DayStart(l.MinUs)
		}
		ndays := rapid.IntRange(1, 3).Draw(t, "ndays")
		lo, hi := anchor-2*c18DayUs, anchor+int64(ndays+2)*c18DayUs
		for d := 0; d < ndays; d++ {
			day := anchor + int64(d)*c18DayUs
			mode := rapid.IntRange(0, 3).Draw(t, "daymode") // 0 day file only, 1 both, 2/3 hours only
			if mode <= 1 {
				l.addFile(t, meas, day, c18DayUs, true, &id, lo, hi)
			}
			if mode >= 1 {
				nh := rapid.IntRange(1, 4).Draw(t, "nhours")
				seen := map[int]bool{}
				for k := 0; k < nh; k++ {
					h := rapid.SampledFrom([]int{0, 1, 9, 10, 11, 12, 22, 23}).Draw(t, "hour")
					if seen[h] {
						continue
					}
					seen[h] = true
					l.addFile(t, meas, day+int64(h)*c18HourUs, c18HourUs, false, &id, lo, hi)
				}
			}
		}
		// an isolated far-away partition: data before 2020 or in the future
		switch rapid.IntRange(0, 5).Draw(t, "far") {
		case 0:
			l.addFile(t, meas, abs("2017-07-04")+5*c18HourUs, c18HourUs, false, &id, lo, hi)
		case 1:
			l.addFile(t, meas, today+40*c18DayUs+7*c18HourUs, c18HourUs, false, &id, lo, hi)
		case 2:
			l.addFile(t, meas, today+c18DayUs+int64(now.Hour())*c18HourUs+2*c18HourUs, c18HourUs, false, &id, lo, hi)
		}
	}
	return l
}

func (l *c18Layout) install(e *qEnv) error {
	l.NFiles = map[string]int{}
	for meas, files := range l.Meas {
		var rels []string
		for _, f := range files {
			if err := e.writeFile(f); err != nil {
				return err
			}
			rels = append(rels, f.Rel)
		}
		l.NFiles[meas] = len(rels)
		if err := e.defineView(l.DB, meas, rels); err != nil {
			return err
		}
		if l.DB == "default" {
			if err := e.defineView("", meas, rels); err != nil {
				return err
			}
		}
	}
	return nil
}

// c18Freeze freezes the pruner's clock and DuckDB's now() at the same instant.
func c18Freeze(e *qEnv, nowUs int64) error {
	pruning.VerifSetClock(time.UnixMicro(nowUs).UTC())
	lit := "TIMESTAMPTZ '" + time.UnixMicro(nowUs).UTC().Format("2006-01-02 15:04:05.000000") + "+00'"
	if _, err := e.arc.DB().Exec("CREATE OR REPLACE MACRO now() AS " + lit); err != nil {
		return fmt.Errorf("now() macro: %w", err)
	}
	return nil
}

// ---------------------------------------------------------------- WHERE generator

type c18Gen struct {
	t    *rapid.T
	l    *c18Layout
	feat map[string]bool
}

func (g *c18Gen) instant() int64 {
	if rapid.IntRange(0, 9).Draw(g.t, "instkind") < 8 {
		return g.l.Instant[rapid.IntRange(0, len(g.l.Instant)-1).Draw(g.t, "inst")]
	}
	return rapid.Int64Range(g.l.MinUs-3*c18DayUs, g.l.MaxUs+3*c18DayUs).Draw(g.t, "instrand")
}

// literal renders an instant in one of the accepted literal formats and
// returns the text plus the instant the text actually denotes.
func (g *c18Gen) literal(us int64) (string, int64) {
	tt := time.UnixMicro(us).UTC()
	switch rapid.IntRange(0, 10).Draw(g.t, "fmt") {
	case 0, 1:
		s := tt.Format("2006-01-02 15:04:05")
		return s, tt.Truncate(time.Second).UnixMicro()
	case 2:
		return tt.Format("2006-01-02 15:04:05.000000"), us
	case 3:
		g.feat["rfc3339"] = true
		return tt.Format("2006-01-02T15:04:05Z"), tt.Truncate(time.Second).UnixMicro()
	case 4, 9, 10:
		g.feat["tz-offset"] = true
		off := rapid.SampledFrom([]int{2 * 3600, -5*3600 - 1800, 14 * 3600, -8 * 3600, 5*3600 + 45*60}).Draw(g.t, "tzoff")
		z := time.FixedZone("", off)
		return tt.In(z).Format("2006-01-02T15:04:05-07:00"), tt.Truncate(time.Second).UnixMicro()
	case 5:
		g.feat["date-only"] = true
		d := tt.Truncate(24 * time.Hour)
		return d.Format("2006-01-02"), d.UnixMicro()
	case 6:
		m := tt.Truncate(time.Minute)
		return m.Format("2006-01-02 15:04"), m.UnixMicro()
	case 7:
		g.feat["rfc3339"] = true
		return tt.Format("2006-01-02T15:04:05.000000Z"), us
	default:
		h := tt.Truncate(time.Hour)
		g.feat["hour-aligned"] = true
		return h.Format("2006-01-02 15:04:05"), h.UnixMicro()
	}
}

func c18OnHour(us int64) bool { return ((us%c18HourUs)+c18HourUs)%c18HourUs == 0 }

func (g *c18Gen) timeCol(alias string) string {
	c := rapid.SampledFrom([]string{"time", "time", "time", "TIME", "Time"}).Draw(g.t, "timecase")
	if alias != "" {
		return alias + "." + c
	}
	return c
}

func (g *c18Gen) opsp(op string) string {
	switch rapid.IntRange(0, 3).Draw(g.t, "opsp") {
	case 0:
		return op
	case 1:
		return " " + op
	default:
		return " " + op + " "
	}
}

// relative returns "NOW() - INTERVAL 'n unit'" text near the instant us.
func (g *c18Gen) relative(us int64) string {
	diff := us - g.l.NowUs
	sign := "+"
	if diff < 0 {
		sign, diff = "-", -diff
	}
	unit := rapid.SampledFrom([]string{"second", "minutes", "hour", "hours", "day", "days", "week", "month", "months"}).Draw(g.t, "unit")
	if strings.HasPrefix(unit, "month") && verifkit.Excluded(c18FMonth) {
		verifkit.CountExcluded(c18FMonth)
		unit = "days"
	}
	per := map[string]int64{"second": 1000000, "minutes": 60000000, "hour": c18HourUs, "hours": c18HourUs,
		"day": c18DayUs, "days": c18DayUs, "week": 7 * c18DayUs, "month": 30 * c18DayUs, "months": 30 * c18DayUs}[unit]
	n := diff / per
	if n > 100000 {
		n = 100000
	}
	g.feat["relative"] = true
	if strings.HasPrefix(unit, "month") {
		g.feat["relative-month"] = true
	}
	fn := rapid.SampledFrom([]string{"NOW()", "now()", "NOW( )", "now ()"}).Draw(g.t, "nowfn")
	iv := rapid.SampledFrom([]string{"INTERVAL", "interval"}).Draw(g.t, "ivkw")
	return fmt.Sprintf("%s %s %s '%d %s'", fn, sign, iv, n, unit)
}

type c18Bound struct {
	text string
}

// lower / upper produce one time predicate. relOK allows NOW()-relative forms.
func (g *c18Gen) lower(alias string, us int64) string {
	op := rapid.SampledFrom([]string{">=", ">"}).Draw(g.t, "lop")
	if rapid.IntRange(0, 5).Draw(g.t, "lrel") == 0 && us > g.l.NowUs-200*c18DayUs && us < g.l.NowUs+200*c18DayUs {
		return g.timeCol(alias) + g.opsp(op) + g.relative(us)
	}
	lit, _ := g.literal(us)
	return g.timeCol(alias) + g.opsp(op) + "'" + lit + "'" + g.castSuffix(lit)
}

// castSuffix optionally appends a cast to the literal. A literal carrying a UTC
// offset that is cast to the zone-less TIMESTAMP is a known finding (DuckDB
// drops the offset, the pruner applies it).
// boundLit is a literal bound with a fixed operator (no relative form).
func (g *c18Gen) boundLit(alias, op string, us int64) string {
	lit, _ := g.literal(us)
	return g.timeCol(alias) + g.opsp(op) + "'" + lit + "'" + g.castSuffix(lit)
}

func (g *c18Gen) castSuffix(lit string) string {
	switch rapid.IntRange(0, 9).Draw(g.t, "cast") {
	case 0:
		return "::TIMESTAMPTZ"
	case 1:
		if c18HasOffset(lit) {
			if verifkit.Excluded(c18FOffCast) {
				verifkit.CountExcluded(c18FOffCast)
				return "::TIMESTAMPTZ"
			}
			g.feat["offset-literal-cast-timestamp"] = true
		}
		return "::TIMESTAMP"
	}
	return ""
}

// c18HasOffset: the literal ends in a non-zero +hh:mm / -hh:mm offset.
func c18HasOffset(lit string) bool {
	if len(lit) < 7 {
		return false
	}
	tail := lit[len(lit)-6:]
	return (tail[0] == '+' || tail[0] == '-') && tail[3] == ':' && strings.Contains(lit, "T") && tail != "+00:00"
}

func (g *c18Gen) upper(alias string, us int64) string {
	op := rapid.SampledFrom([]string{"<", "<="}).Draw(g.t, "uop")
	if rapid.IntRange(0, 5).Draw(g.t, "urel") == 0 && us > g.l.NowUs-200*c18DayUs && us < g.l.NowUs+200*c18DayUs {
		// relative bounds are never exactly on an hour unless now is
		if op == "<=" && c18OnHour(g.l.NowUs) && verifkit.Excluded(c18FInclusive) {
			op = "<"
			verifkit.CountExcluded(c18FInclusive)
		}
		return g.timeCol(alias) + g.opsp(op) + g.relative(us)
	}
	lit, den := g.literal(us)
	if op == "<=" && c18OnHour(den) {
		if verifkit.Excluded(c18FInclusive) {
			verifkit.CountExcluded(c18FInclusive)
			op = "<"
		} else {
			g.feat["inclusive-end-on-hour"] = true
		}
	}
	return g.timeCol(alias) + g.opsp(op) + "'" + lit + "'" + g.castSuffix(lit)
}

func (g *c18Gen) between(alias string, a, b int64) string {
	la, _ := g.literal(a)
	lb, den := g.literal(b)
	if c18OnHour(den) {
		if verifkit.Excluded(c18FInclusive) {
			verifkit.CountExcluded(c18FInclusive)
			lb = time.UnixMicro(den + 17*60*1000000).UTC().Format("2006-01-02 15:04:05")
		} else {
			g.feat["inclusive-end-on-hour"] = true
		}
	}
	g.feat["between"] = true
	kw := rapid.SampledFrom([]string{"BETWEEN", "between"}).Draw(g.t, "btw")
	return g.timeCol(alias) + " " + kw + " '" + la + "' AND '" + lb + "'"
}

func (g *c18Gen) other(alias string) string {
	p := ""
	if alias != "" {
		p = alias + "."
	}
	switch rapid.IntRange(0, 6).Draw(g.t, "other") {
	case 0:
		return p + "host = '" + rapid.SampledFrom([]string{"a", "b", "c"}).Draw(g.t, "oh") + "'"
	case 1:
		return p + "v > " + fmt.Sprint(rapid.IntRange(0, 8).Draw(g.t, "ov"))
	case 2:
		return "(" + p + "host = 'a' OR " + p + "v < 4)"
	case 3:
		return "NOT (" + p + "v = 3)"
	case 4:
		return p + "host <> 'x ORDER BY y LIMIT 1'"
	case 5:
		return p + "host <> 'GROUP BY time'"
	default:
		return p + "v IS NOT NULL"
	}
}

// rangePreds returns the conjuncts of a two-sided (or, with the relevant
// findings fixed, one-sided) range over alias.time.
func (g *c18Gen) rangePreds(alias string) []string {
	a, b := g.instant(), g.instant()
	if a > b {
		a, b = b, a
	}
	if rapid.IntRange(0, 4).Draw(g.t, "widen") == 0 {
		b += int64(rapid.IntRange(1, 30).Draw(g.t, "widenh")) * c18HourUs
	}
	// move the bounds off the row instants by up to two hours (in seconds), so
	// that bounds fall at arbitrary minutes inside and between partitions
	if rapid.Bool().Draw(g.t, "jittera") {
		a -= int64(rapid.IntRange(0, 7200).Draw(g.t, "ja")) * 1000000
	}
	if rapid.Bool().Draw(g.t, "jitterb") {
		b += int64(rapid.IntRange(0, 7200).Draw(g.t, "jb")) * 1000000
	}
	kind := rapid.IntRange(0, 9).Draw(g.t, "rangekind")
	switch {
	case kind == 0:
		return []string{g.between(alias, a, b)}
	case kind == 1:
		if verifkit.Excluded(c18FStartOnly) {
			verifkit.CountExcluded(c18FStartOnly)
			break
		}
		g.feat["start-only"] = true
		return []string{g.lower(alias, a)}
	case kind == 2:
		if verifkit.Excluded(c18FEndOnly) {
			verifkit.CountExcluded(c18FEndOnly)
			break
		}
		g.feat["end-only"] = true
		return []string{g.upper(alias, b)}
	}
	out := []string{g.lower(alias, a), g.upper(alias, b)}
	if rapid.IntRange(0, 5).Draw(g.t, "extrabound") == 0 {
		// a redundant looser bound (any conjunct is a valid bound)
		out = append(out, g.lower(alias, a-int64(rapid.IntRange(0, 50).Draw(g.t, "looser"))*c18HourUs))
	}
	return out
}

type c18Query struct {
	SQL     string          `json:"sql"`
	Hdr     string          `json:"header"`
	Ordered bool            `json:"ordered"`
	Tables  []string        `json:"tables"`
	Feat    map[string]bool `json:"features"`
}

func (g *c18Gen) tableRef(meas string, hdr string) string {
	if hdr == "" && g.l.DB != "default" {
		return g.l.DB + "." + meas
	}
	return meas
}

func (g *c18Gen) wsJoin(parts []string) string {
	var b strings.Builder
	for i, p := range parts {
		if i > 0 {
			b.WriteString(rapid.SampledFrom([]string{" ", " ", " ", "\n", "\n  ", "\t"}).Draw(g.t, "ws"))
		}
		b.WriteString(p)
	}
	return b.String()
}

func c18GenQuery(t *rapid.T, l *c18Layout) c18Query {
	g := &c18Gen{t: t, l: l, feat: map[string]bool{}}
	hdr := ""
	if l.DB == "default" {
		hdr = rapid.SampledFrom([]string{"", "default"}).Draw(t, "hdr")
	} else {
		hdr = rapid.SampledFrom([]string{"", l.DB}).Draw(t, "hdr")
	}
	q := c18Query{Hdr: hdr, Feat: g.feat}
	main := rapid.SampledFrom([]string{"cpu", "cpu", "mem"}).Draw(t, "main")
	other := "mem"
	if main == "mem" {
		other = "cpu"
	}
	q.Tables = []string{main}

	shape := rapid.IntRange(0, 11).Draw(t, "shape")
	if shape >= 10 {
		shape = 8 // IN-subquery shapes get extra weight
	}
	alias := ""
	if rapid.Bool().Draw(t, "usealias") || shape >= 7 {
		alias = "t"
	}
	// the range is generated over a placeholder alias so that it can be
	// restated for another table
	rangeTmpl := g.rangePreds("@T@")
	restate := func(a string) []string {
		out := make([]string, len(rangeTmpl))
		for i, p := range rangeTmpl {
			if a == "" {
				out[i] = strings.ReplaceAll(p, "@T@.", "")
			} else {
				out[i] = strings.ReplaceAll(p, "@T@.", a+".")
			}
		}
		return out
	}
	conj := restate(alias)
	rangeText := rangeTmpl
	for i, n := 0, rapid.IntRange(0, 2).Draw(t, "nother"); i < n; i++ {
		conj = append(conj, g.other(alias))
	}
	// ---- shapes that are known findings (generated only once fixed)
	if !verifkit.Excluded(c18FBool) && rapid.IntRange(0, 5).Draw(t, "bool") == 0 {
		g.feat["bool-structure"] = true
		i := rapid.IntRange(0, len(rangeText)-1).Draw(t, "boolwhich")
		switch rapid.IntRange(0, 2).Draw(t, "boolkind") {
		case 0:
			conj[i] = "(" + conj[i] + " OR " + g.other(alias) + ")"
		case 1:
			conj[i] = "NOT (" + conj[i] + ")"
		default:
			conj[i] = "(CASE WHEN " + conj[i] + " THEN 1 ELSE 0 END) = 0"
		}
	} else if verifkit.Excluded(c18FBool) {
		verifkit.CountExcluded(c18FBool)
	}
	if !verifkit.Excluded(c18FSuffix) {
		if rapid.IntRange(0, 5).Draw(t, "suffix") == 0 {
			g.feat["suffix-column"] = true
			col := rapid.SampledFrom([]string{"event_time", "uptime"}).Draw(t, "sufcol")
			if alias != "" {
				col = alias + "." + col
			}
			lit, _ := g.literal(g.instant())
			conj = append(conj, col+" "+rapid.SampledFrom([]string{">=", "<", ">", "<="}).Draw(t, "sufop")+" '"+lit+"'")
		}
	} else {
		verifkit.CountExcluded(c18FSuffix)
	}
	if !verifkit.Excluded(c18FArith) {
		if rapid.IntRange(0, 7).Draw(t, "arith") == 0 {
			g.feat["literal-arith"] = true
			lit, _ := g.literal(g.instant())
			conj = append(conj, g.timeCol(alias)+" >= '"+lit+"'::TIMESTAMPTZ - INTERVAL '"+fmt.Sprint(rapid.IntRange(1, 48).Draw(t, "arh"))+" hours'")
		}
	} else {
		verifkit.CountExcluded(c18FArith)
	}
	// shuffle conjuncts
	perm := rapid.Permutation(conj).Draw(t, "conjperm")
	for i, p := range perm {
		if rapid.IntRange(0, 6).Draw(t, "paren") == 0 {
			perm[i] = "(" + p + ")"
		}
	}
	where := strings.Join(perm, rapid.SampledFrom([]string{" AND ", " and ", "\nAND "}).Draw(t, "andkw"))
	comment := ""
	if rapid.IntRange(0, 5).Draw(t, "comment") == 0 {
		if !verifkit.Excluded(c18FComment) && rapid.Bool().Draw(t, "cmtpred") {
			g.feat["predicate-in-comment"] = true
			lit, _ := g.literal(g.instant())
			comment = " -- AND time >= '" + lit + "'\n"
		} else {
			if verifkit.Excluded(c18FComment) {
				verifkit.CountExcluded(c18FComment)
			}
			comment = " /* recent rows only */ "
		}
	}
	tref := g.tableRef(main, hdr)
	from := tref
	if alias != "" {
		from += " " + alias
	}
	col := func(c string) string {
		if alias != "" {
			return alias + "." + c
		}
		return c
	}
	wkw := rapid.SampledFrom([]string{"WHERE", "where", "Where"}).Draw(t, "wkw")
	switch {
	case shape <= 2:
		parts := []string{"SELECT " + col("id") + ", " + col("host") + ", " + col("v") + ", " + col("time"), "FROM " + from, wkw + " " + where + comment}
		if rapid.Bool().Draw(t, "orderlimit") {
			parts = append(parts, "ORDER BY "+col("id"))
			q.Ordered = true
			if rapid.Bool().Draw(t, "limit") {
				parts = append(parts, "LIMIT "+fmt.Sprint(rapid.IntRange(1, 5).Draw(t, "lim")))
			}
		}
		q.SQL = g.wsJoin(parts)
	case shape <= 4:
		g.feat["aggregate"] = true
		q.SQL = g.wsJoin([]string{"SELECT count(*) AS n, sum(" + col("v") + ") AS s, min(" + col("id") + ") AS lo, max(" + col("time") + ") AS hi", "FROM " + from, wkw + " " + where + comment})
	case shape <= 6:
		g.feat["group-by"] = true
		q.SQL = g.wsJoin([]string{"SELECT " + col("host") + " AS h, count(*) AS n, min(" + col("time") + ") AS lo", "FROM " + from, wkw + " " + where + comment,
			rapid.SampledFrom([]string{"GROUP BY", "group by"}).Draw(t, "gkw") + " " + col("host"), "ORDER BY 1"})
		q.Ordered = true
	case shape == 7:
		// join: the SAME range on both tables is the shape a per-query range supports
		g.feat["join"] = true
		q.Tables = append(q.Tables, other)
		same := strings.Join(restate("u"), " AND ")
		joinWhere := where + " AND " + same
		if !verifkit.Excluded(c18FAllTables) && rapid.Bool().Draw(t, "joinonesided") {
			g.feat["range-on-one-table-only"] = true
			joinWhere = where
		} else if verifkit.Excluded(c18FAllTables) {
			verifkit.CountExcluded(c18FAllTables)
		}
		jk := rapid.SampledFrom([]string{"JOIN", "LEFT JOIN", "INNER JOIN"}).Draw(t, "jk")
		q.SQL = g.wsJoin([]string{"SELECT t.id, u.id AS uid, t.v", "FROM " + tref + " t", jk + " " + g.tableRef(other, hdr) + " u ON t.host = u.host", wkw + " " + joinWhere + comment})
	case shape == 8:
		g.feat["subquery"] = true
		q.Tables = append(q.Tables, other)
		inner := strings.Join(restate(""), " AND ")
		if !verifkit.Excluded(c18FAllTables) && rapid.Bool().Draw(t, "subonesided") {
			g.feat["range-on-one-table-only"] = true
			a, b := g.instant(), g.instant()
			if a > b {
				a, b = b, a
			}
			inner = g.lower("", a) + " AND " + g.upper("", b+c18HourUs)
			if rapid.Bool().Draw(t, "outerhasrange") {
				where = g.other("t")
			}
		} else if verifkit.Excluded(c18FAllTables) {
			verifkit.CountExcluded(c18FAllTables)
		}
		innerTable := other
		if rapid.IntRange(0, 2).Draw(t, "outerwider") > 0 {
			// The outer range is written first with >= and <, and is strictly
			// wider than the subquery's own range. The pruner's first-match rule
			// then takes the OUTER bounds: exact for the outer table, a superset
			// for the subquery's table - so this shape is sound on the current
			// implementation even while C18-range-applied-to-every-table is
			// open (it is not the excluded shape: no table is pruned by a range
			// that does not contain what it needs).
			g.feat["subquery-narrower-range"] = true
			ins := []int64{g.instant(), g.instant(), g.instant(), g.instant()}
			sort.Slice(ins, func(i, j int) bool { return ins[i] < ins[j] })
			oa := ins[0] - int64(rapid.IntRange(0, 72).Draw(t, "owa"))*c18HourUs
			ob := ins[3] + int64(rapid.IntRange(1, 72).Draw(t, "owb"))*c18HourUs
			outer := []string{g.boundLit("t", ">=", oa), g.boundLit("t", "<", ob)}
			for i, n := 0, rapid.IntRange(0, 2).Draw(t, "owother"); i < n; i++ {
				outer = append(outer, g.other("t"))
			}
			where = strings.Join(outer, " AND ")
			lop := rapid.SampledFrom([]string{">=", ">"}).Draw(t, "iwl")
			uop := rapid.SampledFrom([]string{"<", "<="}).Draw(t, "iwu")
			ib := ins[2]
			if uop == "<=" && c18OnHour(ib) && verifkit.Excluded(c18FInclusive) {
				ib += 17 * 60 * 1000000 // keep clear of the inclusive-end boundary shape
			}
			inner = g.boundLit("", lop, ins[1]) + " AND " + g.boundLit("", uop, ib)
			if rapid.Bool().Draw(t, "iwsame") {
				innerTable = main
			}
			if rapid.Bool().Draw(t, "iwpred") {
				inner += " AND " + g.other("")
			}
		}
		if innerTable == main {
			q.Tables = q.Tables[:1]
		}
		q.SQL = g.wsJoin([]string{"SELECT t.id, t.host, t.v", "FROM " + tref + " t", wkw + " " + where + " AND t.host IN (SELECT host FROM " + g.tableRef(innerTable, hdr) + " WHERE " + inner + ")" + comment})
	default:
		g.feat["union"] = true
		q.Tables = append(q.Tables, other)
		second := "SELECT id, host, v FROM " + g.tableRef(other, hdr) + " WHERE " + strings.Join(restate(""), " AND ")
		if !verifkit.Excluded(c18FAllTables) && rapid.Bool().Draw(t, "uniononesided") {
			g.feat["range-on-one-table-only"] = true
			second = "SELECT id, host, v FROM " + g.tableRef(other, hdr) + " WHERE " + g.other("")
		} else if verifkit.Excluded(c18FAllTables) {
			verifkit.CountExcluded(c18FAllTables)
		}
		q.SQL = g.wsJoin([]string{"SELECT t.id, t.host, t.v", "FROM " + tref + " t", wkw + " " + where, "UNION ALL", second})
	}
	return q
}

// ---------------------------------------------------------------- execution

// c18Narrowed reports whether pruning is active for the query and narrows the
// file set of at least one referenced measurement.
func c18Narrowed(e *qEnv, l *c18Layout, q c18Query) bool {
	narrowed := false
	for _, meas := range q.Tables {
		path := storage.GetStoragePath(e.h.storage, l.DB, meas)
		res, ok := e.h.pruner.OptimizeTablePath(context.Background(), path, q.SQL)
		if !ok {
			continue
		}
		var pats []string
		switch x := res.(type) {
		case string:
			pats = []string{x}
		case []string:
			pats = x
		}
		files := map[string]bool{}
		for _, p := range pats {
			m, _ := filepath.Glob(p)
			for _, f := range m {
				files[f] = true
			}
		}
		if len(files) < l.NFiles[meas] {
			narrowed = true
		}
	}
	return narrowed
}

// c18Metamorphic runs the query with the pruner off and on.
func c18Metamorphic(e *qEnv, q c18Query) (class, detail string, narrowedHint bool) {
	e.h.pruner.VerifSetEnabled(false)
	e.h.InvalidateCaches()
	full := e.arcQuery(q.SQL, q.Hdr)
	e.h.pruner.VerifSetEnabled(true)
	e.h.InvalidateCaches()
	pruned := e.arcQuery(q.SQL, q.Hdr)
	if full.Status == -1 || pruned.Status == -1 {
		return "harness", full.Err + pruned.Err, false
	}
	switch {
	case !full.OK && !pruned.OK:
		verifkit.Class("both-fail")
		verifkit.Class("both-fail:" + qShort(full.Err))
		return "", "", false
	case full.OK != pruned.OK:
		return "one-sided-failure", fmt.Sprintf("unpruned ok=%v status=%d err=%q; pruned ok=%v status=%d err=%q", full.OK, full.Status, full.Err, pruned.OK, pruned.Status, pruned.Err), false
	}
	if d := qCompare(full, pruned, q.Ordered); d != "" {
		return "rows-differ", "unpruned (want) vs pruned (got): " + d, false
	}
	if len(full.Rows) > 0 {
		verifkit.Class("nonempty-result")
	}
	return "", "", true
}

// c18CachePairs: two DIFFERENT statements over the same hour-aligned window -
// one with an exclusive, one with an inclusive upper bound X, a row stamped
// exactly at X - run back to back on the pruning handler WITHOUT clearing any
// cache in between (both orders). Each pruned answer must equal that
// statement's own unpruned answer; anything the pruner caches across statements
// must therefore be keyed by everything that decides the path list.
func c18CachePairs(t *rapid.T, e *qEnv, l *c18Layout) {
	var meass []string
	for _, m := range []string{"cpu", "mem"} {
		if len(l.OnHour[m]) > 0 {
			meass = append(meass, m)
		}
	}
	if len(meass) == 0 {
		return
	}
	g := &c18Gen{t: t, l: l, feat: map[string]bool{}}
	meas := rapid.SampledFrom(meass).Draw(t, "pairmeas")
	x := rapid.SampledFrom(l.OnHour[meas]).Draw(t, "pairx")
	a := x - int64(rapid.IntRange(1, 30).Draw(t, "pairspan"))*c18HourUs
	hdr := ""
	if l.DB == "default" {
		hdr = rapid.SampledFrom([]string{"", "default"}).Draw(t, "pairhdr")
	} else {
		hdr = rapid.SampledFrom([]string{"", l.DB}).Draw(t, "pairhdr")
	}
	f := func(us int64) string { return time.UnixMicro(us).UTC().Format("2006-01-02 15:04:05") }
	sel := rapid.SampledFrom([]string{"SELECT id, host, v FROM ", "SELECT count(*) AS n, max(time) AS hi FROM "}).Draw(t, "pairsel")
	excl := sel + g.tableRef(meas, hdr) + " WHERE time >= '" + f(a) + "' AND time < '" + f(x) + "'"
	incl := sel + g.tableRef(meas, hdr) + " WHERE time >= '" + f(a) + "' AND time <= '" + f(x) + "'"
	if rapid.Bool().Draw(t, "pairbetween") {
		incl = sel + g.tableRef(meas, hdr) + " WHERE time BETWEEN '" + f(a) + "' AND '" + f(x) + "'"
	}
	texts := []string{excl, incl}
	e.h.pruner.VerifSetEnabled(false)
	e.h.InvalidateCaches()
	full := []qResult{e.arcQuery(excl, hdr), e.arcQuery(incl, hdr)}
	e.h.pruner.VerifSetEnabled(true)
	verifkit.Eval()
	verifkit.Class("cache-pair")
	if full[0].OK && full[1].OK && len(full[1].Rows) > 0 && qCompare(full[0], full[1], false) != "" {
		verifkit.NonTrivial("pair\x00" + excl + "\x00" + incl + strings.Join(c18FileList(l), ","))
	}
	for order := 0; order < 2; order++ {
		e.h.InvalidateCaches()
		for k := 0; k < 2; k++ {
			i := k
			if order == 1 {
				i = 1 - k
			}
			got := e.arcQuery(texts[i], hdr)
			if got.OK != full[i].OK {
				t.Fatalf("VERIF-FAIL class=C18/cache-pair-one-sided-failure\nsequence (pruning on, caches not cleared in between): %q\nfailing: %q\nunpruned ok=%v err=%q pruned ok=%v err=%q", []string{texts[order], texts[1-order]}, texts[i], full[i].OK, full[i].Err, got.OK, got.Err)
			}
			if !got.OK {
				continue
			}
			if d := qCompare(full[i], got, false); d != "" {
				t.Fatalf("VERIF-FAIL class=C18/cache-pair-rows-differ\nnow: %s db=%s header=%q\nsequence (pruning on, caches not cleared in between):\n  1: %q\n  2: %q\nfailing: %q\nunpruned (want) vs pruned (got): %s\nfiles: %v",
					timeOfUs(l.NowUs).Format(time.RFC3339), l.DB, hdr, texts[order], texts[1-order], texts[i], d, c18FileList(l))
			}
		}
	}
}

func c18FailClass(q c18Query) string {
	// root-cause key from the generator's knowledge of the shape
	keys := []string{"offset-literal-cast-timestamp", "bool-structure", "suffix-column", "literal-arith", "predicate-in-comment", "range-on-one-table-only",
		"start-only", "end-only", "inclusive-end-on-hour", "relative-month"}
	for _, k := range keys {
		if q.Feat[k] {
			return k
		}
	}
	return "two-sided-conjunctive-range"
}

func TestVerifC18_Pruning(t *testing.T) {
	perLayout := verifkit.Scale(30, 80)
	var tEnv, tQ time.Duration
	defer func() {
		pruning.VerifSetClock(time.Time{})
		verifkit.Note("timing_ms", map[string]int64{"env+layout": tEnv.Milliseconds(), "queries": tQ.Milliseconds()})
	}()
	rapid.Check(t, func(t *rapid.T) {
		t0 := time.Now()
		e, err := qNewEnv()
		if err != nil {
			t.Fatalf("HARNESS env: %v", err)
		}
		defer e.Close()
		l := c18GenLayout(t)
		if err := l.install(e); err != nil {
			t.Fatalf("HARNESS layout: %v", err)
		}
		if err := c18Freeze(e, l.NowUs); err != nil {
			t.Fatalf("HARNESS freeze: %v", err)
		}
		verifkit.Class("layouts")
		t1 := time.Now()
		for i := 0; i < perLayout; i++ {
			q := c18GenQuery(t, l)
			verifkit.Eval()
			for k, v := range q.Feat {
				if v {
					verifkit.Class("feat:" + k)
				}
			}
			class, detail, ok := c18Metamorphic(e, q)
			if class != "" {
				t.Fatalf("VERIF-FAIL class=C18/%s shape=%s\nnow: %s db=%s header=%q\nsql: %q\n%s\nfiles: %v",
					class, c18FailClass(q), timeOfUs(l.NowUs).Format(time.RFC3339), l.DB, q.Hdr, q.SQL, detail, c18FileList(l))
			}
			if ok && c18Narrowed(e, l, q) {
				verifkit.Class("narrowed")
				verifkit.NonTrivial(fmt.Sprint(l.NowUs) + l.DB + q.Hdr + "\x00" + q.SQL + strings.Join(c18FileList(l), ","))
				if verifkit.SampleCount() < 4 {
					verifkit.Sample(map[string]any{"sql": q.SQL, "header": q.Hdr, "now": timeOfUs(l.NowUs).Format(time.RFC3339), "files": c18FileList(l)})
				}
			}
		}
		for i := 0; i < 6; i++ {
			c18CachePairs(t, e, l)
		}
		tEnv += t1.Sub(t0)
		tQ += time.Since(t1)
	})
}

func c18FileList(l *c18Layout) []string {
	var out []string
	for _, fs := range l.Meas {
		for _, f := range fs {
			out = append(out, f.Rel)
		}
	}
	sort.Strings(out)
	return out
}

// ---------------------------------------------------------------- known findings

type c18KFRow struct {
	meas string
	ts   string // "2006-01-02 15:04:05"
	day  bool
}

// c18KFEnv: default.cpu and default.mem with one row per listed instant (hour
// files unless day), id = index+1, host 'a', v = index, event_time fixed.
func c18KFEnv(t *testing.T, now string, rows []c18KFRow) *qEnv {
	e, err := qNewEnv()
	if err != nil {
		t.Fatalf("HARNESS env: %v", err)
	}
	t.Cleanup(func() { pruning.VerifSetClock(time.Time{}); e.Close() })
	n := map[string]int{}
	for i, r := range rows {
		tt, err := time.Parse("2006-01-02 15:04:05", r.ts)
		if err != nil {
			t.Fatalf("HARNESS time: %v", err)
		}
		dir := tt.Format("2006/01/02/15")
		if r.day {
			dir = tt.Format("2006/01/02")
		}
		n[r.meas]++
		f := qFile{Rel: fmt.Sprintf("default/%s/%s/%s_%d.parquet", r.meas, dir, r.meas, i), Cols: c18Cols,
			Rows: [][]string{{fmt.Sprint(i + 1), qTSLit(tt.UnixMicro()), "'a'", fmt.Sprint(i), "TIMESTAMP '2024-03-15 10:30:00'", "TIMESTAMP '2024-03-15 10:30:00'"}}}
		if err := e.writeFile(f); err != nil {
			t.Fatalf("HARNESS write: %v", err)
		}
	}
	nowT, err := time.Parse(time.RFC3339, now)
	if err != nil {
		t.Fatalf("HARNESS now: %v", err)
	}
	if err := c18Freeze(e, nowT.UnixMicro()); err != nil {
		t.Fatalf("HARNESS freeze: %v", err)
	}
	return e
}

// c18KF: reproduced when the pruned answer differs from the unpruned one for
// sql while the control query (same data) agrees.
func c18KF(t *testing.T, id string, e *qEnv, sql, control string) {
	c, d, _ := c18Metamorphic(e, c18Query{SQL: sql})
	cc, cd, _ := c18Metamorphic(e, c18Query{SQL: control})
	if c == "harness" || cc == "harness" {
		t.Logf("harness problem: %s %s", d, cd)
	}
	verifkit.KnownFinding(id, c == "rows-differ" && cc == "", fmt.Sprintf("%q: %s (control %q: %s)", sql, d, control, cc+cd))
}

var c18KFRows = []c18KFRow{
	{"cpu", "2019-06-01 05:10:00", false},
	{"cpu", "2024-03-15 09:59:59", false},
	{"cpu", "2024-03-15 10:00:00", false},
	{"cpu", "2024-03-15 11:20:00", false},
	{"cpu", "2024-03-16 00:00:00", false},
	{"cpu", "2031-01-01 00:30:00", false},
	{"mem", "2024-03-10 01:00:00", false},
	{"mem", "2024-03-15 10:10:00", false},
}

const c18KFNow = "2026-09-21T22:40:05Z"

func TestVerifKF_C18_boolean_structure(t *testing.T) {
	e := c18KFEnv(t, c18KFNow, c18KFRows)
	c18KF(t, c18FBool, e, "SELECT id FROM cpu WHERE (time >= '2024-03-15 10:00:00' AND time < '2024-03-15 12:00:00') OR v = 0",
		"SELECT id FROM cpu WHERE (time >= '2024-03-15 10:00:00' AND time < '2024-03-15 12:00:00') AND v <> 0")
}

func TestVerifKF_C18_end_only(t *testing.T) {
	e := c18KFEnv(t, c18KFNow, c18KFRows)
	c18KF(t, c18FEndOnly, e, "SELECT id FROM cpu WHERE time < '2024-03-15 10:00:00'",
		"SELECT id FROM cpu WHERE time >= '2019-01-01' AND time < '2024-03-15 10:00:00'")
}

func TestVerifKF_C18_start_only(t *testing.T) {
	e := c18KFEnv(t, c18KFNow, c18KFRows)
	c18KF(t, c18FStartOnly, e, "SELECT id FROM cpu WHERE time >= '2024-03-15 10:00:00'",
		"SELECT id FROM cpu WHERE time >= '2024-03-15 10:00:00' AND time < '2024-03-17'")
}

func TestVerifKF_C18_inclusive_end(t *testing.T) {
	e := c18KFEnv(t, c18KFNow, c18KFRows)
	c18KF(t, c18FInclusive, e, "SELECT id FROM cpu WHERE time >= '2024-03-15 00:00:00' AND time <= '2024-03-15 10:00:00'",
		"SELECT id FROM cpu WHERE time >= '2024-03-15 00:00:00' AND time <= '2024-03-15 10:00:01'")
}

func TestVerifKF_C18_time_suffix_column(t *testing.T) {
	e := c18KFEnv(t, c18KFNow, c18KFRows)
	c18KF(t, c18FSuffix, e, "SELECT id FROM cpu WHERE event_time >= '2024-03-15 10:00:00' AND event_time < '2024-03-15 11:00:00'",
		"SELECT id FROM cpu WHERE time >= '2024-03-15 10:00:00' AND time < '2024-03-15 11:00:00'")
}

func TestVerifKF_C18_range_every_table(t *testing.T) {
	e := c18KFEnv(t, c18KFNow, c18KFRows)
	c18KF(t, c18FAllTables, e, "SELECT a.id, b.id AS bid FROM cpu a JOIN mem b ON a.host = b.host WHERE a.time >= '2024-03-15 00:00:00' AND a.time < '2024-03-16 00:00:00'",
		"SELECT a.id FROM cpu a WHERE a.time >= '2024-03-15 00:00:00' AND a.time < '2024-03-16 00:00:00'")
}

func TestVerifKF_C18_predicate_in_comment(t *testing.T) {
	e := c18KFEnv(t, c18KFNow, c18KFRows)
	c18KF(t, c18FComment, e, "SELECT id FROM cpu WHERE v >= 0 -- AND time >= '2024-03-15 10:00:00' AND time < '2024-03-15 11:00:00'\n",
		"SELECT id FROM cpu WHERE v >= 0 -- recent rows\n")
}

func TestVerifKF_C18_literal_arithmetic(t *testing.T) {
	e := c18KFEnv(t, c18KFNow, c18KFRows)
	c18KF(t, c18FArith, e, "SELECT id FROM cpu WHERE time >= '2024-03-15 10:00:00'::TIMESTAMPTZ - INTERVAL '1 hour' AND time < '2024-03-15 12:00:00'",
		"SELECT id FROM cpu WHERE time >= '2024-03-15 09:00:00'::TIMESTAMPTZ AND time < '2024-03-15 12:00:00'")
}

func TestVerifKF_C18_offset_literal_cast(t *testing.T) {
	e := c18KFEnv(t, c18KFNow, c18KFRows)
	fact := e.arcQuery("SELECT CAST('2024-03-15T12:30:00+02:00'::TIMESTAMP AS VARCHAR) AS naive, CAST(('2024-03-15T12:30:00+02:00'::TIMESTAMPTZ AT TIME ZONE 'UTC') AS VARCHAR) AS aware", "")
	t.Logf("duckdb: %v %v", fact.Rows, fact.Err)
	c, d, _ := c18Metamorphic(e, c18Query{SQL: "SELECT id FROM cpu WHERE time >= '2024-03-15 00:00:00' AND time < '2024-03-15T12:30:00+02:00'::TIMESTAMP"})
	cc, cd, _ := c18Metamorphic(e, c18Query{SQL: "SELECT id FROM cpu WHERE time >= '2024-03-15 00:00:00' AND time < '2024-03-15T12:30:00+02:00'"})
	verifkit.KnownFinding(c18FOffCast, c == "rows-differ" && cc == "", fmt.Sprintf("duckdb says %v; %s (control without cast: %s)", fact.Rows, d, cc+cd))
}

func TestVerifKF_C18_month_interval(t *testing.T) {
	// now = 2026-03-31: DuckDB's now() - INTERVAL '1 month' is 2026-02-28, Go's AddDate(0,-1,0) is 2026-03-03
	e := c18KFEnv(t, "2026-03-31T08:17:23Z", []c18KFRow{
		{"cpu", "2026-03-01 12:00:00", false},
		{"cpu", "2026-03-10 12:00:00", false},
	})
	c18KF(t, c18FMonth, e, "SELECT id FROM cpu WHERE time >= NOW() - INTERVAL '1 month' AND time < NOW()",
		"SELECT id FROM cpu WHERE time >= NOW() - INTERVAL '31 days' AND time < NOW()")
}
