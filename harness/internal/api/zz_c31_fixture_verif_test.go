//go:build verif

package api

// C31 - File imports store every data row of the uploaded file.
// Fixture (real ImportHandler + ArrowBuffer + LocalBackend), the reference
// (documented inference / time-conversion rules) and the oracle.

import (
	"bytes"
	"context"
	"errors"
	"database/sql"
	"encoding/json"
	"fmt"
	"io"
	"math"
	"mime/multipart"
	"net/http/httptest"
	"net/url"
	"os"
	"path/filepath"
	"strconv"
	"strings"
	"sync"
	"testing"

	"github.com/basekick-labs/arc/internal/config"
	"github.com/basekick-labs/arc/internal/ingest"
	"github.com/basekick-labs/arc/internal/storage"
	"github.com/basekick-labs/arc/internal/verifkit"
	"github.com/basekick-labs/arc/internal/verifkit/duck"
	"github.com/gofiber/fiber/v2"
	"github.com/rs/zerolog"
)

// c31FaultBackend is the real LocalBackend with scripted Write failures.
type c31FaultBackend struct {
	storage.Backend
	mu     sync.Mutex
	mode   string // "" | "all" | "nth:k"
	writes int
	failed int
}

func (b *c31FaultBackend) arm(mode string) {
	b.mu.Lock()
	b.mode, b.writes, b.failed = mode, 0, 0
	b.mu.Unlock()
}

func (b *c31FaultBackend) Write(ctx context.Context, path string, data []byte) error {
	b.mu.Lock()
	b.writes++
	fail := b.mode == "all" || b.mode == fmt.Sprintf("nth:%d", b.writes)
	if fail {
		b.failed++
	}
	b.mu.Unlock()
	if fail {
		return errors.New("verif: injected storage write failure (disk full)")
	}
	return b.Backend.Write(ctx, path, data)
}

type c31Fixture struct {
	root string
	be   *c31FaultBackend
	buf  *ingest.ArrowBuffer
	app  *fiber.App
	db   *sql.DB
	seq  int

	accepted, rejected int
}

func c31NewFixture(t testing.TB) *c31Fixture {
	root, err := os.MkdirTemp("", "c31-store-")
	if err != nil {
		t.Fatalf("tempdir: %v", err)
	}
	local, err := storage.NewLocalBackend(root, zerolog.Nop())
	if err != nil {
		t.Fatalf("backend: %v", err)
	}
	be := &c31FaultBackend{Backend: local}
	// Thresholds chosen so that only the handler's own FlushAll ever flushes
	// (no size-triggered async flush, no age timer): storage is deterministic
	// when the response is returned.
	cfg := &config.IngestConfig{
		MaxBufferSize: 1 << 30, MaxBufferAgeMS: 24 * 3600 * 1000, Compression: "snappy",
		WriteStatistics: true, DataPageVersion: "2.0", FlushWorkers: 2, FlushQueueSize: 16,
		ShardCount: 4, FlushTimeoutSeconds: 120,
	}
	buf := ingest.NewArrowBuffer(cfg, be, zerolog.Nop())
	h := NewImportHandler(zerolog.Nop())
	h.SetArrowBuffer(buf)
	app := fiber.New(fiber.Config{BodyLimit: 64 << 20, DisableStartupMessage: true})
	h.RegisterRoutes(app)
	db, err := duck.Open()
	if err != nil {
		t.Fatalf("duckdb: %v", err)
	}
	fx := &c31Fixture{root: root, be: be, buf: buf, app: app, db: db}
	t.Cleanup(func() {
		_ = buf.Close()
		_ = db.Close()
		_ = app.Shutdown()
		_ = os.RemoveAll(root)
	})
	return fx
}

// c31Case is one generated upload with its ground truth.
type c31Case struct {
	Kind     string            `json:"kind"` // "csv" | "parquet"
	Query    map[string]string `json:"query"`
	File     []byte            `json:"-"`
	FileText string            `json:"file,omitempty"` // csv text / parquet description
	// MustReject: by the documented rules the file cannot be imported
	// completely (bad time value, header fault, unsupported column, value not
	// representable) - a 2xx answer is a failure.
	MustReject string `json:"must_reject,omitempty"`
	// Fault: scripted storage Write failure during the import's flush
	// ("all" | "nth:k"); with a fault only "2xx => every row stored" is asserted.
	Fault string `json:"storage_fault,omitempty"`
	// Want: expected stored rows (column -> canonical cell) when accepted.
	Want []map[string]string `json:"-"`
	// DecimalCols are compared at 12 significant digits (documented lossy
	// DECIMAL -> DOUBLE conversion).
	DecimalCols map[string]bool `json:"-"`
	NonTrivial  bool            `json:"-"`
	Classes     []string        `json:"classes"`
}

func (c *c31Case) class(s string) {
	for _, x := range c.Classes {
		if x == s {
			return
		}
	}
	c.Classes = append(c.Classes, s)
}

type c31Failer interface {
	Fatalf(format string, args ...any)
}

func (fx *c31Fixture) post(path string, q map[string]string, file []byte) (int, string, error) {
	var body bytes.Buffer
	mw := multipart.NewWriter(&body)
	fw, err := mw.CreateFormFile("file", "upload.bin")
	if err != nil {
		return 0, "", err
	}
	_, _ = fw.Write(file)
	_ = mw.Close()
	vals := url.Values{}
	for k, v := range q {
		vals.Set(k, v)
	}
	req := httptest.NewRequest("POST", path+"?"+vals.Encode(), &body)
	req.Header.Set("Content-Type", mw.FormDataContentType())
	resp, err := fx.app.Test(req, -1)
	if err != nil {
		return 0, "", err
	}
	defer resp.Body.Close()
	b, _ := io.ReadAll(resp.Body)
	return resp.StatusCode, string(b), nil
}

// run executes one case against the real handler and applies the oracle.
func (fx *c31Fixture) run(t c31Failer, c *c31Case) {
	fx.seq++
	dbName := fmt.Sprintf("vdb%d", fx.seq)
	meas := "imp"
	q := map[string]string{"db": dbName, "measurement": meas}
	for k, v := range c.Query {
		q[k] = v
	}
	verifkit.Eval()
	for _, cl := range c.Classes {
		verifkit.Class(cl)
	}
	fx.be.arm(c.Fault)
	status, body, err := fx.post("/api/v1/import/"+c.Kind, q, c.File)
	injected := fx.be.failed
	fx.be.arm("")
	if err != nil {
		t.Fatalf("HARNESS app.Test: %v", err)
	}
	if injected > 0 {
		verifkit.Class("fault:injected")
	}
	// "without storing a partial import" must also hold later: rows a rejected
	// import left behind in the ingest buffer would be written by the next
	// flush (any later import, the age timer, shutdown). Force that flush now,
	// before storage is inspected.
	if ferr := fx.buf.FlushAll(context.Background()); ferr != nil {
		verifkit.Class("post-request-flush-error")
	}
	all := duck.FindParquet(fx.root)
	defer func() { _ = os.RemoveAll(filepath.Join(fx.root, dbName)) }()
	prefix := filepath.Join(fx.root, dbName, meas) + string(os.PathSeparator)
	for _, f := range all {
		if !strings.HasPrefix(f, prefix) {
			t.Fatalf("VERIF-FAIL class=C31/stray-file file=%s (expected only under %s)\ncase: %s", f, prefix, c.describe())
		}
	}
	if status < 200 || status > 299 {
		fx.rejected++
		verifkit.Class("outcome:rejected")
		if injected > 0 {
			// a storage outage in the middle of a multi-partition flush is C07's
			// subject; here only "accepted => complete" is asserted for fault cases
			verifkit.Class("fault:rejected")
			return
		}
		if len(all) != 0 {
			t.Fatalf("VERIF-FAIL class=C31/partial-import status=%d body=%s but %d parquet files were stored (after the next flush): %v\ncase: %s", status, body, len(all), all, c.describe())
		}
		return
	}
	fx.accepted++
	verifkit.Class("outcome:accepted")
	if c.MustReject != "" {
		t.Fatalf("VERIF-FAIL class=C31/accepted-unimportable(%s) status=%d body=%s\ncase: %s", c.MustReject, status, body, c.describe())
	}
	tab, err := duck.ReadParquet(fx.db, all)
	if err != nil {
		t.Fatalf("VERIF-FAIL class=C31/stored-file-unreadable err=%v\ncase: %s", err, c.describe())
	}
	got := tab.RowMaps()
	if c.Kind == "csv" {
		// The sign of a floating-point zero is not compared for CSV: an integer
		// looking cell such as "-0" in a float column is (documented) parsed as
		// an integer first, and -0 == 0 numerically.
		for _, rows := range [][]map[string]string{got, c.Want} {
			for _, r := range rows {
				for k, v := range r {
					if v == "f:-0" {
						r[k] = "f:0"
					}
				}
			}
		}
	}
	for _, r := range got {
		for col := range c.DecimalCols {
			if v, ok := r[col]; ok {
				r[col] = c31DecCanon(v)
			}
		}
	}
	wantMS := duck.MultisetOf(c.Want, false)
	gotMS := duck.MultisetOf(got, false)
	if diff := wantMS.Diff(gotMS, 6); len(diff) > 0 {
		t.Fatalf("VERIF-FAIL class=C31/stored-rows-differ status=%d stored_cols=%v injected_storage_failures=%d\n%s\ncase: %s", status, tab.Cols, injected, strings.Join(diff, "\n"), c.describe())
	}
	// "each data row is stored once": the response must report the same count.
	var parsed struct {
		Result struct {
			RowsImported int64 `json:"rows_imported"`
		} `json:"result"`
	}
	if json.Unmarshal([]byte(body), &parsed) == nil && parsed.Result.RowsImported != int64(len(c.Want)) {
		t.Fatalf("VERIF-FAIL class=C31/rows-imported-count reported=%d want=%d\ncase: %s", parsed.Result.RowsImported, len(c.Want), c.describe())
	}
}

func (c *c31Case) describe() string {
	return fmt.Sprintf("kind=%s query=%v storage_fault=%q must_reject=%q classes=%v\nfile=%q\nwant_rows=%d first=%v", c.Kind, c.Query, c.Fault, c.MustReject, c.Classes, c.FileText, len(c.Want), c31First(c.Want))
}

func c31First(rows []map[string]string) string {
	if len(rows) == 0 {
		return "-"
	}
	return duck.RowKey(rows[0], false)
}

func (c *c31Case) key() string {
	return c.Kind + "|" + fmt.Sprint(c.Query) + "|" + string(c.File)
}

func (c *c31Case) sample() map[string]any {
	ft := c.FileText
	if len(ft) > 600 {
		ft = ft[:600] + "..."
	}
	return map[string]any{"kind": c.Kind, "query": c.Query, "file": ft, "rows": len(c.Want), "must_reject": c.MustReject, "classes": c.Classes}
}

// ---------------------------------------------------------------- reference

// c31DecCanon renders a float cell at 12 significant digits.
func c31DecCanon(cell string) string {
	if !strings.HasPrefix(cell, "f:") {
		return cell
	}
	f, err := strconv.ParseFloat(cell[2:], 64)
	if err != nil {
		return cell
	}
	return fmt.Sprintf("d:%.12g", f)
}

func c31AbsInt(n int64) int64 {
	if n < 0 {
		if n == math.MinInt64 {
			return math.MaxInt64
		}
		return -n
	}
	return n
}

// c31AutoInt: documented magnitude detection for integer epochs
// (< 1e10 seconds, < 1e13 milliseconds, < 1e16 microseconds, else nanoseconds).
func c31AutoInt(n int64) int64 {
	a := c31AbsInt(n)
	switch {
	case a < 10_000_000_000:
		return n * 1_000_000
	case a < 10_000_000_000_000:
		return n * 1_000
	case a < 10_000_000_000_000_000:
		return n
	}
	return n / 1_000
}

func c31AutoFloat(f float64) int64 {
	a := math.Abs(f)
	switch {
	case a < 1e10:
		return int64(f * 1_000_000)
	case a < 1e13:
		return int64(f * 1_000)
	case a < 1e16:
		return int64(f)
	}
	return int64(f / 1_000)
}

func c31UnitInt(n int64, format string) (int64, bool) {
	switch format {
	case "epoch_s":
		return n * 1_000_000, true
	case "epoch_ms":
		return n * 1_000, true
	case "epoch_us":
		return n, true
	case "epoch_ns":
		return n / 1_000, true
	case "":
		return c31AutoInt(n), true
	}
	return 0, false
}

func c31UnitFloat(f float64, format string) (int64, bool) {
	switch format {
	case "epoch_s":
		return int64(f * 1_000_000), true
	case "epoch_ms":
		return int64(f * 1_000), true
	case "epoch_us":
		return int64(f), true
	case "epoch_ns":
		return int64(f / 1_000), true
	case "":
		return c31AutoFloat(f), true
	}
	return 0, false
}

// c31RefNumericTime converts a numeric epoch *text* per the documented rules:
// integers use exact int64 arithmetic, anything else float64; NaN/Inf and
// non-numbers under an explicit epoch format are errors.
func c31RefNumericTime(text, format string) (int64, bool) {
	s := strings.TrimSpace(text)
	if s == "" {
		return 0, false
	}
	if !strings.Contains(s, ".") {
		if n, err := strconv.ParseInt(s, 10, 64); err == nil {
			return c31UnitInt(n, format)
		}
	}
	f, err := strconv.ParseFloat(s, 64)
	if err != nil || math.IsNaN(f) || math.IsInf(f, 0) {
		return 0, false
	}
	return c31UnitFloat(f, format)
}

var c31BoolLits = map[string]bool{"true": true, "false": false, "1": true, "0": false}

// c31Infer implements the documented CSV column inference: int64, then
// float64, then bool, else string; empty cell = NULL for typed columns and ""
// for string columns; an all-empty column is a string column.
func c31Infer(cells []string) (typ string, canon []string) {
	canon = make([]string, len(cells))
	any := false
	isInt, isFloat, isBool := true, true, true
	for _, s := range cells {
		if s == "" {
			continue
		}
		any = true
		if _, err := strconv.ParseInt(s, 10, 64); err != nil {
			isInt = false
		}
		if _, err := strconv.ParseFloat(s, 64); err != nil {
			isFloat = false
		}
		if _, ok := c31BoolLits[strings.ToLower(s)]; !ok {
			isBool = false
		}
	}
	switch {
	case !any:
		typ = "string"
	case isInt:
		typ = "int"
	case isFloat:
		typ = "float"
	case isBool:
		typ = "bool"
	default:
		typ = "string"
	}
	for i, s := range cells {
		if s == "" && typ != "string" {
			canon[i] = duck.Null
			continue
		}
		switch typ {
		case "int":
			n, _ := strconv.ParseInt(s, 10, 64)
			canon[i] = duck.Canon(n)
		case "float":
			f, _ := strconv.ParseFloat(s, 64)
			canon[i] = duck.Canon(f)
		case "bool":
			canon[i] = duck.Canon(c31BoolLits[strings.ToLower(s)])
		default:
			canon[i] = duck.Canon(s)
		}
	}
	return typ, canon
}

func c31TimeCell(micros int64) string { return "t:" + strconv.FormatInt(micros, 10) }
