//go:build verif

package api

// C29 - Continuous query windows are contiguous and processed once.
//
// Stateful property test over the REAL ContinuousQueryHandler (fiber routes as
// RegisterRoutes wires them, SQLite tables, database.New DuckDB, ArrowBuffer on
// a storage.LocalBackend) under a fake clock (clock seam over
// continuous_query.go). A history is a generated sequence of clock ticks,
// scheduled executions (ExecuteCQ, what the scheduler's ticker calls), manual
// executions (POST /:id/execute with default or explicit range, dry run or
// not), query breakage/repair and other updates (PUT /:id), and handler
// restarts on the same SQLite file.
//
// Oracle (from the property statement, checked against the executions table,
// the responses, last_processed_time and the rows that reach the destination
// measurement):
//   * every default-range execution starts at the end of the latest successful
//     execution, or at now-1h (the documented initial look-back) if there is none;
//   * a failed execution, a rejected request and a dry run leave
//     last_processed_time, the executions table (dry run / rejected) and the
//     destination unchanged;
//   * in histories without explicit-range manual runs the successful windows
//     are pairwise non-overlapping and gap-free;
//   * every successful window leaves exactly the rows its query yields for that
//     window, and when the query selects no time column they carry
//     time == start of the window.

import (
	"bytes"
	"context"
	"database/sql"
	"encoding/json"
	"fmt"
	"io"
	"net/http/httptest"
	"os"
	"path/filepath"
	"sort"
	"strings"
	"sync/atomic"
	"testing"
	"time"

	"github.com/basekick-labs/arc/internal/config"
	"github.com/basekick-labs/arc/internal/database"
	"github.com/basekick-labs/arc/internal/ingest"
	"github.com/basekick-labs/arc/internal/storage"
	"github.com/basekick-labs/arc/internal/verifkit"
	"github.com/basekick-labs/arc/internal/verifkit/duck"
	"github.com/gofiber/fiber/v2"
	"github.com/rs/zerolog"
	"pgregory.net/rapid"
)

const c29fLabelFraction = "C29-window-start-subsecond-label"

type c29TB interface {
	Fatalf(format string, args ...any)
}

const (
	c29DB  = "cqdb"
	c29Src = "src"
)

var c29T0 = time.Date(2026, 1, 1, 0, 0, 0, 0, time.UTC)

type c29Env struct {
	root   string
	sqlDir string // where the per-history SQLite files live
	store  *storage.LocalBackend
	arc    *database.DuckDB
	ref    *sql.DB
	buf    *ingest.ArrowBuffer
	srcLo  int64 // first source second (unix)
	srcHi  int64 // one past the last source second
	nextID atomic.Int64
}

func c29NewEnv(t *testing.T) *c29Env {
	root, err := os.MkdirTemp("", "c29-")
	if err != nil {
		t.Fatalf("tmp: %v", err)
	}
	root, _ = filepath.EvalSymlinks(root)
	logger := zerolog.New(io.Discard).Level(zerolog.Disabled)
	store, err := storage.NewLocalBackend(filepath.Join(root, "data"), logger)
	if err != nil {
		t.Fatalf("storage: %v", err)
	}
	arc, err := database.New(&database.Config{MemoryLimit: "1GB", ThreadCount: 2, MaxConnections: 4, LocalStorageRoot: store.GetBasePath()}, logger)
	// database.New bounds its sandbox lock-down with a 5 s context; on an overloaded machine that is start-up
	// latency, not the property: retry instead of failing the case.
	for attempt := 0; err != nil && attempt < 7; attempt++ {
		arc, err = database.New(&database.Config{MemoryLimit: "1GB", ThreadCount: 2, MaxConnections: 4, LocalStorageRoot: store.GetBasePath()}, logger)
	}
	if err != nil {
		t.Fatalf("database.New: %v", err)
	}
	ref, err := duck.Open()
	if err != nil {
		t.Fatalf("duckdb: %v", err)
	}
	if _, err := ref.Exec("SET TimeZone='UTC'"); err != nil {
		t.Fatalf("ref tz: %v", err)
	}
	// timers of the buffer are made irrelevant: nothing flushes by age or size,
	// the harness flushes explicitly (FlushAll is synchronous)
	buf := ingest.NewArrowBuffer(&config.IngestConfig{MaxBufferSize: 10_000_000, MaxBufferAgeMS: 24 * 3600 * 1000,
		Compression: "snappy", FlushWorkers: 2, FlushQueueSize: 100, ShardCount: 4}, store, logger)
	e := &c29Env{root: root, sqlDir: root, store: store, arc: arc, ref: ref, buf: buf}
	// SQLite fsyncs on every commit; on a tmpfs that costs nothing and the check
	// does not depend on durability. Fall back to the scratch dir elsewhere.
	if d, err := os.MkdirTemp("/dev/shm", "c29-sqlite-"); err == nil {
		e.sqlDir = d
	}
	// source measurement: one row per second, [T0-3h, T0+240h)
	e.srcLo = c29T0.Add(-3 * time.Hour).Unix()
	e.srcHi = c29T0.Add(240 * time.Hour).Unix()
	dir := filepath.Join(store.GetBasePath(), c29DB, c29Src, "2026", "01", "01", "00")
	if err := os.MkdirAll(dir, 0o755); err != nil {
		t.Fatalf("mkdir: %v", err)
	}
	q := fmt.Sprintf(`COPY (SELECT make_timestamp(s * 1000000) AS "time", 1.0::DOUBLE AS v, 'h1' AS host FROM range(%d, %d) r(s)) TO '%s' (FORMAT PARQUET)`,
		e.srcLo, e.srcHi, filepath.Join(dir, "src.parquet"))
	if _, err := ref.Exec(q); err != nil {
		t.Fatalf("write source: %v", err)
	}
	return e
}

func (e *c29Env) Close() {
	VerifSetClock(time.Time{})
	e.buf.Close()
	e.arc.Close()
	e.ref.Close()
	e.store.Close()
	os.RemoveAll(e.root)
	if e.sqlDir != e.root {
		os.RemoveAll(e.sqlDir)
	}
}

// source seconds in [s, e)
func (e *c29Env) count(s, en int64) int64 {
	lo, hi := maxI64c29(s, e.srcLo), minI64c29(en, e.srcHi)
	if hi <= lo {
		return 0
	}
	return hi - lo
}

func maxI64c29(a, b int64) int64 {
	if a > b {
		return a
	}
	return b
}
func minI64c29(a, b int64) int64 {
	if a < b {
		return a
	}
	return b
}

// ------------------------------------------------------------------ CQ definitions

const (
	// no time column: rows are stamped with the window start by executeAggregation
	c29QNoTime = `SELECT count(*) AS cnt, coalesce(min(epoch_us("time")), -1) AS lo, coalesce(max(epoch_us("time")), -1) AS hi FROM cqdb.src WHERE "time" >= {start_time} AND "time" < {end_time}`
	// selects its own time column (one row per minute touched)
	c29QMinute = `SELECT date_trunc('minute', "time") AS "time", count(*) AS cnt FROM cqdb.src WHERE "time" >= {start_time} AND "time" < {end_time} GROUP BY 1`
	// passes validation, fails at execution (binder error)
	c29QBroken = `SELECT count(*) AS cnt, no_such_column FROM cqdb.src WHERE "time" >= {start_time} AND "time" < {end_time} GROUP BY 2`
)

// ------------------------------------------------------------------ model

type c29Exec struct {
	Status   string `json:"status"` // completed | failed
	Start    int64  `json:"start"`  // recorded window, unix seconds
	End      int64  `json:"end"`
	Explicit bool   `json:"explicit"`  // start or end given by the caller
	Kind     string `json:"kind"`      // scheduled | manual
	LabelUS  int64  `json:"label_us"`  // un-truncated start the statement expects as label: the recorded start
	WantFrom int64  `json:"want_from"` // start the statement demands for a default-range run
}

type c29Step struct {
	Op     string `json:"op"`
	Detail string `json:"detail,omitempty"`
	Now    string `json:"now"`
	Result string `json:"result,omitempty"`
}

type c29Model struct {
	now      time.Time
	ptr      *int64 // end of the latest successful execution (unix s)
	active   bool
	broken   bool
	interval string
	execs    []c29Exec
	steps    []c29Step
	explicit bool // an explicit-range, non-dry manual run happened
	// windows whose aggregation ran and wrote rows but whose metadata commit was
	// made to fail: not recorded, pointer not advanced, rows may be in the
	// destination (the retry re-emits them with the same labels)
	unrecorded []c29Exec
}

type c29Sys struct {
	env   *c29Env
	h     *ContinuousQueryHandler
	app   *fiber.App
	dbp   string
	id    int64
	name  string
	dest  string
	query string
	fault string // metadata-store fault armed for the NEXT execution only: "", "abort-update", "abort-insert"
}

// SQLite triggers that make exactly one metadata write fail (the statement is
// aborted with an error, as a full disk / SQLITE_BUSY / constraint would).
const (
	c29TrigUpdate = `CREATE TRIGGER c29_fault_upd BEFORE UPDATE OF last_processed_time ON continuous_queries BEGIN SELECT RAISE(ABORT, 'verif: injected metadata-store fault'); END`
	c29TrigInsert = `CREATE TRIGGER c29_fault_ins BEFORE INSERT ON continuous_query_executions BEGIN SELECT RAISE(ABORT, 'verif: injected metadata-store fault'); END`
)

func (s *c29Sys) armFault(t c29TB) {
	var ddl string
	switch s.fault {
	case "abort-update":
		ddl = c29TrigUpdate
	case "abort-insert":
		ddl = c29TrigInsert
	default:
		return
	}
	if _, err := s.h.sqliteDB.Exec(ddl); err != nil {
		t.Fatalf("HARNESS arm fault: %v", err)
	}
}

func (s *c29Sys) disarmFault(t c29TB) {
	if s.fault == "" {
		return
	}
	for _, q := range []string{"DROP TRIGGER IF EXISTS c29_fault_upd", "DROP TRIGGER IF EXISTS c29_fault_ins"} {
		if _, err := s.h.sqliteDB.Exec(q); err != nil {
			t.Fatalf("HARNESS disarm fault: %v", err)
		}
	}
	s.fault = ""
}

func (s *c29Sys) open(t c29TB) {
	h, err := NewContinuousQueryHandler(s.env.arc, s.env.store, s.env.buf, &config.ContinuousQueryConfig{Enabled: true, DBPath: s.dbp}, nil, zerolog.New(io.Discard).Level(zerolog.Disabled))
	if err != nil {
		t.Fatalf("HARNESS NewContinuousQueryHandler: %v", err)
	}
	s.h = h
	s.app = fiber.New()
	h.RegisterRoutes(s.app)
}

func (s *c29Sys) do(t c29TB, method, path string, body any) (int, map[string]any) {
	var rd io.Reader
	if body != nil {
		b, _ := json.Marshal(body)
		rd = bytes.NewReader(b)
	}
	req := httptest.NewRequest(method, path, rd)
	req.Header.Set("Content-Type", "application/json")
	resp, err := s.app.Test(req, -1)
	if err != nil {
		t.Fatalf("HARNESS app.Test %s %s: %v", method, path, err)
	}
	defer resp.Body.Close()
	raw, _ := io.ReadAll(resp.Body)
	out := map[string]any{}
	_ = json.Unmarshal(raw, &out)
	return resp.StatusCode, out
}

func (s *c29Sys) definition(m *c29Model) map[string]any {
	q := s.query
	if m.broken {
		q = c29QBroken
	}
	return map[string]any{"name": s.name, "database": c29DB, "source_measurement": c29Src, "destination_measurement": s.dest,
		"query": q, "interval": m.interval, "is_active": m.active}
}

type c29Row struct {
	Status string
	Start  int64
	End    int64
}

func (s *c29Sys) execRows(t c29TB) []c29Row {
	rows, err := s.h.sqliteDB.Query(`SELECT status, start_time, end_time FROM continuous_query_executions WHERE query_id = ? ORDER BY id`, s.id)
	if err != nil {
		t.Fatalf("HARNESS read executions: %v", err)
	}
	defer rows.Close()
	var out []c29Row
	for rows.Next() {
		var st string
		var a, b time.Time
		if err := rows.Scan(&st, &a, &b); err != nil {
			t.Fatalf("HARNESS scan executions: %v", err)
		}
		out = append(out, c29Row{st, a.Unix(), b.Unix()})
	}
	return out
}

func c29Fmt(sec int64) string { return time.Unix(sec, 0).UTC().Format(time.RFC3339) }

func (m *c29Model) fail(t c29TB, class, format string, args ...any) {
	// the history goes into the message (rapid keeps the message of the minimal
	// case; its fail file is the replay artefact)
	var sb strings.Builder
	for i, st := range m.steps {
		fmt.Fprintf(&sb, "\n  %2d %-16s now=%s %s %s", i, st.Op, st.Now, st.Detail, st.Result)
	}
	t.Fatalf("VERIF-FAIL class=C29/%s %s\nhistory:%s", class, fmt.Sprintf(format, args...), sb.String())
}

// checkState compares last_processed_time and the executions table with the model.
func (s *c29Sys) checkState(t c29TB, m *c29Model, after string) {
	cq, err := s.h.getQuery(s.id)
	if err != nil {
		t.Fatalf("HARNESS getQuery: %v", err)
	}
	switch {
	case m.ptr == nil && cq.LastProcessedTime != nil:
		m.fail(t, "pointer-moved", "after %s: last_processed_time=%s, expected none", after, *cq.LastProcessedTime)
	case m.ptr != nil && cq.LastProcessedTime == nil:
		m.fail(t, "pointer-lost", "after %s: last_processed_time is NULL, expected %s", after, c29Fmt(*m.ptr))
	case m.ptr != nil:
		got, perr := time.Parse(time.RFC3339, *cq.LastProcessedTime)
		if perr != nil || got.Unix() != *m.ptr {
			m.fail(t, "pointer-wrong", "after %s: last_processed_time=%s, expected %s (end of the latest successful execution)", after, *cq.LastProcessedTime, c29Fmt(*m.ptr))
		}
	}
	rows := s.execRows(t)
	if len(rows) != len(m.execs) {
		m.fail(t, "executions-count", "after %s: executions table has %d rows, expected %d: %+v", after, len(rows), len(m.execs), rows)
	}
	for i, r := range rows {
		w := m.execs[i]
		if r.Status != w.Status || r.Start != w.Start || r.End != w.End {
			m.fail(t, "execution-window", "after %s: execution #%d is %s [%s, %s), expected %s [%s, %s)", after, i, r.Status, c29Fmt(r.Start), c29Fmt(r.End), w.Status, c29Fmt(w.Start), c29Fmt(w.End))
		}
	}
}

// execute performs one execution request and checks response + state.
// startArg/endArg nil = default range.
func (s *c29Sys) execute(t c29TB, m *c29Model, scheduled, dry bool, startArg, endArg *time.Time) {
	now := m.now
	var start time.Time
	switch {
	case startArg != nil:
		start = startArg.UTC()
	case m.ptr != nil:
		start = time.Unix(*m.ptr, 0).UTC()
	default:
		start = now.Add(-time.Hour) // documented initial look-back
	}
	end := now
	if endArg != nil {
		end = endArg.UTC()
	}
	explicit := startArg != nil || endArg != nil
	want := "completed"
	switch {
	case !m.active:
		want = "rejected-inactive"
	case start.Unix() > end.Unix():
		want = "rejected-range"
	case start.Unix() == end.Unix():
		// empty at the precision windows are recorded with: the statement does not
		// say whether this is refused or runs as an empty window; both are accepted
		want = "empty-window"
	case dry:
		want = "dry_run"
	case m.broken:
		want = "failed"
	}
	step := c29Step{Now: now.Format(time.RFC3339Nano)}
	if scheduled {
		step.Op = "scheduled"
	} else {
		step.Op = "manual"
		if dry {
			step.Op = "manual-dry"
		}
	}
	if startArg != nil {
		step.Detail += "start=" + startArg.Format(time.RFC3339Nano) + " "
	}
	if endArg != nil {
		step.Detail += "end=" + endArg.Format(time.RFC3339Nano)
	}
	fault := s.fault
	if fault != "" {
		step.Detail += " fault=" + fault
	}
	step.Result = "expect " + want
	m.steps = append(m.steps, step)
	rowsBefore := len(m.execs)
	s.armFault(t)

	var gotStatus, gotStart, gotEnd string
	var gotWritten int64 = -1
	if scheduled {
		// what the scheduler hands to ExecuteCQ: a context that its Stop/Reload
		// (job.stopCh) cancels and that carries a 10-minute deadline
		ctx, cancel := context.Background(), context.CancelFunc(func() {})
		switch fault {
		case "ctx-cancelled":
			ctx, cancel = context.WithCancel(ctx)
			cancel()
		case "ctx-deadline":
			ctx, cancel = context.WithDeadline(ctx, time.Unix(1, 0))
		}
		resp, err := s.h.ExecuteCQ(ctx, s.id)
		cancel()
		if err != nil {
			gotStatus = "error: " + err.Error()
		} else {
			gotStatus, gotStart, gotEnd, gotWritten = resp.Status, resp.StartTime, resp.EndTime, resp.RecordsWritten
		}
	} else {
		body := map[string]any{"dry_run": dry}
		if startArg != nil {
			body["start_time"] = startArg.Format(time.RFC3339Nano)
		}
		if endArg != nil {
			body["end_time"] = endArg.Format(time.RFC3339Nano)
		}
		code, out := s.do(t, "POST", fmt.Sprintf("/api/v1/continuous_queries/%d/execute", s.id), body)
		if code == 200 {
			gotStatus, _ = out["status"].(string)
			gotStart, _ = out["start_time"].(string)
			gotEnd, _ = out["end_time"].(string)
			if f, ok := out["records_written"].(float64); ok {
				gotWritten = int64(f)
			}
		} else {
			gotStatus = fmt.Sprintf("error: http %d %v", code, out["error"])
		}
	}
	s.disarmFault(t)
	isErr := strings.HasPrefix(gotStatus, "error")
	if fault != "" && (want == "completed" || want == "failed" || (want == "empty-window" && !dry)) {
		s.afterFault(t, m, step, fault, rowsBefore, start, end, explicit, isErr, gotWritten)
		return
	}
	if want == "empty-window" {
		switch {
		case isErr && !(m.broken && !dry && len(s.execRows(t)) > len(m.execs)):
			want = "rejected-range"
		case dry:
			want = "dry_run"
		case m.broken:
			want = "failed"
		default:
			want = "completed"
		}
		m.steps[len(m.steps)-1].Result = "empty window, observed " + want
	}
	switch want {
	case "rejected-inactive", "rejected-range":
		if !isErr {
			m.fail(t, "accepted-invalid", "%s at %s should be rejected (%s) but returned %s [%s, %s)", step.Op, step.Now, want, gotStatus, gotStart, gotEnd)
		}
	case "failed":
		if !isErr {
			m.fail(t, "failure-not-reported", "%s with a failing query returned %s", step.Op, gotStatus)
		}
		m.execs = append(m.execs, c29Exec{Status: "failed", Start: start.Unix(), End: end.Unix(), Explicit: explicit, Kind: step.Op})
	case "dry_run", "completed":
		if gotStatus != want {
			m.fail(t, "unexpected-result", "%s at %s %s: got %q, expected %s", step.Op, step.Now, step.Detail, gotStatus, want)
		}
		if gotStart != c29Fmt(start.Unix()) || gotEnd != c29Fmt(end.Unix()) {
			cls := "window-start"
			if explicit {
				cls = "explicit-window"
			}
			m.fail(t, cls, "%s at %s %s: response window [%s, %s), expected [%s, %s) (start = end of the latest successful execution, or now-1h)", step.Op, step.Now, step.Detail, gotStart, gotEnd, c29Fmt(start.Unix()), c29Fmt(end.Unix()))
		}
		if want == "completed" {
			m.execs = append(m.execs, c29Exec{Status: "completed", Start: start.Unix(), End: end.Unix(), Explicit: explicit, Kind: step.Op, LabelUS: start.Unix() * 1000000})
			e := end.Unix()
			m.ptr = &e
			if explicit {
				m.explicit = true
			}
			wantWritten := int64(1)
			if s.query == c29QMinute {
				wantWritten = c29MinutesTouched(s.env, start.Unix(), end.Unix())
			}
			if gotWritten != wantWritten {
				m.fail(t, "records-written", "%s [%s, %s): records_written=%d, expected %d", step.Op, gotStart, gotEnd, gotWritten, wantWritten)
			}
		} else if gotWritten != 0 {
			m.fail(t, "dry-run-wrote", "dry run reports records_written=%d", gotWritten)
		}
	}
	s.checkState(t, m, step.Op+" @"+step.Now+" "+step.Detail)
}

// afterFault is the oracle for an execution during which one metadata write was
// made to fail. What the statement allows: the execution either counts (a
// `completed` record for its window AND last_processed_time at its end) or it
// does not (no `completed` record AND last_processed_time unchanged). A
// `completed` record with a stale pointer makes the next run overlap it; an
// advanced pointer without the record is an unrecorded window. A failed
// execution never moves the pointer and never leaves a `completed` record.
func (s *c29Sys) afterFault(t c29TB, m *c29Model, step c29Step, fault string, rowsBefore int, start, end time.Time, explicit bool, isErr bool, gotWritten int64) {
	after := step.Op + " @" + step.Now + " " + step.Detail
	verifkit.Class("fault:" + fault)
	rows := s.execRows(t)
	if len(rows) < rowsBefore || len(rows) > rowsBefore+1 {
		m.fail(t, "executions-count", "after %s: executions table went from %d to %d rows", after, rowsBefore, len(rows))
	}
	var added *c29Row
	if len(rows) == rowsBefore+1 {
		added = &rows[rowsBefore]
		if added.Start != start.Unix() || added.End != end.Unix() {
			m.fail(t, "execution-window", "after %s: recorded [%s, %s), expected [%s, %s)", after, c29Fmt(added.Start), c29Fmt(added.End), c29Fmt(start.Unix()), c29Fmt(end.Unix()))
		}
	}
	cq, err := s.h.getQuery(s.id)
	if err != nil {
		t.Fatalf("HARNESS getQuery: %v", err)
	}
	var ptrNow *int64
	if cq.LastProcessedTime != nil {
		got, perr := time.Parse(time.RFC3339, *cq.LastProcessedTime)
		if perr != nil {
			m.fail(t, "pointer-wrong", "after %s: unparsable last_processed_time %q", after, *cq.LastProcessedTime)
		}
		u := got.Unix()
		ptrNow = &u
	}
	same := func(a, b *int64) bool { return (a == nil && b == nil) || (a != nil && b != nil && *a == *b) }
	unchanged := same(ptrNow, m.ptr)
	advanced := ptrNow != nil && *ptrNow == end.Unix() // also true for an empty window ending at the old pointer
	moved := !unchanged
	if moved && !advanced {
		m.fail(t, "pointer-wrong", "after %s: last_processed_time=%v, neither unchanged nor the end of this window", after, cq.LastProcessedTime)
	}
	completedRow := added != nil && added.Status == "completed"
	ex := c29Exec{Start: start.Unix(), End: end.Unix(), Explicit: explicit, Kind: step.Op, LabelUS: start.Unix() * 1000000}
	switch {
	case m.broken:
		// the aggregation itself failed; the injected fault may also have eaten the `failed` record
		if moved || completedRow {
			m.fail(t, "failed-execution-advanced", "after %s (query fails): completed_record=%v pointer_moved=%v", after, completedRow, moved)
		}
		if added != nil {
			ex.Status = "failed"
			m.execs = append(m.execs, ex)
		}
	case completedRow && advanced:
		// it counts: then it must really have processed its window (checked again
		// against the destination at the end of the history)
		if !isErr {
			wantWritten := int64(1)
			if s.query == c29QMinute {
				wantWritten = c29MinutesTouched(s.env, start.Unix(), end.Unix())
			}
			if gotWritten != wantWritten {
				m.fail(t, "records-written", "after %s: window [%s, %s) recorded as completed and the pointer advanced, but records_written=%d, expected %d", after, c29Fmt(start.Unix()), c29Fmt(end.Unix()), gotWritten, wantWritten)
			}
		}
		ex.Status = "completed"
		m.execs = append(m.execs, ex)
		e := end.Unix()
		m.ptr = &e
		if explicit {
			m.explicit = true
		}
	case !completedRow && unchanged:
		if added != nil { // a `failed` record for the attempt is fine
			ex.Status = added.Status
			m.execs = append(m.execs, ex)
		}
		m.unrecorded = append(m.unrecorded, ex)
	case completedRow && !advanced:
		m.fail(t, "record-without-advance", "after %s: window [%s, %s) is recorded as completed but last_processed_time did not advance to its end - the next run starts inside it (overlap, rows emitted twice)", after, c29Fmt(start.Unix()), c29Fmt(end.Unix()))
	default:
		m.fail(t, "advance-without-record", "after %s: last_processed_time advanced to %s but no completed execution is recorded for [%s, %s)", after, c29Fmt(end.Unix()), c29Fmt(start.Unix()), c29Fmt(end.Unix()))
	}
	m.steps[len(m.steps)-1].Result += fmt.Sprintf(" | observed record=%v advanced=%v", added != nil, moved)
	s.checkState(t, m, after)
}

func c29MinutesTouched(e *c29Env, s, en int64) int64 {
	lo, hi := maxI64c29(s, e.srcLo), minI64c29(en, e.srcHi)
	if hi <= lo {
		return 0
	}
	return (hi-1)/60 - lo/60 + 1
}

// destRows reads what reached the destination measurement (after a flush).
func (s *c29Sys) destRows(t c29TB) [][]string {
	if err := s.env.buf.FlushAll(context.Background()); err != nil {
		t.Fatalf("HARNESS FlushAll: %v", err)
	}
	glob := filepath.Join(s.env.store.GetBasePath(), c29DB, s.dest, "**", "*.parquet")
	if files := duck.FindParquet(filepath.Join(s.env.store.GetBasePath(), c29DB, s.dest)); len(files) == 0 {
		return nil
	}
	cols := `epoch_us("time"), cnt, lo, hi`
	if s.query == c29QMinute {
		cols = `epoch_us("time"), cnt`
	}
	_, rows, err := duck.QueryStrings(s.env.ref, fmt.Sprintf(`SELECT %s FROM read_parquet('%s', union_by_name=true) ORDER BY ALL`, cols, glob))
	if err != nil {
		t.Fatalf("HARNESS read destination: %v", err)
	}
	return rows
}

// checkDest: the destination holds exactly the rows of the successful windows.
func (s *c29Sys) checkDest(t c29TB, m *c29Model) {
	got := s.destRows(t)
	rowsOf := func(x c29Exec) [][]string {
		var out [][]string
		if s.query == c29QNoTime {
			n := s.env.count(x.Start, x.End)
			lo, hi := int64(-1), int64(-1)
			if n > 0 {
				lo = maxI64c29(x.Start, s.env.srcLo) * 1000000
				hi = (minI64c29(x.End, s.env.srcHi) - 1) * 1000000
			}
			return [][]string{{fmt.Sprint(x.LabelUS), fmt.Sprint(n), fmt.Sprint(lo), fmt.Sprint(hi)}}
		}
		lo, hi := maxI64c29(x.Start, s.env.srcLo), minI64c29(x.End, s.env.srcHi)
		for mnt := lo / 60 * 60; mnt < hi; mnt += 60 {
			if n := minI64c29(hi, mnt+60) - maxI64c29(lo, mnt); n > 0 {
				out = append(out, []string{fmt.Sprint(mnt * 1000000), fmt.Sprint(n)})
			}
		}
		return out
	}
	var want [][]string
	for _, x := range m.execs {
		if x.Status == "completed" {
			want = append(want, rowsOf(x)...)
		}
	}
	key := func(r []string) string { return strings.Join(r, "|") }
	// rows of windows whose metadata commit was made to fail: the aggregation had
	// already written them, so they may (not must) be present in addition
	optional := map[string]int{}
	for _, x := range m.unrecorded {
		for _, r := range rowsOf(x) {
			optional[key(r)]++
		}
	}
	if len(optional) > 0 {
		need := map[string]int{}
		for _, r := range want {
			need[key(r)]++
		}
		var rest [][]string
		for _, r := range got {
			k := key(r)
			if need[k] > 0 {
				need[k]--
				rest = append(rest, r)
			} else if optional[k] > 0 {
				optional[k]--
			} else {
				rest = append(rest, r)
			}
		}
		got = rest
	}
	sort.Slice(want, func(i, j int) bool { return c29Less(want[i], want[j]) })
	sort.Slice(got, func(i, j int) bool { return c29Less(got[i], got[j]) })
	if len(got) != len(want) {
		m.fail(t, "destination-rows", "destination has %d rows, the successful windows yield %d\n got:  %v\n want: %v", len(got), len(want), c29HeadRows(got), c29HeadRows(want))
	}
	for i := range want {
		if key(got[i]) != key(want[i]) {
			cls := "destination-rows"
			if s.query == c29QNoTime && got[i][0] != want[i][0] && strings.Join(got[i][1:], "|") == strings.Join(want[i][1:], "|") {
				cls = "row-label"
			}
			m.fail(t, cls, "destination row %d is (time_us, ...)=%v, expected %v (time == window start)", i, got[i], want[i])
		}
	}
}

func c29Less(a, b []string) bool {
	for i := range a {
		if i >= len(b) {
			return false
		}
		if a[i] != b[i] {
			if len(a[i]) != len(b[i]) {
				return len(a[i]) < len(b[i])
			}
			return a[i] < b[i]
		}
	}
	return false
}

func c29HeadRows(r [][]string) [][]string {
	if len(r) > 8 {
		return r[:8]
	}
	return r
}

// checkContiguity works on the executions table itself: every default-range
// execution (successful or failed) starts where the latest successful execution
// before it ended, so in a history without explicit-range runs the successful
// windows are gap-free and non-overlapping. The model only says which rows had
// a caller-supplied range.
func (s *c29Sys) checkContiguity(t c29TB, m *c29Model) {
	var prev *c29Row
	for i, r := range s.execRows(t) {
		r := r
		if prev != nil && !m.execs[i].Explicit && r.Start != prev.End {
			m.fail(t, "gap-or-overlap", "execution #%d (%s, default range) starts at %s but the latest successful window ended at %s", i, r.Status, c29Fmt(r.Start), c29Fmt(prev.End))
		}
		if r.End < r.Start {
			m.fail(t, "negative-window", "execution #%d [%s, %s)", i, c29Fmt(r.Start), c29Fmt(r.End))
		}
		if r.Status == "completed" {
			prev = &r
		}
	}
}

// ------------------------------------------------------------------ the property

var c29Ticks = []time.Duration{time.Minute, 10 * time.Minute, time.Hour, 0, 300 * time.Millisecond, 700 * time.Millisecond, time.Second, 2 * time.Second, 10 * time.Second,
	59*time.Second + 400*time.Millisecond, time.Minute, 5 * time.Minute, 10 * time.Minute, 30 * time.Minute, time.Hour, time.Hour + time.Second, 2 * time.Hour}

func c29History(rt *rapid.T, env *c29Env) {
	n := env.nextID.Add(1)
	sys := &c29Sys{env: env, dbp: filepath.Join(env.sqlDir, fmt.Sprintf("cq-%d.db", n)), name: fmt.Sprintf("cq%d", n), dest: fmt.Sprintf("dst%d", n)}
	sys.query = rapid.SampledFrom([]string{c29QNoTime, c29QNoTime, c29QMinute}).Draw(rt, "query")
	m := &c29Model{active: true, interval: "1m"}
	m.now = c29T0.Add(time.Duration(rapid.Int64Range(0, 7200).Draw(rt, "t0sec")) * time.Second).
		Add(time.Duration(rapid.SampledFrom([]int64{0, 0, 1, 250, 500, 999}).Draw(rt, "t0ms")) * time.Millisecond)
	VerifSetClock(m.now)
	sys.open(rt)
	defer func() { sys.h.Close(); os.Remove(sys.dbp) }()

	code, out := sys.do(rt, "POST", "/api/v1/continuous_queries/", sys.definition(m))
	if code != 201 {
		rt.Fatalf("HARNESS create CQ: http %d %v", code, out)
	}
	sys.id = int64(out["id"].(float64))
	m.steps = append(m.steps, c29Step{Op: "create", Detail: sys.query, Now: m.now.Format(time.RFC3339Nano)})
	sys.checkState(rt, m, "create")

	steps := rapid.IntRange(6, verifkit.Scale(24, 40)).Draw(rt, "steps")
	var trace []string
	for i := 0; i < steps; i++ {
		op := rapid.SampledFrom([]string{"tick", "tick", "tick", "sched", "sched", "tick-sched", "tick-sched", "tick-sched", "fail-sched", "fail-sched",
			"manual", "manual-dry", "manual-explicit", "break", "repair", "repair", "restart", "restart", "interval", "inactive-try",
			"meta-fault", "meta-fault", "meta-fault", "ctx-fault", "ctx-fault", "long-gap"}).Draw(rt, "op")
		// shape of the open finding: a window whose start carries a sub-second part
		// (initial look-back = now-1h while the clock is between two seconds)
		snap := func() {
			if m.ptr == nil && m.now.Nanosecond() != 0 && verifkit.Excluded(c29fLabelFraction) {
				verifkit.CountExcluded(c29fLabelFraction)
				m.now = m.now.Truncate(time.Second).Add(time.Second)
				VerifSetClock(m.now)
			}
		}
		tick := func() {
			d := rapid.SampledFrom(c29Ticks).Draw(rt, "dt")
			m.now = m.now.Add(d)
			VerifSetClock(m.now)
			m.steps = append(m.steps, c29Step{Op: "tick", Detail: d.String(), Now: m.now.Format(time.RFC3339Nano)})
		}
		update := func(what string) {
			code, out := sys.do(rt, "PUT", fmt.Sprintf("/api/v1/continuous_queries/%d", sys.id), sys.definition(m))
			if code != 200 {
				rt.Fatalf("HARNESS update CQ: http %d %v", code, out)
			}
			m.steps = append(m.steps, c29Step{Op: what, Detail: fmt.Sprintf("broken=%v active=%v interval=%s", m.broken, m.active, m.interval), Now: m.now.Format(time.RFC3339Nano)})
			sys.checkState(rt, m, what)
		}
		switch op {
		case "tick":
			tick()
		case "sched":
			snap()
			sys.execute(rt, m, true, false, nil, nil)
		case "tick-sched":
			tick()
			snap()
			sys.execute(rt, m, true, false, nil, nil)
		case "fail-sched": // failNext: break the query, let one scheduled run fail, repair it
			m.broken = true
			update("break")
			tick()
			snap()
			sys.execute(rt, m, true, false, nil, nil)
			m.broken = false
			update("repair")
		case "manual":
			snap()
			sys.execute(rt, m, false, false, nil, nil)
		case "manual-dry":
			var sa, ea *time.Time
			if rapid.Bool().Draw(rt, "dryexplicit") {
				a := m.now.Add(-2 * time.Hour)
				b := m.now.Add(-time.Hour)
				sa, ea = &a, &b
			}
			sys.execute(rt, m, false, true, sa, ea)
		case "manual-explicit":
			var sa, ea *time.Time
			kind := rapid.IntRange(0, 3).Draw(rt, "exkind")
			off := rapid.SampledFrom([]time.Duration{-3 * time.Hour, -2 * time.Hour, -90 * time.Minute, -time.Hour, -10 * time.Minute, -time.Second}).Draw(rt, "exoff")
			length := rapid.SampledFrom([]time.Duration{time.Second, time.Minute, 30 * time.Minute, time.Hour, 2 * time.Hour, 0, -time.Minute}).Draw(rt, "exlen")
			a := m.now.Add(off).Truncate(time.Second)
			if rapid.IntRange(0, 5).Draw(rt, "exfrac") == 0 {
				if verifkit.Excluded(c29fLabelFraction) {
					verifkit.CountExcluded(c29fLabelFraction)
				} else {
					a = a.Add(500 * time.Millisecond)
				}
			}
			if rapid.IntRange(0, 5).Draw(rt, "extz") == 0 {
				a = a.In(time.FixedZone("", 2*3600))
			}
			b := a.Add(length)
			switch kind {
			case 0, 1:
				sa, ea = &a, &b
			case 2:
				sa = &a // end defaults to now
			default:
				snap()
				ea = &b // start defaults to the pointer / look-back
			}
			sys.execute(rt, m, false, false, sa, ea)
		case "break", "repair", "interval":
			switch op {
			case "break":
				m.broken = true
			case "repair":
				m.broken = false
			default:
				m.interval = rapid.SampledFrom([]string{"10s", "1m", "5m", "1h"}).Draw(rt, "interval")
			}
			update(op)
		case "meta-fault": // metadata-store fault during the next execution only, usually followed by a restart
			tick()
			snap()
			sys.fault = rapid.SampledFrom([]string{"abort-update", "abort-update", "abort-insert"}).Draw(rt, "fault")
			sys.execute(rt, m, rapid.IntRange(0, 3).Draw(rt, "faultsched") > 0, false, nil, nil)
			sys.disarmFault(rt) // no-op unless the request was refused before reaching the store
			if rapid.IntRange(0, 2).Draw(rt, "faultrestart") > 0 {
				sys.h.Close()
				sys.open(rt)
				m.steps = append(m.steps, c29Step{Op: "restart", Now: m.now.Format(time.RFC3339Nano)})
				sys.checkState(rt, m, "restart")
			}
		case "ctx-fault": // the scheduler stops/reloads the job, or its deadline fires: ExecuteCQ gets a dead context
			tick()
			snap()
			sys.fault = rapid.SampledFrom([]string{"ctx-cancelled", "ctx-cancelled", "ctx-deadline"}).Draw(rt, "ctxfault")
			sys.execute(rt, m, true, false, nil, nil)
			sys.disarmFault(rt)
		case "long-gap": // node down / CQ paused / unlicensed for more than a day, then a scheduled tick
			d := rapid.SampledFrom([]time.Duration{25 * time.Hour, 30 * time.Hour, 72 * time.Hour}).Draw(rt, "gap")
			paused := rapid.Bool().Draw(rt, "gappaused")
			if paused {
				m.active = false
				update("deactivate")
			}
			m.now = m.now.Add(d)
			VerifSetClock(m.now)
			m.steps = append(m.steps, c29Step{Op: "tick", Detail: d.String(), Now: m.now.Format(time.RFC3339Nano)})
			if paused {
				m.active = true
				update("activate")
			}
			snap()
			sys.execute(rt, m, true, false, nil, nil)
		case "inactive-try": // deactivate, attempt an execution (must be refused), reactivate
			m.active = false
			update("deactivate")
			tick()
			sys.execute(rt, m, rapid.Bool().Draw(rt, "inactivesched"), false, nil, nil)
			m.active = true
			update("activate")
		case "restart":
			sys.h.Close()
			sys.open(rt)
			m.steps = append(m.steps, c29Step{Op: "restart", Now: m.now.Format(time.RFC3339Nano)})
			sys.checkState(rt, m, "restart")
		}
		trace = append(trace, m.steps[len(m.steps)-1].Op+":"+m.steps[len(m.steps)-1].Detail)
	}
	sys.checkContiguity(rt, m)
	sys.checkDest(rt, m)

	verifkit.Eval()
	verifkit.ClassN("executions", len(m.execs))
	// non-trivial: a failure or restart between two successful scheduled runs
	stage := 0
	for _, st := range m.steps {
		switch {
		case st.Op == "scheduled" && st.Result == "expect completed" && !strings.Contains(st.Detail, "fault=") && (stage == 0 || stage == 2):
			stage++
		case stage == 1 && (st.Op == "restart" || st.Result == "expect failed" || strings.Contains(st.Detail, "fault=")):
			stage = 2
		}
	}
	if m.explicit {
		verifkit.Class("history-with-explicit-range")
	} else {
		verifkit.Class("history-default-ranges-only")
	}
	if stage >= 3 {
		verifkit.Class("nontrivial")
		verifkit.NonTrivial(fmt.Sprintf("%s|%s|%v", sys.query, m.steps[0].Now, trace))
		if verifkit.SampleCount() < 3 {
			verifkit.Sample(map[string]any{"steps": m.steps, "executions": m.execs})
		}
	}
}

func TestVerifC29_Windows(t *testing.T) {
	env := c29NewEnv(t)
	defer env.Close()
	rapid.Check(t, func(rt *rapid.T) { c29History(rt, env) })
}

// ------------------------------------------------------------------ known-finding reproduction

func TestVerifKF_C29_label_fraction(t *testing.T) {
	env := c29NewEnv(t)
	defer env.Close()
	sys := &c29Sys{env: env, dbp: filepath.Join(env.sqlDir, "kf.db"), name: "kf", dest: "kfdst", query: c29QNoTime}
	m := &c29Model{active: true, interval: "1m", now: c29T0.Add(700 * time.Millisecond)}
	VerifSetClock(m.now)
	sys.open(t)
	defer sys.h.Close()
	code, out := sys.do(t, "POST", "/api/v1/continuous_queries/", sys.definition(m))
	if code != 201 {
		t.Fatalf("create: %d %v", code, out)
	}
	sys.id = int64(out["id"].(float64))
	resp, err := sys.h.ExecuteCQ(context.Background(), sys.id)
	if err != nil {
		t.Fatalf("ExecuteCQ: %v", err)
	}
	rows := sys.destRows(t)
	rec := sys.execRows(t)
	rep := len(rows) == 1 && len(rec) == 1 && rows[0][0] != fmt.Sprint(rec[0].Start*1000000)
	t.Logf("response window [%s, %s) recorded start=%s destination rows=%v", resp.StartTime, resp.EndTime, c29Fmt(rec[0].Start), rows)
	verifkit.KnownFinding(c29fLabelFraction, rep, fmt.Sprintf("clock 2026-01-01T00:00:00.7Z, first scheduled run: window recorded/queried as [%s, %s) but the destination row is stamped time_us=%s", resp.StartTime, resp.EndTime, rows[0][0]))
}
