//go:build verif

package api

// C12 - Tier migration never makes data unreadable or visible twice.
//
// Hot and cold tiers are two real LocalBackends behind storage.VerifFault
// wrappers, tier metadata is the real MetadataStore on a SQLite file, the
// manager is the real tiering.NewManager (licence gate opened by a verif-only
// helper). A step is Manager.RunMigrationCycle (scan + migrate + reconcile) or
// Migrator.ReconcileOrphanedFiles alone, run with
//   - a crash at the k-th storage crash point of the hot or the cold backend
//     (freeze model: that call and every later storage call of BOTH tiers fail
//     without effect, because the migrator mutates storage on its own
//     goroutines where a panic could not be recovered; afterwards every object
//     is dropped and SQLite + both directories are reopened), or
//   - a step failure (copy read/write, UpdateTier via a RAISE(ABORT) trigger,
//     source delete, rollback delete), after which the same objects live on.
// Oracle: (1) after every step each migration candidate's full bytes are at the
// hot or the cold FINAL path; (2) after a returned failed migration followed by
// reconciliation, and after a crash followed by one clean cycle, the rows seen
// through the expression the real QueryHandler.buildReadParquetExprForMeasurement
// (-> buildMultiTierReadParquet) returns equal the pre-state multiset; for the
// raw-bytes measurement the same tiers-with-data x glob enumeration lists every
// file exactly once.

import (
	"bytes"
	"context"
	"database/sql"
	"encoding/json"
	"fmt"
	"math/rand"
	"os"
	"path/filepath"
	"sort"
	"strings"
	"testing"
	"time"

	"github.com/basekick-labs/arc/internal/config"
	"github.com/basekick-labs/arc/internal/license"
	"github.com/basekick-labs/arc/internal/storage"
	"github.com/basekick-labs/arc/internal/tiering"
	"github.com/basekick-labs/arc/internal/verifkit"
	"github.com/basekick-labs/arc/internal/verifkit/duck"
	_ "github.com/mattn/go-sqlite3"
	"github.com/rs/zerolog"
	"pgregory.net/rapid"
)

const (
	c12DB   = "vdb"
	c12Meas = "cpu" // parquet files: row oracle
	c12Raw  = "raw" // arbitrary bytes: byte/listing oracle
)

type c12File struct {
	Key    string `json:"key"`            // storage key
	Kind   string `json:"kind"`           // daily | daily7 | other | cold
	Meas   string `json:"meas"`           // cpu | raw
	Rows   int    `json:"rows,omitempty"` // parquet rows
	Size   int    `json:"size"`           // bytes
	Day    int    `json:"day"`
	data   []byte
	isCand bool
}

type c12Step struct {
	Kind    string  `json:"kind"`            // cycle | reconcile | overlap
	Crash   string  `json:"crash,omitempty"` // "", hot, cold
	CrashAt int     `json:"crash_at,omitempty"`
	MidFrac float64 `json:"mid_frac,omitempty"`
	Fail    string  `json:"fail,omitempty"` // copy-read | copy-write | update-tier | delete-src | update-tier+rollback
	FailKey string  `json:"fail_key,omitempty"`
	// overlap: a second migration cycle B (cron + manual trigger; nothing
	// serialises RunMigrationCycle) took its candidate list before cycle A
	// migrated anything; B migrates the first Split entries of its list before
	// A runs, and works through the rest of the (now stale) list afterwards.
	Split int `json:"split,omitempty"`
}

type c12Case struct {
	Files []*c12File `json:"files"`
	Steps []c12Step  `json:"steps"`
}

func (c *c12Case) candidates() []*c12File {
	var out []*c12File
	for _, f := range c.Files {
		if f.isCand {
			out = append(out, f)
		}
	}
	return out
}

// ---------------------------------------------------------------- generator

func c12Key(meas, kind string, day, idx int) string {
	switch kind {
	case "daily", "cold":
		return fmt.Sprintf("%s/%s/2024/03/%02d/%s_202403%02d_000000_%d_b1_daily.parquet", c12DB, meas, day, meas, day, 1000+idx)
	case "daily7":
		return fmt.Sprintf("%s/%s/2024/03/%02d/00/%s_202403%02d_000000_%d_b1_daily.parquet", c12DB, meas, day, meas, day, 1000+idx)
	}
	return fmt.Sprintf("%s/%s/2024/03/%02d/%02d/%s_202403%02d_1200%02d_%d.parquet", c12DB, meas, day, 10+idx%10, meas, day, idx, 5000+idx)
}

func genC12Case(t *rapid.T, allowBig bool) *c12Case {
	c := &c12Case{}
	idx := 0
	add := func(meas, kind string, size int) {
		idx++
		f := &c12File{Meas: meas, Kind: kind, Day: rapid.IntRange(1, 3).Draw(t, "day"), Size: size}
		f.Key = c12Key(meas, kind, f.Day, idx)
		f.isCand = kind == "daily" || kind == "daily7"
		c.Files = append(c.Files, f)
	}
	sizes := []int{1, 40, 200}
	if allowBig {
		sizes = append(sizes, 16000)
	}
	nd := rapid.IntRange(1, 4).Draw(t, "ndaily")
	for i := 0; i < nd; i++ {
		kind := "daily"
		if rapid.IntRange(0, 5).Draw(t, "daily7") == 0 {
			kind = "daily7"
		}
		add(c12Meas, kind, rapid.SampledFrom(sizes).Draw(t, "rows"))
	}
	for i, n := 0, rapid.IntRange(0, 2).Draw(t, "nother"); i < n; i++ {
		add(c12Meas, "other", rapid.SampledFrom([]int{1, 40}).Draw(t, "rows"))
	}
	for i, n := 0, rapid.IntRange(0, 2).Draw(t, "ncold"); i < n; i++ {
		add(c12Meas, "cold", rapid.SampledFrom([]int{1, 40}).Draw(t, "rows"))
	}
	rawSizes := []int{1, 4096}
	if allowBig {
		rawSizes = append(rawSizes, 1<<20)
	}
	for i, n := 0, rapid.IntRange(0, 2).Draw(t, "nraw"); i < n; i++ {
		add(c12Raw, "daily", rapid.SampledFrom(rawSizes).Draw(t, "rawsize"))
	}
	if rapid.IntRange(0, 3).Draw(t, "rawother") == 0 {
		add(c12Raw, "other", 64)
	}
	return c
}

func genC12Fault(t *rapid.T, c *c12Case) c12Step {
	s := c12Step{Kind: "cycle"}
	cands := c.candidates()
	switch rapid.IntRange(0, 9).Draw(t, "faultkind") {
	case 0, 1, 2, 3:
		s.Crash = "cold"
		s.CrashAt = rapid.IntRange(1, 3*len(cands)+2).Draw(t, "crashat")
		s.MidFrac = rapid.SampledFrom([]float64{0.01, 0.5, 0.99}).Draw(t, "midfrac")
	case 4, 5:
		s.Crash = "hot"
		s.CrashAt = rapid.IntRange(1, 4*len(cands)+2).Draw(t, "crashat")
	case 6:
		s.Kind = "overlap"
		s.Split = rapid.IntRange(0, len(cands)).Draw(t, "split")
		if rapid.Bool().Draw(t, "overlapfail") {
			s.Fail = rapid.SampledFrom([]string{"copy-read", "copy-write", "update-tier", "delete-src"}).Draw(t, "fail")
			s.FailKey = cands[rapid.IntRange(0, len(cands)-1).Draw(t, "failfile")].Key
			s.MidFrac = 0.5
		}
	default:
		s.Fail = rapid.SampledFrom([]string{"copy-read", "copy-write", "update-tier", "delete-src", "update-tier+rollback"}).Draw(t, "fail")
		s.FailKey = cands[rapid.IntRange(0, len(cands)-1).Draw(t, "failfile")].Key
		s.MidFrac = rapid.SampledFrom([]float64{0.01, 0.5, 0.99}).Draw(t, "midfrac")
	}
	return s
}

// ---------------------------------------------------------------- world

type c12World struct {
	base, hotDir, coldDir, dbPath string
	c                             *c12Case
	duck                          *sql.DB
	s0                            duck.Multiset
	history                       []string
	nonTrivial                    bool

	// live objects (dropped on crash)
	sqlite    *sql.DB
	hot, cold *storage.VerifFault
	hotLB     *storage.LocalBackend
	coldLB    *storage.LocalBackend
	mgr       *tiering.Manager
}

func (w *c12World) logf(format string, args ...any) {
	w.history = append(w.history, fmt.Sprintf(format, args...))
}

func c12Cfg() *config.TieredStorageConfig {
	return &config.TieredStorageConfig{Enabled: true, MigrationSchedule: "0 2 * * *", MigrationMaxConcurrent: 1,
		MigrationBatchSize: 3, DefaultHotMaxAgeDays: 7,
		Cold: config.ColdTierConfig{Enabled: true, Backend: "s3", S3Bucket: "verif"}}
}

// open (re)creates every in-memory object on the same directories + SQLite file.
func (w *c12World) open() error {
	w.closeObjects()
	var err error
	if w.hotLB, err = storage.NewLocalBackend(w.hotDir, zerolog.Nop()); err != nil {
		return err
	}
	if w.coldLB, err = storage.NewLocalBackend(w.coldDir, zerolog.Nop()); err != nil {
		return err
	}
	w.hot = storage.NewVerifFault(w.hotLB, storage.VerifFreeze, 0)
	w.cold = storage.NewVerifFault(w.coldLB, storage.VerifFreeze, 0)
	w.hot.Peers, w.cold.Peers = []*storage.VerifFault{w.cold}, []*storage.VerifFault{w.hot}
	// no fsync / in-memory journal: the harness never kills SQLite for real, and
	// 15 fsyncs per case dominate the run time on a busy disk
	if w.sqlite, err = sql.Open("sqlite3", "file:"+w.dbPath+"?_synchronous=OFF&_journal_mode=MEMORY"); err != nil {
		return err
	}
	w.sqlite.SetMaxOpenConns(1)
	w.mgr, err = tiering.NewManager(&tiering.ManagerConfig{HotBackend: w.hot, ColdBackend: w.cold, DB: w.sqlite,
		Config: c12Cfg(), LicenseClient: license.VerifC12Client(), Logger: zerolog.Nop()})
	return err
}

func (w *c12World) closeObjects() {
	if w.sqlite != nil {
		_ = w.sqlite.Close()
		w.sqlite = nil
	}
	w.mgr = nil
}

func (w *c12World) close() {
	w.closeObjects()
	_ = os.RemoveAll(w.base)
}

func (f *c12File) build(db *sql.DB, scratch string, salt int) error {
	if f.data != nil {
		return nil
	}
	if f.Meas == c12Raw {
		r := rand.New(rand.NewSource(int64(salt)*7919 + int64(f.Size)))
		f.data = make([]byte, f.Size)
		_, _ = r.Read(f.data)
		return nil
	}
	f.Rows = f.Size
	p := filepath.Join(scratch, fmt.Sprintf("f%d.parquet", salt))
	// distinct rows per file (file id + row number), one row common to every
	// file (multiset, not set, semantics), a NULL, and an incompressible payload
	q := fmt.Sprintf(`COPY (
		SELECT make_timestamptz(1709600000000000 + i*1000000) AS "time", 'f%d' AS host,
		       CASE WHEN i %% 3 = 0 THEN NULL ELSE i * 1.5 END AS v, md5(CAST(i + %d AS VARCHAR)) || md5(CAST(i * 31 + %d AS VARCHAR)) AS pad
		FROM range(%d) t(i)
		UNION ALL SELECT make_timestamptz(1709600000000000), 'shared', 0.0, 'same-in-every-file'
	) TO %s (FORMAT PARQUET, COMPRESSION UNCOMPRESSED)`, salt, salt*1000003, salt*7, f.Rows, duck.SQLString(p))
	if _, err := db.Exec(q); err != nil {
		return err
	}
	b, err := os.ReadFile(p)
	if err != nil {
		return err
	}
	f.data, f.Size = b, len(b)
	return os.Remove(p)
}

func newC12World(c *c12Case, db *sql.DB) (*c12World, error) {
	base, err := os.MkdirTemp("", "c12-")
	if err != nil {
		return nil, err
	}
	w := &c12World{base: base, hotDir: filepath.Join(base, "hot"), coldDir: filepath.Join(base, "cold"),
		dbPath: filepath.Join(base, "tier.db"), c: c, duck: db}
	scratch := filepath.Join(base, "scratch")
	for _, d := range []string{w.hotDir, w.coldDir, scratch} {
		if err := os.MkdirAll(d, 0o700); err != nil {
			return nil, err
		}
	}
	if err := w.open(); err != nil {
		return nil, err
	}
	ctx := context.Background()
	for i, f := range c.Files {
		if err := f.build(db, scratch, i+1); err != nil {
			return nil, err
		}
		dir := w.hotDir
		tier := tiering.TierHot
		if f.Kind == "cold" {
			dir, tier = w.coldDir, tiering.TierCold
		}
		p := filepath.Join(dir, f.Key)
		if err := os.MkdirAll(filepath.Dir(p), 0o700); err != nil {
			return nil, err
		}
		if err := os.WriteFile(p, f.data, 0o600); err != nil {
			return nil, err
		}
		md := &tiering.FileMetadata{Path: f.Key, Database: c12DB, Measurement: f.Meas,
			PartitionTime: time.Date(2024, 3, f.Day, 0, 0, 0, 0, time.UTC), Tier: tier, SizeBytes: int64(len(f.data)),
			CreatedAt: time.Date(2024, 3, f.Day, 1, 0, 0, 0, time.UTC)}
		if err := w.mgr.GetMetadata().RecordFile(ctx, md); err != nil {
			return nil, err
		}
	}
	// pre-state: every parquet file of the measurement, each once
	var files []string
	for _, f := range c.Files {
		if f.Meas != c12Meas {
			continue
		}
		if f.Kind == "cold" {
			files = append(files, filepath.Join(w.coldDir, f.Key))
		} else {
			files = append(files, filepath.Join(w.hotDir, f.Key))
		}
	}
	t, err := duck.ReadParquet(db, files)
	if err != nil {
		return nil, fmt.Errorf("S0: %w", err)
	}
	w.s0 = duck.MultisetOf(t.RowMaps(), true)
	return w, nil
}

// ---------------------------------------------------------------- steps

func (w *c12World) installUpdateTierFailure(key string) error {
	_, err := w.sqlite.Exec(fmt.Sprintf(`CREATE TRIGGER IF NOT EXISTS c12_fail BEFORE UPDATE OF tier ON tier_files
		WHEN NEW.tier = 'cold' AND NEW.path = %s BEGIN SELECT RAISE(ABORT, 'verif: injected UpdateTier failure'); END`, duck.SQLString(key)))
	return err
}

func (w *c12World) clearFaults() {
	if w.sqlite != nil {
		_, _ = w.sqlite.Exec(`DROP TRIGGER IF EXISTS c12_fail`)
	}
	for _, fb := range []*storage.VerifFault{w.hot, w.cold} {
		fb.CrashAt, fb.FailOp, fb.FailReadTo, fb.ErrAt = 0, nil, nil, nil
	}
}

// run executes one step; reports whether a (freeze) crash fired.
func (w *c12World) run(s c12Step) (crashed *storage.VerifPoint, err error) {
	injected := fmt.Errorf("verif: injected storage failure")
	switch s.Crash {
	case "hot":
		w.hot.CrashAt = w.hot.Points() + s.CrashAt
	case "cold":
		w.cold.CrashAt = w.cold.Points() + s.CrashAt
		if s.MidFrac > 0 {
			w.cold.MidFrac = s.MidFrac
		}
	}
	switch s.Fail {
	case "copy-read":
		w.hot.FailReadTo = func(path string) error {
			if path == s.FailKey {
				return injected
			}
			return nil
		}
	case "copy-write":
		if s.MidFrac > 0 {
			w.cold.MidFrac = s.MidFrac
		}
		w.cold.FailOp = func(p storage.VerifPoint) error {
			if p.Op == "WriteReader" && p.Path == s.FailKey && p.Phase == "mid" {
				return injected
			}
			return nil
		}
	case "update-tier", "update-tier+rollback":
		if err := w.installUpdateTierFailure(s.FailKey); err != nil {
			return nil, err
		}
		if s.Fail == "update-tier+rollback" {
			w.cold.FailOp = func(p storage.VerifPoint) error {
				if p.Op == "Delete" && p.Path == s.FailKey {
					return injected
				}
				return nil
			}
		}
	case "delete-src":
		w.hot.FailOp = func(p storage.VerifPoint) error {
			if p.Op == "Delete" && p.Path == s.FailKey {
				return injected
			}
			return nil
		}
	}
	ctx := context.Background()
	switch s.Kind {
	case "cycle":
		if rerr := w.mgr.RunMigrationCycle(ctx); rerr != nil {
			w.logf("RunMigrationCycle error: %v", rerr)
		}
	case "overlap":
		mig := w.mgr.VerifC12Migrator()
		stale, ferr := mig.FindCandidates(ctx, tiering.TierHot, tiering.TierCold)
		if ferr != nil {
			return nil, ferr
		}
		sort.Slice(stale, func(i, j int) bool { return stale[i].Path < stale[j].Path })
		split := s.Split
		if split > len(stale) {
			split = len(stale)
		}
		m1, e1 := mig.MigrateBatch(ctx, stale[:split])
		if rerr := w.mgr.RunMigrationCycle(ctx); rerr != nil {
			w.logf("RunMigrationCycle error: %v", rerr)
		}
		if !w.hot.Dead() && !w.cold.Dead() {
			// B is in the same process as A: it only goes on if the node did not die
			m2, e2 := mig.MigrateBatch(ctx, stale[split:])
			w.logf("overlap: B took %d candidates; before A migrated=%d errors=%d; after A migrated=%d errors=%d", len(stale), m1, e1, m2, e2)
		}
		w.nonTrivial = true
		verifkit.Class("overlapping-cycles")
	case "reconcile":
		found, deleted, errs := w.mgr.VerifC12Migrator().ReconcileOrphanedFiles(ctx)
		w.logf("reconcile: found=%d deleted=%d errors=%d", found, deleted, errs)
	}
	for _, fb := range []*storage.VerifFault{w.hot, w.cold} {
		if fb.Crashed != nil && crashed == nil {
			crashed = fb.Crashed
		}
	}
	if crashed != nil {
		w.noteCrash(*crashed)
		// the process is gone: drop everything, reopen the same dirs + SQLite
		if err := w.open(); err != nil {
			return crashed, err
		}
	} else {
		w.clearFaults()
	}
	return crashed, nil
}

func (w *c12World) noteCrash(p storage.VerifPoint) {
	cls := p.Op + "-" + p.Phase
	if p.Op == "Delete" {
		cls = "delete"
	}
	side := "hot"
	if w.cold.Crashed != nil {
		side = "cold"
	}
	verifkit.Class("crash-" + side + "-" + cls)
	// non-trivial: the fault lands after the copy started and before the source delete finished
	if (side == "cold" && p.Op == "WriteReader" && p.Phase != "before") || (side == "hot" && p.Op == "Delete") || (side == "cold" && p.Op == "Delete") {
		w.nonTrivial = true
	}
}

// ---------------------------------------------------------------- oracle

// checkReadable: every candidate's full bytes are at the hot or cold FINAL path.
func (w *c12World) checkReadable(at string) string {
	for _, f := range w.c.Files {
		if f.Kind == "other" {
			// never migrated: must stay byte-identical in hot
			b, err := os.ReadFile(filepath.Join(w.hotDir, f.Key))
			if err != nil || !bytes.Equal(b, f.data) {
				return fmt.Sprintf("class=C12/non-candidate-touched at=%s file=%s err=%v", at, f.Key, err)
			}
			continue
		}
		ok := false
		for _, d := range []string{w.hotDir, w.coldDir} {
			if b, err := os.ReadFile(filepath.Join(d, f.Key)); err == nil && bytes.Equal(b, f.data) {
				ok = true
			}
		}
		if !ok {
			return fmt.Sprintf("class=C12/file-unreadable at=%s file=%s (complete bytes neither at the hot nor at the cold final path)", at, f.Key)
		}
	}
	return ""
}

// visibleRows executes what the query layer would read for the measurement.
func (w *c12World) visibleRows() (duck.Multiset, string, error) {
	w.mgr.VerifC12SetBackends(w.hotLB, w.coldLB)
	defer w.mgr.VerifC12SetBackends(w.hot, w.cold)
	h := &QueryHandler{storage: w.hotLB, tieringManager: w.mgr, logger: zerolog.Nop()}
	expr := h.buildReadParquetExprForMeasurement(context.Background(), c12DB, c12Meas, "SELECT * FROM cpu", "FROM")
	t, err := duck.Query(w.duck, "SELECT * "+expr)
	if err != nil {
		return nil, expr, err
	}
	return duck.MultisetOf(t.RowMaps(), true), expr, nil
}

func c12Glob(root, meas string) []string {
	return duck.FindParquet(filepath.Join(root, c12DB, meas))
}

// checkOnce: rows of the parquet measurement == pre-state; raw measurement's
// files are each listed exactly once by the same tiers-with-data x glob rule.
func (w *c12World) checkOnce(at string) string {
	got, expr, err := w.visibleRows()
	if err != nil {
		if len(w.s0) == 0 && strings.Contains(err.Error(), "No files found") {
			return ""
		}
		return fmt.Sprintf("class=C12/query-fails at=%s expr=%s err=%v", at, expr, err)
	}
	if d := w.s0.Diff(got, 5); len(d) > 0 {
		return fmt.Sprintf("class=C12/rows-differ at=%s expr=%s %s", at, expr, strings.Join(d, " | "))
	}
	tiers, err := w.mgr.GetMetadata().GetTiersForMeasurement(context.Background(), c12DB, c12Raw)
	if err != nil {
		return "class=C12/harness-error " + err.Error()
	}
	seen := map[string]int{}
	list := func(root string) {
		for _, p := range c12Glob(root, c12Raw) {
			rel, _ := filepath.Rel(root, p)
			seen[filepath.ToSlash(rel)]++
		}
	}
	if len(tiers) == 0 || tiers[tiering.TierHot] {
		list(w.hotDir)
	}
	if tiers[tiering.TierCold] {
		list(w.coldDir)
	}
	for _, f := range w.c.Files {
		if f.Meas == c12Raw && seen[f.Key] != 1 {
			return fmt.Sprintf("class=C12/raw-file-listed-%dx at=%s file=%s tiers=%v", seen[f.Key], at, f.Key, tiers)
		}
	}
	return ""
}

func (w *c12World) classifyEnd() {
	ctx := context.Background()
	for _, f := range w.c.candidates() {
		md, _ := w.mgr.GetMetadata().GetFile(ctx, f.Key)
		_, hotErr := os.Stat(filepath.Join(w.hotDir, f.Key))
		_, coldErr := os.Stat(filepath.Join(w.coldDir, f.Key))
		switch {
		case md != nil && md.Tier == tiering.TierCold && hotErr != nil && coldErr == nil:
			verifkit.Class("end-migrated")
		case md != nil && md.Tier == tiering.TierHot && hotErr == nil:
			verifkit.Class("end-still-hot")
		default:
			verifkit.Class("end-other")
		}
	}
}

// runCase: faulty steps, then reconcile-only (failures) / clean cycle.
func (w *c12World) runCase() string {
	crashedAny := false
	for i, s := range w.c.Steps {
		at := fmt.Sprintf("step%d/%s", i, s.Kind)
		crashed, err := w.run(s)
		if err != nil {
			return "class=C12/harness-error " + err.Error()
		}
		w.logf("%s crash=%s@%d fail=%s(%s) -> crashed=%v", at, s.Crash, s.CrashAt, s.Fail, s.FailKey, crashed)
		if msg := w.checkReadable(at); msg != "" {
			return msg
		}
		if crashed != nil {
			crashedAny = true
			continue
		}
		if s.Fail != "" {
			verifkit.Class("fail-" + s.Fail)
			w.nonTrivial = w.nonTrivial || s.Fail != "copy-read"
		}
		if s.Fail == "update-tier+rollback" {
			// double fault: the failed rollback leaves a cold orphan that only a
			// later SUCCESSFUL migration of the file overwrites; until the clean
			// cycle no faulty step's reconcile-only oracle applies any more
			crashedAny = true
		}
		if crashedAny {
			continue // a second fault / an unfinished crashed migration: only the clean cycle settles it
		}
		// the migration RETURNED (with or without a step failure): reconciliation alone must settle it
		if _, err := w.run(c12Step{Kind: "reconcile"}); err != nil {
			return "class=C12/harness-error " + err.Error()
		}
		if msg := w.checkReadable(at + "+reconcile"); msg != "" {
			return msg
		}
		if msg := w.checkOnce(at + "+reconcile"); msg != "" {
			return msg
		}
	}
	if _, err := w.run(c12Step{Kind: "cycle"}); err != nil {
		return "class=C12/harness-error " + err.Error()
	}
	if msg := w.checkReadable("clean-cycle"); msg != "" {
		return msg
	}
	if msg := w.checkOnce("clean-cycle"); msg != "" {
		return msg
	}
	w.classifyEnd()
	return ""
}

func c12JSON(v any) string { b, _ := json.Marshal(v); return string(b) }

type c12TB interface {
	Fatalf(format string, args ...any)
}

func c12Run(t c12TB, c *c12Case, db *sql.DB, ntKey string) (crashed bool) {
	w, err := newC12World(c, db)
	if err != nil {
		t.Fatalf("C12 harness: %v", err)
	}
	defer w.close()
	verifkit.Eval()
	msg := w.runCase()
	for _, h := range w.history {
		if strings.Contains(h, "-> crashed=#") {
			crashed = true
		}
	}
	if w.nonTrivial {
		verifkit.NonTrivial(ntKey)
		if verifkit.SampleCount() < 4 {
			verifkit.Sample(map[string]any{"case": c, "history": w.history})
		}
	}
	if msg != "" {
		verifkit.WriteReplay("c12-history", map[string]any{"case": c, "history": w.history, "failure": msg})
		t.Fatalf("VERIF-FAIL %s\ncase=%s\nhistory:\n  %s", msg, c12JSON(c), strings.Join(w.history, "\n  "))
	}
	return crashed
}

func c12Duck(t *testing.T) *sql.DB {
	db, err := duck.Open()
	if err != nil {
		t.Fatalf("duckdb: %v", err)
	}
	_, _ = db.Exec("SET threads=2")
	t.Cleanup(func() { db.Close() })
	return db
}

func c12Seed() int {
	s := 1
	fmt.Sscanf(os.Getenv("VERIF_SEED"), "%d", &s)
	if s == 0 {
		s = 1
	}
	sh := 0
	fmt.Sscanf(os.Getenv("VERIF_SHARD"), "%d", &sh)
	return s*1000 + sh
}

func c12CloneFiles(c *c12Case) *c12Case {
	d := &c12Case{}
	for _, f := range c.Files {
		g := *f
		d.Files = append(d.Files, &g)
	}
	return d
}

// TestVerifC12_EnumCrash: every crash point of the hot and of the cold backend
// during one migration cycle, for a set of layouts derived from the seed.
func TestVerifC12_EnumCrash(t *testing.T) {
	db := c12Duck(t)
	seed := c12Seed()
	layouts := verifkit.Scale(6, 6)
	complete := true
	for li := 0; li < layouts; li++ {
		base := rapid.Custom(func(rt *rapid.T) *c12Case { return genC12Case(rt, li%5 == 0) }).Example(seed*101 + li)
		// build the file bytes once per layout
		for _, side := range []string{"cold", "hot"} {
			for k := 1; ; k++ {
				c := c12CloneFiles(base)
				c.Steps = []c12Step{{Kind: "cycle", Crash: side, CrashAt: k, MidFrac: []float64{0.5, 0.01, 0.99}[k%3]}}
				verifkit.Class("enum-" + side)
				crashed := c12Run(t, c, db, fmt.Sprintf("enum/%d/%s/%d", li, side, k))
				for i, f := range c.Files {
					base.Files[i].data, base.Files[i].Size, base.Files[i].Rows = f.data, f.Size, f.Rows
				}
				if !crashed {
					break
				}
				if k > 400 {
					complete = false
					break
				}
			}
		}
	}
	verifkit.Note("enum_crash_complete", complete)
	verifkit.Note("enum_layouts", layouts)
}

// TestVerifC12_EnumFail: every step failure for every candidate file.
func TestVerifC12_EnumFail(t *testing.T) {
	db := c12Duck(t)
	seed := c12Seed()
	layouts := verifkit.Scale(3, 4)
	for li := 0; li < layouts; li++ {
		base := rapid.Custom(func(rt *rapid.T) *c12Case { return genC12Case(rt, false) }).Example(seed*211 + li)
		keys := []string{}
		for _, f := range base.candidates() {
			keys = append(keys, f.Key)
		}
		sort.Strings(keys)
		for split := 0; split <= len(keys) && split <= 2; split++ {
			c := c12CloneFiles(base)
			c.Steps = []c12Step{{Kind: "overlap", Split: split}}
			verifkit.Class("enum-overlap")
			c12Run(t, c, db, fmt.Sprintf("enumoverlap/%d/%d", li, split))
			for i, f := range c.Files {
				base.Files[i].data, base.Files[i].Size, base.Files[i].Rows = f.data, f.Size, f.Rows
			}
		}
		for _, fail := range []string{"copy-read", "copy-write", "update-tier", "delete-src", "update-tier+rollback"} {
			for ki, key := range keys {
				c := c12CloneFiles(base)
				c.Steps = []c12Step{{Kind: "cycle", Fail: fail, FailKey: key, MidFrac: 0.5}}
				verifkit.Class("enum-fail")
				c12Run(t, c, db, fmt.Sprintf("enumfail/%d/%s/%d", li, fail, ki))
				for i, f := range c.Files {
					base.Files[i].data, base.Files[i].Size, base.Files[i].Rows = f.data, f.Size, f.Rows
				}
			}
		}
	}
}

// TestVerifC12_Random: random layouts x 1-2 random faulty steps.
func TestVerifC12_Random(t *testing.T) {
	db := c12Duck(t)
	rapid.Check(t, func(rt *rapid.T) {
		c := genC12Case(rt, rapid.IntRange(0, 9).Draw(rt, "big") == 0)
		n := rapid.IntRange(1, 2).Draw(rt, "nsteps")
		for i := 0; i < n; i++ {
			c.Steps = append(c.Steps, genC12Fault(rt, c))
		}
		c12Run(rt, c, db, c12JSON(c))
	})
}
