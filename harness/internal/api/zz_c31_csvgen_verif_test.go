//go:build verif

package api

// C31 - CSV file generator with ground truth (the intended cell matrix).

import (
	"fmt"
	"math"
	"strconv"
	"strings"
	"time"

	"github.com/basekick-labs/arc/internal/verifkit"
	"pgregory.net/rapid"
)

func c31Pick[T any](t *rapid.T, label string, xs ...T) T {
	return rapid.SampledFrom(xs).Draw(t, label)
}

// c31Chance is true with (about) the given probability. rapid's integer
// generators are biased towards small values, so the decision is assembled from
// uniform single-bit draws; shrinking (bits -> false) moves towards "false".
func c31Chance(t *rapid.T, label string, percent int) bool {
	v := 0
	for i := 0; i < 7; i++ {
		if rapid.Bool().Draw(t, label) {
			v |= 1 << i
		}
	}
	return (127-v)*100 < percent*128
}

var c31NamePool = []string{"a", "b", "c", "val", "host", "region", "value", "x1", "Temp", "CPU%", "my col", "naïve", "x-y", "m", "measurement", "database", "n_1", "Z"}
var c31UnderscoreNames = []string{"_x", "_internal", "_measurement", "__v"}

// c31GenNames draws n distinct (case-insensitively) column names that do not
// collide with reserved (lower-case) names.
func c31GenNames(t *rapid.T, n int, reserved ...string) []string {
	used := map[string]bool{}
	for _, r := range reserved {
		used[strings.ToLower(r)] = true
	}
	var out []string
	for len(out) < n {
		var name string
		if c31Chance(t, "uscore", 8) {
			if verifkit.Excluded("C31-underscore-column-dropped") {
				verifkit.CountExcluded("C31-underscore-column-dropped")
				name = c31Pick(t, "name", c31NamePool...)
			} else {
				name = c31Pick(t, "uname", c31UnderscoreNames...)
			}
		} else {
			name = c31Pick(t, "name", c31NamePool...)
		}
		if used[strings.ToLower(name)] {
			name = fmt.Sprintf("%s%d", name, len(out)+2)
			if used[strings.ToLower(name)] {
				continue
			}
		}
		used[strings.ToLower(name)] = true
		out = append(out, name)
	}
	return out
}

// ------------------------------------------------------------ time column

type c31TimeVal struct {
	Text string
	Want int64
	Bad  bool // the documented rules cannot convert this value
}

var c31Formats = []string{"epoch_s", "epoch_ms", "epoch_us", "epoch_ns"}

func c31Mult(format string) (mul, div int64) {
	switch format {
	case "epoch_s":
		return 1_000_000, 1
	case "epoch_ms":
		return 1_000, 1
	case "epoch_us":
		return 1, 1
	}
	return 1, 1_000
}

func c31UnitValue(sec, nsec int64, unit string) int64 {
	switch unit {
	case "epoch_s":
		return sec
	case "epoch_ms":
		return sec*1_000 + nsec/1_000_000
	case "epoch_us":
		return sec*1_000_000 + nsec/1_000
	}
	return sec*1_000_000_000 + nsec
}

// c31GenTimeColumn draws the time_format parameter and n time values (as text)
// together with the expected microseconds.
func c31GenTimeColumn(t *rapid.T, n int, c *c31Case) (param string, vals []c31TimeVal) {
	kind := c31Pick(t, "timekind", "int", "int", "int", "text", "text", "frac", "mismatch", "edge", "neg", "sci", "textfmt")
	baseSec := rapid.Int64Range(170_000_000, 7_200_000_000).Draw(t, "basesec")
	spread := c31Pick(t, "spread", int64(0), 50, 3000, 9000)
	draw := func(i int) (int64, int64) {
		off := int64(0)
		if spread > 0 {
			off = rapid.Int64Range(-spread, spread).Draw(t, "off")
		}
		nsec := int64(0)
		if c31Chance(t, "subsec", 60) {
			nsec = rapid.Int64Range(0, 999_999_999).Draw(t, "nsec")
		}
		return baseSec + off, nsec
	}
	pad := func(s string) string {
		if c31Chance(t, "pad", 6) {
			c.class("time:padded")
			return " " + s + " "
		}
		return s
	}
	vals = make([]c31TimeVal, n)
	switch kind {
	case "int":
		unit := c31Pick(t, "unit", c31Formats...)
		if c31Chance(t, "auto", 40) {
			param = ""
		} else {
			param = unit
		}
		c.class("time:" + unit + "/param=" + param)
		for i := range vals {
			sec, nsec := draw(i)
			v := c31UnitValue(sec, nsec, unit)
			w, _ := c31UnitInt(v, param)
			vals[i] = c31TimeVal{Text: pad(strconv.FormatInt(v, 10)), Want: w}
		}
	case "mismatch":
		unit := c31Pick(t, "unit", c31Formats...)
		param = c31Pick(t, "punit", c31Formats...)
		c.class("time:mismatch")
		for i := range vals {
			sec, nsec := draw(i)
			v := c31UnitValue(sec, nsec, unit)
			mul, _ := c31Mult(param)
			if c31AbsInt(v) > (1<<62)/mul {
				v = sec // keep the requested conversion representable
			}
			w, _ := c31UnitInt(v, param)
			vals[i] = c31TimeVal{Text: strconv.FormatInt(v, 10), Want: w}
		}
	case "edge":
		param = ""
		c.class("time:auto-threshold")
		for i := range vals {
			v := c31Pick(t, "edge", int64(9_999_999_999), 10_000_000_000, 9_999_999_999_999, 10_000_000_000_000,
				9_999_999_999_999_999, 10_000_000_000_000_000, 0, 1, -1, -9_999_999_999, -10_000_000_000)
			vals[i] = c31TimeVal{Text: strconv.FormatInt(v, 10), Want: c31AutoInt(v)}
		}
	case "neg":
		param = c31Pick(t, "nparam", "", "epoch_s")
		c.class("time:pre-1970")
		for i := range vals {
			v := -rapid.Int64Range(1, 2_000_000_000).Draw(t, "negsec")
			vals[i] = c31TimeVal{Text: strconv.FormatInt(v, 10), Want: v * 1_000_000}
		}
	case "frac":
		unit := c31Pick(t, "funit", "epoch_s", "epoch_ms")
		if c31Chance(t, "auto", 50) {
			param = ""
		} else {
			param = unit
		}
		c.class("time:fractional-" + unit + "/param=" + param)
		for i := range vals {
			sec, nsec := draw(i)
			digits := rapid.IntRange(1, 6).Draw(t, "digits")
			var text string
			if unit == "epoch_s" {
				text = fmt.Sprintf("%d.%0*d", sec, digits, nsec/int64(math.Pow10(9-digits)))
			} else {
				text = fmt.Sprintf("%d.%0*d", sec*1000+nsec/1_000_000, digits, (nsec%1_000_000)/int64(math.Pow10(6-min(digits, 6))))
			}
			w, ok := c31RefNumericTime(text, param)
			vals[i] = c31TimeVal{Text: pad(text), Want: w, Bad: !ok}
		}
	case "sci":
		param = c31Pick(t, "sparam", "", "epoch_s")
		c.class("time:scientific")
		for i := range vals {
			sec, _ := draw(i)
			text := strconv.FormatFloat(float64(sec), 'e', -1, 64)
			w, ok := c31RefNumericTime(text, param)
			vals[i] = c31TimeVal{Text: text, Want: w, Bad: !ok}
		}
	case "text", "textfmt":
		// textual timestamps; ground truth is the instant that was formatted
		param = ""
		if kind == "textfmt" {
			// a textual value under an explicit epoch format cannot be converted
			param = c31Pick(t, "tparam", c31Formats...)
			c.class("time:text-under-epoch-format")
		}
		mixed := c31Chance(t, "mixedlayout", 25)
		layout := c31Pick(t, "layout", "rfc3339", "rfc3339nano", "offset", "space", "spacefrac", "tnozone", "date")
		for i := range vals {
			if mixed {
				layout = c31Pick(t, "layout", "rfc3339", "rfc3339nano", "offset", "space", "spacefrac", "tnozone", "date")
			}
			sec, nsec := draw(i)
			text, want := c31FormatInstant(t, sec, nsec, layout)
			vals[i] = c31TimeVal{Text: pad(text), Want: want, Bad: kind == "textfmt"}
			if i == 0 || mixed {
				c.class("time:text-" + layout)
			}
		}
	}
	// hostile values
	if c31Chance(t, "badtime", 7) && n > 0 {
		i := c31Uniform(t, "badrow", n)
		vals[i] = c31TimeVal{Text: c31Pick(t, "badval", "", "   ", "NaN", "Inf", "-Inf", "abc", "2021-13-45", "12:00", "nan", "0x"), Bad: true}
		c.class("time:bad-value")
	}
	if param != "" || kind == "text" {
		c.NonTrivial = true // non-default time format
	}
	if c31Chance(t, "badformat", 3) {
		param = c31Pick(t, "bogusformat", "epoch_weeks", "iso", "EPOCH_S")
		c.class("time:bogus-format")
		for i := range vals {
			vals[i].Bad = true
		}
	}
	return param, vals
}

func c31FormatInstant(t *rapid.T, sec, nsec int64, layout string) (string, int64) {
	tm := time.Unix(sec, nsec).UTC()
	switch layout {
	case "rfc3339":
		tm = time.Unix(sec, 0).UTC()
		return tm.Format("2006-01-02T15:04:05Z"), sec * 1_000_000
	case "rfc3339nano":
		return tm.Format("2006-01-02T15:04:05.999999999Z"), sec*1_000_000 + nsec/1_000
	case "offset":
		offMin := c31Pick(t, "zone", 330, -480, 60, -210, 0, 845)
		z := time.FixedZone("", offMin*60)
		return tm.In(z).Format("2006-01-02T15:04:05.999999999-07:00"), sec*1_000_000 + nsec/1_000
	case "space":
		tm = time.Unix(sec, 0).UTC()
		return tm.Format("2006-01-02 15:04:05"), sec * 1_000_000
	case "spacefrac":
		return tm.Format("2006-01-02 15:04:05.999999999"), sec*1_000_000 + nsec/1_000
	case "tnozone":
		tm = time.Unix(sec, 0).UTC()
		return tm.Format("2006-01-02T15:04:05"), sec * 1_000_000
	}
	day := sec - ((sec%86400)+86400)%86400
	return time.Unix(day, 0).UTC().Format("2006-01-02"), day * 1_000_000
}

// ------------------------------------------------------------ data columns

var c31Words = []string{"alpha", "beta", "x", "NULL", "null", "N/A", "héllo wörld", "日本", "a b", " lead", "trail ", "it's", "semi;colon", "pipe|d", "tab\there", "com,ma", "q\"uote", "\"startq", "multi\nline", "-", "#hash", "true ", " 12", "12 ", "1,5", "--1", "1.2.3", "1e999", "-1e999", "1_000", "0x10", "0b1", "١٢", "t", "yes", "T", "F"}
var c31FloatLits = []string{"1.5", "-2.25", "1e3", "1E-7", "-0.0", ".5", "5.", "3.141592653589793", "NaN", "Inf", "-Inf", "+Inf", "infinity", "0x1p-2", "1e308", "4.9e-324", "0.1", "100.0", "+7.5", "1e+2"}
var c31IntFmt = []string{"+5", "007", "-0", "0", "-007", "+0", "00"}
var c31WideInt = []string{"9223372036854775807", "-9223372036854775808", "9007199254740993", "-9007199254740993", "4611686018427387904", "1", "-1"}
var c31BigInt = []string{"9223372036854775808", "-9223372036854775809", "99999999999999999999", "18446744073709551615", "123456789012345678901234567890"}
var c31BoolWords = []string{"true", "false", "TRUE", "FALSE", "True", "False", "tRuE", "fAlSe"}

// c31OrderPatterns: order-sensitive mixes. The handler infers a column in a
// single pass whose state (still-int / still-float / still-bool) depends on the
// order in which the kinds of cell arrive, so each pattern lays the kinds out
// as consecutive runs (ints first then bool words, bool words first then ints,
// int -> float -> string, ...). The reference (c31Infer) is order-independent.
var c31OrderPatterns = [][]string{
	{"int", "boolword"}, {"int", "boolword", "int01"}, {"boolword", "int"}, {"int01", "boolword"},
	{"int01", "int", "boolword"}, {"int", "boolword", "float"}, {"int", "float", "word"}, {"float", "int"},
	{"int", "word"}, {"boolword", "word"}, {"int", "float"}, {"float", "boolword"}, {"int01", "float"},
	{"boolword", "int01", "int"}, {"int", "int01", "boolword", "int01"}, {"float", "int", "boolword"},
}

func c31Uniform(t *rapid.T, label string, n int) int {
	v := 0
	for i := 0; i < 8; i++ {
		if rapid.Bool().Draw(t, label) {
			v |= 1 << i
		}
	}
	return v * n / 256
}

func c31GenOrderedCells(t *rapid.T, n, emptyPct int, c *c31Case) []string {
	pat := c31OrderPatterns[c31Uniform(t, "orderpattern", len(c31OrderPatterns))]
	c.class("col:ordered:" + strings.Join(pat, ">"))
	cells := make([]string, n)
	// run boundaries: every kind gets at least one cell while cells last
	seg := 0
	for i := range cells {
		remainingCells, remainingSegs := n-i, len(pat)-seg
		if seg < len(pat)-1 && i > 0 && (remainingCells <= remainingSegs-1 || c31Chance(t, "nextrun", 35)) {
			seg++
		}
		if emptyPct > 0 && c31Chance(t, "empty", emptyPct) {
			continue
		}
		switch pat[seg] {
		case "int":
			// mostly values that are not 0/1 (those are also bool literals)
			cells[i] = strconv.FormatInt(rapid.Int64Range(2, 99999).Draw(t, "oi"), 10)
			if c31Chance(t, "oineg", 20) {
				cells[i] = "-" + cells[i]
			}
		case "int01":
			cells[i] = c31Pick(t, "b01", "0", "1")
		case "float":
			cells[i] = c31Pick(t, "oflit", "1.5", "-2.25", "1e3", "0.0", "NaN", "3.0", ".5")
		case "boolword":
			cells[i] = c31Pick(t, "bw", c31BoolWords...)
		default:
			cells[i] = c31Pick(t, "ow", "alpha", "x", "N/A", "t", "yes", "1.2.3")
		}
	}
	return cells
}

func c31GenCells(t *rapid.T, n int, c *c31Case) []string {
	class := c31Pick(t, "colclass", "int", "ordered", "int", "intfmt", "ordered", "intwide", "float", "float", "intfloat", "bigint", "bool", "bool01", "boolmix", "str", "str", "mixed", "numlike", "allempty")
	emptyPct := c31Pick(t, "emptypct", 0, 0, 15, 40)
	c.class("col:" + class)
	if class == "ordered" {
		return c31GenOrderedCells(t, n, emptyPct, c)
	}
	cells := make([]string, n)
	for i := range cells {
		if class == "allempty" || (emptyPct > 0 && c31Chance(t, "empty", emptyPct)) {
			cells[i] = ""
			continue
		}
		switch class {
		case "int":
			cells[i] = strconv.FormatInt(rapid.Int64Range(-100000, 100000).Draw(t, "i"), 10)
		case "intfmt":
			cells[i] = c31Pick(t, "ifmt", c31IntFmt...)
		case "intwide":
			cells[i] = c31Pick(t, "iwide", c31WideInt...)
		case "float":
			if c31Chance(t, "flit", 50) {
				cells[i] = c31Pick(t, "flit", c31FloatLits...)
			} else {
				cells[i] = strconv.FormatFloat(rapid.Float64().Draw(t, "f"), 'g', -1, 64)
			}
		case "intfloat":
			if c31Chance(t, "isint", 50) {
				cells[i] = c31Pick(t, "iwide", c31WideInt...)
			} else {
				cells[i] = c31Pick(t, "flit", c31FloatLits...)
			}
		case "bigint":
			if c31Chance(t, "isbig", 50) {
				cells[i] = c31Pick(t, "big", c31BigInt...)
			} else {
				cells[i] = strconv.FormatInt(rapid.Int64().Draw(t, "i64"), 10)
			}
		case "bool":
			cells[i] = c31Pick(t, "bw", c31BoolWords...)
		case "bool01":
			cells[i] = c31Pick(t, "b01", "0", "1")
		case "boolmix":
			if c31Chance(t, "b01", 50) {
				cells[i] = c31Pick(t, "b01", "0", "1")
			} else {
				cells[i] = c31Pick(t, "bw", c31BoolWords...)
			}
		case "str":
			cells[i] = c31Pick(t, "w", c31Words...)
		case "mixed":
			switch rapid.IntRange(0, 3).Draw(t, "mix") {
			case 0:
				cells[i] = strconv.FormatInt(rapid.Int64Range(-50, 50).Draw(t, "i"), 10)
			case 1:
				cells[i] = c31Pick(t, "flit", c31FloatLits...)
			case 2:
				cells[i] = c31Pick(t, "bw", c31BoolWords...)
			default:
				cells[i] = c31Pick(t, "w", c31Words...)
			}
		case "numlike":
			if c31Chance(t, "isnum", 60) {
				cells[i] = strconv.FormatInt(rapid.Int64Range(-50, 50).Draw(t, "i"), 10)
			} else {
				cells[i] = c31Pick(t, "nl", " 12", "12 ", "1,5", "--1", "1.2.3", "1e999", "1_000", "0x10", "true ", "١٢")
			}
		}
	}
	return cells
}

// ------------------------------------------------------------ serialisation

func c31CSVField(t *rapid.T, s string, delim rune, forceQuote bool) string {
	need := forceQuote || strings.ContainsRune(s, delim) || strings.Contains(s, "\n") || strings.HasPrefix(s, "\"")
	if !need && strings.Contains(s, "\"") {
		// a bare quote inside an unquoted field: the handler documents
		// LazyQuotes ("tolerate unescaped quotes"); literal reading.
		need = !c31Chance(t, "lazyquote", 50)
	}
	if !need && c31Chance(t, "optquote", 7) {
		need = true
	}
	if !need {
		return s
	}
	return "\"" + strings.ReplaceAll(s, "\"", "\"\"") + "\""
}

// c31GenCSV draws one CSV upload.
func c31GenCSV(t *rapid.T) *c31Case {
	c := &c31Case{Kind: "csv", Query: map[string]string{}}
	nrows := rapid.IntRange(1, verifkit.Scale(14, 40)).Draw(t, "nrows")
	if c31Chance(t, "manyrows", 4) {
		nrows = rapid.IntRange(50, 300).Draw(t, "nrowsbig")
	}
	ndata := rapid.IntRange(0, 5).Draw(t, "ndata")
	timeName := c31Pick(t, "timename", "time", "time", "time", "ts", "timestamp", "Time", "event time")
	names := c31GenNames(t, ndata, "time", timeName)
	timePos := rapid.IntRange(0, ndata).Draw(t, "timepos")

	param, tvals := c31GenTimeColumn(t, nrows, c)
	if param != "" {
		c.Query["time_format"] = param
	}
	if timeName != "time" || c31Chance(t, "explicit-time-col", 20) {
		c.Query["time_column"] = timeName
	}

	header := make([]string, 0, ndata+1)
	cols := make([][]string, 0, ndata+1)
	timeText := make([]string, nrows)
	for i, v := range tvals {
		timeText[i] = v.Text
	}
	for i := 0; i <= ndata; i++ {
		if i == timePos {
			header = append(header, timeName)
			cols = append(cols, timeText)
		}
		if i < ndata {
			header = append(header, names[i])
			cols = append(cols, c31GenCells(t, nrows, c))
		}
	}
	if timePos > len(header) { // unreachable; keeps vet quiet
		timePos = len(header) - 1
	}
	tIdx := -1
	for i, h := range header {
		if h == timeName {
			tIdx = i
		}
	}

	// header faults
	switch {
	case ndata > 0 && c31Chance(t, "hdrfault", 6):
		fault := c31Pick(t, "fault", "dup", "empty", "timecollision", "notime")
		j := rapid.IntRange(0, len(header)-1).Draw(t, "faultcol")
		if j == tIdx {
			j = (j + 1) % len(header)
		}
		switch fault {
		case "dup":
			k := (j + 1) % len(header)
			if k == tIdx {
				k = (k + 1) % len(header)
			}
			if k != j {
				header[j] = header[k]
				c.MustReject = "duplicate column name"
			}
		case "empty":
			header[j] = ""
			c.MustReject = "empty column name"
		case "timecollision":
			if timeName != "time" {
				header[j] = "time"
				c.MustReject = "column named time collides with renamed time column"
			}
		case "notime":
			c.Query["time_column"] = "nosuchcol"
			c.MustReject = "time column not in file"
		}
		if c.MustReject != "" {
			c.class("header:" + fault)
		}
	}

	// ragged rows: drop trailing fields (documented: missing -> empty)
	width := make([]int, nrows)
	for r := range width {
		width[r] = len(header)
		if len(header) > 1 && c31Chance(t, "ragged", 6) {
			width[r] = rapid.IntRange(1, len(header)-1).Draw(t, "width")
			c.class("row:ragged")
			c.NonTrivial = true
			for j := width[r]; j < len(header); j++ {
				cols[j][r] = ""
			}
			if tIdx >= width[r] {
				tvals[r].Bad = true
			}
		}
	}

	delim := c31Pick(t, "delim", ',', ',', ',', ';', '\t', '|', ' ', '§')
	if delim != ',' || c31Chance(t, "explicit-delim", 10) {
		c.Query["delimiter"] = string(delim)
		c.class("delim:" + strconv.QuoteRune(delim))
	}
	if c31Chance(t, "baddelim", 2) {
		c.Query["delimiter"] = c31Pick(t, "baddelimv", "ab", ",,", "\"", "\n")
		c.MustReject = "invalid delimiter parameter"
		c.class("delim:invalid")
	}
	eol := c31Pick(t, "eol", "\n", "\n", "\r\n")
	var sb strings.Builder
	bom := c31Chance(t, "bom", 10)
	if bom {
		sb.WriteString("\xef\xbb\xbf")
		c.class("file:bom")
	}
	skip := 0
	if c31Chance(t, "skiprows", 12) {
		skip = rapid.IntRange(1, 3).Draw(t, "skip")
		c.Query["skip_rows"] = strconv.Itoa(skip)
		c.class("file:skip_rows")
		for i := 0; i < skip; i++ {
			sb.WriteString(c31Pick(t, "junk", "# exported by tool", "report 2024", "a"+string(delim)+"b"+string(delim)+"c", "generated: now"))
			sb.WriteString(eol)
		}
	}
	for j, h := range header {
		if j > 0 {
			sb.WriteRune(delim)
		}
		if j == 0 && bom && skip == 0 {
			if strings.ContainsRune(h, delim) || strings.Contains(h, "\"") {
				h = "h0"
				if tIdx == 0 {
					c.Query["time_column"] = "h0"
				}
				header[0] = h
			}
			sb.WriteString(h)
			continue
		}
		sb.WriteString(c31CSVField(t, h, delim, false))
	}
	sb.WriteString(eol)
	for r := 0; r < nrows; r++ {
		for j := 0; j < width[r]; j++ {
			if j > 0 {
				sb.WriteRune(delim)
			}
			// a lone empty field would be a blank line (not a record): quote it
			force := width[r] == 1 && cols[j][r] == ""
			sb.WriteString(c31CSVField(t, cols[j][r], delim, force))
		}
		if r < nrows-1 || c31Chance(t, "finaleol", 80) {
			sb.WriteString(eol)
		}
	}
	c.File = []byte(sb.String())
	c.FileText = sb.String()

	// ---- ground truth
	for _, v := range tvals {
		if v.Bad && c.MustReject == "" {
			c.MustReject = "time value not convertible by the documented rules"
		}
	}
	if c.MustReject != "" {
		return c
	}
	types := map[string]bool{}
	canon := make([][]string, len(header))
	for j := range header {
		if j == tIdx {
			continue
		}
		var typ string
		typ, canon[j] = c31Infer(cols[j])
		types[typ] = true
		for _, s := range cols[j] {
			if s == "" {
				c.NonTrivial = true
			}
		}
	}
	if len(types) > 1 || c.Query["time_format"] != "" {
		c.NonTrivial = true
	}
	c.Want = make([]map[string]string, nrows)
	for r := 0; r < nrows; r++ {
		row := map[string]string{"time": c31TimeCell(tvals[r].Want)}
		for j, h := range header {
			if j != tIdx {
				row[h] = canon[j][r]
			}
		}
		c.Want[r] = row
	}
	c31DrawFault(t, c)
	return c
}

// c31DrawFault attaches a storage fault to an importable file: the backend
// Write of every file, or of the k-th file (one hour partition of a multi-hour
// import), fails during the import's flush.
func c31DrawFault(t *rapid.T, c *c31Case) {
	if !c31Chance(t, "storagefault", 12) {
		return
	}
	c.Fault = c31Pick(t, "faultkind", "all", "nth:1", "nth:2", "nth:3")
	c.class("fault:storage-write-" + c.Fault)
	c.NonTrivial = true
}
