//go:build verif

package api

// C26 (HTTP handler level) - the REAL receive paths of the three nonce-protected
// message types served over HTTP: POST /api/v1/internal/cache/invalidate
// (CacheInvalidateHandler.handle) and the edge-sync uploads POST /api/v1/sync/file and
// /api/v1/sync/reconcile (EdgeSyncHandler), each built with the nonce cache and
// tolerance cmd/arc/main.go wires (expressions copied from main.go by
// /verif/overlaygen/c26_pairs.py) and driven through fiber's app.Test under a fake
// clock in internal/cluster/security. Same timelines and oracle as the other parts
// (kit/replaytl): each signed request accepted at most once, never outside the window.

import (
	"bytes"
	"crypto/sha256"
	"database/sql"
	"encoding/hex"
	"fmt"
	"net/http"
	"net/http/httptest"
	"os"
	"strconv"
	"strings"
	"testing"
	"time"

	"github.com/basekick-labs/arc/internal/cluster/security"
	"github.com/basekick-labs/arc/internal/edgesync"
	"github.com/basekick-labs/arc/internal/storage"
	"github.com/basekick-labs/arc/internal/verifkit"
	"github.com/basekick-labs/arc/internal/verifkit/replaytl"
	"github.com/gofiber/fiber/v2"
	_ "github.com/mattn/go-sqlite3"
	"github.com/rs/zerolog"
	"pgregory.net/rapid"
)

const kfC26TTLa = "C26-nonce-ttl-shorter-than-timestamp-lifetime"

const (
	c26aSecret  = "verif-cluster-secret"
	c26aCluster = "verif-cluster"
	c26aHub     = "hub-1"
)

func c26aSites() []replaytl.Site {
	out := make([]replaytl.Site, 0, len(verifC26APISites))
	for _, s := range verifC26APISites {
		out = append(out, replaytl.Site{Type: s.Type, Cache: s.Cache, Origin: s.Origin, Tolerance: s.Tolerance, TTL: s.TTL, TolExpr: s.TolExpr, TTLExpr: s.TTLExpr})
	}
	return out
}

func c26aBody(m *replaytl.Msg) []byte {
	if m.Type == "sync-reconcile" {
		return []byte(`{"entries":[{"path":"db/cpu/2026/01/01/00/` + m.Payload + `.parquet","sha256":"` + strings.Repeat("ab", 32) + `","size":1}]}`)
	}
	return []byte("PAR1" + m.Payload)
}

func c26aPath(m *replaytl.Msg) string { return "db/cpu/2026/01/01/00/" + m.Payload + ".parquet" }

func c26aDigest(b []byte) string { s := sha256.Sum256(b); return hex.EncodeToString(s[:]) }

func c26aSign(m *replaytl.Msg) error {
	var err error
	switch m.Type {
	case "cache-invalidate":
		m.MAC = security.ComputeCacheInvalidateHMAC(c26aSecret, m.Nonce, m.Sender, c26aCluster, m.TS)
	case "sync-file":
		m.MAC, err = security.ComputeSyncFileHMAC(c26aSecret, m.Nonce, m.Sender, c26aHub, c26aPath(m), c26aDigest(c26aBody(m)), m.TS)
	case "sync-reconcile":
		m.MAC, err = security.ComputeSyncReconcileHMAC(c26aSecret, m.Nonce, m.Sender, c26aHub, c26aBody(m), m.TS)
	default:
		err = fmt.Errorf("unknown type %q", m.Type)
	}
	return err
}

// c26aRig: storage, hub index, receiver and reconciler are shared by all cases (they
// sit behind authentication); the handlers - which own the nonce caches - are rebuilt
// for every timeline.
type c26aRig struct {
	recv *edgesync.Receiver
	rec  *edgesync.Reconciler
}

func c26aNewRig(t *testing.T) *c26aRig {
	dir := t.TempDir()
	backend, err := storage.NewLocalBackend(dir+"/store", zerolog.Nop())
	if err != nil {
		t.Fatalf("harness: backend: %v", err)
	}
	t.Cleanup(func() { backend.Close() })
	db, err := sql.Open("sqlite3", dir+"/hub-index.db")
	if err != nil {
		t.Fatalf("harness: sqlite: %v", err)
	}
	t.Cleanup(func() { db.Close() })
	idx, err := edgesync.NewHubIndex(db, zerolog.Nop())
	if err != nil {
		t.Fatalf("harness: hub index: %v", err)
	}
	recv, err := edgesync.NewReceiver(edgesync.ReceiverConfig{Backend: backend, Index: idx, Logger: zerolog.Nop()})
	if err != nil {
		t.Fatalf("harness: receiver: %v", err)
	}
	rec, err := edgesync.NewReconciler(edgesync.ReconcilerConfig{Index: idx, Backend: backend, MaxEntries: 100})
	if err != nil {
		t.Fatalf("harness: reconciler: %v", err)
	}
	return &c26aRig{recv: recv, rec: rec}
}

// c26aApp builds the HTTP surface of one nonce cache exactly as main.go wires it.
func (r *c26aRig) c26aApp(cache string) (*fiber.App, error) {
	app := fiber.New(fiber.Config{DisableStartupMessage: true, BodyLimit: 32 << 20})
	switch cache {
	case "cache-invalidate":
		h := NewCacheInvalidateHandler(c26aSecret, c26aCluster, "local-node",
			verifC26NewCacheInvalidateNonceCache(), verifC26CacheInvalidateTolerance, func() {}, zerolog.Nop())
		h.Register(app)
	case "edge-sync":
		h, err := NewEdgeSyncHandler(EdgeSyncHandlerConfig{
			Receiver: r.recv, Reconciler: r.rec,
			SpokeSecrets: StaticSpokeSecrets(map[string]string{"node-a": c26aSecret, "node-b": c26aSecret}),
			Replay:       verifC26NewEdgeSyncReplay(),
			HubID:        c26aHub, MaxFileBytes: 8 << 20, Logger: zerolog.Nop(),
		})
		if err != nil {
			return nil, err
		}
		h.RegisterRoutes(app)
	default:
		return nil, fmt.Errorf("unknown cache %q", cache)
	}
	return app, nil
}

// c26aDeliver sends the request and reports whether it got past authentication and
// replay protection (cache-invalidate answers 204 vs 403; edge-sync answers 401 for
// every authentication/expiry/replay failure and anything else once authenticated).
func c26aDeliver(app *fiber.App, m *replaytl.Msg) (bool, error) {
	var req *http.Request
	switch m.Type {
	case "cache-invalidate":
		req = httptest.NewRequest(http.MethodPost, CacheInvalidatePath, nil)
		req.Header.Set("X-Arc-Node-ID", m.Sender)
		req.Header.Set("X-Arc-Cluster", c26aCluster)
		req.Header.Set("X-Arc-Nonce", m.Nonce)
		req.Header.Set("X-Arc-Timestamp", strconv.FormatInt(m.TS, 10))
		req.Header.Set("X-Arc-HMAC", m.MAC)
	case "sync-file":
		body := c26aBody(m)
		req = httptest.NewRequest(http.MethodPost, "/api/v1/sync/file", bytes.NewReader(body))
		req.Header.Set(headerSpokeID, m.Sender)
		req.Header.Set(headerHubID, c26aHub)
		req.Header.Set(headerPath, c26aPath(m))
		req.Header.Set(headerSHA256, c26aDigest(body))
		req.Header.Set(headerSize, strconv.Itoa(len(body)))
		req.Header.Set(headerNonce, m.Nonce)
		req.Header.Set(headerTS, strconv.FormatInt(m.TS, 10))
		req.Header.Set(headerMAC, m.MAC)
	case "sync-reconcile":
		req = httptest.NewRequest(http.MethodPost, "/api/v1/sync/reconcile", bytes.NewReader(c26aBody(m)))
		req.Header.Set(headerSpokeID, m.Sender)
		req.Header.Set(headerHubID, c26aHub)
		req.Header.Set(headerNonce, m.Nonce)
		req.Header.Set(headerTS, strconv.FormatInt(m.TS, 10))
		req.Header.Set(headerMAC, m.MAC)
		req.Header.Set("Content-Type", "application/json")
	default:
		return false, fmt.Errorf("unknown type %q", m.Type)
	}
	resp, err := app.Test(req, 60000)
	if err != nil {
		return false, err
	}
	resp.Body.Close()
	switch m.Type {
	case "cache-invalidate":
		switch resp.StatusCode {
		case fiber.StatusNoContent:
			return true, nil
		case fiber.StatusForbidden:
			return false, nil
		}
		return false, fmt.Errorf("cache-invalidate: unexpected status %d", resp.StatusCode)
	default:
		if resp.StatusCode >= 500 {
			return false, fmt.Errorf("%s: unexpected status %d", m.Type, resp.StatusCode)
		}
		return resp.StatusCode != fiber.StatusUnauthorized, nil
	}
}

func TestVerifC26_HTTPHandlers(t *testing.T) {
	defer security.VerifSetClock(time.Time{})
	sites := c26aSites()
	if len(sites) == 0 {
		t.Fatalf("harness: no HTTP call sites extracted")
	}
	if os.Getenv("VERIF_DIR") == "" {
		t.Log("note: running outside vcheck")
	}
	rig := c26aNewRig(t)
	excl := verifkit.Excluded(kfC26TTLa)
	rapid.Check(t, func(t *rapid.T) {
		tl := replaytl.Gen(t, sites, nil)
		for _, m := range tl.Msgs {
			if err := c26aSign(m); err != nil {
				t.Fatalf("harness: sign: %v", err)
			}
		}
		security.VerifSetClock(time.Unix(0, tl.CacheBorn))
		app, err := rig.c26aApp(tl.Site.Cache)
		if err != nil {
			t.Fatalf("harness: %v", err)
		}
		var herr error
		res := tl.Run(excl, func(ns int64) { security.VerifSetClock(time.Unix(0, ns)) },
			func(m *replaytl.Msg, _ time.Duration) bool {
				ok, err := c26aDeliver(app, m)
				if err != nil && herr == nil {
					herr = err
				}
				return ok
			}, nil)
		_ = app.Shutdown()
		if herr != nil {
			t.Fatalf("harness: %v", herr)
		}
		for i := 0; i < res.Excluded; i++ {
			verifkit.CountExcluded(kfC26TTLa)
		}
		if res.FailClass != "" {
			t.Fatalf("VERIF-FAIL class=C26/http-%s %s\n%s", res.FailClass, res.FailText, res.Describe(tl))
		}
		verifkit.Eval()
		verifkit.Class("http/" + tl.Site.Type)
		if res.NonTrivial {
			verifkit.NonTrivial("http|" + strings.Join(res.Log, "|"))
			verifkit.Class("http/replay-inside-window/" + tl.Site.Type)
			if verifkit.SampleCount() < 2 {
				verifkit.Sample(map[string]any{"level": "real HTTP handlers", "type": tl.Site.Type, "timeline": res.Log})
			}
		}
	})
}
