//go:build verif

package api

// C30 - requests are served by a capable node after at most one forward.
//
// A pool of four in-process nodes. Each node is a fiber app on its own loopback
// listener with the REAL MsgPack / LineProtocol (x3 endpoints) / TLE / Query
// handlers, its own ArrowBuffer + storage directory and its own DuckDB (which
// answers c30_whoami() with the node's id). Per generated topology every active
// node gets a REAL cluster.Router over a REAL cluster.Registry filled from the
// topology (roles, writer states, health, possibly a stale view of a peer), or
// no router at all (clustering off). A middleware in front of the handlers logs
// every inbound request per request id, so "who was asked, in which order, with
// which forwarding headers" is observed rather than inferred.

import (
	"bytes"
	"context"
	"database/sql"
	"encoding/json"
	"fmt"
	"io"
	"net"
	"net/http"
	"net/url"
	"os"
	"path/filepath"
	"sort"
	"strings"
	"sync"
	"testing"
	"time"

	"github.com/Basekick-Labs/msgpack/v6"
	"github.com/basekick-labs/arc/internal/cluster"
	"github.com/basekick-labs/arc/internal/config"
	"github.com/basekick-labs/arc/internal/database"
	"github.com/basekick-labs/arc/internal/ingest"
	"github.com/basekick-labs/arc/internal/storage"
	"github.com/basekick-labs/arc/internal/verifkit"
	"github.com/basekick-labs/arc/internal/verifkit/duck"
	"github.com/gofiber/fiber/v2"
	"github.com/rs/zerolog"
	"pgregory.net/rapid"
)

const (
	kfC30Unrouted = "C30-query-surfaces-unrouted"
	c30DB         = "c30db"
	c30ReqHeader  = "X-C30-Req"
)

type c30Inbound struct {
	Node    string
	Path    string
	FwdBy   []string // every X-Arc-Forwarded-By value the node received
	XFF     []string
	XRealIP []string
}

type c30Node struct {
	id      string
	dir     string
	backend *storage.LocalBackend
	buf     *ingest.ArrowBuffer
	duck    *database.DuckDB
	app     *fiber.App
	addr    string
	mp      *MsgPackHandler
	lp      *LineProtocolHandler
	tle     *TLEHandler
	q       *QueryHandler
}

type c30PoolT struct {
	nodes     []*c30Node
	deadAddr  string
	transport *http.Transport
	client    *http.Client
	seqOK     bool

	mu  sync.Mutex
	log map[string][]c30Inbound

	// every write request that was acknowledged: request id -> node ids that processed it
	writes map[string]string
}

var (
	c30Pool     *c30PoolT
	c30PoolOnce sync.Once
	c30PoolErr  error
)

func c30HeaderValues(c *fiber.Ctx, name string) []string {
	var out []string
	c.Request().Header.VisitAll(func(k, v []byte) {
		if strings.EqualFold(string(k), name) {
			out = append(out, string(v))
		}
	})
	return out
}

func c30BuildPool() (*c30PoolT, error) {
	p := &c30PoolT{log: map[string][]c30Inbound{}, writes: map[string]string{}}
	lg := zerolog.Nop()
	base, err := os.MkdirTemp("", "c30-")
	if err != nil {
		return nil, err
	}
	base, _ = filepath.EvalSymlinks(base)
	for i := 0; i < 4; i++ {
		n := &c30Node{id: fmt.Sprintf("c30-node-%d", i), dir: filepath.Join(base, fmt.Sprintf("n%d", i))}
		if err := os.MkdirAll(n.dir, 0o755); err != nil {
			return nil, err
		}
		if n.backend, err = storage.NewLocalBackend(n.dir, lg); err != nil {
			return nil, err
		}
		n.buf = ingest.NewArrowBuffer(&config.IngestConfig{
			MaxBufferSize: 1 << 30, MaxBufferAgeMS: 24 * 3600 * 1000, Compression: "snappy",
			FlushWorkers: 1, FlushQueueSize: 4, ShardCount: 2, DataPageVersion: "2.0",
		}, n.backend, lg)
		n.duck, err = database.New(&database.Config{MemoryLimit: "256MB", ThreadCount: 1, MaxConnections: 2, LocalStorageRoot: n.dir}, lg)
		// database.New bounds its sandbox lock-down with a 5 s context; on an overloaded machine that is
		// start-up latency, not the property: retry instead of failing the case.
		for attempt := 0; err != nil && attempt < 7; attempt++ {
			n.duck, err = database.New(&database.Config{MemoryLimit: "256MB", ThreadCount: 1, MaxConnections: 2, LocalStorageRoot: n.dir}, lg)
		}
		if err != nil {
			return nil, fmt.Errorf("database.New: %w", err)
		}
		if _, err := n.duck.Exec(fmt.Sprintf("CREATE MACRO c30_whoami() AS '%s'", n.id)); err != nil {
			return nil, fmt.Errorf("create macro: %w", err)
		}
		if _, err := n.duck.Exec("CREATE SEQUENCE c30_seq START 1"); err != nil {
			return nil, fmt.Errorf("create sequence: %w", err)
		}
		n.mp = NewMsgPackHandler(lg, n.buf, 64<<20)
		n.lp = NewLineProtocolHandler(n.buf, lg)
		n.tle = NewTLEHandler(n.buf, lg)
		n.q = NewQueryHandler(n.duck, n.backend, lg, 60, 0)
		n.app = fiber.New(fiber.Config{DisableStartupMessage: true, BodyLimit: 64 << 20})
		node := n
		n.app.Use(func(c *fiber.Ctx) error {
			if id := c.Get(c30ReqHeader); id != "" {
				in := c30Inbound{Node: node.id, Path: c.Path(), FwdBy: c30HeaderValues(c, ForwardedByHeader),
					XFF: c30HeaderValues(c, "X-Forwarded-For"), XRealIP: c30HeaderValues(c, "X-Real-Ip")}
				p.mu.Lock()
				p.log[id] = append(p.log[id], in)
				p.mu.Unlock()
			}
			return c.Next()
		})
		n.mp.RegisterRoutes(n.app)
		n.lp.RegisterRoutes(n.app)
		n.tle.RegisterRoutes(n.app)
		n.q.RegisterRoutes(n.app)
		ln, err := net.Listen("tcp", "127.0.0.1:0")
		if err != nil {
			return nil, err
		}
		n.addr = ln.Addr().String()
		go func() { _ = node.app.Listener(ln) }()
		p.nodes = append(p.nodes, n)
	}
	ln, err := net.Listen("tcp", "127.0.0.1:0")
	if err != nil {
		return nil, err
	}
	p.deadAddr = ln.Addr().String()
	_ = ln.Close()
	p.transport = &http.Transport{MaxIdleConns: 64, MaxIdleConnsPerHost: 8, IdleConnTimeout: 30 * time.Second}
	p.client = &http.Client{Timeout: 60 * time.Second, Transport: &http.Transport{MaxIdleConnsPerHost: 4}}

	// every node gets a probe measurement naming itself, flushed to its own storage
	for _, n := range p.nodes {
		body := fmt.Sprintf("c30probe,node=%s v=1i 1786111200000000000\n", n.id)
		st, rb, err := p.do(n, "POST", "/api/v1/write/line-protocol", map[string][]string{"x-arc-database": {c30DB}}, []byte(body))
		if err != nil || st/100 != 2 {
			return nil, fmt.Errorf("probe write on %s: status=%d body=%s err=%v", n.id, st, rb, err)
		}
		if err := n.buf.FlushAll(context.Background()); err != nil {
			return nil, fmt.Errorf("probe flush: %w", err)
		}
	}
	// is the per-node execution counter observable?
	n0 := p.nodes[0]
	if _, _, err := p.do(n0, "POST", "/api/v1/query", map[string][]string{"Content-Type": {"application/json"}},
		[]byte(`{"sql":"SELECT c30_whoami() AS who, nextval('c30_seq') AS n"}`)); err != nil {
		return nil, err
	}
	if v, err := c30SeqValue(n0); err == nil && v >= 1 {
		p.seqOK = true
	}
	return p, nil
}

func c30SeqValue(n *c30Node) (int64, error) {
	rows, err := n.duck.Query("SELECT COALESCE(last_value, 0) FROM duckdb_sequences() WHERE sequence_name = 'c30_seq'")
	if err != nil {
		return 0, err
	}
	defer rows.Close()
	var v sql.NullInt64
	if rows.Next() {
		if err := rows.Scan(&v); err != nil {
			return 0, err
		}
	}
	return v.Int64, rows.Err()
}

func (p *c30PoolT) do(n *c30Node, method, pathQ string, hdr map[string][]string, body []byte) (int, []byte, error) {
	req, err := http.NewRequest(method, "http://"+n.addr+pathQ, bytes.NewReader(body))
	if err != nil {
		return 0, nil, err
	}
	for k, vs := range hdr {
		req.Header[http.CanonicalHeaderKey(k)] = vs
	}
	resp, err := p.client.Do(req)
	if err != nil {
		return 0, nil, err
	}
	defer resp.Body.Close()
	b, err := io.ReadAll(resp.Body)
	return resp.StatusCode, b, err
}

func c30GetPool(t interface{ Fatalf(string, ...any) }) *c30PoolT {
	c30PoolOnce.Do(func() { c30Pool, c30PoolErr = c30BuildPool() })
	if c30PoolErr != nil {
		t.Fatalf("HARNESS pool: %v", c30PoolErr)
	}
	return c30Pool
}

// ---------------------------------------------------------------- topology

type c30View struct {
	Role     string `json:"role"`
	State    string `json:"state"`
	WriterSt string `json:"writer_state,omitempty"`
}

type c30Spec struct {
	Node     string             `json:"node"`
	Role     string             `json:"role"` // the node's own role ("standalone" whenever clustering is off)
	Router   bool               `json:"router"`
	Up       bool               `json:"up"`
	WriterSt string             `json:"writer_state,omitempty"`
	View     map[string]c30View `json:"view,omitempty"` // this node's registry view of its peers
}

// documented capability table (internal/cluster/role.go)
func c30Can(role string, isWrite bool) bool {
	switch role {
	case "writer", "standalone":
		return true
	case "reader":
		return !isWrite
	}
	return false // compactor, unknown
}

func c30GenTopology(t *rapid.T, p *c30PoolT) []c30Spec {
	n := rapid.SampledFrom([]int{1, 2, 2, 3, 3, 3, 4, 4}).Draw(t, "nodes")
	roles := []string{"writer", "writer", "writer", "reader", "reader", "compactor", "compactor", "standalone"}
	specs := make([]c30Spec, n)
	for i := range specs {
		s := c30Spec{Node: p.nodes[i].id, Role: rapid.SampledFrom(roles).Draw(t, "role"), Up: true}
		s.Router = rapid.IntRange(0, 9).Draw(t, "router") < 9
		if !s.Router {
			s.Role = "standalone" // no cluster coordinator, no router: an ordinary single-node server
		}
		if i > 0 && rapid.IntRange(0, 9).Draw(t, "down") == 0 {
			s.Up = false
		}
		if s.Role == "writer" {
			s.WriterSt = rapid.SampledFrom([]string{"primary", "standby", ""}).Draw(t, "writerState")
		} else if s.Router && rapid.IntRange(0, 3).Draw(t, "strayWriterState") == 0 {
			// a promotion stamped on a registry entry that is not (or no longer) a writer:
			// Coordinator.onWriterPromoted sets the state on whatever entry carries the id
			s.WriterSt = rapid.SampledFrom([]string{"primary", "primary", "standby"}).Draw(t, "strayWriterStateValue")
		}
		specs[i] = s
	}
	// Divergent membership (directed): A cannot serve the kind and holds a stale view of B
	// ("B serves it"), B cannot serve it either and does not know A at all (A not yet
	// applied on B, or evicted as dead), B knows a really capable C. A request entering at
	// A reaches B already marked; B must answer an error, never forward it on to C.
	divergent := ""
	if n >= 3 && rapid.IntRange(0, 5).Draw(t, "divergentMembership") == 0 {
		divergent = rapid.SampledFrom([]string{"write", "write", "query"}).Draw(t, "divergentKind")
		for i := 0; i < 3; i++ {
			specs[i].Router, specs[i].Up, specs[i].WriterSt = true, true, ""
		}
		if divergent == "write" {
			specs[0].Role = rapid.SampledFrom([]string{"reader", "compactor"}).Draw(t, "divA")
			specs[1].Role = rapid.SampledFrom([]string{"reader", "compactor"}).Draw(t, "divB")
			specs[2].Role = "writer"
		} else {
			specs[0].Role, specs[1].Role, specs[2].Role = "compactor", "compactor", "reader"
		}
	}
	states := []string{"healthy", "healthy", "healthy", "healthy", "healthy", "healthy", "healthy", "healthy", "unhealthy", "dead", "unknown", "joining"}
	for i := range specs {
		if !specs[i].Router {
			continue
		}
		specs[i].View = map[string]c30View{}
		for j := range specs {
			if i == j {
				continue
			}
			v := c30View{Role: specs[j].Role, WriterSt: specs[j].WriterSt, State: rapid.SampledFrom(states).Draw(t, "viewState")}
			if rapid.IntRange(0, 9).Draw(t, "stale") == 0 {
				v.Role = rapid.SampledFrom([]string{"writer", "reader", "compactor"}).Draw(t, "staleRole") // a view that lags a role change
				if v.Role == "writer" {
					v.WriterSt = rapid.SampledFrom([]string{"primary", "standby", ""}).Draw(t, "staleWriterState")
				} else {
					// the role in this view changed, the writer state stamped earlier may linger
					v.WriterSt = rapid.SampledFrom([]string{"", "", "primary", "standby"}).Draw(t, "lingeringWriterState")
				}
			}
			if rapid.IntRange(0, 11).Draw(t, "unknownPeer") == 0 {
				continue // membership views diverge: this node has not (or no longer) registered that peer
			}
			specs[i].View[specs[j].Node] = v
		}
	}
	if divergent != "" {
		serving := map[string]string{"write": "writer", "query": "reader"}[divergent]
		a, b, c := specs[0].Node, specs[1].Node, specs[2].Node
		specs[0].View[b] = c30View{Role: serving, State: "healthy", WriterSt: map[string]string{"write": "primary", "query": ""}[divergent]}
		specs[0].View[c] = c30View{Role: specs[2].Role, State: "unhealthy"}
		delete(specs[1].View, a)
		specs[1].View[c] = c30View{Role: specs[2].Role, State: "healthy"}
		specs[2].View[a] = c30View{Role: specs[0].Role, State: "healthy"}
		specs[2].View[b] = c30View{Role: specs[1].Role, State: "healthy"}
	}
	return specs
}

func (p *c30PoolT) apply(specs []c30Spec) {
	byID := map[string]*c30Node{}
	for _, n := range p.nodes {
		byID[n.id] = n
		n.mp.SetRouter(nil)
		n.lp.SetRouter(nil)
		n.tle.SetRouter(nil)
		n.q.SetRouter(nil)
	}
	up := map[string]bool{}
	for _, s := range specs {
		up[s.Node] = s.Up
	}
	for _, s := range specs {
		if !s.Router {
			continue
		}
		n := byID[s.Node]
		local := cluster.NewNode(s.Node, s.Node, cluster.NodeRole(s.Role), "c30")
		local.State = cluster.StateHealthy
		local.APIAddress = n.addr
		local.WriterSt = cluster.WriterState(s.WriterSt)
		reg := cluster.NewRegistry(&cluster.RegistryConfig{LocalNode: local, Logger: zerolog.Nop()})
		for _, peer := range verifkit.SortedKeys(s.View) {
			v := s.View[peer]
			pn := cluster.NewNode(peer, peer, cluster.NodeRole(v.Role), "c30")
			pn.State = cluster.NodeState(v.State)
			pn.WriterSt = cluster.WriterState(v.WriterSt)
			pn.APIAddress = p.deadAddr
			if up[peer] {
				pn.APIAddress = byID[peer].addr
			}
			_ = reg.Register(pn)
		}
		r := cluster.NewRouter(&cluster.RouterConfig{Timeout: 30 * time.Second, Retries: 1, Registry: reg, LocalNode: local,
			Logger: zerolog.Nop(), Transport: p.transport})
		n.mp.SetRouter(r)
		n.lp.SetRouter(r)
		n.tle.SetRouter(r)
		n.q.SetRouter(r)
	}
}

// ---------------------------------------------------------------- requests

type c30Req struct {
	ID      string              `json:"id"`
	Entry   string              `json:"entry"`
	Kind    string              `json:"kind"`
	Headers map[string][]string `json:"client_headers,omitempty"`
	method  string
	pathQ   string
	body    []byte
	isWrite bool
}

var c30ReqSeq int

func c30WriteKinds() []string { return []string{"msgpack", "lp_v1", "lp_v2", "lp_simple", "tle"} }

func c30QueryKinds() []string {
	k := []string{"query_json", "query_json", "query_msgpack"}
	if !verifkit.Excluded(kfC30Unrouted) {
		k = append(k, "query_arrow", "query_measurement")
	}
	return k
}

func c30GenRequest(t *rapid.T, specs []c30Spec) c30Req {
	c30ReqSeq++
	r := c30Req{ID: fmt.Sprintf("R%06d", c30ReqSeq), Headers: map[string][]string{}}
	var ups []string
	for _, s := range specs {
		if s.Up {
			ups = append(ups, s.Node)
		}
	}
	r.Entry = rapid.SampledFrom(ups).Draw(t, "entry")
	if verifkit.Excluded(kfC30Unrouted) {
		verifkit.CountExcluded(kfC30Unrouted)
	}
	kinds := append(c30WriteKinds(), c30QueryKinds()...)
	r.Kind = rapid.SampledFrom(kinds).Draw(t, "kind")
	ts := int64(1786111200000) + int64(c30ReqSeq)
	sqlText := fmt.Sprintf("SELECT c30_whoami() AS who, nextval('c30_seq') AS n, '%s' AS req", r.ID)
	qbody, _ := json.Marshal(map[string]string{"sql": sqlText})
	switch r.Kind {
	case "msgpack":
		r.isWrite, r.method, r.pathQ = true, "POST", "/api/v1/write/msgpack"
		r.body, _ = msgpack.Marshal(map[string]any{"m": "c30m", "columns": map[string]any{
			"time": []int64{ts}, "req": []string{r.ID}, "v": []int64{1}}})
		r.Headers["x-arc-database"] = []string{c30DB}
		r.Headers["Content-Type"] = []string{"application/msgpack"}
	case "lp_v1":
		r.isWrite, r.method, r.pathQ = true, "POST", "/write?db="+c30DB+"&precision=ms"
		r.body = []byte(fmt.Sprintf("c30m,req=%s v=1i %d\n", r.ID, ts))
	case "lp_v2":
		r.isWrite, r.method, r.pathQ = true, "POST", "/api/v2/write?org=o&bucket="+c30DB+"&precision=ms"
		r.body = []byte(fmt.Sprintf("c30m,req=%s v=1i %d\n", r.ID, ts))
	case "lp_simple":
		r.isWrite, r.method, r.pathQ = true, "POST", "/api/v1/write/line-protocol?precision=ms"
		r.body = []byte(fmt.Sprintf("c30m,req=%s v=1i %d\n", r.ID, ts))
		r.Headers["x-arc-database"] = []string{c30DB}
	case "tle":
		r.isWrite, r.method, r.pathQ = true, "POST", "/api/v1/write/tle"
		r.body = []byte(r.ID + "\n1 25544U 98067A   24051.34722222  .00016717  00000-0  10270-3 0  9014\n2 25544  51.6400 208.9163 0006703 319.1918  40.8793 15.49560830442108\n")
		r.Headers["x-arc-database"] = []string{c30DB}
	case "query_json":
		r.method, r.pathQ, r.body = "POST", "/api/v1/query", qbody
		r.Headers["Content-Type"] = []string{"application/json"}
	case "query_msgpack":
		r.method, r.pathQ, r.body = "POST", "/api/v1/query/msgpack", qbody
		r.Headers["Content-Type"] = []string{"application/json"}
	case "query_arrow":
		r.method, r.pathQ, r.body = "POST", "/api/v1/query/arrow", qbody
		r.Headers["Content-Type"] = []string{"application/json"}
	case "query_measurement":
		r.method, r.pathQ = "GET", "/api/v1/query/c30probe?database="+c30DB+"&limit=5&req="+r.ID
	}
	// client-supplied forwarding headers
	var ids []string
	for _, s := range specs {
		ids = append(ids, s.Node)
	}
	switch rapid.IntRange(0, 11).Draw(t, "fwdBy") {
	case 0:
		r.Headers[ForwardedByHeader] = []string{""}
	case 1:
		r.Headers[ForwardedByHeader] = []string{"spoofed-node"}
	case 2:
		r.Headers[ForwardedByHeader] = []string{rapid.SampledFrom(ids).Draw(t, "fwdByNode")}
	case 3:
		r.Headers[ForwardedByHeader] = []string{r.Entry}
	}
	if rapid.IntRange(0, 3).Draw(t, "xff") == 0 {
		r.Headers["X-Forwarded-For"] = []string{"203.0.113.7"}
		r.Headers["X-Real-Ip"] = []string{"203.0.113.8"}
		r.Headers["X-Arc-Original-Host"] = []string{"evil.example"}
		r.Headers["Forwarded"] = []string{"for=203.0.113.9"}
	}
	r.Headers[c30ReqHeader] = []string{r.ID}
	return r
}

func (r c30Req) spoofed() bool {
	v, ok := r.Headers[ForwardedByHeader]
	return ok && len(v) > 0 && v[0] != ""
}

type c30Snap struct {
	buffered map[string]int64
	executed map[string]int64
}

func (p *c30PoolT) snap(t *rapid.T) c30Snap {
	s := c30Snap{buffered: map[string]int64{}, executed: map[string]int64{}}
	for _, n := range p.nodes {
		s.buffered[n.id] = n.buf.GetStats()["total_records_buffered"].(int64)
		if p.seqOK {
			v, err := c30SeqValue(n)
			if err != nil {
				t.Fatalf("HARNESS sequence read: %v", err)
			}
			s.executed[n.id] = v
		}
	}
	return s
}

type c30Outcome struct {
	Status    int          `json:"status"`
	Inbound   []c30Inbound `json:"inbound"`
	Processed []string     `json:"processed_by"`
}

// c30Run sends one request and applies the oracle.
func c30Run(t *rapid.T, p *c30PoolT, specs []c30Spec, r c30Req) c30Outcome {
	spec := map[string]c30Spec{}
	for _, s := range specs {
		spec[s.Node] = s
	}
	var entry *c30Node
	for _, n := range p.nodes {
		if n.id == r.Entry {
			entry = n
		}
	}
	before := p.snap(t)
	status, body, err := p.do(entry, r.method, r.pathQ, r.Headers, r.body)
	if err != nil && r.Kind == "query_arrow" {
		// Incidental, outside C30: for very fast statements the Arrow stream writer sets its
		// execution-time trailer while fasthttp serialises the response head, and the client
		// then reads a corrupted status line (e.g. "33TP/1.1"). Not a routing outcome: drop
		// the connection, count it, and judge nothing on this request.
		verifkit.Class("arrow-response-malformed(not judged)")
		p.client.CloseIdleConnections()
		p.transport.CloseIdleConnections()
		p.mu.Lock()
		delete(p.log, r.ID)
		p.mu.Unlock()
		return c30Outcome{Status: -1}
	}
	if err != nil {
		t.Fatalf("HARNESS client request to %s failed: %v", r.Entry, err)
	}
	after := p.snap(t)
	p.mu.Lock()
	inbound := append([]c30Inbound(nil), p.log[r.ID]...)
	delete(p.log, r.ID)
	p.mu.Unlock()

	out := c30Outcome{Status: status, Inbound: inbound}
	processed := map[string]bool{}
	for _, n := range p.nodes {
		if after.buffered[n.id] != before.buffered[n.id] || after.executed[n.id] != before.executed[n.id] {
			processed[n.id] = true
		}
	}
	if !r.isWrite && status/100 == 2 {
		// the answer names the DuckDB that produced it (c30_whoami / the probe row)
		for _, n := range p.nodes {
			if bytes.Contains(body, []byte(n.id)) {
				processed[n.id] = true
			}
		}
	}
	out.Processed = verifkit.SortedKeys(processed)

	desc := func() string {
		tj, _ := json.Marshal(specs)
		rj, _ := json.Marshal(r)
		oj, _ := json.Marshal(out)
		if len(body) > 200 {
			body = body[:200]
		}
		return fmt.Sprintf("\ntopology: %s\nrequest:  %s %s %s\noutcome:  %s\nbody: %q", tj, r.method, r.pathQ, rj, oj, body)
	}
	fail := func(class, what string) {
		t.Fatalf("VERIF-FAIL class=C30/%s %s%s", class, what, desc())
	}

	e := spec[r.Entry]
	// --- always
	if len(inbound) == 0 || inbound[0].Node != r.Entry {
		t.Fatalf("HARNESS inbound log does not start at the entry node%s", desc())
	}
	if len(inbound) > 2 {
		fail("more-than-one-hop", fmt.Sprintf("request visited %d nodes", len(inbound)))
	}
	for id := range processed {
		if s, active := spec[id]; !active {
			fail("processed-outside-cluster", "node "+id+" is not part of the topology but processed the request")
		} else if !c30Can(s.Role, r.isWrite) {
			fail("incapable-node-processed", fmt.Sprintf("node %s (role %s) processed a %s locally", id, s.Role, map[bool]string{true: "write", false: "query"}[r.isWrite]))
		}
	}
	if len(processed) > 1 {
		fail("processed-twice", "more than one node processed the request")
	}
	if status/100 == 2 && len(processed) == 0 {
		fail("acknowledged-not-processed", "2xx answer but no node processed the request")
	}
	if status/100 != 2 && len(processed) > 0 {
		// an error answer after local processing would make the client retry a request that took effect
		fail("processed-but-error", fmt.Sprintf("status %d although %v processed the request", status, out.Processed))
	}

	if c30Can(e.Role, r.isWrite) {
		// --- capable entry node: handled there, nothing forwarded, headers irrelevant
		if len(inbound) != 1 {
			fail("capable-node-forwarded", "entry node can serve the request but forwarded it")
		}
		if status/100 != 2 || !processed[r.Entry] {
			fail("capable-node-did-not-serve", fmt.Sprintf("entry node can serve the request but answered %d / processed=%v", status, out.Processed))
		}
		return out
	}
	// --- entry node cannot serve this kind
	if len(inbound) == 2 {
		peer := inbound[1]
		ps := spec[peer.Node]
		if peer.Node == r.Entry {
			fail("forwarded-to-self", "request forwarded to the node that could not serve it")
		}
		if len(peer.FwdBy) != 1 || peer.FwdBy[0] != r.Entry {
			fail("forward-marker", fmt.Sprintf("peer received X-Arc-Forwarded-By=%q, want exactly [%q]", peer.FwdBy, r.Entry))
		}
		if v := e.View[peer.Node]; v.State != "healthy" || !c30Can(v.Role, r.isWrite) {
			fail("forward-target", fmt.Sprintf("forwarded to %s, which the entry node's registry lists as %s/%s", peer.Node, v.Role, v.State))
		}
		if c30Can(ps.Role, r.isWrite) {
			if status/100 != 2 || !processed[peer.Node] {
				fail("forwarded-not-served", fmt.Sprintf("capable peer %s received the forward but status=%d processed=%v", peer.Node, status, out.Processed))
			}
		} else if status/100 == 2 {
			fail("incapable-peer-acknowledged", "peer cannot serve the request (stale registry view) yet the answer is 2xx")
		}
		return out
	}
	// no forward happened: must be an error answer, nothing processed (checked above)
	if status/100 == 2 {
		fail("incapable-entry-acknowledged", "entry node cannot serve the request, did not forward, yet answered 2xx")
	}
	// "otherwise forwarded once to a capable peer": when the entry node's registry
	// offers only peers that really are up and capable, and the client sent no
	// marker, the request must have been forwarded.
	if !r.spoofed() {
		candidates, allGood := 0, true
		for peer, v := range e.View {
			if v.State != "healthy" {
				continue
			}
			if v.Role == "writer" || (!r.isWrite && v.Role == "reader") {
				candidates++
				if ps := spec[peer]; !ps.Up || !c30Can(ps.Role, r.isWrite) {
					allGood = false
				}
			}
		}
		if candidates > 0 && allGood {
			fail("not-forwarded", fmt.Sprintf("entry node cannot serve the request and its registry lists %d healthy capable peer(s), all up, but the request was answered %d without a forward", candidates, status))
		}
	}
	return out
}

// ---------------------------------------------------------------- the property

func TestVerifC30_Routing(t *testing.T) {
	p := c30GetPool(t)
	rapid.Check(t, func(t *rapid.T) {
		specs := c30GenTopology(t, p)
		p.apply(specs)
		defer p.apply(nil)
		spec := map[string]c30Spec{}
		for _, s := range specs {
			spec[s.Node] = s
		}
		nreq := rapid.IntRange(2, 6).Draw(t, "requests")
		for i := 0; i < nreq; i++ {
			r := c30GenRequest(t, specs)
			out := c30Run(t, p, specs, r)
			if out.Status == -1 {
				continue
			}
			verifkit.Eval()
			verifkit.Class("kind:" + r.Kind)
			verifkit.Class("entry-role:" + spec[r.Entry].Role)
			verifkit.Class(fmt.Sprintf("status:%d", out.Status))
			verifkit.Class(fmt.Sprintf("hops:%d", len(out.Inbound)-1))
			if r.isWrite && len(out.Processed) == 1 {
				p.mu.Lock()
				p.writes[r.ID] = out.Processed[0]
				p.mu.Unlock()
			}
			incapable := !c30Can(spec[r.Entry].Role, r.isWrite)
			if incapable {
				verifkit.Class("entry-incapable")
				for _, v := range spec[r.Entry].View {
					if r.isWrite && v.Role != "writer" && v.WriterSt == "primary" && v.State == "healthy" {
						verifkit.Class("write-at-incapable-entry-with-nonwriter-primary-in-view")
						break
					}
				}
			}
			if len(out.Inbound) == 2 && !c30Can(spec[out.Inbound[1].Node].Role, r.isWrite) {
				verifkit.Class("forwarded-to-stale-incapable-peer")
				if _, known := spec[out.Inbound[1].Node].View[r.Entry]; !known {
					verifkit.Class("forwarded-to-incapable-peer-that-does-not-know-the-forwarder")
				}
			}
			if r.spoofed() {
				verifkit.Class("marker-spoofed")
			}
			if incapable || r.spoofed() {
				tj, _ := json.Marshal(specs)
				hj, _ := json.Marshal(r.Headers[ForwardedByHeader])
				verifkit.NonTrivial(fmt.Sprintf("%s|%s|%s|%s", tj, r.Entry, r.Kind, hj))
				if verifkit.SampleCount() < 4 && len(out.Inbound) == 2 || verifkit.SampleCount() < 2 {
					verifkit.Sample(map[string]any{"topology": specs, "request": r, "outcome": out})
				}
			}
		}
	})
	// storage-level confirmation: every acknowledged write is in the storage of the
	// node that processed it and in no other node's storage
	c30CheckStorage(t, p)
}

func c30CheckStorage(t *testing.T, p *c30PoolT) {
	db, err := duck.Open()
	if err != nil {
		t.Fatalf("HARNESS duckdb: %v", err)
	}
	defer db.Close()
	stored := map[string][]string{} // request id -> nodes holding it
	for _, n := range p.nodes {
		if err := n.buf.FlushAll(context.Background()); err != nil {
			t.Fatalf("HARNESS flush %s: %v", n.id, err)
		}
		for _, q := range []struct{ meas, col string }{{"c30m", "req"}, {"satellite_tle", "object_name"}} {
			files := duck.FindParquet(filepath.Join(n.dir, c30DB, q.meas))
			if len(files) == 0 {
				continue
			}
			tab, err := duck.ReadParquet(db, files)
			if err != nil {
				t.Fatalf("HARNESS read %s: %v", n.id, err)
			}
			for _, m := range tab.RowMaps() {
				id := strings.TrimPrefix(m[q.col], "s:")
				stored[id] = append(stored[id], n.id)
			}
		}
	}
	p.mu.Lock()
	defer p.mu.Unlock()
	ids := verifkit.SortedKeys(p.writes)
	for _, id := range ids {
		want := p.writes[id]
		got := stored[id]
		sort.Strings(got)
		if len(got) != 1 || got[0] != want {
			t.Fatalf("VERIF-FAIL class=C30/storage write %s was processed by %s but is stored on %v", id, want, got)
		}
	}
	for id, nodes := range stored {
		if _, ok := p.writes[id]; !ok && strings.HasPrefix(id, "R") {
			t.Fatalf("VERIF-FAIL class=C30/storage write %s is stored on %v although no node acknowledged processing it", id, nodes)
		}
	}
	verifkit.Note("writes_confirmed_in_storage", len(ids))
	p.writes = map[string]string{}
}

// ---------------------------------------------------------------- known finding

// A compactor (CanQuery=false) with a router and a healthy reader peer executes
// POST /api/v1/query/arrow and GET /api/v1/query/:measurement on its own DuckDB:
// those handlers never consult the router.
func TestVerifKF_C30_query_surfaces_unrouted(t *testing.T) {
	p := c30GetPool(t)
	specs := []c30Spec{
		{Node: p.nodes[0].id, Role: "compactor", Router: true, Up: true, View: map[string]c30View{p.nodes[1].id: {Role: "reader", State: "healthy"}}},
		{Node: p.nodes[1].id, Role: "reader", Router: true, Up: true, View: map[string]c30View{p.nodes[0].id: {Role: "compactor", State: "healthy"}}},
	}
	p.apply(specs)
	defer p.apply(nil)
	rep := 0
	var st int
	var body []byte
	var err error
	for try := 0; try < 4; try++ { // a malformed Arrow response (see c30Run) is retried, it is not the finding
		st, body, err = p.do(p.nodes[0], "POST", "/api/v1/query/arrow", map[string][]string{"Content-Type": {"application/json"}},
			[]byte(`{"sql":"SELECT c30_whoami() AS who"}`))
		if err == nil {
			break
		}
		p.client.CloseIdleConnections()
	}
	if err == nil && st == 200 && bytes.Contains(body, []byte(p.nodes[0].id)) {
		rep++
	}
	st, body, err = p.do(p.nodes[0], "GET", "/api/v1/query/c30probe?database="+url.QueryEscape(c30DB)+"&limit=5", nil, nil)
	if err == nil && st == 200 && bytes.Contains(body, []byte(p.nodes[0].id)) {
		rep++
	}
	// control: the routed surface forwards the same statement to the reader
	st, body, err = p.do(p.nodes[0], "POST", "/api/v1/query", map[string][]string{"Content-Type": {"application/json"}},
		[]byte(`{"sql":"SELECT c30_whoami() AS who"}`))
	control := err == nil && st == 200 && bytes.Contains(body, []byte(p.nodes[1].id)) && !bytes.Contains(body, []byte(p.nodes[0].id))
	verifkit.KnownFinding(kfC30Unrouted, rep == 2 && control,
		"compactor node executes POST /api/v1/query/arrow and GET /api/v1/query/:measurement locally (no routing decision in those handlers)")
}
