//go:build verif

package api

// C14 - A query can only read data the caller is authorized to read.
//
// The caller (token 7) is granted db1.* except db1.vault. Canary databases
// (db2, db3, default, and db1.vault) hold sentinel strings, sentinel numbers,
// sentinel column names and distinctive row counts. An adversarial SQL grammar
// (statement shapes x table spellings x lexical disguises x file-reading
// spellings x header) is sent to the JSON / MessagePack / Arrow / estimate /
// measurement endpoints, SHOW and the measurement listing.
//
// Oracle for every answer: (1) if 2xx, every file or directory touched under
// the storage root while the request ran (inotify IN_OPEN|IN_ACCESS on every
// directory) belongs to a (database, measurement) the recording RBAC checker
// saw checked AND allowed in that request; (2) no sentinel value, sentinel
// column name or canary row count appears in the body. Rejections are fine.

import (
	"fmt"
	"os"
	"sort"
	"strings"
	"testing"

	"github.com/basekick-labs/arc/internal/verifkit"
	"pgregory.net/rapid"
)

// Open findings (each switches one generator exclusion on).
const (
	c14FindMeasDefault  = "C14-measurement-header-default-remap" // GET /query/:m with x-arc-database: explicit default.<m> in where is checked as <header>.<m>
	c14FindUnicodeTag   = "C14-nonascii-dollar-tag"         // $é$...$é$ is a dollar-quoted string for DuckDB, not for the masker
	c14FindNestedCmt    = "C14-nested-comment-residue"      // /* a /* n */ b */: arc ends the comment at the first */, the residue closes the table-position window
	c14FindUnicodeGap   = "C14-unicode-space-before-paren"  // read_blob<NBSP>('...'): Go's \s is ASCII-only, DuckDB's whitespace is not
	c14FindCTEWith      = "C14-cte-with-whitespace"         // header path only looks for CTEs when the text contains "with " (with a space)
	c14FindQueryFn      = "C14-query-table-function"        // query()/query_table()/json_execute_serialized_sql() run nested SQL hidden in a literal
	c14FindDenylistGap  = "C14-io-denylist-gap"             // path-taking table functions missing from ioTableFunctionPattern
	c14FindKeywordAlias = "C14-quoted-keyword-alias"        // FROM t "where", '<path>'
	c14FindBackslash    = "C14-backslash-quote"             // 'a\' ends the literal for DuckDB, not for the masker
	c14FindQuoteComment = "C14-quote-in-comment"            // a quote inside a comment opens a literal for the masker only
	c14FindMeasWhere    = "C14-measurement-where-subquery"  // GET /api/v1/query/:m where=... (SELECT ... FROM otherdb.t)
	c14FindStmtHead     = "C14-statement-head-replacement"  // DESCRIBE/SUMMARIZE/PIVOT '<path>' (table position without FROM)
)

// ---------------------------------------------------------------- generator

type c14Gen struct {
	t    *rapid.T
	e    *c14Env
	feat map[string]bool
	ment bool   // statement mentions an unauthorized database / path
	hdr  string // header the statement generator settled on
}

func (g *c14Gen) tag(f string)           { g.feat[f] = true }
func (g *c14Gen) pick(l string, n int) int { return rapid.IntRange(0, n-1).Draw(g.t, l) }
func (g *c14Gen) oneOf(l string, xs ...string) string {
	return xs[g.pick(l, len(xs))]
}
func (g *c14Gen) chance(l string, pct int) bool { return rapid.IntRange(0, 99).Draw(g.t, l) < pct }

func (g *c14Gen) unauth() c14Table {
	var us []c14Table
	for _, tb := range c14Tables {
		if !tb.Allowed {
			us = append(us, tb)
		}
	}
	return us[g.pick("unauth", len(us))]
}

func (g *c14Gen) allowedTable() c14Table {
	if g.chance("mem", 30) {
		return c14Tables[1]
	}
	return c14Tables[0]
}

func c14KW(g *c14Gen, w string) string {
	switch g.pick("kwcase", 6) {
	case 0:
		return strings.ToLower(w)
	case 1:
		b := []byte(strings.ToLower(w))
		for i := range b {
			if i%2 == 0 {
				b[i] = byte(strings.ToUpper(string(b[i]))[0])
			}
		}
		return string(b)
	}
	return w
}

// sep draws the text between two tokens.
func (g *c14Gen) sep() string {
	if !g.chance("sepfancy", 14) {
		return " "
	}
	type s struct{ txt, tag string }
	opts := []s{
		{"\n", "ws:newline"}, {"\t", "ws:tab"}, {"  ", ""}, {"\r\n", "ws:crlf"}, {" \f ", "ws:formfeed"},
		{" ", "ws:nbsp"}, {"   ", "ws:nbsp"}, {"　", "ws:ideographic"},
		{"/**/", "cmt:empty"}, {" /* c */ ", "cmt:block"}, {" -- c\n", "cmt:line"}, {" \v ", "ws:vtab"},
		{" /* FROM db2.canary */ ", "cmt:mention"}, {" -- JOIN db2.secrets x\n", "cmt:mention"},
		{" /* a /* nested */ b */ ", "cmt:nested"}, {" /* /* */ FROM db1.cpu */ ", "cmt:nested"},
		{" /* ; */ ", "cmt:semicolon"}, {" /* __STR_0__ */ ", "cmt:lookalike"},
	}
	opts = append(opts, s{" /* ' */ ", "cmt:quote"}, s{" -- it's\n", "cmt:quote"}, s{" /* \" */ ", "cmt:quote"}, s{" /* $$ */ ", "cmt:quote"})
	o := opts[g.pick("sepkind", len(opts))]
	if o.tag != "" {
		g.tag(o.tag)
	}
	return o.txt
}

// with spells the WITH keyword plus the separator that follows it.
func (g *c14Gen) with() string {
	w := c14KW(g, "WITH")
	if verifkit.Excluded(c14FindCTEWith) {
		verifkit.CountExcluded(c14FindCTEWith)
		return w + " "
	}
	return w + g.oneOf("withsep", " ", " ", "\t", "\n", "\r\n", "/**/", " /* c */ ", "  ")
}

func (g *c14Gen) join(toks ...string) string {
	var b strings.Builder
	for i, tk := range toks {
		if tk == "" {
			continue
		}
		if i > 0 && b.Len() > 0 {
			b.WriteString(g.sep())
		}
		b.WriteString(tk)
	}
	return b.String()
}

// path spellings for a table's files.
func (g *c14Gen) path(tb c14Table) string {
	root := g.e.root
	g.ment = g.ment || !tb.Allowed
	switch g.pick("pathkind", 9) {
	case 0:
		return fmt.Sprintf("%s/%s/%s/%s/%s", root, tb.DB, tb.M, c14Partition, tb.FileName)
	case 1:
		g.tag("path:glob")
		return fmt.Sprintf("%s/%s/%s/*/*/*/*/*.parquet", root, tb.DB, tb.M)
	case 2:
		g.tag("path:globstar")
		return fmt.Sprintf("%s/%s/%s/**/*.parquet", root, tb.DB, tb.M)
	case 3:
		g.tag("path:dotdot")
		return fmt.Sprintf("%s/db1/cpu/../../%s/%s/%s/%s", root, tb.DB, tb.M, c14Partition, tb.FileName)
	case 4:
		g.tag("path:relative")
		return fmt.Sprintf("%s/%s/%s/%s", tb.DB, tb.M, c14Partition, tb.FileName)
	case 5:
		g.tag("path:db-glob")
		return fmt.Sprintf("%s/%s/[a-z0-9]*/2024/01/01/00/%s", root, tb.DB, tb.FileName)
	case 6:
		g.tag("path:file-scheme")
		return fmt.Sprintf("file://%s/%s/%s/%s/%s", root, tb.DB, tb.M, c14Partition, tb.FileName)
	case 7:
		g.tag("path:double-slash")
		return fmt.Sprintf("%s//%s/./%s/%s/%s", root, tb.DB, tb.M, c14Partition, tb.FileName)
	default:
		g.tag("path:question-glob")
		return fmt.Sprintf("%s/%s/%s/2024/01/01/0?/%s", root, tb.DB, tb.M, strings.Replace(tb.FileName, ".parquet", ".parque?", 1))
	}
}

// strLit spells s as a DuckDB string constant.
func (g *c14Gen) strLit(s string) string {
	q := strings.ReplaceAll(s, "'", "''")
	switch g.pick("strlit", 6) {
	case 0:
		g.tag("lit:dollar")
		return "$$" + s + "$$"
	case 1:
		g.tag("lit:dollar-tag")
		// every tag DuckDB's lexer accepts: letters, underscore, non-leading digits
		tags := []string{"p1", "my_tag", "_", "t_1", "Tag9", "_x1", "A", "a_b_c"}
		if !verifkit.Excluded(c14FindUnicodeTag) {
			tags = append(tags, "é", "ü1", "日本")
		} else {
			verifkit.CountExcluded(c14FindUnicodeTag)
		}
		tag := tags[g.pick("dollartag", len(tags))]
		return "$" + tag + "$" + s + "$" + tag + "$"
	case 2:
		g.tag("lit:estring")
		return g.oneOf("eprefix", "E", "e") + "'" + strings.ReplaceAll(q, `\`, `\\`) + "'"
	}
	return "'" + q + "'"
}

// fnCall spells a table-function call on a path.
func (g *c14Gen) fnCall(tb c14Table) string {
	type fn struct {
		name   string
		listed bool
	}
	var fns []fn
	for _, f := range g.e.tfns {
		switch f.Name {
		case "query", "query_table", "json_execute_serialized_sql", "checkpoint", "force_checkpoint", "enable_profiling",
			"check_peg_parser", "test_vector_types", "repeat", "unnest", "json_each", "json_tree", "sql_auto_complete", "which_secret":
			continue // not path readers (query* are a separate spelling below)
		}
		// the open finding names these two; every other function DuckDB's
		// catalog lists stays in the pool whether or not arc's list has it
		if (f.Name == "parquet_full_metadata" || f.Name == "read_duckdb") && verifkit.Excluded(c14FindDenylistGap) {
			verifkit.CountExcluded(c14FindDenylistGap)
			continue
		}
		fns = append(fns, fn{f.Name, f.Listed})
	}
	// arc's own list also names functions this DuckDB build does not have
	fns = append(fns, fn{"read_xlsx", true}, fn{"delta_scan", true}, fn{"iceberg_scan", true}, fn{"arc_partition_agg", true})
	f := fns[g.pick("fn", len(fns))]
	g.tag("fn:" + f.name)
	name := f.name
	switch g.pick("fnspell", 8) {
	case 0:
		name = strings.ToUpper(name)
		g.tag("fnspell:upper")
	case 1:
		name = `"` + name + `"`
		g.tag("fnspell:quoted")
	case 2:
		name = "main." + name
		g.tag("fnspell:schema")
	case 3:
		name = "system.main." + name
		g.tag("fnspell:catalog")
	case 4:
		gaps := []string{" ", "\n", "\t", " /**/ ", "/* x */", " -- y\n", "\r\n", "\f"}
		if !verifkit.Excluded(c14FindUnicodeGap) {
			gaps = append(gaps, "\u00a0", "\u3000", "\u2003", " \u00a0 ")
		} else {
			verifkit.CountExcluded(c14FindUnicodeGap)
		}
		name = name + gaps[g.pick("fnws", len(gaps))]
		g.tag("fnspell:gap")
	case 5:
		name = "`" + name + "`"
		g.tag("fnspell:backtick")
	}
	p := g.path(tb)
	var arg string
	switch g.pick("fnarg", 5) {
	case 0:
		arg = "[" + g.strLit(p) + "]"
	case 1:
		k := len(p) / 2
		arg = g.strLit(p[:k]) + " || " + g.strLit(p[k:])
		g.tag("arg:concat")
	default:
		arg = g.strLit(p)
	}
	return name + "(" + arg + ")"
}

// ref spells a reference to tb in table position. header is the x-arc-database
// header the request will carry ("" = none).
func (g *c14Gen) ref(tb c14Table, header string) string {
	g.ment = g.ment || !tb.Allowed
	db, m := tb.DB, tb.M
	kinds := []string{"dotted", "dotted", "dotted", "dotted-ws", "dotted-quoted", "dotted-case", "backtick", "three-part",
		"path-sq", "path-sq", "path-dq", "path-lit", "fn", "fn", "fn", "query"}
	if header != "" {
		kinds = append(kinds, "bare", "bare", "bare-quoted")
	}
	switch k := kinds[g.pick("refkind", len(kinds))]; k {
	case "dotted":
		return db + "." + m
	case "dotted-ws":
		g.tag("ref:dotted-ws")
		return db + g.oneOf("dotws", " . ", ".\n", " .", "\t.\t", "./**/", " /* x */ . ", ". ") + m
	case "dotted-quoted":
		g.tag("ref:quoted")
		switch g.pick("dq", 3) {
		case 0:
			return `"` + db + `"."` + m + `"`
		case 1:
			return db + `."` + m + `"`
		}
		return `"` + db + `".` + m
	case "dotted-case":
		g.tag("ref:case")
		return strings.ToUpper(db) + "." + strings.ToUpper(m[:1]) + m[1:]
	case "backtick":
		g.tag("ref:backtick")
		return "`" + db + "`.`" + m + "`"
	case "three-part":
		g.tag("ref:three-part")
		return g.oneOf("cat", "memory", "main", "system", "temp") + "." + db + "." + m
	case "bare":
		g.tag("ref:bare")
		return m
	case "bare-quoted":
		g.tag("ref:bare-quoted")
		return `"` + m + `"`
	case "path-sq":
		g.tag("ref:path-string")
		return "'" + strings.ReplaceAll(g.path(tb), "'", "''") + "'"
	case "path-dq":
		g.tag("ref:path-dquoted")
		return `"` + g.path(tb) + `"`
	case "path-lit":
		g.tag("ref:path-string")
		return g.strLit(g.path(tb))
	case "fn":
		return g.fnCall(tb)
	default: // query
		if verifkit.Excluded(c14FindQueryFn) {
			verifkit.CountExcluded(c14FindQueryFn)
			return g.fnCall(tb)
		}
		inner := "SELECT * FROM '" + g.path(tb) + "'"
		if g.chance("innerdotted", 30) {
			inner = "SELECT * FROM " + db + "." + m
		}
		switch g.pick("queryfn", 3) {
		case 0:
			g.tag("fn:query_table")
			return "query_table(" + g.strLit(g.path(tb)) + ")"
		case 1:
			g.tag("fn:json_execute_serialized_sql")
			return "json_execute_serialized_sql(json_serialize_sql(" + g.strLit(inner) + "))"
		}
		g.tag("fn:query")
		return "query(" + g.strLit(inner) + ")"
	}
}

func (g *c14Gen) alias(base string) string {
	if !g.chance("aliasfancy", 25) {
		return base
	}
	opts := []string{`"` + base + `"`, "AS " + base, `AS "` + base + `"`, `"a b"`, `"__IDENT_0__"`, "__STR_0__", `"sel""ect"`}
	if !verifkit.Excluded(c14FindKeywordAlias) {
		opts = append(opts, `"where"`, `AS "limit"`, `"group"`, `"order"`, `AS "union"`, `"window"`, `"for"`, `"having"`, `"offset"`, `"qualify"`, `"fetch"`, "`where`")
	} else {
		verifkit.CountExcluded(c14FindKeywordAlias)
	}
	a := opts[g.pick("alias", len(opts))]
	if strings.Contains(a, `"`) || strings.Contains(a, "`") {
		g.tag("alias:quoted")
	}
	for _, kw := range []string{"where", "limit", "group", "order", "union", "window", "for", "having", "offset", "qualify", "fetch"} {
		if strings.Contains(a, `"`+kw+`"`) || strings.Contains(a, "`"+kw+"`") {
			g.tag("alias:quoted-keyword")
		}
	}
	return a
}

// extra select items that stress the normaliser without changing what is read.
func (g *c14Gen) extras() string {
	if !g.chance("extras", 30) {
		return ""
	}
	opts := []struct{ txt, tag string }{
		{"'--' AS d1,", "lit:comment-marker"}, {"'/*' AS d2,", "lit:comment-marker"}, {"'*/' AS d3,", "lit:comment-marker"},
		{"'__STR_0__' AS p1,", "lit:lookalike"}, {"'__IDENT_0__' AS p2,", "lit:lookalike"}, {"1 AS \"__STR_1__\",", "lit:lookalike"},
		{"' FROM db2.canary ' AS p3,", "lit:mention"}, {"$$ JOIN db2.secrets s $$ AS p4,", "lit:mention"},
		{"'it''s' AS p5,", "lit:doubled-quote"}, {"E'tab\\t' AS p6,", "lit:estring"}, {"';' AS p7,", "lit:semicolon"},
		{"'read_parquet(' AS p8,", "lit:fnname"}, {"$q$'$q$ AS p9,", "lit:dollar-quote-inside"}, {"'$$' AS p10,", "lit:dollar-inside"},
	}
	if !verifkit.Excluded(c14FindBackslash) {
		opts = append(opts, struct{ txt, tag string }{"'a\\' AS q1,", "lit:backslash-quote"}, struct{ txt, tag string }{"'\\' AS q2,", "lit:backslash-quote"},
			struct{ txt, tag string }{"\"a\\\" AS q3,", "lit:backslash-dquote"})
	} else {
		verifkit.CountExcluded(c14FindBackslash)
	}
	o := opts[g.pick("extra", len(opts))]
	g.tag(o.tag)
	return o.txt
}

// closer: trailing text that re-balances what a confusing prefix opened.
func (g *c14Gen) closer() string {
	if !g.chance("closer", 25) {
		return ""
	}
	opts := []struct{ txt, tag string }{{"--x", "cmt:line"}, {";", "tail:semicolon"}, {" ; ", "tail:semicolon"}, {"/* t */", "cmt:block"}, {"-- FROM db2.canary", "cmt:mention"}}
	opts = append(opts, struct{ txt, tag string }{"--'", "cmt:quote"}, struct{ txt, tag string }{"/*'*/", "cmt:quote"}, struct{ txt, tag string }{"--\"", "cmt:quote"})
	o := opts[g.pick("closerkind", len(opts))]
	g.tag(o.tag)
	return o.txt
}

func (g *c14Gen) proj(al string) string {
	p := ""
	if al != "" {
		p = al + "."
	}
	return g.oneOf("proj", "count(*)", "count(*)", "max("+p+"tag)", p+"*", p+"tag", "min("+p+"v)", "count(*), max("+p+"tag)")
}

// statement builds one adversarial statement for the SQL endpoints.
func (g *c14Gen) statement(header string) string {
	U := g.unauth()
	A := g.allowedTable()
	aref := A.DB + "." + A.M
	if header == "db1" && g.chance("abare", 60) {
		aref = A.M
	}
	S, F, J := c14KW(g, "SELECT"), c14KW(g, "FROM"), c14KW(g, "JOIN")
	ex := g.extras()
	var shapes []string
	if g.chance("inert", 42) {
		// statements that only MENTION unauthorized data (literal, comment, alias,
		// CTE name): they must be accepted and must read nothing but db1
		shapes = []string{"inert-literal", "inert-comment", "inert-alias", "inert-cte", "allowed-only"}
		if header != "" && header != "db1" && g.chance("inerthdr", 80) {
			header = "" // keep most of them acceptable; the caller re-reads g.hdr
		}
		if header == "db1" {
			aref = A.M
		}
	} else {
		shapes = []string{"plain", "comma", "join", "subq-from", "subq-scalar", "subq-where", "cte", "cte-shadow", "lateral", "union",
			"funcbody", "timefn", "from-first", "explain", "sample", "layered", "layered", "deep", "deep"}
		if !verifkit.Excluded(c14FindStmtHead) {
			shapes = append(shapes, "head", "head")
		}
	}
	g.hdr = header
	shape := shapes[g.pick("shape", len(shapes))]
	g.tag("shape:" + shape)
	switch shape {
	case "plain":
		return g.join(S, ex+g.proj(""), F, g.ref(U, header), g.closer())
	case "join":
		jk := g.oneOf("joinkw", J, "LEFT "+J, "CROSS "+J, "INNER "+J, "FULL OUTER "+J, "NATURAL "+J, J+" LATERAL", "LEFT\n"+J, "ASOF "+J, "POSITIONAL "+J, "SEMI "+J)
		on := "ON true"
		if strings.Contains(jk, "CROSS") || strings.Contains(jk, "NATURAL") || strings.Contains(jk, "POSITIONAL") {
			on = ""
		}
		if strings.Contains(jk, "ASOF") {
			on = "ON a.time >= b.time"
		}
		return g.join(S, ex+g.oneOf("jproj", "count(*)", "max(b.tag)", "b.*"), F, aref, g.alias("a"), jk, g.ref(U, header), "b", on, g.closer())
	case "comma":
		return g.join(S, ex+g.oneOf("cproj", "count(*)", "max(b.tag)", "b.*"), F, aref, g.alias("a"), ",", g.ref(U, header), "b", g.closer())
	case "subq-from":
		return g.join(S, ex+g.proj("s"), F, "(", S, "*", F, g.ref(U, header), ")", g.alias("s"), g.closer())
	case "subq-scalar":
		return g.join(S, ex+"(", S, g.oneOf("sproj", "max(tag)", "count(*)", "min(v)"), F, g.ref(U, header), ")", "AS x", g.oneOf("sfrom", "", F+" "+aref+" LIMIT 1"), g.closer())
	case "subq-where":
		return g.join(S, ex+"count(*)", F, aref, "WHERE", g.oneOf("wtag", "tag IN", "tag NOT IN", "EXISTS", "v > ALL"), "(", S, g.oneOf("wproj", "tag", "v", "1"), F, g.ref(U, header), ")", "OR true", g.closer())
	case "cte":
		cn := g.oneOf("ctename", "c", "c(x)", `"c"`, "c1 AS (SELECT 1), c")
		body := g.join(S, "*", F, g.ref(U, header))
		return g.with() + g.join(cn, "AS", "(", body, ")", S, ex+"count(*)", F, "c", g.closer())
	case "cte-shadow":
		// a CTE named like the target: the real table must not become readable
		cn := g.oneOf("shadow", U.M, U.DB, `"`+U.M+`"`, U.M+"(one)", "x AS (SELECT 2), "+U.M)
		g.tag("cte:shadow")
		return g.with() + g.join(cn, "AS", "(", S, "1 AS one", ")", S, ex+g.proj(""), F, g.ref(U, header), g.closer())
	case "lateral":
		return g.join(S, ex+"count(*)", F, aref, "a", ",", "LATERAL", "(", S, "*", F, g.ref(U, header), "LIMIT 3", ")", "l", g.closer())
	case "union":
		return g.join(S, ex+"tag", F, aref, g.oneOf("setop", "UNION ALL", "UNION", "EXCEPT", "INTERSECT"), S, "tag", F, g.ref(U, header), g.closer())
	case "funcbody":
		fb := g.oneOf("funcbody", "EXTRACT(year FROM time)", "extract (epoch FROM time)", "substring(tag FROM 1 FOR 60)", "trim(BOTH 'x' FROM tag)", "overlay(tag PLACING 'q' FROM 1)",
			"EXTRACT(year /* ) */ FROM time)", "substring(tag FROM 1)")
		g.tag("funcbody")
		if g.chance("fbnested", 35) {
			// a real FROM clause nested inside the function body
			return g.join(S, ex+"EXTRACT(year FROM (", S, "max(time)", F, g.ref(U, header), "))", "AS y", g.closer())
		}
		return g.join(S, ex+fb+",", g.proj(""), F, g.ref(U, header), g.closer())
	case "timefn":
		tf := g.oneOf("timefn", "date_trunc('hour', time)", "time_bucket(INTERVAL '1 hour', time)", "time_bucket(INTERVAL '5 minutes', time, TIMESTAMP '2024-01-01')", "date_trunc('day', time)")
		g.tag("timefn")
		if g.chance("tfnested", 35) {
			return g.join(S, ex+"date_trunc('hour', (", S, "max(time)", F, g.ref(U, header), "))", "AS y", g.closer())
		}
		return g.join(S, ex+tf+" AS b,", "count(*)", F, g.ref(U, header), "GROUP BY 1", g.closer())
	case "inert-literal":
		// the unauthorized name only occurs inside a literal / identifier
		g.ment = true
		lit := g.oneOf("inertlit", "' FROM "+U.DB+"."+U.M+" '", "$$ JOIN "+U.DB+"."+U.M+" j $$", "'"+g.e.root+"/"+U.DB+"/"+U.M+"/**/*.parquet'", "E'FROM "+U.DB+"."+U.M+"'")
		g.tag("inert:literal")
		return g.join(S, ex+"count(*) AS \""+U.DB+"."+U.M+"\"", F, aref, "WHERE tag <>", lit, g.closer())
	case "inert-comment":
		g.ment = true
		g.tag("inert:comment")
		cm := g.oneOf("inertcm", "/* FROM "+U.DB+"."+U.M+" */", "-- JOIN "+U.DB+"."+U.M+" x\n", "/* , '"+g.e.root+"/"+U.DB+"/"+U.M+"/**/*.parquet' */", "/* /* */ FROM "+U.DB+"."+U.M+" */")
		return g.join(S, ex+g.proj(""), F, aref, cm, g.oneOf("icw", "", "WHERE v >= 0"), g.closer())
	case "inert-alias":
		g.ment = true
		g.tag("inert:alias")
		al := g.oneOf("inertal", `"`+U.DB+"."+U.M+`"`, `"`+U.DB+`"`, `"FROM `+U.DB+"."+U.M+`"`, `"`+g.e.root+"/"+U.DB+"/"+U.M+`/x.parquet"`, U.M, `"'"`)
		return g.join(S, ex+"count(*) AS "+al, F, aref, "AS", al, g.oneOf("iaw", "", "WHERE "+al+".v >= 0"), g.closer())
	case "inert-cte":
		g.ment = true
		g.tag("inert:cte")
		cn := g.oneOf("inertcte", U.M, `"`+U.M+`"`, U.DB, U.M+"(a, b, c, d)")
		use := strings.SplitN(cn, "(", 2)[0]
		return g.with() + g.join(cn, "AS", "(", S, "*", F, A.DB+"."+A.M, ")", S, ex+"count(*)", F, use, g.alias("z"), g.closer())
	case "allowed-only":
		if g.chance("vaultbare", 20) && header == "db1" {
			return g.join(S, ex+g.proj(""), F, "vault", g.closer())
		}
		return g.join(S, ex+g.proj(""), F, aref, g.alias("a"), g.oneOf("aow", "", "WHERE v >= 0", "ORDER BY 1 LIMIT 5"), g.closer())
	case "from-first":
		g.tag("head:from-first")
		return g.join(F, g.ref(U, header), g.oneOf("ff", "", S+" count(*)", S+" max(tag)"), g.closer())
	case "explain":
		g.tag("head:explain")
		return g.join(g.oneOf("explain", "EXPLAIN", "EXPLAIN ANALYZE", "EXPLAIN (FORMAT JSON)"), S, g.proj(""), F, g.ref(U, header), g.closer())
	case "layered":
		// two cooperating disguises: an earlier literal that leaves a naive quote
		// tracker in the wrong state, and a comment glued in front of a path
		// literal standing in table position. Plain blanks everywhere else, so no
		// other comment marker precedes the literal.
		g.tag("layered")
		g.ment = true
		first := g.oneOf("unbalanced", "trim(/* ( */ 'a') AS t1, ", "substring('abc' /* ( */ FROM 1) AS t2, ", "extract(year /* (( */ FROM TIMESTAMP '2024-01-01 00:00:00') AS t3, ",
			"overlay('abc' PLACING 'x' /* ( */ FROM 1) AS t4, ", "TRIM(BOTH /* ) ( ( */ 'x' FROM 'xax') AS t5, ", "trim(-- (\n 'a') AS t6, ", "$$it's$$ AS n1, ", "$q$'$q$ AS n2, ", `$$"$$ AS n3, `, `E'it\'s' AS n4, `, "$t_1$it's$t_1$ AS n5, ", "'it''s' AS n6, ", "'a' 'b' AS n7, ", "")
		cm := g.oneOf("gluecm", "/* pad */ ", "/* pad */", "-- pad\n", "/* a */ /* b */ ", "/**/ ", "/* ' */ ", "")
		pth := fmt.Sprintf("%s/%s/%s/%s/%s", g.e.root, U.DB, U.M, c14Partition, U.FileName)
		if g.chance("layglob", 30) {
			pth = fmt.Sprintf("%s/%s/%s/2024/01/01/0?/%s", g.e.root, U.DB, U.M, U.FileName)
		}
		lit := g.oneOf("laylit", "'"+pth+"'", "'"+pth+"'", "$$"+pth+"$$", "E'"+pth+"'", "$x_1$"+pth+"$x_1$", `"`+pth+`"`)
		switch g.oneOf("laypos", "comma", "comma", "from", "join", "subq-comma") {
		case "comma":
			return S + " " + first + "s.* " + F + " " + aref + " c, " + cm + lit + " s"
		case "from":
			return S + " " + first + "count(*), max(tag) " + F + " " + cm + lit
		case "join":
			return S + " " + first + "max(s.tag) " + F + " " + aref + " c CROSS JOIN " + cm + lit + " s"
		default:
			return S + " " + first + "count(*) " + F + " (" + S + " 1 AS one " + F + " " + aref + ") c, " + cm + lit + " s"
		}
	case "deep":
		// deep nesting: the FROM clause holding the comma-joined path literal sits
		// k levels down (redundant parentheses, nested scalar subqueries, nested
		// function calls / CASE, parenthesised FROM items)
		g.tag("deep-nesting")
		g.ment = true
		k := rapid.SampledFrom([]int{1, 2, 8, 31, 32, 33, 40, 64, 200}).Draw(g.t, "depth")
		g.tag(fmt.Sprintf("depth:%d", k))
		pth := fmt.Sprintf("%s/%s/%s/%s/%s", g.e.root, U.DB, U.M, c14Partition, U.FileName)
		lit := g.oneOf("deeplit", "'"+pth+"'", "'"+pth+"'", `"`+pth+`"`, "$$"+pth+"$$", "E'"+pth+"'", "$t_1$"+pth+"$t_1$")
		var inner string
		switch g.oneOf("deeppos", "comma", "comma", "comma", "from", "join") {
		case "comma":
			inner = S + " max(s.tag) " + F + " " + aref + " c, " + lit + " s"
		case "from":
			inner = S + " max(tag) " + F + " " + lit
		default:
			inner = S + " max(s.tag) " + F + " " + aref + " c CROSS JOIN " + lit + " s"
		}
		switch g.oneOf("deepkind", "parens", "parens", "subqueries", "functions", "case", "from-item", "mixed") {
		case "parens":
			return S + " " + ex + strings.Repeat("(", k) + inner + strings.Repeat(")", k) + " AS x"
		case "subqueries":
			q := inner
			for i := 0; i < k; i++ {
				q = S + " (" + q + ") AS x" + fmt.Sprint(i)
			}
			return q
		case "functions":
			return S + " " + ex + strings.Repeat("lower(", k) + "(" + inner + ")" + strings.Repeat(")", k) + " AS x"
		case "case":
			return S + " " + ex + strings.Repeat("CASE WHEN true THEN (", k) + "(" + inner + ")" + strings.Repeat(") END", k) + " AS x"
		case "from-item":
			in2 := strings.Replace(inner, "max(s.tag)", "s.tag", 1)
			in2 = strings.Replace(in2, "max(tag)", "tag", 1)
			return S + " " + ex + "max(q.tag) " + F + " " + strings.Repeat("(", k) + in2 + strings.Repeat(")", k) + " q"
		default:
			q := "(" + inner + ")"
			for i := 0; i < k; i++ {
				switch i % 3 {
				case 0:
					q = "(" + q + ")"
				case 1:
					q = "lower(" + q + ")"
				default:
					q = "(" + S + " " + q + ")"
				}
			}
			return S + " " + ex + q + " AS x"
		}
	case "sample":
		return g.join(S, ex+g.proj(""), F, g.ref(U, header), g.oneOf("sample", "USING SAMPLE 5", "TABLESAMPLE RESERVOIR(5)", "t(a, b, c, d)", "AS t"), g.closer())
	default: // head: table position without a FROM keyword
		g.tag("head:no-from")
		h := g.oneOf("head", "DESCRIBE", "SUMMARIZE", "PIVOT", "UNPIVOT", "TABLE", "DESCRIBE TABLE", "SHOW", "CREATE OR REPLACE TEMP VIEW zqv AS FROM", "CREATE OR REPLACE TEMP MACRO zqm() AS TABLE FROM")
		tail := ""
		switch h {
		case "PIVOT":
			tail = "ON host USING count(*)"
		case "UNPIVOT":
			tail = "ON v INTO NAME n VALUE x"
		}
		return g.join(h, g.ref(U, header), tail, g.closer())
	}
}

func (g *c14Gen) showStatement() string {
	g.tag("shape:show")
	U := g.unauth()
	g.ment = true
	base := g.oneOf("show", "SHOW DATABASES", "SHOW TABLES", "SHOW TABLES FROM "+U.DB, "SHOW MEASUREMENTS FROM "+U.DB, `SHOW TABLES FROM "`+U.DB+`"`,
		"SHOW TABLES FROM '"+U.DB+"'", "SHOW TABLES FROM `"+U.DB+"`", "SHOW ALL TABLES", "SHOW TABLES FROM db1", "SHOW TABLES FROM db1/../"+U.DB,
		"SHOW TABLES FROM "+U.DB+".x", "SHOW  TABLES\nFROM\t"+U.DB, "show databases", "SHOW SCHEMAS", "SHOW TABLES FROM \""+U.DB+"--x\"")
	pre := g.oneOf("showpre", "", "", "/* x */ ", "-- c\n", "  ", " ", "/* ' */ ", "(")
	post := g.oneOf("showpost", "", "", ";", " ; ", " -- x", " /* y */", ";;", ")")
	if pre != "" || post != "" {
		g.tag("show:disguised")
	}
	return pre + base + post
}

type c14Case struct {
	Req      c14Req   `json:"request"`
	Features []string `json:"features"`
	Mentions bool     `json:"mentions_unauthorized"`
}

// c14GenCase draws cases until one is outside the shapes of the open findings
// that can only be recognised on the assembled request.
func c14GenCase(t *rapid.T, e *c14Env) c14Case {
	for try := 0; ; try++ {
		c := c14GenCase1(t, e)
		if verifkit.Excluded(c14FindQuoteComment) && c14HasFeature(c, "cmt:quote") && c14ExecutedVerbatim(c.Req.SQL) {
			// open finding: a statement whose text contains "read_parquet", or no
			// "from"/"join" at all, is executed verbatim (getTransformedSQL fast
			// paths), so a quote inside a comment hides whatever follows it
			verifkit.CountExcluded(c14FindQuoteComment)
			if try < 20 {
				continue
			}
			c.Req.SQL = "SELECT 1 FROM db1.cpu LIMIT 1"
		}
		if verifkit.Excluded(c14FindNestedCmt) && c14HasFeature(c, "cmt:nested") && c14ExecutedVerbatim(c.Req.SQL) {
			// open finding: DuckDB nests block comments, stripSQLComments does not;
			// in a statement handed to DuckDB verbatim the residue after the first
			// */ reads as a token that closes the table-position window
			verifkit.CountExcluded(c14FindNestedCmt)
			if try < 20 {
				continue
			}
			c.Req.SQL = "SELECT 1 FROM db1.cpu LIMIT 1"
		}
		return c
	}
}

// c14ExecutedVerbatim mirrors the two fast paths of getTransformedSQL that hand
// the caller's text to DuckDB unchanged.
func c14ExecutedVerbatim(sqlText string) bool {
	l := strings.ToLower(sqlText)
	return strings.Contains(l, "read_parquet") || !(strings.Contains(l, "from") || strings.Contains(l, "join"))
}

func c14HasFeature(c c14Case, f string) bool {
	for _, x := range c.Features {
		if x == f {
			return true
		}
	}
	return false
}

func c14GenCase1(t *rapid.T, e *c14Env) c14Case {
	g := &c14Gen{t: t, e: e, feat: map[string]bool{}}
	var r c14Req
	header := g.oneOf("header", "", "", "", "", "db1", "db1", "db2", "default", "db3", "db-4")
	switch ep := g.oneOf("endpoint", "json", "json", "json", "json", "msgpack", "msgpack", "arrow", "arrow", "estimate", "estimate", "show", "measurements", "measurement", "measurement"); ep {
	case "show":
		r = c14Req{Endpoint: g.oneOf("showep", "json", "msgpack", "arrow", "estimate"), SQL: g.showStatement(), Header: header}
	case "measurements":
		U := g.unauth()
		g.tag("shape:listing")
		dbp := g.oneOf("listdb", "", "db1", U.DB, "db1/../"+U.DB, "*", U.DB+"/", "DB1", "%")
		g.ment = dbp != "db1"
		r = c14Req{Endpoint: "measurements", Header: header}
		if dbp != "" {
			r.Params = map[string]string{"database": dbp}
		}
	case "measurement":
		g.tag("shape:measurement-endpoint")
		U := g.unauth()
		A := g.allowedTable()
		tb := A
		if g.chance("measunauth", 35) {
			tb = U
			g.ment = true
		}
		r = c14Req{Endpoint: "measurement", Meas: tb.M, Params: map[string]string{"database": tb.DB}, Header: header}
		if g.chance("defaultdb", 15) {
			delete(r.Params, "database")
			g.ment = true
		}
		if g.chance("where", 70) {
			if verifkit.Excluded(c14FindMeasWhere) {
				verifkit.CountExcluded(c14FindMeasWhere)
				r.Params["where"] = g.oneOf("wheresafe", "v >= 0", "tag <> ' FROM db2.canary '", "host = 'host1' OR 1 = 1", "v > 0) OR (1 = 1")
			} else {
				g.ment = true
				g.tag("where:subquery")
				if U.DB == "default" && header != "" && verifkit.Excluded(c14FindMeasDefault) {
					// open finding: with the header set, default.<m> in the where
					// subquery is permission-checked as <header>.<m>
					verifkit.CountExcluded(c14FindMeasDefault)
					r.Header = ""
				}
				sub := g.join("(", "SELECT", g.oneOf("whproj", "min(v)", "count(*)", "max(length(tag))"), "FROM", g.ref(U, ""), ")")
				r.Params["where"] = g.oneOf("wherecmp", "v >= ", "v < ", "length(tag) <= ") + sub
			}
		}
		if g.chance("orderby", 30) {
			r.Params["order_by"] = g.oneOf("orderby", "time DESC", "v", "tag ASC, v DESC")
		}
		if g.chance("limit", 30) {
			r.Params["limit"] = g.oneOf("limitv", "5", "0", "100000")
		}
	default:
		sqlText := g.statement(header)
		r = c14Req{Endpoint: ep, SQL: sqlText, Header: g.hdr}
	}
	if r.Header != "" {
		g.tag("header:" + r.Header)
		if r.Header != "db1" {
			g.ment = true
		}
	}
	c := c14Case{Req: r, Mentions: g.ment}
	for f := range g.feat {
		c.Features = append(c.Features, f)
	}
	sort.Strings(c.Features)
	return c
}

func c14Disguised(c c14Case) bool {
	for _, f := range c.Features {
		if strings.HasPrefix(f, "shape:") || strings.HasPrefix(f, "header:") || strings.HasPrefix(f, "path:") {
			continue
		}
		return true
	}
	return false
}

// ---------------------------------------------------------------- property

type c14Failer interface {
	Fatalf(format string, args ...any)
}

func c14Judge(t c14Failer, c c14Case, res c14Result) {
	if res.Err != nil {
		if strings.Contains(res.Err.Error(), "overflow") {
			t.Fatalf("HARNESS file-access recorder: %v\nrequest: %+v", res.Err, c.Req)
		}
		if c.Req.Endpoint == "arrow" && !strings.Contains(res.Err.Error(), "panic in fiber test transport") {
			// transport corruption on this endpoint is the open finding
			// C19-arrow-trailer-header-race; six consecutive hits are not.
			t.Fatalf("VERIF-FAIL class=C14/arrow-transport %v\nrequest: %+v", res.Err, c.Req)
		}
		// three consecutive transport failures of the in-memory test connection:
		// no answer to judge
		verifkit.Class("transport-error-unjudged")
		return
	}
	body := string(res.Body)
	if len(body) > 400 {
		body = body[:400] + "..."
	}
	if leak := c14Leak(res, c.Req); leak != "" {
		t.Fatalf("VERIF-FAIL class=C14/sentinel-in-body sentinel %q in the answer (status %d)\nrequest: %+v\nfeatures: %v\nchecks: %+v\ntouched: %v\nbody: %s", leak, res.Status, c.Req, c.Features, res.Checks, res.Paths, body)
	}
	if res.Status/100 == 2 {
		if bad := c14Unauthorized(res); len(bad) > 0 {
			t.Fatalf("VERIF-FAIL class=C14/unauthorized-file-access a %d answer touched %v, not covered by an allowed permission check\nrequest: %+v\nfeatures: %v\nchecks: %+v\ntouched: %v\nbody: %s", res.Status, bad, c.Req, c.Features, res.Checks, res.Paths, body)
		}
	}
}

func TestVerifC14_Adversarial(t *testing.T) {
	e := c14NewEnv(t)
	rapid.Check(t, func(t *rapid.T) {
		c := c14GenCase(t, e)
		res := e.do(c.Req)
		verifkit.Eval()
		verifkit.Class("endpoint:" + c.Req.Endpoint)
		verifkit.Class(fmt.Sprintf("status:%d", res.Status))
		for _, f := range c.Features {
			if strings.HasPrefix(f, "shape:") {
				verifkit.Class(f)
			}
		}
		accepted := res.Success
		if accepted {
			verifkit.Class("accepted")
			if len(res.Paths) > 0 {
				verifkit.Class("accepted-and-read-files")
			}
		}
		if c.Mentions && c14Disguised(c) {
			verifkit.Class("nontrivial")
			if accepted {
				verifkit.Class("nontrivial-accepted")
			}
			verifkit.NonTrivial(fmt.Sprintf("%+v", c.Req))
			if verifkit.SampleCount() < 5 && (accepted || verifkit.SampleCount() < 2) {
				verifkit.Sample(map[string]any{"request": c.Req, "features": c.Features, "status": res.Status, "accepted": accepted, "checks": res.Checks, "touched": res.Paths})
			}
		}
		c14Judge(t, c, res)
	})
}

// Debug entry (not matched by the check's -run pattern): statements separated
// by "\n;;\n" in VERIF_C14_SQL, endpoint/header via VERIF_C14_EP / VERIF_C14_HDR.
func TestVerifDbgC14(t *testing.T) {
	src := os.Getenv("VERIF_C14_SQL")
	if src == "" {
		t.Skip("no VERIF_C14_SQL")
	}
	if f := strings.TrimPrefix(src, "@"); f != src {
		b, _ := os.ReadFile(f)
		src = string(b)
	}
	e := c14NewEnv(t)
	fmt.Println("ROOT", e.root)
	ep := os.Getenv("VERIF_C14_EP")
	if ep == "" {
		ep = "json"
	}
	for _, q := range strings.Split(src, "\n;;\n") {
		q = strings.TrimSpace(strings.ReplaceAll(q, "$ROOT", e.root))
		if q == "" {
			continue
		}
		r := c14Req{Endpoint: ep, SQL: q, Header: os.Getenv("VERIF_C14_HDR")}
		if ep == "measurement" {
			// q = "<measurement>|<database>|<where>"
			parts := strings.SplitN(q, "|", 3)
			r = c14Req{Endpoint: ep, Meas: parts[0], Params: map[string]string{"database": parts[1], "where": parts[2]}}
		}
		res := e.do(r)
		body := string(res.Body)
		if len(body) > 300 {
			body = body[:300] + "..."
		}
		fmt.Printf("---- %s\nstatus=%d success=%v err=%v checks=%+v\npaths=%v\nunauthorized=%v leak=%q\nbody=%s\n", q, res.Status, res.Success, res.Err, res.Checks, res.Paths, c14Unauthorized(res), c14Leak(res, r), body)
	}
}

// Survey entry (debug, not matched by the check's -run pattern): runs the
// generator without stopping at the first failure and prints failure groups.
type c14Collect struct{ msg string }

func (c *c14Collect) Fatalf(format string, args ...any) {
	if c.msg == "" {
		c.msg = fmt.Sprintf(format, args...)
	}
}

func TestVerifDbgC14Survey(t *testing.T) {
	if os.Getenv("VERIF_C14_SURVEY") == "" {
		t.Skip("no VERIF_C14_SURVEY")
	}
	e := c14NewEnv(t)
	groups := map[string][]string{}
	total, acc, nt, ntacc := 0, 0, 0, 0
	shapeTot, shapeAcc, statusBy := map[string]int{}, map[string]int{}, map[string]int{}
	rapid.Check(t, func(t *rapid.T) {
		c := c14GenCase(t, e)
		res := e.do(c.Req)
		total++
		if res.Success {
			acc++
		}
		for _, f := range c.Features {
			if strings.HasPrefix(f, "shape:") || strings.HasPrefix(f, "header:") || strings.HasPrefix(f, "ws:") {
				shapeTot[f]++
				if res.Success {
					shapeAcc[f]++
				}
				if strings.HasPrefix(f, "shape:inert") && !res.Success && statusBy[f] < 3 {
					statusBy[f]++
					fmt.Printf("REJECTED-INERT %d %+v\n   %s\n", res.Status, c.Req, c19ShortStr(string(res.Body)))
				}
			}
		}
		if c.Mentions && c14Disguised(c) {
			nt++
			if res.Success {
				ntacc++
			}
		}
		col := &c14Collect{}
		c14Judge(col, c, res)
		if col.msg != "" {
			cls := strings.SplitN(strings.SplitN(col.msg, "class=", 2)[1], " ", 2)[0]
			var key []string
			for _, f := range c.Features {
				if strings.HasPrefix(f, "ws:") || strings.HasPrefix(f, "path:") || strings.HasPrefix(f, "header:") {
					continue
				}
				key = append(key, f)
			}
			k := cls + " " + c.Req.Endpoint + " " + strings.Join(key, ",")
			if c.Req.Endpoint != "measurement" && c.Req.Endpoint != "measurements" {
				k = cls + " " + strings.Join(key, ",")
			}
			groups[k] = append(groups[k], fmt.Sprintf("%+v", c.Req))
		}
	})
	keys := make([]string, 0, len(groups))
	for k := range groups {
		keys = append(keys, k)
	}
	sort.Strings(keys)
	var sk []string
	for k := range shapeTot {
		sk = append(sk, k)
	}
	sort.Strings(sk)
	for _, k := range sk {
		fmt.Printf("RATE %-32s %5d / %5d\n", k, shapeAcc[k], shapeTot[k])
	}
	fmt.Printf("SURVEY total=%d accepted=%d nontrivial=%d nontrivial-accepted=%d failing-groups=%d\n", total, acc, nt, ntacc, len(keys))
	for _, k := range keys {
		fmt.Printf("GROUP x%d %s\n   e.g. %s\n", len(groups[k]), k, groups[k][0])
	}
}

// ---------------------------------------------------------------- known findings

// c14Repro sends one request and reports whether the answer was accepted (2xx
// and success) while touching unauthorized files or carrying a sentinel.
func c14Repro(e *c14Env, r c14Req) (bool, string) {
	r.SQL = strings.ReplaceAll(r.SQL, "$ROOT", e.root)
	for k, v := range r.Params {
		r.Params[k] = strings.ReplaceAll(v, "$ROOT", e.root)
	}
	res := e.do(r)
	bad := c14Unauthorized(res)
	leak := c14Leak(res, r)
	rep := res.Err == nil && res.Status/100 == 2 && (len(bad) > 0 || leak != "")
	return rep, fmt.Sprintf("status=%d checks=%+v unauthorized=%v sentinel=%q", res.Status, res.Checks, bad, leak)
}

const c14CanaryFile = "$ROOT/db2/canary/2024/01/01/00/c.parquet"

func TestVerifKF_C14_query_table_function(t *testing.T) {
	e := c14NewEnv(t)
	rep, what := c14Repro(e, c14Req{Endpoint: "json", SQL: "SELECT count(*) FROM query('SELECT * FROM ''" + c14CanaryFile + "''')"})
	verifkit.KnownFinding(c14FindQueryFn, rep, "query('<sql in a literal>') runs a replacement scan no scanner sees: "+what)
}

func TestVerifKF_C14_io_denylist_gap(t *testing.T) {
	e := c14NewEnv(t)
	rep, what := c14Repro(e, c14Req{Endpoint: "json", SQL: "SELECT * FROM parquet_full_metadata('" + c14CanaryFile + "')"})
	verifkit.KnownFinding(c14FindDenylistGap, rep, "parquet_full_metadata() is not on the I/O denylist: "+what)
}

func TestVerifKF_C14_quoted_keyword_alias(t *testing.T) {
	e := c14NewEnv(t)
	rep, what := c14Repro(e, c14Req{Endpoint: "json", SQL: `SELECT max(b.tag) FROM db1.cpu "where", '` + c14CanaryFile + `' b`})
	verifkit.KnownFinding(c14FindKeywordAlias, rep, `alias "where" disarms the table-position scanner: `+what)
}

func TestVerifKF_C14_backslash_quote(t *testing.T) {
	e := c14NewEnv(t)
	rep, what := c14Repro(e, c14Req{Endpoint: "json", SQL: `SELECT 'a\' AS q, max(tag) FROM '` + c14CanaryFile + `' --'`})
	verifkit.KnownFinding(c14FindBackslash, rep, `'a\' is a complete literal for DuckDB but not for the masker: `+what)
}

func TestVerifKF_C14_quote_in_comment(t *testing.T) {
	e := c14NewEnv(t)
	rep, what := c14Repro(e, c14Req{Endpoint: "json", SQL: `SELECT max(tag) /* read_parquet ' */ FROM '` + c14CanaryFile + `' /* ' */`})
	verifkit.KnownFinding(c14FindQuoteComment, rep, "a quote inside a comment hides the replacement scan from the scanners and the text read_parquet makes arc execute the statement verbatim: "+what)
}

func TestVerifKF_C14_measurement_where_subquery(t *testing.T) {
	e := c14NewEnv(t)
	rep, what := c14Repro(e, c14Req{Endpoint: "measurement", Meas: "cpu", Params: map[string]string{"database": "db1", "where": "v >= (SELECT min(v) FROM db2.canary)"}})
	verifkit.KnownFinding(c14FindMeasWhere, rep, "GET /api/v1/query/cpu?database=db1&where=v >= (SELECT min(v) FROM db2.canary) only checks db1.cpu: "+what)
}

func TestVerifKF_C14_statement_head(t *testing.T) {
	e := c14NewEnv(t)
	rep, what := c14Repro(e, c14Req{Endpoint: "json", SQL: "DESCRIBE '" + c14CanaryFile + "'"})
	verifkit.KnownFinding(c14FindStmtHead, rep, "DESCRIBE '<path>' puts a string in table position without FROM/JOIN: "+what)
}

func c19ShortStr(s string) string {
	if len(s) > 260 {
		return s[:260] + "..."
	}
	return s
}

func TestVerifKF_C14_cte_with_whitespace(t *testing.T) {
	e := c14NewEnv(t)
	rep, what := c14Repro(e, c14Req{Endpoint: "json", Header: "db2", SQL: "WITH\tcanary AS (SELECT 1 AS one) SELECT max(tag) FROM canary"})
	verifkit.KnownFinding(c14FindCTEWith, rep, "x-arc-database: db2 + WITH<TAB>canary AS (...) SELECT max(tag) FROM canary: RBAC skips the CTE name, the header transform (which only looks for CTEs when the text contains \"with \") rewrites it to db2/canary: "+what)
}

func TestVerifKF_C14_unicode_space_before_paren(t *testing.T) {
	e := c14NewEnv(t)
	rep, what := c14Repro(e, c14Req{Endpoint: "json", SQL: "SELECT count(*) FROM db1.cpu a, parquet_scan\u00a0('" + c14CanaryFile + "') b"})
	verifkit.KnownFinding(c14FindUnicodeGap, rep, "parquet_scan<U+00A0>('<path>') slips past ioTableFunctionPattern's \\s*\\( while DuckDB treats U+00A0 as a space: "+what)
}

// ---------------------------------------------------------------- request sequences

// A sequence sends the SAME statement text several times to the same handler
// (caches warm, nothing cleared in between) under different x-arc-database
// values, endpoints and principals: token 7 may read db1 only, token 8 db2
// only. db1.cpu and db2.cpu share the bare name `cpu`, so one text legitimately
// resolves to different files depending on the header. Every answer is judged
// by the same file-access + sentinel oracle, for the principal that sent it.

type c14Step struct {
	Token    int    `json:"token"`
	Header   string `json:"x_arc_database"`
	Endpoint string `json:"endpoint"`
}

type c14Seq struct {
	SQL   string    `json:"sql"`
	Len   int       `json:"sql_bytes"`
	Pad   string    `json:"padding"`
	Steps []c14Step `json:"steps"`
}

// c14Pad returns filler of roughly n bytes in the requested style.
func c14Pad(kind string, n int) string {
	switch kind {
	case "block-comment":
		return "/* " + strings.Repeat("pad ", n/4) + "*/"
	case "line-comment":
		return "-- " + strings.Repeat("x", n) + "\n"
	case "whitespace":
		return strings.Repeat(" \n\t", n/3+1)
	case "in-list":
		var b strings.Builder
		b.WriteString("AND tag NOT IN (")
		for i := 0; b.Len() < n; i++ {
			if i > 0 {
				b.WriteString(", ")
			}
			fmt.Fprintf(&b, "'never_%d'", i)
		}
		b.WriteString(")")
		return b.String()
	case "literal":
		return "AND tag <> '" + strings.Repeat("z", n) + "'"
	}
	return ""
}

func c14GenSeq(t *rapid.T) c14Seq {
	g := &c14Gen{t: t, feat: map[string]bool{}}
	S, F := c14KW(g, "SELECT"), c14KW(g, "FROM")
	proj := g.oneOf("sproj", "count(*)", "max(tag)", "count(*), max(tag), min(v)", "*")
	where := "WHERE v >= 0"
	if proj == "*" {
		// row-returning variant: keep the answer small (40 rows), the oracle does
		// not need 10k rows to see whose files were read
		where = "WHERE v >= 0 AND time < TIMESTAMP '2024-01-01 00:00:40'"
	}
	// header-relative statements over the bare name both databases have
	var body string
	switch g.oneOf("sshape", "plain", "plain", "quoted-name", "join", "subq", "cte", "scalar", "commented") {
	case "plain":
		body = g.join(S, proj, F, "cpu", where)
	case "quoted-name":
		body = g.join(S, proj, F, `"cpu"`, where)
	case "join":
		body = g.join(S, "count(*), max(b.tag)", F, "cpu a", "JOIN", "cpu b", "ON a.time = b.time", "WHERE a.v >= 0")
	case "subq":
		body = g.join(S, proj, F, "(", S, "*", F, "cpu", ")", "s", where)
	case "cte":
		body = g.join("WITH c AS (", S, "*", F, "cpu", ")", S, proj, F, "c", where)
	case "scalar":
		body = g.join(S, "(", S, "max(tag)", F, "cpu", ")", "AS m, count(*)", F, "cpu", where)
	default:
		body = g.join(S, "/* c */", proj, F, "cpu", "-- x\n", where)
	}
	pad := g.oneOf("padkind", "none", "block-comment", "line-comment", "whitespace", "in-list", "literal", "block-comment", "in-list")
	n := 0
	if pad != "none" {
		n = rapid.SampledFrom([]int{40, 300, 900, 1000, 1030, 1100, 1500, 3000, 6000}).Draw(t, "padlen")
	}
	switch pad {
	case "block-comment", "line-comment", "whitespace":
		if g.chance("padfront", 50) {
			body = c14Pad(pad, n) + " " + body
		} else {
			body = body + " " + c14Pad(pad, n)
		}
	case "in-list", "literal":
		body = body + " " + c14Pad(pad, n)
	}
	seq := c14Seq{SQL: body, Len: len(body), Pad: pad}
	k := rapid.IntRange(2, 4).Draw(t, "steps")
	for i := 0; i < k; i++ {
		st := c14Step{Token: c14TokenDB1, Endpoint: g.oneOf("sep", "json", "json", "msgpack", "arrow", "estimate")}
		if g.chance("token8", 50) {
			st.Token = c14TokenDB2
		}
		// mostly the principal's own database; sometimes the other one or none
		own, other := "db1", "db2"
		if st.Token == c14TokenDB2 {
			own, other = "db2", "db1"
		}
		st.Header = g.oneOf("shdr", own, own, own, own, other, "", "db3")
		seq.Steps = append(seq.Steps, st)
	}
	return seq
}

func TestVerifC14_Sequences(t *testing.T) {
	e := c14NewEnv(t)
	rapid.Check(t, func(t *rapid.T) {
		seq := c14GenSeq(t)
		hdrs, toks, acc := map[string]bool{}, map[int]bool{}, 0
		for i, st := range seq.Steps {
			r := c14Req{Token: st.Token, Endpoint: st.Endpoint, SQL: seq.SQL, Header: st.Header}
			res := e.do(r)
			verifkit.Eval()
			verifkit.Class("seq-step:" + st.Endpoint)
			if res.Success {
				acc++
			}
			hdrs[st.Header] = true
			toks[st.Token] = true
			c := c14Case{Req: r, Features: []string{fmt.Sprintf("sequence-step-%d-of-%d", i+1, len(seq.Steps)), "pad:" + seq.Pad, fmt.Sprintf("sql-bytes:%d", seq.Len)}, Mentions: true}
			r.SQL = "" // keep the failure message short: the text is printed once below
			col := &c14Collect{}
			c14Judge(col, c, res)
			if col.msg != "" {
				verifkit.WriteReplay("c14-sequence", seq)
				t.Fatalf("%s\nsequence (same text, %d bytes, padding %s): %+v\nsql: %s", col.msg, seq.Len, seq.Pad, seq.Steps, c19ShortStr(seq.SQL))
			}
		}
		verifkit.Class("sequences")
		if seq.Len > 1024 {
			verifkit.Class("sequences-over-1KB")
		}
		// non-trivial: the same text ran under >= 2 header values and was accepted at least twice
		if len(hdrs) >= 2 && acc >= 2 {
			verifkit.Class("sequences-nontrivial")
			if len(toks) >= 2 {
				verifkit.Class("sequences-two-principals")
			}
			verifkit.NonTrivial(fmt.Sprintf("seq|%s|%+v", seq.SQL, seq.Steps))
		}
	})
}

func TestVerifKF_C14_nested_comment_residue(t *testing.T) {
	e := c14NewEnv(t)
	rep, what := c14Repro(e, c14Req{Endpoint: "json", SQL: "DESCRIBE /* a /* n */ b */ '" + c14CanaryFile + "'"})
	verifkit.KnownFinding(c14FindNestedCmt, rep, "DESCRIBE /* a /* n */ b */ '<path>': the residue `b */` left by the non-nesting comment stripper closes the table-position window: "+what)
}

func TestVerifKF_C14_nonascii_dollar_tag(t *testing.T) {
	e := c14NewEnv(t)
	rep, what := c14Repro(e, c14Req{Endpoint: "json", SQL: "SELECT max(tag) FROM $é$" + c14CanaryFile + "$é$"})
	verifkit.KnownFinding(c14FindUnicodeTag, rep, "FROM $é$<path>$é$: DuckDB accepts non-ASCII letters in a dollar-quote tag, dollarQuoteTag does not, so the literal is never masked: "+what)
}

func TestVerifKF_C14_measurement_header_default_remap(t *testing.T) {
	e := c14NewEnv(t)
	rep, what := c14Repro(e, c14Req{Endpoint: "measurement", Meas: "cpu", Header: "db1", Params: map[string]string{"database": "db1", "where": "v >= (SELECT count(*) FROM default.cpu)"}})
	verifkit.KnownFinding(c14FindMeasDefault, rep, "x-arc-database: db1 + GET /api/v1/query/cpu?database=db1&where=v >= (SELECT count(*) FROM default.cpu): checked as db1.cpu, reads default/cpu: "+what)
}
