//go:build verif

package api

// C32 - Writes land only where the caller is allowed to write.
//
// Generator: one request to one write surface (MessagePack columnar / row /
// batch / array, line protocol x3 endpoints, TLE write, CSV / Parquet / LP / TLE
// import) with database headers and query parameters in every combination and
// payload tags / fields / columns / top-level keys named like routing keys.
// Oracle: see c32Fixture.run.

import (
	"bytes"
	"fmt"
	"strings"
	"testing"

	"github.com/apache/arrow-go/v18/arrow"
	"github.com/apache/arrow-go/v18/arrow/array"
	"github.com/apache/arrow-go/v18/arrow/memory"
	"github.com/apache/arrow-go/v18/parquet"
	"github.com/apache/arrow-go/v18/parquet/pqarrow"
	"github.com/basekick-labs/arc/internal/verifkit"
	"pgregory.net/rapid"
)

func c32Pick[T any](t *rapid.T, label string, xs ...T) T {
	return rapid.SampledFrom(xs).Draw(t, label)
}

// c32Chance: uniform decision from single-bit draws (rapid's integer
// generators are biased towards small values); shrinks towards false.
func c32Chance(t *rapid.T, label string, percent int) bool {
	v := 0
	for i := 0; i < 7; i++ {
		if rapid.Bool().Draw(t, label) {
			v |= 1 << i
		}
	}
	return (127-v)*100 < percent*128
}

const c32TLE = "ISS (ZARYA)\n1 25544U 98067A   24051.34722222  .00016717  00000-0  10270-3 0  9014\n2 25544  51.6400 208.9163 0006703 319.1918  40.8793 15.49560830442108\n"

var c32Universe = []string{"cpu", "mem", "disk", "satellite_tle"}
var c32DBs = []string{"default", "dba", "tenant1", "dbb", "secretdb"}
var c32RoutingNames = []string{"database", "_database", "db", "bucket", "measurement", "_measurement", "m", "x-arc-database", "_m", "org"}

type c32KV struct {
	Name string
	Val  any // string | int64
}

type c32Gen struct {
	t   *rapid.T
	r   *c32Req
	dis []string // measurements the caller may NOT write
	// intNames: routing-like names that carry an integer in this request. One
	// type per name per request: two batches of one measurement that disagree on
	// the type of a '_'-prefixed column crash the flush (mergeBatches type
	// assertion) - that is property C04's subject, not this one's.
	intNames map[string]bool
	odb []string // databases other than the allowed one
}

func (g *c32Gen) otherDB() string { return c32Pick(g.t, "otherdb", g.odb...) }

// dbChoice: "" (absent) | the allowed database | another database.
func (g *c32Gen) dbChoice(label string) string {
	switch c32Pick(g.t, label, "absent", "absent", "allowed", "allowed", "other") {
	case "allowed":
		return g.r.AllowedDB
	case "other":
		return g.otherDB()
	}
	return ""
}

func (g *c32Gen) measurement() string {
	switch c32Pick(g.t, "mkind", "allowed", "allowed", "allowed", "denied", "invalid") {
	case "allowed":
		return c32Pick(g.t, "mallowed", g.r.Allowed...)
	case "denied":
		return c32Pick(g.t, "mdenied", g.dis...)
	}
	if c32Chance(g.t, "minvalid", 25) {
		return c32Pick(g.t, "minvalidv", "a/b", "../x", "cpu/secret", "9cpu")
	}
	return c32Pick(g.t, "mallowed", g.r.Allowed...)
}

// routing draws payload entries named like routing keys whose values point at
// other databases / measurements.
func (g *c32Gen) routing(owner string) []c32KV {
	n := c32Pick(g.t, "nrouting", 0, 1, 1, 2, 3)
	used := map[string]bool{}
	var out []c32KV
	for i := 0; i < n; i++ {
		name := c32Pick(g.t, "rname", c32RoutingNames...)
		if name == "_measurement" && verifkit.Excluded("C32-replica-underscore-key-redirect") {
			verifkit.CountExcluded("C32-replica-underscore-key-redirect")
			name = "measurement"
		}
		if used[name] {
			continue
		}
		used[name] = true
		var val any
		kind := c32Pick(g.t, "rval", "otherdb", "secret", "denied", "int", "alloweddb", "allowedm")
		if isInt, seen := g.intNames[name]; seen {
			if isInt {
				kind = "int"
			} else if kind == "int" {
				kind = "secret"
			}
		} else {
			g.intNames[name] = kind == "int"
		}
		switch kind {
		case "otherdb":
			val = g.otherDB()
		case "secret":
			val = "secret"
		case "denied":
			val = c32Pick(g.t, "rdenied", g.dis...)
		case "int":
			val = int64(5)
		case "alloweddb":
			val = g.r.AllowedDB
		default:
			val = c32Pick(g.t, "rallowed", g.r.Allowed...)
		}
		if s, ok := val.(string); ok && s != g.r.ResolvedDB && s != owner {
			g.r.NonTrivial = true
		}
		g.r.PayloadKeys = append(g.r.PayloadKeys, name)
		out = append(out, c32KV{name, val})
	}
	return out
}

// ---- line protocol

func (g *c32Gen) lpBody() string {
	var sb strings.Builder
	nlines := c32Pick(g.t, "nlines", 1, 1, 2, 3)
	for i := 0; i < nlines; i++ {
		m := g.measurement()
		kvs := g.routing(m)
		sb.WriteString(m)
		var fields []string
		for _, kv := range kvs {
			s, isStr := kv.Val.(string)
			if isStr && rapid.Bool().Draw(g.t, "astag") {
				sb.WriteString("," + kv.Name + "=" + s)
			} else if isStr {
				fields = append(fields, kv.Name+"=\""+s+"\"")
			} else {
				fields = append(fields, fmt.Sprintf("%s=%di", kv.Name, kv.Val))
			}
		}
		fields = append(fields, fmt.Sprintf("v=%di", i+1))
		sb.WriteString(" " + strings.Join(fields, ",") + fmt.Sprintf(" %d\n", 1700000000000000000+int64(i)))
	}
	return sb.String()
}

// ---- MessagePack

func (g *c32Gen) mpKey(e *c32Enc, m string) {
	if c32Chance(g.t, "mint", 3) {
		e.str("m").int(5)
		g.r.class("mp:m-int")
		return
	}
	e.str("m").str(m)
}

func (g *c32Gen) mpColumnar(e *c32Enc, top bool) {
	m := g.measurement()
	kvs := g.routing(m)
	var extras []c32KV
	if c32Chance(g.t, "extras", 40) {
		extras = g.routing(m)
	}
	dup := top && c32Chance(g.t, "dupm", 6)
	n := c32Pick(g.t, "nrows", 1, 2, 3)
	nkeys := 2 + len(extras)
	if dup {
		nkeys++
		g.r.class("mp:duplicate-m")
	}
	e.mapHdr(nkeys)
	front := rapid.Bool().Draw(g.t, "extrasfront")
	putExtras := func() {
		for _, kv := range extras {
			e.str(kv.Name).any(kv.Val)
		}
	}
	if front {
		putExtras()
	}
	if dup {
		e.str("m").str(g.measurement())
	}
	g.mpKey(e, m)
	e.str("columns").mapHdr(2 + len(kvs))
	e.str("time").arrHdr(n)
	for i := 0; i < n; i++ {
		e.int(1700000000000 + int64(i))
	}
	e.str("v").arrHdr(n)
	for i := 0; i < n; i++ {
		e.float(float64(i) + 0.5)
	}
	for _, kv := range kvs {
		e.str(kv.Name).arrHdr(n)
		for i := 0; i < n; i++ {
			e.any(kv.Val)
		}
	}
	if !front {
		putExtras()
	}
}

func (g *c32Gen) mpRow(e *c32Enc) {
	m := g.measurement()
	tags := g.routing(m)
	fields := g.routing(m)
	var extras []c32KV
	if c32Chance(g.t, "extras", 40) {
		extras = g.routing(m)
	}
	var strTags []c32KV
	for _, kv := range tags {
		if _, ok := kv.Val.(string); ok {
			strTags = append(strTags, kv)
		}
	}
	host := c32Chance(g.t, "host", 30)
	nkeys := 4 + len(extras)
	if host {
		nkeys++
	}
	e.mapHdr(nkeys)
	g.mpKey(e, m)
	e.str("t").int(1700000000000)
	if host {
		e.str("h").str("host1")
	}
	e.str("fields").mapHdr(1 + len(fields))
	e.str("v").float(1.5)
	for _, kv := range fields {
		e.str(kv.Name).any(kv.Val)
	}
	e.str("tags").mapHdr(len(strTags))
	for _, kv := range strTags {
		e.str(kv.Name).any(kv.Val)
	}
	for _, kv := range extras {
		e.str(kv.Name).any(kv.Val)
	}
}

func (g *c32Gen) mpItem(e *c32Enc) {
	if rapid.Bool().Draw(g.t, "itemcolumnar") {
		g.mpColumnar(e, false)
	} else {
		g.mpRow(e)
	}
}

// ---- imports

func (g *c32Gen) csvBody() string {
	kvs := g.routing("")
	hdr := []string{"time", "v"}
	row := []string{"1700000000", "1"}
	for _, kv := range kvs {
		hdr = append(hdr, kv.Name)
		row = append(row, fmt.Sprint(kv.Val))
	}
	return strings.Join(hdr, ",") + "\n" + strings.Join(row, ",") + "\n" + strings.Replace(strings.Join(row, ","), "1700000000", "1700000001", 1) + "\n"
}

func (g *c32Gen) parquetBody() ([]byte, string) {
	kvs := g.routing("")
	fields := []arrow.Field{{Name: "time", Type: arrow.PrimitiveTypes.Int64}, {Name: "v", Type: arrow.PrimitiveTypes.Float64}}
	mem := memory.NewGoAllocator()
	tb := array.NewInt64Builder(mem)
	tb.AppendValues([]int64{1700000000, 1700000001}, nil)
	vb := array.NewFloat64Builder(mem)
	vb.AppendValues([]float64{1, 2}, nil)
	arrs := []arrow.Array{tb.NewArray(), vb.NewArray()}
	desc := "parquet time:int64 v:float64"
	for _, kv := range kvs {
		sb := array.NewStringBuilder(mem)
		sb.AppendValues([]string{fmt.Sprint(kv.Val), fmt.Sprint(kv.Val)}, nil)
		fields = append(fields, arrow.Field{Name: kv.Name, Type: arrow.BinaryTypes.String})
		arrs = append(arrs, sb.NewArray())
		desc += fmt.Sprintf(" %s:string=%v", kv.Name, kv.Val)
	}
	schema := arrow.NewSchema(fields, nil)
	rec := array.NewRecord(schema, arrs, 2)
	var buf bytes.Buffer
	w, err := pqarrow.NewFileWriter(schema, &buf, parquet.NewWriterProperties(), pqarrow.DefaultWriterProps())
	if err != nil {
		g.t.Fatalf("HARNESS parquet writer: %v", err)
	}
	if err := w.Write(rec); err != nil {
		g.t.Fatalf("HARNESS parquet write: %v", err)
	}
	if err := w.Close(); err != nil {
		g.t.Fatalf("HARNESS parquet close: %v", err)
	}
	return buf.Bytes(), desc
}

// c32GenReq draws one request.
func c32GenReq(t *rapid.T) *c32Req {
	r := &c32Req{Headers: map[string]string{}, Query: map[string]string{}}
	g := &c32Gen{t: t, r: r, intNames: map[string]bool{}}
	r.AllowedDB = c32Pick(t, "alloweddb", "default", "dba", "tenant1")
	for _, d := range c32DBs {
		if d != r.AllowedDB {
			g.odb = append(g.odb, d)
		}
	}
	for _, m := range c32Universe {
		if rapid.Bool().Draw(t, "allow-"+m) {
			r.Allowed = append(r.Allowed, m)
		} else {
			g.dis = append(g.dis, m)
		}
	}
	if len(r.Allowed) == 0 {
		r.Allowed, g.dis = []string{"cpu"}, g.dis[1:]
	}
	g.dis = append(g.dis, "secret")

	// uniform over the surfaces (rapid.SampledFrom favours the first entries)
	surfaces := []string{"mp-columnar", "mp-columnar", "mp-row", "mp-batch", "mp-array",
		"lp-v1", "lp-v2", "lp-simple", "tle-write", "import-csv", "import-parquet", "import-lp", "import-tle"}
	si := 0
	for i := 0; i < 8; i++ {
		if rapid.Bool().Draw(t, "surfacebit") {
			si |= 1 << i
		}
	}
	r.Surface = surfaces[si*len(surfaces)/256]
	r.class("surface:" + r.Surface)

	hdrDB, qDB, qBucket := g.dbChoice("hdrdb"), g.dbChoice("qdb"), g.dbChoice("qbucket")
	if hdrDB != "" {
		r.Headers["x-arc-database"] = hdrDB
	}
	if qDB != "" {
		r.Query["db"] = qDB
	}
	if qBucket != "" {
		r.Query["bucket"] = qBucket
	}
	if c32Chance(t, "qdatabase", 15) { // not a documented parameter anywhere
		r.Query["database"] = g.otherDB()
	}
	first := func(vals ...string) string {
		for _, v := range vals {
			if v != "" {
				return v
			}
		}
		return ""
	}
	// the measurement header / parameter (TLE surfaces and imports)
	hdrM, qM := "", ""
	if c32Chance(t, "hdrm", 50) {
		hdrM = g.measurement()
		r.Headers["x-arc-measurement"] = hdrM
	}
	if c32Chance(t, "qm", 50) {
		qM = g.measurement()
		r.Query["measurement"] = qM
	}

	if r.Surface == "import-csv" || r.Surface == "import-parquet" {
		// the CSV/Parquet import preamble rejects: no database, no/invalid
		// measurement parameter, or a denied write check
		rejects := first(hdrDB, qDB) != r.AllowedDB || qM == ""
		if !rejects {
			rejects = true
			for _, m := range r.Allowed {
				if m == qM {
					rejects = false
				}
			}
		}
		if rejects {
			if verifkit.Excluded("C32-import-preamble-rejection-ignored") {
				verifkit.CountExcluded("C32-import-preamble-rejection-ignored")
				hdrDB, qM = r.AllowedDB, r.Allowed[0]
				r.Headers["x-arc-database"], r.Query["measurement"] = hdrDB, qM
			} else {
				r.class("import:preamble-rejects")
				r.NonTrivial = true
			}
		}
	}

	switch r.Surface {
	case "mp-columnar", "mp-row", "mp-batch", "mp-array":
		r.Path = "/api/v1/write/msgpack"
		r.ResolvedDB = first(hdrDB, "default")
		e := &c32Enc{}
		switch r.Surface {
		case "mp-columnar":
			g.mpColumnar(e, true)
		case "mp-row":
			g.mpRow(e)
		case "mp-batch":
			n := c32Pick(t, "nitems", 1, 2, 3)
			extra := c32Chance(t, "batchextras", 30)
			if extra {
				e.mapHdr(3).str("m").str(g.measurement()).str("database").str(g.otherDB())
			} else {
				e.mapHdr(1)
			}
			e.str("batch").arrHdr(n)
			for i := 0; i < n; i++ {
				g.mpItem(e)
			}
		default:
			n := c32Pick(t, "nitems", 1, 2, 3)
			e.arrHdr(n)
			for i := 0; i < n; i++ {
				g.mpItem(e)
			}
		}
		r.Body = e.b
		r.BodyTxt = fmt.Sprintf("msgpack %x", e.b)
	case "lp-v1", "lp-v2", "lp-simple":
		switch r.Surface {
		case "lp-v1":
			r.Path, r.ResolvedDB = "/write", first(hdrDB, qDB, "default")
		case "lp-v2":
			r.Path, r.ResolvedDB = "/api/v2/write", first(hdrDB, qBucket, "default")
		default:
			r.Path, r.ResolvedDB = "/api/v1/write/line-protocol", first(hdrDB, "default")
		}
		body := g.lpBody()
		r.Body, r.BodyTxt = []byte(body), body
	case "tle-write":
		r.Path, r.ResolvedDB = "/api/v1/write/tle", first(hdrDB, "default")
		r.Body, r.BodyTxt = []byte(c32TLE), c32TLE
	case "import-csv", "import-parquet", "import-lp", "import-tle":
		r.Upload = true
		r.ResolvedDB = first(hdrDB, qDB)
		switch r.Surface {
		case "import-csv":
			r.Path = "/api/v1/import/csv"
			body := g.csvBody()
			r.Body, r.BodyTxt = []byte(body), body
		case "import-parquet":
			r.Path = "/api/v1/import/parquet"
			r.Body, r.BodyTxt = g.parquetBody()
		case "import-lp":
			r.Path = "/api/v1/import/lp"
			body := g.lpBody()
			r.Body, r.BodyTxt = []byte(body), body
		default:
			r.Path = "/api/v1/import/tle"
			r.Body, r.BodyTxt = []byte(c32TLE), c32TLE
		}
	}
	if hdrDB != "" && (qDB != "" || qBucket != "") && (hdrDB != qDB || hdrDB != qBucket) {
		r.class("db:header-and-param-differ")
		r.NonTrivial = true
	}
	return r
}

func (r *c32Req) key() string {
	return fmt.Sprintf("%s|%v|%v|%s|%v|%s", r.Path, r.Headers, r.Query, r.AllowedDB, r.Allowed, r.Body)
}

func TestVerifC32_Surfaces(t *testing.T) {
	fx := c32NewFixture(t)
	stored := 0
	rapid.Check(t, func(rt *rapid.T) {
		r := c32GenReq(rt)
		if r.NonTrivial {
			verifkit.NonTrivial(r.key())
			if verifkit.SampleCount() < 4 {
				verifkit.Sample(r)
			}
		}
		fx.run(rt, r)
		if len(c32Prefixes(fx.rootW)) > 0 {
			stored++
		}
	})
	verifkit.Note("requests_that_stored_rows", stored)
	if !t.Failed() && stored == 0 {
		t.Fatalf("HARNESS vacuous: no generated request stored any row")
	}
}

// ---------------------------------------------------------------- known findings

type c32Probe struct{ msg string }

func (p *c32Probe) Fatalf(format string, args ...any) {
	if p.msg == "" {
		p.msg = strings.SplitN(strings.TrimSpace(fmt.Sprintf(format, args...)), "\n", 2)[0]
	}
	panic(p)
}

func c32RunProbe(fx *c32Fixture, r *c32Req) (msg string) {
	p := &c32Probe{}
	defer func() {
		if x := recover(); x != nil {
			if x != any(p) {
				panic(x)
			}
			msg = p.msg
		}
	}()
	fx.run(p, r)
	return ""
}

// A line-protocol write to database "dba" is replicated without a database
// envelope and lands in database "default" on the replica.
func TestVerifKF_C32_replica_row_wal_database(t *testing.T) {
	fx := c32NewFixture(t)
	body := "cpu v=1i 1700000000000000000\n"
	r := &c32Req{Surface: "lp-simple", Path: "/api/v1/write/line-protocol", Headers: map[string]string{"x-arc-database": "dba"},
		Query: map[string]string{}, Body: []byte(body), BodyTxt: body, AllowedDB: "dba", Allowed: []string{"cpu"}, ResolvedDB: "dba"}
	msg := c32RunProbe(fx, r)
	t.Logf("oracle: %s", msg)
	verifkit.KnownFinding("C32-replica-row-wal-loses-database", strings.Contains(msg, "C32/replica-wrong-database replica-stored=default/cpu"), msg)
}

// A tag named _measurement overwrites the routing key of the row-format WAL
// entry, so the replica files the rows under a measurement that was never checked.
func TestVerifKF_C32_replica_underscore_measurement(t *testing.T) {
	fx := c32NewFixture(t)
	body := "cpu,_measurement=secret v=1i 1700000000000000000\n"
	r := &c32Req{Surface: "lp-simple", Path: "/api/v1/write/line-protocol", Headers: map[string]string{},
		Query: map[string]string{}, Body: []byte(body), BodyTxt: body, AllowedDB: "default", Allowed: []string{"cpu"}, ResolvedDB: "default"}
	msg := c32RunProbe(fx, r)
	t.Logf("oracle: %s", msg)
	verifkit.KnownFinding("C32-replica-underscore-key-redirect", strings.Contains(msg, "C32/replica-unchecked-measurement replica-stored=default/secret"), msg)
}

// The CSV/Parquet import handlers ignore their own preamble's rejection: the
// 400/403 response is written, then the import carries on with database "" and
// measurement "" (no write check) and the rows are stored at the storage root.
func TestVerifKF_C32_import_preamble_rejection_ignored(t *testing.T) {
	fx := c32NewFixture(t)
	body := "time,v\n1700000000,1\n"
	r := &c32Req{Surface: "import-csv", Path: "/api/v1/import/csv", Headers: map[string]string{}, Upload: true,
		Query: map[string]string{"db": "dbb", "measurement": "cpu"}, Body: []byte(body), BodyTxt: body,
		AllowedDB: "default", Allowed: []string{"cpu"}, ResolvedDB: "dbb"}
	msg := c32RunProbe(fx, r)
	t.Logf("oracle: %s", msg)
	verifkit.KnownFinding("C32-import-preamble-rejection-ignored", strings.Contains(msg, "C32/writer-wrong-database stored=2023/11") && strings.Contains(msg, "status=403"), msg)
}
