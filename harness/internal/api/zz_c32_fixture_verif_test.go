//go:build verif

package api

// C32 - Writes land only where the caller is allowed to write.
// Fixture: every write surface wired as RegisterRoutes does, on a real
// ArrowBuffer + LocalBackend with a real wal.Writer whose replication hook is
// captured; a recording RBAC checker; a replica ArrowBuffer fed through the
// real Receiver.applyEntry -> Coordinator.buildReplicationIngestHandler.

import (
	"bytes"
	"context"
	"database/sql"
	"encoding/binary"
	"fmt"
	"io"
	"math"
	"mime/multipart"
	"net/http/httptest"
	"net/url"
	"os"
	"path/filepath"
	"sort"
	"strings"
	"testing"

	"github.com/basekick-labs/arc/internal/auth"
	"github.com/basekick-labs/arc/internal/cluster"
	"github.com/basekick-labs/arc/internal/cluster/replication"
	"github.com/basekick-labs/arc/internal/config"
	"github.com/basekick-labs/arc/internal/ingest"
	"github.com/basekick-labs/arc/internal/storage"
	"github.com/basekick-labs/arc/internal/verifkit"
	"github.com/basekick-labs/arc/internal/verifkit/duck"
	"github.com/basekick-labs/arc/internal/wal"
	"github.com/gofiber/fiber/v2"
	"github.com/rs/zerolog"
)

// ---------------------------------------------------------------- recorder

type c32Check struct {
	DB, Measurement, Permission string
	Allowed                     bool
}

// c32Recorder is the RBACChecker: allows write on exactly (allowedDB, allowed set).
type c32Recorder struct {
	allowedDB string
	allowed   map[string]bool
	checks    []c32Check
}

func (r *c32Recorder) IsRBACEnabled() bool { return true }

func (r *c32Recorder) CheckPermission(req *auth.PermissionCheckRequest) *auth.PermissionCheckResult {
	ok := req.Permission == "write" && req.Database == r.allowedDB && r.allowed[req.Measurement]
	r.checks = append(r.checks, c32Check{req.Database, req.Measurement, req.Permission, ok})
	if ok {
		return &auth.PermissionCheckResult{Allowed: true, Source: "rbac"}
	}
	return &auth.PermissionCheckResult{Allowed: false, Source: "denied", Reason: "verif recorder"}
}

func (r *c32Recorder) CheckPermissionsBatch(reqs []*auth.PermissionCheckRequest) []*auth.PermissionCheckResult {
	out := make([]*auth.PermissionCheckResult, len(reqs))
	for i, q := range reqs {
		out[i] = r.CheckPermission(q)
	}
	return out
}

// ---------------------------------------------------------------- fixture

type c32Fixture struct {
	rootW, rootR string
	bufW, bufR   *ingest.ArrowBuffer
	app          *fiber.App
	rec          *c32Recorder
	captured     [][]byte
	replica      replication.IngestHandler
	db           *sql.DB
	seq          uint64
}

func c32IngestCfg() *config.IngestConfig {
	// only explicit FlushAll flushes: no size-triggered async flush, no age timer
	return &config.IngestConfig{MaxBufferSize: 1 << 30, MaxBufferAgeMS: 24 * 3600 * 1000, Compression: "snappy",
		WriteStatistics: true, DataPageVersion: "2.0", FlushWorkers: 2, FlushQueueSize: 16, ShardCount: 4, FlushTimeoutSeconds: 120}
}

func c32NewFixture(t testing.TB) *c32Fixture {
	base, err := os.MkdirTemp("", "c32-")
	if err != nil {
		t.Fatalf("tempdir: %v", err)
	}
	fx := &c32Fixture{rootW: filepath.Join(base, "writer"), rootR: filepath.Join(base, "replica"), rec: &c32Recorder{}}
	beW, err := storage.NewLocalBackend(fx.rootW, zerolog.Nop())
	if err != nil {
		t.Fatalf("backend: %v", err)
	}
	beR, err := storage.NewLocalBackend(fx.rootR, zerolog.Nop())
	if err != nil {
		t.Fatalf("backend: %v", err)
	}
	fx.bufW = ingest.NewArrowBuffer(c32IngestCfg(), beW, zerolog.Nop())
	fx.bufR = ingest.NewArrowBuffer(c32IngestCfg(), beR, zerolog.Nop())
	w, err := wal.NewWriter(&wal.WriterConfig{WALDir: filepath.Join(base, "wal"), SyncMode: wal.SyncModeAsync, Logger: zerolog.Nop()})
	if err != nil {
		t.Fatalf("wal: %v", err)
	}
	// what the writer's replication hook hands to the Sender, byte for byte
	w.SetReplicationHook(func(e *wal.ReplicationEntry) {
		fx.captured = append(fx.captured, append([]byte(nil), e.Payload...))
	})
	fx.bufW.SetWAL(w)
	fx.replica = cluster.VerifC32ReplicationIngestHandler(fx.bufR)

	app := fiber.New(fiber.Config{BodyLimit: 64 << 20, DisableStartupMessage: true})
	// stands in for the global auth middleware: an authenticated token
	app.Use(func(c *fiber.Ctx) error {
		c.Locals("token_info", &auth.TokenInfo{ID: 7, Name: "verif", Permissions: []string{"read", "write", "admin"}, Enabled: true})
		return c.Next()
	})
	mp := NewMsgPackHandler(zerolog.Nop(), fx.bufW, 64<<20)
	mp.SetAuthAndRBAC(nil, fx.rec)
	mp.RegisterRoutes(app)
	lp := NewLineProtocolHandler(fx.bufW, zerolog.Nop())
	lp.SetAuthAndRBAC(nil, fx.rec)
	lp.RegisterRoutes(app)
	tle := NewTLEHandler(fx.bufW, zerolog.Nop())
	tle.SetAuthAndRBAC(nil, fx.rec)
	tle.RegisterRoutes(app)
	imp := NewImportHandler(zerolog.Nop())
	imp.SetArrowBuffer(fx.bufW)
	imp.SetAuthAndRBAC(nil, fx.rec)
	imp.RegisterRoutes(app)
	fx.app = app
	fx.db, err = duck.Open()
	if err != nil {
		t.Fatalf("duckdb: %v", err)
	}
	t.Cleanup(func() {
		_ = fx.bufW.Close()
		_ = fx.bufR.Close()
		_ = w.Close()
		_ = fx.db.Close()
		_ = app.Shutdown()
		_ = os.RemoveAll(base)
	})
	return fx
}

// ---------------------------------------------------------------- request model

type c32Req struct {
	Surface string            `json:"surface"`
	Path    string            `json:"path"`
	Headers map[string]string `json:"headers"`
	Query   map[string]string `json:"query"`
	Body    []byte            `json:"-"`
	BodyTxt string            `json:"body"`
	Upload  bool              `json:"upload"` // multipart field "file"
	// ground truth
	AllowedDB   string   `json:"allowed_db"`
	Allowed     []string `json:"allowed_measurements"`
	ResolvedDB  string   `json:"resolved_db"` // database the request names (documented resolution); "" = none
	NonTrivial  bool     `json:"-"`
	RowWAL      bool     `json:"-"`
	Classes     []string `json:"classes"`
	PayloadKeys []string `json:"routing_like_names"`
}

func (r *c32Req) class(s string) {
	for _, x := range r.Classes {
		if x == s {
			return
		}
	}
	r.Classes = append(r.Classes, s)
}

func (r *c32Req) describe() string {
	return fmt.Sprintf("surface=%s path=%s headers=%v query=%v allowed=(%s,%v) resolved_db=%q\nbody=%q", r.Surface, r.Path, r.Headers, r.Query, r.AllowedDB, r.Allowed, r.ResolvedDB, r.BodyTxt)
}

type c32Failer interface {
	Fatalf(format string, args ...any)
}

func (fx *c32Fixture) send(r *c32Req) (int, string, error) {
	vals := url.Values{}
	for k, v := range r.Query {
		vals.Set(k, v)
	}
	target := r.Path
	if len(vals) > 0 {
		target += "?" + vals.Encode()
	}
	var body io.Reader = bytes.NewReader(r.Body)
	ctype := "application/octet-stream"
	if r.Upload {
		var b bytes.Buffer
		mw := multipart.NewWriter(&b)
		fw, _ := mw.CreateFormFile("file", "upload.bin")
		_, _ = fw.Write(r.Body)
		_ = mw.Close()
		body, ctype = &b, mw.FormDataContentType()
	}
	req := httptest.NewRequest("POST", target, body)
	req.Header.Set("Content-Type", ctype)
	for k, v := range r.Headers {
		req.Header.Set(k, v)
	}
	resp, err := fx.app.Test(req, -1)
	if err != nil {
		return 0, "", err
	}
	defer resp.Body.Close()
	b, _ := io.ReadAll(resp.Body)
	return resp.StatusCode, string(b), nil
}

// c32Prefixes lists the distinct "<db>/<measurement>" prefixes holding parquet files under root.
func c32Prefixes(root string) []string {
	seen := map[string]bool{}
	for _, f := range duck.FindParquet(root) {
		rel, err := filepath.Rel(root, f)
		if err != nil {
			continue
		}
		parts := strings.Split(filepath.ToSlash(rel), "/")
		if len(parts) >= 2 {
			seen[parts[0]+"/"+parts[1]] = true
		} else {
			seen[rel] = true
		}
	}
	out := make([]string, 0, len(seen))
	for k := range seen {
		out = append(out, k)
	}
	sort.Strings(out)
	return out
}

func c32Clear(root string) {
	ents, _ := os.ReadDir(root)
	for _, e := range ents {
		_ = os.RemoveAll(filepath.Join(root, e.Name()))
	}
}

// run performs one request on the writer, flushes, applies the captured WAL
// payloads on the replica, flushes, and applies the oracle.
func (fx *c32Fixture) run(t c32Failer, r *c32Req) {
	fx.rec.allowedDB = r.AllowedDB
	fx.rec.allowed = map[string]bool{}
	for _, m := range r.Allowed {
		fx.rec.allowed[m] = true
	}
	fx.rec.checks = nil
	fx.captured = nil
	c32Clear(fx.rootW)
	c32Clear(fx.rootR)
	verifkit.Eval()
	for _, cl := range r.Classes {
		verifkit.Class(cl)
	}
	status, body, err := fx.send(r)
	if err != nil {
		t.Fatalf("HARNESS app.Test: %v", err)
	}
	if ferr := fx.bufW.FlushAll(context.Background()); ferr != nil {
		verifkit.Class("writer-flush-error")
	}
	verifkit.Class(fmt.Sprintf("status:%dxx", status/100))

	// pairs whose write check was allowed in THIS request
	okPairs := map[string]bool{}
	for _, ck := range fx.rec.checks {
		if ck.Allowed && ck.Permission == "write" {
			okPairs[ck.DB+"/"+ck.Measurement] = true
		}
	}
	stored := c32Prefixes(fx.rootW)
	if len(stored) > 0 {
		verifkit.Class("writer-stored")
	}
	for _, p := range stored {
		db := strings.SplitN(p, "/", 2)[0]
		if db != r.ResolvedDB {
			t.Fatalf("VERIF-FAIL class=C32/writer-wrong-database stored=%s request-named=%q status=%d body=%s files=%v\ncase: %s", p, r.ResolvedDB, status, body, duck.FindParquet(fx.rootW), r.describe())
		}
		if !okPairs[p] {
			t.Fatalf("VERIF-FAIL class=C32/writer-unchecked-target stored=%s allowed-checks=%v all-checks=%v status=%d body=%s\ncase: %s", p, c32Keys(okPairs), fx.rec.checks, status, body, r.describe())
		}
	}

	// ---- replica
	for _, payload := range fx.captured {
		fx.seq++
		if err := replication.VerifC32ApplyEntry(fx.replica, fx.seq, payload); err != nil {
			verifkit.Class("replica-apply-error")
		}
	}
	if ferr := fx.bufR.FlushAll(context.Background()); ferr != nil {
		verifkit.Class("replica-flush-error")
	}
	if len(fx.captured) > 0 {
		verifkit.Class("replica-fed")
	}
	enveloped := true
	for _, p := range fx.captured {
		if len(p) == 0 || p[0] != wal.WALEnvelopeMarker {
			enveloped = false
		}
	}
	dbExcluded := false
	if !enveloped && verifkit.Excluded("C32-replica-row-wal-loses-database") && r.ResolvedDB != "default" {
		dbExcluded = true
		verifkit.CountExcluded("C32-replica-row-wal-loses-database")
	}
	for _, p := range c32Prefixes(fx.rootR) {
		verifkit.Class("replica-stored")
		parts := strings.SplitN(p, "/", 2)
		db, meas := parts[0], ""
		if len(parts) > 1 {
			meas = parts[1]
		}
		if !okPairs[r.ResolvedDB+"/"+meas] {
			t.Fatalf("VERIF-FAIL class=C32/replica-unchecked-measurement replica-stored=%s writer-stored=%v allowed-checks=%v status=%d\ncase: %s", p, stored, c32Keys(okPairs), status, r.describe())
		}
		if db != r.ResolvedDB && !dbExcluded {
			t.Fatalf("VERIF-FAIL class=C32/replica-wrong-database replica-stored=%s writer-stored=%v request-named=%q enveloped=%v status=%d\ncase: %s", p, stored, r.ResolvedDB, enveloped, status, r.describe())
		}
	}
}

func c32Keys(m map[string]bool) []string {
	out := make([]string, 0, len(m))
	for k := range m {
		out = append(out, k)
	}
	sort.Strings(out)
	return out
}

// ---------------------------------------------------------------- msgpack encoder

// c32Enc is a minimal deterministic MessagePack encoder (ordered maps, allows
// duplicate keys).
type c32Enc struct{ b []byte }

func (e *c32Enc) mapHdr(n int) *c32Enc {
	if n < 16 {
		e.b = append(e.b, 0x80|byte(n))
	} else {
		e.b = append(e.b, 0xde, byte(n>>8), byte(n))
	}
	return e
}

func (e *c32Enc) arrHdr(n int) *c32Enc {
	if n < 16 {
		e.b = append(e.b, 0x90|byte(n))
	} else {
		e.b = append(e.b, 0xdc, byte(n>>8), byte(n))
	}
	return e
}

func (e *c32Enc) str(s string) *c32Enc {
	n := len(s)
	switch {
	case n < 32:
		e.b = append(e.b, 0xa0|byte(n))
	case n < 256:
		e.b = append(e.b, 0xd9, byte(n))
	default:
		e.b = append(e.b, 0xda, byte(n>>8), byte(n))
	}
	e.b = append(e.b, s...)
	return e
}

func (e *c32Enc) int(v int64) *c32Enc {
	if v >= 0 && v < 128 {
		e.b = append(e.b, byte(v))
		return e
	}
	e.b = append(e.b, 0xd3)
	e.b = binary.BigEndian.AppendUint64(e.b, uint64(v))
	return e
}

func (e *c32Enc) float(f float64) *c32Enc {
	e.b = append(e.b, 0xcb)
	e.b = binary.BigEndian.AppendUint64(e.b, math.Float64bits(f))
	return e
}

func (e *c32Enc) boolean(v bool) *c32Enc {
	if v {
		e.b = append(e.b, 0xc3)
	} else {
		e.b = append(e.b, 0xc2)
	}
	return e
}

// any encodes string / int64 / float64 / bool.
func (e *c32Enc) any(v any) *c32Enc {
	switch x := v.(type) {
	case string:
		return e.str(x)
	case int64:
		return e.int(x)
	case int:
		return e.int(int64(x))
	case float64:
		return e.float(x)
	case bool:
		return e.boolean(x)
	}
	e.b = append(e.b, 0xc0)
	return e
}
