//go:build verif

package api

// C16 - Query answers match DuckDB's semantics for the same SQL.
//
// One rapid case = one generated dataset (two databases sharing measurement
// names, files in hour directories and day-level compacted files, per-file
// schema differences) plus a batch of generated queries from the grammar of
// supported shapes. Every query is executed through the real QueryHandler
// (POST /api/v1/query, with or without x-arc-database) and on a plain DuckDB in
// which every db.measurement is a VIEW over read_parquet(<exactly its files>,
// union_by_name). Rows are compared as multisets, or as sequences when the
// query ends in ORDER BY over every output column. Both-fail is agreement, a
// one-sided failure is a violation. Each query runs with a cold transform cache
// and again with a warm one, and header-independent texts are re-run under
// another header without clearing the cache.
//
// Not generated here: C17's rewritten functions (time_bucket, date_trunc,
// regexp URL rewrite, LIKE), predicates comparing time with a quoted literal
// (C18), comma joins.

import (
	"fmt"
	"os"
	"sort"
	"strings"
	"testing"
	"time"

	"github.com/basekick-labs/arc/internal/verifkit"
	"pgregory.net/rapid"
)

const (
	c16FCteShadow   = "C16-cte-shadows-measurement"
	c16FFastPathWS  = "C16-fastpath-whitespace"
	c16FHeaderWith  = "C16-header-with-whitespace"
	c16FMaterialize = "C16-cte-header-syntax"
	c16FDistinct    = "C16-is-distinct-from"
	c16FCallNewline = "C16-call-lookahead-newline"
)

// ---------------------------------------------------------------- dataset

type c16Meas struct {
	DB, Name string
	Cols     []qCol // union of the file schemas (first file carries all)
	Files    []qFile
}

type c16Data struct {
	DBs   []string // DBs[0] == "default"
	Names []string // measurement names (present in every database)
	Meas  map[string]*c16Meas
}

var c16OptCols = []qCol{
	{"region", "VARCHAR"}, {"usage", "DOUBLE"}, {"cnt", "BIGINT"}, {"ok", "BOOLEAN"},
	{"Temp C", "DOUBLE"}, {"msg", "VARCHAR"},
}

// Values with a blank come in pairs that differ only in the amount of
// whitespace ('rack 1' / 'rack  1'): the whitespace-sibling queries of
// c16Siblings select different rows for the two spellings.
var c16Hosts = []string{"h1", "h2", "h3", "H4", "it's", "rack 1", "rack  1"}
var c16Regions = []string{"eu", "us", "FROM mem", "FROM  mem", "ap-1"}
var c16Msgs = []string{"ok", "a -- b", "a  -- b", "x /* y */ z", "x  /* y */ z", "JOIN prod.cpu", "JOIN  prod.cpu", "", "select 1 from cpu"}

func c16SQLStr(s string) string { return "'" + strings.ReplaceAll(s, "'", "''") + "'" }

func c16GenValue(t *rapid.T, c qCol, hourStartUs int64, spanUs int64, id *int64) string {
	switch c.Name {
	case "id":
		*id++
		return fmt.Sprint(*id)
	case "time":
		off := rapid.SampledFrom([]int64{0, spanUs - 1, -1}).Draw(t, "toff")
		if off < 0 {
			off = rapid.Int64Range(0, spanUs-1).Draw(t, "trand")
		}
		return qTSLit(hourStartUs + off)
	case "host":
		return c16SQLStr(rapid.SampledFrom(c16Hosts).Draw(t, "host"))
	}
	if rapid.IntRange(0, 4).Draw(t, "null") == 0 {
		return "NULL"
	}
	switch c.Name {
	case "region":
		return c16SQLStr(rapid.SampledFrom(c16Regions).Draw(t, "region"))
	case "msg":
		return c16SQLStr(rapid.SampledFrom(c16Msgs).Draw(t, "msg"))
	case "ok":
		return fmt.Sprint(rapid.Bool().Draw(t, "ok"))
	case "cnt":
		return fmt.Sprint(rapid.IntRange(-3, 12).Draw(t, "cnt"))
	default: // DOUBLE: multiples of 0.25 so sums are exact in any order
		return fmt.Sprintf("%.2f", float64(rapid.IntRange(-40, 400).Draw(t, "dbl"))/4)
	}
}

func c16GenData(t *rapid.T) *c16Data {
	d := &c16Data{Meas: map[string]*c16Meas{}}
	d.DBs = []string{"default", rapid.SampledFrom([]string{"prod", "Edge_2", "my-db"}).Draw(t, "db2")}
	pool := []string{"cpu", "mem", "CpuLoad", "rocket-01", "disk_io"}
	n := rapid.IntRange(2, 3).Draw(t, "nmeas")
	perm := rapid.Permutation(pool).Draw(t, "measperm")
	d.Names = append([]string(nil), perm[:n]...)
	sort.Strings(d.Names)
	// anchor day: 2024-03-14 .. plus a generated offset
	const hourUs = int64(3600) * 1000000
	base := int64(1710374400) * 1000000 // 2024-03-14 00:00:00 UTC
	base += int64(rapid.IntRange(0, 400).Draw(t, "dayoff")) * 24 * hourUs
	// one column set per measurement NAME (the same text is run under several
	// headers, so cpu must have the same columns in every database; rows differ)
	colsOf := map[string][]qCol{}
	for _, name := range d.Names {
		cols := []qCol{{"id", "BIGINT"}, {"time", "TIMESTAMPTZ"}, {"host", "VARCHAR"}}
		for _, oc := range c16OptCols {
			if rapid.IntRange(0, 2).Draw(t, "hascol") > 0 {
				cols = append(cols, oc)
			}
		}
		colsOf[name] = cols
	}
	for _, db := range d.DBs {
		for _, name := range d.Names {
			m := &c16Meas{DB: db, Name: name}
			cols := colsOf[name]
			m.Cols = cols
			var id int64
			if db != "default" {
				id = 1000
			}
			nfiles := rapid.IntRange(2, 5).Draw(t, "nfiles")
			for f := 0; f < nfiles; f++ {
				day := rapid.IntRange(0, 2).Draw(t, "day")
				dayLevel := rapid.IntRange(0, 3).Draw(t, "daylevel") == 0
				hour := rapid.IntRange(0, 23).Draw(t, "hour")
				fcols := cols
				if f > 0 && len(cols) > 3 {
					// schema difference: drop some optional columns in later files
					fcols = append([]qCol(nil), cols[:3]...)
					for _, c := range cols[3:] {
						if rapid.IntRange(0, 3).Draw(t, "keep") > 0 {
							fcols = append(fcols, c)
						}
					}
				}
				start := base + int64(day)*24*hourUs
				span := 24 * hourUs
				ts := timeOfUs(start)
				rel := fmt.Sprintf("%s/%s/%s/%s_compacted_%d.parquet", db, name, ts.Format("2006/01/02"), name, f)
				if !dayLevel {
					start += int64(hour) * hourUs
					span = hourUs
					ts = timeOfUs(start)
					rel = fmt.Sprintf("%s/%s/%s/%s_%d.parquet", db, name, ts.Format("2006/01/02/15"), name, f)
				}
				qf := qFile{Rel: rel, Cols: fcols}
				nrows := rapid.IntRange(1, 5).Draw(t, "nrows")
				for r := 0; r < nrows; r++ {
					row := make([]string, len(fcols))
					for i, c := range fcols {
						row[i] = c16GenValue(t, c, start, span, &id)
					}
					qf.Rows = append(qf.Rows, row)
				}
				m.Files = append(m.Files, qf)
			}
			d.Meas[db+"\x00"+name] = m
		}
	}
	return d
}

func (d *c16Data) install(e *qEnv) error {
	for _, db := range d.DBs {
		for _, name := range d.Names {
			m := d.Meas[db+"\x00"+name]
			var rels []string
			for _, f := range m.Files {
				if err := e.writeFile(f); err != nil {
					return err
				}
				rels = append(rels, f.Rel)
			}
			if err := e.defineView(db, name, rels); err != nil {
				return err
			}
			if db == "default" {
				if err := e.defineView("", name, rels); err != nil {
					return err
				}
			}
		}
	}
	return nil
}

// ---------------------------------------------------------------- query text builder

const (
	tkOther = iota
	tkFROM
	tkJOIN
	tkWITH
	tkPunct
	tkCTEAS // the AS of a CTE header
	tkLATERAL
)

type c16Tok struct {
	s    string
	kind int
}

type c16Src struct {
	Alias string
	Cols  []qCol
}

type c16Gen struct {
	t        *rapid.T
	d        *c16Data
	hdr      string // "" = no header
	toks     []c16Tok
	kwStyle  int
	nAlias   int
	nOut     int
	ctes     []c16Src        // CTEs in scope (Alias = CTE name as written)
	unqual   map[string]bool // measurement names referenced unqualified
	qualUsed bool            // some reference was db-qualified
	cteNames map[string]bool // lower-cased CTE names
	feat     map[string]bool
	plain    bool // no quotes, comments or FROM-keyword functions: the text the header fast path accepts
}

func (g *c16Gen) kw(words string) {
	for _, w := range strings.Fields(words) {
		kind := tkOther
		switch w {
		case "FROM":
			kind = tkFROM
		case "JOIN":
			kind = tkJOIN
		case "WITH":
			kind = tkWITH
		case "LATERAL":
			kind = tkLATERAL
		}
		g.toks = append(g.toks, c16Tok{g.caseKW(w), kind})
	}
}

func (g *c16Gen) caseKW(w string) string {
	switch g.kwStyle {
	case 0:
		return w
	case 1:
		return strings.ToLower(w)
	case 2:
		return w[:1] + strings.ToLower(w[1:])
	default:
		b := []byte(strings.ToLower(w))
		for i := range b {
			if rapid.Bool().Draw(g.t, "kwcase") {
				b[i] = strings.ToUpper(string(b[i]))[0]
			}
		}
		return string(b)
	}
}

func (g *c16Gen) raw(s string)   { g.toks = append(g.toks, c16Tok{s, tkOther}) }
func (g *c16Gen) punct(s string) { g.toks = append(g.toks, c16Tok{s, tkPunct}) }

var c16Comments = []string{"x", "FROM mem", "JOIN prod.cpu ON 1", "WITH c AS (", "SELECT * FROM cpu", "time 5"}

// gluedComment is a separator that puts a comment directly against the
// preceding token, with no blank in between (`WITH/* c */ x`, `FROM/**/cpu`,
// `WITH-- c\nx`).
func (g *c16Gen) gluedComment() string {
	g.feat["comment"] = true
	g.feat["glued-comment"] = true
	switch rapid.IntRange(0, 3).Draw(g.t, "glued") {
	case 0:
		return "/**/"
	case 1:
		return "/* " + rapid.SampledFrom(c16Comments).Draw(g.t, "gcmt") + " */ "
	case 2:
		return "/*" + rapid.SampledFrom(c16Comments).Draw(g.t, "gcmt") + "*/"
	default:
		return "-- " + rapid.SampledFrom(c16Comments).Draw(g.t, "gcmt") + "\n"
	}
}

func (g *c16Gen) sep(required bool) string {
	if !required && rapid.IntRange(0, 9).Draw(g.t, "optsep") < 6 {
		return ""
	}
	if g.plain {
		return rapid.SampledFrom([]string{" ", " ", " ", " ", "\n", "\t", "  ", "\n\t ", "\r\n"}).Draw(g.t, "plainsep")
	}
	switch k := rapid.IntRange(0, 99).Draw(g.t, "sep"); {
	case k < 52:
		return " "
	case k < 64:
		return "\n"
	case k < 70:
		return "\t"
	case k < 75:
		return "  "
	case k < 80:
		return "\n\t "
	case k < 83:
		return "\r\n"
	case k < 90:
		g.feat["comment"] = true
		return " /* " + rapid.SampledFrom(c16Comments).Draw(g.t, "cmt") + " */ "
	case k < 93:
		g.feat["comment"] = true
		return "/**/"
	default:
		g.feat["comment"] = true
		return " -- " + rapid.SampledFrom(c16Comments).Draw(g.t, "cmt") + "\n"
	}
}

// render joins the tokens with generated separators. Known-finding exclusions
// that concern whitespace are applied here (they depend on the whole text).
func (g *c16Gen) render() string {
	seps := make([]string, len(g.toks))
	for i := 1; i < len(g.toks); i++ {
		req := !(g.toks[i].kind == tkPunct || g.toks[i-1].kind == tkPunct)
		// the keywords the rewriter scans for get a comment glued to them
		// (no blank) noticeably often
		if k := g.toks[i-1].kind; !g.plain && ((k == tkWITH && rapid.IntRange(0, 2).Draw(g.t, "gluewith") == 0) ||
			((k == tkFROM || k == tkJOIN || k == tkCTEAS) && rapid.IntRange(0, 5).Draw(g.t, "gluekw") == 0)) {
			seps[i] = g.gluedComment()
			continue
		}
		seps[i] = g.sep(req)
	}
	build := func() string {
		var b strings.Builder
		for i, tk := range g.toks {
			b.WriteString(seps[i])
			b.WriteString(tk.s)
		}
		return b.String()
	}
	for i, tk := range g.toks {
		// `WITH c(a,b)AS(` - no blank between the column list and AS - is part of
		// the CTE-header known finding
		// `JOIN LATERAL<newline>(`: the is-it-a-call lookahead skips blanks and tabs only
		if tk.kind == tkLATERAL && i+1 < len(g.toks) && g.toks[i+1].s == "(" && strings.ContainsAny(seps[i+1], "\n\r") {
			if verifkit.Excluded(c16FCallNewline) {
				seps[i+1] = " "
				verifkit.CountExcluded(c16FCallNewline)
			} else {
				g.feat["lateral-newline-paren"] = true
			}
		}
		if tk.kind == tkCTEAS && i > 0 && g.toks[i-1].s == ")" && seps[i] == "" {
			if verifkit.Excluded(c16FMaterialize) {
				seps[i] = " "
				verifkit.CountExcluded(c16FMaterialize)
			} else {
				g.feat["cte-header-nospace"] = true
			}
		}
	}
	s := build()
	if g.hdr != "" || !g.qualUsed { // texts without db-qualified names are also run under a header
		plainish := !strings.ContainsAny(s, "'\"$") && !strings.Contains(s, "--") && !strings.Contains(s, "/*")
		changed := false
		for i, tk := range g.toks {
			// fast-path heuristics look for "from " / " join " / "with "
			if verifkit.Excluded(c16FFastPathWS) && plainish {
				if tk.kind == tkFROM || tk.kind == tkJOIN {
					if i+1 < len(seps) && seps[i+1] != " " {
						seps[i+1], changed = " ", true
					}
				}
				if tk.kind == tkJOIN && seps[i] != " " {
					seps[i], changed = " ", true
				}
			}
			if verifkit.Excluded(c16FHeaderWith) && tk.kind == tkWITH && i+1 < len(seps) && !strings.HasPrefix(seps[i+1], " ") {
				seps[i+1] = " "
				verifkit.CountExcluded(c16FHeaderWith)
			}
		}
		if changed {
			verifkit.CountExcluded(c16FFastPathWS)
		}
		s = build()
	}
	for i, tk := range g.toks {
		if (tk.kind == tkFROM || tk.kind == tkJOIN) && i+1 < len(seps) && strings.ContainsAny(seps[i+1], "\n\t\r") {
			g.feat["nl-after-from-join"] = true
		}
	}
	return s
}

func c16NeedsQuote(name string) bool {
	for i, c := range name {
		if !(c == '_' || (c >= 'a' && c <= 'z') || (c >= 'A' && c <= 'Z') || (i > 0 && c >= '0' && c <= '9')) {
			return true
		}
	}
	return name == "default"
}

func (g *c16Gen) ident(name string) string {
	if g.plain && !c16NeedsQuote(name) {
		return name
	}
	if c16NeedsQuote(name) || rapid.IntRange(0, 5).Draw(g.t, "quote") == 0 {
		g.feat["quoted"] = true
		return qIdent(name)
	}
	return name
}

func (g *c16Gen) newAlias() string {
	g.nAlias++
	return fmt.Sprintf("t%d", g.nAlias)
}

// tableSource emits a measurement reference (with alias) and returns it.
func (g *c16Gen) tableSource(avoid map[string]bool) c16Src {
	var cands []*c16Meas
	for _, db := range g.d.DBs {
		if g.hdr != "" && db != g.hdr {
			continue
		}
		for _, n := range g.d.Names {
			if avoid[n] || (g.plain && (c16NeedsQuote(n) || (g.hdr == "" && db != "default"))) {
				continue
			}
			cands = append(cands, g.d.Meas[db+"\x00"+n])
		}
	}
	if len(cands) == 0 { // every name needs quotes: give up on plainness for this text
		g.plain = false
		return g.tableSource(avoid)
	}
	m := cands[rapid.IntRange(0, len(cands)-1).Draw(g.t, "meas")]
	ref := ""
	unq := g.hdr != "" || (m.DB == "default" && (g.plain || rapid.Bool().Draw(g.t, "unqualified")))
	if unq && g.cteNames[strings.ToLower(m.Name)] && verifkit.Excluded(c16FCteShadow) {
		// a CTE of that name is in the text: an unqualified reference would
		// be the known-finding shape
		verifkit.CountExcluded(c16FCteShadow)
		if g.hdr == "" {
			unq = false
		} else {
			for _, c := range cands {
				if !g.cteNames[strings.ToLower(c.Name)] {
					m = c
					break
				}
			}
		}
	}
	if unq {
		ref = g.ident(m.Name)
		g.unqual[m.Name] = true
	} else {
		ref = g.ident(m.DB) + "." + g.ident(m.Name)
		g.qualUsed = true
	}
	g.raw(ref)
	a := g.newAlias()
	if rapid.Bool().Draw(g.t, "as") {
		g.kw("AS")
	}
	g.raw(a)
	return c16Src{Alias: a, Cols: m.Cols}
}

func (g *c16Gen) colRef(s c16Src, c qCol) string {
	n := c.Name
	if c16NeedsQuote(n) || (!g.plain && rapid.IntRange(0, 7).Draw(g.t, "qcol") == 0) {
		g.feat["quoted"] = true
		n = qIdent(n)
	}
	return s.Alias + "." + n
}

func c16ColsOfType(srcs []c16Src, types ...string) (out []struct {
	s c16Src
	c qCol
}) {
	for _, s := range srcs {
		for _, c := range s.Cols {
			for _, ty := range types {
				if c.Type == ty {
					out = append(out, struct {
						s c16Src
						c qCol
					}{s, c})
				}
			}
		}
	}
	return
}

// plainCols drops columns whose names need quoting when the text must stay quote-free.
func (g *c16Gen) plainCols(cs []struct {
	s c16Src
	c qCol
}) []struct {
	s c16Src
	c qCol
} {
	if !g.plain {
		return cs
	}
	out := cs[:0:0]
	for _, x := range cs {
		if !c16NeedsQuote(x.c.Name) {
			out = append(out, x)
		}
	}
	return out
}

// c16PlainOK: no quote characters and none of the FROM-keyword functions.
func c16PlainOK(e string) bool {
	l := strings.ToLower(e)
	return !strings.ContainsAny(e, "'\"") && !strings.Contains(l, "extract") && !strings.Contains(l, "substring") && !strings.Contains(l, "trim(")
}

func (g *c16Gen) pickCol(srcs []c16Src, types ...string) (string, qCol, bool) {
	cs := g.plainCols(c16ColsOfType(srcs, types...))
	if len(cs) == 0 {
		return "", qCol{}, false
	}
	p := cs[rapid.IntRange(0, len(cs)-1).Draw(g.t, "col")]
	return g.colRef(p.s, p.c), p.c, true
}

// scalar returns a row-wise expression and its type class.
func (g *c16Gen) scalar(srcs []c16Src) (string, string) {
	for i := 0; i < 6; i++ {
		e, ty := g.scalar0(srcs)
		if !g.plain || c16PlainOK(e) {
			return e, ty
		}
	}
	return "1", "BIGINT"
}

func (g *c16Gen) scalar0(srcs []c16Src) (string, string) {
	for tries := 0; tries < 4; tries++ {
		switch rapid.IntRange(0, 13).Draw(g.t, "scalar") {
		case 0, 1, 2:
			cs := g.plainCols(c16ColsOfType(srcs, "BIGINT", "DOUBLE", "DOUBLE_INEXACT", "VARCHAR", "BOOLEAN", "TIMESTAMPTZ"))
			if len(cs) == 0 {
				continue
			}
			p := cs[rapid.IntRange(0, len(cs)-1).Draw(g.t, "anycol")]
			return g.colRef(p.s, p.c), p.c.Type
		case 3:
			if r, _, ok := g.pickCol(srcs, "BIGINT"); ok {
				return r + " + " + fmt.Sprint(rapid.IntRange(1, 9).Draw(g.t, "k")), "BIGINT"
			}
		case 4:
			if r, _, ok := g.pickCol(srcs, "DOUBLE"); ok {
				return r + " * 2", "DOUBLE"
			}
		case 5:
			if r, _, ok := g.pickCol(srcs, "VARCHAR"); ok {
				return "upper(" + r + ")", "VARCHAR"
			}
		case 6:
			if r, _, ok := g.pickCol(srcs, "TIMESTAMPTZ"); ok {
				g.feat["extract"] = true
				unit := rapid.SampledFrom([]string{"YEAR", "month", "day", "HOUR", "minute", "dow"}).Draw(g.t, "unit")
				sp := rapid.SampledFrom([]string{" ", "  ", " "}).Draw(g.t, "exsp")
				return g.caseKW("EXTRACT") + "(" + unit + sp + g.caseKW("FROM") + sp + r + ")", "BIGINT"
			}
		case 7:
			if r, _, ok := g.pickCol(srcs, "VARCHAR"); ok {
				g.feat["extract"] = true
				if rapid.Bool().Draw(g.t, "subfor") {
					return g.caseKW("SUBSTRING") + "(" + r + " " + g.caseKW("FROM") + " 1 " + g.caseKW("FOR") + " 2)", "VARCHAR"
				}
				return g.caseKW("SUBSTRING") + "(" + r + " " + g.caseKW("FROM") + " 2)", "VARCHAR"
			}
		case 8:
			if r, _, ok := g.pickCol(srcs, "VARCHAR"); ok {
				g.feat["extract"] = true
				return g.caseKW("TRIM") + "(" + g.caseKW("BOTH") + " 'h' " + g.caseKW("FROM") + " " + r + ")", "VARCHAR"
			}
		case 12, 13:
			// FROM-keyword builtins nested in one another, the OUTER FROM after
			// the inner call and followed by an identifier
			if r, _, ok := g.pickCol(srcs, "VARCHAR"); ok {
				g.feat["extract"] = true
				g.feat["nested-from-builtin"] = true
				F, FOR := g.caseKW("FROM"), g.caseKW("FOR")
				switch rapid.IntRange(0, 2).Draw(g.t, "nested") {
				case 0:
					return g.caseKW("TRIM") + "(" + g.caseKW("LEADING") + " " + g.caseKW("SUBSTRING") + "(" + r + " " + F + " 1 " + FOR + " 1) " + F + " " + r + ")", "VARCHAR"
				case 1:
					if n, _, ok2 := g.pickCol(srcs, "BIGINT"); ok2 {
						return g.caseKW("SUBSTRING") + "(" + g.caseKW("TRIM") + "(" + g.caseKW("BOTH") + " 'h' " + F + " " + r + ") " + F + " " + n + " " + FOR + " 3)", "VARCHAR"
					}
					return g.caseKW("TRIM") + "(" + g.caseKW("BOTH") + " " + g.caseKW("TRIM") + "(" + g.caseKW("TRAILING") + " '1' " + F + " " + r + ") " + F + " " + r + ")", "VARCHAR"
				default:
					if tc, _, ok2 := g.pickCol(srcs, "TIMESTAMPTZ"); ok2 {
						return g.caseKW("SUBSTRING") + "(" + r + " " + F + " 1 " + FOR + " " + g.caseKW("EXTRACT") + "(day " + F + " " + tc + ")) || " + g.caseKW("TRIM") + "(" + g.caseKW("LEADING") + " " + g.caseKW("SUBSTRING") + "(" + r + " " + F + " 1 " + FOR + " 1) " + F + " " + r + ")", "VARCHAR"
					}
				}
			}
		case 9:
			if r, _, ok := g.pickCol(srcs, "VARCHAR"); ok {
				return "coalesce(" + r + ", 'none FROM x')", "VARCHAR"
			}
		case 10:
			if r, _, ok := g.pickCol(srcs, "BIGINT", "DOUBLE"); ok {
				return g.caseKW("CASE WHEN ") + r + " > 2 " + g.caseKW("THEN") + " 'hi' " + g.caseKW("ELSE") + " 'lo' " + g.caseKW("END"), "VARCHAR"
			}
		default:
			if rapid.IntRange(0, 3).Draw(g.t, "numlit") == 0 {
				return "42", "BIGINT"
			}
			return rapid.SampledFrom([]string{"'lit FROM mem'", "'it''s'", "'JOIN x ON'"}).Draw(g.t, "lit"), "VARCHAR"
		}
	}
	return "1", "BIGINT"
}

func (g *c16Gen) aggregate(srcs []c16Src) (string, string) {
	for tries := 0; tries < 4; tries++ {
		switch rapid.IntRange(0, 7).Draw(g.t, "agg") {
		case 0, 1:
			return "count(*)", "BIGINT"
		case 2:
			if r, _, ok := g.pickCol(srcs, "BIGINT", "DOUBLE", "VARCHAR", "BOOLEAN"); ok {
				return "count(" + r + ")", "BIGINT"
			}
		case 3:
			if r, _, ok := g.pickCol(srcs, "BIGINT"); ok {
				return "sum(" + r + ")", "BIGINT"
			}
		case 4:
			if r, _, ok := g.pickCol(srcs, "DOUBLE", "BIGINT"); ok {
				// an average is not a multiple of 0.25: summing such values again
				// would depend on the summation order in the last bit, so the
				// result type is kept apart from DOUBLE and only compared/counted
				return "avg(" + r + ")", "DOUBLE_INEXACT"
			}
		case 5:
			if r, c, ok := g.pickCol(srcs, "BIGINT", "DOUBLE", "DOUBLE_INEXACT", "VARCHAR", "TIMESTAMPTZ"); ok {
				return rapid.SampledFrom([]string{"min", "max"}).Draw(g.t, "minmax") + "(" + r + ")", c.Type
			}
		case 6:
			if r, _, ok := g.pickCol(srcs, "VARCHAR"); ok {
				return "count(DISTINCT " + r + ")", "BIGINT"
			}
		default:
			if r, _, ok := g.pickCol(srcs, "DOUBLE"); ok {
				return "sum(" + r + ")", "DOUBLE"
			}
		}
	}
	return "count(*)", "BIGINT"
}

// pred returns a predicate over non-time-literal comparisons.
func (g *c16Gen) pred(srcs []c16Src) string {
	for i := 0; i < 6; i++ {
		e := g.pred0(srcs)
		if !g.plain || c16PlainOK(e) {
			return e
		}
	}
	return "1 = 1"
}

func (g *c16Gen) pred0(srcs []c16Src) string {
	for tries := 0; tries < 5; tries++ {
		switch rapid.IntRange(0, 12).Draw(g.t, "pred") {
		case 11, 12:
			// a value that exists in two whitespace spellings (see c16Siblings)
			for _, sc := range srcs {
				if c16HasCol(sc, "host") {
					return sc.Alias + ".host = " + rapid.SampledFrom([]string{"'rack 1'", "'rack  1'"}).Draw(g.t, "rack")
				}
			}
		case 0, 1:
			if r, _, ok := g.pickCol(srcs, "VARCHAR"); ok {
				v := rapid.SampledFrom([]string{"h1", "h2", "H4", "it's", "eu", "FROM mem", "a -- b", "x /* y */ z", "JOIN prod.cpu", "rack 1", "rack 1", "rack  1"}).Draw(g.t, "sv")
				op := rapid.SampledFrom([]string{"=", "<>", ">="}).Draw(g.t, "sop")
				return r + " " + op + " " + c16SQLStr(v)
			}
		case 2:
			if r, _, ok := g.pickCol(srcs, "VARCHAR"); ok {
				return r + " " + g.caseKW("IN") + " ('h1', 'h3', 'us')"
			}
		case 3:
			if r, _, ok := g.pickCol(srcs, "BIGINT", "DOUBLE"); ok {
				op := rapid.SampledFrom([]string{">", "<=", "=", "<>"}).Draw(g.t, "nop")
				return r + " " + op + " " + fmt.Sprint(rapid.IntRange(-2, 20).Draw(g.t, "nv"))
			}
		case 4:
			if r, _, ok := g.pickCol(srcs, "BIGINT", "DOUBLE"); ok {
				return r + " " + g.caseKW("BETWEEN") + " 1 " + g.caseKW("AND") + " 30"
			}
		case 5:
			if r, _, ok := g.pickCol(srcs, "BOOLEAN"); ok {
				if rapid.Bool().Draw(g.t, "notb") {
					return g.caseKW("NOT") + " " + r
				}
				return r
			}
		case 6:
			if r, _, ok := g.pickCol(srcs, "VARCHAR", "BIGINT", "DOUBLE", "BOOLEAN"); ok {
				if rapid.Bool().Draw(g.t, "isnot") {
					return r + " " + g.caseKW("IS NOT NULL")
				}
				return r + " " + g.caseKW("IS NULL")
			}
		case 7:
			if r, _, ok := g.pickCol(srcs, "TIMESTAMPTZ"); ok {
				g.feat["extract"] = true
				return g.caseKW("EXTRACT") + "(hour " + g.caseKW("FROM") + " " + r + ") >= " + fmt.Sprint(rapid.IntRange(0, 23).Draw(g.t, "hr"))
			}
		case 8:
			if r, _, ok := g.pickCol(srcs, "BIGINT", "DOUBLE"); ok {
				// IS [NOT] DISTINCT FROM <literal> is fine; FROM <identifier> is a known finding
				if r2, _, ok2 := g.pickCol(srcs, "BIGINT", "DOUBLE"); ok2 && !verifkit.Excluded(c16FDistinct) {
					g.feat["distinct-from-ident"] = true
					return r + " " + g.caseKW("IS DISTINCT FROM") + " " + r2
				}
				if verifkit.Excluded(c16FDistinct) {
					verifkit.CountExcluded(c16FDistinct)
				}
				return r + " " + g.caseKW("IS NOT DISTINCT FROM") + " 3"
			}
		default:
			if r, _, ok := g.pickCol(srcs, "BIGINT"); ok {
				return "(" + r + " % 2 = 0 " + g.caseKW("OR") + " " + r + " " + g.caseKW("IS NULL") + ")"
			}
		}
	}
	return "1 = 1"
}

var c16JoinKinds = []string{
	"JOIN", "INNER JOIN", "LEFT JOIN", "LEFT OUTER JOIN", "RIGHT JOIN", "RIGHT OUTER JOIN",
	"FULL JOIN", "FULL OUTER JOIN", "CROSS JOIN", "NATURAL JOIN", "NATURAL LEFT JOIN",
	"SEMI JOIN", "ANTI JOIN", "ASOF JOIN", "ASOF LEFT JOIN", "POSITIONAL JOIN",
	"LEFT JOIN LATERAL", "CROSS JOIN LATERAL", "JOIN LATERAL", "INNER JOIN LATERAL",
}

type c16From struct {
	srcs      []c16Src // sources visible to projection / WHERE
	countOnly bool     // result depends on row order unless reduced to count(*)
	asof      *[2]c16Src
}

// source emits one FROM item: a measurement, a CTE in scope, or a subquery.
func (g *c16Gen) source(depth int) c16Src {
	k := rapid.IntRange(0, 9).Draw(g.t, "srckind")
	if (k < 2 || (depth == 0 && k < 6)) && len(g.ctes) > 0 { // the main SELECT mostly reads its CTEs
		c := g.ctes[rapid.IntRange(0, len(g.ctes)-1).Draw(g.t, "ctepick")]
		g.raw(c.Alias)
		a := g.newAlias()
		g.raw(a)
		return c16Src{Alias: a, Cols: c.Cols}
	}
	if k == 2 && depth < 2 {
		g.feat["subquery"] = true
		g.punct("(")
		cols := g.selectStmt(depth+1, false)
		g.punct(")")
		a := g.newAlias()
		if rapid.Bool().Draw(g.t, "subas") {
			g.kw("AS")
		}
		g.raw(a)
		return c16Src{Alias: a, Cols: cols}
	}
	return g.tableSource(nil)
}

func c16HasCol(s c16Src, name string) bool {
	for _, c := range s.Cols {
		if c.Name == name {
			return true
		}
	}
	return false
}

func (g *c16Gen) fromClause(depth int) c16From {
	g.kw("FROM")
	left := g.source(depth)
	out := c16From{srcs: []c16Src{left}}
	if depth >= 2 || rapid.IntRange(0, 9).Draw(g.t, "join") >= 4 {
		return out
	}
	g.feat["join"] = true
	kind := rapid.SampledFrom(c16JoinKinds).Draw(g.t, "joinkind")
	verifkit.Class("join:" + kind)
	lateral := strings.HasSuffix(kind, "LATERAL")
	if (strings.HasPrefix(kind, "ASOF") || strings.HasPrefix(kind, "NATURAL")) && (!c16HasCol(left, "host") || !c16HasCol(left, "time")) {
		kind = "LEFT JOIN"
	}
	if lateral && !c16HasCol(left, "host") {
		kind, lateral = "LEFT JOIN", false
	}
	g.kw(kind)
	if lateral {
		g.feat["subquery"] = true
		g.punct("(")
		g.kw("SELECT")
		inner := c16Src{}
		// SELECT agg AS mx FROM <meas> tN WHERE tN.host = left.host
		g.raw("count(*)")
		g.kw("AS")
		g.raw("lc")
		g.punct(",")
		g.raw("max(1)")
		g.kw("AS")
		g.raw("lm")
		g.kw("FROM")
		inner = g.tableSource(nil)
		g.kw("WHERE")
		g.raw(inner.Alias + ".host = " + left.Alias + ".host")
		g.punct(")")
		a := g.newAlias()
		g.raw(a)
		if !strings.HasPrefix(kind, "CROSS") {
			g.kw("ON")
			g.raw("true")
		}
		out.srcs = append(out.srcs, c16Src{Alias: a, Cols: []qCol{{"lc", "BIGINT"}, {"lm", "BIGINT"}}})
		return out
	}
	var right c16Src
	if strings.HasPrefix(kind, "ASOF") || strings.HasPrefix(kind, "NATURAL") || strings.HasPrefix(kind, "POSITIONAL") {
		right = g.tableSource(nil)
	} else {
		right = g.source(depth)
	}
	switch {
	case strings.HasPrefix(kind, "CROSS"):
		out.srcs = append(out.srcs, right)
	case strings.HasPrefix(kind, "POSITIONAL"):
		out.srcs = append(out.srcs, right)
		out.countOnly = true
	case strings.HasPrefix(kind, "NATURAL"):
		out.srcs = append(out.srcs, right)
	case strings.HasPrefix(kind, "ASOF"):
		g.kw("ON")
		g.raw(left.Alias + ".host = " + right.Alias + ".host")
		g.kw("AND")
		g.raw(left.Alias + ".time >= " + right.Alias + ".time")
		out.asof = &[2]c16Src{left, right}
	default:
		lk, lok := "", false
		rk, rok := "", false
		for _, c := range left.Cols {
			if c.Type == "VARCHAR" {
				lk, lok = c.Name, true
				break
			}
		}
		for _, c := range right.Cols {
			if c.Type == "VARCHAR" {
				rk, rok = c.Name, true
				break
			}
		}
		if lok && rok && lk == rk && !c16NeedsQuote(lk) && rapid.IntRange(0, 4).Draw(g.t, "using") == 0 &&
			!strings.HasPrefix(kind, "SEMI") && !strings.HasPrefix(kind, "ANTI") {
			g.kw("USING")
			g.punct("(")
			g.raw(lk)
			g.punct(")")
		} else if lok && rok {
			g.kw("ON")
			g.raw(left.Alias + "." + qIdentIfNeeded(lk) + " = " + right.Alias + "." + qIdentIfNeeded(rk))
		} else {
			g.kw("ON")
			g.raw("1 = 1")
		}
		if strings.HasPrefix(kind, "SEMI") || strings.HasPrefix(kind, "ANTI") {
			// right side is not visible
		} else {
			out.srcs = append(out.srcs, right)
		}
	}
	return out
}

func qIdentIfNeeded(n string) string {
	if c16NeedsQuote(n) {
		return qIdent(n)
	}
	return n
}

func (g *c16Gen) outName() string {
	g.nOut++
	if rapid.IntRange(0, 4).Draw(g.t, "fromalias") == 0 {
		// an identifier that merely ends in "from" (valid_from, peak_from)
		g.feat["alias-ending-in-from"] = true
		return fmt.Sprintf("x%d_from", g.nOut)
	}
	return fmt.Sprintf("x%d", g.nOut)
}

// selectStmt emits SELECT ... FROM ... [WHERE] [GROUP BY] and returns the
// output columns. At top level it may append ORDER BY (all columns) + LIMIT and
// reports that through g.feat["ordered"].
func (g *c16Gen) selectStmt(depth int, top bool) []qCol {
	g.kw("SELECT")
	if rapid.IntRange(0, 9).Draw(g.t, "distinct") == 0 {
		g.kw("DISTINCT")
	}
	// The projection is written before FROM but needs the sources: generate
	// the FROM clause into a side buffer first.
	mark := len(g.toks)
	fr := g.fromClause(depth)
	fromToks := append([]c16Tok(nil), g.toks[mark:]...)
	g.toks = g.toks[:mark]

	var out []qCol
	groupBy := []string{}
	style := rapid.IntRange(0, 9).Draw(g.t, "projstyle")
	switch {
	case fr.countOnly:
		g.raw("count(*)")
		g.kw("AS")
		n := g.outName()
		g.raw(n)
		out = []qCol{{n, "BIGINT"}}
	case fr.asof != nil:
		l, r := fr.asof[0], fr.asof[1]
		g.raw(l.Alias + ".id")
		g.kw("AS")
		n1 := g.outName()
		g.raw(n1)
		g.punct(",")
		g.raw(r.Alias + ".time")
		g.kw("AS")
		n2 := g.outName()
		g.raw(n2)
		out = []qCol{{n1, "BIGINT"}, {n2, "TIMESTAMPTZ"}}
	case style == 0 && depth == 0:
		g.feat["star"] = true
		g.raw("*")
		for _, s := range fr.srcs {
			out = append(out, s.Cols...)
		}
	case style <= 3:
		// aggregate with optional GROUP BY
		ng := rapid.IntRange(0, 2).Draw(g.t, "ngroup")
		first := true
		for i := 0; i < ng; i++ {
			r, c, ok := g.pickCol(fr.srcs, "VARCHAR", "BOOLEAN", "BIGINT")
			if !ok {
				break
			}
			dup := false
			for _, gb := range groupBy {
				if gb == r {
					dup = true
				}
			}
			if dup {
				continue
			}
			if !first {
				g.punct(",")
			}
			first = false
			g.raw(r)
			g.kw("AS")
			n := g.outName()
			g.raw(n)
			out = append(out, qCol{n, c.Type})
			groupBy = append(groupBy, r)
		}
		na := rapid.IntRange(1, 3).Draw(g.t, "nagg")
		for i := 0; i < na; i++ {
			if !first {
				g.punct(",")
			}
			first = false
			e, ty := g.aggregate(fr.srcs)
			g.raw(e)
			g.kw("AS")
			n := g.outName()
			g.raw(n)
			out = append(out, qCol{n, ty})
		}
	default:
		np := rapid.IntRange(1, 4).Draw(g.t, "nproj")
		for i := 0; i < np; i++ {
			if i > 0 {
				g.punct(",")
			}
			e, ty := g.scalar(fr.srcs)
			g.raw(e)
			if rapid.Bool().Draw(g.t, "projas") {
				g.kw("AS")
			}
			n := g.outName()
			if !g.plain && rapid.IntRange(0, 6).Draw(g.t, "qalias") == 0 {
				g.feat["quoted"] = true
				n = "X " + n
				g.raw(qIdent(n))
			} else {
				g.raw(n)
			}
			out = append(out, qCol{n, ty})
		}
		if depth < 2 && rapid.IntRange(0, 7).Draw(g.t, "scalarsub") == 0 && c16HasCol(fr.srcs[0], "host") {
			g.feat["subquery"] = true
			g.punct(",")
			g.punct("(")
			g.kw("SELECT")
			g.raw("count(*)")
			g.kw("FROM")
			in := g.tableSource(nil)
			g.kw("WHERE")
			g.raw(in.Alias + ".host = " + fr.srcs[0].Alias + ".host")
			g.punct(")")
			g.kw("AS")
			n := g.outName()
			g.raw(n)
			out = append(out, qCol{n, "BIGINT"})
		}
	}
	g.toks = append(g.toks, fromToks...)

	// WHERE
	// POSITIONAL JOIN pairs rows by physical position, which SQL does not define
	// for a multi-file scan: only the bare count(*) (= max of the two row counts)
	// is independent of the pairing, so no WHERE at all on that shape.
	if !fr.countOnly && (fr.asof == nil || rapid.Bool().Draw(g.t, "asofwhere")) {
		np := rapid.IntRange(0, 2).Draw(g.t, "npred")
		sub := depth < 2 && rapid.IntRange(0, 5).Draw(g.t, "wheresub") == 0
		if np > 0 || sub {
			g.kw("WHERE")
			for i := 0; i < np; i++ {
				if i > 0 {
					g.kw(rapid.SampledFrom([]string{"AND", "OR"}).Draw(g.t, "conj"))
				}
				g.raw(g.pred(fr.srcs))
			}
			if sub {
				if np > 0 {
					g.kw("AND")
				}
				g.whereSubquery(fr.srcs, depth)
			}
		}
	}
	if len(groupBy) > 0 {
		g.kw("GROUP BY")
		for i, gb := range groupBy {
			if i > 0 {
				g.punct(",")
			}
			g.raw(gb)
		}
	}
	if top && !g.feat["star"] {
		if rapid.IntRange(0, 2).Draw(g.t, "order") == 0 {
			g.kw("ORDER BY")
			for i := range out {
				if i > 0 {
					g.punct(",")
				}
				g.raw(fmt.Sprint(i + 1))
				switch rapid.IntRange(0, 3).Draw(g.t, "dir") {
				case 0:
					g.kw("DESC")
				case 1:
					g.kw("ASC NULLS FIRST")
				}
			}
			g.feat["ordered"] = true
			if rapid.Bool().Draw(g.t, "limit") {
				g.kw("LIMIT")
				g.raw(fmt.Sprint(rapid.IntRange(1, 6).Draw(g.t, "lim")))
				if rapid.IntRange(0, 3).Draw(g.t, "offset") == 0 {
					g.kw("OFFSET")
					g.raw("1")
				}
			}
		}
	}
	return out
}

func (g *c16Gen) whereSubquery(srcs []c16Src, depth int) {
	g.feat["subquery"] = true
	outer := srcs[0]
	switch k := rapid.IntRange(0, 2).Draw(g.t, "wsub"); {
	case k == 0 && c16HasCol(outer, "host"):
		g.raw(outer.Alias + ".host")
		if rapid.Bool().Draw(g.t, "notin") {
			g.kw("NOT")
		}
		g.kw("IN")
		g.punct("(")
		g.kw("SELECT")
		mark := len(g.toks)
		g.kw("FROM")
		in := g.tableSource(nil)
		fromToks := append([]c16Tok(nil), g.toks[mark:]...)
		g.toks = g.toks[:mark]
		g.raw(in.Alias + ".host")
		g.toks = append(g.toks, fromToks...)
		if rapid.Bool().Draw(g.t, "insubwhere") {
			g.kw("WHERE")
			g.raw(g.pred([]c16Src{in}))
		}
		g.punct(")")
	case k == 1 && c16HasCol(outer, "host"):
		if rapid.Bool().Draw(g.t, "notexists") {
			g.kw("NOT")
		}
		g.kw("EXISTS")
		g.punct("(")
		g.kw("SELECT")
		g.raw("1")
		g.kw("FROM")
		in := g.tableSource(nil)
		g.kw("WHERE")
		g.raw(in.Alias + ".host = " + outer.Alias + ".host")
		if rapid.Bool().Draw(g.t, "existsand") {
			g.kw("AND")
			g.raw(g.pred([]c16Src{in}))
		}
		g.punct(")")
	default:
		g.raw(outer.Alias + "." + qIdentIfNeeded(outer.Cols[0].Name))
		g.kw("IS NOT NULL AND")
		g.punct("(")
		g.kw("SELECT")
		g.raw("count(*)")
		g.kw("FROM")
		g.tableSource(nil)
		g.punct(")")
		g.raw("> 0")
	}
}

var c16CteNames = []string{"c", "recent", "Agg_1", "my-cte", "joined"}

// statement emits the whole statement: optional WITH list + main select.
func (g *c16Gen) statement() {
	ncte := 0
	if rapid.IntRange(0, 19).Draw(g.t, "usecte") < 7 {
		ncte = rapid.IntRange(1, 2).Draw(g.t, "ncte")
	}
	recursive := rapid.IntRange(0, 7).Draw(g.t, "recursive") == 0
	if recursive && ncte == 0 {
		ncte = 1
	}
	if ncte > 0 {
		g.feat["cte"] = true
		if recursive {
			g.feat["with-recursive"] = true
			g.kw("WITH RECURSIVE")
		} else {
			g.kw("WITH")
		}
		for i := 0; i < ncte; i++ {
			if i > 0 {
				g.punct(",")
			}
			// name: plain pool or a measurement name
			var name string
			if rapid.IntRange(0, 2).Draw(g.t, "ctemeasname") == 0 {
				name = rapid.SampledFrom(g.d.Names).Draw(g.t, "ctemeas")
				g.feat["cte-named-like-measurement"] = true
			} else {
				name = rapid.SampledFrom(c16CteNames).Draw(g.t, "ctename")
			}
			if g.cteNames[strings.ToLower(name)] {
				name = fmt.Sprintf("c_%d", i)
			}
			if g.unqual[name] && verifkit.Excluded(c16FCteShadow) {
				verifkit.CountExcluded(c16FCteShadow)
				name = fmt.Sprintf("c_%d", i)
			}
			if g.plain && c16NeedsQuote(name) {
				name = fmt.Sprintf("c_%d", i)
			}
			written := g.ident(name)
			g.cteNames[strings.ToLower(name)] = true
			g.raw(written)
			mark := len(g.toks)
			g.kw("AS")
			g.toks[len(g.toks)-1].kind = tkCTEAS
			if rapid.IntRange(0, 7).Draw(g.t, "materialized") == 0 {
				if verifkit.Excluded(c16FMaterialize) {
					verifkit.CountExcluded(c16FMaterialize)
				} else {
					g.feat["materialized"] = true
					g.kw(rapid.SampledFrom([]string{"MATERIALIZED", "NOT MATERIALIZED"}).Draw(g.t, "matkind"))
				}
			}
			g.punct("(")
			cols := g.selectStmt(1, false)
			g.punct(")")
			if rapid.IntRange(0, 5).Draw(g.t, "ctecols") == 0 {
				// WITH name(a, b) AS (...): insert the column list before AS
				rest := append([]c16Tok(nil), g.toks[mark:]...)
				g.toks = g.toks[:mark]
				g.punct("(")
				for j := range cols {
					if j > 0 {
						g.punct(",")
					}
					cols[j].Name = fmt.Sprintf("k%d_%d", i, j)
					g.raw(cols[j].Name)
				}
				g.punct(")")
				g.toks = append(g.toks, rest...)
			}
			g.ctes = append(g.ctes, c16Src{Alias: written, Cols: cols})
		}
		if recursive {
			// the self-referencing member comes AFTER ordinary ones
			name := rapid.SampledFrom([]string{"steps", "Seq_1", "rsteps"}).Draw(g.t, "recname")
			if g.cteNames[strings.ToLower(name)] {
				name = "steps_r"
			}
			g.cteNames[strings.ToLower(name)] = true
			g.punct(",")
			g.raw(name)
			g.kw("AS")
			g.toks[len(g.toks)-1].kind = tkCTEAS
			g.punct("(")
			g.kw("SELECT")
			g.raw("1")
			g.kw("AS")
			g.raw("n")
			g.kw("UNION ALL SELECT")
			g.raw("n + 1")
			g.kw("FROM")
			g.raw(name)
			g.kw("WHERE")
			g.raw("n < " + fmt.Sprint(rapid.IntRange(2, 4).Draw(g.t, "recdepth")))
			g.punct(")")
			g.ctes = append(g.ctes, c16Src{Alias: name, Cols: []qCol{{"n", "BIGINT"}}})
		}
	}
	g.selectStmt(0, true)
	if rapid.IntRange(0, 9).Draw(g.t, "semicolon") == 0 {
		g.punct(";")
	}
}

type c16Query struct {
	SQL     string          `json:"sql"`
	Hdr     string          `json:"header"`
	Ordered bool            `json:"ordered"`
	Unqual  bool            `json:"unqualified_only"`
	Feat    map[string]bool `json:"features"`
}

func c16GenQuery(t *rapid.T, d *c16Data) c16Query {
	hdr := ""
	switch rapid.IntRange(0, 3).Draw(t, "hdrmode") {
	case 0:
		hdr = d.DBs[1]
	case 1:
		hdr = "default"
	}
	g := &c16Gen{t: t, d: d, hdr: hdr, kwStyle: rapid.IntRange(0, 3).Draw(t, "kwstyle"),
		unqual: map[string]bool{}, cteNames: map[string]bool{}, feat: map[string]bool{}}
	// a quarter of the texts stay free of quotes, comments and FROM-keyword
	// functions: only those are eligible for the header single-table fast path
	g.plain = rapid.IntRange(0, 3).Draw(t, "plain") == 0
	if g.plain {
		g.feat["plain-text"] = true
	}
	g.statement()
	// the CTE-shadow exclusion must hold for references emitted AFTER a CTE
	// name was chosen as well as before; tableSource/statement handle both
	// orders, this is the final check.
	if verifkit.Excluded(c16FCteShadow) {
		for n := range g.unqual {
			if g.cteNames[strings.ToLower(n)] {
				// regenerate deterministically without CTE-named measurements
				return c16GenQuerySafe(t, d, hdr)
			}
		}
	} else {
		for n := range g.unqual {
			if g.cteNames[strings.ToLower(n)] {
				g.feat["cte-shadows-referenced-measurement"] = true
			}
		}
	}
	sql := g.render()
	return c16Query{SQL: sql, Hdr: hdr, Ordered: g.feat["ordered"], Unqual: !g.qualUsed, Feat: g.feat}
}

// c16GenQuerySafe is the fallback when a generated text would contain the
// CTE-shadow known-finding shape: a simple join query without CTEs.
func c16GenQuerySafe(t *rapid.T, d *c16Data, hdr string) c16Query {
	verifkit.CountExcluded(c16FCteShadow)
	g := &c16Gen{t: t, d: d, hdr: hdr, kwStyle: rapid.IntRange(0, 3).Draw(t, "kwstyle2"),
		unqual: map[string]bool{}, cteNames: map[string]bool{}, feat: map[string]bool{}}
	g.selectStmt(0, true)
	sql := g.render()
	return c16Query{SQL: sql, Hdr: hdr, Ordered: g.feat["ordered"], Unqual: !g.qualUsed, Feat: g.feat}
}

// ---------------------------------------------------------------- execution

func c16Schema(hdr string) string {
	if hdr == "default" {
		return "default"
	}
	return hdr
}

// c16Check runs one query text under one header and compares with the
// reference. Returns a failure description or "".
func c16Check(e *qEnv, q c16Query, hdr string, label string) (string, string) {
	return c16CheckRef(e, q, hdr, label, e.refQuery(q.SQL, c16Schema(hdr)))
}

func c16CheckRef(e *qEnv, q c16Query, hdr string, label string, ref qResult) (string, string) {
	if strings.HasPrefix(ref.Err, "HARNESS") {
		return "harness", ref.Err
	}
	arc := e.arcQuery(q.SQL, hdr)
	if arc.Status == -1 {
		return "harness", arc.Err
	}
	if arc.Status == 400 {
		// rejected before execution: not an accepted query
		verifkit.Class("rejected-400")
		verifkit.Class("rejected-400:" + qShort(arc.Err))
		return "", ""
	}
	switch {
	case !arc.OK && !ref.OK:
		verifkit.Class("both-fail")
		verifkit.Class("both-fail:" + qShort(ref.Err))
		if os.Getenv("C16_DEBUG") != "" {
			fmt.Printf("BOTHFAIL hdr=%q sql=%q\n   ref=%q\n   arc=%q\n", hdr, q.SQL, ref.Err, arc.Err)
		}
		return "", ""
	case !arc.OK && ref.OK:
		return "arc-fails-" + label, fmt.Sprintf("arc status=%d err=%q; reference returned %d rows", arc.Status, arc.Err, len(ref.Rows))
	case arc.OK && !ref.OK:
		// A sibling whose comment swallowed a table name puts whatever word
		// comes next into table position: an alias (`FROM t1`) or a keyword
		// (`FROM AS t1`, `FROM INNER JOIN x`). Arc takes any word there for a
		// measurement name and answers a measurement without files with an
		// empty success (no columns) by design, where DuckDB reports an unknown
		// table or a syntax error. That is not a stored measurement, so it is
		// outside the property; tolerated only for these derived texts and only
		// for the column-less "no files" answer (a cached answer of the original
		// statement always carries its columns).
		if strings.HasPrefix(label, "pair-comment-nl") && len(arc.Rows) == 0 && len(arc.Cols) == 0 {
			verifkit.Class("pair:comment-nl:non-measurement-word-in-table-position")
			return "", ""
		}
		return "reference-fails-" + label, fmt.Sprintf("arc returned %d rows; reference err=%q", len(arc.Rows), ref.Err)
	}
	if d := qCompare(ref, arc, q.Ordered); d != "" {
		return "rows-differ-" + label, d
	}
	if len(ref.Rows) > 0 {
		verifkit.Class("nonempty-result")
	}
	return "", ""
}

func c16NonTrivial(q c16Query) bool {
	f := q.Feat
	return f["join"] || f["cte"] || f["subquery"] || f["nl-after-from-join"] || f["quoted"]
}

func c16RunQuery(t *rapid.T, e *qEnv, d *c16Data, q c16Query) {
	verifkit.Eval()
	for k, v := range q.Feat {
		if v {
			verifkit.Class("feat:" + k)
		}
	}
	if q.Hdr == "" {
		verifkit.Class("mode:no-header")
	} else {
		verifkit.Class("mode:header")
	}
	if c16NonTrivial(q) {
		verifkit.NonTrivial(q.Hdr + "\x00" + q.SQL)
		if verifkit.SampleCount() < 4 {
			verifkit.Sample(q)
		}
	}
	fail := func(class, detail, hdr string) {
		t.Fatalf("VERIF-FAIL class=C16/%s\nheader: %q\nsql: %q\n%s", class, hdr, q.SQL, detail)
	}
	e.h.InvalidateCaches()
	ref := e.refQuery(q.SQL, c16Schema(q.Hdr))
	if c, dt := c16CheckRef(e, q, q.Hdr, "cold-cache", ref); c != "" {
		fail(c, dt, q.Hdr)
	}
	if c, dt := c16CheckRef(e, q, q.Hdr, "warm-cache", ref); c != "" {
		fail(c, dt, q.Hdr)
	}
	if q.Unqual {
		// same text under another header, transform cache NOT cleared
		others := []string{"", "default", d.DBs[1]}
		o := others[rapid.IntRange(0, len(others)-1).Draw(t, "otherhdr")]
		if o != q.Hdr {
			verifkit.Eval()
			verifkit.Class("header-switch")
			if c, dt := c16Check(e, q, o, "after-header-switch"); c != "" {
				fail(c, dt, o)
			}
		}
	}
}

// c16Siblings derives statements that differ from sql ONLY in whitespace at a
// place where whitespace is significant:
//   - "literal-ws": one blank inside a string literal is doubled
//     ('rack 1' -> 'rack  1'; the data holds both spellings);
//   - "comment-nl": the newline that ends a `--` comment becomes a blank, so the
//     comment swallows the rest of that line.
//
// Two such statements are different queries; anything that identifies them
// (e.g. a whitespace-insensitive transform-cache key) answers one with the
// other's rows. Comments generated here never contain quotes, so every ' in
// the text delimits a literal.
func c16Siblings(sql string) map[string]string {
	out := map[string]string{}
	in := false
	for i := 0; i < len(sql); i++ {
		if sql[i] == '\'' {
			in = !in
			continue
		}
		if in && sql[i] == ' ' {
			out["literal-ws"] = sql[:i] + " " + sql[i:]
			break
		}
	}
	if !strings.Contains(strings.ToLower(sql), "limit") { // LIMIT without its ORDER BY is not deterministic
		in = false
		for i := 0; i+1 < len(sql); i++ {
			if sql[i] == '\'' {
				in = !in
			}
			if in || sql[i] != '-' || sql[i+1] != '-' {
				continue
			}
			nl := strings.IndexByte(sql[i:], '\n')
			if nl < 0 {
				break
			}
			nl += i
			rest := sql[nl+1:]
			if e := strings.IndexByte(rest, '\n'); e >= 0 {
				rest = rest[:e]
			}
			// the swallowed text must not put a quote into the comment (C15's
			// quote-in-comment shape) and must be more than blanks
			if !strings.ContainsAny(rest, "'\"$") && strings.TrimSpace(rest) != "" && (nl == 0 || sql[nl-1] != '\r') && !c16AfterFromJoin(sql[:i]) {
				out["comment-nl"] = sql[:nl] + " " + sql[nl+1:]
				break
			}
			i = nl
		}
	}
	return out
}

// c16AfterFromJoin: the text ends (ignoring blanks and comments) in FROM or
// JOIN, i.e. a comment starting here stands between the keyword and its table.
// Swallowing the table name would put the NEXT word (an alias, AS, INNER ...)
// into table position, where arc takes any word for a measurement name - not a
// query over stored measurements, so such siblings are not derived.
func c16AfterFromJoin(prev string) bool {
	prev = strings.TrimRight(prev, " \t\r\n")
	for {
		if strings.HasSuffix(prev, "*/") {
			if j := strings.LastIndex(prev, "/*"); j >= 0 {
				prev = strings.TrimRight(prev[:j], " \t\r\n")
				continue
			}
		}
		ls := strings.LastIndexByte(prev, '\n')
		if k := c16LineCommentStart(prev[ls+1:]); k >= 0 {
			prev = strings.TrimRight(prev[:ls+1+k], " \t\r\n")
			continue
		}
		break
	}
	low := strings.ToLower(prev)
	return strings.HasSuffix(low, "from") || strings.HasSuffix(low, "join") || strings.HasSuffix(low, "lateral")
}

// c16LineCommentStart: offset of the first `--` of the line that is outside a
// string literal (generated literals never span lines), or -1.
func c16LineCommentStart(line string) int {
	in := false
	for i := 0; i+1 < len(line); i++ {
		if line[i] == '\'' {
			in = !in
		}
		if !in && line[i] == '-' && line[i+1] == '-' {
			return i
		}
	}
	return -1
}

// c16RunPairs runs q and each whitespace sibling back to back on the same
// handler without clearing the transform cache, in both orders, each compared
// with its own reference answer.
func c16RunPairs(t *rapid.T, e *qEnv, q c16Query) {
	sibs := c16Siblings(q.SQL)
	for _, kind := range []string{"literal-ws", "comment-nl"} {
		sib, ok := sibs[kind]
		if !ok {
			continue
		}
		sq := q
		sq.SQL = sib
		if kind == "comment-nl" {
			sq.Ordered = false // the ORDER BY may have been swallowed
		}
		refQ := e.refQuery(q.SQL, c16Schema(q.Hdr))
		refS := e.refQuery(sq.SQL, c16Schema(q.Hdr))
		verifkit.Eval()
		verifkit.Class("pair:" + kind)
		if refQ.OK && refS.OK && qCompare(refQ, refS, false) != "" {
			verifkit.Class("pair:" + kind + ":answers-differ")
			verifkit.NonTrivial("pair\x00" + q.Hdr + "\x00" + q.SQL + "\x00" + sib)
		}
		steps := []struct {
			q   c16Query
			ref qResult
			lab string
		}{{q, refQ, "first"}, {sq, refS, "sibling-after-original"}}
		for order := 0; order < 2; order++ {
			e.h.InvalidateCaches()
			for _, st := range steps {
				if c, dt := c16CheckRef(e, st.q, q.Hdr, "pair-"+kind+"-"+st.lab, st.ref); c != "" {
					t.Fatalf("VERIF-FAIL class=C16/%s\nheader: %q\nsequence on one handler, transform cache not cleared in between:\n  1: %q\n  2: %q\nfailing statement: %q\n%s",
						c, q.Hdr, steps[0].q.SQL, steps[1].q.SQL, st.q.SQL, dt)
				}
			}
			steps[0], steps[1] = steps[1], steps[0]
			steps[0].lab, steps[1].lab = "first", "original-after-sibling"
		}
	}
}

func TestVerifC16_Queries(t *testing.T) {
	perData := verifkit.Scale(24, 60)
	var tEnv, tData, tQ time.Duration
	defer func() {
		verifkit.Note("timing_ms", map[string]int64{"env": tEnv.Milliseconds(), "dataset": tData.Milliseconds(), "queries": tQ.Milliseconds()})
	}()
	rapid.Check(t, func(t *rapid.T) {
		t0 := time.Now()
		e, err := qNewEnv()
		if err != nil {
			t.Fatalf("HARNESS env: %v", err)
		}
		defer e.Close()
		t1 := time.Now()
		d := c16GenData(t)
		if err := d.install(e); err != nil {
			t.Fatalf("HARNESS dataset: %v", err)
		}
		t2 := time.Now()
		verifkit.Class("datasets")
		for i := 0; i < perData; i++ {
			q := c16GenQuery(t, d)
			c16RunQuery(t, e, d, q)
			c16RunPairs(t, e, q)
		}
		tEnv += t1.Sub(t0)
		tData += t2.Sub(t1)
		tQ += time.Since(t2)
	})
}

// ---------------------------------------------------------------- known findings

func c16KFEnv(t *testing.T) *qEnv {
	e, err := qNewEnv()
	if err != nil {
		t.Fatalf("HARNESS env: %v", err)
	}
	t.Cleanup(e.Close)
	cols := []qCol{{"time", "TIMESTAMPTZ"}, {"host", "VARCHAR"}, {"v", "BIGINT"}}
	mk := func(db, m string, us int64, host string, v int) {
		ts := timeOfUs(us)
		f := qFile{Rel: fmt.Sprintf("%s/%s/%s/%s_%d.parquet", db, m, ts.Format("2006/01/02/15"), m, v), Cols: cols,
			Rows: [][]string{{qTSLit(us), c16SQLStr(host), fmt.Sprint(v)}}}
		if err := e.writeFile(f); err != nil {
			t.Fatalf("HARNESS write: %v", err)
		}
	}
	const t0 = int64(1710496800) * 1000000 // 2024-03-15 10:00:00 UTC
	mk("default", "cpu", t0, "a", 1)
	mk("default", "cpu", t0+3600*1000000, "b", 2)
	mk("default", "mem", t0, "a", 10)
	mk("prod", "cpu", t0, "a", 20)
	mk("prod", "mem", t0, "a", 21)
	for _, db := range []string{"default", "prod"} {
		for _, m := range []string{"cpu", "mem"} {
			var rels []string
			for _, p := range duckFind(e.root, db+"/"+m) {
				rels = append(rels, p)
			}
			if err := e.defineView(db, m, rels); err != nil {
				t.Fatalf("HARNESS view: %v", err)
			}
			if db == "default" {
				_ = e.defineView("", m, rels)
			}
		}
	}
	return e
}

// c16KF reports whether arc and the reference disagree on the query.
func c16KF(e *qEnv, sql, hdr string) (bool, string) {
	e.h.InvalidateCaches()
	c, d := c16Check(e, c16Query{SQL: sql, Hdr: hdr}, hdr, "kf")
	return c != "" && c != "harness", c + ": " + d
}

func TestVerifKF_C16_cte_shadows_measurement(t *testing.T) {
	e := c16KFEnv(t)
	rep, what := c16KF(e, "WITH cpu AS (SELECT * FROM cpu WHERE v > 1) SELECT host, v FROM cpu", "")
	ctl, _ := c16KF(e, "WITH c AS (SELECT * FROM cpu WHERE v > 1) SELECT host, v FROM c", "")
	verifkit.KnownFinding(c16FCteShadow, rep && !ctl, what)
}

func TestVerifKF_C16_fastpath_whitespace(t *testing.T) {
	e := c16KFEnv(t)
	rep, what := c16KF(e, "SELECT a.host, b.v FROM cpu a\nJOIN mem b ON a.host = b.host", "prod")
	ctl, _ := c16KF(e, "SELECT a.host, b.v FROM cpu a JOIN mem b ON a.host = b.host", "prod")
	verifkit.KnownFinding(c16FFastPathWS, rep && !ctl, what)
}

func TestVerifKF_C16_header_with_whitespace(t *testing.T) {
	e := c16KFEnv(t)
	rep, what := c16KF(e, "WITH\nc AS (SELECT host, v FROM cpu) SELECT * FROM c", "prod")
	ctl, _ := c16KF(e, "WITH c AS (SELECT host, v FROM cpu) SELECT * FROM c", "prod")
	verifkit.KnownFinding(c16FHeaderWith, rep && !ctl, what)
}

func TestVerifKF_C16_cte_header_syntax(t *testing.T) {
	e := c16KFEnv(t)
	rep, what := c16KF(e, "WITH c AS MATERIALIZED (SELECT host, v FROM cpu) SELECT * FROM c", "")
	rep2, what2 := c16KF(e, "WITH c(a, b)AS(SELECT host, v FROM cpu) SELECT * FROM c", "")
	ctl, _ := c16KF(e, "WITH c AS (SELECT host, v FROM cpu) SELECT * FROM c", "")
	verifkit.KnownFinding(c16FMaterialize, rep && rep2 && !ctl, what+" || "+what2)
}

func TestVerifKF_C16_call_lookahead_newline(t *testing.T) {
	e := c16KFEnv(t)
	rep, what := c16KF(e, "SELECT a.host, s.n FROM cpu a JOIN LATERAL\n(SELECT count(*) AS n FROM mem b WHERE b.host = a.host) s ON true", "")
	ctl, _ := c16KF(e, "SELECT a.host, s.n FROM cpu a JOIN LATERAL (SELECT count(*) AS n FROM mem b WHERE b.host = a.host) s ON true", "")
	verifkit.KnownFinding(c16FCallNewline, rep && !ctl, what)
}

func TestVerifKF_C16_is_distinct_from(t *testing.T) {
	e := c16KFEnv(t)
	rep, what := c16KF(e, "SELECT a.host FROM cpu a JOIN mem b ON a.host = b.host WHERE a.v IS DISTINCT FROM b.v", "")
	ctl, _ := c16KF(e, "SELECT a.host FROM cpu a JOIN mem b ON a.host = b.host WHERE a.v <> b.v", "")
	verifkit.KnownFinding(c16FDistinct, rep && !ctl, what)
}
