//go:build verif

package api

// C14 fixture: real QueryHandler + sandboxed database.New + recording RBAC
// checker + canary databases + inotify file-access recorder.

import (
	"bytes"
	"database/sql"
	"encoding/binary"
	"encoding/json"
	"fmt"
	"io"
	"net/http"
	"net/http/httptest"
	"net/url"
	"os"
	"path/filepath"
	"regexp"
	"sort"
	"strings"
	"sync"
	"syscall"
	"testing"
	"unsafe"

	"github.com/Basekick-Labs/msgpack/v6"
	"github.com/apache/arrow-go/v18/arrow/ipc"
	"github.com/basekick-labs/arc/internal/auth"
	"github.com/basekick-labs/arc/internal/database"
	"github.com/basekick-labs/arc/internal/metrics"
	"github.com/basekick-labs/arc/internal/storage"
	"github.com/basekick-labs/arc/internal/verifkit"
	"github.com/basekick-labs/arc/internal/verifkit/duck"
	"github.com/gofiber/fiber/v2"
	"github.com/rs/zerolog"
)

// ---------------------------------------------------------------- datasets

type c14Table struct {
	DB, M    string
	Rows     int    // distinctive row count for canaries
	Allowed  bool   // caller may read it
	SentStr  string // prefix of sentinel string values
	SentNum  int64  // base of sentinel numbers (Rows consecutive values)
	SentCol  string // sentinel column name (schema leak detector)
	FileName string
}

// The caller's grant: db1.* except db1.vault.
var c14Tables = []c14Table{
	{DB: "db1", M: "cpu", Rows: 24, Allowed: true, FileName: "a.parquet"},
	{DB: "db1", M: "mem", Rows: 36, Allowed: true, FileName: "b.parquet"},
	{DB: "db1", M: "vault", Rows: 10007, SentStr: "ZQSENTdb1vault", SentNum: 7110000000, SentCol: "zqcol_db1_vault", FileName: "v.parquet"},
	{DB: "db2", M: "canary", Rows: 10037, SentStr: "ZQSENTdb2canary", SentNum: 7220000000, SentCol: "zqcol_db2_canary", FileName: "c.parquet"},
	{DB: "db2", M: "secrets", Rows: 10061, SentStr: "ZQSENTdb2secrets", SentNum: 7230000000, SentCol: "zqcol_db2_secrets", FileName: "s.parquet"},
	{DB: "db3", M: "ledger", Rows: 10079, SentStr: "ZQSENTdb3ledger", SentNum: 7330000000, SentCol: "zqcol_db3_ledger", FileName: "l.parquet"},
	{DB: "default", M: "cpu", Rows: 10091, SentStr: "ZQSENTdefaultcpu", SentNum: 7440000000, SentCol: "zqcol_default_cpu", FileName: "d.parquet"},
	{DB: "db2", M: "cpu", Rows: 10111, SentStr: "ZQSENTdb2cpu", SentNum: 7260000000, SentCol: "zqcol_db2_cpu", FileName: "k.parquet"},
	{DB: "db-4", M: "net-io", Rows: 10103, SentStr: "ZQSENTdb4netio", SentNum: 7550000000, SentCol: "zqcol_db4_netio", FileName: "n.parquet"},
}

const c14Partition = "2024/01/01/00"

// Principals: token 7 (default) is granted db1.* except db1.vault; token 8 is
// granted db2.* only. Everything else is denied.
const (
	c14TokenDB1 = 7
	c14TokenDB2 = 8
)

func c14Allowed(token int64, db, m string) bool {
	switch token {
	case c14TokenDB2:
		return db == "db2"
	default:
		return db == "db1" && m != "vault"
	}
}

// ---------------------------------------------------------------- recorder

type c14Check struct {
	DB, M, Perm string
	Allowed     bool
}

type c14Recorder struct {
	mu     sync.Mutex
	checks []c14Check
}

func (r *c14Recorder) IsRBACEnabled() bool { return true }

func (r *c14Recorder) CheckPermission(req *auth.PermissionCheckRequest) *auth.PermissionCheckResult {
	var token int64 = c14TokenDB1
	if req.TokenInfo != nil {
		token = req.TokenInfo.ID
	}
	ok := req.Permission == "read" && c14Allowed(token, req.Database, req.Measurement)
	r.mu.Lock()
	r.checks = append(r.checks, c14Check{req.Database, req.Measurement, req.Permission, ok})
	r.mu.Unlock()
	if ok {
		return &auth.PermissionCheckResult{Allowed: true, Source: "rbac"}
	}
	return &auth.PermissionCheckResult{Allowed: false, Source: "rbac", Reason: "verif: not granted"}
}

func (r *c14Recorder) CheckPermissionsBatch(reqs []*auth.PermissionCheckRequest) []*auth.PermissionCheckResult {
	out := make([]*auth.PermissionCheckResult, len(reqs))
	for i, q := range reqs {
		out[i] = r.CheckPermission(q)
	}
	return out
}

func (r *c14Recorder) take() []c14Check {
	r.mu.Lock()
	defer r.mu.Unlock()
	out := r.checks
	r.checks = nil
	return out
}

// ---------------------------------------------------------------- file-access recorder
//
// Primary mechanism: fanotify (FAN_OPEN|FAN_ACCESS marks on every directory of
// the storage root, children included). Each event carries the PID of the
// process that touched the object, and only events of THIS process (arc's Go
// code and the DuckDB threads it hosts) are attributed to a request. That makes
// the request window independent of anything else on the machine: a recursive
// grep/du/backup over the scratch area by another process used to show up as
// "the request touched the whole tree". Fallback when fanotify is unavailable
// (no CAP_SYS_ADMIN): inotify on the same directories, without attribution.

type c14Watch struct {
	fd   int
	fan  bool
	root string
	pid  int32
	dirs map[int32]string // inotify only: wd -> path relative to the storage root ("" = root)
}

const (
	c14FanClassNotif     = 0x0
	c14FanCloexec        = 0x1
	c14FanNonblock       = 0x2
	c14FanUnlimitedQueue = 0x10
	c14FanMarkAdd        = 0x1
	c14FanAccess         = 0x1
	c14FanOpen           = 0x20
	c14FanQOverflow      = 0x4000
	c14FanOnDir          = 0x40000000
	c14FanEventOnChild   = 0x08000000
)

func c14WalkDirs(root string, fn func(abs, rel string) error) error {
	return filepath.Walk(root, func(p string, info os.FileInfo, err error) error {
		if err != nil {
			return err
		}
		if !info.IsDir() {
			return nil
		}
		rel, _ := filepath.Rel(root, p)
		if rel == "." {
			rel = ""
		}
		return fn(p, filepath.ToSlash(rel))
	})
}

func c14NewWatch(root string) (*c14Watch, error) {
	if os.Getenv("VERIF_C14_INOTIFY") == "" {
		fd, _, e := syscall.Syscall(syscall.SYS_FANOTIFY_INIT, c14FanClassNotif|c14FanCloexec|c14FanNonblock|c14FanUnlimitedQueue, uintptr(os.O_RDONLY|syscall.O_LARGEFILE), 0)
		if e == 0 {
			w := &c14Watch{fd: int(fd), fan: true, root: root, pid: int32(os.Getpid())}
			atFdCwd := int64(-100)
			err := c14WalkDirs(root, func(abs, rel string) error {
				p, err := syscall.BytePtrFromString(abs)
				if err != nil {
					return err
				}
				_, _, e := syscall.Syscall6(syscall.SYS_FANOTIFY_MARK, fd, c14FanMarkAdd, c14FanOpen|c14FanAccess|c14FanOnDir|c14FanEventOnChild, uintptr(atFdCwd), uintptr(unsafe.Pointer(p)), 0)
				if e != 0 {
					return fmt.Errorf("fanotify_mark %s: %v", abs, e)
				}
				return nil
			})
			if err == nil {
				w.drain() // the marking walk itself opened every directory
				return w, nil
			}
			syscall.Close(int(fd))
		}
	}
	fd, err := syscall.InotifyInit1(syscall.IN_NONBLOCK | syscall.IN_CLOEXEC)
	if err != nil {
		return nil, fmt.Errorf("inotify_init1: %w", err)
	}
	w := &c14Watch{fd: fd, root: root, dirs: map[int32]string{}}
	err = c14WalkDirs(root, func(abs, rel string) error {
		wd, err := syscall.InotifyAddWatch(fd, abs, syscall.IN_OPEN|syscall.IN_ACCESS)
		if err != nil {
			return fmt.Errorf("inotify_add_watch %s: %w", abs, err)
		}
		w.dirs[int32(wd)] = rel
		return nil
	})
	if err != nil {
		syscall.Close(fd)
		return nil, err
	}
	w.drain()
	return w, nil
}

func (w *c14Watch) close() { syscall.Close(w.fd) }

// drain returns the set of root-relative paths opened or read BY THIS PROCESS
// since the last drain ("" = the root directory itself). overflow reports a
// lost-event marker. Events on one notification fd are queued in the syscall
// that causes them, so after a response has been read completely every access
// the request made is already in the queue.
func (w *c14Watch) drain() (paths map[string]bool, overflow bool) {
	paths = map[string]bool{}
	buf := make([]byte, 256*1024)
	for {
		n, err := syscall.Read(w.fd, buf)
		if n <= 0 || err != nil {
			return paths, overflow
		}
		if w.fan {
			const metaLen = 24
			for off := 0; off+metaLen <= n; {
				evLen := int(*(*uint32)(unsafe.Pointer(&buf[off])))
				mask := *(*uint64)(unsafe.Pointer(&buf[off+8]))
				efd := *(*int32)(unsafe.Pointer(&buf[off+16]))
				pid := *(*int32)(unsafe.Pointer(&buf[off+20]))
				if evLen < metaLen {
					break
				}
				off += evLen
				if mask&c14FanQOverflow != 0 {
					overflow = true
				}
				if efd < 0 {
					continue
				}
				link, lerr := os.Readlink(fmt.Sprintf("/proc/self/fd/%d", efd))
				syscall.Close(int(efd))
				if lerr != nil || pid != w.pid {
					continue // somebody else's access (or unresolvable): not ours to judge
				}
				link = strings.TrimSuffix(link, " (deleted)")
				if link == w.root {
					paths[""] = true
				} else if rel, ok := strings.CutPrefix(link, w.root+"/"); ok {
					paths[rel] = true
				}
			}
			continue
		}
		off := 0
		for off+syscall.SizeofInotifyEvent <= n {
			ev := (*syscall.InotifyEvent)(unsafe.Pointer(&buf[off]))
			nameLen := int(ev.Len)
			name := ""
			if nameLen > 0 {
				raw := buf[off+syscall.SizeofInotifyEvent : off+syscall.SizeofInotifyEvent+nameLen]
				name = string(bytes.TrimRight(raw, "\x00"))
			}
			off += syscall.SizeofInotifyEvent + nameLen
			if ev.Mask&syscall.IN_Q_OVERFLOW != 0 {
				overflow = true
				continue
			}
			dir, ok := w.dirs[ev.Wd]
			if !ok {
				continue
			}
			p := dir
			if name != "" {
				if p == "" {
					p = name
				} else {
					p = p + "/" + name
				}
			}
			paths[p] = true
		}
	}
}

var _ = binary.LittleEndian

// ---------------------------------------------------------------- env

type c14Env struct {
	root string // storage root (absolute, symlink-free)
	arc  *database.DuckDB
	app  *fiber.App
	h    *QueryHandler
	rec  *c14Recorder
	w    *c14Watch
	tfns []c14TableFn // DuckDB table functions taking a path-like first argument
}

type c14TableFn struct {
	Name   string
	Listed bool // present in arc's ioTableFunctionPattern
}

func c14NewEnv(t testing.TB) *c14Env {
	t.Helper()
	base, err := os.MkdirTemp("", "c14-*")
	if err != nil {
		t.Fatalf("HARNESS tempdir: %v", err)
	}
	base, _ = filepath.EvalSymlinks(base)
	root := filepath.Join(base, "data")
	logger := zerolog.New(io.Discard).Level(zerolog.Disabled)
	if os.Getenv("VERIF_C14_DEBUG") != "" {
		logger = zerolog.New(os.Stderr).Level(zerolog.DebugLevel)
	}
	metrics.Init(logger)

	// plant the datasets with a plain (unsandboxed) DuckDB
	ref, err := duck.Open()
	if err != nil {
		t.Fatalf("HARNESS duckdb: %v", err)
	}
	for _, tb := range c14Tables {
		dir := filepath.Join(root, tb.DB, tb.M, filepath.FromSlash(c14Partition))
		if err := os.MkdirAll(dir, 0o755); err != nil {
			t.Fatalf("HARNESS mkdir: %v", err)
		}
		if err := c14WriteTable(ref, tb, filepath.Join(dir, tb.FileName)); err != nil {
			t.Fatalf("HARNESS write %s.%s: %v", tb.DB, tb.M, err)
		}
	}
	// table functions whose first parameter is a string / list of strings
	var tfns []c14TableFn
	if _, rows, err := duck.QueryStrings(ref, `SELECT DISTINCT function_name FROM duckdb_functions()
		WHERE function_type IN ('table', 'table_macro') AND len(parameter_types) >= 1
		  AND parameter_types[1] IN ('VARCHAR', 'VARCHAR[]', 'ANY') ORDER BY 1`); err == nil {
		for _, r := range rows {
			tfns = append(tfns, c14TableFn{Name: r[0], Listed: ioTableFunctionPattern.MatchString(r[0] + "(")})
		}
	}
	ref.Close()

	backend, err := storage.NewLocalBackend(root, logger)
	if err != nil {
		t.Fatalf("HARNESS backend: %v", err)
	}
	// production sandbox: allowed_directories = storage root (+ spill dir), external access off
	arc, err := database.New(&database.Config{MemoryLimit: "1GB", ThreadCount: 2, MaxConnections: 4,
		LocalStorageRoot: root, TempDirectory: filepath.Join(base, "spill")}, logger)
	if err != nil {
		t.Fatalf("HARNESS database.New: %v", err)
	}
	rec := &c14Recorder{}
	h := NewQueryHandler(arc, backend, logger, 0, 0)
	h.SetAuthAndRBAC(nil, rec)
	app := fiber.New(fiber.Config{DisableStartupMessage: true})
	app.Use(func(c *fiber.Ctx) error {
		if c.Get("x-verif-token") == "8" {
			c.Locals("token_info", &auth.TokenInfo{ID: c14TokenDB2, Name: "verif-db2-only", Enabled: true})
		} else {
			c.Locals("token_info", &auth.TokenInfo{ID: c14TokenDB1, Name: "verif-db1-only", Enabled: true})
		}
		return c.Next()
	})
	h.RegisterRoutes(app)
	w, err := c14NewWatch(root)
	if err != nil {
		t.Fatalf("HARNESS file-access recorder: %v", err)
	}
	if w.fan {
		verifkit.Note("file_access_recorder", "fanotify, events attributed by PID (own process only)")
	} else {
		verifkit.Note("file_access_recorder", "inotify fallback (no PID attribution)")
	}
	e := &c14Env{root: root, arc: arc, app: app, h: h, rec: rec, w: w, tfns: tfns}
	t.Cleanup(func() {
		_ = app.Shutdown()
		w.close()
		arc.Close()
		os.RemoveAll(base)
	})
	return e
}

func c14WriteTable(ref *sql.DB, tb c14Table, file string) error {
	var q string
	if tb.Allowed {
		q = fmt.Sprintf(`COPY (SELECT TIMESTAMP '2024-01-01 00:00:00' + INTERVAL (i) SECOND AS time,
			'host' || CAST(i %% 4 AS VARCHAR) AS host, CAST(i AS DOUBLE) / 4 AS v, 'ok_%s_%s_' || CAST(i AS VARCHAR) AS tag
			FROM range(%d) t(i)) TO %s (FORMAT PARQUET)`, tb.DB, tb.M, tb.Rows, duck.SQLString(file))
	} else {
		q = fmt.Sprintf(`COPY (SELECT TIMESTAMP '2024-01-01 00:00:00' + INTERVAL (i) SECOND AS time,
			'%s_h' || CAST(i %% 4 AS VARCHAR) AS host, CAST(%d + i AS BIGINT) AS v, '%s_' || CAST(i AS VARCHAR) AS tag,
			CAST(i %% 7 AS INTEGER) AS %s
			FROM range(%d) t(i)) TO %s (FORMAT PARQUET)`, tb.SentStr, tb.SentNum, tb.SentStr, tb.SentCol, tb.Rows, duck.SQLString(file))
	}
	_, err := ref.Exec(q)
	return err
}

// ---------------------------------------------------------------- requests

type c14Req struct {
	Token    int               `json:"token,omitempty"` // 0/7 = db1-only principal, 8 = db2-only principal
	Endpoint string            `json:"endpoint"`        // json | msgpack | arrow | estimate | measurements | measurement
	SQL      string            `json:"sql,omitempty"`
	Header   string            `json:"x_arc_database,omitempty"`
	Params   map[string]string `json:"params,omitempty"` // GET endpoints
	Meas     string            `json:"measurement,omitempty"`
}

type c14Result struct {
	Status  int
	Body    []byte
	Flat    string // body flattened to text (decoded msgpack / Arrow values) for sentinel scanning
	Success bool   // 2xx and (where the envelope has one) success == true
	Checks  []c14Check
	Paths   []string // root-relative paths opened/read while the request ran
	Err     error
}

func (e *c14Env) do(r c14Req) c14Result {
	e.rec.take()
	e.w.drain()
	var path, method string
	var body []byte
	method = "POST"
	switch r.Endpoint {
	case "json":
		path = "/api/v1/query"
	case "msgpack":
		path = "/api/v1/query/msgpack"
	case "arrow":
		path = "/api/v1/query/arrow"
	case "estimate":
		path = "/api/v1/query/estimate"
	case "measurements":
		method, path = "GET", "/api/v1/measurements"
	case "measurement":
		method, path = "GET", "/api/v1/query/"+url.PathEscape(r.Meas)
	}
	if method == "POST" {
		body, _ = json.Marshal(QueryRequest{SQL: r.SQL})
	} else if len(r.Params) > 0 {
		q := url.Values{}
		for k, v := range r.Params {
			q.Set(k, v)
		}
		path += "?" + q.Encode()
	}
	out := c14Result{}
	tries := 3 // a transport-level failure of fiber's in-memory test connection is re-requested
	if r.Endpoint == "arrow" {
		tries = 6 // open finding C19-arrow-trailer-header-race: broken framing is re-requested
	}
	for a := 0; a < tries; a++ {
		req := httptest.NewRequest(method, path, bytes.NewReader(body))
		if method == "POST" {
			req.Header.Set("Content-Type", "application/json")
		}
		if r.Header != "" {
			req.Header.Set("x-arc-database", r.Header)
		}
		if r.Token == c14TokenDB2 {
			req.Header.Set("x-verif-token", "8")
		}
		resp, err := c14SafeTest(e.app, req)
		if err != nil {
			out.Err = err
			continue
		}
		raw, rerr := io.ReadAll(resp.Body)
		resp.Body.Close()
		out.Status, out.Body, out.Err = resp.StatusCode, raw, rerr
		if rerr == nil && (r.Endpoint != "arrow" || resp.StatusCode/100 != 2 || c14IPCReadable(raw)) {
			break
		}
	}
	out.Checks = e.rec.take()
	paths, overflow := e.w.drain()
	if overflow {
		out.Err = fmt.Errorf("inotify queue overflow")
	}
	for p := range paths {
		out.Paths = append(out.Paths, p)
	}
	sort.Strings(out.Paths)
	out.Flat, out.Success = c14Flatten(r.Endpoint, out.Status, out.Body)
	return out
}

// c14SafeTest runs app.Test and converts a panic inside fiber's test transport
// (seen under heavy load: nil dereference in app.Test's error handling) into an
// ordinary transport error, so it is retried instead of aborting the run.
func c14SafeTest(app *fiber.App, req *http.Request) (resp *http.Response, err error) {
	defer func() {
		if r := recover(); r != nil {
			resp, err = nil, fmt.Errorf("panic in fiber test transport: %v", r)
		}
	}()
	return app.Test(req, -1)
}

func c14IPCReadable(body []byte) bool {
	rdr, err := ipc.NewReader(bytes.NewReader(body))
	if err != nil {
		return false
	}
	defer rdr.Release()
	for rdr.Next() {
	}
	return rdr.Err() == nil
}

// c14Flatten renders a response body as text in which every returned value
// appears in its decimal / string form, and reports envelope-level success.
func c14Flatten(endpoint string, status int, body []byte) (string, bool) {
	ok2xx := status/100 == 2
	switch endpoint {
	case "msgpack":
		var v any
		if err := msgpack.Unmarshal(body, &v); err != nil {
			return string(body), ok2xx
		}
		succ := ok2xx
		if m, isMap := v.(map[string]any); isMap {
			if b, has := m["success"].(bool); has {
				succ = succ && b
			}
		}
		return fmt.Sprintf("%v", v) + "\n" + string(body), succ
	case "arrow":
		if ok2xx {
			rdr, err := ipc.NewReader(bytes.NewReader(body))
			if err != nil {
				return string(body), ok2xx
			}
			defer rdr.Release()
			var sb strings.Builder
			sb.WriteString(rdr.Schema().String())
			for rdr.Next() {
				rec := rdr.Record()
				for j := 0; j < int(rec.NumCols()); j++ {
					col := rec.Column(j)
					for i := 0; i < col.Len(); i++ {
						sb.WriteString(col.ValueStr(i))
						sb.WriteByte(' ')
					}
					sb.WriteByte('\n')
				}
			}
			return sb.String(), true
		}
		return string(body), false
	default:
		succ := ok2xx
		var env struct {
			Success *bool `json:"success"`
		}
		if json.Unmarshal(body, &env) == nil && env.Success != nil {
			succ = succ && *env.Success
		}
		return string(body), succ
	}
}

// ---------------------------------------------------------------- oracle

func c14BuildSentinelRe(token int64) *regexp.Regexp {
	var alts []string
	for _, tb := range c14Tables {
		if tb.Allowed || c14Allowed(token, tb.DB, tb.M) {
			continue
		}
		alts = append(alts, regexp.QuoteMeta(tb.SentStr), regexp.QuoteMeta(tb.SentCol),
			// sentinel numbers: base .. base+Rows (10 digits, fixed 5-digit prefix)
			fmt.Sprintf(`\b%d[01]\d{4}\b`, tb.SentNum/100000),
			fmt.Sprintf(`\b%d\b`, tb.Rows))
	}
	return regexp.MustCompile(strings.Join(alts, "|"))
}

// sentinels each principal must never see
var c14SentinelRe = map[int64]*regexp.Regexp{
	c14TokenDB1: c14BuildSentinelRe(c14TokenDB1),
	c14TokenDB2: c14BuildSentinelRe(c14TokenDB2),
}

// c14Leak returns the first sentinel (value, column name or canary row count)
// found in the flattened body, ignoring occurrences that merely echo the
// request's own SQL (error messages quote the statement).
func c14Leak(res c14Result, r c14Req) string {
	flat := res.Flat
	for _, echo := range []string{r.SQL} {
		if echo != "" {
			flat = strings.ReplaceAll(flat, echo, "")
			if b, err := json.Marshal(echo); err == nil && len(b) > 2 {
				flat = strings.ReplaceAll(flat, string(b[1:len(b)-1]), "")
			}
		}
	}
	token := int64(c14TokenDB1)
	if r.Token == c14TokenDB2 {
		token = c14TokenDB2
	}
	return c14SentinelRe[token].FindString(flat)
}

// c14Unauthorized lists the touched paths that do not belong to a
// (database, measurement) the recorder saw checked AND allowed in this request.
func c14Unauthorized(res c14Result) []string {
	allowDB := map[string]bool{}
	allowM := map[string]bool{}
	for _, c := range res.Checks {
		if !c.Allowed {
			continue
		}
		allowDB[c.DB] = true
		allowM[c.DB+"/"+c.M] = true
	}
	var bad []string
	for _, p := range res.Paths {
		if p == "" {
			continue // the storage root itself: database names only
		}
		parts := strings.Split(p, "/")
		db := parts[0]
		if len(parts) == 1 {
			if !allowDB[db] {
				bad = append(bad, p)
			}
			continue
		}
		if !(allowM[db+"/"+parts[1]] || allowM[db+"/*"]) {
			bad = append(bad, p)
		}
	}
	return bad
}
