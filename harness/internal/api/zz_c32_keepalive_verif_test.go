//go:build verif

package api

// C32 (second part of the same binary) - request strings must not outlive the
// request: consecutive requests over ONE real keep-alive connection.
//
// fasthttp parses every request of a connection into the same reused header /
// query storage, and fiber's c.Get / c.Query return strings aliasing it. The
// size-triggered flush keeps the database (and measurement) of a request in a
// queued flush task and builds the storage path from it later, on a worker.
// Here the fiber app is served on an in-memory listener, one net.Conn carries
// a whole scenario, the single flush worker is held inside storage.Write by a
// gate so that the scenario's flush tasks stay queued while the following
// requests (naming other databases) are parsed, then the gate is opened.
// Oracle (same as the surfaces part): every stored file's <db>/<measurement>/
// is the database its own request named and a pair whose write check was
// allowed in that request. Each request of a scenario uses its own measurement
// name, so a stored file identifies the request it came from.

import (
	"bufio"
	"bytes"
	"context"
	"fmt"
	"io"
	"net"
	"net/http"
	"net/url"
	"os"
	"path/filepath"
	"strings"
	"sync"
	"testing"
	"time"

	"github.com/basekick-labs/arc/internal/auth"
	"github.com/basekick-labs/arc/internal/ingest"
	"github.com/basekick-labs/arc/internal/storage"
	"github.com/basekick-labs/arc/internal/verifkit"
	"github.com/gofiber/fiber/v2"
	"github.com/rs/zerolog"
	"github.com/valyala/fasthttp/fasthttputil"
	"pgregory.net/rapid"
)

// c32Gate wraps the real backend; while held, storage.Write blocks (the flush
// worker sits inside it). It records the order of Write calls.
type c32Gate struct {
	storage.Backend
	mu      sync.Mutex
	cond    *sync.Cond
	held    bool
	entered []string
	done    []string
}

func c32NewGate(b storage.Backend) *c32Gate {
	g := &c32Gate{Backend: b}
	g.cond = sync.NewCond(&g.mu)
	return g
}

func (g *c32Gate) Write(ctx context.Context, path string, data []byte) error {
	g.mu.Lock()
	g.entered = append(g.entered, path)
	g.cond.Broadcast()
	for g.held {
		g.cond.Wait()
	}
	g.mu.Unlock()
	err := g.Backend.Write(ctx, path, data)
	g.mu.Lock()
	g.done = append(g.done, path)
	g.cond.Broadcast()
	g.mu.Unlock()
	return err
}

func (g *c32Gate) hold(h bool) {
	g.mu.Lock()
	g.held = h
	g.cond.Broadcast()
	g.mu.Unlock()
}

func c32Count(list []string, marker string) int {
	n := 0
	for _, p := range list {
		if strings.Contains(p, marker) {
			n++
		}
	}
	return n
}

// wait blocks until more than `before` paths containing marker are in the
// entered (done=false) or completed (done=true) list. The 120 s limit is a
// liveness guard of the harness, not an oracle.
func (g *c32Gate) wait(marker string, done bool, before int) bool {
	timedOut := false
	tm := time.AfterFunc(120*time.Second, func() {
		g.mu.Lock()
		timedOut = true
		g.cond.Broadcast()
		g.mu.Unlock()
	})
	defer tm.Stop()
	g.mu.Lock()
	defer g.mu.Unlock()
	for {
		list := g.entered
		if done {
			list = g.done
		}
		if c32Count(list, marker) > before {
			return true
		}
		if timedOut {
			return false
		}
		g.cond.Wait()
	}
}

func (g *c32Gate) count(marker string, done bool) int {
	g.mu.Lock()
	defer g.mu.Unlock()
	if done {
		return c32Count(g.done, marker)
	}
	return c32Count(g.entered, marker)
}

type c32KAFixture struct {
	root string
	gate *c32Gate
	buf  *ingest.ArrowBuffer
	rec  *c32Recorder
	ln   *fasthttputil.InmemoryListener
	conn net.Conn
	br   *bufio.Reader
}

const c32KAMaxBuffer = 2 // rows per (database, measurement) buffer before a flush task is queued

func c32NewKAFixture(t testing.TB) *c32KAFixture {
	base, err := os.MkdirTemp("", "c32ka-")
	if err != nil {
		t.Fatalf("tempdir: %v", err)
	}
	fx := &c32KAFixture{root: filepath.Join(base, "store"), rec: &c32Recorder{}}
	be, err := storage.NewLocalBackend(fx.root, zerolog.Nop())
	if err != nil {
		t.Fatalf("backend: %v", err)
	}
	fx.gate = c32NewGate(be)
	cfg := c32IngestCfg()
	cfg.MaxBufferSize = c32KAMaxBuffer // size-triggered (queued, asynchronous) flushes
	cfg.FlushWorkers = 1              // one worker: later tasks wait behind the held one
	cfg.FlushQueueSize = 256
	fx.buf = ingest.NewArrowBuffer(cfg, fx.gate, zerolog.Nop())

	app := fiber.New(fiber.Config{BodyLimit: 64 << 20, DisableStartupMessage: true})
	app.Use(func(c *fiber.Ctx) error {
		c.Locals("token_info", &auth.TokenInfo{ID: 7, Name: "verif", Permissions: []string{"read", "write"}, Enabled: true})
		return c.Next()
	})
	mp := NewMsgPackHandler(zerolog.Nop(), fx.buf, 64<<20)
	mp.SetAuthAndRBAC(nil, fx.rec)
	mp.RegisterRoutes(app)
	lp := NewLineProtocolHandler(fx.buf, zerolog.Nop())
	lp.SetAuthAndRBAC(nil, fx.rec)
	lp.RegisterRoutes(app)
	fx.ln = fasthttputil.NewInmemoryListener()
	go func() { _ = app.Listener(fx.ln) }()
	t.Cleanup(func() {
		fx.gate.hold(false)
		if fx.conn != nil {
			_ = fx.conn.Close()
		}
		_ = app.Shutdown()
		_ = fx.ln.Close()
		_ = fx.buf.Close()
		_ = os.RemoveAll(base)
	})
	return fx
}

type c32KAReq struct {
	Surface string            `json:"surface"`
	Path    string            `json:"path"`
	Headers [][2]string       `json:"headers"`
	Query   map[string]string `json:"query"`
	Body    []byte            `json:"-"`
	BodyTxt string            `json:"body"`
	// ground truth
	Measurement string `json:"measurement"`
	ResolvedDB  string `json:"resolved_db"`
	Rows        int    `json:"rows"`
	// observed
	Status int      `json:"status"`
	OK     []string `json:"allowed_checks"`
}

// do sends one request over the scenario's connection and reads the response.
func (fx *c32KAFixture) do(r *c32KAReq) error {
	vals := url.Values{}
	for k, v := range r.Query {
		vals.Set(k, v)
	}
	target := r.Path
	if len(vals) > 0 {
		target += "?" + vals.Encode()
	}
	var b bytes.Buffer
	fmt.Fprintf(&b, "POST %s HTTP/1.1\r\nHost: verif\r\n", target)
	for _, h := range r.Headers {
		fmt.Fprintf(&b, "%s: %s\r\n", h[0], h[1])
	}
	fmt.Fprintf(&b, "Content-Type: application/octet-stream\r\nContent-Length: %d\r\n\r\n", len(r.Body))
	b.Write(r.Body)
	fx.rec.checks = nil
	if _, err := fx.conn.Write(b.Bytes()); err != nil {
		return err
	}
	resp, err := http.ReadResponse(fx.br, nil)
	if err != nil {
		return err
	}
	_, _ = io.Copy(io.Discard, resp.Body)
	_ = resp.Body.Close()
	r.Status = resp.StatusCode
	r.OK = nil
	for _, ck := range fx.rec.checks {
		if ck.Allowed && ck.Permission == "write" {
			r.OK = append(r.OK, ck.DB+"/"+ck.Measurement)
		}
	}
	return nil
}

func c32KALP(measurement string, rows int, tag string) string {
	var sb strings.Builder
	for i := 0; i < rows; i++ {
		fmt.Fprintf(&sb, "%s%s v=%di %d\n", measurement, tag, i+1, 1700000000000000000+int64(i))
	}
	return sb.String()
}

// fixed writes a plain allowed line-protocol request (warm-up / drain sentinel).
func (fx *c32KAFixture) fixed(db, measurement string) *c32KAReq {
	body := c32KALP(measurement, c32KAMaxBuffer, "")
	return &c32KAReq{Surface: "lp-simple", Path: "/api/v1/write/line-protocol", Headers: [][2]string{{"x-arc-database", db}},
		Body: []byte(body), BodyTxt: body, Measurement: measurement, ResolvedDB: db, Rows: c32KAMaxBuffer}
}

// drain opens the gate and pushes a sentinel flush task through the single
// FIFO worker: when the sentinel's file is written every earlier task is done.
func (fx *c32KAFixture) drain(t c32Failer, db string) {
	fx.gate.hold(false)
	before := fx.gate.count("/zend/", true)
	s := fx.fixed(db, "zend")
	if err := fx.do(s); err != nil || s.Status != 204 {
		t.Fatalf("HARNESS sentinel request failed: err=%v status=%d", err, s.Status)
	}
	if !fx.gate.wait("/zend/", true, before) {
		t.Fatalf("HARNESS flush worker did not drain (liveness guard)")
	}
	_ = fx.buf.FlushAll(context.Background())
}

func (fx *c32KAFixture) reconnect(t c32Failer) {
	if fx.conn != nil {
		_ = fx.conn.Close()
	}
	conn, err := fx.ln.Dial()
	if err != nil {
		t.Fatalf("HARNESS dial: %v", err)
	}
	fx.conn, fx.br = conn, bufio.NewReader(conn)
}

func c32KAGenReq(t *rapid.T, i int, allowedDB string, odb []string) *c32KAReq {
	r := &c32KAReq{Query: map[string]string{}}
	dbChoice := func(label string) string {
		switch c32Pick(t, label, "absent", "allowed", "allowed", "other") {
		case "allowed":
			return allowedDB
		case "other":
			return c32Pick(t, label+"v", odb...)
		}
		return ""
	}
	hdrDB, qDB, qBucket := dbChoice("hdrdb"), "", ""
	r.Measurement = fmt.Sprintf("m%d", i)
	if c32Chance(t, "denied-measurement", 12) {
		r.Measurement = fmt.Sprintf("x%d", i)
	}
	r.Rows = c32Pick(t, "rows", 1, 2, 2, 3, 5)
	if hdrDB != "" {
		r.Headers = append(r.Headers, [2]string{"x-arc-database", hdrDB})
	}
	first := func(vals ...string) string {
		for _, v := range vals {
			if v != "" {
				return v
			}
		}
		return ""
	}
	r.Surface = c32Pick(t, "kasurface", "lp-simple", "lp-v1", "lp-v2", "mp-columnar")
	tag := ""
	if c32Chance(t, "routingtag", 30) {
		tag = ",database=" + c32Pick(t, "tagdb", odb...)
	}
	switch r.Surface {
	case "lp-simple":
		r.Path, r.ResolvedDB = "/api/v1/write/line-protocol", first(hdrDB, "default")
	case "lp-v1":
		qDB = dbChoice("qdb")
		if qDB != "" {
			r.Query["db"] = qDB
		}
		r.Path, r.ResolvedDB = "/write", first(hdrDB, qDB, "default")
	case "lp-v2":
		qBucket = dbChoice("qbucket")
		if qBucket != "" {
			r.Query["bucket"] = qBucket
		}
		r.Path, r.ResolvedDB = "/api/v2/write", first(hdrDB, qBucket, "default")
	default:
		r.Path, r.ResolvedDB = "/api/v1/write/msgpack", first(hdrDB, "default")
	}
	if r.Surface == "mp-columnar" {
		e := &c32Enc{}
		e.mapHdr(2).str("m").str(r.Measurement).str("columns").mapHdr(2)
		e.str("time").arrHdr(r.Rows)
		for k := 0; k < r.Rows; k++ {
			e.int(1700000000000 + int64(k))
		}
		e.str("v").arrHdr(r.Rows)
		for k := 0; k < r.Rows; k++ {
			e.float(float64(k))
		}
		r.Body, r.BodyTxt = e.b, fmt.Sprintf("msgpack %x", e.b)
	} else {
		body := c32KALP(r.Measurement, r.Rows, tag)
		r.Body, r.BodyTxt = []byte(body), body
	}
	return r
}

func TestVerifC32_KeepAlive(t *testing.T) {
	fx := c32NewKAFixture(t)
	queuedAcrossNext := 0
	rapid.Check(t, func(rt *rapid.T) {
		allowedDB := c32Pick(rt, "alloweddb", "default", "default", "dba", "tenant1")
		var odb []string
		for _, d := range []string{"default", "dba", "tenant1", "dbb", "secrets", "zz"} {
			if d != allowedDB {
				odb = append(odb, d)
			}
		}
		fx.rec.allowedDB = allowedDB
		fx.rec.allowed = map[string]bool{"warm": true, "zend": true}
		for i := 0; i < 8; i++ {
			fx.rec.allowed[fmt.Sprintf("m%d", i)] = true
		}
		n := rapid.IntRange(1, 5).Draw(rt, "nreqs")
		reqs := make([]*c32KAReq, n)
		for i := range reqs {
			reqs[i] = c32KAGenReq(rt, i, allowedDB, odb)
		}
		trailerDB := c32Pick(rt, "trailerdb", odb...)

		// ---- settle: fresh connection, idle worker, empty storage
		fx.reconnect(rt)
		fx.drain(rt, allowedDB)
		c32Clear(fx.root)

		// ---- hold the only flush worker inside storage.Write
		fx.gate.hold(true)
		before := fx.gate.count("/warm/", false)
		warm := fx.fixed(allowedDB, "warm")
		if err := fx.do(warm); err != nil || warm.Status != 204 {
			rt.Fatalf("HARNESS warm-up request failed: err=%v status=%d", err, warm.Status)
		}
		if !fx.gate.wait("/warm/", false, before) {
			rt.Fatalf("HARNESS warm-up flush never reached storage (liveness guard)")
		}

		// ---- the scenario: every request is parsed into the storage the
		// previous one used; flush tasks queue behind the held worker
		for _, r := range reqs {
			if err := fx.do(r); err != nil {
				rt.Fatalf("HARNESS request failed: %v\n%+v", err, r)
			}
			verifkit.Class(fmt.Sprintf("ka:%s:%dxx", r.Surface, r.Status/100))
		}
		// one more request on the connection, naming another database, so the
		// last scenario request is overwritten as well (it is denied)
		trailer := fx.fixed(trailerDB, "m7")
		if err := fx.do(trailer); err != nil {
			rt.Fatalf("HARNESS trailer request failed: %v", err)
		}
		verifkit.EvalN(len(reqs))
		nontrivial := false
		for i, r := range reqs {
			if r.Status/100 == 2 && r.Rows >= c32KAMaxBuffer {
				queuedAcrossNext++
				verifkit.Class("ka:flush-task-queued-across-next-request")
				next := trailerDB
				if i+1 < len(reqs) {
					next = reqs[i+1].ResolvedDB
				}
				if next != r.ResolvedDB {
					nontrivial = true
				}
			}
		}
		if nontrivial {
			verifkit.NonTrivial("ka|" + c32KADescribe(allowedDB, reqs, trailerDB))
			if verifkit.SampleCount() < 5 {
				verifkit.Sample(map[string]any{"kind": "keep-alive scenario", "allowed_db": allowedDB, "requests": reqs, "trailer_db": trailerDB})
			}
		}

		// ---- release, drain, flush the small remainders, inspect storage
		fx.drain(rt, allowedDB)
		byMeasurement := map[string]*c32KAReq{"warm": warm, "zend": fx.fixed(allowedDB, "zend")}
		byMeasurement["warm"].OK = []string{allowedDB + "/warm"}
		byMeasurement["zend"].OK = []string{allowedDB + "/zend"}
		for _, r := range reqs {
			byMeasurement[r.Measurement] = r
		}
		for _, p := range c32Prefixes(fx.root) {
			parts := strings.SplitN(p, "/", 2)
			db, meas := parts[0], ""
			if len(parts) > 1 {
				meas = parts[1]
			}
			r := byMeasurement[meas]
			if r == nil {
				rt.Fatalf("VERIF-FAIL class=C32/keepalive-unknown-target stored=%s belongs to no request of the scenario\nscenario: %s", p, c32KADescribe(allowedDB, reqs, trailerDB))
			}
			if db != r.ResolvedDB {
				rt.Fatalf("VERIF-FAIL class=C32/keepalive-wrong-database stored=%s but its request named database %q (status %d)\nrequest: %+v\nscenario: %s", p, r.ResolvedDB, r.Status, *r, c32KADescribe(allowedDB, reqs, trailerDB))
			}
			okPair := false
			for _, ok := range r.OK {
				if ok == p {
					okPair = true
				}
			}
			if !okPair {
				rt.Fatalf("VERIF-FAIL class=C32/keepalive-unchecked-target stored=%s allowed-checks-of-its-request=%v\nrequest: %+v\nscenario: %s", p, r.OK, *r, c32KADescribe(allowedDB, reqs, trailerDB))
			}
		}
	})
	verifkit.Note("flush_tasks_queued_across_next_request", queuedAcrossNext)
	if !t.Failed() && queuedAcrossNext == 0 {
		t.Fatalf("HARNESS vacuous: no flush task stayed queued across a following request")
	}
}

func c32KADescribe(allowedDB string, reqs []*c32KAReq, trailerDB string) string {
	var sb strings.Builder
	fmt.Fprintf(&sb, "allowed database %q; one keep-alive connection; flush worker held; requests in order:", allowedDB)
	for i, r := range reqs {
		fmt.Fprintf(&sb, "\n  #%d %s %s headers=%v query=%v rows=%d measurement=%s -> status %d", i, r.Surface, r.Path, r.Headers, r.Query, r.Rows, r.Measurement, r.Status)
	}
	fmt.Fprintf(&sb, "\n  trailer: line protocol with x-arc-database: %s (denied)", trailerDB)
	return sb.String()
}
