//go:build verif

package api

// C17 - Performance rewrites do not change query results.
//
// Every case builds an original SQL statement, obtains the rewritten statement
// by running the REAL rewrite functions on that text in the order the query
// path applies them (query.go convertSQLToStoragePaths / ...WithHeaderDB,
// phases 0a-0c: RewriteRegexToStringFuncs -> rewriteTimeBucket ->
// rewriteDateTrunc -> OptimizeLikePatterns; none of them is behind a config
// flag), evaluates both statements in DuckDB over the same generated rows and
// compares per row: timestamps as instants (epoch_us), strings byte for byte,
// filters by the selected id multiset.

import (
	"database/sql"
	"fmt"
	"regexp"
	"strings"
	"testing"
	"time"

	"github.com/basekick-labs/arc/internal/verifkit"
	"github.com/basekick-labs/arc/internal/verifkit/duck"
	"pgregory.net/rapid"
)

// Finding ids (generator exclusions are on only while the finding is open).
const (
	c17fDefaultOrigin = "C17-bucket-default-origin"
	c17fTruncWeek     = "C17-datetrunc-week-thursday"
	c17fRound         = "C17-epoch-cast-rounds"
	c17fNegDiv        = "C17-negative-division-truncates"
	c17fOriginFrac    = "C17-origin-fraction-dropped"
	c17fFarFuture     = "C17-to-timestamp-double-precision"
	c17fURLPattern    = "C17-url-pattern-unchecked"
	c17fURLNoMatch    = "C17-url-nonmatching-input"
	c17fURLWWWEmpty   = "C17-url-www-empty-host"
	c17fURLBackslash  = "C17-url-double-backslash"
	c17fLikeOr        = "C17-like-or-precedence"
	c17fLikeCross     = "C17-like-cross-select"
)

// c17Rewrite applies the rewrites exactly as the query path does (phases 0a-0c).
func c17Rewrite(s string) string {
	s, _ = RewriteRegexToStringFuncs(s)
	s = rewriteTimeBucket(s)
	s = rewriteDateTrunc(s)
	s, _ = OptimizeLikePatterns(s)
	return s
}

func c17DB(t testing.TB) *sql.DB {
	db, err := duck.Open()
	if err != nil {
		t.Fatalf("duckdb: %v", err)
	}
	// Arc does not set a session time zone; servers run in UTC (assumption
	// recorded in checks/C17.json). Pin it so the check is deterministic.
	if _, err := db.Exec("SET TimeZone='UTC'"); err != nil {
		t.Fatalf("duckdb SET TimeZone: %v", err)
	}
	// tiny tables: one thread avoids waking a worker pool for every statement
	if _, err := db.Exec("SET threads=1"); err != nil {
		t.Fatalf("duckdb SET threads: %v", err)
	}
	return db
}

func c17Quote(s string) string { return "'" + strings.ReplaceAll(s, "'", "''") + "'" }

// ------------------------------------------------------------------ rows

type c17Row struct {
	ID   int     `json:"id"`
	US   *int64  `json:"us,omitempty"` // timestamp, µs since epoch (nil = NULL)
	U    *string `json:"u,omitempty"`
	A    *string `json:"a,omitempty"`
	B    *string `json:"b,omitempty"`
	C    *string `json:"c,omitempty"`
	N    *int    `json:"n,omitempty"`
	Note string  `json:"-"`
}

func c17StrLit(p *string) string {
	if p == nil {
		return "NULL"
	}
	return c17Quote(*p)
}

// c17Load (re)creates table t with every column the C17 generators use.
// ts is TIMESTAMP, "time" is TIMESTAMP WITH TIME ZONE (what DuckDB reports for
// Arc's parquet time column, which is written as Timestamp(us, UTC)).
func c17Load(db *sql.DB, rows []c17Row) error {
	if _, err := db.Exec(`CREATE OR REPLACE TABLE t(id INTEGER, ts TIMESTAMP, "time" TIMESTAMPTZ, u VARCHAR, a VARCHAR, b VARCHAR, c VARCHAR, n INTEGER)`); err != nil {
		return err
	}
	if len(rows) == 0 {
		return nil
	}
	var sb strings.Builder
	sb.WriteString("INSERT INTO t VALUES ")
	for i, r := range rows {
		if i > 0 {
			sb.WriteByte(',')
		}
		ts, tz := "NULL", "NULL"
		if r.US != nil {
			ts = fmt.Sprintf("make_timestamp(%d)", *r.US)
			tz = ts + "::TIMESTAMPTZ"
		}
		n := "NULL"
		if r.N != nil {
			n = fmt.Sprint(*r.N)
		}
		fmt.Fprintf(&sb, "(%d,%s,%s,%s,%s,%s,%s,%s)", r.ID, ts, tz, c17StrLit(r.U), c17StrLit(r.A), c17StrLit(r.B), c17StrLit(r.C), n)
	}
	_, err := db.Exec(sb.String())
	return err
}

// ------------------------------------------------------------------ timestamps

const (
	c17DuckOrigin = int64(946857600) // 2000-01-03 00:00:00 UTC, DuckDB's default time_bucket origin
	c17Y1900      = int64(-2208988800)
	c17Y2015      = int64(1420070400)
	c17Y2035      = int64(2051222400)
	c17Y2100      = int64(4102444800)
	c17Y9999      = int64(253370764800)
)

// sub-second parts (µs). >= 500000 is the rounding shape (C17-epoch-cast-rounds).
var c17Fracs = []int64{0, 0, 1, 250000, 480000, 500000, 500001, 700000, 999999}

// c17GenInstant draws a timestamp in µs. anchors/step let a case aim at its own
// bucket boundaries (origin + k*step).
func c17GenInstant(t *rapid.T, anchors []int64, step int64) int64 {
	var sec int64
	switch rapid.IntRange(0, 9).Draw(t, "tkind") {
	case 0, 1: // ordinary recent data
		sec = rapid.Int64Range(c17Y2015, c17Y2035).Draw(t, "recent")
	case 2: // calendar edges: hour/day/week (Monday and Thursday)/year boundaries +- a little
		base := rapid.Int64Range(c17Y2015/86400, c17Y2035/86400).Draw(t, "day") * 86400
		switch rapid.IntRange(0, 4).Draw(t, "edge") {
		case 0:
			base += rapid.Int64Range(0, 23).Draw(t, "hour") * 3600
		case 1: // Monday 00:00 (1970-01-05 was a Monday)
			base = (base-345600)/604800*604800 + 345600
		case 2: // Thursday 00:00 (epoch-aligned week)
			base = base / 604800 * 604800
		case 3:
			y := rapid.IntRange(2015, 2035).Draw(t, "year")
			base = time.Date(y, time.Month(rapid.IntRange(1, 12).Draw(t, "month")), 1, 0, 0, 0, 0, time.UTC).Unix()
		}
		sec = base + rapid.Int64Range(-2, 1).Draw(t, "edgeoff")
	case 3: // before 1970
		if rapid.Bool().Draw(t, "deep") {
			sec = rapid.Int64Range(c17Y1900, -1).Draw(t, "pre1970")
		} else {
			sec = rapid.Int64Range(-90000, -1).Draw(t, "justpre1970")
		}
	case 4: // far future
		if rapid.Bool().Draw(t, "veryfar") {
			sec = rapid.Int64Range(c17Y9999, 6000000000000).Draw(t, "veryfarsec") // up to ~year 192000
		} else {
			sec = rapid.Int64Range(c17Y2100, c17Y9999).Draw(t, "farsec")
		}
	case 5: // around the Unix epoch
		sec = rapid.Int64Range(-3, 3).Draw(t, "epochoff")
	case 6: // around DuckDB's default origin
		sec = c17DuckOrigin + rapid.Int64Range(-3, 3).Draw(t, "duckoff")*maxI64(step, 1) + rapid.Int64Range(-1, 1).Draw(t, "duckoff2")
	case 7: // deep past
		sec = rapid.Int64Range(-62135596800, c17Y1900).Draw(t, "deeppast") // year 1 ..
	default: // this case's own bucket boundaries
		a := int64(0)
		if len(anchors) > 0 {
			a = rapid.SampledFrom(anchors).Draw(t, "anchor")
		}
		k := rapid.Int64Range(-6, 6).Draw(t, "k")
		d := rapid.SampledFrom([]int64{-1, 0, 0, 1, step / 2, step - 1}).Draw(t, "d")
		sec = a + k*step + d
	}
	return sec*1000000 + rapid.SampledFrom(c17Fracs).Draw(t, "frac")
}

func maxI64(a, b int64) int64 {
	if a > b {
		return a
	}
	return b
}

func c17FloorMod(x, m int64) int64 { return ((x % m) + m) % m }

// ------------------------------------------------------------------ time expressions

type c17TimeExpr struct {
	Text    string // original SQL expression
	Secs    int64  // bucket width in seconds (0 = not rewritable: months etc.)
	Origin  int64  // alignment the REWRITE uses, seconds (0 for 2-arg / date_trunc)
	HasOrig bool
	ColOff  int64 // offset (s) the column expression adds to the row's instant
}

var c17Units = []struct {
	name string
	secs int64
}{{"second", 1}, {"minute", 60}, {"hour", 3600}, {"day", 86400}, {"week", 604800}, {"month", 0}}

func c17Case(t *rapid.T, s string) string {
	switch rapid.IntRange(0, 5).Draw(t, "case") {
	case 0:
		return strings.ToUpper(s)
	case 1:
		return strings.ToUpper(s[:1]) + s[1:]
	}
	return s
}

type c17Col struct {
	text string
	off  int64
}

func c17GenCol(t *rapid.T) c17Col {
	return rapid.SampledFrom([]c17Col{
		{"time", 0}, {"time", 0}, {"ts", 0}, {"ts", 0}, {"t.ts", 0}, {`"time"`, 0}, {"t.time", 0},
		{"ts + INTERVAL 90 MINUTE", 5400}, {"time - INTERVAL 1 SECOND", -1}, {"ts::TIMESTAMP", 0},
		{"coalesce(ts, ts)", 0}, // contains '(' -> the rewrite must leave the call alone
	}).Draw(t, "col")
}

func c17Sp(t *rapid.T) string {
	return rapid.SampledFrom([]string{"", "", "", " ", "  "}).Draw(t, "sp")
}

// divisors of the 1970-01-01 -> 2000-01-03 offset per unit (amounts 1..400)
func c17DividingAmounts(unitSecs int64) []int {
	var out []int
	for n := 1; n <= 400; n++ {
		if c17DuckOrigin%(int64(n)*unitSecs) == 0 {
			out = append(out, n)
		}
	}
	return out
}

func c17GenTimeBucket(t *rapid.T) c17TimeExpr {
	u := c17Units[rapid.IntRange(0, len(c17Units)-1).Draw(t, "unit")]
	amount := rapid.OneOf(rapid.SampledFrom([]int{1, 1, 2, 5, 7, 10, 15, 30, 60, 90, 400}), rapid.IntRange(1, 400)).Draw(t, "amount")
	withOrigin := rapid.IntRange(0, 2).Draw(t, "withorigin") == 0
	if !withOrigin && u.secs != 0 && c17DuckOrigin%(int64(amount)*u.secs) != 0 && verifkit.Excluded(c17fDefaultOrigin) {
		verifkit.CountExcluded(c17fDefaultOrigin)
		divs := c17DividingAmounts(u.secs)
		if len(divs) == 0 { // weeks never divide the offset
			u = c17Units[rapid.IntRange(0, 3).Draw(t, "unit2")]
			divs = c17DividingAmounts(u.secs)
		}
		amount = rapid.SampledFrom(divs).Draw(t, "amount2")
	}
	unitTxt := c17Case(t, u.name)
	if rapid.Bool().Draw(t, "plural") {
		unitTxt += map[bool]string{true: "S", false: "s"}[unitTxt == strings.ToUpper(unitTxt)]
	}
	amt := fmt.Sprint(amount)
	if rapid.IntRange(0, 19).Draw(t, "lead0") == 0 {
		amt = "0" + amt
	}
	lit := amt + rapid.SampledFrom([]string{" ", " ", "", "  "}).Draw(t, "amtsp") + unitTxt
	kw := rapid.SampledFrom([]string{"INTERVAL ", "INTERVAL ", "interval ", "", "INTERVAL"}).Draw(t, "kw")
	fn := rapid.SampledFrom([]string{"time_bucket", "time_bucket", "TIME_BUCKET", "Time_Bucket"}).Draw(t, "fn")
	col := c17GenCol(t)
	e := c17TimeExpr{Secs: int64(amount) * u.secs, ColOff: col.off}
	if strings.Contains(col.text, "(") {
		e.Secs = 0
	}
	args := c17Sp(t) + kw + "'" + lit + "'" + c17Sp(t) + "," + c17Sp(t) + col.text
	if withOrigin {
		var osec int64
		switch rapid.IntRange(0, 5).Draw(t, "okind") {
		case 0:
			osec = rapid.Int64Range(c17Y2015, c17Y2035).Draw(t, "orecent")
		case 1:
			osec = rapid.Int64Range(c17Y2015/86400, c17Y2035/86400).Draw(t, "oday") * 86400
		case 2:
			osec = rapid.SampledFrom([]int64{0, c17DuckOrigin, 1704069000, -86400, 946684800}).Draw(t, "ofixed")
		case 3:
			osec = rapid.Int64Range(c17Y1900, c17Y2100).Draw(t, "owide")
		case 4:
			osec = rapid.Int64Range(-62135596800, c17Y9999).Draw(t, "oany")
		default:
			osec = rapid.Int64Range(c17Y2015/3600, c17Y2035/3600).Draw(t, "ohour") * 3600
		}
		ot := time.Unix(osec, 0).UTC()
		layouts := []string{"2006-01-02 15:04:05", "2006-01-02T15:04:05", "2006-01-02 15:04:05Z", "2006-01-02T15:04:05Z"}
		if osec%86400 == 0 {
			layouts = append(layouts, "2006-01-02", "2006-01-02")
		}
		layout := rapid.SampledFrom(layouts).Draw(t, "olayout")
		otxt := ot.Format(layout)
		if layout != "2006-01-02" && rapid.IntRange(0, 7).Draw(t, "ofrac") == 0 {
			if verifkit.Excluded(c17fOriginFrac) {
				verifkit.CountExcluded(c17fOriginFrac)
			} else {
				// Go's time.Parse accepts a fractional second the layout does not
				// mention, so this origin is "parsed" and then truncated by .Unix()
				frac := rapid.SampledFrom([]string{".5", ".250", ".999999"}).Draw(t, "ofracv")
				if strings.HasSuffix(otxt, "Z") {
					otxt = strings.TrimSuffix(otxt, "Z") + frac + "Z"
				} else {
					otxt += frac
				}
			}
		}
		// numeric UTC offset (RFC 3339 style). DuckDB decides what the literal
		// means; whatever the rewrite does with it must give the same buckets.
		// Keep rows clear of both readings of the origin for the
		// before-the-origin exclusion.
		offPad := int64(0)
		if layout != "2006-01-02" && rapid.IntRange(0, 5).Draw(t, "ooffset") == 0 {
			off := rapid.SampledFrom([]string{"+05:30", "-08:00", "+02:00", "-00:30", "+01:00", "+00:00", "-03:45", "+14:00"}).Draw(t, "ooffsetv")
			otxt = strings.TrimSuffix(otxt, "Z") + off
			offPad = 14 * 3600
			verifkit.Class("time_bucket:origin-with-utc-offset")
		}
		okw := "TIMESTAMP "
		if rapid.IntRange(0, 11).Draw(t, "okw") == 0 {
			okw = "" // accepted by Arc's regex; DuckDB itself rejects it (case is then skipped)
		}
		args += c17Sp(t) + "," + c17Sp(t) + okw + "'" + otxt + "'" + c17Sp(t)
		e.Origin, e.HasOrig = osec+offPad, true
	}
	e.Text = fn + c17Sp(t) + "(" + args + ")"
	return e
}

var c17TruncUnits = []struct {
	name string
	secs int64
}{{"second", 1}, {"minute", 60}, {"hour", 3600}, {"day", 86400}, {"week", 604800}, {"month", 0}, {"year", 0}, {"quarter", 0}}

func c17GenDateTrunc(t *rapid.T) c17TimeExpr {
	u := c17TruncUnits[rapid.IntRange(0, len(c17TruncUnits)-1).Draw(t, "dtunit")]
	if u.name == "week" && verifkit.Excluded(c17fTruncWeek) {
		verifkit.CountExcluded(c17fTruncWeek)
		u = c17TruncUnits[rapid.IntRange(0, 3).Draw(t, "dtunit2")]
	}
	fn := rapid.SampledFrom([]string{"date_trunc", "date_trunc", "DATE_TRUNC", "Date_Trunc"}).Draw(t, "dtfn")
	col := c17GenCol(t)
	e := c17TimeExpr{Secs: u.secs, ColOff: col.off}
	if strings.Contains(col.text, "(") {
		e.Secs = 0
	}
	e.Text = fn + c17Sp(t) + "(" + c17Sp(t) + "'" + c17Case(t, u.name) + "'" + c17Sp(t) + "," + c17Sp(t) + col.text + c17Sp(t) + ")"
	return e
}

// c17TimeRows draws rows for the given expressions and drops the rows that fall
// in the shape of an open finding.
func c17TimeRows(t *rapid.T, exprs []c17TimeExpr, maxRows int) []c17Row {
	var anchors []int64
	step := int64(3600)
	for _, e := range exprs {
		anchors = append(anchors, e.Origin-e.ColOff)
		if e.Secs > 0 {
			step = e.Secs
		}
	}
	n := rapid.IntRange(1, maxRows).Draw(t, "nrows")
	rows := make([]c17Row, 0, n)
	for i := 0; i < n; i++ {
		if rapid.IntRange(0, 39).Draw(t, "null") == 0 {
			rows = append(rows, c17Row{ID: i})
			continue
		}
		us := c17GenInstant(t, anchors, step)
		keep := true
		for _, e := range exprs {
			if e.Secs == 0 {
				continue // not rewritten, nothing to exclude
			}
			eff := us + e.ColOff*1000000
			if c17FloorMod(eff, 1000000) >= 500000 && verifkit.Excluded(c17fRound) {
				verifkit.CountExcluded(c17fRound)
				keep = false
			}
			if eff < e.Origin*1000000 && verifkit.Excluded(c17fNegDiv) {
				verifkit.CountExcluded(c17fNegDiv)
				keep = false
			}
			// to_timestamp() takes seconds as DOUBLE and multiplies by 1e6: exact
			// only while the result is below 2^59 µs (about year 20237)
			if (eff >= 1<<59 || eff <= -(1<<59)) && verifkit.Excluded(c17fFarFuture) {
				verifkit.CountExcluded(c17fFarFuture)
				keep = false
			}
		}
		if keep {
			v := us
			rows = append(rows, c17Row{ID: i, US: &v})
		}
	}
	return rows
}

// c17Compare runs both statements wrapped by wrap() and compares all rows.
// It returns "" when they agree, or a description of the first difference.
// skipped=true when DuckDB rejects the ORIGINAL statement (nothing to compare).
func c17Compare(db *sql.DB, orig, rew string, wrap func(string) string) (diff string, skipped bool) {
	_, ra, errA := duck.QueryStrings(db, wrap(orig))
	if errA != nil {
		return errA.Error(), true
	}
	_, rb, errB := duck.QueryStrings(db, wrap(rew))
	if errB != nil {
		return "rewritten statement rejected by DuckDB: " + errB.Error(), false
	}
	if len(ra) != len(rb) {
		return fmt.Sprintf("row count %d vs %d\n orig rows: %q\n rewr rows: %q", len(ra), len(rb), c17Head(ra), c17Head(rb)), false
	}
	for i := range ra {
		for j := range ra[i] {
			if ra[i][j] != rb[i][j] {
				return fmt.Sprintf("row %d: original=%q rewritten=%q", i, ra[i], rb[i]), false
			}
		}
	}
	return "", false
}

func c17Head(r [][]string) [][]string {
	if len(r) > 12 {
		return r[:12]
	}
	return r
}

func c17Record(label, orig, rew string, rows []c17Row) {
	verifkit.Eval()
	verifkit.Class(label)
	if rew != orig {
		verifkit.Class(label + ":rewritten")
		verifkit.NonTrivial(orig)
		if verifkit.SampleCount() < 4 {
			verifkit.Sample(map[string]any{"kind": label, "original": orig, "rewritten": rew, "rows": len(rows)})
		}
	}
}

func c17MaxRows() int { return verifkit.Scale(120, 200) }

func c17WrapTime(k int) func(string) string {
	cols := "id"
	for i := 0; i < k; i++ {
		cols += fmt.Sprintf(", epoch_us(v%d)", i)
	}
	return func(s string) string { return "SELECT " + cols + " FROM (" + s + ") q ORDER BY id" }
}

func c17TimeProp(t *rapid.T, db *sql.DB, label string, gen func(*rapid.T) c17TimeExpr) {
	k := rapid.SampledFrom([]int{1, 1, 1, 2}).Draw(t, "nexpr")
	exprs := make([]c17TimeExpr, k)
	sel := "SELECT id"
	for i := range exprs {
		exprs[i] = gen(t)
		sel += fmt.Sprintf(", %s AS v%d", exprs[i].Text, i)
	}
	orig := sel + " FROM t"
	rew := c17Rewrite(orig)
	rows := c17TimeRows(t, exprs, c17MaxRows())
	if err := c17Load(db, rows); err != nil {
		t.Fatalf("HARNESS load: %v", err)
	}
	c17Record(label, orig, rew, rows)
	diff, skipped := c17Compare(db, orig, rew, c17WrapTime(k))
	if skipped {
		verifkit.Class(label + ":orig-rejected")
		return
	}
	if diff != "" {
		t.Fatalf("VERIF-FAIL class=C17/%s-value\noriginal:  %s\nrewritten: %s\n%s", label, orig, rew, diff)
	}
}

func TestVerifC17_TimeBucket(t *testing.T) {
	db := c17DB(t)
	defer db.Close()
	rapid.Check(t, func(t *rapid.T) { c17TimeProp(t, db, "time_bucket", c17GenTimeBucket) })
}

func TestVerifC17_DateTrunc(t *testing.T) {
	db := c17DB(t)
	defer db.Close()
	rapid.Check(t, func(t *rapid.T) { c17TimeProp(t, db, "date_trunc", c17GenDateTrunc) })
}

// ------------------------------------------------------------------ URL regex rewrite

type c17URLExpr struct {
	Text    string
	Pattern string // regex text as DuckDB sees it
	Replace bool   // REGEXP_REPLACE (true) or REGEXP_EXTRACT
	Fires   bool   // the rewrite's trigger condition holds
	Unsure  bool   // trigger not modelled ('\\1' replacement: rewritten today, not a group reference for DuckDB)
}

const (
	c17CanonReplace = `^https?://(?:www\.)?([^/]+)/.*$`
	c17CanonExtract = `^https?://(?:www\.)?([^/]+)`
)

func c17GenURLExpr(t *rapid.T) c17URLExpr {
	replace := rapid.Bool().Draw(t, "replace")
	var pat string
	canon := rapid.IntRange(0, 2).Draw(t, "canon") > 0
	if !canon {
		// Non-canonical pattern. While C17-url-pattern-unchecked is open only the
		// patterns that TRIGGER today's rewrite are excluded; patterns the rewriter
		// declines today (e.g. a host class that excludes more than '/') stay in, so
		// a rewriter that starts firing on them is still compared with DuckDB.
		cand := rapid.SampledFrom([]string{"^", "^", ""}).Draw(t, "p0") +
			rapid.SampledFrom([]string{"https?://", "https://", "(?:https?|ftp)://", "(https?)://", "(?:https?://)?", "https?:/+"}).Draw(t, "p1") +
			rapid.SampledFrom([]string{`(?:www\.)?`, `(?:www\.)?`, "", `(?:www\.|m\.)?`}).Draw(t, "p2") +
			rapid.SampledFrom([]string{"([^/]+)", "([^/]+)", "([^/]*)", "[^/]+(/[^/]*)", "([^/:]+)", "([^/:]+)", "([^/?#]+)", "([^/:?#]+)", `([^\/:]+)`, `([^/]+\.[a-z]+)`}).Draw(t, "p3") +
			rapid.SampledFrom([]string{"/.*$", ".*$", "", "/.*", "(?:/.*)?$", "$"}).Draw(t, "p4")
		fires := strings.Contains(strings.ToLower(cand), "https") && (strings.Contains(cand, "[^/]") || strings.Contains(cand, `[^\/]`))
		if fires && verifkit.Excluded(c17fURLPattern) {
			verifkit.CountExcluded(c17fURLPattern)
			canon = true
		} else {
			pat = cand
		}
	}
	if canon {
		if replace {
			pat = c17CanonReplace
		} else {
			pat = rapid.SampledFrom([]string{c17CanonExtract, c17CanonExtract, c17CanonReplace, c17CanonExtract + ".*"}).Draw(t, "canonpat")
		}
		if rapid.IntRange(0, 5).Draw(t, "escslash") == 0 {
			pat = strings.ReplaceAll(pat, "[^/]", `[^\/]`)
		}
	}
	fn := "REGEXP_EXTRACT"
	if replace {
		fn = "REGEXP_REPLACE"
	}
	fn = rapid.SampledFrom([]string{fn, fn, strings.ToLower(fn)}).Draw(t, "urlfn")
	var third string
	dbl := false
	if replace {
		third = `'\1'`
		if rapid.IntRange(0, 9).Draw(t, "dbl") == 0 {
			if verifkit.Excluded(c17fURLBackslash) {
				verifkit.CountExcluded(c17fURLBackslash)
			} else {
				third = `'\\1'` // DuckDB: a literal backslash followed by 1; Arc: still "group 1"
				dbl = true
			}
		}
	} else {
		// group index: 1 is the form the rewrite is meant for; the two-argument
		// form (whole match) and other indexes mean something else to DuckDB and
		// must come out the same whatever the rewrite does with them
		third = rapid.SampledFrom([]string{"1", "1", "1", "1", "", "", "0", "2"}).Draw(t, "group")
		if third != "1" {
			verifkit.Class("url:extract-group-" + map[string]string{"": "omitted", "0": "0", "2": "2"}[third])
		}
	}
	e := c17URLExpr{Pattern: pat, Replace: replace, Unsure: dbl}
	e.Text = fn + c17Sp(t) + "(" + c17Sp(t) + "u" + c17Sp(t) + "," + c17Sp(t) + "'" + pat + "'" + c17Sp(t)
	if third != "" {
		e.Text += "," + c17Sp(t) + third + c17Sp(t)
	}
	e.Text += ")"
	e.Fires = strings.Contains(strings.ToLower(pat), "https") && (strings.Contains(pat, "[^/]") || strings.Contains(pat, `[^\/]`)) && (replace || third == "1")
	return e
}

func c17GenURL(t *rapid.T) *string {
	var s string
	switch rapid.IntRange(0, 9).Draw(t, "ukind") {
	case 0:
		if rapid.Bool().Draw(t, "unull") {
			return nil
		}
		s = ""
	case 1:
		s = rapid.StringOfN(rapid.RuneFrom([]rune("htps:/w.acom?#%_ \n-é")), 0, 14, -1).Draw(t, "usoup")
	default:
		s = rapid.SampledFrom([]string{"https://", "https://", "http://", "http://", "ftp://", "HTTPS://", "", "//", "https:/", "https:", " https://"}).Draw(t, "scheme") +
			rapid.SampledFrom([]string{"", "", "www.", "www.", "WWW.", "www", "www.www.", "m."}).Draw(t, "www") +
			rapid.SampledFrom([]string{"", "user:pw@"}).Draw(t, "userinfo") +
			rapid.SampledFrom([]string{"example", "a", "sub.example", "", "localhost", "ex-ample", "例え", "a_b", "%", "www"}).Draw(t, "host") +
			rapid.SampledFrom([]string{".com", ".com", ".org", "", ".co.uk"}).Draw(t, "tld") +
			rapid.SampledFrom([]string{"", "", ":8080"}).Draw(t, "port") +
			rapid.SampledFrom([]string{"/", "/path", "/a/b?q=1", "", "", "//x", "/p\nq", "?q=/x", "#frag", "/https://www.b.com/"}).Draw(t, "path")
	}
	return &s
}

// c17URLExcluded reports whether (expr, url) lies in the shape of an open finding.
func c17URLExcluded(e c17URLExpr, re *regexp.Regexp, u *string) bool {
	if u == nil || !e.Fires {
		return false
	}
	if re != nil && !re.MatchString(*u) && verifkit.Excluded(c17fURLNoMatch) {
		verifkit.CountExcluded(c17fURLNoMatch)
		return true
	}
	for _, p := range []string{"https://www.", "http://www."} {
		if strings.HasPrefix(*u, p) {
			rest := (*u)[len(p):]
			if (rest == "" || rest[0] == '/') && verifkit.Excluded(c17fURLWWWEmpty) {
				verifkit.CountExcluded(c17fURLWWWEmpty)
				return true
			}
		}
	}
	return false
}

func c17URLRows(t *rapid.T, exprs []c17URLExpr, maxRows int) []c17Row {
	res := make([]*regexp.Regexp, len(exprs))
	for i, e := range exprs {
		res[i], _ = regexp.Compile(e.Pattern) // Go regexp = RE2 syntax, as DuckDB
	}
	n := rapid.IntRange(1, maxRows).Draw(t, "nurl")
	rows := make([]c17Row, 0, n)
	for i := 0; i < n; i++ {
		u := c17GenURL(t)
		keep := true
		for j, e := range exprs {
			if c17URLExcluded(e, res[j], u) {
				keep = false
			}
		}
		if keep {
			rows = append(rows, c17Row{ID: i, U: u})
		}
	}
	return rows
}

func TestVerifC17_URLDomain(t *testing.T) {
	db := c17DB(t)
	defer db.Close()
	rapid.Check(t, func(t *rapid.T) {
		k := rapid.SampledFrom([]int{1, 1, 2}).Draw(t, "nexpr")
		exprs := make([]c17URLExpr, k)
		sel, cols := "SELECT id", "id"
		for i := range exprs {
			exprs[i] = c17GenURLExpr(t)
			sel += fmt.Sprintf(", %s AS v%d", exprs[i].Text, i)
			cols += fmt.Sprintf(", v%d", i)
		}
		orig := sel + " FROM t"
		rew := c17Rewrite(orig)
		rows := c17URLRows(t, exprs, c17MaxRows())
		if err := c17Load(db, rows); err != nil {
			t.Fatalf("HARNESS load: %v", err)
		}
		c17Record("url", orig, rew, rows)
		for _, e := range exprs {
			if e.Fires != strings.Contains(rew, "split_part") && k == 1 && !e.Unsure {
				t.Fatalf("HARNESS trigger model out of date: fires=%v\n%s\n%s", e.Fires, orig, rew)
			}
		}
		diff, skipped := c17Compare(db, orig, rew, func(s string) string { return "SELECT " + cols + " FROM (" + s + ") q ORDER BY id" })
		if skipped {
			verifkit.Class("url:orig-rejected")
			return
		}
		if diff != "" {
			t.Fatalf("VERIF-FAIL class=C17/url-value\noriginal:  %s\nrewritten: %s\n%s", orig, rew, diff)
		}
	})
}

// ------------------------------------------------------------------ LIKE / <> '' reordering

type c17Item struct {
	text    string
	isEmpty bool // bare `col <> ''` atom
}

func c17KW(t *rapid.T, s string) string {
	if rapid.IntRange(0, 3).Draw(t, "kwcase") == 0 {
		return strings.ToLower(s)
	}
	return s
}

func c17GenAtom(t *rapid.T) c17Item {
	col := rapid.SampledFrom([]string{"a", "b", "c"}).Draw(t, "acol")
	switch rapid.IntRange(0, 9).Draw(t, "atom") {
	case 0, 1, 2, 3:
		pat := rapid.SampledFrom([]string{"%x%", "%goo%", "x%", "%y", "x", "_x%", "%", "%.goo.%", "G%"}).Draw(t, "likepat")
		not := ""
		if rapid.IntRange(0, 3).Draw(t, "notlike") == 0 {
			not = c17KW(t, "NOT") + " "
		}
		return c17Item{text: col + " " + not + c17KW(t, "LIKE") + " '" + pat + "'"}
	case 4, 5, 6:
		return c17Item{text: col + rapid.SampledFrom([]string{" <> ''", " <> ''", "<>''", " <>''", "  <>  ''"}).Draw(t, "ne"), isEmpty: true}
	case 7:
		return c17Item{text: col + rapid.SampledFrom([]string{" = ''", " != ''", " = 'x'", " IS NULL", " IS NOT NULL"}).Draw(t, "cmp")}
	case 8:
		return c17Item{text: fmt.Sprintf("n %s %d", rapid.SampledFrom([]string{">", "<", "=", "<>"}).Draw(t, "nop"), rapid.IntRange(0, 9).Draw(t, "nval"))}
	default:
		return c17Item{text: col + " <> 'x'"}
	}
}

// c17GenBool renders a boolean expression: items joined by AND/OR, each item an
// atom, NOT atom, or a parenthesised sub-expression (optionally negated).
// topOr reports whether an OR appears at this level (outside parentheses).
func c17GenBool(t *rapid.T, depth int, odd bool) (text string, topOr bool, last c17Item, lastConnAnd bool) {
	n := rapid.IntRange(1, 4).Draw(t, "nitems")
	var sb strings.Builder
	for i := 0; i < n; i++ {
		var it c17Item
		if depth > 0 && rapid.IntRange(0, 3).Draw(t, "sub") == 0 {
			inner, _, _, _ := c17GenBool(t, depth-1, odd)
			it = c17Item{text: "(" + inner + ")"}
		} else {
			it = c17GenAtom(t)
		}
		if rapid.IntRange(0, 5).Draw(t, "neg") == 0 {
			sep := " "
			if odd {
				seps := []string{"\t", "  "}
				if strings.HasPrefix(it.text, "(") {
					seps = append(seps, "", "")
				}
				sep = rapid.SampledFrom(seps).Draw(t, "notsep")
			}
			it = c17Item{text: c17KW(t, "NOT") + sep + it.text}
		}
		if i > 0 {
			kw := "AND"
			if rapid.IntRange(0, 2).Draw(t, "conn") == 0 {
				kw = "OR"
				topOr = true
				lastConnAnd = false
			} else {
				lastConnAnd = true
			}
			sb.WriteString(c17Conn(t, kw, odd, sb.String(), it.text))
		}
		sb.WriteString(it.text)
		last = it
	}
	return sb.String(), topOr, last, lastConnAnd
}

// c17Conn renders a connector keyword with its surrounding whitespace. In odd
// mode the keyword is never delimited by a plain blank on both sides: it sits
// tight against a closing quote / parenthesis, an opening parenthesis, or next
// to a tab - all of which DuckDB's lexer accepts.
func c17Conn(t *rapid.T, kw string, odd bool, prev, next string) string {
	if !odd {
		return " " + c17KW(t, kw) + " "
	}
	lefts := []string{"\t", " ", "  "}
	if strings.HasSuffix(prev, "'") || strings.HasSuffix(prev, ")") {
		lefts = append(lefts, "", "")
	}
	rights := []string{"\t", " "}
	if strings.HasPrefix(next, "(") {
		rights = append(rights, "", "")
	}
	l := rapid.SampledFrom(lefts).Draw(t, "connl")
	r := rapid.SampledFrom(rights).Draw(t, "connr")
	if l == " " && r == " " {
		r = "\t"
	}
	return l + c17KW(t, kw) + r
}

// c17GenWhere returns a WHERE body; with forceTail the clause ends in
// `AND col <> ”`, the shape OptimizeLikePatterns hoists.
func c17GenWhere(t *rapid.T) string {
	// one statement in four uses tight / tab spacing around AND, OR and NOT
	odd := rapid.IntRange(0, 3).Draw(t, "oddspacing") == 0
	if odd {
		verifkit.Class("like:odd-spacing")
	}
	body, topOr, last, lastAnd := c17GenBool(t, 2, odd)
	if rapid.IntRange(0, 2).Draw(t, "forcetail") > 0 {
		col := rapid.SampledFrom([]string{"a", "b", "c"}).Draw(t, "tailcol")
		body += " " + c17KW(t, "AND") + " " + col + rapid.SampledFrom([]string{" <> ''", "<>''", " <>  ''"}).Draw(t, "tailne")
		last, lastAnd = c17Item{isEmpty: true}, true
	}
	if topOr && last.isEmpty && lastAnd && verifkit.Excluded(c17fLikeOr) {
		// `X OR Y AND c <> ''` : hoisting the trailing check to the front regroups
		// the OR. Excluded shape: parenthesise everything before the tail instead.
		verifkit.CountExcluded(c17fLikeOr)
		if idx := strings.LastIndex(strings.ToUpper(body), " AND "); idx >= 0 {
			body = "(" + body[:idx] + ")" + body[idx:]
		}
	}
	return body
}

func c17GenLikeRow(t *rapid.T, id int) c17Row {
	vals := []string{"", "", "x", "xy", "google", "Google", "foo x bar", "y", "%", "a.goo.b"}
	str := func(l string) *string {
		if rapid.IntRange(0, 7).Draw(t, l+"null") == 0 {
			return nil
		}
		s := rapid.SampledFrom(vals).Draw(t, l)
		return &s
	}
	r := c17Row{ID: id, A: str("va"), B: str("vb"), C: str("vc")}
	if rapid.IntRange(0, 7).Draw(t, "nnull") != 0 {
		n := rapid.IntRange(0, 9).Draw(t, "vn")
		r.N = &n
	}
	return r
}

func c17GenLikeStmt(t *rapid.T) string {
	where := c17KW(t, "WHERE")
	tail := rapid.SampledFrom([]string{"", "", " ORDER BY id", " LIMIT 100000", " GROUP BY id", " order by id limit 100000", " GROUP BY id ORDER BY id"}).Draw(t, "tail")
	stmt := "SELECT id FROM t " + where + " " + c17GenWhere(t)
	if rapid.IntRange(0, 5).Draw(t, "union") == 0 {
		if verifkit.Excluded(c17fLikeCross) {
			verifkit.CountExcluded(c17fLikeCross)
		} else {
			stmt += " UNION ALL SELECT id + 100000 FROM t " + c17KW(t, "WHERE") + " " + c17GenWhere(t)
			tail = rapid.SampledFrom([]string{"", " ORDER BY id", " LIMIT 100000"}).Draw(t, "utail")
		}
	}
	return stmt + tail
}

func TestVerifC17_LikeReorder(t *testing.T) {
	db := c17DB(t)
	defer db.Close()
	rapid.Check(t, func(t *rapid.T) {
		orig := c17GenLikeStmt(t)
		rew := c17Rewrite(orig)
		n := rapid.IntRange(1, c17MaxRows()).Draw(t, "nrows")
		rows := make([]c17Row, n)
		for i := range rows {
			rows[i] = c17GenLikeRow(t, i)
		}
		if err := c17Load(db, rows); err != nil {
			t.Fatalf("HARNESS load: %v", err)
		}
		c17Record("like", orig, rew, rows)
		diff, skipped := c17Compare(db, orig, rew, func(s string) string { return "SELECT id FROM (" + s + ") q ORDER BY id" })
		if skipped {
			t.Fatalf("HARNESS generated a WHERE clause DuckDB rejects: %s\n%s", orig, diff)
		}
		if diff != "" {
			t.Fatalf("VERIF-FAIL class=C17/like-filter\noriginal:  %s\nrewritten: %s\n%s", orig, rew, diff)
		}
	})
}

// ------------------------------------------------------------------ all rewrites in one statement

// A dashboard-style aggregate that goes through every rewrite at once:
// bucketed time, extracted domain, filtered by LIKE + empty-string checks.
func TestVerifC17_Combined(t *testing.T) {
	db := c17DB(t)
	defer db.Close()
	rapid.Check(t, func(t *rapid.T) {
		var te c17TimeExpr
		if rapid.Bool().Draw(t, "usebucket") {
			te = c17GenTimeBucket(t)
		} else {
			te = c17GenDateTrunc(t)
		}
		ue := c17GenURLExpr(t)
		where := c17GenWhere(t)
		tail := rapid.SampledFrom([]string{" GROUP BY 1, 2", " GROUP BY 1, 2 ORDER BY 1, 2", " GROUP BY k0, k1 LIMIT 100000"}).Draw(t, "ctail")
		orig := "SELECT " + te.Text + " AS k0, " + ue.Text + " AS k1, count(*) AS cnt, min(id) AS lo FROM t " + c17KW(t, "WHERE") + " " + where + tail
		rew := c17Rewrite(orig)
		trows := c17TimeRows(t, []c17TimeExpr{te}, verifkit.Scale(60, 120))
		re, _ := regexp.Compile(ue.Pattern)
		rows := make([]c17Row, 0, len(trows))
		for _, tr := range trows {
			r := c17GenLikeRow(t, tr.ID)
			r.US = tr.US
			r.U = c17GenURL(t)
			if c17URLExcluded(ue, re, r.U) {
				continue
			}
			rows = append(rows, r)
		}
		if err := c17Load(db, rows); err != nil {
			t.Fatalf("HARNESS load: %v", err)
		}
		c17Record("combined", orig, rew, rows)
		diff, skipped := c17Compare(db, orig, rew, func(s string) string {
			return "SELECT epoch_us(k0), k1, cnt, lo FROM (" + s + ") q ORDER BY 1 NULLS FIRST, 2 NULLS FIRST, 3, 4"
		})
		if skipped {
			verifkit.Class("combined:orig-rejected")
			return
		}
		if diff != "" {
			t.Fatalf("VERIF-FAIL class=C17/combined\noriginal:  %s\nrewritten: %s\n%s", orig, rew, diff)
		}
	})
}

// ------------------------------------------------------------------ known-finding reproductions

func i64p(v int64) *int64   { return &v }
func strp(s string) *string { return &s }

// c17Repro loads rows, rewrites orig with the real functions and reports whether
// DuckDB gives different per-row answers (and that the rewrite fired at all).
func c17Repro(t *testing.T, rows []c17Row, orig string, wrap func(string) string) (bool, string) {
	db := c17DB(t)
	defer db.Close()
	if err := c17Load(db, rows); err != nil {
		t.Logf("load: %v", err)
		return false, ""
	}
	rew := c17Rewrite(orig)
	if rew == orig {
		return false, "not rewritten"
	}
	diff, skipped := c17Compare(db, orig, rew, wrap)
	if skipped {
		return false, "original rejected: " + diff
	}
	return diff != "", diff
}

func c17KF(t *testing.T, id string, rows []c17Row, orig, what string, wrap func(string) string) {
	rep, diff := c17Repro(t, rows, orig, wrap)
	t.Logf("%s reproduced=%v %s", id, rep, diff)
	verifkit.KnownFinding(id, rep, what+" | "+orig+" | "+diff)
}

func TestVerifKF_C17_default_origin(t *testing.T) {
	// 2024-01-01 10:00:00 UTC; DuckDB buckets of 7 h are aligned to 2000-01-03, the rewrite aligns to 1970-01-01
	c17KF(t, c17fDefaultOrigin, []c17Row{{ID: 1, US: i64p(1704103200000000)}},
		"SELECT id, time_bucket(INTERVAL '7 hours', time) AS v0 FROM t",
		"2-arg time_bucket rewritten to epoch arithmetic aligned at 1970-01-01 instead of DuckDB's default origin 2000-01-03", c17WrapTime(1))
}

func TestVerifKF_C17_trunc_week(t *testing.T) {
	// Wednesday 2024-01-03 12:00:00 UTC: date_trunc('week') = Monday 2024-01-01, rewrite = Thursday 2023-12-28
	c17KF(t, c17fTruncWeek, []c17Row{{ID: 1, US: i64p(1704283200000000)}},
		"SELECT id, date_trunc('week', time) AS v0 FROM t",
		"date_trunc('week') rewritten to 604800 s epoch buckets which start on Thursdays; DuckDB weeks start on Monday", c17WrapTime(1))
}

func TestVerifKF_C17_rounding(t *testing.T) {
	// 2024-01-01 10:59:59.7 UTC
	c17KF(t, c17fRound, []c17Row{{ID: 1, US: i64p(1704106799700000)}},
		"SELECT id, date_trunc('hour', time) AS v0 FROM t",
		"epoch(col)::BIGINT rounds to nearest, so a timestamp in the last half second of a bucket lands in the next bucket", c17WrapTime(1))
}

func TestVerifKF_C17_negative_division(t *testing.T) {
	// 1969-12-31 22:30:00 UTC
	c17KF(t, c17fNegDiv, []c17Row{{ID: 1, US: i64p(-5400000000)}},
		"SELECT id, time_bucket(INTERVAL '1 hour', ts) AS v0 FROM t",
		"DuckDB's // truncates toward zero, so timestamps before the alignment point (1970, or the origin) get the END of their bucket", c17WrapTime(1))
}

func TestVerifKF_C17_origin_fraction(t *testing.T) {
	// 2024-01-01 10:00:00.2 with origin ...00:00:00.5: DuckDB bucket starts 09:00:00.5, rewrite says 10:00:00
	c17KF(t, c17fOriginFrac, []c17Row{{ID: 1, US: i64p(1704103200200000)}},
		"SELECT id, time_bucket(INTERVAL '1 hour', ts, TIMESTAMP '2024-01-01 00:00:00.5') AS v0 FROM t",
		"parseTimeBucketOrigin (time.Parse) accepts a fractional-second origin and .Unix() drops the fraction", c17WrapTime(1))
}

func TestVerifKF_C17_far_future(t *testing.T) {
	// a whole minute in year ~179341; to_timestamp(5597331160440) comes back 512 µs late
	c17KF(t, c17fFarFuture, []c17Row{{ID: 1, US: i64p(5597331160440000000)}},
		"SELECT id, date_trunc('minute', time) AS v0 FROM t",
		"to_timestamp(seconds) goes through DOUBLE*1e6, which is not exact above 2^59 µs (after about year 20237), so far-future buckets are off by some µs", c17WrapTime(1))
}

func c17WrapStr(s string) string { return "SELECT id, v0 FROM (" + s + ") q ORDER BY id" }

func TestVerifKF_C17_url_pattern(t *testing.T) {
	c17KF(t, c17fURLPattern, []c17Row{{ID: 1, U: strp("https://www.a.com/x")}},
		`SELECT id, REGEXP_REPLACE(u, '^https?://([^/]+)/.*$', '\1') AS v0 FROM t`,
		"any pattern containing 'https' and '[^/]' is replaced by the same CASE, whatever it captures (here the pattern keeps 'www.')", c17WrapStr)
}

func TestVerifKF_C17_url_nonmatching(t *testing.T) {
	c17KF(t, c17fURLNoMatch, []c17Row{{ID: 1, U: strp("https://a.com")}, {ID: 2, U: strp("ftp://a.com/x")}},
		`SELECT id, REGEXP_REPLACE(u, '^https?://(?:www\.)?([^/]+)/.*$', '\1') AS v0 FROM t`,
		"REGEXP_REPLACE returns a non-matching input unchanged (URL without path, other scheme), REGEXP_EXTRACT returns ''; the CASE returns split_part(...)", c17WrapStr)
}

func TestVerifKF_C17_url_www_empty(t *testing.T) {
	c17KF(t, c17fURLWWWEmpty, []c17Row{{ID: 1, U: strp("https://www./x")}},
		`SELECT id, REGEXP_REPLACE(u, '^https?://(?:www\.)?([^/]+)/.*$', '\1') AS v0 FROM t`,
		"host that is exactly 'www.': the regex backtracks and captures 'www.', the CASE strips the prefix and returns ''", c17WrapStr)
}

func TestVerifKF_C17_url_double_backslash(t *testing.T) {
	c17KF(t, c17fURLBackslash, []c17Row{{ID: 1, U: strp("https://www.a.com/x")}},
		`SELECT id, REGEXP_REPLACE(u, '^https?://(?:www\.)?([^/]+)/.*$', '\\1') AS v0 FROM t`,
		`replacement '\\1' is a literal backslash + '1' for DuckDB (result \1), the rewrite treats it as group 1`, c17WrapStr)
}

func c17WrapIDs(s string) string { return "SELECT id FROM (" + s + ") q ORDER BY id" }

func TestVerifKF_C17_like_or(t *testing.T) {
	c17KF(t, c17fLikeOr, []c17Row{{ID: 1, A: strp("x"), B: strp("q"), C: strp("")}},
		"SELECT id FROM t WHERE a LIKE 'x' OR b LIKE 'y' AND c <> ''",
		"`A OR B AND c <> ''` becomes `c <> '' AND A OR B`: the hoisted check now guards A instead of B", c17WrapIDs)
}

func TestVerifKF_C17_like_cross_select(t *testing.T) {
	c17KF(t, c17fLikeCross, []c17Row{{ID: 1, A: strp("x"), B: strp("q"), C: strp("")}},
		"SELECT id FROM t WHERE a LIKE 'x' UNION ALL SELECT id + 100000 FROM t WHERE b = 'zz' AND c <> ''",
		"the trailing `AND c <> ''` of the LAST select is moved behind the FIRST WHERE of the statement", c17WrapIDs)
}
