//go:build verif

package api

// C31 - File imports store every data row of the uploaded file.
//
// Generated CSV / Parquet uploads are POSTed to the real import handlers
// (fiber app.Test, routes registered by ImportHandler.RegisterRoutes) backed by
// a real ArrowBuffer on a LocalBackend temp dir. Oracle: on 2xx the Parquet
// files found under <db>/<measurement>/ (read back with DuckDB) hold exactly
// the reference rows (multiset, typed canonical cells); on non-2xx nothing was
// stored; a file the documented rules cannot import must not be accepted.

import (
	"bytes"
	"fmt"
	"strings"
	"testing"

	"github.com/apache/arrow-go/v18/arrow"
	"github.com/apache/arrow-go/v18/arrow/array"
	"github.com/apache/arrow-go/v18/arrow/memory"
	"github.com/apache/arrow-go/v18/parquet"
	"github.com/apache/arrow-go/v18/parquet/pqarrow"
	"github.com/basekick-labs/arc/internal/verifkit"
	"github.com/basekick-labs/arc/internal/verifkit/duck"
	"pgregory.net/rapid"
)

func c31Record(c *c31Case) {
	if c.NonTrivial {
		verifkit.NonTrivial(c.key())
		if verifkit.SampleCount() < 4 && c.MustReject == "" {
			verifkit.Sample(c.sample())
		}
	}
}

func c31Finish(t *testing.T, fx *c31Fixture, what string) {
	verifkit.Note(what+"_accepted", fx.accepted)
	verifkit.Note(what+"_rejected", fx.rejected)
	if !t.Failed() && fx.accepted == 0 {
		t.Fatalf("HARNESS vacuous: no generated %s file was accepted (%d rejected)", what, fx.rejected)
	}
}

func TestVerifC31_CSV(t *testing.T) {
	fx := c31NewFixture(t)
	rapid.Check(t, func(rt *rapid.T) {
		c := c31GenCSV(rt)
		c31Record(c)
		fx.run(rt, c)
	})
	c31Finish(t, fx, "csv")
}

func TestVerifC31_Parquet(t *testing.T) {
	fx := c31NewFixture(t)
	rapid.Check(t, func(rt *rapid.T) {
		c := c31GenParquet(rt)
		c31Record(c)
		fx.run(rt, c)
	})
	c31Finish(t, fx, "parquet")
}

// ---------------------------------------------------------------- known findings

type c31Probe struct{ msg string }

func (p *c31Probe) Fatalf(format string, args ...any) {
	if p.msg == "" {
		p.msg = strings.SplitN(strings.TrimSpace(fmt.Sprintf(format, args...)), "\n", 2)[0]
	}
	panic(p)
}

// c31RunProbe runs one fixed case and reports the oracle's failure line ("" = held).
func c31RunProbe(fx *c31Fixture, c *c31Case) (msg string) {
	p := &c31Probe{}
	defer func() {
		if r := recover(); r != nil {
			if r != any(p) {
				panic(r)
			}
			msg = p.msg
		}
	}()
	fx.run(p, c)
	return ""
}

// A CSV column whose name starts with '_' is neither stored nor rejected.
func TestVerifKF_C31_underscore_column(t *testing.T) {
	fx := c31NewFixture(t)
	csv := "time,_x,v\n1609459200,5,7\n"
	c := &c31Case{Kind: "csv", Query: map[string]string{}, File: []byte(csv), FileText: csv,
		Want: []map[string]string{{"time": c31TimeCell(1609459200000000), "_x": duck.Canon(int64(5)), "v": duck.Canon(int64(7))}}}
	msg := c31RunProbe(fx, c)
	t.Logf("oracle: %s", msg)
	verifkit.KnownFinding("C31-underscore-column-dropped", strings.Contains(msg, "C31/stored-rows-differ") && !strings.Contains(msg, "_x"), msg)
}

func c31OneColParquet(t *testing.T, typ arrow.DataType, fill func(b array.Builder), timeVals []int64) []byte {
	schema := arrow.NewSchema([]arrow.Field{{Name: "time", Type: arrow.PrimitiveTypes.Int64, Nullable: true}, {Name: "v", Type: typ, Nullable: true}}, nil)
	mem := memory.NewGoAllocator()
	tb := array.NewInt64Builder(mem)
	tb.AppendValues(timeVals, nil)
	vb := array.NewBuilder(mem, typ)
	fill(vb)
	rec := array.NewRecord(schema, []arrow.Array{tb.NewArray(), vb.NewArray()}, int64(len(timeVals)))
	var buf bytes.Buffer
	w, err := pqarrow.NewFileWriter(schema, &buf, parquet.NewWriterProperties(), pqarrow.DefaultWriterProps())
	if err != nil {
		t.Fatalf("harness: %v", err)
	}
	if err := w.Write(rec); err != nil {
		t.Fatalf("harness: %v", err)
	}
	if err := w.Close(); err != nil {
		t.Fatalf("harness: %v", err)
	}
	return buf.Bytes()
}

// A Parquet UINT64 value above MaxInt64 is stored as a negative BIGINT.
func TestVerifKF_C31_uint64_wrap(t *testing.T) {
	fx := c31NewFixture(t)
	file := c31OneColParquet(t, arrow.PrimitiveTypes.Uint64, func(b array.Builder) { b.(*array.Uint64Builder).Append(1 << 63) }, []int64{1609459200})
	c := &c31Case{Kind: "parquet", Query: map[string]string{}, File: file, FileText: "parquet time:int64=[1609459200] v:uint64=[9223372036854775808]",
		MustReject: "uint64 value 9223372036854775808 has no lossless int64 representation"}
	msg := c31RunProbe(fx, c)
	t.Logf("oracle: %s", msg)
	verifkit.KnownFinding("C31-uint64-wraps-negative", strings.Contains(msg, "C31/accepted-unimportable"), msg)
}

// An unknown time_format is accepted for numeric Parquet time columns and some
// other conversion is applied silently (float column: value taken as microseconds).
func TestVerifKF_C31_parquet_unknown_time_format(t *testing.T) {
	fx := c31NewFixture(t)
	schema := arrow.NewSchema([]arrow.Field{{Name: "time", Type: arrow.PrimitiveTypes.Float64, Nullable: true}}, nil)
	mem := memory.NewGoAllocator()
	tb := array.NewFloat64Builder(mem)
	tb.Append(1609459200.5)
	rec := array.NewRecord(schema, []arrow.Array{tb.NewArray()}, 1)
	var buf bytes.Buffer
	w, err := pqarrow.NewFileWriter(schema, &buf, parquet.NewWriterProperties(), pqarrow.DefaultWriterProps())
	if err != nil {
		t.Fatalf("harness: %v", err)
	}
	_ = w.Write(rec)
	_ = w.Close()
	c := &c31Case{Kind: "parquet", Query: map[string]string{"time_format": "epoch_sec"}, File: buf.Bytes(),
		FileText: "parquet time:float64=[1609459200.5] time_format=epoch_sec", MustReject: "unsupported time_format"}
	msg := c31RunProbe(fx, c)
	t.Logf("oracle: %s", msg)
	verifkit.KnownFinding("C31-parquet-unknown-time-format-accepted", strings.Contains(msg, "C31/accepted-unimportable"), msg)
}
