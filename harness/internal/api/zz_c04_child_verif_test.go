//go:build verif

package api

// C04 child server: the real fiber app (NewServer => same recover middleware as
// production) with the msgpack, line-protocol, TLE and import handlers wired
// exactly as RegisterRoutes does, on a real ArrowBuffer + LocalBackend, running
// in a CHILD PROCESS of the test binary so that a panic in a background flush
// goroutine (which kills the process) is observable as child death.
//
// Protocol: JSON values on fd 3 (commands) / fd 4 (responses).

import (
	"bytes"
	"context"
	"encoding/json"
	"fmt"
	"io"
	"net/http"
	"os"
	"os/exec"
	"strings"
	"sync"
	"time"

	"github.com/basekick-labs/arc/internal/config"
	"github.com/basekick-labs/arc/internal/ingest"
	"github.com/basekick-labs/arc/internal/storage"
	"github.com/basekick-labs/arc/internal/verifkit"
	"github.com/rs/zerolog"
)

type c04ServerCfg struct {
	Root           string
	MaxBufferSize  int
	MaxBufferAgeMS int
	FlushWorkers   int
	ShardCount     int
	MaxPayload     int64
}

type c04Cmd struct {
	Op      string            // reset | ping | req | req-async | await | gate-arm | gate-wait | gate-release | quiesce | close
	Cfg     *c04ServerCfg     `json:",omitempty"` // reset: build a fresh server instance
	Method  string            `json:",omitempty"`
	Path    string            `json:",omitempty"`
	Headers map[string]string `json:",omitempty"`
	Body    []byte            `json:",omitempty"`
}

type c04Stats struct {
	Buffered int64 // rows ever appended to a shard buffer
	Written  int64 // rows written to storage
	Errors   int64
	Depth    int64 // flush queue depth
	Active   int64 // shard buffers currently holding rows
}

type c04Resp struct {
	Status int
	Body   string
	Err    string `json:",omitempty"`
	Before c04Stats
	After  c04Stats
	Mode   string `json:",omitempty"` // quiesce: exact | stall | timeout
}

func init() { verifkit.RegisterMode("c04-server", c04ChildMain) }

func c04StatsOf(buf *ingest.ArrowBuffer) c04Stats {
	st := buf.GetStats()
	geti := func(k string) int64 {
		switch v := st[k].(type) {
		case int64:
			return v
		case int:
			return int64(v)
		}
		return -1
	}
	return c04Stats{Buffered: geti("total_records_buffered"), Written: geti("total_records_written"),
		Errors: geti("total_errors"), Depth: geti("flush_queue_depth"), Active: geti("active_buffers")}
}

// c04GateBackend passes everything through to the real backend; when armed, the
// next Write blocks (after announcing that it was entered) until released. It
// makes "a request arrives while another one sits in its storage write"
// deterministic without any timing.
type c04GateBackend struct {
	storage.Backend
	mu      sync.Mutex
	armed   bool
	entered chan struct{}
	release chan struct{}
}

func (g *c04GateBackend) arm() {
	g.mu.Lock()
	g.armed, g.entered, g.release = true, make(chan struct{}), make(chan struct{})
	g.mu.Unlock()
}

func (g *c04GateBackend) Write(ctx context.Context, path string, data []byte) error {
	g.mu.Lock()
	hold := g.armed
	g.armed = false
	entered, release := g.entered, g.release
	g.mu.Unlock()
	if hold {
		close(entered)
		<-release
	}
	return g.Backend.Write(ctx, path, data)
}

// c04Instance is one server instance: storage + ArrowBuffer + fiber app.
type c04Instance struct {
	gate    *c04GateBackend
	pending chan c04Resp // response of the request started with req-async
	buf *ingest.ArrowBuffer
	app interface {
		Test(req *http.Request, msTimeout ...int) (*http.Response, error)
	}
}

func c04NewInstance(cfg c04ServerCfg) (*c04Instance, error) {
	lb, err := storage.NewLocalBackend(cfg.Root, zerolog.Nop())
	if err != nil {
		return nil, err
	}
	be := &c04GateBackend{Backend: lb}
	buf := ingest.NewArrowBuffer(&config.IngestConfig{
		MaxBufferSize:   cfg.MaxBufferSize,
		MaxBufferAgeMS:  cfg.MaxBufferAgeMS,
		Compression:     "snappy",
		FlushWorkers:    cfg.FlushWorkers,
		FlushQueueSize:  4096,
		ShardCount:      cfg.ShardCount,
		DataPageVersion: "2.0",
	}, be, zerolog.Nop())

	logger := zerolog.Nop()
	sc := DefaultServerConfig()
	sc.MaxPayloadSize = 64 << 20 // fiber BodyLimit; handlers apply their own caps
	srv := NewServer(sc, logger)
	srv.RegisterRoutes()
	app := srv.GetApp()
	NewMsgPackHandler(logger, buf, cfg.MaxPayload).RegisterRoutes(app)
	NewLineProtocolHandler(buf, logger).RegisterRoutes(app)
	NewTLEHandler(buf, logger).RegisterRoutes(app)
	ih := NewImportHandler(logger)
	ih.SetArrowBuffer(buf)
	ih.RegisterRoutes(app)
	return &c04Instance{buf: buf, app: app, gate: be}, nil
}

func c04ChildMain() {
	in := json.NewDecoder(os.NewFile(3, "cmd"))
	out := json.NewEncoder(os.NewFile(4, "resp"))
	var inst *c04Instance
	for {
		var cmd c04Cmd
		if err := in.Decode(&cmd); err != nil {
			if err == io.EOF {
				os.Exit(0)
			}
			fmt.Fprintln(os.Stderr, "c04 child: decode:", err)
			os.Exit(4)
		}
		var resp c04Resp
		if cmd.Op == "ping" {
			resp.Mode = "pong"
			if err := out.Encode(&resp); err != nil {
				os.Exit(4)
			}
			continue
		}
		if cmd.Op == "reset" {
			// a fresh server instance (new storage root, buffer, app) in this process
			if inst != nil {
				_ = inst.buf.Close()
			}
			var err error
			if inst, err = c04NewInstance(*cmd.Cfg); err != nil {
				resp.Err = "reset: " + err.Error()
			}
			resp.Mode = "reset"
			if err := out.Encode(&resp); err != nil {
				os.Exit(4)
			}
			continue
		}
		if inst == nil {
			resp.Err = "no server instance (reset first)"
			_ = out.Encode(&resp)
			continue
		}
		buf := inst.buf
		resp.Before = c04StatsOf(buf)
		switch cmd.Op {
		case "req":
			c04Serve(inst, cmd, &resp)
		case "req-async":
			// start the request and return at once; "await" collects its response
			inst.pending = make(chan c04Resp, 1)
			go func(i *c04Instance, cmd c04Cmd) {
				var r c04Resp
				c04Serve(i, cmd, &r)
				i.pending <- r
			}(inst, cmd)
			resp.Mode = "started"
		case "await":
			if inst.pending == nil {
				resp.Err = "nothing pending"
				break
			}
			r := <-inst.pending
			inst.pending = nil
			resp.Status, resp.Body, resp.Err = r.Status, r.Body, r.Err
		case "gate-arm":
			inst.gate.arm()
			resp.Mode = "armed"
		case "gate-wait":
			// returns once a storage write is blocked inside the gate - or, if the
			// pending request finished without ever writing, says so (no timing)
			select {
			case <-inst.gate.entered:
				resp.Mode = "entered"
			case r := <-inst.pending:
				inst.pending <- r
				resp.Mode = "not-entered"
			}
		case "gate-release":
			close(inst.gate.release)
			resp.Mode = "released"
		case "quiesce":
			// Wait until everything buffered has been written (the forced flush itself
			// is an ordinary request to the admin flush endpoint sent by the parent).
			resp.Mode = c04Quiesce(buf)
		case "close":
			// Close() of this instance; the process stays for the next reset.
			_ = buf.Close()
			resp.Mode = "closed"
			inst = nil
			resp.After = c04StatsOf(buf)
			if err := out.Encode(&resp); err != nil {
				os.Exit(4)
			}
			continue
		default:
			resp.Err = "unknown op " + cmd.Op
		}
		resp.After = c04StatsOf(buf)
		if err := out.Encode(&resp); err != nil {
			os.Exit(4)
		}
	}
}

func c04Serve(inst *c04Instance, cmd c04Cmd, resp *c04Resp) {
	req, rerr := http.NewRequest(cmd.Method, cmd.Path, bytes.NewReader(cmd.Body))
	if rerr != nil {
		resp.Err = "newrequest: " + rerr.Error()
		return
	}
	for k, v := range cmd.Headers {
		req.Header.Set(k, v)
	}
	req.ContentLength = int64(len(cmd.Body))
	r, terr := inst.app.Test(req, -1)
	if terr != nil {
		resp.Err = "app.Test: " + terr.Error()
		return
	}
	b, _ := io.ReadAll(io.LimitReader(r.Body, 4096))
	r.Body.Close()
	resp.Status, resp.Body = r.StatusCode, string(b)
}

// c04Quiesce is a liveness aid (never an oracle): it returns once every buffered
// row is written, or when a failed flush made that impossible and nothing moved
// for a while.
func c04Quiesce(buf *ingest.ArrowBuffer) string {
	var last c04Stats
	stall := 0
	for i := 0; i < 120_000; i++ {
		st := c04StatsOf(buf)
		if st.Depth == 0 && st.Active == 0 && st.Written >= st.Buffered {
			return "exact"
		}
		if st == last {
			stall++
		} else {
			last, stall = st, 0
		}
		if stall > 1500 && st.Depth == 0 && st.Active == 0 && st.Errors > 0 {
			return "stall"
		}
		time.Sleep(time.Millisecond)
	}
	return "timeout"
}

// ---------------------------------------------------------------- parent side

type c04Child struct {
	cmd      *exec.Cmd
	enc      *json.Encoder
	dec      *json.Decoder
	cmdW     *os.File
	respR    *os.File
	stderrF  *os.File
	stderrAt int64
	dead     bool
	served   int // server instances built in this process
}

// c04StartChild starts a child process and builds its first server instance.
func c04StartChild(cfg c04ServerCfg) (*c04Child, error) {
	c, err := c04Spawn()
	if err != nil {
		return nil, err
	}
	if err := c.reset(cfg); err != nil {
		c.stop()
		return nil, err
	}
	return c, nil
}

// reset asks the child for a fresh server instance (closing the previous one).
func (c *c04Child) reset(cfg c04ServerCfg) error {
	resp, died, diag := c.do(c04Cmd{Op: "reset", Cfg: &cfg})
	if died {
		return fmt.Errorf("child died on reset: %s", diag)
	}
	if resp.Err != "" {
		return fmt.Errorf("%s", resp.Err)
	}
	c.served++
	return nil
}

func c04Spawn() (*c04Child, error) {
	bin := os.Getenv("VERIF_BIN")
	if bin == "" {
		var err error
		if bin, err = os.Executable(); err != nil {
			return nil, err
		}
	}
	cmdR, cmdW, err := os.Pipe()
	if err != nil {
		return nil, err
	}
	respR, respW, err := os.Pipe()
	if err != nil {
		return nil, err
	}
	stderrF, err := os.CreateTemp("", "c04-stderr-*")
	if err != nil {
		return nil, err
	}
	c := exec.Command(bin)
	c.Env = append(os.Environ(), "VERIF_MODE=c04-server", "VERIF_OUT=", "GOTRACEBACK=all")
	c.ExtraFiles = []*os.File{cmdR, respW}
	c.Stdout = stderrF
	c.Stderr = stderrF
	if err := c.Start(); err != nil {
		return nil, err
	}
	cmdR.Close()
	respW.Close()
	return &c04Child{cmd: c, enc: json.NewEncoder(cmdW), dec: json.NewDecoder(respR), cmdW: cmdW, respR: respR, stderrF: stderrF}, nil
}

// stderrNew returns what the child wrote to stdout/stderr since the last call.
func (c *c04Child) stderrNew() string {
	st, err := os.Stat(c.stderrF.Name())
	if err != nil || st.Size() <= c.stderrAt {
		return ""
	}
	b := make([]byte, st.Size()-c.stderrAt)
	n, _ := c.stderrF.ReadAt(b, c.stderrAt)
	c.stderrAt += int64(n)
	return string(b[:n])
}

// do sends one command. died=true means the child process is gone (crash).
func (c *c04Child) do(cmd c04Cmd) (resp c04Resp, died bool, diag string) {
	if c.dead {
		return resp, true, "child already dead"
	}
	if err := c.enc.Encode(&cmd); err != nil {
		return resp, true, c.reap("write: " + err.Error())
	}
	if err := c.dec.Decode(&resp); err != nil {
		return resp, true, c.reap("read: " + err.Error())
	}
	return resp, false, ""
}

func (c *c04Child) reap(why string) string {
	c.dead = true
	c.cmdW.Close()
	err := c.cmd.Wait()
	// the whole output, not just the unread part: a per-request check may already
	// have consumed the beginning of the fatal panic
	all, _ := os.ReadFile(c.stderrF.Name())
	c.stderrAt = int64(len(all))
	return fmt.Sprintf("%s; exit=%v; %s", why, err, c04PanicHead(string(all)))
}

// c04PanicHead extracts the panic / fatal error message and the first arc frames.
func c04PanicHead(s string) string {
	idx := strings.LastIndex(s, "panic: ")
	if j := strings.LastIndex(s, "fatal error: "); j > idx {
		idx = j
	}
	if idx < 0 {
		if len(s) > 600 {
			s = s[len(s)-600:]
		}
		return "stderr: " + s
	}
	lines := strings.Split(s[idx:], "\n")
	var keep []string
	keep = append(keep, lines[0])
	for _, l := range lines[1:] {
		if (strings.Contains(l, "basekick-labs/arc/internal") || strings.Contains(l, "arrow-go") || strings.Contains(l, "msgpack/v6")) && !strings.Contains(l, "verif") && strings.Contains(l, "(") && !strings.HasPrefix(l, "\t") {
			keep = append(keep, strings.TrimSpace(l))
			if len(keep) >= 6 {
				break
			}
		}
	}
	return strings.Join(keep, " <- ")
}

// stop closes the child politely (or kills it) and removes its stderr file.
func (c *c04Child) stop() {
	if !c.dead {
		c.dead = true
		c.cmdW.Close()
		done := make(chan struct{})
		go func() { _ = c.cmd.Wait(); close(done) }()
		select {
		case <-done:
		case <-time.After(20 * time.Second):
			_ = c.cmd.Process.Kill()
			<-done
		}
	}
	c.respR.Close()
	c.stderrF.Close()
	os.Remove(c.stderrF.Name())
}

// panicSeen checks the child's new output for panic text. A panic recovered by
// the middleware leaves the process alive; a panic in a background goroutine
// kills it - the ping tells the two apart. Returns (recovered, crashDiag).
func (c *c04Child) panicSeen() (text string, crashed bool, diag string) {
	se := c.stderrNew()
	if !c04IsRecoveredPanic(se) {
		return "", false, ""
	}
	// give a dying process a moment to finish writing its trace and exit
	if _, died, d := c.do(c04Cmd{Op: "ping"}); died {
		return se, true, d
	}
	time.Sleep(20 * time.Millisecond)
	if _, died, d := c.do(c04Cmd{Op: "ping"}); died {
		return se, true, d
	}
	return se + c.stderrNew(), false, ""
}
