//go:build verif

package api

// C04 - No request payload can crash the server.
//
// Generated sequences of hostile write/import requests against ONE server
// instance running in a child process (see zz_c04_child_verif_test.go).
// Oracle, per request: the child is still alive and answered; no panic was
// recovered by the middleware; a 4xx/5xx answer appended no rows to the ingest
// buffers. At the end of the sequence (forced flush through the admin flush
// endpoint + quiesce): the number of rows in storage equals the rows appended by
// accepted requests, every file is readable, and every row of every accepted
// structure-aware ("known") request is present with all its columns and values.

import (
	"bytes"
	"compress/gzip"
	"database/sql"
	"encoding/base64"
	"encoding/binary"
	"encoding/csv"
	"encoding/json"
	"fmt"
	"math"
	"mime/multipart"
	"net/url"
	"os"
	"path/filepath"
	"sort"
	"strconv"
	"strings"
	"sync"
	"testing"
	"time"

	"github.com/apache/arrow-go/v18/arrow"
	"github.com/apache/arrow-go/v18/arrow/array"
	"github.com/apache/arrow-go/v18/arrow/decimal128"
	"github.com/apache/arrow-go/v18/arrow/memory"
	"github.com/apache/arrow-go/v18/parquet"
	"github.com/apache/arrow-go/v18/parquet/pqarrow"
	"github.com/basekick-labs/arc/internal/verifkit"
	"github.com/basekick-labs/arc/internal/verifkit/duck"
	"github.com/klauspost/compress/zstd"
	"pgregory.net/rapid"
)

// Known findings (each with a generator/oracle exclusion that is on only while
// the finding is listed as open in findings/C04.json).
const (
	kfC04EmptyColumn      = "C04-empty-column-name-panic"
	kfC04UnderscoreFlip   = "C04-underscore-type-flip-panic"
	kfC04UnderscoreDrop   = "C04-underscore-column-dropped"
	kfC04PartialStore     = "C04-partial-store-on-reject"
	kfC04TLEShortLine     = "C04-tle-short-line1-panic"
	kfC04SchemaCacheAlias = "C04-schema-cache-key-alias"
	kfC04InvalidUTF8      = "C04-invalid-utf8-stored"
	kfC04ParquetNilDeref  = "C04-parquet-import-nil-deref"
	kfC04MsgpackNilKey    = "C04-msgpack-nil-map-key-panic"
	kfC04ZeroRowBatch     = "C04-zero-row-batch-poisons-flush"
	kfC04NilKeyDiscard    = "C04-msgpack-nil-key-in-unused-value-panic"
	kfC04ParquetFooter    = "C04-parquet-import-footer-panic"
)

const c04BaseMicros = int64(1_700_000_000_000_000)

var (
	c04DuckOnce sync.Once
	c04DuckDB   *sql.DB
	c04DuckErr  error
)

func c04Duck() (*sql.DB, error) {
	c04DuckOnce.Do(func() {
		c04DuckDB, c04DuckErr = duck.Open()
		if c04DuckErr == nil {
			// tiny files: one thread is plenty and avoids a worker pool per core
			_, c04DuckErr = c04DuckDB.Exec("SET threads=1")
		}
	})
	return c04DuckDB, c04DuckErr
}

// ---------------------------------------------------------------- msgpack encoder

type mpPair struct {
	K string
	V any
}
type mpMap []mpPair
type mpRaw []byte // pre-encoded bytes spliced in verbatim

func mpEncode(b []byte, v any) []byte {
	switch x := v.(type) {
	case nil:
		return append(b, 0xc0)
	case bool:
		if x {
			return append(b, 0xc3)
		}
		return append(b, 0xc2)
	case int:
		return mpEncode(b, int64(x))
	case int64:
		switch {
		case x >= 0 && x <= 127:
			return append(b, byte(x))
		case x < 0 && x >= -32:
			return append(b, byte(x))
		default:
			b = append(b, 0xd3)
			return binary.BigEndian.AppendUint64(b, uint64(x))
		}
	case uint64:
		b = append(b, 0xcf)
		return binary.BigEndian.AppendUint64(b, x)
	case float64:
		b = append(b, 0xcb)
		return binary.BigEndian.AppendUint64(b, math.Float64bits(x))
	case float32:
		b = append(b, 0xca)
		return binary.BigEndian.AppendUint32(b, math.Float32bits(x))
	case string:
		n := len(x)
		switch {
		case n < 32:
			b = append(b, 0xa0|byte(n))
		case n < 256:
			b = append(b, 0xd9, byte(n))
		default:
			b = append(b, 0xda, byte(n>>8), byte(n))
		}
		return append(b, x...)
	case []byte:
		b = append(b, 0xc5, byte(len(x)>>8), byte(len(x)))
		return append(b, x...)
	case mpRaw:
		return append(b, x...)
	case []any:
		n := len(x)
		if n < 16 {
			b = append(b, 0x90|byte(n))
		} else {
			b = append(b, 0xdc, byte(n>>8), byte(n))
		}
		for _, e := range x {
			b = mpEncode(b, e)
		}
		return b
	case mpMap:
		n := len(x)
		if n < 16 {
			b = append(b, 0x80|byte(n))
		} else {
			b = append(b, 0xde, byte(n>>8), byte(n))
		}
		for _, p := range x {
			b = mpEncode(b, p.K)
			b = mpEncode(b, p.V)
		}
		return b
	}
	panic(fmt.Sprintf("mpEncode: unsupported %T", v))
}

// ---------------------------------------------------------------- case model

type c04Row struct {
	DB, M string
	Cells map[string]string
}

type c04Req struct {
	Kind    string
	Desc    string
	Method  string
	Path    string
	Headers map[string]string
	Body    []byte
	Known   bool     // every model row must be stored when the request is accepted
	Rows    []c04Row `json:",omitempty"`
	NRows   int      // rows an acceptance stores when only the count is known (-1 unknown)
	Opaque  bool     // bytes were mutated / raw: the request's structure is not known
	preWrap []byte   // body before the compression wrapper (not serialised)
	// outcome (filled while running; kept for the replay file)
	Status int   `json:",omitempty"`
	Delta  int64 `json:",omitempty"`
}

type c04Seq struct {
	Cfg  c04ServerCfg
	Reqs []*c04Req
}

// generator state shared by the requests of one sequence
type c04Gen struct {
	t         *rapid.T
	pinned    map[string]string // '_' column -> type, while the type-flip finding is open
	hostile   bool              // sequence used a hostile column name
	unknown   bool              // current request has a shape whose stored rows cannot be modelled
	schemaVar map[string]map[string]bool
}

var (
	c04NormalCols     = []string{"v", "w", "host"}
	c04UnderscoreCols = []string{"_x", "_", "__y"}
	c04ReservedCols   = []string{"measurement", "database", "_measurement", "_database", "m", "columns", "batch"}
	c04SpaceCols      = []string{"a b", "a", "b c", "c"}
	c04AliasCols      = []string{"a", "b", "a:i64,b", "a:str,b", "a:f64,b", "b:str,c"} // names whose "name:type" lists can serialise alike
	c04OddCols        = []string{strings.Repeat("L", 300), "температура", "日本", "a\"b", "a,b", "a=b", "a/b", "..", "1"}
	c04Measurements   = []string{"cpu", "mem"}
	c04BadMeasurement = []string{"", "../etc", "a/b", "1cpu", "_m", "cp u", strings.Repeat("m", 200), "cpu\x01", "cé"}
	c04Databases      = []string{"", "dbA"}
	c04SafeStrings    = []string{"", "a", "srv 1", "x9", "NULL", "true", "12", "éa"}
)

// colName draws a column name; lpSafe restricts to names the LP text format can carry.
func (g *c04Gen) colName(label string, lpSafe bool) string {
	t := g.t
	var pools [][]string
	pools = append(pools, c04NormalCols, c04NormalCols, c04UnderscoreCols, c04ReservedCols, c04OddCols, c04AliasCols)
	if verifkit.Excluded(kfC04SchemaCacheAlias) {
		verifkit.CountExcluded(kfC04SchemaCacheAlias)
	} else {
		pools = append(pools, c04SpaceCols, c04SpaceCols)
	}
	for {
		pool := pools[rapid.IntRange(0, len(pools)-1).Draw(t, label+"pool")]
		name := rapid.SampledFrom(pool).Draw(t, label)
		// '=' inside an LP key is C01's territory (the parser splits at the first raw '=')
		if lpSafe && (strings.ContainsAny(name, "\"\\\n=") || name == "") {
			continue
		}
		if len(name) == 0 || name[0] == '_' || !strings.Contains("vwhost", name) {
			g.hostile = true
		}
		return name
	}
}

// colType draws a column type; '_' columns keep one type per sequence while the
// type-flip finding is open.
func (g *c04Gen) colType(name, label string, allowNil bool) string {
	types := []string{"int", "float", "str", "bool"}
	if allowNil {
		types = append(types, "nil")
	}
	typ := rapid.SampledFrom(types).Draw(g.t, label)
	if len(name) > 0 && name[0] == '_' && verifkit.Excluded(kfC04UnderscoreFlip) {
		verifkit.CountExcluded(kfC04UnderscoreFlip)
		if p, ok := g.pinned[name]; ok {
			return p
		}
		if typ == "nil" {
			typ = "str" // an all-nil column is written as a string column
		}
		g.pinned[name] = typ
	}
	return typ
}

func (g *c04Gen) noteSchema(db, m, sig string) {
	k := db + "/" + m
	if g.schemaVar[k] == nil {
		g.schemaVar[k] = map[string]bool{}
	}
	g.schemaVar[k][sig] = true
}

func (g *c04Gen) value(typ, label string) (any, string) {
	t := g.t
	switch typ {
	case "int":
		v := rapid.Int64Range(-1000, 1000).Draw(t, label)
		if rapid.IntRange(0, 9).Draw(t, label+"big") == 0 {
			v = rapid.Int64().Draw(t, label+"v")
		}
		return v, duck.Canon(v)
	case "float":
		v := float64(rapid.IntRange(-4000, 4000).Draw(t, label))/16 + 0.03125
		return v, duck.Canon(v)
	case "bool":
		v := rapid.Bool().Draw(t, label)
		return v, duck.Canon(v)
	case "str":
		v := rapid.SampledFrom(c04SafeStrings).Draw(t, label)
		return v, duck.Canon(v)
	}
	return nil, duck.Null
}

func c04DBName(db string) string {
	if db == "" {
		return "default"
	}
	return db
}

// ---------------------------------------------------------------- msgpack requests

// msgpackItem builds one columnar item {m, columns}. poison makes a column with
// mixed element types, which the typed conversion rejects at write time.
func (g *c04Gen) msgpackItem(db, m string, poison, lenMismatch bool) (mpMap, []c04Row) {
	t := g.t
	n := rapid.IntRange(1, 4).Draw(t, "rows")
	cols := mpMap{}
	rows := make([]c04Row, n)
	times := make([]any, n)
	for i := range rows {
		ts := c04BaseMicros + int64(rapid.IntRange(0, 7_199_999).Draw(t, "toff"))*1000
		times[i] = ts
		rows[i] = c04Row{DB: c04DBName(db), M: m, Cells: map[string]string{"time": "t:" + strconv.FormatInt(ts, 10)}}
	}
	cols = append(cols, mpPair{"time", times})
	ncols := rapid.IntRange(1, 4).Draw(t, "ncols")
	seen := map[string]bool{"time": true}
	var sig []string
	for c := 0; c < ncols; c++ {
		name := g.colName("col", false)
		if rapid.IntRange(0, 11).Draw(t, "emptyname") == 0 {
			if verifkit.Excluded(kfC04EmptyColumn) {
				verifkit.CountExcluded(kfC04EmptyColumn)
			} else {
				// must be rejected (400) or, inside an array/batch, the item is
				// skipped: either way the stored rows cannot be modelled
				name = ""
				g.hostile = true
				g.unknown = true
			}
		}
		if seen[name] {
			continue
		}
		seen[name] = true
		typ := g.colType(name, "type", true)
		sig = append(sig, name+":"+typ)
		// an all-null column is written as a string column, so while the '_' type-flip
		// finding is open a pinned '_' column gets no nulls at all
		noNulls := len(name) > 0 && name[0] == '_' && verifkit.Excluded(kfC04UnderscoreFlip)
		vals := make([]any, n)
		for i := 0; i < n; i++ {
			if typ == "nil" || (!noNulls && rapid.IntRange(0, 7).Draw(t, "null") == 0) {
				vals[i] = nil
				continue
			}
			v, canon := g.value(typ, "val")
			vals[i] = v
			rows[i].Cells[name] = canon
		}
		cols = append(cols, mpPair{name, vals})
	}
	if poison {
		// a column the typed conversion rejects at WRITE time (decode accepts it):
		// mixed int/string elements, or a nested array when there is a single row
		bad := make([]any, n)
		for i := range bad {
			bad[i] = int64(i)
		}
		switch {
		case n == 1:
			bad[0] = []any{}
		case rapid.Bool().Draw(t, "poisonStrFirst"):
			for i := range bad {
				bad[i] = "s"
			}
			bad[n-1] = int64(7)
		default:
			bad[n-1] = "x"
		}
		cols = append(cols, mpPair{"pz", bad})
	}
	if lenMismatch {
		// one column longer than the others - or an internal ('_') column SHORTER than
		// the data columns (the time values above are not sorted, so a flush would
		// permute every column): the decoder must reject the item
		if n >= 2 && rapid.Bool().Draw(t, "shortUnderscore") {
			lm := make([]any, rapid.IntRange(1, n-1).Draw(t, "shortLen"))
			for i := range lm {
				lm[i] = "src"
			}
			cols = append(cols, mpPair{"_lm", lm})
		} else {
			lm := make([]any, n+1)
			for i := range lm {
				lm[i] = int64(i)
			}
			cols = append(cols, mpPair{"lm", lm})
		}
	}
	sort.Strings(sig)
	g.noteSchema(c04DBName(db), m, strings.Join(sig, ","))
	return mpMap{{"m", m}, {"columns", cols}}, rows
}

func (g *c04Gen) msgpackColumnar() *c04Req {
	t := g.t
	db := rapid.SampledFrom(c04Databases).Draw(t, "db")
	r := &c04Req{Kind: "msgpack", Method: "POST", Path: "/api/v1/write/msgpack",
		Headers: map[string]string{"Content-Type": "application/msgpack"}, Known: true, NRows: -1}
	if db != "" {
		r.Headers["x-arc-database"] = db
	}
	shape := rapid.SampledFrom([]string{"single", "single", "array", "batch"}).Draw(t, "shape")
	nitems := 1
	if shape != "single" {
		nitems = rapid.IntRange(1, 3).Draw(t, "nitems")
	}
	badM := rapid.IntRange(0, 9).Draw(t, "badm") == 0
	poison := rapid.IntRange(0, 7).Draw(t, "poison") == 0
	if poison && nitems > 1 && verifkit.Excluded(kfC04PartialStore) {
		verifkit.CountExcluded(kfC04PartialStore)
		poison = false
	}
	lenMismatch := rapid.IntRange(0, 11).Draw(t, "lenMismatch") == 0
	g.unknown = false
	var items []any
	for i := 0; i < nitems; i++ {
		m := rapid.SampledFrom(c04Measurements).Draw(t, "m")
		last := i == nitems-1
		if badM && last {
			m = rapid.SampledFrom(c04BadMeasurement).Draw(t, "badmname")
		}
		item, rows := g.msgpackItem(db, m, poison && last, lenMismatch && last)
		items = append(items, item)
		r.Rows = append(r.Rows, rows...)
	}
	zeroRows := rapid.IntRange(0, 15).Draw(t, "zeroRows") == 0
	if zeroRows && verifkit.Excluded(kfC04ZeroRowBatch) {
		verifkit.CountExcluded(kfC04ZeroRowBatch)
		zeroRows = false
	}
	if zeroRows {
		// every column array empty: accepted as a zero-row batch (or rejected) - either
		// way it must store nothing and must not disturb later requests
		cols := mpMap{{"v", []any{}}}
		if rapid.Bool().Draw(t, "zeroRowsTime") {
			cols = mpMap{{"time", []any{}}, {"v", []any{}}}
		}
		items[len(items)-1] = c04Columnar(rapid.SampledFrom(c04Measurements).Draw(t, "zm"), cols)
		if len(items) == 1 {
			r.Rows = nil
		} else {
			g.unknown = true
		}
	}
	switch shape {
	case "single":
		r.Body = mpEncode(nil, items[0])
	case "array":
		r.Body = mpEncode(nil, items)
	default:
		r.Body = mpEncode(nil, mpMap{{"batch", items}})
	}
	r.Desc = fmt.Sprintf("msgpack %s items=%d badM=%v poison=%v lenMismatch=%v zeroRows=%v", shape, nitems, badM, poison, lenMismatch, zeroRows)
	if poison || badM || lenMismatch || g.unknown {
		// a rejection is the only acceptable outcome we can model; if the server
		// accepts it anyway we only know the row delta
		r.Known = false
	}
	return r
}

// msgpackRows: legacy row format {m,t,fields,tags} with hostile field/tag names.
func (g *c04Gen) msgpackRows() *c04Req {
	t := g.t
	db := rapid.SampledFrom(c04Databases).Draw(t, "db")
	r := &c04Req{Kind: "msgpack-rows", Method: "POST", Path: "/api/v1/write/msgpack",
		Headers: map[string]string{}, NRows: -1}
	if db != "" {
		r.Headers["x-arc-database"] = db
	}
	n := rapid.IntRange(1, 3).Draw(t, "nrows")
	oneM := ""
	var items []any
	for i := 0; i < n; i++ {
		fields := mpMap{}
		nf := rapid.IntRange(1, 3).Draw(t, "nf")
		seen := map[string]bool{}
		for f := 0; f < nf; f++ {
			name := g.colName("field", false)
			if rapid.IntRange(0, 11).Draw(t, "emptyname") == 0 && !verifkit.Excluded(kfC04EmptyColumn) {
				name = ""
			}
			if seen[name] {
				continue
			}
			seen[name] = true
			v, _ := g.value(g.colType(name, "ftype", false), "fval")
			fields = append(fields, mpPair{name, v})
		}
		m := rapid.SampledFrom(c04Measurements).Draw(t, "m")
		if verifkit.Excluded(kfC04PartialStore) {
			// rows are grouped and written per measurement: with two measurements a
			// type clash in one of them is the open partial-store shape
			if i == 0 {
				oneM = m
			} else if m != oneM {
				verifkit.CountExcluded(kfC04PartialStore)
				m = oneM
			}
		}
		item := mpMap{{"m", m},
			{"t", (c04BaseMicros + int64(i)) / 1000}, {"fields", fields}}
		if rapid.Bool().Draw(t, "tags") {
			item = append(item, mpPair{"tags", mpMap{{g.colName("tag", false), "tv"}}})
		}
		items = append(items, item)
	}
	if n == 1 && rapid.Bool().Draw(t, "single") {
		r.Body = mpEncode(nil, items[0])
	} else {
		r.Body = mpEncode(nil, items)
	}
	r.Desc = fmt.Sprintf("msgpack row-format items=%d", n)
	return r
}

// ---------------------------------------------------------------- line protocol

func c04LPEscapeKey(s string) string {
	r := strings.NewReplacer(",", "\\,", "=", "\\=", " ", "\\ ")
	return r.Replace(s)
}

func c04LPValue(typ string, v any) string {
	switch typ {
	case "int":
		return strconv.FormatInt(v.(int64), 10) + "i"
	case "float":
		return strconv.FormatFloat(v.(float64), 'f', -1, 64)
	case "bool":
		return strconv.FormatBool(v.(bool))
	default:
		s := v.(string)
		s = strings.ReplaceAll(s, "\\", "\\\\")
		s = strings.ReplaceAll(s, "\"", "\\\"")
		return "\"" + s + "\""
	}
}

func (g *c04Gen) lineProtocol() *c04Req {
	t := g.t
	db := rapid.SampledFrom([]string{"default", "dbA"}).Draw(t, "db")
	precision := rapid.SampledFrom([]string{"", "ns", "us", "ms", "s"}).Draw(t, "precision")
	r := &c04Req{Kind: "lp", Method: "POST", Headers: map[string]string{}, Known: true, NRows: -1}
	nm := rapid.IntRange(1, 3).Draw(t, "nmeas")
	badM := rapid.IntRange(0, 9).Draw(t, "badm") == 0
	poison := rapid.IntRange(0, 7).Draw(t, "poison") == 0
	if poison && nm > 1 && verifkit.Excluded(kfC04PartialStore) {
		verifkit.CountExcluded(kfC04PartialStore)
		poison = false
	}
	var lines []string
	meas := []string{"cpu", "mem", "disk"}[:nm]
	for mi, m := range meas {
		last := mi == nm-1
		name := m
		if badM && last {
			name = rapid.SampledFrom([]string{"../etc", "a/b", "1cpu", "_m", "cpu\x01"}).Draw(t, "badmname")
		}
		// schema for this measurement in this request
		nf := rapid.IntRange(1, 3).Draw(t, "nf")
		type fld struct{ name, typ string }
		var flds []fld
		seen := map[string]bool{"time": true}
		var sig []string
		for f := 0; f < nf; f++ {
			fn := g.colName("field", true)
			if seen[fn] {
				continue
			}
			seen[fn] = true
			ft := g.colType(fn, "ftype", false)
			flds = append(flds, fld{fn, ft})
			sig = append(sig, fn+":"+ft)
		}
		if len(flds) == 0 {
			flds = append(flds, fld{"v", "int"})
		}
		var tags []string
		if rapid.Bool().Draw(t, "hastag") {
			tn := rapid.SampledFrom([]string{"region", "_t", "a b", "host2"}).Draw(t, "tagname")
			if !seen[tn] && !(tn == "a b" && verifkit.Excluded(kfC04SchemaCacheAlias)) {
				seen[tn] = true
				tags = append(tags, tn)
				sig = append(sig, tn+":str")
			}
		}
		sort.Strings(sig)
		g.noteSchema(db, name, strings.Join(sig, ","))
		nl := rapid.IntRange(1, 3).Draw(t, "nlines")
		for l := 0; l < nl; l++ {
			sec := int64(rapid.IntRange(0, 7199).Draw(t, "sec"))
			us := c04BaseMicros + sec*1_000_000
			row := c04Row{DB: db, M: name, Cells: map[string]string{"time": "t:" + strconv.FormatInt(us, 10)}}
			var sb strings.Builder
			sb.WriteString(c04LPEscapeKey(name))
			for _, tn := range tags {
				tv := rapid.SampledFrom([]string{"eu", "us1", "x"}).Draw(t, "tagval")
				sb.WriteString("," + c04LPEscapeKey(tn) + "=" + tv)
				row.Cells[tn] = duck.Canon(tv)
			}
			sb.WriteByte(' ')
			for fi, f := range flds {
				if fi > 0 {
					sb.WriteByte(',')
				}
				v, canon := g.value(f.typ, "lpval")
				if poison && last && fi == 0 && l == nl-1 {
					// mixed types in one column of this request: first line typed, this one a string
					sb.WriteString(c04LPEscapeKey(f.name) + "=\"poison\"")
					continue
				}
				sb.WriteString(c04LPEscapeKey(f.name) + "=" + c04LPValue(f.typ, v))
				row.Cells[f.name] = canon
			}
			var ts int64
			switch precision {
			case "us":
				ts = us
			case "ms":
				ts = us / 1000
			case "s":
				ts = us / 1_000_000
			default:
				ts = us * 1000
			}
			sb.WriteString(" " + strconv.FormatInt(ts, 10))
			lines = append(lines, sb.String())
			r.Rows = append(r.Rows, row)
		}
		if poison && last {
			// make sure the poisoned column has a non-string first value
			f0 := flds[0]
			typ := f0.typ
			if typ == "str" {
				typ = "int"
			}
			var v any = int64(1)
			if typ == "float" {
				v = 1.5
			} else if typ == "bool" {
				v = true
			}
			first := c04LPEscapeKey(name) + " " + c04LPEscapeKey(f0.name) + "=" + c04LPValue(typ, v) + " " + strconv.FormatInt(c04BaseMicros*1000, 10)
			lines = append([]string{first}, lines...)
		}
	}
	if rapid.Bool().Draw(t, "crlf") {
		r.Body = []byte(strings.Join(lines, "\r\n") + "\r\n")
	} else {
		r.Body = []byte(strings.Join(lines, "\n"))
	}
	q := url.Values{}
	if precision != "" {
		q.Set("precision", precision)
	}
	switch rapid.IntRange(0, 3).Draw(t, "endpoint") {
	case 0:
		q.Set("db", db)
		r.Path = "/write?" + q.Encode()
	case 1:
		q.Set("bucket", db)
		r.Path = "/api/v2/write?" + q.Encode()
	case 2:
		r.Path = "/api/v1/write/line-protocol?" + q.Encode()
		r.Headers["x-arc-database"] = db
	default:
		q.Set("db", db)
		r.Kind = "lp-import"
		r.Path = "/api/v1/import/lp?" + q.Encode()
	}
	r.Desc = fmt.Sprintf("%s measurements=%d lines=%d precision=%q badM=%v poison=%v", r.Kind, nm, len(lines), precision, badM, poison)
	if poison || badM {
		r.Known = false
	}
	return r
}

// ---------------------------------------------------------------- multipart helpers

func c04Multipart(r *c04Req, filename string, file []byte) {
	var buf bytes.Buffer
	mw := multipart.NewWriter(&buf)
	fw, _ := mw.CreateFormFile("file", filename)
	fw.Write(file)
	mw.Close()
	r.Body = buf.Bytes()
	if r.Headers == nil {
		r.Headers = map[string]string{}
	}
	r.Headers["Content-Type"] = mw.FormDataContentType()
}

// ---------------------------------------------------------------- CSV import

func (g *c04Gen) csvImport() *c04Req {
	t := g.t
	db := rapid.SampledFrom([]string{"default", "dbA"}).Draw(t, "db")
	m := rapid.SampledFrom(c04Measurements).Draw(t, "m")
	r := &c04Req{Kind: "csv", Method: "POST", Known: true, NRows: -1}
	timeCol := rapid.SampledFrom([]string{"time", "time", "ts"}).Draw(t, "timecol")
	rfc := rapid.Bool().Draw(t, "rfc3339")
	n := rapid.IntRange(1, 4).Draw(t, "rows")
	header := []string{timeCol}
	types := []string{"time"}
	seen := map[string]bool{timeCol: true, "time": true}
	ncols := rapid.IntRange(1, 4).Draw(t, "ncols")
	reject, dup := false, false
	var sig []string
	for c := 0; c < ncols; c++ {
		name := g.colName("col", false)
		if dup {
			break
		}
		switch rapid.IntRange(0, 14).Draw(t, "hdrfault") {
		case 0:
			// rejected by validateImportHeader; if it were accepted the column would
			// have to be stored like any other, so the model keeps it
			name = ""
			reject = true
		case 1:
			if len(header) > 1 {
				name = header[1] // duplicate: one column would overwrite the other
				reject, dup = true, true
			}
		}
		if seen[name] && !dup {
			continue
		}
		seen[name] = true
		header = append(header, name)
		typ := g.colType(name, "type", false)
		types = append(types, typ)
		sig = append(sig, name+":"+typ)
	}
	sort.Strings(sig)
	g.noteSchema(db, m, strings.Join(sig, ","))
	recs := [][]string{header}
	nonEmpty := make([]bool, len(header))
	for i := 0; i < n; i++ {
		us := c04BaseMicros + int64(rapid.IntRange(0, 7_199_999).Draw(t, "toff"))*1000
		row := c04Row{DB: db, M: m, Cells: map[string]string{"time": "t:" + strconv.FormatInt(us, 10)}}
		rec := make([]string, len(header))
		if rfc {
			rec[0] = time.UnixMicro(us).UTC().Format("2006-01-02T15:04:05.000000Z")
		} else {
			rec[0] = strconv.FormatInt(us, 10)
		}
		for c := 1; c < len(header); c++ {
			typ := types[c]
			empty := rapid.IntRange(0, 5).Draw(t, "emptycell") == 0
			if empty && typ != "str" && (i < n-1 || nonEmpty[c]) {
				rec[c] = "" // NULL for numeric / bool columns
				continue
			}
			v, canon := g.value(typ, "cell")
			switch typ {
			case "int":
				rec[c] = strconv.FormatInt(v.(int64), 10)
			case "float":
				rec[c] = strconv.FormatFloat(v.(float64), 'f', 5, 64) // always has a fractional part
			case "bool":
				rec[c] = strconv.FormatBool(v.(bool))
			default:
				s := "s" + v.(string) // never numeric / bool / empty
				rec[c] = s
				canon = duck.Canon(s)
			}
			nonEmpty[c] = true
			row.Cells[header[c]] = canon
		}
		recs = append(recs, rec)
		r.Rows = append(r.Rows, row)
	}
	var fb bytes.Buffer
	cw := csv.NewWriter(&fb)
	cw.WriteAll(recs)
	cw.Flush()
	q := url.Values{}
	q.Set("db", db)
	q.Set("measurement", m)
	if timeCol != "time" {
		q.Set("time_column", timeCol)
	}
	if !rfc {
		q.Set("time_format", "epoch_us")
	}
	r.Path = "/api/v1/import/csv?" + q.Encode()
	c04Multipart(r, "data.csv", fb.Bytes())
	r.Desc = fmt.Sprintf("csv header=%q rows=%d reject-expected=%v", header, n, reject)
	if dup {
		r.Known = false
	}
	return r
}

// ---------------------------------------------------------------- Parquet import

func (g *c04Gen) parquetImport() *c04Req {
	t := g.t
	db := rapid.SampledFrom([]string{"default", "dbA"}).Draw(t, "db")
	m := rapid.SampledFrom(c04Measurements).Draw(t, "m")
	n := rapid.IntRange(1, 4).Draw(t, "rows")
	r := &c04Req{Kind: "parquet", Method: "POST", NRows: n}
	mem := memory.NewGoAllocator()
	var fields []arrow.Field
	var arrs []arrow.Array
	timeKind := rapid.SampledFrom([]string{"ts_us", "ts_ns", "int_us", "str", "int8"}).Draw(t, "timekind")
	timeCol := rapid.SampledFrom([]string{"time", "ts"}).Draw(t, "timecol")
	q := url.Values{}
	q.Set("db", db)
	q.Set("measurement", m)
	if timeCol != "time" {
		q.Set("time_column", timeCol)
	}
	nullTime := rapid.IntRange(0, 9).Draw(t, "nulltime") == 0
	switch timeKind {
	case "ts_us", "ts_ns":
		unit, mul := arrow.Microsecond, int64(1)
		if timeKind == "ts_ns" {
			unit, mul = arrow.Nanosecond, 1000
		}
		typ := &arrow.TimestampType{Unit: unit, TimeZone: "UTC"}
		b := array.NewTimestampBuilder(mem, typ)
		for i := 0; i < n; i++ {
			if nullTime && i == 0 {
				b.AppendNull()
				continue
			}
			b.Append(arrow.Timestamp((c04BaseMicros + int64(i)*1000) * mul))
		}
		fields = append(fields, arrow.Field{Name: timeCol, Type: typ, Nullable: true})
		arrs = append(arrs, b.NewArray())
	case "int_us":
		b := array.NewInt64Builder(mem)
		for i := 0; i < n; i++ {
			b.Append(c04BaseMicros + int64(i)*1000)
		}
		q.Set("time_format", "epoch_us")
		fields = append(fields, arrow.Field{Name: timeCol, Type: arrow.PrimitiveTypes.Int64, Nullable: true})
		arrs = append(arrs, b.NewArray())
	case "str":
		b := array.NewStringBuilder(mem)
		for i := 0; i < n; i++ {
			b.Append(time.UnixMicro(c04BaseMicros + int64(i)*1000).UTC().Format(time.RFC3339Nano))
		}
		fields = append(fields, arrow.Field{Name: timeCol, Type: arrow.BinaryTypes.String, Nullable: true})
		arrs = append(arrs, b.NewArray())
	default: // int8: unsupported time type -> must be rejected
		b := array.NewInt8Builder(mem)
		for i := 0; i < n; i++ {
			b.Append(int8(i))
		}
		fields = append(fields, arrow.Field{Name: timeCol, Type: arrow.PrimitiveTypes.Int8, Nullable: true})
		arrs = append(arrs, b.NewArray())
		r.NRows = -1
	}
	if nullTime {
		r.NRows = -1
	}
	ncols := rapid.IntRange(1, 4).Draw(t, "ncols")
	seen := map[string]bool{timeCol: true, "time": true}
	for c := 0; c < ncols; c++ {
		name := g.colName("col", false)
		if rapid.IntRange(0, 14).Draw(t, "emptyname") == 0 {
			name = ""
		}
		if seen[name] {
			continue
		}
		seen[name] = true
		null := func(i int) bool { return rapid.IntRange(0, 5).Draw(t, "null") == 0 }
		kinds := []string{"int32", "int64", "uint64", "float32", "float64", "string", "bool", "binary", "decimal", "ts_ms", "list"}
		kind := rapid.SampledFrom(kinds).Draw(t, "pqkind")
		if name != "" && name[0] == '_' && verifkit.Excluded(kfC04UnderscoreFlip) {
			// keep the Go slice type of '_' columns stable across the sequence
			switch g.colType(name, "pqtype", false) {
			case "int":
				kind = "int64"
			case "float":
				kind = "float64"
			case "bool":
				kind = "bool"
			default:
				kind = "string"
			}
		}
		var typ arrow.DataType
		var arr arrow.Array
		switch kind {
		case "int32":
			b := array.NewInt32Builder(mem)
			for i := 0; i < n; i++ {
				if null(i) {
					b.AppendNull()
				} else {
					b.Append(int32(i - 2))
				}
			}
			typ, arr = arrow.PrimitiveTypes.Int32, b.NewArray()
		case "int64":
			b := array.NewInt64Builder(mem)
			for i := 0; i < n; i++ {
				if null(i) {
					b.AppendNull()
				} else {
					b.Append(int64(i) * 1_000_000_007)
				}
			}
			typ, arr = arrow.PrimitiveTypes.Int64, b.NewArray()
		case "uint64":
			b := array.NewUint64Builder(mem)
			for i := 0; i < n; i++ {
				b.Append(math.MaxUint64 - uint64(i))
			}
			typ, arr = arrow.PrimitiveTypes.Uint64, b.NewArray()
		case "float32":
			b := array.NewFloat32Builder(mem)
			for i := 0; i < n; i++ {
				b.Append(float32(i) / 3)
			}
			typ, arr = arrow.PrimitiveTypes.Float32, b.NewArray()
		case "float64":
			b := array.NewFloat64Builder(mem)
			for i := 0; i < n; i++ {
				if null(i) {
					b.AppendNull()
				} else {
					b.Append([]float64{0.5, math.NaN(), math.Inf(1), -0.0}[i%4])
				}
			}
			typ, arr = arrow.PrimitiveTypes.Float64, b.NewArray()
		case "string":
			b := array.NewStringBuilder(mem)
			for i := 0; i < n; i++ {
				if null(i) {
					b.AppendNull()
				} else {
					b.Append(c04SafeStrings[i%len(c04SafeStrings)])
				}
			}
			typ, arr = arrow.BinaryTypes.String, b.NewArray()
		case "bool":
			b := array.NewBooleanBuilder(mem)
			for i := 0; i < n; i++ {
				if null(i) {
					b.AppendNull()
				} else {
					b.Append(i%2 == 0)
				}
			}
			typ, arr = arrow.FixedWidthTypes.Boolean, b.NewArray()
		case "binary":
			b := array.NewBinaryBuilder(mem, arrow.BinaryTypes.Binary)
			for i := 0; i < n; i++ {
				b.Append([]byte{'b', byte('0' + i)})
			}
			typ, arr = arrow.BinaryTypes.Binary, b.NewArray()
		case "decimal":
			dt := &arrow.Decimal128Type{Precision: 10, Scale: 2}
			b := array.NewDecimal128Builder(mem, dt)
			for i := 0; i < n; i++ {
				b.Append(decimal128.FromI64(int64(i)*125 - 50))
			}
			typ, arr = dt, b.NewArray()
		case "ts_ms":
			dt := &arrow.TimestampType{Unit: arrow.Millisecond}
			b := array.NewTimestampBuilder(mem, dt)
			for i := 0; i < n; i++ {
				b.Append(arrow.Timestamp(1_700_000_000_000 + int64(i)))
			}
			typ, arr = dt, b.NewArray()
		default: // list<int64>: unsupported -> must be rejected
			lb := array.NewListBuilder(mem, arrow.PrimitiveTypes.Int64)
			vb := lb.ValueBuilder().(*array.Int64Builder)
			for i := 0; i < n; i++ {
				lb.Append(true)
				vb.Append(int64(i))
			}
			typ, arr = arrow.ListOf(arrow.PrimitiveTypes.Int64), lb.NewArray()
			r.NRows = -1
		}
		fields = append(fields, arrow.Field{Name: name, Type: typ, Nullable: true})
		arrs = append(arrs, arr)
		if name == "" {
			r.NRows = -1
		}
	}
	schema := arrow.NewSchema(fields, nil)
	rec := array.NewRecord(schema, arrs, int64(n))
	var fb bytes.Buffer
	w, err := pqarrow.NewFileWriter(schema, &fb, parquet.NewWriterProperties(), pqarrow.DefaultWriterProps())
	if err == nil {
		err = w.Write(rec)
		if cerr := w.Close(); err == nil {
			err = cerr
		}
	}
	rec.Release()
	for _, a := range arrs {
		a.Release()
	}
	if err != nil {
		// the writer refused this schema: send what we have (possibly empty)
		r.NRows = -1
	}
	r.Path = "/api/v1/import/parquet?" + q.Encode()
	c04Multipart(r, "data.parquet", fb.Bytes())
	names := make([]string, len(fields))
	for i, f := range fields {
		names[i] = f.Name + ":" + f.Type.String()
	}
	r.Desc = fmt.Sprintf("parquet rows=%d schema=%q", n, names)
	return r
}

// ---------------------------------------------------------------- TLE

func c04TLEChecksum(line string) byte {
	sum := 0
	for i := 0; i < 68; i++ {
		ch := line[i]
		if ch >= '0' && ch <= '9' {
			sum += int(ch - '0')
		} else if ch == '-' {
			sum++
		}
	}
	return byte('0' + sum%10)
}

func c04TLEEntry(norad int, day float64) (string, string, string) {
	l1 := fmt.Sprintf("1 %05dU 98067A   24%012.8f  .00016717  00000-0  10270-3 0  900", norad, day)
	l2 := fmt.Sprintf("2 %05d  51.6400 208.9163 0006703  69.9862  25.2906 15.49560532    1", norad)
	l1 = (l1 + strings.Repeat(" ", 68))[:68]
	l2 = (l2 + strings.Repeat(" ", 68))[:68]
	l1 += string(c04TLEChecksum(l1 + " "))
	l2 += string(c04TLEChecksum(l2 + " "))
	return fmt.Sprintf("SAT-%d", norad), l1, l2
}

func (g *c04Gen) tle() *c04Req {
	t := g.t
	r := &c04Req{Kind: "tle", Method: "POST", Headers: map[string]string{}, NRows: -1}
	k := rapid.IntRange(1, 3).Draw(t, "nsat")
	var lines []string
	threeLine := rapid.Bool().Draw(t, "threeline")
	for i := 0; i < k; i++ {
		name, l1, l2 := c04TLEEntry(rapid.IntRange(1, 99999).Draw(t, "norad"), 1+float64(rapid.IntRange(0, 364_000).Draw(t, "day"))/1000)
		if threeLine {
			lines = append(lines, name)
		}
		lines = append(lines, l1, l2)
	}
	r.NRows = k
	if rapid.IntRange(0, 3).Draw(t, "junk") == 0 {
		junks := []string{"1 a", "2 b", "1 25544U", "garbage line", "1 " + strings.Repeat("9", 70)}
		if verifkit.Excluded(kfC04InvalidUTF8) {
			verifkit.CountExcluded(kfC04InvalidUTF8)
		} else {
			junks = append(junks, "\xff\xfe name") // becomes an object name when it lands before a 2-line entry
		}
		junk := rapid.SampledFrom(junks).Draw(t, "junkline")
		at := rapid.IntRange(0, len(lines)).Draw(t, "junkat")
		lines = append(lines[:at], append([]string{junk}, lines[at:]...)...)
		r.NRows = -1
	}
	body := strings.Join(lines, rapid.SampledFrom([]string{"\n", "\r\n"}).Draw(t, "eol"))
	db := rapid.SampledFrom([]string{"default", "dbA"}).Draw(t, "db")
	meas := rapid.SampledFrom([]string{"", "sat2", "bad/name"}).Draw(t, "tlemeas")
	if meas != "" {
		r.Headers["x-arc-measurement"] = meas
	}
	r.Headers["x-arc-database"] = db
	if rapid.Bool().Draw(t, "import") {
		r.Kind = "tle-import"
		r.Path = "/api/v1/import/tle?db=" + db
		c04Multipart(r, "sats.tle", []byte(body))
	} else {
		r.Path = "/api/v1/write/tle"
		r.Body = []byte(body)
	}
	r.Desc = fmt.Sprintf("%s sats=%d threeLine=%v meas=%q", r.Kind, k, threeLine, meas)
	return r
}

// c04TLEShortLine1 reports whether a body has a line starting with "1 " that is
// shorter than 7 bytes and followed by another non-blank line (the known
// slice-bounds panic in ParseTLEFile).
func c04TLEShortLine1(body []byte) bool {
	var lines [][]byte
	for _, raw := range bytes.Split(body, []byte{'\n'}) {
		tr := bytes.TrimRight(raw, "\r \t")
		if len(tr) > 0 {
			lines = append(lines, tr)
		}
	}
	for i, l := range lines {
		if len(l) >= 2 && l[0] == '1' && l[1] == ' ' && len(l) < 7 && i+1 < len(lines) {
			return true
		}
	}
	return false
}

// ---------------------------------------------------------------- mutation / compression

func c04Gzip(b []byte) []byte {
	var buf bytes.Buffer
	w := gzip.NewWriter(&buf)
	w.Write(b)
	w.Close()
	return buf.Bytes()
}

func c04Zstd(b []byte) []byte {
	enc, _ := zstd.NewWriter(nil)
	defer enc.Close()
	return enc.EncodeAll(b, nil)
}

func (g *c04Gen) mutate(b []byte) []byte {
	t := g.t
	out := append([]byte(nil), b...)
	nops := rapid.IntRange(1, 3).Draw(t, "nmut")
	for i := 0; i < nops; i++ {
		if len(out) == 0 {
			out = append(out, byte(rapid.IntRange(0, 255).Draw(t, "mb")))
			continue
		}
		pos := rapid.IntRange(0, len(out)-1).Draw(t, "mpos")
		switch rapid.IntRange(0, 5).Draw(t, "mop") {
		case 0:
			out = out[:pos]
		case 1:
			out[pos] ^= byte(1 << rapid.IntRange(0, 7).Draw(t, "mbit"))
		case 2:
			out[pos] = byte(rapid.SampledFrom([]int{0x00, 0xff, 0xc1, 0xdc, 0xdd, 0xde, 0xdf, 0xc6, 0xdb, 0x80, 0x90, 0xc0, '"', '\\', '\n', ' ', ',', '='}).Draw(t, "mval"))
		case 3:
			ins := rapid.SliceOfN(rapid.Byte(), 1, 6).Draw(t, "mins")
			out = append(out[:pos], append(ins, out[pos:]...)...)
		case 4:
			end := pos + rapid.IntRange(1, 8).Draw(t, "mdel")
			if end > len(out) {
				end = len(out)
			}
			out = append(out[:pos], out[end:]...)
		default:
			end := pos + rapid.IntRange(1, 16).Draw(t, "mdup")
			if end > len(out) {
				end = len(out)
			}
			dup := append([]byte(nil), out[pos:end]...)
			out = append(out[:end], append(dup, out[end:]...)...)
		}
	}
	return out
}

// wrap applies a compression wrapper to a body endpoint request. Valid wrappers
// keep the model; broken ones make the outcome unknown (rejection expected).
func (g *c04Gen) wrap(r *c04Req) {
	t := g.t
	if strings.Contains(r.Path, "/import/") {
		return
	}
	switch rapid.IntRange(0, 19).Draw(t, "wrap") {
	case 0, 1, 2:
		r.Body = c04Gzip(r.Body)
		r.Desc += " +gzip"
		if rapid.Bool().Draw(t, "cehdr") {
			r.Headers["Content-Encoding"] = "gzip"
		}
	case 3, 4:
		r.Body = c04Zstd(r.Body)
		r.Desc += " +zstd"
	case 5:
		z := c04Gzip(r.Body)
		r.Body = z[:rapid.IntRange(2, len(z)-1).Draw(t, "ztrunc")]
		r.Desc += " +gzip-truncated"
		r.Known, r.NRows = false, -1
	case 6:
		z := c04Zstd(r.Body)
		r.Body = z[:rapid.IntRange(4, len(z)-1).Draw(t, "ztrunc")]
		r.Desc += " +zstd-truncated"
		r.Known, r.NRows = false, -1
	case 7:
		// small decompression bomb: 1 MiB of zeros (msgpack cap is 256 KiB)
		r.Body = c04Gzip(make([]byte, 1<<20))
		if rapid.Bool().Draw(t, "zbomb") {
			r.Body = c04Zstd(make([]byte, 1<<20))
		}
		r.Desc += " +bomb"
		r.Known, r.NRows = false, -1
	case 8:
		r.Body = append([]byte{0x1f, 0x8b}, r.Body...)
		r.Desc += " +fake-gzip-magic"
		r.Known, r.NRows = false, -1
	case 9:
		r.Body = append([]byte{0x28, 0xb5, 0x2f, 0xfd}, r.Body...)
		r.Desc += " +fake-zstd-magic"
		r.Known, r.NRows = false, -1
	}
}

var c04Endpoints = []string{
	"/api/v1/write/msgpack", "/write?db=default", "/api/v2/write?bucket=default", "/api/v1/write/line-protocol",
	"/api/v1/write/tle", "/api/v1/import/csv?db=default&measurement=cpu", "/api/v1/import/parquet?db=default&measurement=cpu",
	"/api/v1/import/lp?db=default", "/api/v1/import/tle?db=default",
}

func (g *c04Gen) rawRequest() *c04Req {
	t := g.t
	r := &c04Req{Kind: "raw", Method: "POST", Headers: map[string]string{}, NRows: -1, Opaque: true}
	r.Path = rapid.SampledFrom(c04Endpoints).Draw(t, "endpoint")
	prefix := rapid.SampledFrom([][]byte{nil, {0x1f, 0x8b, 8, 0}, {0x28, 0xb5, 0x2f, 0xfd}, {0x82, 0xa1, 'm'}, {0x91, 0x82}, {0xdd, 0xff, 0xff, 0xff, 0xff},
		{0x81, 0xa7, 'c', 'o', 'l', 'u', 'm', 'n', 's', 0xdf, 0x7f, 0xff, 0xff, 0xff}, []byte("cpu v=1i\n"), []byte("1 a\nb\n"), []byte("time,v\n"), []byte("PAR1")}).Draw(t, "prefix")
	body := append(append([]byte(nil), prefix...), rapid.SliceOfN(rapid.Byte(), 0, 120).Draw(t, "rawbytes")...)
	if strings.Contains(r.Path, "/import/") && rapid.IntRange(0, 3).Draw(t, "multipart") != 0 {
		c04Multipart(r, "f.bin", body)
	} else {
		r.Body = body
	}
	r.Desc = fmt.Sprintf("raw %d bytes to %s", len(body), r.Path)
	r.preWrap = r.Body
	return r
}

func (g *c04Gen) request() *c04Req {
	t := g.t
	var r *c04Req
	switch rapid.IntRange(0, 13).Draw(t, "kind") {
	case 0, 1, 2, 3, 4:
		r = g.msgpackColumnar()
	case 5:
		r = g.msgpackRows()
	case 6, 7, 8:
		r = g.lineProtocol()
	case 9, 10:
		r = g.csvImport()
	case 11:
		r = g.parquetImport()
	case 12:
		r = g.tle()
	default:
		return g.finish(g.rawRequest())
	}
	if r.Kind == "lp-import" {
		c04Multipart(r, "data.lp", r.Body)
	}
	switch rapid.IntRange(0, 9).Draw(t, "mode") {
	case 0, 1: // byte-level mutation of the structure-aware payload
		r.Body = g.mutate(r.Body)
		r.Known, r.NRows, r.Opaque = false, -1, true
		r.Desc += " +mutated"
	default:
	}
	r.preWrap = r.Body
	g.wrap(r)
	return g.finish(r)
}

// c04TextEndpoint reports whether the endpoint takes a text body (LP, CSV, TLE).
func c04TextEndpoint(path string) bool {
	return !strings.Contains(path, "msgpack") && !strings.Contains(path, "parquet")
}

func c04HasCompressionMagic(b []byte) bool {
	return (len(b) >= 2 && b[0] == 0x1f && b[1] == 0x8b) || (len(b) >= 4 && b[0] == 0x28 && b[1] == 0xb5 && b[2] == 0x2f && b[3] == 0xfd)
}

// finish applies body-level exclusions of open findings. They work on the bytes
// before any compression wrapper; when those change, a wrapped body is rebuilt as
// plain gzip of the fixed bytes.
func (g *c04Gen) finish(r *c04Req) *c04Req {
	plain := r.preWrap
	if plain == nil {
		plain = r.Body
	}
	if c04HasCompressionMagic(plain) {
		return r // compressed garbage: rejected (or not) at the decompression stage
	}
	fixed := plain
	if strings.Contains(r.Path, "/tle") && verifkit.Excluded(kfC04TLEShortLine) && c04TLEShortLine1(fixed) {
		verifkit.CountExcluded(kfC04TLEShortLine)
		fixed = bytes.ReplaceAll(fixed, []byte("1 "), []byte("1_"))
		r.Desc += " (short TLE line-1 neutralised)"
	}
	if r.Opaque && c04TextEndpoint(r.Path) && verifkit.Excluded(kfC04InvalidUTF8) {
		// keep text payloads valid UTF-8
		if v := bytes.ToValidUTF8(fixed, []byte("?")); !bytes.Equal(v, fixed) {
			verifkit.CountExcluded(kfC04InvalidUTF8)
			fixed = v
			r.Desc += " (made valid UTF-8)"
		}
	}
	if bytes.Equal(fixed, plain) {
		return r
	}
	if bytes.Equal(r.Body, plain) {
		r.Body = fixed
	} else {
		r.Body = c04Gzip(fixed)
		r.Desc += " (re-wrapped as gzip)"
	}
	r.preWrap = fixed
	return r
}

func c04GenSeq(t *rapid.T) (*c04Seq, *c04Gen) {
	g := &c04Gen{t: t, pinned: map[string]string{}, schemaVar: map[string]map[string]bool{}}
	s := &c04Seq{Cfg: c04ServerCfg{
		MaxBufferSize:  rapid.IntRange(1, 12).Draw(t, "maxBufferSize"),
		MaxBufferAgeMS: rapid.SampledFrom([]int{3_600_000, 3_600_000, 40}).Draw(t, "maxAgeMS"),
		FlushWorkers:   rapid.IntRange(1, 3).Draw(t, "workers"),
		ShardCount:     rapid.IntRange(1, 3).Draw(t, "shards"),
		MaxPayload:     256 << 10,
	}}
	n := rapid.IntRange(3, 12).Draw(t, "nreq")
	for i := 0; i < n; i++ {
		s.Reqs = append(s.Reqs, g.request())
		if rapid.IntRange(0, 7).Draw(t, "midflush") == 0 {
			s.Reqs = append(s.Reqs, &c04Req{Kind: "flush", Method: "POST", Path: "/api/v1/write/line-protocol/flush", NRows: 0, Desc: "admin flush"})
		}
	}
	return s, g
}

// ---------------------------------------------------------------- execution + oracle

type c04Failure struct {
	Class  string
	Detail string
}

func c04RowKey(r c04Row, dropUnderscore bool) string {
	m := map[string]string{"\x00db": r.DB, "\x00m": r.M}
	for k, v := range r.Cells {
		if dropUnderscore && len(k) > 0 && k[0] == '_' {
			continue
		}
		m[k] = v
	}
	return duck.RowKey(m, true)
}

// c04ReadStore reads every parquet file under root. It returns the row multiset
// (db/measurement added as pseudo columns) and the total row count.
func c04ReadStore(root string, dropUnderscore bool) (duck.Multiset, int64, *c04Failure) {
	db, err := c04Duck()
	if err != nil {
		return nil, 0, &c04Failure{"harness", "duckdb: " + err.Error()}
	}
	ms := duck.Multiset{}
	var total int64
	var unreadable []string
	for _, f := range duck.FindParquet(root) {
		rel, _ := filepath.Rel(root, f)
		parts := strings.Split(filepath.ToSlash(rel), "/")
		tb, err := duck.ReadParquet(db, []string{f})
		if err != nil {
			unreadable = append(unreadable, fmt.Sprintf("%s: %v", rel, err))
			continue
		}
		total += int64(len(tb.Rows))
		for _, m := range tb.RowMaps() {
			if dropUnderscore {
				for k := range m {
					if len(k) > 0 && k[0] == '_' {
						delete(m, k)
					}
				}
			}
			if len(parts) >= 2 {
				m["\x00db"], m["\x00m"] = parts[0], parts[1]
			}
			ms[duck.RowKey(m, true)]++
		}
	}
	if len(unreadable) > 0 {
		return ms, total, &c04Failure{"stored-file-unreadable", strings.Join(unreadable, "\n  ")}
	}
	return ms, total, nil
}

// c04OnlyUTF8Errors reports whether every unreadable-file message is DuckDB's
// invalid-UTF-8 complaint (value or column name).
func c04OnlyUTF8Errors(detail string) bool {
	for _, l := range strings.Split(detail, "\n") {
		if !strings.Contains(l, "not valid UTF8") && !strings.Contains(l, "Invalid unicode") {
			return false
		}
	}
	return true
}

func c04IsRecoveredPanic(stderr string) bool {
	return strings.Contains(stderr, "panic: ") || strings.Contains(stderr, "fatal error: ")
}

// The child process is a container that is reused for up to c04MaxServed server
// instances (exec of the large test binary dominates otherwise); every sequence
// still gets its own fresh server instance, and a process that saw any failure
// is discarded.
const c04MaxServed = 25

var c04Pooled *c04Child

func c04AcquireChild(cfg c04ServerCfg) (*c04Child, error) {
	if c := c04Pooled; c != nil {
		c04Pooled = nil
		if !c.dead && c.served < c04MaxServed {
			if err := c.reset(cfg); err == nil {
				return c, nil
			}
		}
		c.stop()
	}
	return c04StartChild(cfg)
}

func c04ReleaseChild(c *c04Child, clean bool) {
	if clean && !c.dead {
		c04Pooled = c
		return
	}
	c.stop()
}

// c04RunSeq executes the sequence against a fresh server instance. It returns nil
// when the property held.
func c04RunSeq(s *c04Seq) *c04Failure {
	root, err := os.MkdirTemp("", "c04-*")
	if err != nil {
		return &c04Failure{"harness", err.Error()}
	}
	defer os.RemoveAll(root)
	cfg := s.Cfg
	cfg.Root = root
	child, err := c04AcquireChild(cfg)
	if err != nil {
		return &c04Failure{"harness", "start child: " + err.Error()}
	}
	clean := false
	defer func() { c04ReleaseChild(child, clean) }()

	dropUnderscore := verifkit.Excluded(kfC04UnderscoreDrop)
	var acceptedTotal int64
	var knownRows []c04Row
	opaqueAccepted := false
	opaqueSent := false
	// crash classifies a dead server process. Two open findings kill the process
	// from a flush goroutine; structure-aware requests avoid their shapes by
	// construction, but a byte-mutated body that was (or is being) accepted can
	// still carry an empty column name or flip the type of a '_' column.
	crash := func(detail string) *c04Failure {
		if opaqueSent {
			switch {
			case strings.Contains(detail, "index out of range [0] with length 0") && strings.Contains(detail, "getSchema") && verifkit.Excluded(kfC04EmptyColumn):
				verifkit.CountExcluded(kfC04EmptyColumn)
				verifkit.Class("tolerated-crash-of-open-finding")
				return nil
			case strings.Contains(detail, "interface conversion") && strings.Contains(detail, "mergeBatches") && verifkit.Excluded(kfC04UnderscoreFlip):
				verifkit.CountExcluded(kfC04UnderscoreFlip)
				verifkit.Class("tolerated-crash-of-open-finding")
				return nil
			}
		}
		return &c04Failure{"process-crash", detail}
	}
	for i, r := range s.Reqs {
		if r.Opaque {
			opaqueSent = true
		}
		resp, died, diag := child.do(c04Cmd{Op: "req", Method: r.Method, Path: r.Path, Headers: r.Headers, Body: r.Body})
		if died {
			return crash(fmt.Sprintf("request #%d (%s) killed the server process: %s", i, r.Desc, diag))
		}
		if se, crashed, cdiag := child.panicSeen(); crashed {
			return crash(fmt.Sprintf("request #%d (%s) -> %d, then the server process died: %s", i, r.Desc, resp.Status, cdiag))
		} else if se != "" {
			// Open finding C04-parquet-import-nil-deref: arrow-go's reader panics on
			// some corrupt files; only byte-mutated / raw bodies can reach it.
			// Open finding C04-msgpack-nil-map-key-panic: the msgpack library panics on a
			// map with a nil key; again only byte-mutated / raw bodies reach it.
			tolerated := ""
			switch {
			case strings.Contains(r.Path, "/import/parquet") && strings.Contains(se, "pqarrow.(*FileReader)"):
				tolerated = kfC04ParquetNilDeref
			case strings.Contains(r.Path, "/import/parquet") && strings.Contains(se, "parquet/file.(*Reader).parseMetaData"):
				tolerated = kfC04ParquetFooter // arrow-go panics while opening the file (footer), before ReadTable
			case strings.Contains(r.Path, "/write/msgpack") && strings.Contains(se, "msgpack/v6.(*Decoder).decodeTypedMapN") && strings.Contains(se, "discardValueTyped"):
				tolerated = kfC04NilKeyDiscard // the typed fast path decoding a value it does not use
			case strings.Contains(r.Path, "/write/msgpack") && strings.Contains(se, "msgpack/v6.(*Decoder).decodeTypedMapN"):
				tolerated = kfC04MsgpackNilKey
			}
			if r.Opaque && tolerated != "" && resp.Status == 500 && verifkit.Excluded(tolerated) {
				verifkit.CountExcluded(tolerated)
				if resp.After.Buffered != resp.Before.Buffered {
					return &c04Failure{"rejected-request-stored-rows", fmt.Sprintf("request #%d (%s) panicked in a third-party decoder yet appended rows", i, r.Desc)}
				}
				continue
			}
			return &c04Failure{"handler-panic", fmt.Sprintf("request #%d (%s) -> %d: panic recovered by the middleware: %s", i, r.Desc, resp.Status, c04PanicHead(se))}
		}
		if resp.Err != "" {
			return &c04Failure{"no-http-response", fmt.Sprintf("request #%d (%s): %s", i, r.Desc, resp.Err)}
		}
		r.Status, r.Delta = resp.Status, resp.After.Buffered-resp.Before.Buffered
		verifkit.Class(fmt.Sprintf("status-%dxx", resp.Status/100))
		accepted := resp.Status >= 200 && resp.Status < 300
		if !accepted {
			// Open finding C04-partial-store-on-reject: structure-aware requests avoid
			// the shape by construction, but a byte mutation can split one measurement
			// into two or poison one of several; for those (write-phase 5xx only) the
			// partial store is counted as excluded instead of reported again.
			if r.Delta != 0 && resp.Status >= 500 && r.Opaque && verifkit.Excluded(kfC04PartialStore) &&
				(strings.HasPrefix(r.Kind, "lp") || strings.HasPrefix(r.Kind, "msgpack") || r.Kind == "raw") {
				verifkit.CountExcluded(kfC04PartialStore)
				acceptedTotal += r.Delta
				continue
			}
			// Open finding C04-zero-row-batch-poisons-flush: a byte-mutated msgpack body
			// can decode to all-empty arrays; the buffered zero-row batch then makes the
			// next FlushAll-based request answer 500 although its own rows are stored.
			if r.Delta != 0 && resp.Status == 500 && opaqueAccepted && strings.Contains(resp.Body, "no time data in batch") && verifkit.Excluded(kfC04ZeroRowBatch) {
				verifkit.CountExcluded(kfC04ZeroRowBatch)
				acceptedTotal += r.Delta
				continue
			}
			if r.Delta != 0 {
				return &c04Failure{"rejected-request-stored-rows", fmt.Sprintf("request #%d (%s) answered %d %s but appended %d rows to the ingest buffers",
					i, r.Desc, resp.Status, strings.TrimSpace(resp.Body), r.Delta)}
			}
			continue
		}
		acceptedTotal += r.Delta
		if r.Opaque {
			opaqueAccepted = true
		}
		if r.Known {
			if int64(len(r.Rows)) != r.Delta {
				return &c04Failure{"accepted-row-count", fmt.Sprintf("request #%d (%s) answered %d but buffered %d rows, payload has %d",
					i, r.Desc, resp.Status, r.Delta, len(r.Rows))}
			}
			knownRows = append(knownRows, r.Rows...)
		} else if r.NRows >= 0 && int64(r.NRows) != r.Delta {
			return &c04Failure{"accepted-row-count", fmt.Sprintf("request #%d (%s) answered %d but buffered %d rows, payload has %d",
				i, r.Desc, resp.Status, r.Delta, r.NRows)}
		}
	}
	// forced flush through the admin endpoint (runs under the same middleware), then quiesce
	resp, died, diag := child.do(c04Cmd{Op: "req", Method: "POST", Path: "/api/v1/write/line-protocol/flush"})
	if died {
		return crash("final flush killed the server process: " + diag)
	}
	if se, crashed, cdiag := child.panicSeen(); crashed {
		return crash("server process died after the final flush: " + cdiag)
	} else if se != "" {
		return &c04Failure{"handler-panic", fmt.Sprintf("final flush -> %d: panic recovered by the middleware: %s", resp.Status, c04PanicHead(se))}
	}
	if resp.Status != 200 {
		return &c04Failure{"flush-failed", fmt.Sprintf("final flush answered %d %s", resp.Status, resp.Body)}
	}
	q, died, diag := child.do(c04Cmd{Op: "quiesce"})
	if died {
		return crash("server process died while flushing buffered rows: " + diag)
	}
	if q.Mode != "exact" {
		verifkit.Class("quiesce-" + q.Mode)
	}
	_, died, diag = child.do(c04Cmd{Op: "close"})
	if died {
		return crash("server process died during Close(): " + diag)
	}
	if se, crashed, cdiag := child.panicSeen(); crashed {
		return crash("server process died after Close(): " + cdiag)
	} else if se != "" {
		return &c04Failure{"handler-panic", "panic output after Close(): " + c04PanicHead(se)}
	}
	clean = true

	stored, total, fail := c04ReadStore(root, dropUnderscore)
	if fail != nil {
		// Open finding C04-invalid-utf8-stored: text payloads are kept valid UTF-8 by
		// construction; a byte-mutated binary payload (msgpack, parquet) that was
		// accepted can still carry a bad string or column name.
		if fail.Class == "stored-file-unreadable" && opaqueAccepted && verifkit.Excluded(kfC04InvalidUTF8) && c04OnlyUTF8Errors(fail.Detail) {
			verifkit.CountExcluded(kfC04InvalidUTF8)
			return nil
		}
		return fail
	}
	if total != acceptedTotal {
		return &c04Failure{"stored-row-count", fmt.Sprintf("accepted requests appended %d rows, storage holds %d (flush errors=%d)", acceptedTotal, total, q.After.Errors)}
	}
	want := duck.Multiset{}
	for _, r := range knownRows {
		want[c04RowKey(r, dropUnderscore)]++
	}
	var missing []string
	for k, n := range want {
		if stored[k] < n {
			missing = append(missing, fmt.Sprintf("row %s: accepted x%d stored x%d", k, n, stored[k]))
		}
	}
	if len(missing) > 0 {
		sort.Strings(missing)
		if len(missing) > 4 {
			missing = missing[:4]
		}
		return &c04Failure{"accepted-row-not-stored-as-sent", strings.Join(missing, "\n  ")}
	}
	if dropUnderscore {
		verifkit.CountExcluded(kfC04UnderscoreDrop)
	}
	return nil
}

func (s *c04Seq) summary() map[string]any {
	var reqs []string
	for _, r := range s.Reqs {
		reqs = append(reqs, fmt.Sprintf("%s -> %d (+%d rows)", r.Desc, r.Status, r.Delta))
	}
	return map[string]any{"server": fmt.Sprintf("maxBuffer=%d ageMS=%d workers=%d shards=%d", s.Cfg.MaxBufferSize, s.Cfg.MaxBufferAgeMS, s.Cfg.FlushWorkers, s.Cfg.ShardCount), "requests": reqs}
}

func TestVerifC04_HostileSequences(t *testing.T) {
	if strings.HasSuffix(os.Getenv("VERIF_REPLAY_FILE"), ".json") {
		t.Skip("replaying a saved sequence (TestVerifC04_Replay)")
	}
	rapid.Check(t, func(t *rapid.T) {
		s, g := c04GenSeq(t)
		fail := c04RunSeq(s)
		verifkit.Eval()
		verifkit.ClassN("requests", len(s.Reqs))
		for _, r := range s.Reqs {
			verifkit.Class("kind:" + r.Kind)
		}
		schemaVaries := false
		for _, sigs := range g.schemaVar {
			if len(sigs) > 1 {
				schemaVaries = true
			}
		}
		if schemaVaries || g.hostile {
			var sb strings.Builder
			for _, r := range s.Reqs {
				sb.WriteString(r.Path)
				sb.Write(r.Body)
			}
			verifkit.NonTrivial(sb.String())
			if schemaVaries {
				verifkit.Class("nontrivial:schema-differs-same-measurement")
			}
			if g.hostile {
				verifkit.Class("nontrivial:hostile-column-name")
			}
			if verifkit.SampleCount() < 3 && fail == nil {
				verifkit.Sample(s.summary())
			}
		}
		if fail != nil {
			if fail.Class == "harness" {
				t.Fatalf("C04 harness problem: %s", fail.Detail)
			}
			verifkit.WriteReplay("c04-sequence", s)
			t.Fatalf("VERIF-FAIL class=C04/%s\n  %s\nsequence=%v", fail.Class, fail.Detail, s.summary())
		}
	})
}

// TestVerifC04_Replay re-runs a saved sequence (replay/C04/c04-sequence-*.json,
// written by the property above) through `vcheck replay C04 <file>`.
func TestVerifC04_Replay(t *testing.T) {
	p := os.Getenv("VERIF_REPLAY_FILE")
	if p == "" || !strings.HasSuffix(p, ".json") {
		t.Skip("no VERIF_REPLAY_FILE")
	}
	b, err := os.ReadFile(p)
	if err != nil {
		t.Fatalf("read replay: %v", err)
	}
	var s c04Seq
	if err := json.Unmarshal(b, &s); err != nil {
		t.Fatalf("decode replay: %v", err)
	}
	for _, r := range s.Reqs {
		if r.Method == "" {
			r.Method = "POST"
		}
	}
	if fail := c04RunSeq(&s); fail != nil {
		t.Fatalf("VERIF-FAIL class=C04/%s\n  %s\nsequence=%v", fail.Class, fail.Detail, s.summary())
	}
	t.Logf("sequence held: %v", s.summary())
}

// ---------------------------------------------------------------- known findings

func c04MsgpackReq(db string, item any) *c04Req {
	r := &c04Req{Kind: "msgpack", Method: "POST", Path: "/api/v1/write/msgpack", Headers: map[string]string{}, Body: mpEncode(nil, item), NRows: -1}
	if db != "" {
		r.Headers["x-arc-database"] = db
	}
	return r
}

func c04Columnar(m string, cols mpMap) mpMap { return mpMap{{"m", m}, {"columns", cols}} }

// c04Play runs requests against a fresh child and reports what happened.
type c04PlayResult struct {
	statuses []int
	deltas   []int64
	crashed  bool
	crash    string
	panics   []string
	rows     int64
	store    duck.Multiset
}

func c04Play(cfg c04ServerCfg, reqs []*c04Req, flush bool) (*c04PlayResult, error) {
	root, err := os.MkdirTemp("", "c04kf-*")
	if err != nil {
		return nil, err
	}
	defer os.RemoveAll(root)
	cfg.Root = root
	if cfg.MaxPayload == 0 {
		cfg.MaxPayload = 256 << 10
	}
	if cfg.FlushWorkers == 0 {
		cfg.FlushWorkers = 1
	}
	if cfg.ShardCount == 0 {
		cfg.ShardCount = 1
	}
	if cfg.MaxBufferAgeMS == 0 {
		cfg.MaxBufferAgeMS = 3_600_000
	}
	child, err := c04StartChild(cfg)
	if err != nil {
		return nil, err
	}
	defer child.stop()
	res := &c04PlayResult{}
	all := append([]*c04Req(nil), reqs...)
	if flush {
		all = append(all, &c04Req{Method: "POST", Path: "/api/v1/write/line-protocol/flush"})
	}
	for _, r := range all {
		resp, died, diag := child.do(c04Cmd{Op: "req", Method: r.Method, Path: r.Path, Headers: r.Headers, Body: r.Body})
		if died {
			res.crashed, res.crash = true, diag
			return res, nil
		}
		res.statuses = append(res.statuses, resp.Status)
		res.deltas = append(res.deltas, resp.After.Buffered-resp.Before.Buffered)
		if se, crashed, cdiag := child.panicSeen(); crashed {
			res.crashed, res.crash = true, cdiag
			return res, nil
		} else if se != "" {
			res.panics = append(res.panics, c04PanicHead(se))
		}
	}
	if _, died, diag := child.do(c04Cmd{Op: "quiesce"}); died {
		res.crashed, res.crash = true, diag
		return res, nil
	}
	if _, died, diag := child.do(c04Cmd{Op: "close"}); died {
		res.crashed, res.crash = true, diag
		return res, nil
	}
	st, total, f := c04ReadStore(root, false)
	if f != nil {
		return res, fmt.Errorf("%s: %s", f.Class, f.Detail)
	}
	res.store, res.rows = st, total
	return res, nil
}

// Minimal input: one accepted msgpack write with an empty column name; the
// size-triggered flush runs in a flush-worker goroutine and indexes name[0].
func TestVerifKF_C04_empty_column_name(t *testing.T) {
	req := c04MsgpackReq("", c04Columnar("cpu", mpMap{{"time", []any{c04BaseMicros}}, {"", []any{int64(1)}}}))
	res, err := c04Play(c04ServerCfg{MaxBufferSize: 1}, []*c04Req{req}, false)
	if err != nil {
		t.Logf("play: %v", err)
	}
	// the worker may panic before the 204 reaches the client, so the status is not required
	rep := res != nil && res.crashed && strings.Contains(res.crash, "index out of range") && strings.Contains(res.crash, "getSchema")
	if res != nil {
		t.Logf("statuses=%v crashed=%v %s", res.statuses, res.crashed, res.crash)
	}
	what := "msgpack {m:cpu, columns:{time:[t], \"\":[1]}} -> 204, then the flush worker panics"
	if res != nil {
		what += ": " + res.crash
	}
	verifkit.KnownFinding(kfC04EmptyColumn, rep, what)
}

// Minimal input: two accepted writes to one measurement whose '_x' column is an
// int in the first and a string in the second; getColumnSignature skips '_'
// columns so both land in one buffer and mergeBatches type-asserts.
func TestVerifKF_C04_underscore_type_flip(t *testing.T) {
	r1 := c04MsgpackReq("", c04Columnar("cpu", mpMap{{"time", []any{c04BaseMicros}}, {"_x", []any{int64(1)}}}))
	r2 := c04MsgpackReq("", c04Columnar("cpu", mpMap{{"time", []any{c04BaseMicros + 1}}, {"_x", []any{"s"}}}))
	res, err := c04Play(c04ServerCfg{MaxBufferSize: 2}, []*c04Req{r1, r2}, false)
	if err != nil {
		t.Logf("play: %v", err)
	}
	rep := res != nil && len(res.statuses) >= 1 && res.statuses[0] == 204 && res.crashed && strings.Contains(res.crash, "interface conversion") && strings.Contains(res.crash, "mergeBatches")
	what := "msgpack cpu{_x:[1]} then cpu{_x:[\"s\"]}: both 204, then the flush worker panics in mergeBatches"
	if res != nil {
		t.Logf("statuses=%v crashed=%v %s", res.statuses, res.crashed, res.crash)
		what += ": " + res.crash
	}
	verifkit.KnownFinding(kfC04UnderscoreFlip, rep, what)
}

// Minimal input: an accepted write with a user column '_x'; the column is
// silently left out of the Parquet file.
func TestVerifKF_C04_underscore_dropped(t *testing.T) {
	r1 := c04MsgpackReq("", c04Columnar("cpu", mpMap{{"time", []any{c04BaseMicros}}, {"v", []any{int64(1)}}, {"_x", []any{int64(2)}}}))
	res, err := c04Play(c04ServerCfg{MaxBufferSize: 100}, []*c04Req{r1}, true)
	rep := false
	what := "msgpack cpu{v:[1], _x:[2]} -> 204; stored row has no _x column"
	if err != nil {
		t.Logf("play: %v", err)
	} else if !res.crashed && res.statuses[0] == 204 && res.rows == 1 {
		full := c04RowKey(c04Row{DB: "default", M: "cpu", Cells: map[string]string{"time": "t:" + strconv.FormatInt(c04BaseMicros, 10), "v": "i:1", "_x": "i:2"}}, false)
		without := c04RowKey(c04Row{DB: "default", M: "cpu", Cells: map[string]string{"time": "t:" + strconv.FormatInt(c04BaseMicros, 10), "v": "i:1"}}, false)
		rep = res.store[full] == 0 && res.store[without] == 1
		t.Logf("store=%v", res.store)
	}
	verifkit.KnownFinding(kfC04UnderscoreDrop, rep, what)
}

// Minimal input: one msgpack array request with a good item followed by an item
// whose column mixes int and string; the answer is 500 but the first item's row
// is stored.
func TestVerifKF_C04_partial_store(t *testing.T) {
	good := c04Columnar("cpu", mpMap{{"time", []any{c04BaseMicros}}, {"v", []any{int64(1)}}})
	bad := c04Columnar("mem", mpMap{{"time", []any{c04BaseMicros, c04BaseMicros + 1}}, {"v", []any{int64(1), "x"}}})
	res, err := c04Play(c04ServerCfg{MaxBufferSize: 100}, []*c04Req{c04MsgpackReq("", []any{good, bad})}, true)
	rep := false
	what := "msgpack [cpu{v:[1]}, mem{v:[1,\"x\"]}] -> 500, yet the cpu row is stored"
	if err != nil {
		t.Logf("play: %v", err)
	} else if !res.crashed {
		rep = res.statuses[0] >= 400 && res.deltas[0] == 1 && res.rows == 1
		t.Logf("status=%d delta=%d stored=%d", res.statuses[0], res.deltas[0], res.rows)
		what += fmt.Sprintf(" (status %d, %d row in storage)", res.statuses[0], res.rows)
	}
	verifkit.KnownFinding(kfC04PartialStore, rep, what)
}

// Minimal input: TLE body "1 a\nb": ParseTLEFile slices line1[2:7] of a 3-byte line.
func TestVerifKF_C04_tle_short_line1(t *testing.T) {
	r := &c04Req{Method: "POST", Path: "/api/v1/write/tle", Body: []byte("1 a\nb")}
	res, err := c04Play(c04ServerCfg{MaxBufferSize: 100}, []*c04Req{r}, false)
	rep := false
	what := "POST /api/v1/write/tle body \"1 a\\nb\" -> handler panic (slice bounds out of range), recovered as 500"
	if err != nil {
		t.Logf("play: %v", err)
	} else {
		rep = len(res.panics) > 0 && strings.Contains(res.panics[0], "slice bounds out of range")
		t.Logf("statuses=%v panics=%v crashed=%v", res.statuses, res.panics, res.crashed)
	}
	verifkit.KnownFinding(kfC04TLEShortLine, rep, what)
}

// Minimal input: two accepted writes to one measurement with columns {"a b","c"}
// and {"a","b c"}: the schema cache key is built with %v of the name list, so
// both render as "[a b c ...]" and the second flush reuses the first schema.
func TestVerifKF_C04_schema_cache_alias(t *testing.T) {
	rep := false
	what := "msgpack cpu{\"a b\":[1],\"c\":[2]} and cpu{\"a\":[3],\"b c\":[4]} (all 204, each followed by an admin flush): a flush of the second shape reuses the cached schema of the first and fails, rows lost"
	// Go map iteration order decides whether the two cache keys coincide, so the
	// two shapes are each sent several times to one server.
	flush := func() *c04Req { return &c04Req{Method: "POST", Path: "/api/v1/write/line-protocol/flush"} }
	for attempt := 0; attempt < 3 && !rep; attempt++ {
		var reqs []*c04Req
		const k = 25
		for i := 0; i < k; i++ {
			reqs = append(reqs, c04MsgpackReq("", c04Columnar("cpu", mpMap{{"time", []any{c04BaseMicros + int64(i)}}, {"a b", []any{int64(1)}}, {"c", []any{int64(2)}}})), flush())
		}
		for i := 0; i < k; i++ {
			reqs = append(reqs, c04MsgpackReq("", c04Columnar("cpu", mpMap{{"time", []any{c04BaseMicros + 1000 + int64(i)}}, {"a", []any{int64(3)}}, {"b c", []any{int64(4)}}})), flush())
		}
		res, err := c04Play(c04ServerCfg{MaxBufferSize: 100}, reqs, true)
		if err != nil {
			t.Logf("play: %v", err)
			continue
		}
		all204 := !res.crashed
		for i := 0; i < len(reqs) && i < len(res.statuses); i += 2 {
			if res.statuses[i] != 204 {
				all204 = false
			}
		}
		t.Logf("attempt %d: crashed=%v rows=%d of %d", attempt, res.crashed, res.rows, 2*k)
		if all204 && res.rows < 2*k {
			rep = true
			what += fmt.Sprintf(" (%d of %d acknowledged rows stored)", res.rows, 2*k)
		}
	}
	verifkit.KnownFinding(kfC04SchemaCacheAlias, rep, what)
}

// Candidate inputs whose strings are not valid UTF-8 and are not sanitised on
// their way to Parquet: each is sent alone to a fresh server; "reproduced" means
// the request was accepted and DuckDB cannot read the file it produced.
func TestVerifKF_C04_invalid_utf8_stored(t *testing.T) {
	ts := strconv.FormatInt(c04BaseMicros*1000, 10)
	csvReq := func(file string) *c04Req {
		r := &c04Req{Method: "POST", Path: "/api/v1/import/csv?db=default&measurement=cpu&time_format=epoch_us"}
		c04Multipart(r, "d.csv", []byte(file))
		return r
	}
	_, l1, l2 := c04TLEEntry(25544, 1.5)
	cands := []struct {
		name string
		req  *c04Req
	}{
		{"lp tag value", &c04Req{Method: "POST", Path: "/write?db=default", Body: []byte("cpu,host=a\xffb v=1i " + ts)}},
		{"lp tag key", &c04Req{Method: "POST", Path: "/write?db=default", Body: []byte("cpu,ho\xffst=a v=1i " + ts)}},
		{"lp field key", &c04Req{Method: "POST", Path: "/write?db=default", Body: []byte("cpu v\xff=1i " + ts)}},
		{"msgpack column name", c04MsgpackReq("", c04Columnar("cpu", mpMap{{"time", []any{c04BaseMicros}}, {"v\xff", []any{int64(1)}}}))},
		{"msgpack row tag value", c04MsgpackReq("", mpMap{{"m", "cpu"}, {"t", c04BaseMicros / 1000}, {"fields", mpMap{{"v", int64(1)}}}, {"tags", mpMap{{"host", "a\xffb"}}}})},
		{"csv cell", csvReq("time,s\n" + strconv.FormatInt(c04BaseMicros, 10) + ",a\xffb\n")},
		{"csv header", csvReq("time,s\xff\n" + strconv.FormatInt(c04BaseMicros, 10) + ",ab\n")},
		{"tle object name", &c04Req{Method: "POST", Path: "/api/v1/write/tle", Body: []byte("SAT\xff\n" + l1 + "\n" + l2 + "\n")}},
	}
	var hit []string
	for _, c := range cands {
		res, err := c04Play(c04ServerCfg{MaxBufferSize: 100}, []*c04Req{c.req}, true)
		switch {
		case res != nil && res.crashed:
			t.Logf("%-24s crashed: %s", c.name, res.crash)
		case err != nil && len(res.statuses) > 0 && res.statuses[0] < 300 && strings.Contains(err.Error(), "stored-file-unreadable"):
			t.Logf("%-24s -> %d, file unreadable: %v", c.name, res.statuses[0], err)
			hit = append(hit, c.name)
		case err != nil:
			t.Logf("%-24s play error: %v", c.name, err)
		default:
			t.Logf("%-24s -> %v rows=%d (readable)", c.name, res.statuses, res.rows)
		}
	}
	verifkit.KnownFinding(kfC04InvalidUTF8, len(hit) > 0,
		"accepted requests whose strings are not valid UTF-8 produce Parquet files DuckDB refuses to read; paths: "+strings.Join(hit, ", "))
}

// Minimal input: a 606-byte Parquet file (one row; columns time:int64,
// "1":timestamp[ms], host:float64 written by arrow-go 18.6.0, then two mutated
// bytes) on which arrow-go's pqarrow.FileReader.ReadRowGroups dereferences nil.
const c04BadParquetB64 = "UEFSMRUEFRAVEEwVAhUAEgAAAEAeGCQKBgAVABUSFRIsFQIVEBUGHhgkCgYAGAgAQB4YJAoGABYAFgAYCABAHhgkCgYAGAgAQB4YJAoGAAAAAAIAAAACAQECABUEFRAVEEwVAhUAEgAAAGjlz4sBAAAVABUSFRIsFQIVEBUGFQYcGAgAaOXPiwEAABgIAGjlz4sBAAAWABYAGAgAaOXPiwEAABgIAGjlz4sBAAAAAAACAAAAAgEBAgAVBBUAFQBMFQAVABIAABUAFQ4VDiwVAhUQFQYVBhw2AhYAAAAAAgAAAAIAABUEGUxIBnNjaGVtYRUGABUEJQIYBHRpbWUlJEysE0ARAAAAFQQlAhgBMSUSTIwSHBwAAAAAABUKJQIYBGhvc3QAFgIZHBk8JgAcFQQZNRAABhkYBHRpbWUVABYCFrwBFrwBJjQmCBwYCABAHhgkCgYAGAgAQB4YJAoGABYAFgAYCABAHhgkCgYAGAgAQB4YJAoGAAAZLBUEFQAVAgAVABUQFQIAAAAmABwVBBk1EAAGGRgBMRUAFgIWvAEWvAEm8AEmxAEcGAgAaOXPiwEAABgIAGjlz4sBAAAWABYAGAgAaOXPiwEAABgIAGjlz4sBAAAAGSwVBBUAFQIAFQAVEBUCAAAAJgAcFQoZNRAABhkYBGhvc3QVABYCFlgWWCacAyaAAxw2AhYAABksFQQVABUCABUAFRAVAgAAABbQAxYCJggW0AMUAAAZDBgZcGFycXVldC1nbyB2ZXJzaW9uIDE4LjYuMBk8HAAAHAAAHAAAAHEBAABQQVIx"

func TestVerifKF_C04_parquet_import_nil_deref(t *testing.T) {
	file, err := base64.StdEncoding.DecodeString(c04BadParquetB64)
	if err != nil {
		t.Fatalf("b64: %v", err)
	}
	r := &c04Req{Method: "POST", Path: "/api/v1/import/parquet?db=default&measurement=mem&time_format=epoch_us"}
	c04Multipart(r, "data.parquet", file)
	res, err := c04Play(c04ServerCfg{MaxBufferSize: 100}, []*c04Req{r}, false)
	rep := false
	what := "POST /api/v1/import/parquet with a 606-byte corrupt file -> nil pointer dereference in pqarrow.(*FileReader).ReadRowGroups (arrow-go), recovered as 500"
	if err != nil {
		t.Logf("play: %v", err)
	} else {
		rep = len(res.panics) > 0 && strings.Contains(res.panics[0], "nil pointer dereference") && strings.Contains(res.panics[0], "pqarrow")
		t.Logf("statuses=%v panics=%v crashed=%v", res.statuses, res.panics, res.crashed)
	}
	verifkit.KnownFinding(kfC04ParquetNilDeref, rep, what)
}

// Minimal input candidates: a msgpack map whose key is nil.
func TestVerifKF_C04_msgpack_nil_map_key(t *testing.T) {
	rep := false
	what := ""
	for _, body := range [][]byte{{0x81, 0xc0, 0x01}, {0x82, 0xc0, 0x6d, 0xa1, 'm', 0xa3, 'c', 'p', 'u'}} {
		r := &c04Req{Method: "POST", Path: "/api/v1/write/msgpack", Body: body}
		res, err := c04Play(c04ServerCfg{MaxBufferSize: 100}, []*c04Req{r}, false)
		if err != nil {
			t.Logf("play: %v", err)
			continue
		}
		t.Logf("body=%x statuses=%v panics=%v crashed=%v %s", body, res.statuses, res.panics, res.crashed, res.crash)
		if len(res.panics) > 0 && strings.Contains(res.panics[0], "nil pointer dereference") && !rep {
			rep = true
			what = fmt.Sprintf("POST /api/v1/write/msgpack body %x (map with a nil key) -> nil pointer dereference under MessagePackDecoder.Decode, recovered as 500: %s", body, res.panics[0])
		}
	}
	verifkit.KnownFinding(kfC04MsgpackNilKey, rep, what)
}


// ---------------------------------------------------------------- directed scenarios

func c04ScenarioValue(typ string, k int) any {
	switch typ {
	case "int":
		return int64(k + 1)
	case "float":
		return float64(k) + 0.5
	case "bool":
		return k%2 == 0
	default:
		return fmt.Sprintf("s%d", k)
	}
}

func c04ScenarioWrite(m, typ string, k int) *c04Req {
	ts := c04BaseMicros + int64(k)
	v := c04ScenarioValue(typ, k)
	r := c04MsgpackReq("", c04Columnar(m, mpMap{{"time", []any{ts}}, {"v", []any{v}}}))
	r.Known = true
	r.Desc = fmt.Sprintf("msgpack %s{v:%v (%s)}", m, v, typ)
	r.Rows = []c04Row{{DB: "default", M: m, Cells: map[string]string{"time": "t:" + strconv.FormatInt(ts, 10), "v": duck.Canon(v)}}}
	return r
}

// TestVerifC04_ZeroRowBatchThenWrite: a columnar payload whose arrays are all
// empty (answered 204 today, a rejection would be fine too), followed by an
// ordinary write to the same measurement - which makes the server flush the
// zero-row buffer on the schema-change path inside that request - and then the
// usual end-of-sequence flush. Nothing may crash and the ordinary rows must be
// stored. (Deterministic; the flush-all-after-zero-rows variant is the open
// finding C04-zero-row-batch-poisons-flush and has its own reproduction.)
func TestVerifC04_ZeroRowBatchThenWrite(t *testing.T) {
	for i, cols := range []mpMap{{{"time", []any{}}, {"v", []any{}}}, {{"v", []any{}}}, {{"time", []any{}}}} {
		for j, follow := range []string{"msgpack", "lp"} {
			empty := c04MsgpackReq("", c04Columnar("cpu", cols))
			empty.Known, empty.Desc = true, fmt.Sprintf("msgpack cpu with %d all-empty column arrays", len(cols))
			var next *c04Req
			if follow == "msgpack" {
				next = c04ScenarioWrite("cpu", "int", 1)
			} else {
				ts := c04BaseMicros + 5
				next = &c04Req{Kind: "lp", Method: "POST", Path: "/write?db=default&precision=us", Body: []byte("cpu v=7i " + strconv.FormatInt(ts, 10)),
					Known: true, NRows: -1, Desc: "lp cpu v=7i",
					Rows: []c04Row{{DB: "default", M: "cpu", Cells: map[string]string{"time": "t:" + strconv.FormatInt(ts, 10), "v": "i:7"}}}}
			}
			s := &c04Seq{Cfg: c04ServerCfg{MaxBufferSize: 50, MaxBufferAgeMS: 3_600_000, FlushWorkers: 1, ShardCount: 1, MaxPayload: 256 << 10},
				Reqs: []*c04Req{empty, next, c04ScenarioWrite("mem", "float", 2)}}
			fail := c04RunSeq(s)
			verifkit.Eval()
			verifkit.Class("scenario:zero-row-batch-then-write")
			verifkit.NonTrivial(fmt.Sprintf("zero-row-then-write/%d/%d", i, j))
			if fail != nil {
				verifkit.WriteReplay("c04-sequence", s)
				t.Fatalf("VERIF-FAIL class=C04/%s\n  %s\nsequence=%v", fail.Class, fail.Detail, s.summary())
			}
		}
	}
}

// c04WindowScenario drives three accepted writes to ONE measurement with a
// same-name type change so that the third arrives while the second sits in the
// storage write of its schema-change flush (shard lock released):
//   A (v:t1) buffered; B (v:t2) flushes A and blocks in storage.Write (gate);
//   C (v:t1) is served in that window; the gate is released and B resumes.
// Afterwards everything is flushed (size trigger -> flush worker, or the admin
// flush endpoint). Oracle: no crash, no recovered panic, and exactly the accepted
// rows are stored with their values. The gate makes the window deterministic.
func c04WindowScenario(t1, t2 string, sizeTrigger bool) (fail *c04Failure, entered bool) {
	root, err := os.MkdirTemp("", "c04win-*")
	if err != nil {
		return &c04Failure{"harness", err.Error()}, false
	}
	defer os.RemoveAll(root)
	cfg := c04ServerCfg{Root: root, MaxBufferSize: 100, MaxBufferAgeMS: 3_600_000, FlushWorkers: 1, ShardCount: 1, MaxPayload: 256 << 10}
	if sizeTrigger {
		cfg.MaxBufferSize = 2
	}
	child, err := c04AcquireChild(cfg)
	if err != nil {
		return &c04Failure{"harness", "start child: " + err.Error()}, false
	}
	clean := false
	defer func() { c04ReleaseChild(child, clean) }()

	var accepted []c04Row
	step := func(what string, cmd c04Cmd) (c04Resp, *c04Failure) {
		resp, died, diag := child.do(cmd)
		if died {
			return resp, &c04Failure{"process-crash", what + ": the server process died: " + diag}
		}
		if se, crashed, cdiag := child.panicSeen(); crashed {
			return resp, &c04Failure{"process-crash", what + ": the server process died: " + cdiag}
		} else if se != "" {
			return resp, &c04Failure{"handler-panic", what + ": panic recovered by the middleware: " + c04PanicHead(se)}
		}
		if resp.Err != "" {
			return resp, &c04Failure{"no-http-response", what + ": " + resp.Err}
		}
		return resp, nil
	}
	reqCmd := func(op string, r *c04Req) c04Cmd {
		return c04Cmd{Op: op, Method: r.Method, Path: r.Path, Headers: r.Headers, Body: r.Body}
	}
	note := func(r *c04Req, status int) {
		if status >= 200 && status < 300 {
			accepted = append(accepted, r.Rows...)
		}
	}
	a, b, c := c04ScenarioWrite("cpu", t1, 0), c04ScenarioWrite("cpu", t2, 1), c04ScenarioWrite("cpu", t1, 2)
	resp, f := step("A "+a.Desc, reqCmd("req", a))
	if f != nil {
		return f, false
	}
	note(a, resp.Status)
	if _, f = step("gate-arm", c04Cmd{Op: "gate-arm"}); f != nil {
		return f, false
	}
	if _, f = step("B "+b.Desc+" (started)", reqCmd("req-async", b)); f != nil {
		return f, false
	}
	w, f := step("gate-wait", c04Cmd{Op: "gate-wait"})
	if f != nil {
		return f, false
	}
	entered = w.Mode == "entered"
	resp, f = step("C "+c.Desc+" (inside B's flush window)", reqCmd("req", c))
	if f != nil {
		return f, entered
	}
	note(c, resp.Status)
	if entered {
		if _, f = step("gate-release", c04Cmd{Op: "gate-release"}); f != nil {
			return f, entered
		}
	}
	resp, f = step("B "+b.Desc+" (resumed)", c04Cmd{Op: "await"})
	if f != nil {
		return f, entered
	}
	note(b, resp.Status)
	resp, f = step("admin flush", c04Cmd{Op: "req", Method: "POST", Path: "/api/v1/write/line-protocol/flush"})
	if f != nil {
		return f, entered
	}
	if resp.Status != 200 {
		return &c04Failure{"flush-failed", fmt.Sprintf("admin flush answered %d %s", resp.Status, resp.Body)}, entered
	}
	if _, f = step("quiesce", c04Cmd{Op: "quiesce"}); f != nil {
		return f, entered
	}
	if _, f = step("close", c04Cmd{Op: "close"}); f != nil {
		return f, entered
	}
	clean = true
	stored, total, rf := c04ReadStore(root, false)
	if rf != nil {
		return rf, entered
	}
	want := duck.Multiset{}
	for _, r := range accepted {
		want[c04RowKey(r, false)]++
	}
	if diff := want.Diff(stored, 6); len(diff) > 0 || total != int64(len(accepted)) {
		return &c04Failure{"accepted-row-not-stored-as-sent", fmt.Sprintf("%d rows accepted, %d stored; %s", len(accepted), total, strings.Join(diff, "\n  "))}, entered
	}
	return nil, entered
}

func TestVerifC04_SchemaFlushWindow(t *testing.T) {
	pairs := [][2]string{{"int", "float"}, {"float", "int"}, {"int", "str"}, {"str", "bool"}, {"bool", "float"}}
	for _, p := range pairs {
		for _, sizeTrigger := range []bool{true, false} {
			fail, entered := c04WindowScenario(p[0], p[1], sizeTrigger)
			verifkit.Eval()
			verifkit.Class("scenario:schema-flush-window")
			if entered {
				verifkit.Class("scenario:window-entered")
				verifkit.NonTrivial(fmt.Sprintf("window/%s/%s/%v", p[0], p[1], sizeTrigger))
			}
			if fail != nil {
				if fail.Class == "harness" {
					t.Fatalf("C04 harness problem: %s", fail.Detail)
				}
				t.Fatalf("VERIF-FAIL class=C04/%s (scenario: cpu v:%s buffered; v:%s flushing it and blocked in storage.Write; v:%s served in that window; sizeTrigger=%v)\n  %s",
					fail.Class, p[0], p[1], p[0], sizeTrigger, fail.Detail)
			}
		}
	}
}

// Minimal input: {m:cpu, columns:{time:[], v:[]}} (204, zero-row batch buffered),
// then any FlushAll-based request, e.g. a one-row CSV import into another
// measurement: the import answers 500 ("no time data in batch") although its row
// is stored.
func TestVerifKF_C04_zero_row_batch_poisons_flush(t *testing.T) {
	empty := c04MsgpackReq("", c04Columnar("cpu", mpMap{{"time", []any{}}, {"v", []any{}}}))
	csvReq := &c04Req{Method: "POST", Path: "/api/v1/import/csv?db=default&measurement=mem&time_format=epoch_us"}
	c04Multipart(csvReq, "d.csv", []byte("time,v\n"+strconv.FormatInt(c04BaseMicros, 10)+",1\n"))
	res, err := c04Play(c04ServerCfg{MaxBufferSize: 100}, []*c04Req{empty, csvReq}, true)
	rep := false
	what := "msgpack {m:cpu,columns:{time:[],v:[]}} -> 204; next POST /api/v1/import/csv (1 row, measurement mem) -> 500 'no time data in batch' yet its row is stored"
	if err != nil {
		t.Logf("play: %v", err)
	} else if !res.crashed && len(res.statuses) >= 2 {
		rep = res.statuses[0] == 204 && res.statuses[1] >= 500 && res.deltas[1] == 1 && res.rows == 1
		t.Logf("statuses=%v deltas=%v rows=%d", res.statuses, res.deltas, res.rows)
	}
	verifkit.KnownFinding(kfC04ZeroRowBatch, rep, what)
}

// Minimal input: a valid columnar payload with one extra top-level key whose value
// is a map with a nil key: {m:cpu, columns:{time:[t], v:[1]}, x:{nil:1}}. The typed
// fast path decodes the unused value with DecodeInterface (discardValueTyped), which
// is not covered by the recover that protects the generic path's Unmarshal.
func TestVerifKF_C04_msgpack_nil_key_unused_value(t *testing.T) {
	body := mpEncode(nil, mpMap{{"m", "cpu"}, {"columns", mpMap{{"time", []any{c04BaseMicros}}, {"v", []any{int64(1)}}}}, {"x", mpRaw{0x81, 0xc0, 0x01}}})
	r := &c04Req{Method: "POST", Path: "/api/v1/write/msgpack", Body: body}
	res, err := c04Play(c04ServerCfg{MaxBufferSize: 100}, []*c04Req{r}, false)
	rep := false
	what := fmt.Sprintf("POST /api/v1/write/msgpack body %x ({m:cpu,columns:{time:[t],v:[1]},x:{nil:1}}) -> nil pointer dereference in the msgpack library under ingest.discardValueTyped, recovered as 500", body)
	if err != nil {
		t.Logf("play: %v", err)
	} else {
		rep = len(res.panics) > 0 && strings.Contains(res.panics[0], "nil pointer dereference") && strings.Contains(res.panics[0], "discardValueTyped")
		t.Logf("statuses=%v panics=%v crashed=%v", res.statuses, res.panics, res.crashed)
	}
	verifkit.KnownFinding(kfC04NilKeyDiscard, rep, what)
}

// Minimal input candidates: a Parquet file whose footer decodes to a FileMetaData
// without a schema. arrow-go's file.NewParquetReader (parseMetaData ->
// NewFileMetaData -> initColumnOrders -> Schema.NumColumns) dereferences nil; that
// call sits outside the recover that fix 3c1509e put around ReadTable.
const c04BadFooterParquetB64 = "UEFSMRUEFWgVaEwVBBUAEgAAFAAAADIwMjMtMTEtMTRUMjI6MTM6MjBaGAAAADIwMjMtMTEtMTRUMjI6MTM6MjAuMDAxWhUAFRIVEiwVBBUQFQYVBhw2ABYAGBQyMDIzLTExLTE0VDIyOjEzOjIwWhgYMjAyMy0xMS0xNFQyMjoxMzoyMC4wMDFaAAAAAgAAAAQBAQMCFQQVIBUgTBUEFQASAAAAAAAAAAAAAAEAAAAAAAAAFQAVHhUeLBUEFRAVBhUGHBgIAQAAAAAAAAAYCAAAAAAAAAAAFgAWABgIAQAAAAAAAAAYCAAAAAAAAAAAAAAAAgAAAAQAAgAAAAQDAQMCFQQVIBUgTBUEFQASAAAAAAAAAAAAAAEAAAAAAAAAFQAVHhUeLBUEFRAVBhUGHBgIAQAAAAAAAAAYCAAAAAAAAAAAFgAWABgIAQAAAAAAAAAYCAAAAAAAAAAAAAAAAgAAAAQAAgAAAAQDAQMCFQQVEBUQTBUCFQASAAAAAAAAAAAAABUAFRIVEiwVBBUQFQYVBhwYCAAAAAAAAAAAGAgAAAAAAAAAABYCFgAYCAAAAAAAAAAAGAgAAAAAAAAAAAAAAAIAAAADAQECABUEFSAVIEwVBBUAEgAAAGjlz4sBAAABaOXPiwEAABUAFRIVEiwVBBUQFQYVBhwYCAFo5c+LAQAAGAgAaOXPiwEAABYAFgAYCAFo5c+LAQAAGAgAaOXPiwEAAAAAAAIAAAAEAQEDAhUEGaxIBnNjaGVtYRUKABQMJQIYBHRpbWUlAEwcAAAANQIYA2EgYhUCFQZMPAAAADUEGARsaXN0FQIAFQQlAhgHZWxlbWVudCUkTKwTQBEAAAA1AhgDYSxiFQIVBkw8AAAANQQYBGxpc3QVAgAVBCUCGAdlbGVtZW50JSRMrBNAEQAAABUEJQIYAXclJEysE0ARAAAAFQQlAhgJX2RhdGFiYXNlJRJMjBIcHAAAAAAAFgQZHBlcJgAcFQwZNRAABhkYBHRpbWUVABYEFqQCFqQCJowBJggcNgAWABgUMjAyMy0xMS0xNFQyMjoxMzoyMFoYGDIwMjMtMTEtMTRUMjI6MTM6MjAuMDAxWgAZLBUEFQAVAgAVABUQFQIAAAAmABwVBBk1EAAGGTgDYSBiBGxpc3QHZWxlbWVudBUAFgQW2AEW2AEm6AImrAIcGAgBAAAAAAAAABgIAAAAAAAAAAAWABYAGAgBAAAAAAAAABgIAAAAAAAAAAAAGSwVBBUAFQIAFQAVEBUCAAAAJgAcFQQZNRAABhk4A2EsYgRsaXN0B2VsZW1lbnQVABYEFtgBFtgBJsAEJoQEHBgIAQAAAAAAAAAYCAAAAAAAAAAAFgAWABgIAQAAAAAAAAAYCAAAAAAAAAAAABksFQQVABUCABUAFRAVAgAAACYAHBUEGTUQAAYZGAF3FQAWBBa8ARa8ASaIBibcBRwYCAAAAAAAAAAAGAgAAAAAAAAAABYCFgAYCAAAAAAAAAAAGAgAAAAAAAAAAAAZLBUEFQAVAgAVABUQFQIAAAAmABwVBBk1EAAGGRgJX2RhdGFiYXNlFQAWBBbMARbMASbUByaYBxwYCAFo5c+LAQAAGAgAaOXPiwEAABYAFgAYCAFo5c+LAQAAGAgAaOXPiwEAAAAZLBUEFQAVAgAVABUQFQIAAAAW3AgWBCYIFtwIFAAAGQwYGXBhcnF1ZXQtZ28gdmVyc2lvbiAxOC42LjAZXBwAABwAABwAABwAABwAAAD4AgAAUEFSMQ=="

func TestVerifKF_C04_parquet_import_footer_panic(t *testing.T) {
	big, err := base64.StdEncoding.DecodeString(c04BadFooterParquetB64)
	if err != nil {
		t.Fatalf("b64: %v", err)
	}
	small := append(append([]byte("PAR1"), 0x00, 0x01, 0x00, 0x00, 0x00), []byte("PAR1")...) // empty thrift struct as footer
	rep := false
	what := ""
	for _, file := range [][]byte{small, big} {
		r := &c04Req{Method: "POST", Path: "/api/v1/import/parquet?db=default&measurement=cpu"}
		c04Multipart(r, "data.parquet", file)
		res, err := c04Play(c04ServerCfg{MaxBufferSize: 100}, []*c04Req{r}, false)
		if err != nil {
			t.Logf("play: %v", err)
			continue
		}
		t.Logf("file %d bytes: statuses=%v panics=%v crashed=%v", len(file), res.statuses, res.panics, res.crashed)
		if !rep && len(res.panics) > 0 && strings.Contains(res.panics[0], "parseMetaData") {
			rep = true
			what = fmt.Sprintf("POST /api/v1/import/parquet with a %d-byte file (hex %x...) -> nil pointer dereference in arrow-go file.(*Reader).parseMetaData (file.NewParquetReader, outside the recover around ReadTable), recovered as 500", len(file), file[:min(len(file), 13)])
		}
	}
	verifkit.KnownFinding(kfC04ParquetFooter, rep, what)
}

// c04ScenarioColumnar builds a known msgpack columnar request from explicit columns
// (each value slice has one entry per timestamp).
func c04ScenarioColumnar(m string, times []int64, cols []mpPair) *c04Req {
	mc := mpMap{}
	tv := make([]any, len(times))
	rows := make([]c04Row, len(times))
	for i, ts := range times {
		tv[i] = ts
		rows[i] = c04Row{DB: "default", M: m, Cells: map[string]string{"time": "t:" + strconv.FormatInt(ts, 10)}}
	}
	mc = append(mc, mpPair{"time", tv})
	var names []string
	for _, c := range cols {
		vals := c.V.([]any)
		for i := range rows {
			if i < len(vals) && vals[i] != nil {
				rows[i].Cells[c.K] = duck.Canon(vals[i])
			}
		}
		mc = append(mc, c)
		names = append(names, fmt.Sprintf("%q(%d)", c.K, len(vals)))
	}
	r := c04MsgpackReq("", c04Columnar(m, mc))
	r.Known, r.Rows = true, rows
	r.Desc = fmt.Sprintf("msgpack %s rows=%d columns=%s", m, len(times), strings.Join(names, ","))
	return r
}

func c04RunScenarioSeq(t *testing.T, label string, key string, s *c04Seq) {
	fail := c04RunSeq(s)
	verifkit.Eval()
	verifkit.Class("scenario:" + label)
	verifkit.NonTrivial(label + "/" + key)
	if fail != nil {
		if fail.Class == "harness" {
			t.Fatalf("C04 harness problem: %s", fail.Detail)
		}
		verifkit.WriteReplay("c04-sequence", s)
		t.Fatalf("VERIF-FAIL class=C04/%s (scenario %s %s)\n  %s\nsequence=%v", fail.Class, label, key, fail.Detail, s.summary())
	}
}

// TestVerifC04_SignatureAliasColumns: two accepted writes to one measurement inside
// one buffer lifetime whose column sets differ but whose sorted "name:type" lists
// serialise to the same string (column names containing ':' and ','), e.g.
// {a:int, b:str} and {"a:i64,b":str}. Both layouts must be stored (or rejected);
// the flush that merges them must not panic. Size-triggered (flush worker) and
// admin-flush variants.
func TestVerifC04_SignatureAliasColumns(t *testing.T) {
	type layout struct{ cols []mpPair }
	pairs := [][2]layout{
		{{[]mpPair{{"a", []any{int64(1)}}, {"b", []any{"x"}}}}, {[]mpPair{{"a:i64,b", []any{"y"}}}}},
		{{[]mpPair{{"a:i64,b", []any{"y"}}}}, {[]mpPair{{"a", []any{int64(2)}}, {"b", []any{"z"}}}}},
		{{[]mpPair{{"a", []any{1.5}}, {"b", []any{true}}}}, {[]mpPair{{"a:f64,b", []any{false}}}}},
		{{[]mpPair{{"a", []any{"s"}}, {"b", []any{"t"}}, {"c", []any{int64(3)}}}}, {[]mpPair{{"a:str,b", []any{"u"}}, {"c", []any{int64(4)}}}}},
	}
	for i, p := range pairs {
		for _, maxBuf := range []int{2, 50} {
			r1 := c04ScenarioColumnar("cpu", []int64{c04BaseMicros + int64(i)}, p[0].cols)
			r2 := c04ScenarioColumnar("cpu", []int64{c04BaseMicros + 100 + int64(i)}, p[1].cols)
			s := &c04Seq{Cfg: c04ServerCfg{MaxBufferSize: maxBuf, MaxBufferAgeMS: 3_600_000, FlushWorkers: 1, ShardCount: 1, MaxPayload: 256 << 10},
				Reqs: []*c04Req{r1, r2, c04ScenarioWrite("mem", "int", 9)}}
			c04RunScenarioSeq(t, "signature-alias-columns", fmt.Sprintf("%d/maxBuffer=%d", i, maxBuf), s)
		}
	}
}

// TestVerifC04_ShortInternalColumn: a columnar write whose '_'-prefixed column has
// FEWER elements than the data columns and whose timestamps are not ascending,
// flushed as the only batch of its buffer (size trigger -> flush worker, or the
// admin flush). It is either rejected (today: 400 array length mismatch) or stored;
// nothing may crash.
func TestVerifC04_ShortInternalColumn(t *testing.T) {
	for i, n := range []int{3, 5} {
		for short := 1; short < n; short += 2 {
			for _, maxBuf := range []int{n, 50} {
				times := make([]int64, n)
				vals := make([]any, n)
				for k := 0; k < n; k++ {
					times[k] = c04BaseMicros + int64((k*7+3)%n)*1000 + int64(i) // a non-identity permutation of ascending times
					vals[k] = int64(k)
				}
				us := make([]any, short)
				for k := range us {
					us[k] = "agent-1"
				}
				r := c04ScenarioColumnar("cpu", times, []mpPair{{"v", vals}, {"_source", us}})
				// if it is accepted, the rows must be there (the '_' column itself is the
				// open finding C04-underscore-column-dropped, handled by the shared oracle)
				for k := range r.Rows {
					delete(r.Rows[k].Cells, "_source")
				}
				s := &c04Seq{Cfg: c04ServerCfg{MaxBufferSize: maxBuf, MaxBufferAgeMS: 3_600_000, FlushWorkers: 1, ShardCount: 1, MaxPayload: 256 << 10},
					Reqs: []*c04Req{r, c04ScenarioWrite("mem", "float", 4)}}
				c04RunScenarioSeq(t, "short-internal-column", fmt.Sprintf("n=%d/short=%d/maxBuffer=%d", n, short, maxBuf), s)
			}
		}
	}
}
