//go:build verif

package api

// C10 - Row-level delete removes exactly the rows the predicate selects.
//
// Generator: 1-5 Parquet files in one measurement, in hour- and day-level
// partition directories over several days (incl. one before 2020 and one in the
// far future) with row times inside their partition,
// nullable columns of every type (~25 % NULLs), predicates from a grammar of
// comparisons, AND/OR/NOT, parentheses, IN, LIKE, IS [NOT] NULL, BETWEEN that
// validateWhereClause admits. Oracle: a separate plain DuckDB evaluates the
// predicate over a snapshot of the pre-state (K = rows WHERE (p) IS NOT TRUE,
// D = count WHERE p). The real handler is driven through fiber (dry run, then
// confirmed delete) on a real LocalBackend + database.New DuckDB.

import (
	"bytes"
	"crypto/sha256"
	"database/sql"
	"encoding/hex"
	"encoding/json"
	"fmt"
	"io"
	"net/http/httptest"
	"os"
	"path/filepath"
	"regexp"
	"sort"
	"strings"
	"testing"
	"time"

	"github.com/basekick-labs/arc/internal/config"
	"github.com/basekick-labs/arc/internal/database"
	"github.com/basekick-labs/arc/internal/storage"
	"github.com/basekick-labs/arc/internal/verifkit"
	"github.com/basekick-labs/arc/internal/verifkit/duck"
	"github.com/gofiber/fiber/v2"
	"github.com/rs/zerolog"
	"pgregory.net/rapid"
)

const c10Finding = "C10-null-pred"

// c10DuckFinding: with the linked DuckDB (v1.5.5) a predicate that ORs an
// IS [NOT] TRUE/FALSE test (IS [NOT] DISTINCT FROM) with a comparison on the same
// column is planned as "no row can match" for a file in which that column is
// entirely NULL, so the delete skips rows the predicate selects.
const c10DuckFinding = "C10-duckdb-allnull-or"

var c10IsTruthRe = regexp.MustCompile(`(?i)\bb\s+IS\s+(NOT\s+)?(TRUE|FALSE)\b`)

// c10ApplyDuckExclusion removes the triggering shape by construction: when the
// predicate holds an IS [NOT] TRUE/FALSE test on b, no file keeps an entirely
// NULL b column (its first row gets a value).
func c10ApplyDuckExclusion(c *c10Case) {
	if !verifkit.Excluded(c10DuckFinding) || !c10IsTruthRe.MatchString(c.Pred) {
		return
	}
	first := map[int]int{}
	nonNull := map[int]bool{}
	for k, r := range c.Rows {
		if _, ok := first[r.File]; !ok {
			first[r.File] = k
		}
		if r.B != nil {
			nonNull[r.File] = true
		}
	}
	changed := false
	for f, k := range first {
		if !nonNull[f] {
			v := f%2 == 0
			c.Rows[k].B = &v
			changed = true
		}
	}
	if changed {
		verifkit.CountExcluded(c10DuckFinding)
	}
}

// ---------------------------------------------------------------- fixture

type c10Env struct {
	root string
	arc  *database.DuckDB
	ref  *sql.DB
	app  *fiber.App
	h    *DeleteHandler
	n    int
}

func c10NewEnv(t testing.TB) *c10Env {
	t.Helper()
	root, err := os.MkdirTemp("", "c10-*")
	if err != nil {
		t.Fatalf("HARNESS tempdir: %v", err)
	}
	root, _ = filepath.EvalSymlinks(root)
	logger := zerolog.New(io.Discard).Level(zerolog.Disabled)
	backend, err := storage.NewLocalBackend(root, logger)
	if err != nil {
		t.Fatalf("HARNESS backend: %v", err)
	}
	arc, err := database.New(&database.Config{MemoryLimit: "512MB", ThreadCount: 2, MaxConnections: 2, LocalStorageRoot: root}, logger)
	// database.New bounds its sandbox lock-down with a 5 s context; on an overloaded machine that is start-up
	// latency, not the property: retry instead of failing the case.
	for attempt := 0; err != nil && attempt < 7; attempt++ {
		arc, err = database.New(&database.Config{MemoryLimit: "512MB", ThreadCount: 2, MaxConnections: 2, LocalStorageRoot: root}, logger)
	}
	if err != nil {
		t.Fatalf("HARNESS database.New: %v", err)
	}
	ref, err := duck.Open()
	if err != nil {
		t.Fatalf("HARNESS duckdb: %v", err)
	}
	// the reference evaluator handles a few dozen rows; one thread avoids the
	// per-statement cost of waking a large worker pool
	if _, err := ref.Exec("SET threads=1"); err != nil {
		t.Fatalf("HARNESS duckdb threads: %v", err)
	}
	// The reference evaluates predicates with the optimizer switched off, so that
	// it is the plain expression semantics and not a plan rewrite that decides
	// (DuckDB v1.5.5 plans `x IS DISTINCT FROM c OR x = d` over an all-NULL column
	// as an empty result - see finding C10-duckdb-allnull-or).
	if _, err := ref.Exec("PRAGMA disable_optimizer"); err != nil {
		t.Fatalf("HARNESS duckdb optimizer: %v", err)
	}
	h := NewDeleteHandler(arc, backend, &config.DeleteConfig{Enabled: true, ConfirmationThreshold: 1000000, MaxRowsPerDelete: 1000000}, nil, filepath.Join(root, ".upload"), logger)
	app := fiber.New(fiber.Config{DisableStartupMessage: true})
	h.RegisterRoutes(app)
	e := &c10Env{root: root, arc: arc, ref: ref, app: app, h: h}
	t.Cleanup(func() {
		_ = app.Shutdown()
		ref.Close()
		arc.Close()
		os.RemoveAll(root)
	})
	return e
}

type c10Resp struct {
	Status int
	Body   DeleteResponse
	Raw    string
}

func (e *c10Env) post(db, meas, where string, dry, confirm bool) (c10Resp, error) {
	b, _ := json.Marshal(DeleteRequest{Database: db, Measurement: meas, Where: where, DryRun: dry, Confirm: confirm})
	req := httptest.NewRequest("POST", "/api/v1/delete/", bytes.NewReader(b))
	req.Header.Set("Content-Type", "application/json")
	resp, err := e.app.Test(req, -1)
	if err != nil {
		return c10Resp{}, err
	}
	defer resp.Body.Close()
	raw, _ := io.ReadAll(resp.Body)
	out := c10Resp{Status: resp.StatusCode, Raw: string(raw)}
	_ = json.Unmarshal(raw, &out.Body)
	return out, nil
}

// treeHash maps every regular file below dir (relative path) to its sha256;
// directories are listed too (value "dir") so stray temp dirs are noticed.
func c10TreeHash(dir string) map[string]string {
	out := map[string]string{}
	_ = filepath.Walk(dir, func(p string, info os.FileInfo, err error) error {
		if err != nil {
			return nil
		}
		rel, _ := filepath.Rel(dir, p)
		if info.IsDir() {
			out[rel+"/"] = "dir"
			return nil
		}
		b, rerr := os.ReadFile(p)
		if rerr != nil {
			out[rel] = "unreadable"
			return nil
		}
		h := sha256.Sum256(b)
		out[rel] = hex.EncodeToString(h[:8])
		return nil
	})
	return out
}

func c10TreeDiff(a, b map[string]string) string {
	var d []string
	for k, v := range a {
		if w, ok := b[k]; !ok {
			d = append(d, "removed "+k)
		} else if w != v {
			d = append(d, "changed "+k)
		}
	}
	for k := range b {
		if _, ok := a[k]; !ok {
			d = append(d, "added "+k)
		}
	}
	sort.Strings(d)
	return strings.Join(d, "; ")
}

// ---------------------------------------------------------------- data model

type c10Row struct {
	File int      `json:"file"`
	Rid  int64    `json:"rid"`
	Time *string  `json:"time"`
	I    *int64   `json:"i"`
	F    *float64 `json:"f"`
	S    *string  `json:"s"`
	B    *bool    `json:"b"`
	Tag  *string  `json:"tag"`
}

type c10Case struct {
	Files []string `json:"files"` // relative paths below db/measurement
	Extra []bool   `json:"extra"` // file k carries an additional column (schema evolution)
	Rows  []c10Row `json:"rows"`
	Pred  string   `json:"pred"`
}

var (
	c10Ints   = []int64{-2, -1, 0, 1, 2, 3, 4}
	c10Floats = []float64{-1.5, 0, 0.5, 2.25, 3}
	c10Strs   = []string{"a", "ab", "abc", "b", "B", "", "it's", "a%b", "x_y"}
	c10Tags   = []string{"x", "y", "a", "ab"}
)

const c10TS = "2006-01-02 15:04:05"

// c10Part is one time partition directory: an hour (YYYY/MM/DD/HH) or, for
// daily-compacted files, a day (YYYY/MM/DD). Arc stores a row in the partition
// of its timestamp, so the generated row times lie inside the file's partition.
type c10Part struct {
	start time.Time
	daily bool
}

func (p c10Part) dir() string {
	if p.daily {
		return p.start.Format("2006/01/02")
	}
	return p.start.Format("2006/01/02/15")
}
func (p c10Part) end() time.Time {
	if p.daily {
		return p.start.Add(24 * time.Hour)
	}
	return p.start.Add(time.Hour)
}

func c10Hour(y int, m time.Month, d, h int) c10Part {
	return c10Part{start: time.Date(y, m, d, h, 0, 0, 0, time.UTC)}
}
func c10Daily(y int, m time.Month, d int) c10Part {
	return c10Part{start: time.Date(y, m, d, 0, 0, 0, 0, time.UTC), daily: true}
}

// partition pool: mostly one day, plus the next day, a partition before 2020
// and one in the far future (historic backfills / device clocks set ahead)
var c10Pool = []c10Part{
	c10Hour(2024, 3, 1, 0), c10Hour(2024, 3, 1, 1), c10Hour(2024, 3, 1, 2), c10Hour(2024, 3, 1, 3), c10Hour(2024, 3, 1, 4),
	c10Hour(2024, 3, 1, 0), c10Hour(2024, 3, 1, 1), c10Hour(2024, 3, 1, 2), c10Hour(2024, 3, 1, 3), c10Hour(2024, 3, 1, 4),
	c10Daily(2024, 3, 1), c10Daily(2024, 3, 1), c10Daily(2024, 3, 2), c10Hour(2024, 3, 2, 0), c10Hour(2024, 3, 2, 7),
	c10Hour(2019, 12, 31, 23), c10Daily(2019, 6, 30), c10Hour(2099, 1, 1, 0), c10Daily(2099, 1, 2),
}

// c10CaseTimes holds time literals that are meaningful for the case being
// generated (partition starts/ends and instants inside them); set by c10GenData
// and read by c10TimeLit (rapid runs one case at a time per test).
var c10CaseTimes []string

func c10Null(t *rapid.T, label string) bool {
	return rapid.IntRange(0, 3).Draw(t, label+"-null") == 0 // ~25 %
}

func c10GenData(t *rapid.T) c10Case {
	var c c10Case
	nf := rapid.IntRange(1, 5).Draw(t, "nfiles")
	rid := int64(0)
	used := map[string]bool{}
	dirs := map[string]bool{}
	c10CaseTimes = c10CaseTimes[:0]
	for k := 0; k < nf; k++ {
		part := rapid.SampledFrom(c10Pool).Draw(t, "partition")
		// the same base name may occur in several partitions (backfills,
		// imports): only the full relative path identifies a file
		name := k
		if rapid.Bool().Draw(t, "samebase") {
			name = 0
		}
		suffix := ""
		if part.daily {
			suffix = "_daily"
		}
		rel := fmt.Sprintf("%s/f%d%s.parquet", part.dir(), name, suffix)
		if used[rel] {
			rel = fmt.Sprintf("%s/f%d%s.parquet", part.dir(), k, suffix)
		}
		used[rel] = true
		dirs[part.dir()] = true
		switch y := part.start.Year(); {
		case y < 2020:
			verifkit.Class("layout-partition-before-2020")
		case y > 2090:
			verifkit.Class("layout-partition-far-future")
		}
		for _, d := range []time.Duration{-time.Hour, 0, 30 * time.Minute, time.Hour, 24 * time.Hour} {
			c10CaseTimes = append(c10CaseTimes, part.start.Add(d).Format(c10TS))
		}
		c.Files = append(c.Files, rel)
		c.Extra = append(c.Extra, rapid.IntRange(0, 5).Draw(t, "extra") == 0)
		nr := rapid.IntRange(1, 8).Draw(t, "nrows")
		for r := 0; r < nr; r++ {
			rid++
			row := c10Row{File: k, Rid: rid}
			if !c10Null(t, "time") {
				var off time.Duration
				if part.daily {
					off = time.Duration(rapid.IntRange(0, 95).Draw(t, "time")) * 15 * time.Minute
				} else {
					off = time.Duration(rapid.IntRange(0, 11).Draw(t, "time")) * 5 * time.Minute
				}
				s := part.start.Add(off).Format(c10TS)
				row.Time = &s
			}
			if !c10Null(t, "i") {
				v := rapid.SampledFrom(c10Ints).Draw(t, "i")
				row.I = &v
			}
			if !c10Null(t, "f") {
				v := rapid.SampledFrom(c10Floats).Draw(t, "f")
				row.F = &v
			}
			if !c10Null(t, "s") {
				v := rapid.SampledFrom(c10Strs).Draw(t, "s")
				row.S = &v
			}
			if !c10Null(t, "b") {
				v := rapid.Bool().Draw(t, "b")
				row.B = &v
			}
			if !c10Null(t, "tag") {
				v := rapid.SampledFrom(c10Tags).Draw(t, "tag")
				row.Tag = &v
			}
			c.Rows = append(c.Rows, row)
		}
	}
	if len(dirs) > 1 {
		verifkit.Class("layout-several-partition-directories")
	}
	return c
}

// ---------------------------------------------------------------- predicate grammar

func c10KW(t *rapid.T, kw string) string {
	switch rapid.IntRange(0, 5).Draw(t, "kwcase") {
	case 0:
		return strings.ToLower(kw)
	case 1:
		return strings.ToUpper(kw[:1]) + strings.ToLower(kw[1:])
	}
	return kw
}

func c10IntLit(t *rapid.T) string {
	return fmt.Sprintf("%d", rapid.IntRange(-3, 5).Draw(t, "ilit"))
}
func c10FloatLit(t *rapid.T) string {
	return rapid.SampledFrom([]string{"-1.5", "0", "0.5", "2.25", "3", "1e0", "-0.25", "2.5"}).Draw(t, "flit")
}
func c10StrLit(t *rapid.T) string {
	return duck.SQLString(rapid.SampledFrom(append([]string{"c", "A", "zz"}, c10Strs...)).Draw(t, "slit"))
}
func c10LikeLit(t *rapid.T) string {
	return duck.SQLString(rapid.SampledFrom([]string{"a%", "%b", "%b%", "a_", "_", "%", "a%b", "it%", "", "A%", "%_c"}).Draw(t, "like"))
}
func c10TimeLit(t *rapid.T) string {
	pool := c10CaseTimes
	if len(pool) == 0 {
		pool = []string{"2024-03-01 00:00:00", "2024-03-01 02:30:00"}
	}
	v := rapid.SampledFrom(pool).Draw(t, "tlit")
	switch rapid.IntRange(0, 5).Draw(t, "tform") {
	case 0:
		return "TIMESTAMP '" + v + "'"
	case 1:
		if strings.HasSuffix(v, " 00:00:00") {
			return "'" + strings.TrimSuffix(v, " 00:00:00") + "'" // date-only literal
		}
	}
	return "'" + v + "'"
}

// c10DirectedTimePred draws predicates in which a quoted time bound on the time
// column is NOT a top-level conjunct (under OR / NOT), or is a one-sided bound:
// rows in partitions outside the literal bound still match through the other
// branch, and one-sided bounds meet partitions before 2020 / in the far future.
func c10DirectedTimePred(t *rapid.T) string {
	tcmp := func() string {
		return "time " + rapid.SampledFrom([]string{"<", "<=", ">", ">="}).Draw(t, "tcmp") + " " + "'" + rapid.SampledFrom(c10CaseTimes).Draw(t, "dlit") + "'"
	}
	other := func() string {
		return rapid.SampledFrom([]string{"tag = 'x'", "s = 'a'", "i >= 2", "b", "tag IN ('a', 'y')", "i IS NULL", "rid % 3 = 0", "f < 1", "time IS NULL"}).Draw(t, "other")
	}
	lo, hi := rapid.SampledFrom(c10CaseTimes).Draw(t, "lo"), rapid.SampledFrom(c10CaseTimes).Draw(t, "hi")
	if lo > hi {
		lo, hi = hi, lo
	}
	switch rapid.IntRange(0, 9).Draw(t, "directed") {
	case 0, 1:
		return tcmp() + " " + c10KW(t, "OR") + " " + other()
	case 2:
		return other() + " " + c10KW(t, "OR") + " " + tcmp()
	case 3:
		return c10KW(t, "NOT") + " (" + tcmp() + ")"
	case 4:
		return c10KW(t, "NOT") + " (" + tcmp() + " " + c10KW(t, "AND") + " " + other() + ")"
	case 5:
		return fmt.Sprintf("(time >= '%s' %s time < '%s') %s %s", lo, c10KW(t, "AND"), hi, c10KW(t, "OR"), other())
	case 6:
		return fmt.Sprintf("time %s '%s' %s '%s' %s %s", c10KW(t, "BETWEEN"), lo, c10KW(t, "AND"), hi, c10KW(t, "OR"), other())
	case 7:
		return fmt.Sprintf("time %s %s '%s' %s '%s'", c10KW(t, "NOT"), c10KW(t, "BETWEEN"), lo, c10KW(t, "AND"), hi)
	case 8:
		return tcmp() // one-sided bound on its own
	default:
		return tcmp() + " " + c10KW(t, "OR") + " " + tcmp()
	}
}

func c10Cmp(t *rapid.T) string {
	return rapid.SampledFrom([]string{"=", "<>", "!=", "<", "<=", ">", ">="}).Draw(t, "cmp")
}

func c10List(t *rapid.T, lit func(*rapid.T) string, allowNull bool) string {
	n := rapid.IntRange(1, 4).Draw(t, "nlist")
	var xs []string
	for i := 0; i < n; i++ {
		if allowNull && rapid.IntRange(0, 5).Draw(t, "nullitem") == 0 {
			xs = append(xs, "NULL")
		} else {
			xs = append(xs, lit(t))
		}
	}
	return "(" + strings.Join(xs, ", ") + ")"
}

func c10MaybeNot(t *rapid.T) string {
	if rapid.IntRange(0, 2).Draw(t, "not") == 0 {
		return c10KW(t, "NOT") + " "
	}
	return ""
}

// typed atoms; every atom is a boolean-valued expression over the data columns
func c10Atom(t *rapid.T) string {
	typ := rapid.SampledFrom([]string{"int", "int", "float", "str", "str", "bool", "time", "mixed", "rid"}).Draw(t, "atomtype")
	switch typ {
	case "int", "float", "rid":
		col, lit := "i", c10IntLit
		if typ == "float" {
			col, lit = "f", c10FloatLit
		} else if typ == "rid" {
			col = "rid"
			lit = func(t *rapid.T) string { return fmt.Sprintf("%d", rapid.IntRange(0, 30).Draw(t, "ridlit")) }
		}
		switch rapid.IntRange(0, 6).Draw(t, "numform") {
		case 0, 1:
			return fmt.Sprintf("%s %s %s", col, c10Cmp(t), lit(t))
		case 2:
			return fmt.Sprintf("%s %s%s %s", col, c10MaybeNot(t), c10KW(t, "IN"), c10List(t, lit, true))
		case 3:
			return fmt.Sprintf("%s %s%s %s %s %s", col, c10MaybeNot(t), c10KW(t, "BETWEEN"), lit(t), c10KW(t, "AND"), lit(t))
		case 4:
			return fmt.Sprintf("%s %s %s%s", col, c10KW(t, "IS"), c10MaybeNot(t), c10KW(t, "NULL"))
		case 5:
			return fmt.Sprintf("coalesce(%s, %s) %s %s", col, lit(t), c10Cmp(t), lit(t))
		default:
			return fmt.Sprintf("%s %s %s", lit(t), c10Cmp(t), col)
		}
	case "str":
		col := rapid.SampledFrom([]string{"s", "s", "tag"}).Draw(t, "strcol")
		switch rapid.IntRange(0, 6).Draw(t, "strform") {
		case 0, 1:
			return fmt.Sprintf("%s %s %s", col, c10Cmp(t), c10StrLit(t))
		case 2:
			op := rapid.SampledFrom([]string{"LIKE", "LIKE", "ILIKE"}).Draw(t, "likeop")
			return fmt.Sprintf("%s %s%s %s", col, c10MaybeNot(t), c10KW(t, op), c10LikeLit(t))
		case 3:
			return fmt.Sprintf("%s %s%s %s", col, c10MaybeNot(t), c10KW(t, "IN"), c10List(t, c10StrLit, true))
		case 4:
			return fmt.Sprintf("%s %s %s%s", col, c10KW(t, "IS"), c10MaybeNot(t), c10KW(t, "NULL"))
		case 5:
			return fmt.Sprintf("length(%s) %s %d", col, c10Cmp(t), rapid.IntRange(0, 4).Draw(t, "len"))
		default:
			return fmt.Sprintf("%s %s%s %s %s %s", col, c10MaybeNot(t), c10KW(t, "BETWEEN"), c10StrLit(t), c10KW(t, "AND"), c10StrLit(t))
		}
	case "bool":
		switch rapid.IntRange(0, 4).Draw(t, "boolform") {
		case 0:
			return "b"
		case 1:
			return fmt.Sprintf("b %s %s", rapid.SampledFrom([]string{"=", "<>"}).Draw(t, "beq"), c10KW(t, rapid.SampledFrom([]string{"TRUE", "FALSE"}).Draw(t, "blit")))
		case 2:
			return fmt.Sprintf("b %s %s%s", c10KW(t, "IS"), c10MaybeNot(t), c10KW(t, "NULL"))
		case 3:
			return fmt.Sprintf("b %s %s%s", c10KW(t, "IS"), c10MaybeNot(t), c10KW(t, rapid.SampledFrom([]string{"TRUE", "FALSE"}).Draw(t, "istf")))
		default:
			return c10KW(t, rapid.SampledFrom([]string{"TRUE", "FALSE", "NULL"}).Draw(t, "const"))
		}
	case "time":
		switch rapid.IntRange(0, 3).Draw(t, "timeform") {
		case 0, 1:
			return fmt.Sprintf("time %s %s", c10Cmp(t), c10TimeLit(t))
		case 2:
			return fmt.Sprintf("time %s%s %s %s %s", c10MaybeNot(t), c10KW(t, "BETWEEN"), c10TimeLit(t), c10KW(t, "AND"), c10TimeLit(t))
		default:
			return fmt.Sprintf("time %s %s%s", c10KW(t, "IS"), c10MaybeNot(t), c10KW(t, "NULL"))
		}
	default: // column against column
		return rapid.SampledFrom([]string{
			"i " + c10Cmp(t) + " rid", "f " + c10Cmp(t) + " i", "s " + c10Cmp(t) + " tag", "i + 1 " + c10Cmp(t) + " f",
			"i % 2 = 0", "s || tag " + c10Cmp(t) + " 'abx'", "i " + c10KW(t, "IN") + " (rid, 1, f)",
		}).Draw(t, "mixed")
	}
}

func c10Pred(t *rapid.T, depth int) string {
	if depth <= 0 || rapid.IntRange(0, 3).Draw(t, "leaf") == 0 {
		return c10Atom(t)
	}
	switch rapid.IntRange(0, 6).Draw(t, "conn") {
	case 0:
		return c10Pred(t, depth-1) + " " + c10KW(t, "AND") + " " + c10Pred(t, depth-1)
	case 1:
		return c10Pred(t, depth-1) + " " + c10KW(t, "OR") + " " + c10Pred(t, depth-1)
	case 2:
		return "(" + c10Pred(t, depth-1) + ") " + c10KW(t, "AND") + " (" + c10Pred(t, depth-1) + ")"
	case 3:
		return "(" + c10Pred(t, depth-1) + ") " + c10KW(t, "OR") + " (" + c10Pred(t, depth-1) + ")"
	case 4:
		return c10KW(t, "NOT") + " (" + c10Pred(t, depth-1) + ")"
	case 5:
		return c10KW(t, "NOT") + " " + c10Atom(t)
	default:
		return "(" + c10Pred(t, depth-1) + ")"
	}
}

// ---------------------------------------------------------------- reference side

func c10Lit(p any) string {
	switch v := p.(type) {
	case *string:
		if v == nil {
			return "NULL"
		}
		return duck.SQLString(*v)
	case *int64:
		if v == nil {
			return "NULL"
		}
		return fmt.Sprintf("%d", *v)
	case *float64:
		if v == nil {
			return "NULL"
		}
		return fmt.Sprintf("%v::DOUBLE", *v)
	case *bool:
		if v == nil {
			return "NULL"
		}
		return fmt.Sprintf("%v", *v)
	}
	return "NULL"
}

// loadPre fills the reference table pre with the generated rows.
func (e *c10Env) loadPre(c *c10Case) error {
	if _, err := e.ref.Exec(`CREATE OR REPLACE TABLE pre (_file INTEGER, _ord INTEGER, rid BIGINT, time TIMESTAMP, i BIGINT, f DOUBLE, s VARCHAR, b BOOLEAN, tag VARCHAR)`); err != nil {
		return err
	}
	var sb strings.Builder
	sb.WriteString("INSERT INTO pre VALUES ")
	for k, r := range c.Rows {
		if k > 0 {
			sb.WriteString(", ")
		}
		tl := "NULL"
		if r.Time != nil {
			tl = "TIMESTAMP '" + *r.Time + "'"
		}
		fmt.Fprintf(&sb, "(%d, %d, %d, %s, %s, %s, %s, %s, %s)", r.File, k, r.Rid, tl, c10Lit(r.I), c10Lit(r.F), c10Lit(r.S), c10Lit(r.B), c10Lit(r.Tag))
	}
	_, err := e.ref.Exec(sb.String())
	return err
}

// writeFiles writes the rows of pre to one parquet file per generated file.
func (e *c10Env) writeFiles(c *c10Case, mdir string) ([]string, error) {
	var paths []string
	for k, rel := range c.Files {
		p := filepath.Join(mdir, rel)
		if err := os.MkdirAll(filepath.Dir(p), 0o755); err != nil {
			return nil, err
		}
		cols := "rid, time, i, f, s, b, tag"
		if c.Extra[k] {
			cols = "tag, rid, rid * 10 AS extra, s, i, f, b, time" // other column order + extra column
		}
		q := fmt.Sprintf("COPY (SELECT %s FROM pre WHERE _file = %d ORDER BY _ord) TO %s (FORMAT PARQUET)", cols, k, duck.SQLString(p))
		if _, err := e.ref.Exec(q); err != nil {
			return nil, err
		}
		paths = append(paths, p)
	}
	return paths, nil
}

func c10PathList(paths []string) string {
	qs := make([]string, len(paths))
	for i, p := range paths {
		qs[i] = duck.SQLString(p)
	}
	return "[" + strings.Join(qs, ", ") + "]"
}

func c10Multiset(tb *duck.Table) duck.Multiset { return duck.MultisetOf(tb.RowMaps(), true) }

// ---------------------------------------------------------------- the property

type c10Sample struct {
	Pred      string   `json:"where"`
	Files     int      `json:"files"`
	Rows      int      `json:"rows"`
	D         int64    `json:"true_rows"`
	NullRows  int64    `json:"null_predicate_rows"`
	SameFile  bool     `json:"null_and_true_in_same_file"`
	FilePaths []string `json:"paths"`
}

func c10RunCase(t *rapid.T, e *c10Env, c *c10Case, invalidOK bool) {
	e.n++
	dbName, meas := fmt.Sprintf("db%d", e.n), "cpu"
	dbDir := filepath.Join(e.root, dbName)
	mdir := filepath.Join(dbDir, meas)
	defer os.RemoveAll(dbDir)

	if err := e.loadPre(c); err != nil {
		t.Fatalf("HARNESS load: %v", err)
	}
	p := c.Pred

	// classification by the reference evaluator (per file: TRUE / NULL counts)
	type cls struct{ nTrue, nNull int64 }
	perFile := map[int]*cls{}
	valid := true
	rs, err := e.ref.Query(fmt.Sprintf(`SELECT _file, count(*) FILTER (WHERE (%s) IS TRUE), count(*) FILTER (WHERE (%s) IS NULL) FROM pre GROUP BY _file`, p, p))
	if err != nil {
		valid = false
	} else {
		for rs.Next() {
			var f int
			var a, b int64
			if err := rs.Scan(&f, &a, &b); err != nil {
				rs.Close()
				t.Fatalf("HARNESS scan: %v", err)
			}
			perFile[f] = &cls{a, b}
		}
		if rs.Err() != nil {
			valid = false // runtime evaluation error (e.g. conversion)
		}
		rs.Close()
	}
	if !valid && !invalidOK {
		verifkit.Class("grammar-produced-invalid")
		t.Skip("reference rejects predicate")
	}

	sameFile := false
	if valid {
		for _, f := range perFile {
			if f.nTrue > 0 && f.nNull > 0 {
				sameFile = true
			}
		}
		if sameFile && verifkit.Excluded(c10Finding) {
			// exclusion by construction: take the NULL-predicate rows out of every
			// file that also has a TRUE row (row-wise predicate, other rows unaffected)
			var fs []string
			for k, f := range perFile {
				if f.nTrue > 0 && f.nNull > 0 {
					fs = append(fs, fmt.Sprintf("%d", k))
				}
			}
			if _, err := e.ref.Exec(fmt.Sprintf(`DELETE FROM pre WHERE _file IN (%s) AND (%s) IS NULL`, strings.Join(fs, ","), p)); err != nil {
				t.Fatalf("HARNESS exclusion: %v", err)
			}
			verifkit.CountExcluded(c10Finding)
			sameFile = false
		}
	}

	paths, err := e.writeFiles(c, mdir)
	if err != nil {
		t.Fatalf("HARNESS write: %v", err)
	}
	// snapshot of the measurement as stored (what "previous rows" means)
	if _, err := e.ref.Exec(fmt.Sprintf(`CREATE OR REPLACE TABLE snap AS SELECT * FROM read_parquet(%s, union_by_name=true)`, c10PathList(paths))); err != nil {
		t.Fatalf("HARNESS snapshot: %v", err)
	}
	before := c10TreeHash(dbDir)

	verifkit.Eval()

	if !valid {
		// Predicate the reference evaluator rejects: nothing may change, and a
		// 2xx answer must not claim deleted rows.
		verifkit.Class("invalid-predicate")
		for _, dry := range []bool{true, false} {
			r, err := e.post(dbName, meas, p, dry, true)
			if err != nil {
				t.Fatalf("HARNESS http: %v", err)
			}
			if d := c10TreeDiff(before, c10TreeHash(dbDir)); d != "" {
				t.Fatalf("VERIF-FAIL class=C10/invalid-predicate-changed-data where=%q dry=%v status=%d diff=%s", p, dry, r.Status, d)
			}
			if r.Status/100 == 2 {
				verifkit.Class("invalid-predicate-answered-2xx")
				if r.Body.DeletedCount != 0 {
					t.Fatalf("VERIF-FAIL class=C10/invalid-predicate-count where=%q dry=%v deleted_count=%d", p, dry, r.Body.DeletedCount)
				}
			}
		}
		return
	}

	var D, nNull int64
	if err := e.ref.QueryRow(fmt.Sprintf(`SELECT count(*) FILTER (WHERE %s), count(*) FILTER (WHERE (%s) IS NULL) FROM snap`, p, p)).Scan(&D, &nNull); err != nil {
		t.Fatalf("HARNESS D: %v (where=%q)", err, p)
	}
	K, err := duck.Query(e.ref, fmt.Sprintf(`SELECT * FROM snap WHERE (%s) IS NOT TRUE`, p))
	if err != nil {
		t.Fatalf("HARNESS K: %v", err)
	}
	var total int64
	_ = e.ref.QueryRow(`SELECT count(*) FROM snap`).Scan(&total)

	switch {
	case D == 0:
		verifkit.Class("no-true-row")
	case D == total:
		verifkit.Class("all-rows-true")
	default:
		verifkit.Class("some-rows-true")
	}
	if nNull > 0 {
		verifkit.Class("has-null-predicate-row")
	}
	if nNull > 0 && D > 0 {
		verifkit.NonTrivial(p + "|" + c10JSON(c.Rows))
		if sameFile {
			verifkit.Class("nontrivial-null-and-true-in-same-file")
		} else {
			verifkit.Class("nontrivial-null-and-true-in-different-files")
		}
		if verifkit.SampleCount() < 4 {
			verifkit.Sample(c10Sample{Pred: p, Files: len(c.Files), Rows: int(total), D: D, NullRows: nNull, SameFile: sameFile, FilePaths: c.Files})
		}
	}

	// 0. an unconfirmed, non-dry-run request must be refused and change nothing
	if rapid.IntRange(0, 3).Draw(t, "tryUnconfirmed") == 0 {
		r, err := e.post(dbName, meas, p, false, false)
		if err != nil {
			t.Fatalf("HARNESS http: %v", err)
		}
		if d := c10TreeDiff(before, c10TreeHash(dbDir)); d != "" || r.Status/100 == 2 {
			t.Fatalf("VERIF-FAIL class=C10/unconfirmed-delete-executed where=%q status=%d diff=%s", p, r.Status, d)
		}
	}

	// 1. dry run: nothing changes, reports D
	dryConfirm := rapid.Bool().Draw(t, "dryConfirm")
	r, err := e.post(dbName, meas, p, true, dryConfirm)
	if err != nil {
		t.Fatalf("HARNESS http: %v", err)
	}
	if d := c10TreeDiff(before, c10TreeHash(dbDir)); d != "" {
		t.Fatalf("VERIF-FAIL class=C10/dry-run-changed-data where=%q status=%d diff=%s", p, r.Status, d)
	}
	if r.Status != 200 {
		if !dryConfirm && r.Status == 400 && strings.Contains(r.Body.Error, "confirm=true") {
			verifkit.Class("dry-run-needs-confirm") // full-table gate: a refusal, allowed
		} else {
			t.Fatalf("VERIF-FAIL class=C10/unexpected-rejection phase=dry where=%q status=%d body=%s", p, r.Status, r.Raw)
		}
	} else if r.Body.DeletedCount != D || !r.Body.DryRun {
		t.Fatalf("VERIF-FAIL class=C10/dry-run-count where=%q reported=%d want=%d (null-predicate rows=%d) body=%s", p, r.Body.DeletedCount, D, nNull, r.Raw)
	}

	// 2. confirmed delete
	r, err = e.post(dbName, meas, p, false, true)
	if err != nil {
		t.Fatalf("HARNESS http: %v", err)
	}
	if r.Status != 200 || !r.Body.Success {
		t.Fatalf("VERIF-FAIL class=C10/unexpected-rejection phase=confirm where=%q status=%d body=%s", p, r.Status, r.Raw)
	}
	after, err := duck.ReadParquet(e.ref, duck.FindParquet(mdir))
	if err != nil {
		t.Fatalf("VERIF-FAIL class=C10/unreadable-after-delete where=%q err=%v", p, err)
	}
	want, got := c10Multiset(K), c10Multiset(after)
	if diff := want.Diff(got, 6); len(diff) > 0 {
		cl := "C10/wrong-rows-after-delete"
		if int64(len(after.Rows)) < int64(len(K.Rows)) && nNull > 0 {
			cl = "C10/null-predicate-row-deleted"
		}
		t.Fatalf("VERIF-FAIL class=%s where=%q rows_before=%d want_after=%d got_after=%d true=%d null=%d\n%s\ncase=%s",
			cl, p, total, len(K.Rows), len(after.Rows), D, nNull, strings.Join(diff, "\n"), c10JSON(c))
	}
	if r.Body.DeletedCount != D {
		t.Fatalf("VERIF-FAIL class=C10/deleted-count where=%q reported=%d disappeared=%d body=%s", p, r.Body.DeletedCount, D, r.Raw)
	}
	// no stray temp artefacts that a later scan of the measurement would pick up
	for _, f := range duck.FindParquet(mdir) {
		if strings.Contains(f, "/.tmp/") {
			t.Fatalf("VERIF-FAIL class=C10/temp-file-left where=%q file=%s", p, f)
		}
	}
}

func c10JSON(v any) string { b, _ := json.Marshal(v); return string(b) }

func TestVerifC10_DeleteMatchesReference(t *testing.T) {
	e := c10NewEnv(t)
	rapid.Check(t, func(t *rapid.T) {
		c := c10GenData(t)
		// ~1 case in 8 is a predicate that must be refused: outside what can be
		// evaluated (unknown column, syntax error, a redundant WHERE keyword) or
		// refused by the validator (forbidden keyword/punctuation inside a literal).
		kind := rapid.SampledFrom([]string{"valid", "valid", "valid", "valid", "valid", "valid", "valid", "valid", "valid", "valid", "valid", "valid", "valid", "valid",
			"unknown-column", "syntax", "where-prefix", "validator"}).Draw(t, "kind")
		if kind == "valid" {
			if rapid.IntRange(0, 3).Draw(t, "directedTime") == 0 {
				c.Pred = c10DirectedTimePred(t)
				verifkit.Class("predicate-time-bound-under-or-not-or-one-sided")
			} else {
				c.Pred = c10Pred(t, rapid.IntRange(0, 3).Draw(t, "depth"))
			}
			c10ApplyDuckExclusion(&c)
			c10RunCase(t, e, &c, false)
			return
		}
		base := c10Pred(t, 1)
		switch kind {
		case "unknown-column":
			c.Pred = base + " AND nosuchcol = 1"
		case "syntax":
			c.Pred = rapid.SampledFrom([]string{base + " AND", "i = = 1", base + " OR (", "s LIKE", "i BETWEEN 1"}).Draw(t, "syn")
		case "where-prefix":
			c.Pred = "WHERE " + base
		default:
			bad := rapid.SampledFrom([]string{"s = 'set'", "tag = 'drop it'", "s = 'a;b'", "s = 'a--b'", "s <> 'Load'", "s = '/*'",
				"rid IN (SELECT 1)", "i = 1; DROP TABLE x", "s = '('", "s = 'it's'"}).Draw(t, "bad")
			c.Pred = rapid.SampledFrom([]string{bad, base + " OR " + bad, bad + " AND " + base}).Draw(t, "badform")
		}
		verifkit.Class("rejected-kind-" + kind)
		if kind == "validator" {
			c10RunValidatorRejected(t, e, &c)
			return
		}
		c10RunCase(t, e, &c, true)
	})
}

func c10RunValidatorRejected(t *rapid.T, e *c10Env, c *c10Case) {
	e.n++
	dbName, meas := fmt.Sprintf("db%d", e.n), "cpu"
	dbDir := filepath.Join(e.root, dbName)
	defer os.RemoveAll(dbDir)
	if err := e.loadPre(c); err != nil {
		t.Fatalf("HARNESS load: %v", err)
	}
	if _, err := e.writeFiles(c, filepath.Join(dbDir, meas)); err != nil {
		t.Fatalf("HARNESS write: %v", err)
	}
	before := c10TreeHash(dbDir)
	verifkit.Eval()
	if _, verr := e.h.validateWhereClause(c.Pred); verr == nil {
		t.Fatalf("HARNESS expected validateWhereClause to refuse %q", c.Pred)
	}
	for _, dry := range []bool{true, false} {
		r, err := e.post(dbName, meas, c.Pred, dry, true)
		if err != nil {
			t.Fatalf("HARNESS http: %v", err)
		}
		if d := c10TreeDiff(before, c10TreeHash(dbDir)); d != "" || r.Status != 400 {
			t.Fatalf("VERIF-FAIL class=C10/validator-refusal-not-atomic where=%q dry=%v status=%d diff=%s", c.Pred, dry, r.Status, d)
		}
	}
}

// ---------------------------------------------------------------- known finding

// Minimal input: one file, rows (rid 1, i 1) (rid 2, i NULL) (rid 3, i 2),
// DELETE WHERE i = 1. The predicate is NULL for rid 2, so rid 2 must stay and
// the delete must report 1; the rewrite keeps only rows WHERE NOT (i = 1).
func TestVerifKF_C10_null_pred(t *testing.T) {
	e := c10NewEnv(t)
	one, two := int64(1), int64(2)
	c := &c10Case{Files: []string{"2024/03/01/00/f0.parquet"}, Extra: []bool{false},
		Rows: []c10Row{{File: 0, Rid: 1, I: &one}, {File: 0, Rid: 2}, {File: 0, Rid: 3, I: &two}}, Pred: "i = 1"}
	if err := e.loadPre(c); err != nil {
		t.Fatalf("HARNESS load: %v", err)
	}
	mdir := filepath.Join(e.root, "kf", "cpu")
	if _, err := e.writeFiles(c, mdir); err != nil {
		t.Fatalf("HARNESS write: %v", err)
	}
	dry, err1 := e.post("kf", "cpu", c.Pred, true, false)
	real, err2 := e.post("kf", "cpu", c.Pred, false, true)
	if err1 != nil || err2 != nil {
		t.Fatalf("HARNESS http: %v %v", err1, err2)
	}
	after, err := duck.ReadParquet(e.ref, duck.FindParquet(mdir))
	if err != nil {
		t.Fatalf("HARNESS read: %v", err)
	}
	var rids []string
	for _, m := range after.RowMaps() {
		rids = append(rids, m["rid"])
	}
	sort.Strings(rids)
	got := strings.Join(rids, ",")
	rep := got != "i:2,i:3" || real.Body.DeletedCount != 1
	verifkit.KnownFinding(c10Finding, rep, fmt.Sprintf("DELETE WHERE i = 1 over rows i={1,NULL,2}: dry run reports %d, confirmed delete reports %d, remaining rids=[%s] (want 1, 1, [i:2,i:3])",
		dry.Body.DeletedCount, real.Body.DeletedCount, got))
}

// Minimal input: one file whose b column is entirely NULL (rows rid 1, 2) and
// DELETE WHERE b IS NOT TRUE OR b = false. Both rows satisfy the predicate
// (b IS NOT TRUE is TRUE for NULL), so the dry run must report 2 and the delete
// must remove both; with DuckDB v1.5.5 the matching-row count is planned as an
// empty result and nothing is deleted.
func TestVerifKF_C10_duckdb_allnull_or(t *testing.T) {
	e := c10NewEnv(t)
	c := &c10Case{Files: []string{"2024/03/01/00/f0.parquet"}, Extra: []bool{false},
		Rows: []c10Row{{File: 0, Rid: 1}, {File: 0, Rid: 2}}, Pred: "b IS NOT TRUE OR b = false"}
	if err := e.loadPre(c); err != nil {
		t.Fatalf("HARNESS load: %v", err)
	}
	mdir := filepath.Join(e.root, "kf2", "cpu")
	if _, err := e.writeFiles(c, mdir); err != nil {
		t.Fatalf("HARNESS write: %v", err)
	}
	var want int64
	if err := e.ref.QueryRow("SELECT count(*) FROM pre WHERE " + c.Pred).Scan(&want); err != nil || want != 2 {
		t.Fatalf("HARNESS reference: want 2 matching rows, got %d (%v)", want, err)
	}
	dry, err1 := e.post("kf2", "cpu", c.Pred, true, false)
	real, err2 := e.post("kf2", "cpu", c.Pred, false, true)
	if err1 != nil || err2 != nil {
		t.Fatalf("HARNESS http: %v %v", err1, err2)
	}
	after, err := duck.ReadParquet(e.ref, duck.FindParquet(mdir))
	if err != nil {
		t.Fatalf("HARNESS read: %v", err)
	}
	rep := dry.Body.DeletedCount != 2 || real.Body.DeletedCount != 2 || len(after.Rows) != 0
	verifkit.KnownFinding(c10DuckFinding, rep, fmt.Sprintf("DELETE WHERE %s over a file with b = {NULL, NULL}: dry run reports %d, confirmed delete reports %d, %d rows remain (want 2, 2, 0)",
		c.Pred, dry.Body.DeletedCount, real.Body.DeletedCount, len(after.Rows)))
}
