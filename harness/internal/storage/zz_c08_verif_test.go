//go:build verif

package storage

// C08 - storage keys stay inside the root and files appear atomically.
//
//  (1) TestVerifC08_Confinement: rapid-generated hostile keys against a real
//      LocalBackend whose root is <tmp>/jail/root. Oracle = the file system: a
//      snapshot of the whole scratch tree before/after every call; anything
//      created/removed/modified outside jail/root is a violation. Returned
//      paths/listings must lie inside the root, and no read may return bytes
//      of the decoy files that live outside it.
//  (2) TestVerifC08_CrashPoints: a re-exec'ed child performs ONE storage
//      operation under `strace -e inject=...:signal=KILL:when=K` for every K
//      of the operation's file-system syscalls; after each kill the final path
//      must be absent or complete.

import (
	"bytes"
	"context"
	"errors"
	"fmt"
	"io"
	"os"
	"os/exec"
	"path/filepath"
	"regexp"
	"runtime"
	"strconv"
	"strings"
	"sync"
	"testing"

	"github.com/basekick-labs/arc/internal/verifkit"
	"github.com/basekick-labs/arc/internal/verifkit/jail"
	"github.com/rs/zerolog"
	"pgregory.net/rapid"
)

// Known finding: a key that resolves to the root itself ("", "/", ".", NUL ...)
// makes WriteReader/AppendReader stage into "<root>.part", a sibling of the root.
const kfC08RootPart = "C08-root-key-part-sibling"

func init() {
	// The crash-point child must issue all of its syscalls from one OS thread:
	// strace counts `when=K` per thread. Locking during init keeps the main
	// goroutine on the main thread for the life of the process.
	if strings.HasPrefix(os.Getenv("VERIF_MODE"), "c08-") {
		runtime.LockOSThread()
	}
	verifkit.RegisterMode("c08-op", c08ChildOp)
}

// ---------------------------------------------------------------- confinement

// failAfterReader yields n bytes of data and then fails (leaves a .part behind).
type failAfterReader struct {
	data []byte
	n    int
}

func (r *failAfterReader) Read(p []byte) (int, error) {
	if r.n <= 0 {
		return 0, errors.New("verif: injected transport error")
	}
	k := copy(p, r.data[:r.n])
	r.data, r.n = r.data[k:], r.n-k
	return k, nil
}

// plainReader hides WriterTo so io.Copy uses its 32 KiB chunk loop (like an HTTP body).
type plainReader struct{ r io.Reader }

func (p plainReader) Read(b []byte) (int, error) { return p.r.Read(b) }

var c08Ops = []string{"Write", "WriteReader", "AppendAfterPartial", "AppendShortClean", "WriteReaderShortClean", "AppendReader", "Delete", "DeleteBatch", "RemoveDirectory",
	"List", "ListObjects", "ListDirectories", "GetFullPath", "Read", "ReadTo", "ReadToAt", "StatFile", "Exists"}

type c08Step struct {
	Op  string `json:"op"`
	Key string `json:"key"`
	Err string `json:"err,omitempty"`
}

func c08CheckListed(t *rapid.T, j *jail.Jail, op, key string, rels []string, mustExist bool) {
	for _, r := range rels {
		abs := filepath.Join(j.Root, r)
		if !j.Inside(abs) {
			t.Fatalf("VERIF-FAIL class=C08/listing-outside-root op=%s key=%q returned %q which resolves to %q", op, key, r, abs)
		}
		if mustExist {
			if _, err := os.Lstat(abs); err != nil {
				t.Fatalf("VERIF-FAIL class=C08/listing-phantom op=%s key=%q returned %q: %v", op, key, r, err)
			}
		}
	}
}

func c08CheckNoCanary(t *rapid.T, op, key string, got []byte) {
	if bytes.Contains(got, []byte(jail.Canary)) {
		t.Fatalf("VERIF-FAIL class=C08/read-outside-root op=%s key=%q returned bytes of a decoy outside the root: %q", op, key, got[:40])
	}
}

func TestVerifC08_Confinement(t *testing.T) {
	ctx := context.Background()
	j, err := jail.New(t.TempDir(), false)
	if err != nil {
		t.Fatalf("setup: %v", err)
	}
	rapid.Check(t, func(t *rapid.T) {
		// every case starts from the canonical jail (rebuilt only if the previous case changed it)
		snap, err := j.Reset(rapid.Bool().Draw(t, "rootPartDecoy"))
		if err != nil {
			t.Fatalf("setup: %v", err)
		}
		b, err := NewLocalBackend(j.Root, zerolog.Nop())
		if err != nil {
			t.Fatalf("setup: %v", err)
		}
		nOps := rapid.IntRange(1, 5).Draw(t, "nOps")
		var steps []c08Step
		for i := 0; i < nOps; i++ {
			key := jail.GenKey(t, j.DecoyPaths())
			op := rapid.SampledFrom(c08Ops).Draw(t, "op")
			data := []byte("payload-" + strconv.Itoa(i) + "-" + rapid.StringMatching(`[a-z]{0,20}`).Draw(t, "data"))

			if (op == "WriteReader" || op == "AppendReader" || op == "AppendAfterPartial" || op == "AppendShortClean" || op == "WriteReaderShortClean") && verifkit.Excluded(kfC08RootPart) &&
				b.GetFullPath(key) == j.Root {
				// shape of the open known finding: the backend itself says the key is the root
				verifkit.CountExcluded(kfC08RootPart)
				continue
			}

			verifkit.Eval()
			verifkit.Class("op:" + op)
			hostile := jail.IsHostile(key)
			if hostile {
				verifkit.Class("hostile-key")
				verifkit.NonTrivial(op + "\x00" + key)
				if verifkit.SampleCount() < 4 && len(key) < 80 && i == 0 {
					verifkit.Sample(map[string]string{"op": op, "key": fmt.Sprintf("%q", key)})
				}
			} else {
				verifkit.Class("benign-key")
			}

			var opErr error
			switch op {
			case "Write":
				opErr = b.Write(ctx, key, data)
				if opErr == nil {
					got, rerr := b.Read(ctx, key)
					if rerr != nil || !bytes.Equal(got, data) {
						t.Fatalf("VERIF-FAIL class=C08/write-not-readable key=%q: Write succeeded but Read gave %q, %v", key, got, rerr)
					}
				}
			case "WriteReader":
				opErr = b.WriteReader(ctx, key, plainReader{bytes.NewReader(data)}, int64(len(data)))
				if opErr == nil {
					got, rerr := b.Read(ctx, key)
					if rerr != nil || !bytes.Equal(got, data) {
						t.Fatalf("VERIF-FAIL class=C08/write-not-readable key=%q: WriteReader succeeded but Read gave %q, %v", key, got, rerr)
					}
				}
			case "AppendAfterPartial":
				cut := rapid.IntRange(0, len(data)).Draw(t, "cut")
				e1 := b.WriteReader(ctx, key, &failAfterReader{data: data, n: cut}, int64(len(data)))
				var viol string
				snap, _, viol = j.CheckConfined(snap)
				if viol != "" {
					t.Fatalf("VERIF-FAIL class=C08/escape-WriteReader key=%q (failing reader, err=%v): %s", key, e1, viol)
				}
				rest := data[cut:]
				opErr = b.AppendReader(ctx, key, plainReader{bytes.NewReader(rest)}, int64(len(rest)))
				if e1 != nil && opErr == nil {
					got, rerr := b.Read(ctx, key)
					if rerr != nil || !bytes.Equal(got, data) {
						t.Fatalf("VERIF-FAIL class=C08/append-not-readable key=%q cut=%d: resumed append succeeded but Read gave %q, %v", key, cut, got, rerr)
					}
					verifkit.Class("append-resumed-ok")
				}
			case "AppendShortClean", "WriteReaderShortClean":
				// A source that ends with a CLEAN io.EOF before delivering the announced
				// number of bytes (the sender died and its stream was closed gracefully).
				// The final name must never show the truncated bytes.
				fp := b.GetFullPath(key)
				var prev []byte
				prevExists := false
				if fp != "" {
					if st, err := os.Lstat(fp); err == nil && st.Mode().IsRegular() {
						prev, _ = os.ReadFile(fp)
						prevExists = true
					}
				}
				// finalState: "absent" (or not a regular file), "previous", "complete", or "" = something else
				finalState := func(complete []byte) (string, []byte) {
					if fp == "" || !j.Inside(fp) {
						return "absent", nil
					}
					cur, rerr := os.ReadFile(fp)
					switch {
					case rerr != nil:
						return "absent", nil
					case bytes.Equal(cur, complete):
						return "complete", cur
					case prevExists && bytes.Equal(cur, prev):
						return "previous", cur
					}
					return "", cur
				}
				if op == "WriteReaderShortClean" {
					got := rapid.IntRange(0, len(data)-1).Draw(t, "got")
					opErr = b.WriteReader(ctx, key, plainReader{bytes.NewReader(data[:got])}, int64(len(data)))
					// LocalBackend.WriteReader treats size as a hint: a cleanly ended stream IS the
					// object. What may appear under the final name is therefore exactly the delivered
					// stream (or nothing / the previous object) - never some other cut of it.
					if st, cur := finalState(data[:got]); st == "" {
						t.Fatalf("VERIF-FAIL class=C08/short-stream-final-garbled key=%q: reader delivered %d of %d announced bytes cleanly, final path holds %d bytes %q",
							key, got, len(data), len(cur), cur)
					} else {
						verifkit.Class("short-writereader-final:" + st)
					}
					break
				}
				cut := rapid.IntRange(0, len(data)-1).Draw(t, "cut")
				e1 := b.WriteReader(ctx, key, &failAfterReader{data: data, n: cut}, int64(len(data)))
				var viol string
				snap, _, viol = j.CheckConfined(snap)
				if viol != "" {
					t.Fatalf("VERIF-FAIL class=C08/escape-WriteReader key=%q (failing reader, err=%v): %s", key, e1, viol)
				}
				rest := data[cut:]
				got := rapid.IntRange(0, len(rest)-1).Draw(t, "got")
				opErr = b.AppendReader(ctx, key, plainReader{bytes.NewReader(rest[:got])}, int64(len(rest)))
				st, cur := finalState(data)
				if st == "" {
					t.Fatalf("VERIF-FAIL class=C08/short-append-promoted key=%q: .part held %d bytes, the resumed append announced %d bytes but its source ended cleanly after %d; the final path now holds %d bytes %q (intended %d bytes), err=%v",
						key, cut, len(rest), got, len(cur), cur, len(data), opErr)
				}
				verifkit.Class("short-append-final:" + st)
				if opErr == nil && fp != "" {
					// the partial must still be resumable: deliver the remainder, now the object is complete
					if e3 := b.AppendReader(ctx, key, plainReader{bytes.NewReader(rest[got:])}, int64(len(rest)-got)); e3 == nil {
						gotAll, rerr := b.Read(ctx, key)
						if rerr != nil || !bytes.Equal(gotAll, data) {
							t.Fatalf("VERIF-FAIL class=C08/short-append-not-resumable key=%q cut=%d got=%d: completing the resume succeeded but Read gave %q, %v", key, cut, got, gotAll, rerr)
						}
						verifkit.Class("short-append-then-completed")
					}
				}
			case "AppendReader":
				opErr = b.AppendReader(ctx, key, plainReader{bytes.NewReader(data)}, int64(len(data)))
			case "Delete":
				opErr = b.Delete(ctx, key)
			case "DeleteBatch":
				opErr = b.DeleteBatch(ctx, []string{key, jail.GenKey(t, j.DecoyPaths())})
			case "RemoveDirectory":
				opErr = b.RemoveDirectory(ctx, key)
			case "List":
				var rels []string
				rels, opErr = b.List(ctx, key)
				c08CheckListed(t, j, op, key, rels, true)
			case "ListObjects":
				var objs []ObjectInfo
				objs, opErr = b.ListObjects(ctx, key)
				rels := make([]string, len(objs))
				for i, o := range objs {
					rels[i] = o.Path
					if o.Size == jail.CanarySize {
						t.Fatalf("VERIF-FAIL class=C08/listing-outside-root op=%s key=%q reports the size of a decoy for %q", op, key, o.Path)
					}
				}
				c08CheckListed(t, j, op, key, rels, true)
			case "ListDirectories":
				var names []string
				names, opErr = b.ListDirectories(ctx, key)
				if opErr == nil {
					fp := b.GetFullPath(key)
					for _, n := range names {
						if fp == "" || !j.Inside(filepath.Join(fp, n)) {
							t.Fatalf("VERIF-FAIL class=C08/listing-outside-root op=%s key=%q returned dir %q under %q", op, key, n, fp)
						}
						// "rootx"/"jail" are the names of the directories next to / above the root; a key such as
						// "rootx/a" legitimately creates root/rootx, so the name alone proves nothing: it is a
						// leak only if no such directory exists under the resolved in-root path.
						if st, lerr := os.Lstat(filepath.Join(fp, n)); (n == "rootx" || n == "jail") && (lerr != nil || !st.IsDir()) {
							t.Fatalf("VERIF-FAIL class=C08/listing-outside-root op=%s key=%q lists a directory outside the root: %q", op, key, n)
						}
					}
				}
			case "GetFullPath":
				p := b.GetFullPath(key)
				if p != "" && (!j.Inside(p) || filepath.Clean(p) != p || !filepath.IsAbs(p)) {
					t.Fatalf("VERIF-FAIL class=C08/fullpath-outside-root key=%q resolved to %q (root %q)", key, p, j.Root)
				}
				if p == "" {
					verifkit.Class("rejected")
				}
			case "Read":
				var got []byte
				got, opErr = b.Read(ctx, key)
				c08CheckNoCanary(t, op, key, got)
			case "ReadTo":
				var buf bytes.Buffer
				opErr = b.ReadTo(ctx, key, &buf)
				c08CheckNoCanary(t, op, key, buf.Bytes())
			case "ReadToAt":
				var buf bytes.Buffer
				opErr = b.ReadToAt(ctx, key, &buf, int64(rapid.IntRange(0, 3).Draw(t, "off")))
				c08CheckNoCanary(t, op, key, buf.Bytes())
			case "StatFile":
				var sz int64
				sz, opErr = b.StatFile(ctx, key)
				if sz == jail.CanarySize || sz == jail.CanarySize+int64(len(data)) {
					t.Fatalf("VERIF-FAIL class=C08/stat-outside-root key=%q reports the size of a decoy outside the root (%d)", key, sz)
				}
			case "Exists":
				var ok bool
				ok, opErr = b.Exists(ctx, key)
				if ok {
					if fp := b.GetFullPath(key); fp == "" || !j.Inside(fp) {
						t.Fatalf("VERIF-FAIL class=C08/exists-outside-root key=%q exists=true but resolves to %q", key, fp)
					}
				}
			}
			st := c08Step{Op: op, Key: fmt.Sprintf("%q", key)}
			if opErr != nil {
				st.Err = opErr.Error()
				verifkit.Class("op-error")
			} else {
				verifkit.Class("op-ok")
			}
			steps = append(steps, st)

			var viol string
			var changes []jail.Change
			snap, changes, viol = j.CheckConfined(snap)
			if viol != "" {
				t.Fatalf("VERIF-FAIL class=C08/escape-%s key=%q err=%v: %s\nsteps: %+v", op, key, opErr, viol, steps)
			}
			if len(changes) > 0 {
				verifkit.Class("touched-fs")
			}
		}
	})
}

// Reproduction of the open known finding: WriteReader with a key that resolves
// to the root stages into "<root>.part" next to the root and leaves it there.
func TestVerifKF_C08_root_part(t *testing.T) {
	ctx := context.Background()
	reproduced := false
	var detail []string
	for _, key := range []string{"", "/", ".", "./", "\x00"} {
		base := t.TempDir()
		j, err := jail.New(base, false)
		if err != nil {
			t.Fatalf("setup: %v", err)
		}
		b, err := NewLocalBackend(j.Root, zerolog.Nop())
		if err != nil {
			t.Fatalf("setup: %v", err)
		}
		before, _ := j.Snap()
		werr := b.WriteReader(ctx, key, bytes.NewReader([]byte("attacker-bytes")), 14)
		_, _, viol := j.CheckConfined(before)
		if viol != "" {
			reproduced = true
			detail = append(detail, fmt.Sprintf("WriteReader(%q) err=%v: %s", key, werr, viol))
		}
	}
	// AppendReader appends to a pre-existing sibling "<root>.part"
	{
		base := t.TempDir()
		j, _ := jail.New(base, true)
		b, _ := NewLocalBackend(j.Root, zerolog.Nop())
		before, _ := j.Snap()
		aerr := b.AppendReader(ctx, ".", bytes.NewReader([]byte("more")), 99)
		if _, _, viol := j.CheckConfined(before); viol != "" {
			reproduced = true
			detail = append(detail, fmt.Sprintf("AppendReader(\".\") err=%v: %s", aerr, viol))
		}
	}
	// Write with such a key puts its temp file into the PARENT of the root; it is removed again
	// when the rename onto the root directory is refused, so it is only observable if the
	// process dies in between: kill the child on entry to the unlink that cleans it up.
	if _, err := exec.LookPath("strace"); err == nil && os.Getenv("VERIF_BIN") != "" {
		s := c08Scenario{Op: "write", Key: ".", Size: 10, StalePart: -1, seed: 1}
		if j, err := c08Setup(&s); err == nil {
			before, _ := j.Snap()
			for _, rn := range []string{"unlinkat", "unlink"} {
				_, killed, _, _, rerr := c08Run(j, &s, []c08Sys{{Name: rn}}, 0)
				if rerr != nil || !killed {
					continue
				}
				if _, _, viol := j.CheckConfined(before); viol != "" {
					reproduced = true
					detail = append(detail, fmt.Sprintf("Write(\".\") killed before its temp-file cleanup: %s", viol))
				}
				break
			}
			os.RemoveAll(j.Base)
		}
	}
	t.Logf("reproduced=%v\n%s", reproduced, strings.Join(detail, "\n"))
	verifkit.KnownFinding(kfC08RootPart, reproduced, strings.Join(detail, " | "))
}

// ---------------------------------------------------------------- crash points

// c08Content is the deterministic payload both parent and child derive.
func c08Content(seed, size int) []byte {
	b := make([]byte, size)
	x := uint32(seed)*2654435761 + 12345
	for i := range b {
		x = x*1664525 + 1013904223
		b[i] = byte(x >> 24)
	}
	return b
}

// c08ChildOp is the re-exec mode: perform ONE storage operation and exit.
func c08ChildOp() {
	root := os.Getenv("C08_ROOT")
	key := os.Getenv("C08_KEY")
	size, _ := strconv.Atoi(os.Getenv("C08_SIZE"))
	seed, _ := strconv.Atoi(os.Getenv("C08_SEED"))
	short, _ := strconv.Atoi(os.Getenv("C08_SHORT")) // bytes announced but never delivered (source ends with a clean EOF)
	b, err := NewLocalBackend(root, zerolog.Nop())
	if err != nil {
		fmt.Fprintln(os.Stderr, "child:", err)
		os.Exit(5)
	}
	data := c08Content(seed, size)
	ctx := context.Background()
	switch os.Getenv("C08_OP") {
	case "write":
		err = b.Write(ctx, key, data)
	case "writereader":
		err = b.WriteReader(ctx, key, plainReader{bytes.NewReader(data)}, int64(size))
	case "append":
		err = b.AppendReader(ctx, key, plainReader{bytes.NewReader(data)}, int64(size+short))
	default:
		err = errors.New("unknown C08_OP")
	}
	if err != nil {
		fmt.Fprintln(os.Stderr, "child:", err)
		os.Exit(4)
	}
}

// syscalls that create, remove, rename or change the content of files.
const c08Syscalls = "open,openat,openat2,creat,write,pwrite64,writev,pwritev,pwritev2,close,rename,renameat,renameat2," +
	"unlink,unlinkat,rmdir,mkdir,mkdirat,link,linkat,symlink,symlinkat,truncate,ftruncate,fallocate,fsync,fdatasync," +
	"sync_file_range,copy_file_range,sendfile,splice,chmod,fchmod,fchmodat"

type c08Scenario struct {
	Op         string `json:"op"`         // write | writereader | append
	Size       int    `json:"size"`       // bytes written by the operation
	Key        string `json:"key"`        //
	Overwrite  bool   `json:"overwrite"`  // final path already holds older content
	StalePart  int    `json:"stale_part"` // bytes of a pre-existing "<final>.part" (-1 none); for append: the prefix already staged
	FreshDirs  bool   `json:"fresh_dirs"` // parent directories do not exist yet
	Short      int    `json:"short"`      // append only: bytes announced (appendSize) beyond what the source delivers before its clean EOF
	seed       int
	intended   []byte
	oldContent []byte
}

func (s c08Scenario) name() string {
	n := fmt.Sprintf("%s/size=%d/overwrite=%v/part=%d/freshdirs=%v", s.Op, s.Size, s.Overwrite, s.StalePart, s.FreshDirs)
	if s.Short > 0 {
		n += fmt.Sprintf("/short-by=%d", s.Short)
	}
	return n
}

type c08Sys struct {
	Name string
	Line string
}

var c08LineRe = regexp.MustCompile(`^(\d+)\s+([a-z_0-9]+)\(`)

// c08ParseLog returns the traced syscall entries of the main thread, in order,
// and whether the log records a SIGKILL.
func c08ParseLog(path string) (entries []c08Sys, killed bool, err error) {
	raw, err := os.ReadFile(path)
	if err != nil {
		return nil, false, err
	}
	mainPid := ""
	for _, ln := range strings.Split(string(raw), "\n") {
		if strings.Contains(ln, "+++ killed by SIGKILL") {
			killed = true
		}
		m := c08LineRe.FindStringSubmatch(ln)
		if m == nil {
			continue
		}
		if mainPid == "" {
			mainPid = m[1]
		}
		if m[1] != mainPid {
			continue
		}
		entries = append(entries, c08Sys{Name: m[2], Line: ln})
	}
	return entries, killed, nil
}

// c08Setup builds a fresh jail with the scenario's precondition.
func c08Setup(s *c08Scenario) (*jail.Jail, error) {
	base, err := os.MkdirTemp("", "c08crash")
	if err != nil {
		return nil, err
	}
	j, err := jail.New(base, false)
	if err != nil {
		return nil, err
	}
	final := filepath.Join(j.Root, s.Key)
	if !s.FreshDirs || s.Overwrite || s.StalePart >= 0 {
		if err := os.MkdirAll(filepath.Dir(final), 0o700); err != nil {
			return nil, err
		}
	}
	s.oldContent = nil
	if s.Overwrite {
		s.oldContent = c08Content(s.seed+7, 1500)
		if err := os.WriteFile(final, s.oldContent, 0o600); err != nil {
			return nil, err
		}
	}
	data := c08Content(s.seed, s.Size)
	s.intended = data
	if s.StalePart >= 0 {
		part := c08Content(s.seed+3, s.StalePart)
		if err := os.WriteFile(final+".part", part, 0o600); err != nil {
			return nil, err
		}
		if s.Op == "append" {
			s.intended = append(append([]byte{}, part...), data...)
			if s.Short > 0 {
				// the announced tail is longer than what the source delivers: the complete
				// object never exists in this scenario, so the final name must stay untouched
				s.intended = append(s.intended, c08Content(s.seed+11, s.Short)...)
			}
		}
	}
	return j, nil
}

// c08Run executes the child under strace. killAt < 0 is the dry run (no
// injection); otherwise the child is SIGKILLed on entry to dry[killAt].
// strace keeps one `when=` counter per syscall number and per thread, so the
// kill point is addressed as "the n-th <name> of the main thread".
func c08Run(j *jail.Jail, s *c08Scenario, dry []c08Sys, killAt int) (entries []c08Sys, killed bool, exitCode int, stderr string, err error) {
	logf := filepath.Join(j.Base, "strace.log")
	// "?name" = do not fail on a syscall this architecture does not have
	args := []string{"-f", "-q", "-o", logf, "-e", "trace=?" + strings.ReplaceAll(c08Syscalls, ",", ",?")}
	if killAt >= 0 {
		ord := 0
		for i := 0; i <= killAt; i++ {
			if dry[i].Name == dry[killAt].Name {
				ord++
			}
		}
		args = append(args, "-e", fmt.Sprintf("inject=%s:signal=KILL:when=%d", dry[killAt].Name, ord))
	}
	args = append(args, os.Getenv("VERIF_BIN"))
	cmd := exec.Command("strace", args...)
	cmd.Env = []string{"PATH=" + os.Getenv("PATH"), "HOME=" + j.Base, "TMPDIR=" + j.Base, "GOMAXPROCS=2",
		"VERIF_MODE=c08-op", "C08_ROOT=" + j.Root, "C08_OP=" + s.Op, "C08_KEY=" + s.Key,
		"C08_SIZE=" + strconv.Itoa(s.Size), "C08_SEED=" + strconv.Itoa(s.seed), "C08_SHORT=" + strconv.Itoa(s.Short)}
	var eb bytes.Buffer
	cmd.Stderr = &eb
	rerr := cmd.Run()
	if rerr != nil {
		var ee *exec.ExitError
		if errors.As(rerr, &ee) {
			exitCode = ee.ExitCode() // -1 when strace re-raised the fatal signal
		} else {
			return nil, false, 0, eb.String(), fmt.Errorf("cannot run strace: %w", rerr)
		}
	}
	entries, killed, perr := c08ParseLog(logf)
	if perr != nil {
		return nil, false, exitCode, eb.String(), fmt.Errorf("cannot read strace log: %w (stderr %s)", perr, eb.String())
	}
	_ = os.Remove(logf)
	return entries, killed, exitCode, eb.String(), nil
}

func c08Scenarios() []c08Scenario {
	sizes := []int{0, 1, 70000}
	if verifkit.Tier() == "thorough" {
		sizes = []int{0, 1, 4096, 32769, 70000, 1<<18 + 1}
	}
	var out []c08Scenario
	key := "db/crash/2025/01/f.parquet"
	seed := 100
	add := func(s c08Scenario) { seed++; s.seed = seed; s.Key = key; out = append(out, s) }
	for _, sz := range sizes {
		for _, ow := range []bool{false, true} {
			add(c08Scenario{Op: "write", Size: sz, Overwrite: ow, StalePart: -1, FreshDirs: !ow})
			if verifkit.Tier() == "thorough" {
				add(c08Scenario{Op: "write", Size: sz, Overwrite: ow, StalePart: 900, FreshDirs: false})
			}
		}
		// writereader: fresh, overwrite, stale .part (longer and shorter than the new content), both
		add(c08Scenario{Op: "writereader", Size: sz, StalePart: -1, FreshDirs: true})
		add(c08Scenario{Op: "writereader", Size: sz, Overwrite: true, StalePart: -1})
		add(c08Scenario{Op: "writereader", Size: sz, StalePart: 40000})
		if verifkit.Tier() == "thorough" {
			add(c08Scenario{Op: "writereader", Size: sz, Overwrite: true, StalePart: 5})
			add(c08Scenario{Op: "writereader", Size: sz, StalePart: -1, FreshDirs: false})
		}
	}
	// resumed append: a prefix is already staged in .part
	asizes := []int{1, 70000}
	prefixes := []int{1000}
	if verifkit.Tier() == "thorough" {
		asizes = []int{0, 1, 32769, 70000, 1<<18 + 1}
		prefixes = []int{0, 1000, 40000}
	}
	for _, sz := range asizes {
		for _, pre := range prefixes {
			for _, ow := range []bool{false, true} {
				add(c08Scenario{Op: "append", Size: sz, Overwrite: ow, StalePart: pre})
			}
		}
	}
	// resumed append whose source ends cleanly BEFORE the announced tail is complete:
	// nothing may be promoted, at any kill point or when the call runs to completion
	shortSizes := []int{0, 40000}
	if verifkit.Tier() == "thorough" {
		shortSizes = []int{0, 1, 40000, 1 << 18}
	}
	for _, sz := range shortSizes {
		for _, ow := range []bool{false, true} {
			add(c08Scenario{Op: "append", Size: sz, Overwrite: ow, StalePart: 1000, Short: 5000})
		}
	}
	return out
}

type c08Outcome struct {
	violations []string // VERIF-FAIL texts
	harness    []string // harness problems (not verdicts)
	kills      int
	inData     int
}

// c08RunScenario does the dry run of one scenario and then kills the child on
// entry to every file-system syscall of the operation (plus a no-kill control).
func c08RunScenario(scn c08Scenario) (out c08Outcome) {
	s := scn
	hfail := func(f string, a ...any) c08Outcome {
		out.harness = append(out.harness, fmt.Sprintf("%s: ", s.name())+fmt.Sprintf(f, a...))
		return out
	}
	// ---- dry run: learn the syscall sequence of this scenario
	j0, err := c08Setup(&s)
	if err != nil {
		return hfail("setup: %v", err)
	}
	dry, killed, code, stderr, err := c08Run(j0, &s, nil, -1)
	os.RemoveAll(j0.Base)
	if err != nil || killed || code != 0 {
		return hfail("dry run failed: err=%v exit=%d killed=%v stderr=%s", err, code, killed, stderr)
	}
	first, firstWrite, rename := -1, -1, -1
	for i, e := range dry {
		if first < 0 && strings.Contains(e.Line, j0.Root) {
			first = i
		}
		if first >= 0 && firstWrite < 0 && (e.Name == "write" || e.Name == "pwrite64" || e.Name == "writev") {
			firstWrite = i
		}
		if first >= 0 && strings.HasPrefix(e.Name, "rename") {
			rename = i
		}
	}
	if s.Short > 0 && rename < 0 {
		rename = len(dry) // no promotion is expected: every syscall after the first write is "before the rename"
	}
	if first < 0 || rename < 0 {
		return hfail("dry run shows no file-system syscalls under the root (first=%d rename=%d): %v", first, rename, dry)
	}
	var names []string
	for _, e := range dry[first:] {
		names = append(names, e.Name)
	}
	verifkit.Note("syscalls:"+s.name(), strings.Join(names, " "))
	if verifkit.SampleCount() < 5 {
		verifkit.Sample(map[string]any{"scenario": s.name(), "syscalls_of_the_operation": strings.Join(names, " ")})
	}
	// ---- kill on entry to every syscall of the operation; i == len(dry) is the no-kill control
	for i := first; i <= len(dry); i++ {
		j, err := c08Setup(&s)
		if err != nil {
			return hfail("setup: %v", err)
		}
		before, _ := j.Snap()
		wantKill := i < len(dry)
		killAt := i
		where := "completed (no kill)"
		if wantKill {
			where = fmt.Sprintf("kill on entry to syscall #%d (%s) of %d", i-first+1, dry[i].Name, len(dry)-first)
		} else {
			killAt = -1
		}
		got, killed, code, stderr, err := c08Run(j, &s, dry, killAt)
		if err != nil {
			os.RemoveAll(j.Base)
			return hfail("%s: %v", where, err)
		}
		if killed != wantKill || (wantKill && (len(got) != i+1 || got[i].Name != dry[i].Name)) {
			// the child's syscall sequence differed from the dry run: harness problem, not a verdict
			os.RemoveAll(j.Base)
			return hfail("expected %s but killed=%v after %d traced syscalls (exit=%d stderr=%s)", where, killed, len(got), code, stderr)
		}
		verifkit.Eval()
		out.kills++
		verifkit.Class("op:" + s.Op)
		final := filepath.Join(j.Root, s.Key)
		content, rerr := os.ReadFile(final)
		state := ""
		switch {
		case rerr != nil && os.IsNotExist(rerr):
			state = "absent"
		case rerr != nil:
			os.RemoveAll(j.Base)
			return hfail("cannot read final path: %v", rerr)
		case bytes.Equal(content, s.intended):
			state = "complete"
		case s.Overwrite && bytes.Equal(content, s.oldContent):
			// the previous complete object is still in place - the write has not happened yet
			state = "previous-complete"
		default:
			state = "PARTIAL"
			verifkit.WriteReplay("c08-crash", map[string]any{"scenario": s, "kill": where, "final_len": len(content), "intended_len": len(s.intended)})
			out.violations = append(out.violations, fmt.Sprintf("VERIF-FAIL class=C08/partial-file-under-final-name scenario=%s %s: final path holds %d bytes that are neither the intended %d bytes nor the previous content",
				s.name(), where, len(content), len(s.intended)))
		}
		verifkit.Class("final:" + state)
		if !wantKill && s.Short > 0 {
			// uninterrupted short append: nothing is promoted and the partial stays resumable
			part, _ := os.ReadFile(final + ".part")
			if code != 0 || state == "complete" || len(part) != s.StalePart+s.Size {
				out.violations = append(out.violations, fmt.Sprintf("VERIF-FAIL class=C08/short-append-wrong scenario=%s: uninterrupted run exit=%d final=%s .part=%d bytes (want %d) stderr=%s",
					s.name(), code, state, len(part), s.StalePart+s.Size, stderr))
			}
		} else if !wantKill {
			if code != 0 || state != "complete" {
				out.violations = append(out.violations, fmt.Sprintf("VERIF-FAIL class=C08/completed-write-wrong scenario=%s: uninterrupted run exit=%d final=%s stderr=%s", s.name(), code, state, stderr))
			}
		} else if firstWrite >= 0 && i > firstWrite && i <= rename {
			out.inData++
			verifkit.NonTrivial(fmt.Sprintf("%s@%d", s.name(), i))
			verifkit.Class("kill-between-first-write-and-rename")
		}
		if _, _, viol := j.CheckConfined(before); viol != "" {
			out.violations = append(out.violations, fmt.Sprintf("VERIF-FAIL class=C08/crash-residue-outside-root scenario=%s %s: %s", s.name(), where, viol))
		}
		os.RemoveAll(j.Base)
	}
	return out
}

func TestVerifC08_CrashPoints(t *testing.T) {
	if _, err := exec.LookPath("strace"); err != nil {
		t.Fatalf("VERIF-HARNESS strace not available: %v", err)
	}
	if os.Getenv("VERIF_BIN") == "" {
		t.Fatalf("VERIF-HARNESS VERIF_BIN not set")
	}
	scns := c08Scenarios()
	// scenarios are independent processes on independent scratch dirs: run a few at a time
	workers := runtime.NumCPU() / 2
	if workers > 8 {
		workers = 8
	}
	if workers < 1 {
		workers = 1
	}
	results := make([]c08Outcome, len(scns))
	var wg sync.WaitGroup
	sem := make(chan struct{}, workers)
	for i := range scns {
		wg.Add(1)
		sem <- struct{}{}
		go func(i int) {
			defer wg.Done()
			defer func() { <-sem }()
			results[i] = c08RunScenario(scns[i])
		}(i)
	}
	wg.Wait()
	totalKills, landedInData := 0, 0
	var viol, harness []string
	for _, r := range results {
		totalKills += r.kills
		landedInData += r.inData
		viol = append(viol, r.violations...)
		harness = append(harness, r.harness...)
	}
	verifkit.Note("scenarios", len(scns))
	verifkit.Note("kill_points", totalKills)
	verifkit.Note("kill_points_between_first_write_and_rename", landedInData)
	t.Logf("C08 crash points: %d scenarios, %d runs, %d between first data write and rename", len(scns), totalKills, landedInData)
	if len(viol) > 0 {
		t.Fatalf("%d violations, first:\n%s", len(viol), strings.Join(viol, "\n"))
	}
	if len(harness) > 0 {
		t.Fatalf("VERIF-HARNESS crash-point enumeration incomplete (no verdict):\n%s", strings.Join(harness, "\n"))
	}
}
