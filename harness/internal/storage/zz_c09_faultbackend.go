//go:build verif

package storage

// Crash/fault-injecting wrapper around LocalBackend used by the /verif checks
// C09 (compaction) and C12 (tier migration). It is overlaid into this package
// at check time only (never committed to the repository).
//
// Every mutating call is a sequence of numbered *points*:
//
//	Write(path)            1 point   "before"
//	Delete(path)           1 point   "before"
//	RemoveDirectory(path)  1 point   "before"
//	DeleteBatch(paths)     1 point per path ("before" that path's delete)
//	WriteReader(path)      3 points  "before" (nothing staged),
//	                                 "mid"    (MidBytes bytes staged in <path>.part),
//	                                 "staged" (ALL bytes staged in <path>.part, not renamed)
//
// A crash "after" a mutation is the crash "before" the next one. CrashAt picks
// the point at which the process dies:
//
//	VerifPanic   panic(*VerifCrash) on the calling goroutine (the harness
//	             recovers it, drops every in-memory object and reopens the dirs)
//	VerifKill    SIGKILL to the own process (compaction subprocess)
//	VerifFreeze  the point and EVERY later call (reads included) fail with
//	             ErrVerifFrozen and have no effect - used where the code under
//	             test mutates storage on goroutines of its own, where a panic
//	             cannot be recovered by the harness; the still-running code can
//	             no longer touch storage, so the on-disk state is the crash state
//
// ErrAt scripts plain step failures (the point returns the error, no effect).

import (
	"context"
	"errors"
	"fmt"
	"io"
	"os"
	"strings"
	"sync"
	"syscall"
)

// VerifFaultMode selects how a crash point kills.
type VerifFaultMode int

const (
	VerifPanic VerifFaultMode = iota
	VerifKill
	VerifFreeze
)

// ErrVerifFrozen is returned by every call once a VerifFreeze crash fired.
var ErrVerifFrozen = errors.New("verif: storage frozen (simulated crash)")

// VerifPoint is one numbered crash point.
type VerifPoint struct {
	N     int    `json:"n"`
	Op    string `json:"op"`
	Path  string `json:"path"`
	Phase string `json:"phase"`
}

func (p VerifPoint) String() string { return fmt.Sprintf("#%d %s(%s)@%s", p.N, p.Op, p.Path, p.Phase) }

// VerifCrash is the panic sentinel of VerifPanic mode.
type VerifCrash struct{ Point VerifPoint }

func (c *VerifCrash) Error() string { return "verif crash at " + c.Point.String() }

// VerifFault is the wrapper. Zero CrashAt = never crash.
type VerifFault struct {
	Inner   *LocalBackend
	Mode    VerifFaultMode
	CrashAt int
	// MidFrac in (0,1): fraction of the stream staged before a "mid" crash
	// (default 0.5; always at least one byte short of the full stream).
	MidFrac float64
	// ErrAt: point number -> error returned at that point instead of acting.
	ErrAt map[int]error
	// Skip, when set, is asked before crashing; true = do not crash here (a
	// known-finding exclusion); the point is recorded in Skipped.
	Skip func(p VerifPoint, trace []VerifPoint) bool
	// CrashWhen, when set, selects the crash point symbolically (first point
	// for which it returns true), independent of CrashAt.
	CrashWhen func(p VerifPoint, trace []VerifPoint) bool
	// OnCrash is called just before dying (Kill mode: persist the trace).
	OnCrash func(p VerifPoint, trace []VerifPoint)
	// FailOp scripts a step failure by operation/path instead of by number.
	FailOp func(p VerifPoint) error
	// FailReadTo makes ReadTo deliver half of the file and then fail.
	FailReadTo func(path string) error
	// Peers are frozen together with this backend (one process, two tiers).
	Peers []*VerifFault

	mu      sync.Mutex
	n       int
	trace   []VerifPoint
	Crashed *VerifPoint
	Skipped []VerifPoint
	dead    bool
}

// NewVerifFault wraps a LocalBackend.
func NewVerifFault(inner *LocalBackend, mode VerifFaultMode, crashAt int) *VerifFault {
	return &VerifFault{Inner: inner, Mode: mode, CrashAt: crashAt, MidFrac: 0.5}
}

// Trace returns the points seen so far.
func (f *VerifFault) Trace() []VerifPoint {
	f.mu.Lock()
	defer f.mu.Unlock()
	return append([]VerifPoint(nil), f.trace...)
}

// Points returns how many points were numbered so far.
func (f *VerifFault) Points() int { f.mu.Lock(); defer f.mu.Unlock(); return f.n }

// Dead reports whether a freeze crash fired.
func (f *VerifFault) Dead() bool { f.mu.Lock(); defer f.mu.Unlock(); return f.dead }

func (f *VerifFault) frozen() bool { f.mu.Lock(); defer f.mu.Unlock(); return f.dead }

// alloc numbers a new point without evaluating it.
func (f *VerifFault) alloc(op, path, phase string) VerifPoint {
	f.mu.Lock()
	defer f.mu.Unlock()
	f.n++
	p := VerifPoint{N: f.n, Op: op, Path: path, Phase: phase}
	f.trace = append(f.trace, p)
	return p
}

// fire evaluates a numbered point: scripted error, crash, or nil.
func (f *VerifFault) fire(p VerifPoint) error {
	f.mu.Lock()
	if f.dead {
		f.mu.Unlock()
		return ErrVerifFrozen
	}
	if e, ok := f.ErrAt[p.N]; ok && e != nil {
		f.mu.Unlock()
		return e
	}
	if f.FailOp != nil {
		if e := f.FailOp(p); e != nil {
			f.mu.Unlock()
			return e
		}
	}
	trace := append([]VerifPoint(nil), f.trace...)
	hit := f.CrashAt != 0 && p.N == f.CrashAt
	if !hit && f.CrashWhen != nil && f.Crashed == nil {
		hit = f.CrashWhen(p, trace)
	}
	if !hit {
		f.mu.Unlock()
		return nil
	}
	if f.Skip != nil && f.Skip(p, trace) {
		f.Skipped = append(f.Skipped, p)
		f.mu.Unlock()
		return nil
	}
	pc := p
	f.Crashed = &pc
	if f.Mode == VerifFreeze {
		f.dead = true
	}
	f.mu.Unlock()
	if f.Mode == VerifFreeze {
		for _, q := range f.Peers {
			q.mu.Lock()
			q.dead = true
			q.mu.Unlock()
		}
	}
	if f.OnCrash != nil {
		f.OnCrash(p, trace)
	}
	switch f.Mode {
	case VerifPanic:
		panic(&VerifCrash{Point: p})
	case VerifKill:
		_ = syscall.Kill(os.Getpid(), syscall.SIGKILL)
		select {}
	}
	return ErrVerifFrozen
}

func (f *VerifFault) point(op, path, phase string) error { return f.fire(f.alloc(op, path, phase)) }

// ---- mutating calls

func (f *VerifFault) Write(ctx context.Context, path string, data []byte) error {
	if err := f.point("Write", path, "before"); err != nil {
		return err
	}
	return f.Inner.Write(ctx, path, data)
}

func (f *VerifFault) Delete(ctx context.Context, path string) error {
	if err := f.point("Delete", path, "before"); err != nil {
		return err
	}
	return f.Inner.Delete(ctx, path)
}

func (f *VerifFault) RemoveDirectory(ctx context.Context, path string) error {
	if err := f.point("RemoveDirectory", path, "before"); err != nil {
		return err
	}
	return f.Inner.RemoveDirectory(ctx, path)
}

// DeleteBatch mirrors LocalBackend.DeleteBatch (a loop of Delete joined with
// errors.Join) so that the crash between two deletes is reachable.
func (f *VerifFault) DeleteBatch(ctx context.Context, paths []string) error {
	var errs []error
	for _, p := range paths {
		if err := f.point("Delete", p, "before"); err != nil {
			errs = append(errs, fmt.Errorf("%s: %w", p, err))
			continue
		}
		if err := f.Inner.Delete(ctx, p); err != nil {
			errs = append(errs, fmt.Errorf("%s: %w", p, err))
		}
	}
	return errors.Join(errs...)
}

type verifCrashReader struct {
	f        *VerifFault
	r        io.Reader
	mid      VerifPoint
	staged   VerifPoint
	midAfter int64
	seen     int64
	midDone  bool
	eof      bool
}

func (c *verifCrashReader) Read(b []byte) (int, error) {
	if c.f.frozen() {
		return 0, ErrVerifFrozen
	}
	if !c.midDone && c.seen >= c.midAfter {
		c.midDone = true
		if err := c.f.fire(c.mid); err != nil {
			return 0, err
		}
	}
	if c.eof {
		// every byte has been handed to the writer; this is "fully staged"
		if err := c.f.fire(c.staged); err != nil {
			return 0, err
		}
		return 0, io.EOF
	}
	if !c.midDone {
		if room := c.midAfter - c.seen; int64(len(b)) > room {
			b = b[:room]
		}
	}
	n, err := c.r.Read(b)
	c.seen += int64(n)
	if err == io.EOF {
		c.eof = true
		if n > 0 {
			return n, nil
		}
		if !c.midDone {
			c.midDone = true
			if e := c.f.fire(c.mid); e != nil {
				return 0, e
			}
		}
		if e := c.f.fire(c.staged); e != nil {
			return 0, e
		}
		return 0, io.EOF
	}
	return n, err
}

func (f *VerifFault) WriteReader(ctx context.Context, path string, reader io.Reader, size int64) error {
	if err := f.point("WriteReader", path, "before"); err != nil {
		return err
	}
	frac := f.MidFrac
	if frac <= 0 || frac >= 1 {
		frac = 0.5
	}
	midAfter := int64(float64(size) * frac)
	if midAfter >= size {
		midAfter = size - 1
	}
	if midAfter < 0 {
		midAfter = 0
	}
	cr := &verifCrashReader{f: f, r: reader, midAfter: midAfter,
		mid: f.alloc("WriteReader", path, "mid"), staged: f.alloc("WriteReader", path, "staged")}
	return f.Inner.WriteReader(ctx, path, cr, size)
}

// ---- read-only calls

func (f *VerifFault) Read(ctx context.Context, path string) ([]byte, error) {
	if f.frozen() {
		return nil, ErrVerifFrozen
	}
	return f.Inner.Read(ctx, path)
}

func (f *VerifFault) ReadTo(ctx context.Context, path string, w io.Writer) error {
	if f.frozen() {
		return ErrVerifFrozen
	}
	if f.FailReadTo != nil {
		if e := f.FailReadTo(path); e != nil {
			if data, rerr := f.Inner.Read(ctx, path); rerr == nil {
				_, _ = w.Write(data[:len(data)/2])
			}
			return e
		}
	}
	return f.Inner.ReadTo(ctx, path, w)
}

func (f *VerifFault) ReadToAt(ctx context.Context, path string, w io.Writer, off int64) error {
	if f.frozen() {
		return ErrVerifFrozen
	}
	return f.Inner.ReadToAt(ctx, path, w, off)
}

func (f *VerifFault) StatFile(ctx context.Context, path string) (int64, error) {
	if f.frozen() {
		return -1, ErrVerifFrozen
	}
	return f.Inner.StatFile(ctx, path)
}

func (f *VerifFault) List(ctx context.Context, prefix string) ([]string, error) {
	if f.frozen() {
		return nil, ErrVerifFrozen
	}
	return f.Inner.List(ctx, prefix)
}

func (f *VerifFault) Exists(ctx context.Context, path string) (bool, error) {
	if f.frozen() {
		return false, ErrVerifFrozen
	}
	return f.Inner.Exists(ctx, path)
}

func (f *VerifFault) ListDirectories(ctx context.Context, prefix string) ([]string, error) {
	if f.frozen() {
		return nil, ErrVerifFrozen
	}
	return f.Inner.ListDirectories(ctx, prefix)
}

func (f *VerifFault) ListObjects(ctx context.Context, prefix string) ([]ObjectInfo, error) {
	if f.frozen() {
		return nil, ErrVerifFrozen
	}
	return f.Inner.ListObjects(ctx, prefix)
}

func (f *VerifFault) Close() error       { return f.Inner.Close() }
func (f *VerifFault) Type() string       { return f.Inner.Type() }
func (f *VerifFault) ConfigJSON() string { return f.Inner.ConfigJSON() }

// VerifIsManifestPath reports whether a storage key is a compaction manifest.
func VerifIsManifestPath(p string) bool { return strings.HasPrefix(p, "_compaction_state/") }

var (
	_ Backend          = (*VerifFault)(nil)
	_ BatchDeleter     = (*VerifFault)(nil)
	_ DirectoryLister  = (*VerifFault)(nil)
	_ DirectoryRemover = (*VerifFault)(nil)
	_ ObjectLister     = (*VerifFault)(nil)
)
